(* C17 — property theorems only.  Each is closed by [exact] of a lemma from
   Proofs*.v and followed by Print Assumptions.

   Vocabulary: [reach cfg0 ops] is the manager's state after the operations
   [ops] (observation reports, IsClosed flips, disconnect notifications,
   changes of the listen set and of ActivationThresh) from the empty state,
   started in configuration cfg0; [cfg_after cfg0 ops] is the configuration
   then current: the connection universe, cap and queried addresses of cfg0
   with the listen set and threshold as last set; [cobs] is connObservedTWAddrs, [ext] is externalAddrs;
   [cred_of cfg (cobs st)] is connObservedTWAddrs with each connection's local
   thin waist written next to it; [nobs cfg cred l x] is the number of distinct
   observer groups (IPv4 address / IPv6 /56) of the connections vouching for
   observed thin waist x on local thin waist l. *)
From Coq Require Import List Arith ZArith Bool.
From Verif Require Import lib.Wire c17.Model c17.Spec gen.Consts_c17.
From Verif Require Import c17.Proofs_amap c17.Proofs_ext c17.Proofs_inv c17.Proofs_obs c17.Proofs.
Import ListNotations.
Local Open Scope Z_scope.

(* THE property on traces: for every configuration (initial threshold and
   listen addresses, connection universe, queried addresses) whose cap is the
   constant read from /repo, and every finite history — including histories
   that change the listen set while connections stay open and that change
   ActivationThresh after the manager exists — the monitor of Spec.v, the one
   that is run on the implementation's traces, accepts the model's trace. *)
Theorem c17_monitor_accepts_model : forall cfg ops, cap cfg = the_cap ->
  holds cfg (trace cfg init_state ops) = true.
Proof. intros cfg ops H. apply holds_model. rewrite H, the_cap_three. apply le_n. Qed.
Print Assumptions c17_monitor_accepts_model.

(* refinement: externalAddrs[l][x].ObservedBy[g] is the number of entries of
   connObservedTWAddrs vouching for x on l as observer g; no zero counts, no
   empty observer sets, no empty per-local maps *)
Theorem c17_ext_is_multiset_of_connobs : forall cfg0 ops,
  let cfg := cfg_after cfg0 ops in
  let st := reach cfg0 ops in
  wf_ext (ext st) /\
  forall l x g, cnt (ext st) l x g = Z.of_nat (length (filter (credits cfg l x g) (cobs st))).
Proof. exact ext_is_multiset_l. Qed.
Print Assumptions c17_ext_is_multiset_of_connobs.

(* a connection is credited with at most one observation *)
Theorem c17_one_credit_per_conn : forall cfg0 ops,
  let cfg := cfg_after cfg0 ops in
  let st := reach cfg0 ops in
  NoDup (keys (cobs st)) /\
  (forall c x, In (c, x) (cobs st) -> valid_conn cfg c /\ get Z.eqb c (cobs st) = Some x).
Proof. exact one_credit_per_conn_l. Qed.
Print Assumptions c17_one_credit_per_conn.

(* loopback, NAT64, relayed, not-a-listen-address, no-thin-waist and
   inconsistent-transport reports never count: the report is not credited and,
   being the connection's newest report, withdraws the connection's previous
   one (the state is the one after removeConn) *)
Theorem c17_filtered_never_counts : forall cfg st c oa ci,
  conn_info cfg c = Some ci ->
  (o_lb oa = true \/ o_n64 oa = true \/ o_relay oa = true \/
   match c_local ci with
   | None => True
   | Some l => is_listen_tw cfg (tw_id l) = false
               \/ match o_tw oa with
                  | None => True
                  | Some x => consistent l x = false
                  end
   end) ->
  let st' := step cfg st (Observe c oa) in
  st' = remove_conn cfg st c /\ get Z.eqb c (cobs st') = None.
Proof. exact filtered_never_counts_l. Qed.
Print Assumptions c17_filtered_never_counts.

(* a report on a connection that is already closed is never credited *)
Theorem c17_closed_conn_never_credited : forall cfg st c oa,
  zmem c (closed st) = true ->
  let st' := step cfg st (Observe c oa) in
  st' = st \/ (st' = remove_conn cfg st c /\ get Z.eqb c (cobs st') = None).
Proof. exact closed_conn_never_credited_l. Qed.
Print Assumptions c17_closed_conn_never_credited.

(* more generally: whatever the spec says does not count adds no credit; it
   either changes nothing or withdraws the connection's previous report *)
Theorem c17_noncounting_report_adds_nothing : forall cfg st c oa,
  counts cfg (closed st) c oa = None ->
  step cfg st (Observe c oa) = if withdraws cfg c oa then remove_conn cfg st c else st.
Proof. exact counts_none_step. Qed.
Print Assumptions c17_noncounting_report_adds_nothing.

(* repeated reports from one observer group count once: len(ObservedBy) is the
   number of DISTINCT groups among the vouching connections, and two remotes
   have the same observer key iff they are the same IPv4 address / IPv6 /56 *)
Theorem c17_repeated_group_counts_once : forall cfg0 ops l x,
  let cfg := cfg_after cfg0 ops in
  let st := reach cfg0 ops in
  length (oset (ext st) l x) = nobs cfg (cred_of cfg (cobs st)) l x.
Proof. exact observed_by_is_distinct_groups_l. Qed.
Print Assumptions c17_repeated_group_counts_once.

Theorem c17_observer_key_is_group : forall r1 r2,
  observer_of r1 = observer_of r2 <-> group_of r1 = group_of r2.
Proof. exact observer_eq_iff_group_eq. Qed.
Print Assumptions c17_observer_key_is_group.

(* a counting report replaces the connection's previous one ... *)
Theorem c17_report_replaces_previous : forall cfg st c oa l x,
  counts cfg (closed st) c oa = Some (l, x) ->
  get Z.eqb c (cobs (step cfg st (Observe c oa))) = Some x.
Proof. exact observe_credits_l. Qed.
Print Assumptions c17_report_replaces_previous.

(* of two reports of one connection in quick succession the LATEST one is the
   one credited *)
Theorem c17_latest_report_counts : forall cfg st c oa ob l x,
  counts cfg (closed (step cfg st (Observe c oa))) c ob = Some (l, x) ->
  get Z.eqb c (cobs (step cfg st (ObservePair c oa ob))) = Some x.
Proof. exact latest_report_counts_l. Qed.
Print Assumptions c17_latest_report_counts.

(* ... and a disconnect withdraws it: afterwards the connection is credited
   with nothing, is closed, and externalAddrs is the multiset of the others *)
Theorem c17_remove_withdraws : forall cfg0 ops c,
  let cfg := cfg_after cfg0 ops in
  let st := reach cfg0 ops in
  let st' := step cfg st (Disconnect c) in
  get Z.eqb c (cobs st') = None /\
  zmem c (closed st') = true /\
  forall l x g, cnt (ext st') l x g =
                Z.of_nat (length (filter (credits cfg l x g) (del Z.eqb c (cobs st)))).
Proof. exact remove_withdraws_l. Qed.
Print Assumptions c17_remove_withdraws.

(* a connection that closes while its report is being processed — after the
   filters of shouldRecordObservation, at its listenAddrs() call, before the
   manager's lock is taken — is not credited: the state is exactly the one
   after the disconnect *)
Theorem c17_close_during_observation_not_credited : forall cfg st c oa,
  hook_fires cfg c oa = true ->
  let st' := step cfg st (ObserveDuring c oa c) in
  get Z.eqb c (cobs st') = None /\ zmem c (closed st') = true /\ st' = disconnect cfg st c.
Proof. exact close_during_observation_l. Qed.
Print Assumptions c17_close_during_observation_not_credited.

(* AddrsFor: only addresses with at least [thresh] distinct observer groups;
   conversely (thresh >= 1) every such address is returned unless the answer
   is full and every returned address has at least as many observers *)
Theorem c17_addrs_threshold : forall cfg0 ops l r,
  let cfg := cfg_after cfg0 ops in
  let st := reach cfg0 ops in
  let n := nobs cfg (cred_of cfg (cobs st)) l in
  let xs := addrs_for cfg st (Some l, r) in
  (forall x, In x xs -> thresh cfg <= Z.of_nat (n x)) /\
  (forall y, thresh cfg <= Z.of_nat (n y) -> 1 <= thresh cfg -> In y xs \/
     (length xs = cap cfg /\ forall x, In x xs -> (n y <= n x)%nat)).
Proof. exact addrs_threshold_l. Qed.
Print Assumptions c17_addrs_threshold.

(* "the activation threshold" is the CURRENT value of the exported package
   variable ActivationThresh: after it was set to n — at any point of the
   history, also after the manager was constructed — every address returned has
   at least n distinct observers; setting it changes nothing of the manager *)
Theorem c17_threshold_is_current : forall cfg0 ops n l r x,
  let cfg := cfg_after cfg0 (ops ++ [SetThresh n]) in
  let st := reach cfg0 (ops ++ [SetThresh n]) in
  In x (addrs_for cfg st (Some l, r)) ->
  n <= Z.of_nat (nobs cfg (cred_of cfg (cobs st)) l x).
Proof. exact threshold_is_current_l. Qed.
Print Assumptions c17_threshold_is_current.

Theorem c17_env_change_keeps_state : forall cfg0 ops o,
  (exists ls, o = SetListen ls) \/ (exists n, o = SetThresh n) ->
  reach cfg0 (ops ++ [o]) = reach cfg0 ops.
Proof. exact env_op_keeps_state. Qed.
Print Assumptions c17_env_change_keeps_state.

(* reports on connections not arriving at a (current) listen address never
   count — also for a connection that is already tracked: after the listen set
   became ls (its listener closed, the connection still open), a re-report of
   a connection whose local thin waist is not in ls is not credited and
   withdraws the connection's earlier report *)
Theorem c17_rereport_after_listener_closed : forall cfg0 ops ls c oa ci l,
  let cfg := cfg_after cfg0 (ops ++ [SetListen ls]) in
  let st := reach cfg0 (ops ++ [SetListen ls]) in
  conn_info cfg c = Some ci -> c_local ci = Some l ->
  existsb (fun la : laddr => match fst la with Some t => t =? tw_id l | None => false end) ls = false ->
  let st' := step cfg st (Observe c oa) in
  st' = remove_conn cfg st c /\ get Z.eqb c (cobs st') = None.
Proof. exact rereport_after_listener_closed_l. Qed.
Print Assumptions c17_rereport_after_listener_closed.

(* at most three (the specification's number; the cap is the constant read
   from /repo), no duplicates, most-observed first *)
Theorem c17_at_most_three_sorted : forall cfg0 ops la, cap cfg0 = the_cap ->
  let cfg := cfg_after cfg0 ops in
  let st := reach cfg0 ops in
  let xs := addrs_for cfg st la in
  (length xs <= 3)%nat /\ NoDup xs /\
  match fst la with
  | Some l => sorted_desc (map (nobs cfg (cred_of cfg (cobs st)) l) xs) = true
  | None => xs = []
  end.
Proof. exact at_most_three_sorted_l. Qed.
Print Assumptions c17_at_most_three_sorted.

(* Addrs(0): every element is an observed thin waist above the threshold for
   a listen address whose rest it carries *)
Theorem c17_addrs_all_sound : forall cfg0 ops x r,
  let cfg := cfg_after cfg0 ops in
  let st := reach cfg0 ops in
  In (x, r) (addrs_all cfg st) ->
  exists l, In (Some l, r) (listen cfg) /\
            thresh cfg <= Z.of_nat (nobs cfg (cred_of cfg (cobs st)) l x).
Proof. exact addrs_all_sound_l. Qed.
Print Assumptions c17_addrs_all_sound.

(* Addrs(0), per local address: it is the concatenation, over the distinct
   listen addresses, of that address's AddrsFor answer joined with its rest (each
   at most three and sorted by c17_at_most_three_sorted) ... *)
Theorem c17_addrs_all_per_local : forall cfg0 ops, cap cfg0 = the_cap ->
  let cfg := cfg_after cfg0 ops in
  let st := reach cfg0 ops in
  addrs_all cfg st =
    flat_map (fun la : laddr => map (fun x => (x, snd la)) (addrs_for cfg st la))
             (dedup_laddr [] (listen cfg)) /\
  (forall la, In la (dedup_laddr [] (listen cfg)) -> In la (listen cfg)) /\
  (forall la, (length (addrs_for cfg st la) <= 3)%nat).
Proof. exact addrs_all_per_local_l. Qed.
Print Assumptions c17_addrs_all_per_local.

(* ... and the clause of the monitor that judges this on the implementation's
   traces (Addrs(0) is covered, as a multiset, by the per-local AddrsFor answers
   of the same moment, which check_for judges in full) holds in every state of
   the model; it is part of mon_check, hence of c17_monitor_accepts_model.
   (This closes the former c17_addrs_all_per_local_partial: the missing part was
   a monitor clause attributing the elements of the flat list to local
   addresses; the attribution is by the per-local answers.) *)
Theorem c17_addrs_all_covered_by_addrs_for : forall cfg st,
  check_cover cfg (map (addrs_for cfg st) (queries cfg)) (addrs_all cfg st) = true.
Proof. exact check_cover_model. Qed.
Print Assumptions c17_addrs_all_covered_by_addrs_for.


(* regenerated constants: both caps are the specification's three, and the
   host-level truncation in addrs_manager.appendObservedAddrs drops nothing *)
Theorem c17_cap_is_three :
  maxExternalThinWaistAddrsPerLocalAddr = 3 /\ maxObservedAddrsPerListenAddr = 3.
Proof. exact cap_is_three_l. Qed.
Print Assumptions c17_cap_is_three.

Theorem c17_default_threshold_positive : 1 <= ActivationThresh.
Proof. exact default_threshold_positive_l. Qed.
Print Assumptions c17_default_threshold_positive.

Theorem c17_host_truncation_is_identity : forall cfg0 ops la, cap cfg0 = the_cap ->
  let cfg := cfg_after cfg0 ops in
  host_observed_for (Z.to_nat maxObservedAddrsPerListenAddr) cfg (reach cfg0 ops) la =
  addrs_for cfg (reach cfg0 ops) la.
Proof. exact host_truncation_l. Qed.
Print Assumptions c17_host_truncation_is_identity.

(* host level (addrs_manager.go): the views DirectAddrs / Addrs / HolePunchAddrs
   contain an observed address only while the observed address manager
   currently reports it (AddrsFor; for hole punching also Addrs(1)), and the
   host-level monitor accepts the model's views for every sequence of manager
   answers *)
Theorem c17_host_views_only_while_reported : forall priv x m0 m1,
  let v := host_view priv x m0 m1 in
  (hv_direct v = true -> m0 = true) /\
  (hv_addrs v = true -> m0 = true) /\
  (hv_hole v = true -> m0 = true \/ m1 = true) /\
  (m0 = false -> m1 = false -> v = mkHV false false false).
Proof. exact host_views_only_while_reported_l. Qed.
Print Assumptions c17_host_views_only_while_reported.

Theorem c17_host_monitor_accepts_model : forall priv ins,
  host_monitor (host_model_rows priv ins) = [].
Proof. exact host_monitor_model. Qed.
Print Assumptions c17_host_monitor_accepts_model.

Example host_monitor_rejects_stale_direct_addr :
  host_monitor [[(mkHX true true, (false, false), mkHV true false false)]] <> [].
Proof. vm_compute. discriminate. Qed.

(* ---- non-vacuity ------------------------------------------------------------ *)
(* threshold 2, one TCP listen address (thin waist 0), three connections on it:
   conn 0 and conn 2 from the same IPv4 address, conn 1 from another *)
Definition ex_tw := mkTW 0 4 6.
Definition ex_cfg : config :=
  mkCfg 2 the_cap [(Some 0, 0)] [(Some 0, 0)]
        [mkConn (Some ex_tw) (R4 16909057); mkConn (Some ex_tw) (R4 16909058); mkConn (Some ex_tw) (R4 16909057)].
Definition ex_obs : obsaddr := mkObs false false false (Some (mkTW 5 4 6)).

(* two reports from one observer group do not activate the address; a second group does *)
Example ex_same_group_not_enough :
  addrs_for ex_cfg (reach ex_cfg [Observe 0 ex_obs; Observe 2 ex_obs]) (Some 0, 0) = [].
Proof. vm_compute. reflexivity. Qed.

Example ex_two_groups_activate :
  addrs_for ex_cfg (reach ex_cfg [Observe 0 ex_obs; Observe 2 ex_obs; Observe 1 ex_obs]) (Some 0, 0) = [5].
Proof. vm_compute. reflexivity. Qed.

Example ex_disconnect_deactivates :
  addrs_for ex_cfg (reach ex_cfg [Observe 0 ex_obs; Observe 1 ex_obs; Disconnect 1]) (Some 0, 0) = [].
Proof. vm_compute. reflexivity. Qed.

(* a connection that re-reports a loopback address no longer vouches for its earlier report *)
Example ex_unusable_rereport_withdraws :
  addrs_for ex_cfg (reach ex_cfg [Observe 0 ex_obs; Observe 1 ex_obs;
                                  Observe 1 (mkObs true false false (Some (mkTW 9 4 6)))]) (Some 0, 0) = [].
Proof. vm_compute. reflexivity. Qed.

(* ... and the monitor rejects an implementation that keeps counting it (the
   behaviour of /repo before the fix) *)
Example monitor_rejects_stale_after_unusable_rereport :
  holds ex_cfg [(Observe 0 ex_obs, mkO [[]] [] false); (Observe 1 ex_obs, mkO [[5]] [(5, 0)] false);
                (Observe 1 (mkObs true false false (Some (mkTW 9 4 6))), mkO [[5]] [(5, 0)] false)] = false.
Proof. vm_compute. reflexivity. Qed.

(* the listener of thin waist 0 is closed while conn 1 stays open; conn 1 then
   re-reports another address: not at a listen address any more, so neither the
   new nor (withdrawn) the old report of conn 1 counts *)
Definition ex_obs7 : obsaddr := mkObs false false false (Some (mkTW 7 4 6)).
Example ex_rereport_after_listener_closed :
  trace (mkCfg 1 the_cap [(Some 0, 0)] [(Some 0, 0)] [mkConn (Some ex_tw) (R4 1); mkConn (Some ex_tw) (R4 2)]) init_state
        [Observe 0 ex_obs; Observe 1 ex_obs; SetListen []; Observe 1 ex_obs7] =
  [(Observe 0 ex_obs, mkO [[5]] [(5, 0)] false); (Observe 1 ex_obs, mkO [[5]] [(5, 0)] false);
   (SetListen [], mkO [[5]] [] false); (Observe 1 ex_obs7, mkO [[5]] [] false)].
Proof. vm_compute. reflexivity. Qed.

(* ... and the monitor rejects an implementation that skips the listen-address
   check for an already tracked connection and counts the re-report *)
Example monitor_rejects_rereport_counted_after_listener_closed :
  holds (mkCfg 1 the_cap [(Some 0, 0)] [(Some 0, 0)] [mkConn (Some ex_tw) (R4 1); mkConn (Some ex_tw) (R4 2)])
        [(Observe 0 ex_obs, mkO [[5]] [(5, 0)] false); (Observe 1 ex_obs, mkO [[5]] [(5, 0)] false);
         (SetListen [], mkO [[5]] [] false); (Observe 1 ex_obs7, mkO [[5; 7]] [] false)] = false.
Proof. vm_compute. reflexivity. Qed.

(* ActivationThresh raised from 2 to 3 after two groups activated the address:
   it is no longer reported; lowered again, it is *)
Example ex_threshold_raised_then_lowered :
  trace ex_cfg init_state [Observe 0 ex_obs; Observe 1 ex_obs; SetThresh 3; SetThresh 2] =
  [(Observe 0 ex_obs, mkO [[]] [] false); (Observe 1 ex_obs, mkO [[5]] [(5, 0)] false);
   (SetThresh 3, mkO [[]] [] false); (SetThresh 2, mkO [[5]] [(5, 0)] false)].
Proof. vm_compute. reflexivity. Qed.

(* ... and the monitor rejects an implementation that keeps using the threshold
   it read when it was constructed *)
Example monitor_rejects_stale_threshold :
  holds ex_cfg [(Observe 0 ex_obs, mkO [[]] [] false); (Observe 1 ex_obs, mkO [[5]] [(5, 0)] false);
                (SetThresh 3, mkO [[5]] [(5, 0)] false)] = false.
Proof. vm_compute. reflexivity. Qed.

(* the monitor rejects: an address reported on the strength of one group twice *)
Example monitor_rejects_repeated_group :
  holds ex_cfg [(Observe 0 ex_obs, mkO [[]] [] false); (Observe 2 ex_obs, mkO [[5]] [(5, 0)] false)] = false.
Proof. vm_compute. reflexivity. Qed.

(* ... an address kept after the connection that vouched for it was disconnected *)
Example monitor_rejects_stale_after_disconnect :
  holds ex_cfg [(Observe 0 ex_obs, mkO [[]] [] false); (Observe 1 ex_obs, mkO [[5]] [(5, 0)] false);
                (Disconnect 1, mkO [[5]] [(5, 0)] false)] = false.
Proof. vm_compute. reflexivity. Qed.

(* ... a connection credited although it closed while its report was processed
   (threshold 1 so that one observer is enough to see it) *)
Example monitor_rejects_credit_after_close_during_observation :
  holds (mkCfg 1 the_cap [(Some 0, 0)] [(Some 0, 0)] [mkConn (Some ex_tw) (R4 1)])
        [(ObserveDuring 0 ex_obs 0, mkO [[5]] [(5, 0)] true)] = false.
Proof. vm_compute. reflexivity. Qed.

Example model_ignores_report_of_conn_closed_during_observation :
  trace (mkCfg 1 the_cap [(Some 0, 0)] [(Some 0, 0)] [mkConn (Some ex_tw) (R4 1)]) init_state
        [ObserveDuring 0 ex_obs 0] = [(ObserveDuring 0 ex_obs 0, mkO [[]] [] true)].
Proof. vm_compute. reflexivity. Qed.

(* ... a loopback report counted *)
Example monitor_rejects_loopback_counted :
  holds ex_cfg [(Observe 0 ex_obs, mkO [[]] [] false);
                (Observe 1 (mkObs true false false (Some (mkTW 5 4 6))), mkO [[5]] [(5, 0)] false)] = false.
Proof. vm_compute. reflexivity. Qed.

(* ... four addresses for one local address, and a wrongly ordered answer *)
Example monitor_rejects_four :
  holds (mkCfg 0 the_cap [(Some 0, 0)] [(Some 0, 0)] []) [(MarkClosed 0, mkO [[1; 2; 3; 4]] [] false)] = false.
Proof. vm_compute. reflexivity. Qed.

Example monitor_rejects_wrong_order :
  holds (mkCfg 1 the_cap [(Some 0, 0)] [(Some 0, 0)]
               [mkConn (Some ex_tw) (R4 1); mkConn (Some ex_tw) (R4 2); mkConn (Some ex_tw) (R4 3)])
        [(Observe 0 ex_obs, mkO [[5]] [(5, 0)] false);
         (Observe 1 ex_obs, mkO [[5]] [(5, 0)] false);
         (Observe 2 (mkObs false false false (Some (mkTW 7 4 6))), mkO [[7; 5]] [(7, 0); (5, 0)] false)] = false.
Proof. vm_compute. reflexivity. Qed.

(* ... an Addrs(0) that reports for a local address more than AddrsFor does
   (a fourth address above the threshold; threshold 0 keeps the example short) *)
Example monitor_rejects_addrs0_beyond_addrs_for :
  mon_check (mkCfg 0 the_cap [(Some 0, 0); (Some 1, 0)] [(Some 0, 0); (Some 1, 0)] []) mon_init
            (mkO [[1; 2; 3]; []] [(1, 0); (2, 0); (3, 0); (4, 0)] false) = [-3].
Proof. vm_compute. reflexivity. Qed.

(* and accepts the right one *)
Example monitor_accepts_right_order :
  holds (mkCfg 1 the_cap [(Some 0, 0)] [(Some 0, 0)]
               [mkConn (Some ex_tw) (R4 1); mkConn (Some ex_tw) (R4 2); mkConn (Some ex_tw) (R4 3)])
        [(Observe 0 ex_obs, mkO [[5]] [(5, 0)] false);
         (Observe 1 ex_obs, mkO [[5]] [(5, 0)] false);
         (Observe 2 (mkObs false false false (Some (mkTW 7 4 6))), mkO [[5; 7]] [(5, 0); (7, 0)] false)] = true.
Proof. vm_compute. reflexivity. Qed.

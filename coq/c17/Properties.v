(* C17 — property theorems only. *)
From Coq Require Import List Arith ZArith Bool.
From Verif Require Import lib.Wire c17.Model c17.Spec c17.Proofs gen.Consts_c17.
Import ListNotations.

Theorem c17_cap_is_three :
  maxExternalThinWaistAddrsPerLocalAddr = 3%Z /\ maxObservedAddrsPerListenAddr = 3%Z.
Proof. exact cap_is_three_l. Qed.
Print Assumptions c17_cap_is_three.

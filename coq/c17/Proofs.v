(* C17 — lemmas.  (first end-to-end version; widened below) *)
From Coq Require Import List Arith ZArith Bool Lia.
From Verif Require Import lib.Wire c17.Model c17.Spec gen.Consts_c17.
Import ListNotations.

Lemma cap_is_three_l : maxExternalThinWaistAddrsPerLocalAddr = 3%Z /\ maxObservedAddrsPerListenAddr = 3%Z.
Proof. split; reflexivity. Qed.

(* C17 — the monitor of Spec.v accepts every trace of the model, and the
   individual clauses of the property. *)
From Coq Require Import List Arith ZArith Bool Lia Sorted.
From Verif Require Import lib.Wire c17.Model c17.Spec gen.Consts_c17.
From Verif Require Import c17.Proofs_amap c17.Proofs_ext c17.Proofs_inv c17.Proofs_obs c17.Proofs_sort.
Import ListNotations.
Local Open Scope Z_scope.

Lemma cap_is_three_l : maxExternalThinWaistAddrsPerLocalAddr = 3 /\ maxObservedAddrsPerListenAddr = 3.
Proof. split; reflexivity. Qed.

Lemma the_cap_three : the_cap = 3%nat.
Proof. reflexivity. Qed.

(* ---- reachability ---------------------------------------------------------- *)
Fixpoint mon_after (cfg : config) (m : mon) (ops : list op) : mon :=
  match ops with
  | [] => m
  | o :: r => mon_after (env_step cfg o) (mon_step cfg m o (fired cfg o)) r
  end.

Lemma Inv_run : forall ops cfg st m, Inv cfg st m ->
  Inv (cfg_after cfg ops) (run cfg st ops) (mon_after cfg m ops).
Proof.
  intros ops. induction ops as [|o r IH]; intros cfg st m H; [exact H|].
  cbn [run mon_after cfg_after]. apply IH, Inv_step, H.
Qed.

Lemma env_step_cap : forall cfg o, cap (env_step cfg o) = cap cfg.
Proof. intros cfg o. destruct o; reflexivity. Qed.

Lemma env_step_conns : forall cfg o, conns (env_step cfg o) = conns cfg.
Proof. intros cfg o. destruct o; reflexivity. Qed.

Lemma env_step_queries : forall cfg o, queries (env_step cfg o) = queries cfg.
Proof. intros cfg o. destruct o; reflexivity. Qed.

Lemma cfg_after_cap : forall ops cfg, cap (cfg_after cfg ops) = cap cfg.
Proof.
  intros ops. induction ops as [|o r IH]; intros cfg; [reflexivity|].
  cbn [cfg_after]. rewrite IH. apply env_step_cap.
Qed.

Lemma cfg_after_conns : forall ops cfg, conns (cfg_after cfg ops) = conns cfg.
Proof.
  intros ops. induction ops as [|o r IH]; intros cfg; [reflexivity|].
  cbn [cfg_after]. rewrite IH. apply env_step_conns.
Qed.

Lemma cfg_after_queries : forall ops cfg, queries (cfg_after cfg ops) = queries cfg.
Proof.
  intros ops. induction ops as [|o r IH]; intros cfg; [reflexivity|].
  cbn [cfg_after]. rewrite IH. apply env_step_queries.
Qed.

Lemma cfg_after_app : forall a b cfg, cfg_after cfg (a ++ b) = cfg_after (cfg_after cfg a) b.
Proof.
  intros a. induction a as [|o r IH]; intros b cfg; [reflexivity|].
  cbn [app cfg_after]. apply IH.
Qed.

Lemma run_app : forall a b cfg st, run cfg st (a ++ b) = run (cfg_after cfg a) (run cfg st a) b.
Proof.
  intros a. induction a as [|o r IH]; intros b cfg st; [reflexivity|].
  cbn [app run cfg_after]. apply IH.
Qed.

(* ---- getTopExternalAddrs ------------------------------------------------------ *)
Definition cands (e : extmap) (l th : Z) : list (Z * nat) :=
  map (fun p : Z * obsset => (fst p, length (snd p)))
      (filter (fun p : Z * obsset => th <=? Z.of_nat (length (snd p))) (getd Z.eqb l e [])).

Lemma top_external_eq : forall k e l th,
  top_external k e l th = firstn k (sort_sets (cands e l th)).
Proof. reflexivity. Qed.

Lemma inner_nodup : forall e l, wf_ext e -> NoDup (keys (getd Z.eqb l e [])).
Proof.
  intros e l [Hnd Hall]. unfold getd. destruct (get Z.eqb l e) eqn:E; [|constructor].
  apply (Hall l), (get_In Z.eqb zeqb_spec), E.
Qed.

Lemma In_inner_oset : forall e l x s, wf_ext e -> In (x, s) (getd Z.eqb l e []) -> oset e l x = s.
Proof.
  intros e l x s Hwf H. unfold oset. unfold getd at 1.
  rewrite (In_get Z.eqb zeqb_spec x s _ (inner_nodup e l Hwf) H). reflexivity.
Qed.

Lemma cands_In : forall cfg st m l th x k, Inv cfg st m ->
  In (x, k) (cands (ext st) l th) ->
  k = nobs cfg (m_cred m) l x /\ th <= Z.of_nat k /\ In x (keys (getd Z.eqb l (ext st) [])).
Proof.
  intros cfg st m l th x k HI H. unfold cands in H. apply in_map_iff in H.
  destruct H as [[x0 s] [Hp Hin]]. cbn [fst snd] in Hp. inversion Hp. subst x0 k. clear Hp.
  apply filter_In in Hin. destruct Hin as [Hin Hth]. cbn [snd] in Hth. apply Z.leb_le in Hth.
  rewrite <- (oset_length_nobs cfg st m l x HI).
  rewrite (In_inner_oset (ext st) l x s (inv_wf _ _ _ HI) Hin).
  repeat split; [exact Hth|]. change x with (fst (x, s)). apply in_map, Hin.
Qed.

Lemma cands_complete : forall cfg st m l th y s, Inv cfg st m ->
  get Z.eqb y (getd Z.eqb l (ext st) []) = Some s -> th <= Z.of_nat (length s) ->
  In (y, length s) (cands (ext st) l th).
Proof.
  intros cfg st m l th y s HI Hg Hth. unfold cands. apply in_map_iff. exists (y, s).
  split; [reflexivity|]. apply filter_In. split.
  - apply (get_In Z.eqb zeqb_spec), Hg.
  - cbn [snd]. apply Z.leb_le, Hth.
Qed.

Lemma sorted_desc_of_sorted : forall T, StronglySorted sle T -> sorted_desc (map snd T) = true.
Proof.
  intros T H. induction H as [|a r Hs IH Hall]; [reflexivity|].
  destruct r as [|b r']; [reflexivity|]. cbn [map sorted_desc] in *.
  rewrite IH, andb_true_r. apply Nat.leb_le. apply set_le_snd.
  rewrite Forall_forall in Hall. apply Hall. left. reflexivity.
Qed.

Lemma zmem_In : forall x l, zmem x l = true <-> In x l.
Proof.
  intros x l. unfold zmem. rewrite existsb_exists. split.
  - intros [y [H1 H2]]. apply Z.eqb_eq in H2. subst. exact H1.
  - intros H. exists x. split; [exact H|apply Z.eqb_refl].
Qed.

Lemma NoDup_app_left : forall {A} (a b : list A), NoDup (a ++ b) -> NoDup a.
Proof.
  intros A a b. induction a as [|x a IH]; [constructor|].
  cbn [app]. intros H. inversion H as [|? ? Hx H']. subst. constructor; [|apply IH, H'].
  intros Hin. apply Hx. apply in_or_app. left. exact Hin.
Qed.

(* the clauses of the property for one AddrsFor answer *)
Lemma addrs_for_props : forall cfg st m l r, Inv cfg st m ->
  let xs := addrs_for cfg st (Some l, r) in
  let n := nobs cfg (m_cred m) l in
  (forall x, In x xs -> thresh cfg <= Z.of_nat (n x)) /\
  (length xs <= cap cfg)%nat /\
  sorted_desc (map n xs) = true /\
  NoDup xs /\
  (forall y, ~ In y xs -> thresh cfg <= Z.of_nat (n y) ->
     (forall x, In x xs -> (n y <= n x)%nat) /\
     (n y = 0%nat \/ length xs = cap cfg)).
Proof.
  intros cfg st m l r HI. cbn zeta. unfold addrs_for. cbn [fst].
  rewrite top_external_eq.
  set (S := sort_sets (cands (ext st) l (thresh cfg))).
  set (T := firstn (cap cfg) S).
  assert (HS : forall x k, In (x, k) S -> k = nobs cfg (m_cred m) l x /\ thresh cfg <= Z.of_nat k
                                          /\ In x (keys (getd Z.eqb l (ext st) []))).
  { intros x k H. unfold S in H. apply (proj1 (sort_sets_In _ _)) in H.
    exact (cands_In cfg st m l (thresh cfg) x k HI H). }
  assert (HT : forall p, In p T -> In p S) by (intros p; apply firstn_incl).
  assert (Hsorted : StronglySorted sle S) by apply sort_sets_sorted.
  assert (Hmap : map (nobs cfg (m_cred m) l) (map fst T) = map snd T).
  { rewrite map_map. apply map_ext_in. intros [x k] Hp. cbn [fst snd].
    symmetry. apply (HS x k), HT, Hp. }
  (* distinct keys: the candidates come from a map with unique keys *)
  assert (HndS : NoDup (map fst S)).
  { assert (Hc : NoDup (map fst (cands (ext st) l (thresh cfg)))).
    { unfold cands. rewrite map_map. cbn [fst].
      pose proof (inner_nodup (ext st) l (inv_wf _ _ _ HI)) as Hk. unfold keys in Hk.
      revert Hk. generalize (getd Z.eqb l (ext st) []). intros L Hk.
      induction L as [|p L IH]; [constructor|]. cbn [filter map] in *.
      inversion Hk as [|? ? Hn Hk']. subst.
      destruct (thresh cfg <=? Z.of_nat (length (snd p))); [|apply IH, Hk'].
      cbn [map]. constructor; [|apply IH, Hk']. intros H. apply Hn.
      apply in_map_iff in H. destruct H as [q [Hq Hin]]. apply filter_In in Hin.
      rewrite <- Hq. apply in_map, Hin. }
    (* insertion keeps the multiset of keys *)
    assert (Hins : forall b L, NoDup (map fst (b :: L)) -> NoDup (map fst (insert b L))).
    { intros b L. induction L as [|c L IH]; cbn [insert]; [auto|].
      destruct (set_le b c); [auto|]. cbn [map]. intros H.
      inversion H as [|? ? Hb H']. inversion H' as [|? ? Hc' H'']. subst.
      constructor.
      - intros Hin. apply in_map_iff in Hin. destruct Hin as [q [Hq Hin]].
        apply insert_In in Hin. destruct Hin as [->|Hin].
        + apply Hb. left. symmetry. exact Hq.
        + apply Hc'. rewrite <- Hq. apply in_map, Hin.
      - apply IH. cbn [map]. constructor; [|exact H''].
        intros Hin. apply Hb. right. exact Hin. }
    unfold S. revert Hc. generalize (cands (ext st) l (thresh cfg)). intros L.
    induction L as [|b L IH]; [constructor|]. cbn [sort_sets fold_right]. fold (sort_sets L).
    intros H. apply Hins. cbn [map] in *. inversion H as [|? ? Hb H']. subst.
    constructor; [|apply IH, H']. intros Hin. apply Hb.
    apply in_map_iff in Hin. destruct Hin as [q [Hq Hin]]. apply (proj1 (sort_sets_In _ _)) in Hin.
    rewrite <- Hq. apply in_map, Hin. }
  assert (Hsplit : S = T ++ skipn (cap cfg) S) by (symmetry; apply firstn_skipn).
  repeat split.
  - intros x Hx. apply in_map_iff in Hx. destruct Hx as [[x0 k] [Hx Hp]]. cbn [fst] in Hx. subst x0.
    destruct (HS x k (HT _ Hp)) as [Hk [Hth _]]. rewrite <- Hk. exact Hth.
  - rewrite map_length. apply firstn_le_length.
  - rewrite Hmap. apply sorted_desc_of_sorted, sorted_firstn, Hsorted.
  - rewrite Hsplit, map_app in HndS. apply NoDup_app_left in HndS. exact HndS.
  - intros x Hx. apply in_map_iff in Hx. destruct Hx as [[x0 k] [Hx0 Hp]]. cbn [fst] in Hx0. subst x0.
    rename H into Hnot. rename H0 into Hth.
    destruct (HS x k (HT _ Hp)) as [Hk _]. rewrite <- Hk.
    destruct (get Z.eqb y (getd Z.eqb l (ext st) [])) as [s|] eqn:Eg.
    + assert (Hn : nobs cfg (m_cred m) l y = length s).
      { rewrite <- (oset_length_nobs cfg st m l y HI). unfold oset, getd at 1. rewrite Eg. reflexivity. }
      rewrite Hn in *.
      pose proof (cands_complete cfg st m l (thresh cfg) y s HI Eg Hth) as Hc.
      apply (proj2 (sort_sets_In _ _)) in Hc. fold S in Hc. rewrite Hsplit in Hc. apply in_app_or in Hc.
      destruct Hc as [Hc|Hc].
      * exfalso. apply Hnot. change y with (fst (y, length s)). apply in_map, Hc.
      * pose proof (sorted_prefix_suffix (cap cfg) S (x, k) (y, length s) Hsorted Hp Hc) as Hle.
        apply set_le_snd in Hle. exact Hle.
    + assert (Hn : nobs cfg (m_cred m) l y = 0%nat).
      { rewrite <- (oset_length_nobs cfg st m l y HI). unfold oset, getd at 1. rewrite Eg. reflexivity. }
      rewrite Hn. lia.
  - rename H into Hnot. rename H0 into Hth.
    destruct (get Z.eqb y (getd Z.eqb l (ext st) [])) as [s|] eqn:Eg.
    + right.
      assert (Hn : nobs cfg (m_cred m) l y = length s).
      { rewrite <- (oset_length_nobs cfg st m l y HI). unfold oset, getd at 1. rewrite Eg. reflexivity. }
      rewrite Hn in Hth.
      pose proof (cands_complete cfg st m l (thresh cfg) y s HI Eg Hth) as Hc.
      apply (proj2 (sort_sets_In _ _)) in Hc. fold S in Hc.
      rewrite map_length. unfold T.
      destruct (Nat.le_gt_cases (cap cfg) (length S)) as [Hle|Hgt].
      * apply firstn_length_le, Hle.
      * exfalso. apply Hnot. change y with (fst (y, length s)). apply in_map.
        unfold T. rewrite firstn_all2 by lia. exact Hc.
    + left. rewrite <- (oset_length_nobs cfg st m l y HI). unfold oset, getd at 1. rewrite Eg. reflexivity.
Qed.

(* ---- the monitor's checks hold on the model's answers --------------------------- *)
Lemma check_for_model : forall cfg st m la, Inv cfg st m -> (cap cfg <= 3)%nat ->
  check_for cfg (m_cred m) la (addrs_for cfg st la) = true.
Proof.
  intros cfg st m [[l|] r] HI Hcap; [|reflexivity].
  destruct (addrs_for_props cfg st m l r HI) as [P1 [P2 [P3 [_ P5]]]].
  unfold check_for. cbn [fst].
  set (xs := addrs_for cfg st (Some l, r)) in *.
  repeat (apply andb_true_intro; split).
  - apply forallb_forall. intros x Hx. apply Z.leb_le, P1, Hx.
  - apply Nat.leb_le. lia.
  - exact P3.
  - apply forallb_forall. intros y _.
    destruct (zmem y xs) eqn:Ez; [reflexivity|]. cbn [orb].
    destruct (thresh cfg <=? Z.of_nat (nobs cfg (m_cred m) l y)) eqn:Et; [|reflexivity].
    cbn [negb orb]. apply forallb_forall. intros x Hx. apply Nat.leb_le.
    apply Z.leb_le in Et. refine (proj1 (P5 y _ Et) x Hx).
    intros Hin. apply zmem_In in Hin. congruence.
Qed.

Lemma dedup_laddr_incl : forall l seen a, In a (dedup_laddr seen l) -> In a l.
Proof.
  induction l as [|b r IH]; intros seen a; cbn [dedup_laddr]; [intros []|].
  destruct (existsb (laddr_eqb b) seen).
  - intros H. right. apply (IH seen), H.
  - intros [H|H]; [left; exact H|right; apply (IH (b :: seen)), H].
Qed.

Lemma dedup_laddr_length : forall l seen, (length (dedup_laddr seen l) <= length l)%nat.
Proof.
  induction l as [|b r IH]; intros seen; cbn [dedup_laddr length]; [lia|].
  destruct (existsb (laddr_eqb b) seen); cbn [length].
  - specialize (IH seen). lia.
  - specialize (IH (b :: seen)). lia.
Qed.

Lemma flat_map_length_le : forall {A B} (f : A -> list B) k l,
  (forall a, In a l -> length (f a) <= k)%nat -> (length (flat_map f l) <= k * length l)%nat.
Proof.
  intros A B f k l. induction l as [|a r IH]; intros H; cbn [flat_map length]; [lia|].
  rewrite app_length. specialize (IH (fun b Hb => H b (or_intror Hb))).
  specialize (H a (or_introl eq_refl)). lia.
Qed.

Lemma addrs_for_length : forall cfg st m la, Inv cfg st m -> (length (addrs_for cfg st la) <= cap cfg)%nat.
Proof.
  intros cfg st m [[l|] r] HI; [|cbn; lia].
  apply (addrs_for_props cfg st m l r HI).
Qed.

Lemma check_all_model : forall cfg st m, Inv cfg st m -> (cap cfg <= 3)%nat ->
  check_all cfg (m_cred m) (addrs_all cfg st) = true.
Proof.
  intros cfg st m HI Hcap. unfold check_all, addrs_all. apply andb_true_intro. split.
  - apply forallb_forall. intros y Hy. apply in_flat_map in Hy. destruct Hy as [la [Hla Hy]].
    apply in_map_iff in Hy. destruct Hy as [x [Hy Hx]]. subst y. cbn [fst snd].
    apply dedup_laddr_incl in Hla. apply existsb_exists. exists la. split; [exact Hla|].
    destruct la as [[l|] r]; cbn [fst snd] in *; [|destruct Hx].
    rewrite Z.eqb_refl. cbn [andb]. apply Z.leb_le.
    apply (proj1 (addrs_for_props cfg st m l r HI)), Hx.
  - apply Nat.leb_le.
    eapply Nat.le_trans; [apply (flat_map_length_le _ 3)|].
    + intros la _. rewrite map_length. pose proof (addrs_for_length cfg st m la HI). lia.
    + pose proof (dedup_laddr_length (listen cfg) []). lia.
Qed.

Lemma check_fors_model : forall cfg st m qs i, Inv cfg st m -> (cap cfg <= 3)%nat ->
  check_fors cfg (m_cred m) i qs (map (addrs_for cfg st) qs) = [].
Proof.
  intros cfg st m qs. induction qs as [|q r IH]; intros i HI Hcap; [reflexivity|].
  cbn [map check_fors]. rewrite (check_for_model cfg st m q HI Hcap). apply IH; assumption.
Qed.

(* Addrs(0) is covered by the per-local answers *)
Lemma laddr_eqb_eq : forall a b, laddr_eqb a b = true -> a = b.
Proof.
  intros [[x|] r1] [[y|] r2]; unfold laddr_eqb; cbn [fst snd]; intros H;
    apply andb_prop in H; destruct H as [H1 H2]; try discriminate;
    apply Z.eqb_eq in H2; subst; [apply Z.eqb_eq in H1; subst|]; reflexivity.
Qed.

Lemma answer_for_model : forall (f : laddr -> list Z) qs la,
  existsb (laddr_eqb la) qs = true -> answer_for qs (map f qs) la = f la.
Proof.
  intros f qs la. unfold answer_for. induction qs as [|q r IH]; cbn [existsb map combine find fst]; [discriminate|].
  destruct (laddr_eqb q la) eqn:E1.
  - intros _. apply laddr_eqb_eq in E1. subst. reflexivity.
  - destruct (laddr_eqb la q) eqn:E2.
    + apply laddr_eqb_eq in E2. subst.
      assert (laddr_eqb q q = true).
      { destruct q as [[x|] r0]; unfold laddr_eqb; cbn [fst snd]; rewrite ?Z.eqb_refl; reflexivity. }
      congruence.
    + cbn [orb]. exact IH.
Qed.

Lemma pair_eqb_refl : forall y, pair_eqb y y = true.
Proof. intros [a b]. unfold pair_eqb. cbn [fst snd]. rewrite !Z.eqb_refl. reflexivity. Qed.

Lemma sub_ms_refl : forall l, sub_ms l l = true.
Proof.
  induction l as [|y r IH]; [reflexivity|]. cbn [sub_ms remove_one]. rewrite pair_eqb_refl. exact IH.
Qed.

Lemma check_cover_model : forall cfg st,
  check_cover cfg (map (addrs_for cfg st) (queries cfg)) (addrs_all cfg st) = true.
Proof.
  intros cfg st. unfold check_cover.
  destruct (forallb (fun la => existsb (laddr_eqb la) (queries cfg)) (dedup_laddr [] (listen cfg))) eqn:E;
    [|reflexivity].
  rewrite forallb_forall in E.
  replace (flat_map (fun la : laddr => map (fun x => (x, snd la))
                       (answer_for (queries cfg) (map (addrs_for cfg st) (queries cfg)) la))
                    (dedup_laddr [] (listen cfg)))
    with (addrs_all cfg st); [apply sub_ms_refl|].
  unfold addrs_all. revert E. generalize (dedup_laddr [] (listen cfg)). intros L E.
  induction L as [|la r IH]; [reflexivity|]. cbn [flat_map].
  rewrite (answer_for_model (addrs_for cfg st) (queries cfg) la (E la (or_introl eq_refl))).
  f_equal. apply IH. intros x Hx. apply E. right. exact Hx.
Qed.

Lemma mon_check_model : forall cfg st m f, Inv cfg st m -> (cap cfg <= 3)%nat ->
  mon_check cfg m (observe cfg st f) = [].
Proof.
  intros cfg st m f HI Hcap. unfold mon_check, observe. cbn [o_for o_all].
  rewrite (check_fors_model cfg st m (queries cfg) 0 HI Hcap).
  rewrite (check_all_model cfg st m HI Hcap).
  rewrite (check_cover_model cfg st). reflexivity.
Qed.

(* THE theorem: the monitor run on the implementation's traces accepts every
   trace of the model, from every reachable pair of states *)
Lemma mon_run_model : forall ops cfg st m i, Inv cfg st m -> (cap cfg <= 3)%nat ->
  mon_run cfg m i (trace cfg st ops) = [].
Proof.
  intros ops. induction ops as [|o r IH]; intros cfg st m i HI Hcap; [reflexivity|].
  cbn [trace mon_run]. cbn [observe o_fired]. pose proof (Inv_step cfg st m o HI) as HI'.
  fold (observe (env_step cfg o) (step cfg st o) (fired cfg o)).
  assert (Hcap' : (cap (env_step cfg o) <= 3)%nat) by (rewrite env_step_cap; exact Hcap).
  rewrite (mon_check_model (env_step cfg o) _ _ (fired cfg o) HI' Hcap'). apply IH; assumption.
Qed.

Lemma holds_model : forall cfg ops, (cap cfg <= 3)%nat -> holds cfg (trace cfg init_state ops) = true.
Proof.
  intros cfg ops Hcap. unfold holds. rewrite (mon_run_model ops cfg _ _ 0 (Inv_init cfg) Hcap). reflexivity.
Qed.

(* ---- individual sentences of the property ------------------------------------------ *)
Definition reach (cfg : config) (ops : list op) : state := run cfg init_state ops.

Lemma Inv_reach : forall cfg ops, Inv (cfg_after cfg ops) (reach cfg ops) (mon_after cfg mon_init ops).
Proof. intros. apply Inv_run, Inv_init. Qed.

(* externalAddrs is the multiset of the observations credited in
   connObservedTWAddrs, with no zero counts and no empty entries *)
Lemma ext_is_multiset_l : forall cfg0 ops,
  let cfg := cfg_after cfg0 ops in
  let st := reach cfg0 ops in
  wf_ext (ext st) /\
  forall l x g, cnt (ext st) l x g = Z.of_nat (length (filter (credits cfg l x g) (cobs st))).
Proof.
  intros cfg0 ops. cbn zeta. pose proof (Inv_reach cfg0 ops) as HI.
  split; [apply (inv_wf _ _ _ HI)|apply (inv_cnt _ _ _ HI)].
Qed.

Lemma one_credit_per_conn_l : forall cfg0 ops,
  let cfg := cfg_after cfg0 ops in
  let st := reach cfg0 ops in
  NoDup (keys (cobs st)) /\
  (forall c x, In (c, x) (cobs st) -> valid_conn cfg c /\ get Z.eqb c (cobs st) = Some x).
Proof.
  intros cfg0 ops. cbn zeta. pose proof (Inv_reach cfg0 ops) as HI. split.
  - apply (inv_nodup _ _ _ HI).
  - intros c x H. split; [apply (inv_valid _ _ _ HI c x H)|].
    apply (In_get Z.eqb zeqb_spec); [apply (inv_nodup _ _ _ HI)|exact H].
Qed.

Lemma remove_conn_cobs : forall cfg st c, cobs (remove_conn cfg st c) = del Z.eqb c (cobs st).
Proof.
  intros cfg st c. unfold remove_conn.
  destruct (get Z.eqb c (cobs st)) eqn:Eg.
  - destruct (conn_info cfg c) as [ci|]; [|reflexivity].
    destruct (c_local ci); [|reflexivity]. destruct (observer_of (c_remote ci)); reflexivity.
  - symmetry. apply (del_notin Z.eqb zeqb_spec), (get_None_notin Z.eqb zeqb_spec), Eg.
Qed.

Lemma remove_conn_nothing : forall cfg st c, get Z.eqb c (cobs st) = None -> remove_conn cfg st c = st.
Proof. intros cfg st c H. unfold remove_conn. rewrite H. reflexivity. Qed.

(* a report that does not count never adds a credit: either nothing changes
   (countable content on a closed connection / without observer), or its
   content is of a class that never counts and then the connection's previous
   observation is withdrawn (removeConn) *)
Lemma counts_none_step : forall cfg st c oa,
  counts cfg (closed st) c oa = None ->
  step cfg st (Observe c oa) = if withdraws cfg c oa then remove_conn cfg st c else st.
Proof.
  intros cfg st c oa H. cbn [step]. pose proof (record_counts cfg st c oa) as R.
  rewrite H in R. exact R.
Qed.

Lemma filtered_never_counts_l : forall cfg st c oa ci,
  conn_info cfg c = Some ci ->
  (o_lb oa = true \/ o_n64 oa = true \/ o_relay oa = true \/
   match c_local ci with
   | None => True                                  (* local address without a thin waist *)
   | Some l => is_listen_tw cfg (tw_id l) = false  (* not arriving at a listen address *)
               \/ match o_tw oa with
                  | None => True                   (* observed address without a thin waist *)
                  | Some x => consistent l x = false   (* inconsistent transport *)
                  end
   end) ->
  let st' := step cfg st (Observe c oa) in
  st' = remove_conn cfg st c /\ get Z.eqb c (cobs st') = None.
Proof.
  intros cfg st c oa ci Eci H. cbn zeta.
  assert (Hc : content_counts cfg ci oa = false).
  { unfold content_counts. destruct H as [H|[H|[H|H]]].
    - rewrite H. reflexivity.
    - rewrite H, orb_true_r. reflexivity.
    - rewrite H, !orb_true_r. reflexivity.
    - destruct (negb (o_lb oa || o_n64 oa || o_relay oa)); [|reflexivity]. cbn [andb].
      destruct (c_local ci) as [l|]; [|reflexivity].
      destruct (o_tw oa) as [x|]; [|reflexivity].
      destruct H as [H|H]; rewrite H; rewrite ?andb_false_r; reflexivity. }
  assert (Hn : counts cfg (closed st) c oa = None).
  { unfold counts. rewrite Eci. destruct (zmem c (closed st)); [reflexivity|].
    unfold content_counts in Hc.
    destruct (o_lb oa || o_n64 oa || o_relay oa); [reflexivity|]. cbn [negb andb] in Hc.
    destruct (c_local ci) as [l|]; [|reflexivity].
    destruct (o_tw oa) as [x|]; [|reflexivity].
    destruct (group_of (c_remote ci)); [|reflexivity]. rewrite Hc. reflexivity. }
  rewrite (counts_none_step cfg st c oa Hn). unfold withdraws. rewrite Eci, Hc. cbn [negb].
  split; [reflexivity|]. rewrite remove_conn_cobs. apply get_del_same.
Qed.

(* a report on a connection that is already closed is never credited *)
Lemma closed_conn_never_credited_l : forall cfg st c oa,
  zmem c (closed st) = true ->
  let st' := step cfg st (Observe c oa) in
  st' = st \/ (st' = remove_conn cfg st c /\ get Z.eqb c (cobs st') = None).
Proof.
  intros cfg st c oa Hz. cbn zeta.
  assert (Hn : counts cfg (closed st) c oa = None).
  { unfold counts. destruct (conn_info cfg c); [|reflexivity]. rewrite Hz. reflexivity. }
  rewrite (counts_none_step cfg st c oa Hn). destruct (withdraws cfg c oa); [right|left; reflexivity].
  split; [reflexivity|]. rewrite remove_conn_cobs. apply get_del_same.
Qed.

(* a counting report becomes the connection's one credited observation *)
Lemma observe_credits_l : forall cfg st c oa l x,
  counts cfg (closed st) c oa = Some (l, x) ->
  get Z.eqb c (cobs (step cfg st (Observe c oa))) = Some x.
Proof.
  intros cfg st c oa l x H. cbn [step]. pose proof (record_counts cfg st c oa) as R.
  rewrite H in R. destruct R as [ci [tl [g [_ [_ [_ [_ R]]]]]]]. rewrite R.
  destruct (get Z.eqb c (cobs st)) as [prev|] eqn:Eg.
  - destruct (prev =? x) eqn:E.
    + apply Z.eqb_eq in E. subst. exact Eg.
    + cbn [cobs]. apply (get_set_same Z.eqb zeqb_spec).
  - cbn [cobs]. apply (get_set_same Z.eqb zeqb_spec).
Qed.

(* disconnecting withdraws the connection's credit, and only that *)
Lemma disconnect_cobs : forall cfg st c,
  cobs (step cfg st (Disconnect c)) = del Z.eqb c (cobs st).
Proof.
  intros cfg st c. cbn [step]. unfold disconnect, remove_conn. cbn [mark_closed cobs].
  destruct (get Z.eqb c (cobs st)) eqn:Eg.
  - destruct (conn_info cfg c) as [ci|]; [|reflexivity].
    destruct (c_local ci); [|reflexivity]. destruct (observer_of (c_remote ci)); reflexivity.
  - cbn [cobs]. symmetry. apply (del_notin Z.eqb zeqb_spec), (get_None_notin Z.eqb zeqb_spec), Eg.
Qed.

Lemma remove_withdraws_l : forall cfg0 ops c,
  let cfg := cfg_after cfg0 ops in
  let st := reach cfg0 ops in
  let st' := step cfg st (Disconnect c) in
  get Z.eqb c (cobs st') = None /\
  zmem c (closed st') = true /\
  forall l x g, cnt (ext st') l x g =
                Z.of_nat (length (filter (credits cfg l x g) (del Z.eqb c (cobs st)))).
Proof.
  intros cfg0 ops c. cbn zeta. pose proof (Inv_reach cfg0 ops) as HI.
  set (cfg := cfg_after cfg0 ops) in *.
  pose proof (Inv_step cfg _ _ (Disconnect c) HI) as HI'. cbn [env_step] in HI'.
  repeat split.
  - rewrite disconnect_cobs. apply get_del_same.
  - cbn [step]. unfold disconnect, remove_conn. cbn [mark_closed ext cobs closed].
    assert (Hz : zmem c (if zmem c (closed (reach cfg0 ops)) then closed (reach cfg0 ops)
                         else c :: closed (reach cfg0 ops)) = true).
    { destruct (zmem c (closed (reach cfg0 ops))) eqn:E; [exact E|].
      unfold zmem. cbn [existsb]. rewrite Z.eqb_refl. reflexivity. }
    destruct (get Z.eqb c (cobs (reach cfg0 ops))); [|exact Hz].
    destruct (conn_info cfg c) as [ci|]; [|exact Hz].
    destruct (c_local ci); [|exact Hz]. destruct (observer_of (c_remote ci)); exact Hz.
  - intros l x g. rewrite (inv_cnt _ _ _ HI'). rewrite disconnect_cobs. reflexivity.
Qed.

(* the answers: threshold, cap, order, and completeness up to the cap *)
Lemma addrs_threshold_l : forall cfg0 ops l r,
  let cfg := cfg_after cfg0 ops in
  let st := reach cfg0 ops in
  let n := nobs cfg (cred_of cfg (cobs st)) l in
  let xs := addrs_for cfg st (Some l, r) in
  (forall x, In x xs -> thresh cfg <= Z.of_nat (n x)) /\
  (forall y, thresh cfg <= Z.of_nat (n y) -> 1 <= thresh cfg -> In y xs \/
     (length xs = cap cfg /\ forall x, In x xs -> (n y <= n x)%nat)).
Proof.
  intros cfg0 ops l r. cbn zeta. pose proof (Inv_reach cfg0 ops) as HI.
  set (cfg := cfg_after cfg0 ops) in *.
  destruct (addrs_for_props cfg _ _ l r HI) as [P1 [_ [_ [_ P5]]]].
  rewrite (inv_cred _ _ _ HI) in *. split; [exact P1|].
  intros y Hy Hpos.
  destruct (in_dec Z.eq_dec y (addrs_for cfg (reach cfg0 ops) (Some l, r))) as [Hin|Hnot]; [left; exact Hin|].
  right. destruct (P5 y Hnot Hy) as [Q1 [Q2|Q2]]; [lia|]. split; assumption.
Qed.

Lemma at_most_three_sorted_l : forall cfg0 ops la, cap cfg0 = the_cap ->
  let cfg := cfg_after cfg0 ops in
  let st := reach cfg0 ops in
  let xs := addrs_for cfg st la in
  (length xs <= 3)%nat /\ NoDup xs /\
  match fst la with
  | Some l => sorted_desc (map (nobs cfg (cred_of cfg (cobs st)) l) xs) = true
  | None => xs = []
  end.
Proof.
  intros cfg0 ops [[l|] r] Hcap; cbn zeta; cbn [fst].
  - pose proof (Inv_reach cfg0 ops) as HI.
    destruct (addrs_for_props _ _ _ l r HI) as [_ [P2 [P3 [P4 _]]]].
    rewrite (inv_cred _ _ _ HI) in *. rewrite cfg_after_cap, Hcap, the_cap_three in P2. repeat split; assumption.
  - repeat split; [cbn; lia|constructor].
Qed.

Lemma addrs_all_sound_l : forall cfg0 ops x r,
  let cfg := cfg_after cfg0 ops in
  let st := reach cfg0 ops in
  In (x, r) (addrs_all cfg st) ->
  exists l, In (Some l, r) (listen cfg) /\
            thresh cfg <= Z.of_nat (nobs cfg (cred_of cfg (cobs st)) l x).
Proof.
  intros cfg0 ops x r. cbn zeta. pose proof (Inv_reach cfg0 ops) as HI.
  set (cfg := cfg_after cfg0 ops) in *. intros H.
  unfold addrs_all in H. apply in_flat_map in H. destruct H as [la [Hla H]].
  apply in_map_iff in H. destruct H as [x0 [E Hx]]. inversion E. subst x0 r. clear E.
  apply dedup_laddr_incl in Hla. destruct la as [[l|] r]; cbn [fst snd] in *; [|destruct Hx].
  exists l. split; [exact Hla|]. rewrite <- (inv_cred _ _ _ HI).
  apply (proj1 (addrs_for_props cfg _ _ l r HI)), Hx.
Qed.

(* the host-level truncation in addrs_manager.appendObservedAddrs drops nothing *)
Lemma host_truncation_l : forall cfg0 ops la, cap cfg0 = the_cap ->
  let cfg := cfg_after cfg0 ops in
  host_observed_for (Z.to_nat maxObservedAddrsPerListenAddr) cfg (reach cfg0 ops) la =
  addrs_for cfg (reach cfg0 ops) la.
Proof.
  intros cfg0 ops la Hcap. cbn zeta. unfold host_observed_for. apply firstn_all2.
  pose proof (addrs_for_length _ _ _ la (Inv_reach cfg0 ops)) as H.
  rewrite cfg_after_cap, Hcap, the_cap_three in H. change (Z.to_nat maxObservedAddrsPerListenAddr) with 3%nat. exact H.
Qed.

(* len(ObservedBy) counts observer groups once, whatever the multiplicity *)
Lemma observed_by_is_distinct_groups_l : forall cfg0 ops l x,
  let cfg := cfg_after cfg0 ops in
  let st := reach cfg0 ops in
  length (oset (ext st) l x) = nobs cfg (cred_of cfg (cobs st)) l x.
Proof.
  intros cfg0 ops l x. cbn zeta. pose proof (Inv_reach cfg0 ops) as HI.
  rewrite <- (inv_cred _ _ _ HI). apply oset_length_nobs, HI.
Qed.

(* Addrs(0) is, per distinct listen address in listen order, that address's
   AddrsFor answer joined with its rest: so the per-local cap and order of
   AddrsFor carry over to Addrs(0) segment by segment *)
Lemma addrs_all_per_local_l : forall cfg0 ops, cap cfg0 = the_cap ->
  let cfg := cfg_after cfg0 ops in
  let st := reach cfg0 ops in
  addrs_all cfg st =
    flat_map (fun la : laddr => map (fun x => (x, snd la)) (addrs_for cfg st la))
             (dedup_laddr [] (listen cfg)) /\
  (forall la, In la (dedup_laddr [] (listen cfg)) -> In la (listen cfg)) /\
  (forall la, (length (addrs_for cfg st la) <= 3)%nat).
Proof.
  intros cfg0 ops Hcap. cbn zeta. split; [reflexivity|]. split.
  - intros la. apply dedup_laddr_incl.
  - intros la. pose proof (addrs_for_length _ _ _ la (Inv_reach cfg0 ops)) as H.
    rewrite cfg_after_cap, Hcap, the_cap_three in H. exact H.
Qed.

(* ---- the environment: listen set and threshold change during a history ------- *)
Lemma thresh_after_set : forall cfg0 ops n, thresh (cfg_after cfg0 (ops ++ [SetThresh n])) = n.
Proof. intros. rewrite cfg_after_app. reflexivity. Qed.

Lemma listen_after_set : forall cfg0 ops ls, listen (cfg_after cfg0 (ops ++ [SetListen ls])) = ls.
Proof. intros. rewrite cfg_after_app. reflexivity. Qed.

(* neither is state of the Manager: the change itself credits / withdraws nothing *)
Lemma env_op_keeps_state : forall cfg0 ops o,
  (exists ls, o = SetListen ls) \/ (exists n, o = SetThresh n) ->
  reach cfg0 (ops ++ [o]) = reach cfg0 ops.
Proof.
  intros cfg0 ops o H. unfold reach. rewrite run_app.
  destruct H as [[ls ->]|[n ->]]; reflexivity.
Qed.

(* the threshold applied to an answer is the CURRENT value of ActivationThresh:
   after it was set to n, every address returned has at least n observers *)
Lemma threshold_is_current_l : forall cfg0 ops n l r x,
  let cfg := cfg_after cfg0 (ops ++ [SetThresh n]) in
  let st := reach cfg0 (ops ++ [SetThresh n]) in
  In x (addrs_for cfg st (Some l, r)) ->
  n <= Z.of_nat (nobs cfg (cred_of cfg (cobs st)) l x).
Proof.
  intros cfg0 ops n l r x. cbn zeta. intros H.
  pose proof (proj1 (addrs_threshold_l cfg0 (ops ++ [SetThresh n]) l r) x H) as P.
  cbn zeta in P. rewrite thresh_after_set in P. exact P.
Qed.

(* a tracked connection that re-reports after the listener it arrived at was
   closed: the report is on a connection not arriving at a (current) listen
   address, so it is not credited, and being the connection's newest report it
   withdraws the earlier one *)
Lemma rereport_after_listener_closed_l : forall cfg0 ops ls c oa ci l,
  let cfg := cfg_after cfg0 (ops ++ [SetListen ls]) in
  let st := reach cfg0 (ops ++ [SetListen ls]) in
  conn_info cfg c = Some ci -> c_local ci = Some l ->
  existsb (fun la : laddr => match fst la with Some t => t =? tw_id l | None => false end) ls = false ->
  let st' := step cfg st (Observe c oa) in
  st' = remove_conn cfg st c /\ get Z.eqb c (cobs st') = None.
Proof.
  intros cfg0 ops ls c oa ci l. cbn zeta. intros Eci El Hls.
  apply (filtered_never_counts_l _ _ c oa ci Eci).
  right. right. right. rewrite El. left.
  unfold is_listen_tw. rewrite listen_after_set. exact Hls.
Qed.

(* the shipped default threshold meets the hypothesis 1 <= thresh of the
   completeness half of c17_addrs_threshold *)
Lemma default_threshold_positive_l : 1 <= ActivationThresh.
Proof. vm_compute. discriminate. Qed.

(* a connection that closes while its report is being taken in (after the
   filters of shouldRecordObservation, before the lock) gets no credit: the
   IsClosed check runs under the lock, after the interleaved removeConn *)
Lemma close_during_observation_l : forall cfg st c oa,
  hook_fires cfg c oa = true ->
  let st' := step cfg st (ObserveDuring c oa c) in
  get Z.eqb c (cobs st') = None /\ zmem c (closed st') = true /\ st' = disconnect cfg st c.
Proof.
  intros cfg st c oa Hf. cbn zeta. cbn [step]. rewrite Hf.
  assert (Hz : zmem c (closed (disconnect cfg st c)) = true).
  { unfold disconnect, remove_conn. cbn [mark_closed ext cobs closed].
    assert (Hz : zmem c (if zmem c (closed st) then closed st else c :: closed st) = true).
    { destruct (zmem c (closed st)) eqn:E; [exact E|].
      unfold zmem. cbn [existsb]. rewrite Z.eqb_refl. reflexivity. }
    destruct (get Z.eqb c (cobs st)); [|exact Hz].
    destruct (conn_info cfg c) as [ci|]; [|exact Hz].
    destruct (c_local ci); [|exact Hz]. destruct (observer_of (c_remote ci)); exact Hz. }
  assert (Hr : record cfg (disconnect cfg st c) c oa = disconnect cfg st c).
  { assert (Hg : get Z.eqb c (cobs (disconnect cfg st c)) = None).
    { change (disconnect cfg st c) with (step cfg st (Disconnect c)).
      rewrite disconnect_cobs. apply get_del_same. }
    pose proof (record_counts cfg (disconnect cfg st c) c oa) as R.
    assert (Hn : counts cfg (closed (disconnect cfg st c)) c oa = None).
    { unfold counts. destruct (conn_info cfg c); [|reflexivity]. rewrite Hz. reflexivity. }
    rewrite Hn in R. rewrite R.
    destruct (withdraws cfg c oa); [apply remove_conn_nothing, Hg|reflexivity]. }
  rewrite Hr. repeat split; [|exact Hz].
  change (disconnect cfg st c) with (step cfg st (Disconnect c)).
  rewrite disconnect_cobs. apply get_del_same.
Qed.

(* ---- host level ---------------------------------------------------------------- *)
Lemma host_view_ok : forall priv x m0 m1, host_ok m0 m1 (host_view priv x m0 m1) = true.
Proof.
  intros priv [pub hid] m0 m1. unfold host_ok, host_view. cbn [hv_direct hv_addrs hv_hole hx_pub hx_hidden].
  destruct priv, pub, hid, m0, m1; reflexivity.
Qed.

Lemma host_monitor_model : forall priv ins, host_monitor (host_model_rows priv ins) = [].
Proof.
  intros priv ins. unfold host_monitor. generalize 0.
  induction ins as [|row r IH]; intros i; [reflexivity|].
  cbn [host_model_rows map hrun]. fold (host_model_rows priv r).
  assert (H : forall j, hrow_first_bad (fun _ m0 m1 v => host_ok m0 m1 v) j
                (map (fun p : hostx * (bool * bool) =>
                        (fst p, snd p, host_view priv (fst p) (fst (snd p)) (snd (snd p)))) row) = []).
  { induction row as [|[x [m0 m1]] rr IHr]; intros j; [reflexivity|].
    cbn [map hrow_first_bad fst snd]. rewrite host_view_ok. apply IHr. }
  rewrite H. apply IH.
Qed.

(* an observed address is in a view of the host only while the manager reports it *)
Lemma host_views_only_while_reported_l : forall priv x m0 m1,
  let v := host_view priv x m0 m1 in
  (hv_direct v = true -> m0 = true) /\
  (hv_addrs v = true -> m0 = true) /\
  (hv_hole v = true -> m0 = true \/ m1 = true) /\
  (m0 = false -> m1 = false -> v = mkHV false false false).
Proof.
  intros priv [pub hid] m0 m1. unfold host_view. cbn [hv_direct hv_addrs hv_hole hx_pub hx_hidden].
  destruct priv, pub, hid, m0, m1; cbn; repeat split; auto; discriminate.
Qed.

(* of two reports of one connection in quick succession, the LATEST is the one
   that is credited (when it counts) *)
Lemma latest_report_counts_l : forall cfg st c oa ob l x,
  counts cfg (closed (step cfg st (Observe c oa))) c ob = Some (l, x) ->
  get Z.eqb c (cobs (step cfg st (ObservePair c oa ob))) = Some x.
Proof.
  intros cfg st c oa ob l x H.
  change (step cfg st (ObservePair c oa ob)) with (step cfg (step cfg st (Observe c oa)) (Observe c ob)).
  eapply observe_credits_l. exact H.
Qed.

(* C17 — externalAddrs as a function (local TW, observed TW, observer) -> count:
   effect of addExternalAddrsUnlocked / removeExternalAddrsUnlocked, and the
   well-formedness of the nested maps (no zero counts, no empty entries). *)
From Coq Require Import List Arith ZArith Bool Lia.
From Verif Require Import c17.Model c17.Proofs_amap.
Import ListNotations.
Local Open Scope Z_scope.

Lemma zeqb_spec : forall a b : Z, (a =? b) = true <-> a = b.
Proof. intros. apply Z.eqb_eq. Qed.

Lemma observer_eqb_spec : forall a b, observer_eqb a b = true <-> a = b.
Proof.
  intros a b. split.
  - destruct a, b; cbn [observer_eqb]; try discriminate.
    + intros H. apply Z.eqb_eq in H. subst. reflexivity.
    + intros H. repeat (apply andb_prop in H; destruct H as [H ?]).
      repeat match goal with E : (_ =? _) = true |- _ => apply Z.eqb_eq in E end.
      subst. reflexivity.
  - intros ->. destruct b; cbn [observer_eqb]; rewrite ?Z.eqb_refl; reflexivity.
Qed.

(* the count of observer g for observed x on local l *)
Definition cnt (e : extmap) (l x : Z) (g : observer) : Z :=
  getd observer_eqb g (getd Z.eqb x (getd Z.eqb l e []) []) 0.

(* the observer set of (l, x) *)
Definition oset (e : extmap) (l x : Z) : obsset := getd Z.eqb x (getd Z.eqb l e []) [].

Definition delta (l x : Z) (g : observer) (l' x' : Z) (g' : observer) : Z :=
  if (l =? l') && (x =? x') && observer_eqb g g' then 1 else 0.

Lemma cnt_add : forall e l x g l' x' g',
  cnt (add_external e l x g) l' x' g' = cnt e l' x' g' + delta l x g l' x' g'.
Proof.
  intros. unfold cnt, add_external, delta.
  fold (getd Z.eqb l e []). fold (getd Z.eqb x (getd Z.eqb l e []) []).
  fold (getd observer_eqb g (getd Z.eqb x (getd Z.eqb l e []) []) 0).
  destruct (Z.eq_dec l l') as [El|El].
  - subst l'. rewrite (getd_set_same Z.eqb zeqb_spec). rewrite Z.eqb_refl.
    destruct (Z.eq_dec x x') as [Ex|Ex].
    + subst x'. rewrite (getd_set_same Z.eqb zeqb_spec). rewrite Z.eqb_refl. cbn [andb].
      destruct (observer_eqb g g') eqn:Eg.
      * apply observer_eqb_spec in Eg. subst g'.
        rewrite (getd_set_same observer_eqb observer_eqb_spec). reflexivity.
      * rewrite (getd_set_other observer_eqb observer_eqb_spec); [lia|].
        intros H. subst. rewrite (proj2 (observer_eqb_spec g' g') eq_refl) in Eg. discriminate.
    + rewrite (getd_set_other Z.eqb zeqb_spec) by exact Ex.
      rewrite (proj2 (Z.eqb_neq x x') Ex). cbn [andb]. lia.
  - rewrite (getd_set_other Z.eqb zeqb_spec) by exact El.
    rewrite (proj2 (Z.eqb_neq l l') El). cbn [andb]. lia.
Qed.

Lemma cnt_pos_gets : forall e l x g, 1 <= cnt e l x g ->
  exists m s n, get Z.eqb l e = Some m /\ get Z.eqb x m = Some s /\
                get observer_eqb g s = Some n /\ n = cnt e l x g.
Proof.
  intros e l x g H. unfold cnt, getd in *.
  destruct (get Z.eqb l e) as [m|] eqn:E1; [|cbn in H; lia].
  destruct (get Z.eqb x m) as [s|] eqn:E2; [|cbn in H; lia].
  destruct (get observer_eqb g s) as [n|] eqn:E3; [|lia].
  exists m, s, n. repeat split; try assumption; reflexivity.
Qed.

Lemma cnt_remove : forall e l x g l' x' g', 1 <= cnt e l x g ->
  cnt (remove_external e l x g) l' x' g' = cnt e l' x' g' - delta l x g l' x' g'.
Proof.
  intros e l x g l' x' g' Hpos.
  destruct (cnt_pos_gets e l x g Hpos) as [m [s [n [E1 [E2 [E3 En]]]]]].
  assert (Hn : 1 <= n) by lia. clear En Hpos.
  unfold remove_external. rewrite E1, E2, E3.
  set (s1 := if n - 1 <=? 0 then del observer_eqb g s else set observer_eqb g (n - 1) s).
  set (m1 := if Nat.eqb (length s1) 0 then del Z.eqb x m else set Z.eqb x s1 m).
  (* functional views of s1, m1 and the new outer map *)
  assert (Vs : forall g2, getd observer_eqb g2 s1 0 =
                          getd observer_eqb g2 s 0 - (if observer_eqb g g2 then 1 else 0)).
  { intros g2. unfold s1. destruct (observer_eqb g g2) eqn:Eg.
    - apply observer_eqb_spec in Eg. subst g2.
      destruct (n - 1 <=? 0) eqn:Ez.
      + rewrite (getd_del_same observer_eqb).
        unfold getd. rewrite E3. apply Z.leb_le in Ez. lia.
      + rewrite (getd_set_same observer_eqb observer_eqb_spec). unfold getd. rewrite E3. lia.
    - assert (g <> g2).
      { intros H. subst. rewrite (proj2 (observer_eqb_spec g2 g2) eq_refl) in Eg. discriminate. }
      destruct (n - 1 <=? 0).
      + rewrite (getd_del_other observer_eqb observer_eqb_spec) by assumption. lia.
      + rewrite (getd_set_other observer_eqb observer_eqb_spec) by assumption. lia. }
  assert (Vm : forall x2, getd Z.eqb x2 m1 [] = if x =? x2 then s1 else getd Z.eqb x2 m []).
  { intros x2. unfold m1. destruct (Z.eq_dec x x2) as [Ex|Ex].
    - subst x2. rewrite Z.eqb_refl. destruct (Nat.eqb (length s1) 0) eqn:El.
      + rewrite (getd_del_same Z.eqb). symmetry.
        destruct s1; [reflexivity|discriminate].
      + apply (getd_set_same Z.eqb zeqb_spec).
    - rewrite (proj2 (Z.eqb_neq x x2) Ex). destruct (Nat.eqb (length s1) 0).
      + apply (getd_del_other Z.eqb zeqb_spec), Ex.
      + apply (getd_set_other Z.eqb zeqb_spec), Ex. }
  assert (Ve : forall l2, getd Z.eqb l2 (if Nat.eqb (length m1) 0 then del Z.eqb l e else set Z.eqb l m1 e) [] =
                          if l =? l2 then m1 else getd Z.eqb l2 e []).
  { intros l2. destruct (Z.eq_dec l l2) as [El|El].
    - subst l2. rewrite Z.eqb_refl. destruct (Nat.eqb (length m1) 0) eqn:Elen.
      + rewrite (getd_del_same Z.eqb). symmetry.
        destruct m1; [reflexivity|discriminate].
      + apply (getd_set_same Z.eqb zeqb_spec).
    - rewrite (proj2 (Z.eqb_neq l l2) El). destruct (Nat.eqb (length m1) 0).
      + apply (getd_del_other Z.eqb zeqb_spec), El.
      + apply (getd_set_other Z.eqb zeqb_spec), El. }
  assert (Gm : getd Z.eqb l e [] = m) by (unfold getd; rewrite E1; reflexivity).
  assert (Gs : getd Z.eqb x m [] = s) by (unfold getd; rewrite E2; reflexivity).
  unfold cnt. rewrite Ve. unfold delta.
  destruct (l =? l') eqn:El; cbn [andb]; [|lia].
  apply Z.eqb_eq in El. subst l'. rewrite Vm, Gm.
  destruct (x =? x') eqn:Ex; cbn [andb].
  - apply Z.eqb_eq in Ex. subst x'. rewrite Vs, Gs. reflexivity.
  - lia.
Qed.

(* ---- well-formedness of the nested maps ---------------------------------- *)
Definition wf_set (s : obsset) : Prop :=
  s <> [] /\ NoDup (keys s) /\ forall g n, In (g, n) s -> 1 <= n.

Definition wf_inner (m : list (Z * obsset)) : Prop :=
  m <> [] /\ NoDup (keys m) /\ forall x s, In (x, s) m -> wf_set s.

Definition wf_ext (e : extmap) : Prop :=
  NoDup (keys e) /\ forall l m, In (l, m) e -> wf_inner m.

Lemma wf_ext_nil : wf_ext [].
Proof. split; [constructor|intros ? ? []]. Qed.

Lemma wf_ext_add : forall e l x g, wf_ext e -> wf_ext (add_external e l x g).
Proof.
  intros e l x g [Hnd Hall]. unfold add_external.
  set (m := match get Z.eqb l e with Some m => m | None => [] end).
  set (s := match get Z.eqb x m with Some s => s | None => [] end).
  set (n := match get observer_eqb g s with Some n => n | None => 0 end).
  assert (Hm : m = [] \/ wf_inner m).
  { unfold m. destruct (get Z.eqb l e) eqn:E; [|left; reflexivity].
    right. apply (Hall l). apply (get_In Z.eqb zeqb_spec), E. }
  assert (Hm' : NoDup (keys m) /\ forall x s, In (x, s) m -> wf_set s).
  { destruct Hm as [->|[_ H]]; [split; [constructor|intros ? ? []]|exact H]. }
  assert (Hs : s = [] \/ wf_set s).
  { unfold s. destruct (get Z.eqb x m) eqn:E; [|left; reflexivity].
    right. apply (proj2 Hm' x). apply (get_In Z.eqb zeqb_spec), E. }
  assert (Hs' : NoDup (keys s) /\ forall g n, In (g, n) s -> 1 <= n).
  { destruct Hs as [->|[_ H]]; [split; [constructor|intros ? ? []]|exact H]. }
  assert (Hn : 0 <= n).
  { unfold n. destruct (get observer_eqb g s) eqn:E; [|lia].
    apply (get_In observer_eqb observer_eqb_spec) in E. apply (proj2 Hs') in E. lia. }
  assert (Ws : wf_set (set observer_eqb g (n + 1) s)).
  { split; [unfold set; discriminate|]. split.
    - apply (NoDup_keys_set observer_eqb observer_eqb_spec), Hs'.
    - intros g2 n2 [H|H].
      + inversion H. lia.
      + apply (In_del observer_eqb observer_eqb_spec) in H. apply (proj2 Hs' g2), H. }
  assert (Wm : wf_inner (set Z.eqb x (set observer_eqb g (n + 1) s) m)).
  { split; [unfold set; discriminate|]. split.
    - apply (NoDup_keys_set Z.eqb zeqb_spec), Hm'.
    - intros x2 s2 [H|H].
      + inversion H. subst. exact Ws.
      + apply (In_del Z.eqb zeqb_spec) in H. apply (proj2 Hm' x2), H. }
  split.
  - apply (NoDup_keys_set Z.eqb zeqb_spec), Hnd.
  - intros l2 m2 [H|H].
    + inversion H. subst. exact Wm.
    + apply (In_del Z.eqb zeqb_spec) in H. apply (Hall l2), H.
Qed.

Lemma wf_ext_remove : forall e l x g, wf_ext e -> wf_ext (remove_external e l x g).
Proof.
  intros e l x g [Hnd Hall]. unfold remove_external.
  destruct (get Z.eqb l e) as [m|] eqn:E1; [|split; assumption].
  destruct (get Z.eqb x m) as [s|] eqn:E2; [|split; assumption].
  pose proof (Hall l m (get_In Z.eqb zeqb_spec _ _ _ E1)) as [_ [Hndm Hallm]].
  pose proof (Hallm x s (get_In Z.eqb zeqb_spec _ _ _ E2)) as [_ [Hnds Halls]].
  set (n := (match get observer_eqb g s with Some n => n | None => 0 end) - 1).
  set (s1 := if n <=? 0 then del observer_eqb g s else set observer_eqb g n s).
  set (m1 := if Nat.eqb (length s1) 0 then del Z.eqb x m else set Z.eqb x s1 m).
  assert (Ws : NoDup (keys s1) /\ forall g n, In (g, n) s1 -> 1 <= n).
  { unfold s1. destruct (n <=? 0) eqn:Ez.
    - split; [apply (NoDup_keys_del observer_eqb observer_eqb_spec), Hnds|].
      intros g2 n2 H. apply (In_del observer_eqb observer_eqb_spec) in H. apply (Halls g2), H.
    - split; [apply (NoDup_keys_set observer_eqb observer_eqb_spec), Hnds|].
      intros g2 n2 [H|H].
      + inversion H. apply Z.leb_gt in Ez. lia.
      + apply (In_del observer_eqb observer_eqb_spec) in H. apply (Halls g2), H. }
  assert (Wm : NoDup (keys m1) /\ forall x s, In (x, s) m1 -> wf_set s).
  { unfold m1. destruct (Nat.eqb (length s1) 0) eqn:El.
    - split; [apply (NoDup_keys_del Z.eqb zeqb_spec), Hndm|].
      intros x2 s2 H. apply (In_del Z.eqb zeqb_spec) in H. apply (Hallm x2), H.
    - split; [apply (NoDup_keys_set Z.eqb zeqb_spec), Hndm|].
      intros x2 s2 [H|H].
      + inversion H. subst. split; [|exact Ws].
        destruct s1; [discriminate|discriminate].
      + apply (In_del Z.eqb zeqb_spec) in H. apply (Hallm x2), H. }
  destruct (Nat.eqb (length m1) 0) eqn:El.
  - split; [apply (NoDup_keys_del Z.eqb zeqb_spec), Hnd|].
    intros l2 m2 H. apply (In_del Z.eqb zeqb_spec) in H. apply (Hall l2), H.
  - split; [apply (NoDup_keys_set Z.eqb zeqb_spec), Hnd|].
    intros l2 m2 [H|H].
    + inversion H. subst. split; [|exact Wm]. destruct m1; discriminate.
    + apply (In_del Z.eqb zeqb_spec) in H. apply (Hall l2), H.
Qed.

(* under well-formedness: a key is in the observer set iff its count is positive *)
Lemma oset_wf : forall e l x, wf_ext e ->
  NoDup (keys (oset e l x)) /\
  (forall g, In g (keys (oset e l x)) <-> 1 <= cnt e l x g).
Proof.
  intros e l x [Hnd Hall]. unfold oset, cnt.
  assert (Hm : NoDup (keys (getd Z.eqb l e [])) /\
               forall x s, In (x, s) (getd Z.eqb l e []) -> wf_set s).
  { unfold getd. destruct (get Z.eqb l e) eqn:E.
    - apply (Hall l). apply (get_In Z.eqb zeqb_spec), E.
    - split; [constructor|intros ? ? []]. }
  assert (Hs : NoDup (keys (getd Z.eqb x (getd Z.eqb l e []) [])) /\
               forall g n, In (g, n) (getd Z.eqb x (getd Z.eqb l e []) []) -> 1 <= n).
  { unfold getd at 1 3. destruct (get Z.eqb x (getd Z.eqb l e [])) eqn:E.
    - apply (proj2 Hm x). apply (get_In Z.eqb zeqb_spec), E.
    - split; [constructor|intros ? ? []]. }
  split; [exact (proj1 Hs)|]. intros g. split.
  - intros H. apply (In_keys_get observer_eqb observer_eqb_spec) in H. destruct H as [n E].
    unfold getd at 1. rewrite E. apply (proj2 Hs g). apply (get_In observer_eqb observer_eqb_spec), E.
  - intros H. unfold getd at 1 in H.
    destruct (get observer_eqb g (getd Z.eqb x (getd Z.eqb l e []) [])) eqn:E; [|lia].
    apply (get_In observer_eqb observer_eqb_spec) in E.
    change g with (fst (g, z)). apply in_map, E.
Qed.

(* Extraction of the executable model + monitor for the correspondence driver.
   Only ExtrOcamlBasic: positive/N/Z/nat stay inductive types. *)
From Coq Require Import Extraction ExtrOcamlBasic.
From Verif Require Import c03.Spec c03.Conc c03.SpecAll.
Extraction Language OCaml.
Extraction "extract/c03_model.ml" conform_case monitor_case.

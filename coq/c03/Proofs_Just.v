(* C03 — the monitor's justification check on the model's own trace: an operation
   that answers the resource-limit sentinel was refused by a scope of its
   constraining chain that would exceed its limit (judged from the usage before
   the operation and the configured limit).  Part 1: one scope, lists of scopes. *)
From Coq Require Import List ZArith Bool Arith Lia.
From Verif Require Import lib.Wire c03.Int64 c03.Model c03.Spec c03.Proofs_Int64 c03.Proofs_Base
     c03.Proofs_Sum c03.Proofs_Reach c03.Proofs_Link c03.Proofs_Targets c03.Proofs_Frames c03.Proofs_Frames2
     c03.Proofs_Frames3 c03.Proofs_Kill c03.Proofs_OpsMem c03.Proofs_Done c03.Proofs_OpsDone c03.Proofs_OpsNew
     c03.Proofs_OpsOpen c03.Proofs_Prio.
Import ListNotations.
Local Open Scope Z_scope.

(* Spec.would_exceed as a function of the limit and the usage *)
Definition exceed (l : limit) (u d : stat) (prio : Z) (memop : bool) : bool :=
  (memop && negb (l_mem l =? max_int64) && (mem u + mem d >? prio_threshold l prio)) ||
  ((0 <? sin d) && (sin u + sin d >? l_sin l)) || ((0 <? sout d) && (sout u + sout d >? l_sout l)) ||
  (sin u + sin d + sout u + sout d >? l_s l) ||
  ((0 <? cin d) && (cin u + cin d >? l_cin l)) || ((0 <? cout d) && (cout u + cout d >? l_cout l)) ||
  (cin u + cin d + cout u + cout d >? l_c l) ||
  ((0 <? fd d) && (fd u + fd d >? l_fd l)).

Lemma would_exceed_eq : forall c a m t d prio memop,
  would_exceed c a m t d prio memop = exceed (a_limit c a t) (ostat m t) d prio memop.
Proof. reflexivity. Qed.

Definition kprio (k : rkind) : Z := match k with KMem _ p => p | _ => 255 end.
Definition kmemop (k : rkind) : bool := match k with KMem _ _ | KStat _ => true | _ => false end.

Lemma gtb_ltb' : forall a b, (a >? b) = (b <? a).
Proof. intros. apply Z.gtb_ltb. Qed.

Lemma add_streams_exceed : forall lim u i o m0, add_streams lim u i o = None ->
  ((0 <? i) && (sin u + i >? l_sin lim)) || ((0 <? o) && (sout u + o >? l_sout lim)) || (sin u + i + sout u + o >? l_s lim) = true \/ m0 = true.
Proof.
  intros lim u i o m0 H. left. unfold add_streams in H. rewrite !gtb_ltb' in *.
  destruct ((0 <? i) && (l_sin lim <? sin u + i)); [reflexivity|].
  destruct ((0 <? o) && (l_sout lim <? sout u + o)); [reflexivity|].
  destruct (l_s lim <? sin u + i + sout u + o); [reflexivity | discriminate].
Qed.

Lemma add_conns_exceed : forall lim u i o f, add_conns lim u i o f = None ->
  ((0 <? i) && (cin u + i >? l_cin lim)) || ((0 <? o) && (cout u + o >? l_cout lim)) || (cin u + i + cout u + o >? l_c lim) ||
  ((0 <? f) && (fd u + f >? l_fd lim)) = true.
Proof.
  intros lim u i o f H. unfold add_conns in H. rewrite !gtb_ltb' in *.
  destruct ((0 <? i) && (l_cin lim <? cin u + i)); [reflexivity|].
  destruct ((0 <? o) && (l_cout lim <? cout u + o)); [reflexivity|].
  destruct (l_c lim <? cin u + i + cout u + o); [reflexivity|].
  destruct ((0 <? f) && (l_fd lim <? fd u + f)); [rewrite !orb_true_r; reflexivity | discriminate].
Qed.

Lemma reserve_memory_limit : forall lim u sz prio, lim_ok lim -> nonneg u -> fits lim u -> 0 <= sz <= max_int64 -> 0 <= prio <= 255 ->
  reserve_memory lim u sz prio = inr ELimit ->
  negb (l_mem lim =? max_int64) && (mem u + sz >? prio_threshold lim prio) = true.
Proof.
  intros lim u sz prio L N F Hsz Hp H. destruct L as [Lm _]. destruct N as [Nm _]. destruct F as [Fm _].
  unfold reserve_memory in H. rewrite check_memory_spec_l in H by lia.
  destruct (l_mem lim =? max_int64); [discriminate|]. cbn [negb andb].
  destruct (mem u + sz <=? mem_threshold (l_mem lim) prio) eqn:E; [discriminate|].
  apply Z.leb_gt in E. rewrite Z.gtb_ltb. apply Z.ltb_lt. exact E.
Qed.

Lemma reserve_memory_err : forall lim u sz prio e, lim_ok lim -> nonneg u -> fits lim u -> 0 <= sz <= max_int64 -> 0 <= prio <= 255 ->
  reserve_memory lim u sz prio = inr e -> e = ELimit.
Proof.
  intros lim u sz prio e L N F Hsz Hp H. destruct L as [Lm _]. destruct N as [Nm _]. destruct F as [Fm _].
  unfold reserve_memory in H. rewrite check_memory_spec_l in H by lia.
  destruct (l_mem lim =? max_int64); [discriminate|].
  destruct (mem u + sz <=? mem_threshold (l_mem lim) prio); [discriminate | inversion H; reflexivity].
Qed.

Lemma reserve_memory_fields : forall lim u sz prio u1, reserve_memory lim u sz prio = inl u1 ->
  sin u1 = sin u /\ sout u1 = sout u /\ cin u1 = cin u /\ cout u1 = cout u /\ fd u1 = fd u.
Proof. intros lim u sz prio u1 H. unfold reserve_memory in H. destruct (check_memory lim u sz prio); inversion H; cbn; repeat split; reflexivity. Qed.

(* a refusal of one scope's share: the scope would exceed *)
Lemma rc_reserve_exceed : forall k lim u e, kind_ok k -> lim_ok lim -> nonneg u -> fits lim u ->
  rc_reserve k lim u = inr e -> e = ELimit /\ exceed lim u (kdelta k) (kprio k) (kmemop k) = true.
Proof.
  intros k lim u e Hk L N F H. unfold exceed. destruct k as [sz prio|inb|inb f|st]; cbn [rc_reserve kdelta kprio kmemop] in *.
  - destruct Hk as [Hsz Hp]. pose proof (reserve_memory_err lim u sz prio e L N F Hsz Hp H) as ->.
    split; [reflexivity|]. cbn [mem_vec Model.mem andb]. rewrite (reserve_memory_limit lim u sz prio L N F Hsz Hp H). reflexivity.
  - destruct (add_streams lim u (b2z inb) (b2z (negb inb))) as [u'|] eqn:A; [discriminate|]. inversion H. split; [reflexivity|].
    destruct (add_streams_exceed lim u _ _ false A) as [X|X]; [|discriminate].
    cbn [stream_vec Model.sin Model.sout Model.mem Model.cin Model.cout Model.fd andb].
    apply orb_true_iff in X. destruct X as [X|X]; [|rewrite X, ?orb_true_r; reflexivity].
    apply orb_true_iff in X. destruct X as [X|X]; rewrite X, ?orb_true_r; reflexivity.
  - destruct (add_conns lim u (b2z inb) (b2z (negb inb)) (b2z f)) as [u'|] eqn:A; [discriminate|]. inversion H. split; [reflexivity|].
    pose proof (add_conns_exceed lim u _ _ _ A) as X.
    cbn [conn_vec Model.sin Model.sout Model.mem Model.cin Model.cout Model.fd andb].
    apply orb_true_iff in X. destruct X as [X|X]; [|rewrite X, ?orb_true_r; reflexivity].
    apply orb_true_iff in X. destruct X as [X|X]; [|rewrite X, ?orb_true_r; reflexivity].
    apply orb_true_iff in X. destruct X as [X|X]; rewrite X, ?orb_true_r; reflexivity.
  - destruct Hk as [Hst Hsm]. destruct Hst as (S1 & S2 & S3 & S4 & S5 & S6).
    destruct (reserve_memory lim u (mem st) 255) as [u1|e1] eqn:R.
    2:{ inversion H; subst e1. pose proof (reserve_memory_err lim u (mem st) 255 e L N F ltac:(lia) ltac:(lia) R) as ->.
        split; [reflexivity|]. cbn [andb]. rewrite (reserve_memory_limit lim u (mem st) 255 L N F ltac:(lia) ltac:(lia) R). reflexivity. }
    destruct (reserve_memory_fields lim u (mem st) 255 u1 R) as (A1 & A2 & A3 & A4 & A5).
    destruct (add_streams lim u1 (sin st) (sout st)) as [u2|] eqn:As.
    2:{ inversion H. split; [reflexivity|]. destruct (add_streams_exceed lim u1 _ _ false As) as [X|X]; [|discriminate].
        rewrite A1, A2 in X.
        apply orb_true_iff in X. destruct X as [X|X]; [|rewrite X, ?orb_true_r; reflexivity].
        apply orb_true_iff in X. destruct X as [X|X]; rewrite X, ?orb_true_r; reflexivity. }
    destruct (add_conns lim u2 (cin st) (cout st) (fd st)) as [u3|] eqn:Ac; [discriminate|]. inversion H. split; [reflexivity|].
    assert (B : cin u2 = cin u /\ cout u2 = cout u /\ fd u2 = fd u).
    { unfold add_streams in As. destruct ((sin st >? 0) && _); [discriminate|]. destruct ((sout st >? 0) && _); [discriminate|].
      destruct (_ >? l_s lim); [discriminate|]. inversion As. cbn. rewrite A3, A4, A5. repeat split; reflexivity. }
    destruct B as (B1 & B2 & B3). pose proof (add_conns_exceed lim u2 _ _ _ Ac) as X. rewrite B1, B2, B3 in X.
    apply orb_true_iff in X. destruct X as [X|X]; [|rewrite X, ?orb_true_r; reflexivity].
    apply orb_true_iff in X. destruct X as [X|X]; [|rewrite X, ?orb_true_r; reflexivity].
    apply orb_true_iff in X. destruct X as [X|X]; rewrite X, ?orb_true_r; reflexivity.
Qed.

(* ---- one scope, a list of scopes -------------------------------------------------------------------- *)
Definition refuses (m : smap) (x : sid) (k : rkind) : Prop :=
  exists sc, get m x = Some sc /\ s_done sc = false /\ exceed (s_lim sc) (s_use sc) (kdelta k) (kprio k) (kmemop k) = true.

Lemma charge_one_refused : forall x k m e, kind_ok k -> all_good m -> charge_one x k m = inr e ->
  (is_done m x = true /\ e = EClosed) \/ (e = ELimit /\ refuses m x k).
Proof.
  intros x k m e Hk Gd H. unfold charge_one in H. destruct (get m x) as [sc|] eqn:G.
  2:{ left. unfold is_done. rewrite G. inversion H. split; reflexivity. }
  destruct (s_done sc) eqn:D.
  { left. unfold is_done. rewrite G. inversion H. split; [exact D | reflexivity]. }
  destruct (rc_reserve k (s_lim sc) (s_use sc)) as [u|e0] eqn:R; [discriminate|]. inversion H; subst e0.
  destruct (Gd x sc G) as (L & N & F). destruct (rc_reserve_exceed k _ _ e Hk L N F R) as [-> Ex].
  right. split; [reflexivity|]. exists sc. repeat split; assumption.
Qed.

Lemma charge_list_refused : forall l ch k m m' e, kind_ok k -> all_good m -> NoDup l ->
  (forall t, In t l -> mem (use_of m t) + mem (kdelta k) <= max_int64) ->
  charge_list l ch k m = (m', Some e) ->
  exists p x q, l = p ++ x :: q /\ all_live m p /\
                ((is_done m x = true /\ e = EClosed) \/ (e = ELimit /\ refuses m x k)).
Proof.
  induction l as [|t r IH]; intros ch k m m' e Hk Gd Nd Ov H; cbn [charge_list] in H; [discriminate|].
  inversion Nd as [|? ? Nt Nr]; subst.
  destruct (charge_one t k m) as [m1|e1] eqn:C.
  - destruct (charge_one_ok t k m m1 Hk Gd (Ov t (or_introl eq_refl)) C) as (D & Sh & U & Gd1).
    assert (Ov1 : forall x, In x r -> mem (use_of m1 x) + mem (kdelta k) <= max_int64).
    { intros x Hx. rewrite U. destruct (sid_eqb t x) eqn:E; [apply sid_eqb_eq in E; subst x; contradiction|]. apply Ov. right. exact Hx. }
    destruct (IH (ch ++ [t]) k m1 m' e Hk Gd1 Nr Ov1 H) as (p & x & q & El & Lp & Rx).
    assert (Hx : In x r) by (rewrite El; apply in_or_app; right; left; reflexivity).
    assert (Hne : x <> t) by (intros ->; contradiction).
    assert (Gx : get m1 x = get m x).
    { unfold charge_one in C. destruct (get m t) as [sc|]; [|discriminate]. destruct (s_done sc); [discriminate|].
      destruct (rc_reserve k (s_lim sc) (s_use sc)); inversion C. apply get_set_other. congruence. }
    exists (t :: p), x, q. split; [cbn; rewrite El; reflexivity|]. split.
    + intros y [<-|Hy]; [exact D|]. rewrite <- (is_done_shape m1 m y (Sh y)). apply Lp, Hy.
    + destruct Rx as [[Dx ->]|[-> (sc & G & Dn & Ex)]].
      * left. split; [|reflexivity]. rewrite <- (is_done_shape m1 m x (Sh x)). exact Dx.
      * right. split; [reflexivity|]. exists sc. rewrite <- Gx. repeat split; assumption.
  - inversion H; subst. exists [], t, r. split; [reflexivity|]. split; [intros y []|].
    apply (charge_one_refused t k m e Hk Gd C).
Qed.

(* ---- a refused OpenConnection / OpenStream attempt ---------------------------------------------- *)
Lemma open_leaf_just : forall c mb m2 a s E lim r k,
  cfg_ok c -> Inv c mb a -> leaf s = true -> hget (holders a) s = None ->
  NoDup E -> (forall q, In q E -> is_handle q = false /\ get mb q <> None) -> lim = limit_of c s ->
  (forall y, y <> s -> shape_of m2 y = shape_of mb y /\ use_of m2 y = use_of mb y) ->
  get m2 s = Some (mkScope lim stat0 false r [] E) ->
  kind_ok k -> mem (kdelta k) = 0 ->
  forall m3 e, scope_reserve m2 s k = (m3, Some e) ->
  e = ELimit /\ exists x, In x (s :: E) /\ exceed (limit_of c x) (usage_A a x) (kdelta k) (kprio k) (kmemop k) = true.
Proof.
  intros c mb m2 a s E lim r k LO I Hl Hf Nd HE Elim Oth Gs Hk Hz m3 e H.
  assert (Hs : is_handle s = true) by (destruct s; try discriminate; reflexivity).
  assert (Llim : lim_ok lim) by (rewrite Elim; apply LO).
  set (a1 := mkAstate (hset (holders a) s (mkHolder stat0 E [] false)) (aconns a) (astreams a)).
  assert (Hal : lim = a_limit c a1 s) by (rewrite Elim; unfold a_limit; destruct s; try discriminate; reflexivity).
  pose proof (Inv_new_holder c mb a a1 s E [] lim r I Hs Hf) as H1. rewrite Hl in H1.
  assert (I1 : Inv c (set mb s (mkScope lim stat0 false r [] E)) a1).
  { apply H1; try assumption; [|reflexivity]. left. repeat split; try assumption; apply HE; assumption. }
  clear H1.
  assert (I2 : Inv c m2 a1).
  { apply (Inv_extends c _ m2 a1 LO I1). apply extends_same; intros x.
    - unfold shape_of. rewrite get_set. destruct (sid_eqb s x) eqn:X.
      + apply sid_eqb_eq in X. subst x. rewrite Gs. reflexivity.
      + apply sid_eqb_neq in X. apply (Oth x). congruence.
    - rewrite use_of_set. destruct (sid_eqb s x) eqn:X.
      + apply sid_eqb_eq in X. subst x. rewrite (use_of_get m2 s _ Gs). reflexivity.
      + apply sid_eqb_neq in X. apply (Oth x). congruence. }
  assert (G1 : hget (holders a1) s = Some (mkHolder stat0 E [] false)) by (cbn [a1 holders]; rewrite hget_hset, sid_eqb_refl; reflexivity).
  assert (K : holder_if_handle a1 s) by (intros _; rewrite G1; discriminate).
  unfold scope_reserve in H. destruct (targets_spec c m2 a1 s I2 K) as (Nt & _ & _).
  assert (Et : targets m2 s = s :: E).
  { rewrite targets_root by (unfold chain_of; rewrite Gs; reflexivity). unfold edges_of. rewrite Gs. reflexivity. }
  assert (Ov : forall x, In x (targets m2 s) -> mem (use_of m2 x) + mem (kdelta k) <= max_int64).
  { intros x _. rewrite Hz. pose proof (use_mem_le m2 x (I_good c m2 a1 I2)). lia. }
  destruct (charge_list_refused (targets m2 s) [] k m2 m3 e Hk (I_good c m2 a1 I2) Nt Ov H) as (p & x & q & El & Lp & Rx).
  assert (Hx : In x (s :: E)) by (rewrite <- Et, El; apply in_or_app; right; left; reflexivity).
  (* every scope of the chain is open *)
  assert (Lx : is_done m2 x = false).
  { destruct Hx as [<-|Hx]; [unfold is_done; rewrite Gs; reflexivity|]. destruct (HE x Hx) as [Hh Gx].
    assert (Hne : x <> s) by (intros ->; congruence).
    destruct (Oth x Hne) as [Sx _]. rewrite (is_done_shape m2 mb x Sx). unfold is_done.
    destruct (get mb x) as [scx|] eqn:Gb; [|contradiction]. apply (I_static c mb a I x scx Gb Hh). }
  destruct Rx as [[Dx _]|[-> (sc & G & Dn & Ex)]]; [congruence|]. split; [reflexivity|].
  exists x. split; [exact Hx|].
  assert (Ux : use_of mb x = usage_A a x) by apply (I_num c mb a I).
  destruct Hx as [<-|Hx].
  - rewrite Gs in G. inversion G; subst sc. cbn [s_lim s_use] in Ex. rewrite <- Elim.
    assert (Z : usage_A a s = stat0).
    { rewrite <- Ux. unfold use_of. destruct (get mb s) as [scs|] eqn:Gb; [apply (I_garbage c mb a I s scs Gb Hs Hf) | reflexivity]. }
    rewrite Z. exact Ex.
  - destruct (HE x Hx) as [Hh Gx]. assert (Hne : x <> s) by (intros ->; congruence).
    destruct (Oth x Hne) as [Sx Usx].
    destruct (I_static c m2 a1 I2 x sc G Hh) as (_ & _ & _ & Pl). rewrite <- Pl, <- Ux, <- Usx, (use_of_get m2 x sc G). exact Ex.
Qed.

(* ---- from "some scope of the chain would exceed" to the monitor's predicate --------------------- *)
Lemma just_chain : forall c a m l d prio memop x,
  (forall t, ostat m t = usage_A a t) -> In x l -> is_span x = false ->
  exceed (limit_of c x) (usage_A a x) d prio memop = true ->
  existsb (fun t => would_exceed c a m t d prio memop) l = true.
Proof.
  intros c a m l d prio memop x L Hx Hs Ex. apply existsb_exists. exists x. split; [exact Hx|].
  rewrite would_exceed_eq, L. replace (a_limit c a x) with (limit_of c x); [exact Ex|].
  destruct x; try discriminate; reflexivity.
Qed.

Lemma obs_usage : forall c st a m, Inv c (scopes st) a -> (forall t, ostat m t = use_of (scopes st) t) -> forall t, ostat m t = usage_A a t.
Proof. intros c st a m I L t. rewrite L. apply (I_num c _ a I). Qed.

Theorem open_stream_just : forall c st a m j q inb,
  cfg_ok c -> Inv c (scopes st) a -> hget (holders a) (Stream j) = None -> (forall t, ostat m t = use_of (scopes st) t) ->
  snd (open_stream c st j q inb) = 1 -> refusal_justified c a m (OOpenStream j q inb) = true.
Proof.
  intros c st a m j q inb LO I Hf L C. pose proof (obs_usage c st a m I L) as Lu. unfold open_stream in C.
  set (E := [Peer q; Transient; System]) in *.
  set (m0 := get_scope c (scopes st) (Peer q)) in *.
  assert (E0 : extends c (scopes st) m0) by (apply extends_get_scope; [reflexivity | apply (I_base c _ a I)]).
  set (mb := increfs m0 E).
  assert (Eb : extends c (scopes st) mb) by (apply (extends_trans c _ m0); [exact E0 | apply extends_increfs]).
  assert (Ib : Inv c mb a) by (apply (Inv_extends c _ mb a LO I Eb)).
  unfold new_scope in C. fold mb in C.
  set (sc0 := mkScope (lim_stream c) stat0 false 0 [] E) in *.
  set (m2 := decref (set mb (Stream j) sc0) (Peer q)) in *.
  pose proof (open_leaf_just c mb m2 a (Stream j) E (lim_stream c) 0 (KStream inb) LO Ib eq_refl Hf) as H.
  assert (HE : forall x, In x E -> is_handle x = false /\ get mb x <> None).
  { destruct (I_base c _ a I) as (B1 & B2 & _). intros x [<-|[<-|[<-|[]]]]; (split; [reflexivity|]).
    - apply (extends_present c m0 mb _ (extends_increfs c m0 E)), get_scope_present.
    - apply (extends_present c _ mb _ Eb B2).
    - apply (extends_present c _ mb _ Eb B1). }
  specialize (H ltac:(repeat constructor; cbn; intuition discriminate) HE eq_refl).
  assert (Oth : forall y, y <> Stream j -> shape_of m2 y = shape_of mb y /\ use_of m2 y = use_of mb y).
  { intros y Hne. unfold m2. rewrite decref_shape, decref_use. unfold shape_of, use_of.
    rewrite get_set_other by congruence. split; reflexivity. }
  assert (Gs : get m2 (Stream j) = Some sc0).
  { unfold m2, decref. rewrite get_upd. cbn [sid_eqb]. apply get_set_same. }
  specialize (H Oth Gs Logic.I (stream_vec_mem inb)).
  destruct (scope_reserve m2 (Stream j) (KStream inb)) as [m3 e] eqn:R. destruct e as [e|]; [|cbn in C; discriminate].
  destruct (H m3 e eq_refl) as (_ & x & Hx & Ex).
  unfold refusal_justified. cbn [constrainers forallb]. rewrite andb_true_r.
  apply (just_chain c a m _ _ 255 false x Lu Hx); [|exact Ex].
  destruct Hx as [<-|[<-|[<-|[<-|[]]]]]; reflexivity.
Qed.

Theorem open_conn_just : forall c st a m i inb usefd ep,
  cfg_ok c -> Inv c (scopes st) a -> hget (holders a) (Conn i) = None -> (forall t, ostat m t = use_of (scopes st) t) ->
  snd (open_conn c st i inb usefd ep) = 1 -> refusal_justified c a m (OOpenConn i inb usefd ep) = true.
Proof.
  intros c st a m i inb usefd ep LO I Hf L C. pose proof (obs_usage c st a m I L) as Lu. unfold open_conn in C.
  destruct (match ep with Some a0 => match limiter_add c (lims st) a0 with Some l => Some l | None => None end
                        | None => Some (lims st) end) as [l|]; [|cbn in C; discriminate].
  destruct (I_base c _ a I) as (B1 & B2 & B3 & B4).
  unfold new_scope at 1 in C.
  set (mb := increfs (scopes st) [Transient; System]) in *.
  assert (Eb : extends c (scopes st) mb) by apply extends_increfs.
  assert (Ib : Inv c mb a) by (apply (Inv_extends c _ mb a LO I Eb)).
  set (sc0 := mkScope (lim_conn c) stat0 false 0 [] [Transient; System]) in *.
  set (k := KConn inb usefd) in *.
  assert (Nd1 : NoDup [Transient; System]) by (repeat constructor; cbn; intuition discriminate).
  assert (HE1 : forall x, In x [Transient; System] -> is_handle x = false /\ get mb x <> None).
  { intros x [<-|[<-|[]]]; (split; [reflexivity|]); [apply (extends_present c _ mb _ Eb B2) | apply (extends_present c _ mb _ Eb B1)]. }
  assert (Oth1 : forall y, y <> Conn i -> shape_of (set mb (Conn i) sc0) y = shape_of mb y /\ use_of (set mb (Conn i) sc0) y = use_of mb y).
  { intros y Hne. unfold shape_of, use_of. rewrite get_set_other by congruence. split; reflexivity. }
  pose proof (open_leaf_just c mb (set mb (Conn i) sc0) a (Conn i) [Transient; System] (lim_conn c) 0 k LO Ib eq_refl Hf Nd1 HE1 eq_refl
                Oth1 (get_set_same mb (Conn i) sc0) Logic.I (conn_vec_mem inb usefd)) as J1.
  pose proof (open_leaf c mb (set mb (Conn i) sc0) a
                (mkAstate (hset (holders a) (Conn i) (mkHolder (conn_vec inb usefd) (conn_par false) [] false))
                          (nset (aconns a) i (mkAconn ep false None true false)) (astreams a))
                (Conn i) [Transient; System] (lim_conn c) 0 k LO Ib eq_refl Hf Nd1 HE1 eq_refl
                Oth1 (get_set_same mb (Conn i) sc0) Logic.I (conn_vec_mem inb usefd) eq_refl) as H.
  destruct (scope_reserve (set mb (Conn i) sc0) (Conn i) k) as [m1 e1] eqn:R1.
  destruct e1 as [e1|]; [|cbn in C; discriminate].
  destruct (J1 m1 e1 eq_refl) as (_ & x1 & Hx1 & Ex1).
  assert (Ch1 : existsb (fun t => would_exceed c a m t (conn_vec inb usefd) 255 false) [Conn i; Transient; System] = true).
  { apply (just_chain c a m _ _ 255 false x1 Lu Hx1); [|exact Ex1]. destruct Hx1 as [<-|[<-|[<-|[]]]]; reflexivity. }
  unfold refusal_justified. cbn [constrainers forallb app]. rewrite Ch1. cbn [andb].
  unfold ep_allowed. destruct (match ep with Some a0 => allowed c a0 | None => false end) eqn:Al; [|reflexivity].
  cbn [forallb]. rewrite andb_true_r.
  (* the retry through the allow-listed scopes was refused as well *)
  cbn [scopes conns streams lims with_scopes] in C.
  set (md := scope_done m1 (Conn i)) in *.
  unfold new_scope in C.
  set (sc1 := mkScope (lim_conn c) stat0 false 0 [] [ATransient; ASystem]) in *.
  set (m3 := set (increfs (remove md (Conn i)) [ATransient; ASystem]) (Conn i) sc1) in *.
  destruct (I_base c md a H) as (D1 & D2 & D3 & D4).
  assert (Oth : forall y, y <> Conn i -> shape_of m3 y = shape_of md y /\ use_of m3 y = use_of md y).
  { intros y Hne. unfold m3. split.
    - unfold shape_of at 1. rewrite get_set_other by congruence. fold (shape_of (increfs (remove md (Conn i)) [ATransient; ASystem]) y).
      rewrite increfs_shape. unfold shape_of. rewrite get_remove_other by exact Hne. reflexivity.
    - unfold use_of at 1. rewrite get_set_other by congruence. fold (use_of (increfs (remove md (Conn i)) [ATransient; ASystem]) y).
      rewrite increfs_use. unfold use_of. rewrite get_remove_other by exact Hne. reflexivity. }
  pose proof (open_leaf_just c md m3 a (Conn i) [ATransient; ASystem] (lim_conn c) 0 k LO H eq_refl Hf
                ltac:(repeat constructor; cbn; intuition discriminate)
                ltac:(intros x [<-|[<-|[]]]; (split; [reflexivity | assumption])) eq_refl
                Oth (get_set_same _ (Conn i) sc1) Logic.I (conn_vec_mem inb usefd)) as J2.
  destruct (scope_reserve m3 (Conn i) k) as [m4 e4] eqn:R4. destruct e4 as [e4|]; [|cbn in C; discriminate].
  destruct (J2 m4 e4 eq_refl) as (_ & x2 & Hx2 & Ex2).
  apply (just_chain c a m _ _ 255 false x2 Lu Hx2); [|exact Ex2]. destruct Hx2 as [<-|[<-|[<-|[]]]]; reflexivity.
Qed.

(* ---- ReserveMemory ------------------------------------------------------------------------------------ *)
Lemma targets_prefix_reach : forall c m a t, Inv c m a -> holder_if_handle a t ->
  forall p x q, targets m t = p ++ x :: q -> all_live m p -> is_done m x = false -> In x (areach a t).
Proof.
  intros c m a t I. pose proof (I_wf c m a I) as W. pattern t. apply (chain_ind a); [exact W| |]; clear t.
  - intros t E K p x q Et Lp Lx.
    rewrite targets_root in Et by (rewrite (chain_of_link c m a t I K); exact E).
    assert (Lt : is_done m t = false).
    { destruct p as [|y p']; cbn in Et; inversion Et; subst; [exact Lx | apply Lp; left; reflexivity]. }
    assert (Kn : known m a t).
    { unfold known. destruct (is_handle t) eqn:Hh; [apply K; exact Hh|]. unfold is_done in Lt. destruct (get m t); [discriminate | discriminate]. }
    assert (Hs : is_span t = false).
    { destruct t; try reflexivity. exfalso. specialize (K eq_refl).
      destruct (hget (holders a) (Span k)) as [h|] eqn:G; [|apply K; reflexivity].
      destruct (W_span a W _ h G eq_refl) as (o & Eo & _).
      unfold a_chain in E. rewrite G in E. rewrite E in Eo. discriminate. }
    rewrite (edges_link c m a t I Kn Hs) in Et.
    rewrite (areach_root a t E), <- (done_link c m a t I Kn), Lt, Et. apply in_or_app. right. left. reflexivity.
  - intros t o Hsp E N IH K p x q Et Lp Lx.
    assert (Kh : hget (holders a) t <> None) by (apply K; destruct t; try discriminate; reflexivity).
    assert (Ko : holder_if_handle a o).
    { intros Ho. destruct (hget (holders a) t) as [h|] eqn:G; [|contradiction].
      destruct (W_span a W t h G Hsp) as (o' & E' & Kn & _).
      unfold a_chain in E at 1. rewrite G in E. rewrite E in E'. inversion E'; subst o'. apply Kn, Ho. }
    assert (Em : chain_of m t = o :: chain_of m o).
    { rewrite (chain_of_link c m a t I (fun _ => Kh)), (chain_of_link c m a o I Ko). exact E. }
    rewrite (targets_span m t o Em) in Et.
    assert (Kn : known m a t) by (unfold known; destruct t; try discriminate; exact Kh).
    assert (Lt : is_done m t = false).
    { destruct p as [|y p']; cbn in Et; inversion Et; subst; [exact Lx | apply Lp; left; reflexivity]. }
    rewrite (areach_span a t o E), <- (done_link c m a t I Kn), Lt.
    destruct p as [|y p']; cbn in Et; inversion Et; subst; [left; reflexivity|]. right.
    apply (IH Ko p' x q); [assumption | intros z Hz; apply Lp; right; exact Hz | exact Lx].
Qed.

Lemma charge_neg_code : forall t k m r sz prio, k = KMem sz prio -> sz < 0 ->
  ecode (snd (charge_list (t :: r) [] k m)) <> 1.
Proof.
  intros t k m r sz prio -> Hs. cbn [charge_list]. unfold charge_one.
  destruct (get m t) as [sc|]; [|cbn; discriminate].
  destruct (s_done sc); [cbn; discriminate|].
  cbn [rc_reserve]. unfold reserve_memory, check_memory.
  replace (sz <? 0) with true by (symmetry; apply Z.ltb_lt; exact Hs). cbn. discriminate.
Qed.

Theorem reserve_just : forall c st a m t sz prio,
  cfg_ok c -> Inv c (scopes st) a ->
  0 <= prio <= 255 -> sz <= max_int64 -> view_target t = true -> has_holder a t = true ->
  novf (scopes st) (Z.max sz 0) -> (forall x, ostat m x = use_of (scopes st) x) ->
  snd (reserve_mem c st t sz prio) = 1 -> refusal_justified c a m (OReserve t sz prio) = true.
Proof.
  intros c st a m t sz prio LO I Hp Hsz V Hh Ov L C. unfold reserve_mem in C.
  pose proof (has_holder_if a t Hh) as K.
  pose proof (extends_view_enter c (scopes st) a t I) as E0.
  set (m0 := view_enter c (scopes st) t) in *.
  assert (I0 : Inv c m0 a) by (apply (Inv_extends c (scopes st) m0 a LO I E0)).
  unfold scope_reserve in C.
  destruct (Z_lt_le_dec sz 0) as [Hneg|Hpos].
  - exfalso. apply (charge_neg_code t (KMem sz prio) m0 (chain_of m0 t ++ edges_of m0 (root_of m0 t)) sz prio eq_refl Hneg).
    unfold targets in C. destruct (charge_list _ [] (KMem sz prio) m0) as [m1 e]. exact C.
  - destruct (targets_spec c m0 a t I0 K) as (Nd & _ & _).
    assert (Hk : kind_ok (KMem sz prio)) by (cbn; lia).
    assert (Ov0 : forall x, In x (targets m0 t) -> mem (use_of m0 x) + mem (kdelta (KMem sz prio)) <= max_int64).
    { intros x _. destruct (E0 x) as [U _]. rewrite U. cbn. specialize (Ov x). lia. }
    destruct (charge_list (targets m0 t) [] (KMem sz prio) m0) as [m1 e] eqn:Cl. cbn [snd] in C.
    destruct e as [e|]; [|cbn in C; discriminate].
    destruct (charge_list_refused _ [] _ m0 m1 e Hk (I_good c m0 a I0) Nd Ov0 Cl) as (p & x & q & El & Lp & Rx).
    destruct Rx as [[_ ->]|[-> (sc & G & Dn & Ex)]]; [cbn in C; discriminate|].
    assert (Lx : is_done m0 x = false) by (unfold is_done; rewrite G; exact Dn).
    pose proof (targets_prefix_reach c m0 a t I0 K p x q El Lp Lx) as Hx.
    unfold refusal_justified. cbn [constrainers forallb]. rewrite andb_true_r.
    apply existsb_exists. exists x. split; [exact Hx|]. rewrite would_exceed_eq, L.
    rewrite <- (live_limit c m0 a x sc I0 G Dn). destruct (E0 x) as [U _]. rewrite <- U, (use_of_get m0 x sc G). exact Ex.
Qed.

(* C03 — base lemmas: identifiers, the scope map, counters, one scope's share
   of a reservation, reservation over a list of scopes with undo. *)
From Coq Require Import List ZArith Bool Arith Lia.
From Verif Require Import c03.Int64 c03.Model c03.Spec c03.Proofs_Int64.
Import ListNotations.
Local Open Scope Z_scope.

(* ---- identifiers ---------------------------------------------------------- *)
Lemma sid_eqb_eq : forall a b, sid_eqb a b = true <-> a = b.
Proof.
  intros a b; split.
  - destruct a, b; cbn; intros H; try discriminate; try reflexivity;
      try (apply Nat.eqb_eq in H; subst; reflexivity);
      try (apply andb_true_iff in H; destruct H as [H1 H2]; apply Nat.eqb_eq in H1, H2; subst; reflexivity).
  - intros ->. destruct b; cbn; try reflexivity; rewrite ?Nat.eqb_refl; reflexivity.
Qed.

Lemma sid_eqb_refl : forall a, sid_eqb a a = true.
Proof. intros. apply sid_eqb_eq. reflexivity. Qed.

Lemma sid_eqb_neq : forall a b, sid_eqb a b = false <-> a <> b.
Proof.
  intros a b. split.
  - intros H E. apply sid_eqb_eq in E. congruence.
  - intros H. destruct (sid_eqb a b) eqn:E; [apply sid_eqb_eq in E; contradiction | reflexivity].
Qed.

Lemma sid_dec : forall a b : sid, {a = b} + {a <> b}.
Proof.
  intros a b. destruct (sid_eqb a b) eqn:E.
  - left. apply sid_eqb_eq, E.
  - right. apply sid_eqb_neq, E.
Qed.

Ltac sid_cases a b :=
  let E := fresh "E" in
  destruct (sid_eqb a b) eqn:E;
  [apply sid_eqb_eq in E; try subst | apply sid_eqb_neq in E].

(* ---- the scope map ----------------------------------------------------------- *)
Lemma get_set_same : forall m t v, get (set m t v) t = Some v.
Proof.
  induction m as [|[x sc] r IH]; intros; cbn.
  - rewrite sid_eqb_refl. reflexivity.
  - destruct (sid_eqb x t) eqn:E; cbn; rewrite E; [reflexivity | apply IH].
Qed.

Lemma get_set_other : forall m t v x, t <> x -> get (set m t v) x = get m x.
Proof.
  induction m as [|[y sc] r IH]; intros t v x Hne; cbn.
  - apply sid_eqb_neq in Hne. rewrite Hne. reflexivity.
  - destruct (sid_eqb y t) eqn:E; cbn.
    + apply sid_eqb_eq in E. subst y. apply sid_eqb_neq in Hne. rewrite Hne. reflexivity.
    + destruct (sid_eqb y x); [reflexivity | apply IH, Hne].
Qed.

Lemma get_set : forall m t v x, get (set m t v) x = if sid_eqb t x then Some v else get m x.
Proof.
  intros. sid_cases t x.
  - apply get_set_same.
  - apply get_set_other, E.
Qed.

Lemma get_upd : forall m t f x,
  get (upd m t f) x = if sid_eqb t x then option_map f (get m t) else get m x.
Proof.
  intros. unfold upd. destruct (get m t) eqn:G.
  - rewrite get_set. sid_cases t x; reflexivity.
  - sid_cases t x; [rewrite G|]; reflexivity.
Qed.

(* ---- counters --------------------------------------------------------------------- *)
Definition nonneg (u : stat) : Prop :=
  0 <= mem u /\ 0 <= sin u /\ 0 <= sout u /\ 0 <= cin u /\ 0 <= cout u /\ 0 <= fd u.

Definition fits (l : limit) (u : stat) : Prop :=
  mem u <= l_mem l /\ sin u <= l_sin l /\ sout u <= l_sout l /\ sin u + sout u <= l_s l /\
  cin u <= l_cin l /\ cout u <= l_cout l /\ cin u + cout u <= l_c l /\ fd u <= l_fd l.

Definition lim_ok (l : limit) : Prop :=
  0 <= l_mem l <= max_int64 /\ 0 <= l_s l /\ 0 <= l_sin l /\ 0 <= l_sout l /\
  0 <= l_c l /\ 0 <= l_cin l /\ 0 <= l_cout l /\ 0 <= l_fd l.

Definition stat_le (a b : stat) : Prop :=
  mem a <= mem b /\ sin a <= sin b /\ sout a <= sout b /\ cin a <= cin b /\ cout a <= cout b /\ fd a <= fd b.

Lemma stat_ext : forall a b, mem a = mem b -> sin a = sin b -> sout a = sout b ->
  cin a = cin b -> cout a = cout b -> fd a = fd b -> a = b.
Proof. intros [] []; cbn; intros; subst; reflexivity. Qed.

Ltac stat_crush :=
  repeat match goal with
         | s : stat |- _ => destruct s
         | H : nonneg _ |- _ => unfold nonneg in H
         | H : stat_le _ _ |- _ => unfold stat_le in H
         end;
  unfold nonneg, stat_le, stat_add, stat_sub, stat_scale, stat0, mem_vec, conn_vec, stream_vec, b2z in *;
  cbn [mem sin sout cin cout fd] in *;
  try (apply stat_ext; cbn [mem sin sout cin cout fd]);
  repeat split; try lia.

Lemma stat_eqb_eq : forall a b, stat_eqb a b = true <-> a = b.
Proof.
  intros a b. unfold stat_eqb. split.
  - intros H. repeat (apply andb_true_iff in H; destruct H as [H ?]).
    apply stat_ext; apply Z.eqb_eq; assumption.
  - intros ->. rewrite !Z.eqb_refl. reflexivity.
Qed.

Lemma stat_add_0_r : forall a, stat_add a stat0 = a.
Proof. intros. stat_crush. Qed.
Lemma stat_add_0_l : forall a, stat_add stat0 a = a.
Proof. intros. stat_crush. Qed.
Lemma stat_scale_0 : forall a, stat_scale 0 a = stat0.
Proof. intros. stat_crush. Qed.
Lemma stat_scale_1 : forall a, stat_scale 1 a = a.
Proof. intros. stat_crush. Qed.
Lemma stat_scale_stat0 : forall n, stat_scale n stat0 = stat0.
Proof. intros. stat_crush. Qed.

(* the vector a reservation asks for *)
Definition kdelta (k : rkind) : stat :=
  match k with
  | KMem sz _ => mem_vec sz
  | KStream inb => stream_vec inb
  | KConn inb usefd => conn_vec inb usefd
  | KStat st => st
  end.

(* well-formed request: what Go's types guarantee, plus a non-negative size *)
Definition kind_ok (k : rkind) : Prop :=
  match k with
  | KMem sz prio => 0 <= sz <= max_int64 /\ 0 <= prio <= 255
  | KStat st => nonneg st /\ mem st <= max_int64
  | _ => True
  end.

Lemma kdelta_nonneg : forall k, kind_ok k -> nonneg (kdelta k).
Proof.
  intros [sz prio|inb|inb f|st] H; cbn in *.
  - unfold nonneg, mem_vec; cbn. lia.
  - destruct inb; unfold nonneg, stream_vec; cbn; lia.
  - destruct inb, f; unfold nonneg, conn_vec; cbn; lia.
  - apply H.
Qed.

Lemma clamp0_id : forall z, 0 <= z -> clamp0 z = z.
Proof. intros. unfold clamp0. destruct (z <? 0) eqn:E; [apply Z.ltb_lt in E; lia | reflexivity]. Qed.

Lemma reserve_memory_ok : forall lim u sz prio u',
  lim_ok lim -> nonneg u -> fits lim u -> 0 <= sz <= max_int64 -> 0 <= prio <= 255 ->
  mem u + sz <= max_int64 ->
  reserve_memory lim u sz prio = inl u' ->
  u' = stat_add u (mem_vec sz) /\
  (l_mem lim = max_int64 \/ mem u + sz <= mem_threshold (l_mem lim) prio).
Proof.
  intros lim u sz prio u' Hl Hn Hf Hsz Hp Hov H. unfold reserve_memory in H.
  destruct Hl as [Hlm _]. destruct Hn as [Hm _]. destruct Hf as [Hfm _].
  rewrite check_memory_spec_l in H by lia.
  destruct (l_mem lim =? max_int64) eqn:E.
  - inversion H; subst. rewrite add64_exact by (unfold min_int64; lia).
    split; [stat_crush | left; apply Z.eqb_eq, E].
  - destruct (mem u + sz <=? mem_threshold (l_mem lim) prio) eqn:E2; [|discriminate].
    inversion H; subst. rewrite add64_exact by (unfold min_int64; lia).
    split; [stat_crush | right; apply Z.leb_le, E2].
Qed.

Lemma mem_threshold_le : forall l prio, 0 <= l -> 0 <= prio <= 255 -> mem_threshold l prio <= l.
Proof. intros. unfold mem_threshold. apply Z.div_le_upper_bound; [lia | nia]. Qed.

Lemma add_streams_ok : forall lim u i o u', 0 <= i -> 0 <= o -> fits lim u ->
  add_streams lim u i o = Some u' ->
  u' = stat_add u (mkStat 0 i o 0 0 0) /\ fits lim u'.
Proof.
  intros lim u i o u' Hi Ho Hf H. unfold add_streams in H.
  destruct ((i >? 0) && (sin u + i >? l_sin lim)) eqn:E1; [discriminate|].
  destruct ((o >? 0) && (sout u + o >? l_sout lim)) eqn:E2; [discriminate|].
  destruct (sin u + i + sout u + o >? l_s lim) eqn:E3; [discriminate|].
  inversion H; subst. split; [stat_crush|].
  rewrite Z.gtb_ltb in E3. apply Z.ltb_ge in E3.
  unfold fits in *; cbn [mem sin sout cin cout fd].
  assert (sin u + i <= l_sin lim).
  { destruct (i >? 0) eqn:Ei.
    - cbn in E1. rewrite Z.gtb_ltb in E1. apply Z.ltb_ge in E1. lia.
    - rewrite Z.gtb_ltb in Ei. apply Z.ltb_ge in Ei. lia. }
  assert (sout u + o <= l_sout lim).
  { destruct (o >? 0) eqn:Eo.
    - cbn in E2. rewrite Z.gtb_ltb in E2. apply Z.ltb_ge in E2. lia.
    - rewrite Z.gtb_ltb in Eo. apply Z.ltb_ge in Eo. lia. }
  repeat split; lia.
Qed.

Lemma add_conns_ok : forall lim u i o f u', 0 <= i -> 0 <= o -> 0 <= f -> fits lim u ->
  add_conns lim u i o f = Some u' ->
  u' = stat_add u (mkStat 0 0 0 i o f) /\ fits lim u'.
Proof.
  intros lim u i o f u' Hi Ho Hf0 Hf H. unfold add_conns in H.
  destruct ((i >? 0) && (cin u + i >? l_cin lim)) eqn:E1; [discriminate|].
  destruct ((o >? 0) && (cout u + o >? l_cout lim)) eqn:E2; [discriminate|].
  destruct (cin u + i + cout u + o >? l_c lim) eqn:E3; [discriminate|].
  destruct ((f >? 0) && (fd u + f >? l_fd lim)) eqn:E4; [discriminate|].
  inversion H; subst. split; [stat_crush|].
  rewrite Z.gtb_ltb in E3. apply Z.ltb_ge in E3.
  unfold fits in *; cbn [mem sin sout cin cout fd].
  assert (cin u + i <= l_cin lim).
  { destruct (i >? 0) eqn:Ei.
    - cbn in E1. rewrite Z.gtb_ltb in E1. apply Z.ltb_ge in E1. lia.
    - rewrite Z.gtb_ltb in Ei. apply Z.ltb_ge in Ei. lia. }
  assert (cout u + o <= l_cout lim).
  { destruct (o >? 0) eqn:Eo.
    - cbn in E2. rewrite Z.gtb_ltb in E2. apply Z.ltb_ge in E2. lia.
    - rewrite Z.gtb_ltb in Eo. apply Z.ltb_ge in Eo. lia. }
  assert (fd u + f <= l_fd lim).
  { destruct (f >? 0) eqn:Ef.
    - cbn in E4. rewrite Z.gtb_ltb in E4. apply Z.ltb_ge in E4. lia.
    - rewrite Z.gtb_ltb in Ef. apply Z.ltb_ge in Ef. lia. }
  repeat split; lia.
Qed.

(* a successful reservation adds exactly the vector asked for and respects the limit *)
Lemma rc_reserve_ok : forall k lim u u',
  kind_ok k -> lim_ok lim -> nonneg u -> fits lim u -> mem u + mem (kdelta k) <= max_int64 ->
  rc_reserve k lim u = inl u' ->
  u' = stat_add u (kdelta k) /\ fits lim u' /\ nonneg u'.
Proof.
  intros k lim u u' Hk Hl Hn Hf Hov H.
  assert (Hfin : forall v, v = stat_add u (kdelta k) -> nonneg v).
  { intros v ->. pose proof (kdelta_nonneg k Hk). stat_crush. }
  destruct k as [sz prio|inb|inb f|st]; cbn [rc_reserve kdelta] in *.
  - destruct Hk as [Hsz Hp]. cbn in Hov.
    destruct (reserve_memory_ok lim u sz prio u' Hl Hn Hf Hsz Hp Hov H) as [-> Hth].
    split; [reflexivity|]. split; [|apply Hfin; reflexivity].
    destruct Hl as [Hlm _]. pose proof (mem_threshold_le (l_mem lim) prio ltac:(lia) Hp).
    unfold fits in *. cbn [stat_add mem_vec mem sin sout cin cout fd]. repeat split; try lia.
  - destruct (add_streams lim u (b2z inb) (b2z (negb inb))) eqn:E; [|discriminate].
    inversion H; subst. apply add_streams_ok in E; try (destruct inb; cbn; lia); try assumption.
    destruct E as [-> Hf']. split; [destruct inb; reflexivity|]. split; [assumption|].
    apply Hfin. destruct inb; reflexivity.
  - destruct (add_conns lim u (b2z inb) (b2z (negb inb)) (b2z f)) eqn:E; [|discriminate].
    inversion H; subst. apply add_conns_ok in E; try (destruct inb, f; cbn; lia); try assumption.
    destruct E as [-> Hf']. split; [destruct inb, f; reflexivity|]. split; [assumption|].
    apply Hfin. destruct inb, f; reflexivity.
  - destruct Hk as [Hst Hsm]. destruct Hst as (S1 & S2 & S3 & S4 & S5 & S6).
    destruct (reserve_memory lim u (mem st) 255) as [u1|] eqn:E1; [|discriminate].
    destruct (reserve_memory_ok lim u (mem st) 255 u1 Hl Hn Hf ltac:(lia) ltac:(lia) Hov E1) as [-> Hth].
    assert (Hf1 : fits lim (stat_add u (mem_vec (mem st)))).
    { destruct Hl as [Hlm _]. pose proof (mem_threshold_le (l_mem lim) 255 ltac:(lia) ltac:(lia)).
      unfold fits in *. cbn [stat_add mem_vec mem sin sout cin cout fd]. repeat split; lia. }
    destruct (add_streams lim _ (sin st) (sout st)) as [u2|] eqn:E2; [|discriminate].
    apply add_streams_ok in E2; try assumption. destruct E2 as [-> Hf2].
    destruct (add_conns lim _ (cin st) (cout st) (fd st)) as [u3|] eqn:E3; [|discriminate].
    apply add_conns_ok in E3; try assumption. destruct E3 as [-> Hf3].
    inversion H; subst.
    assert (Heq : stat_add (stat_add (stat_add u (mem_vec (mem st))) (mkStat 0 (sin st) (sout st) 0 0 0))
                           (mkStat 0 0 0 (cin st) (cout st) (fd st)) = stat_add u st) by stat_crush.
    rewrite Heq in *. split; [reflexivity|]. split; [assumption|]. apply Hfin. reflexivity.
Qed.

(* a release of at most what is there subtracts exactly *)
Lemma rc_release_exact : forall k u, kind_ok k -> nonneg u -> mem u <= max_int64 -> stat_le (kdelta k) u ->
  rc_release k u = stat_sub u (kdelta k).
Proof.
  intros k u Hk Hn Hmax Hle. pose proof (kdelta_nonneg k Hk) as Hd.
  destruct k as [sz prio|inb|inb f|st]; cbn [rc_release kdelta] in *;
    unfold release_memory, remove_streams, remove_conns;
    unfold stat_le, nonneg in *; cbn [mem_vec stream_vec conn_vec mem sin sout cin cout fd] in *.
  - destruct Hk as [Hsz _]. rewrite sub64_exact by (unfold min_int64, max_int64 in *; lia).
    rewrite clamp0_id by lia. stat_crush.
  - destruct inb; cbn [b2z negb] in *; rewrite !clamp0_id by lia; stat_crush.
  - destruct inb, f; cbn [b2z negb] in *; rewrite !clamp0_id by lia; stat_crush.
  - destruct Hk as [_ Hsm].
    rewrite sub64_exact by (unfold min_int64, max_int64 in *; lia).
    rewrite !clamp0_id by lia. stat_crush.
Qed.

(* in general a release never increases a counter, keeps it non-negative and within the limit *)
Lemma rc_release_mono : forall k u lim, kind_ok k -> lim_ok lim -> nonneg u -> fits lim u ->
  nonneg (rc_release k u) /\ fits lim (rc_release k u) /\ stat_le (rc_release k u) u.
Proof.
  intros k u lim Hk [Hlm _] Hn Hf. pose proof (kdelta_nonneg k Hk) as Hd.
  assert (Hc : forall a b, 0 <= a -> 0 <= b -> 0 <= clamp0 (a - b) <= a).
  { intros a b Ha Hb. unfold clamp0. destruct (a - b <? 0) eqn:E; [apply Z.ltb_lt in E | apply Z.ltb_ge in E]; lia. }
  assert (Hm : forall sz, 0 <= sz <= max_int64 -> 0 <= clamp0 (sub64 (mem u) sz) <= mem u).
  { intros sz Hsz. destruct Hn as [Hm0 _]. destruct Hf as [Hfm _].
    rewrite sub64_exact; [apply Hc; lia|].
    unfold min_int64, max_int64 in *. lia. }
  destruct Hn as (N1 & N2 & N3 & N4 & N5 & N6).
  destruct Hf as (F1 & F2 & F3 & F4 & F5 & F6 & F7 & F8).
  destruct k as [sz prio|inb|inb f|st]; cbn [rc_release kdelta] in *;
    unfold release_memory, remove_streams, remove_conns, nonneg, fits, stat_le in *;
    cbn [mem_vec stream_vec conn_vec mem sin sout cin cout fd] in *.
  - destruct Hk as [Hsz _]. pose proof (Hm sz Hsz). repeat split; lia.
  - pose proof (Hc (sin u) (b2z inb) N2 ltac:(destruct inb; cbn; lia)).
    pose proof (Hc (sout u) (b2z (negb inb)) N3 ltac:(destruct inb; cbn; lia)). repeat split; lia.
  - pose proof (Hc (cin u) (b2z inb) N4 ltac:(destruct inb; cbn; lia)).
    pose proof (Hc (cout u) (b2z (negb inb)) N5 ltac:(destruct inb; cbn; lia)).
    pose proof (Hc (fd u) (b2z f) N6 ltac:(destruct f; cbn; lia)). repeat split; lia.
  - destruct Hk as [Hst Hsm]. destruct Hst as (S1 & S2 & S3 & S4 & S5 & S6).
    pose proof (Hm (mem st) ltac:(lia)).
    pose proof (Hc (sin u) (sin st) N2 S2). pose proof (Hc (sout u) (sout st) N3 S3).
    pose proof (Hc (cin u) (cin st) N4 S4). pose proof (Hc (cout u) (cout st) N5 S5).
    pose proof (Hc (fd u) (fd st) N6 S6). repeat split; lia.
Qed.

Lemma rc_release_zero : forall u, nonneg u -> mem u <= max_int64 -> rc_release (KStat stat0) u = u.
Proof.
  intros u Hn Hm. rewrite rc_release_exact.
  - cbn [kdelta]. stat_crush.
  - cbn. split; [stat_crush | cbn; unfold max_int64; lia].
  - exact Hn.
  - exact Hm.
  - cbn. stat_crush.
Qed.

(* ---- per-scope well-formedness ------------------------------------------------------ *)
Definition good (sc : scope) : Prop :=
  lim_ok (s_lim sc) /\ nonneg (s_use sc) /\ fits (s_lim sc) (s_use sc).

Definition all_good (m : smap) : Prop := forall t sc, get m t = Some sc -> good sc.

Lemma good_mem_le : forall sc, good sc -> mem (s_use sc) <= max_int64.
Proof. intros sc (L & _ & F). destruct L as [L _]. destruct F as [F _]. lia. Qed.

(* the "shape" of a scope: everything but its counters and reference count *)
Definition shape (sc : scope) := (s_lim sc, s_done sc, s_chain sc, s_edges sc).
Definition shape_of (m : smap) (t : sid) := option_map shape (get m t).

Lemma use_of_set : forall m t v x,
  use_of (set m t v) x = if sid_eqb t x then s_use v else use_of m x.
Proof. intros. unfold use_of. rewrite get_set. destruct (sid_eqb t x); reflexivity. Qed.

Lemma is_done_shape : forall m m' t, shape_of m t = shape_of m' t -> is_done m t = is_done m' t.
Proof.
  intros m m' t H. unfold shape_of, is_done in *.
  destruct (get m t), (get m' t); cbn in H; try discriminate; [|reflexivity].
  unfold shape in H. inversion H. reflexivity.
Qed.

Lemma edges_of_shape : forall m m' t, shape_of m t = shape_of m' t -> edges_of m t = edges_of m' t.
Proof.
  intros m m' t H. unfold shape_of, edges_of in *.
  destruct (get m t), (get m' t); cbn in H; try discriminate; [|reflexivity].
  unfold shape in H. inversion H. reflexivity.
Qed.

Lemma chain_of_shape : forall m m' t, shape_of m t = shape_of m' t -> chain_of m t = chain_of m' t.
Proof.
  intros m m' t H. unfold shape_of, chain_of in *.
  destruct (get m t), (get m' t); cbn in H; try discriminate; [|reflexivity].
  unfold shape in H. inversion H. reflexivity.
Qed.

(* incref / decref change neither shapes nor counters *)
Lemma upd_ref_shape : forall m t f x, (forall sc, shape (f sc) = shape sc) ->
  shape_of (upd m t f) x = shape_of m x.
Proof.
  intros. unfold shape_of. rewrite get_upd. sid_cases t x; [|reflexivity].
  destruct (get m x); cbn; [rewrite H|]; reflexivity.
Qed.
Lemma upd_ref_use : forall m t f x, (forall sc, s_use (f sc) = s_use sc) ->
  use_of (upd m t f) x = use_of m x.
Proof.
  intros. unfold use_of. rewrite get_upd. sid_cases t x; [|reflexivity].
  destruct (get m x); cbn; [rewrite H|]; reflexivity.
Qed.
Lemma upd_good : forall m t f, (forall sc, good sc -> good (f sc)) -> all_good m -> all_good (upd m t f).
Proof.
  intros m t f Hf Hg x sc Hx. rewrite get_upd in Hx. sid_cases t x.
  - destruct (get m x) eqn:G; cbn in Hx; [|discriminate]. inversion Hx; subst. apply Hf, (Hg x), G.
  - apply (Hg x), Hx.
Qed.

Lemma incref_shape : forall m t x, shape_of (incref m t) x = shape_of m x.
Proof. intros. apply upd_ref_shape. reflexivity. Qed.
Lemma decref_shape : forall m t x, shape_of (decref m t) x = shape_of m x.
Proof. intros. apply upd_ref_shape. reflexivity. Qed.
Lemma incref_use : forall m t x, use_of (incref m t) x = use_of m x.
Proof. intros. apply upd_ref_use. reflexivity. Qed.
Lemma decref_use : forall m t x, use_of (decref m t) x = use_of m x.
Proof. intros. apply upd_ref_use. reflexivity. Qed.
Lemma incref_good : forall m t, all_good m -> all_good (incref m t).
Proof. intros. apply upd_good; [|assumption]. intros sc H0. exact H0. Qed.
Lemma decref_good : forall m t, all_good m -> all_good (decref m t).
Proof. intros. apply upd_good; [|assumption]. intros sc H0. exact H0. Qed.

Lemma increfs_shape : forall l m x, shape_of (increfs m l) x = shape_of m x.
Proof. induction l; intros; cbn; [reflexivity|]. unfold increfs in *. cbn. rewrite IHl. apply incref_shape. Qed.
Lemma increfs_use : forall l m x, use_of (increfs m l) x = use_of m x.
Proof. induction l; intros; cbn; [reflexivity|]. unfold increfs in *. cbn. rewrite IHl. apply incref_use. Qed.
Lemma increfs_good : forall l m, all_good m -> all_good (increfs m l).
Proof. induction l; intros; cbn; [assumption|]. unfold increfs in *. cbn. apply IHl, incref_good, H. Qed.

(* ---- one scope's share ------------------------------------------------------------------ *)
Lemma charge_one_ok : forall t k m m',
  kind_ok k -> all_good m -> mem (use_of m t) + mem (kdelta k) <= max_int64 ->
  charge_one t k m = inl m' ->
  is_done m t = false /\
  (forall x, shape_of m' x = shape_of m x) /\
  (forall x, use_of m' x = if sid_eqb t x then stat_add (use_of m t) (kdelta k) else use_of m x) /\
  all_good m'.
Proof.
  intros t k m m' Hk Hg Hov H. unfold charge_one in H.
  destruct (get m t) as [sc|] eqn:G; [|discriminate].
  destruct (s_done sc) eqn:D; [discriminate|].
  destruct (rc_reserve k (s_lim sc) (s_use sc)) as [u|e] eqn:R; [|discriminate].
  inversion H; subst m'. clear H.
  destruct (Hg t sc G) as (L & N & F).
  assert (Hu : use_of m t = s_use sc) by (unfold use_of; rewrite G; reflexivity).
  rewrite Hu in Hov.
  destruct (rc_reserve_ok k (s_lim sc) (s_use sc) u Hk L N F Hov R) as (-> & F' & N').
  split; [unfold is_done; rewrite G; exact D|]. split; [|split].
  - intros x. unfold shape_of. rewrite get_set. sid_cases t x; [rewrite G|]; reflexivity.
  - intros x. rewrite use_of_set. rewrite Hu. reflexivity.
  - intros x sc' Hx. rewrite get_set in Hx. sid_cases t x.
    + inversion Hx; subst. split; [exact L | split; [exact N' | exact F']].
    + apply (Hg x), Hx.
Qed.

Lemma charge_one_err : forall t k m e, charge_one t k m = inr e -> True.
Proof. trivial. Qed.

Lemma uncharge_one_props : forall t k m, kind_ok k -> all_good m ->
  (forall x, shape_of (uncharge_one t k m) x = shape_of m x) /\
  all_good (uncharge_one t k m) /\
  (forall x, x <> t -> use_of (uncharge_one t k m) x = use_of m x) /\
  stat_le (use_of (uncharge_one t k m) t) (use_of m t) /\
  (is_done m t = false -> stat_le (kdelta k) (use_of m t) ->
   use_of (uncharge_one t k m) t = stat_sub (use_of m t) (kdelta k)) /\
  (is_done m t = true -> forall x, use_of (uncharge_one t k m) x = use_of m x).
Proof.
  intros t k m Hk Hg. unfold uncharge_one.
  destruct (get m t) as [sc|] eqn:G.
  2:{ split; [reflexivity|]. split; [assumption|]. split; [reflexivity|].
      split; [unfold stat_le; lia|]. split.
      - intros D. unfold is_done in D. rewrite G in D. discriminate.
      - reflexivity. }
  destruct (s_done sc) eqn:D.
  { split; [reflexivity|]. split; [assumption|]. split; [reflexivity|].
    split; [unfold stat_le; lia|]. split.
    - intros D'. unfold is_done in D'. rewrite G in D'. congruence.
    - reflexivity. }
  destruct (Hg t sc G) as (L & N & F).
  destruct (rc_release_mono k (s_use sc) (s_lim sc) Hk L N F) as (N' & F' & Le).
  assert (Hu : use_of m t = s_use sc) by (unfold use_of; rewrite G; reflexivity).
  split; [|split; [|split; [|split; [|split]]]].
  - intros x. unfold shape_of. rewrite get_set. sid_cases t x; [rewrite G|]; reflexivity.
  - intros x sc' Hx. rewrite get_set in Hx. sid_cases t x.
    + inversion Hx; subst. split; [exact L | split; [exact N' | exact F']].
    + apply (Hg x), Hx.
  - intros x Hne. rewrite use_of_set. sid_cases t x; [congruence|reflexivity].
  - rewrite use_of_set, sid_eqb_refl, Hu. exact Le.
  - intros _ Hle. rewrite use_of_set, sid_eqb_refl, Hu in *. cbn. apply rc_release_exact; try assumption.
    apply (good_mem_le sc). split; [exact L | split; [exact N | exact F]].
  - intros D'. unfold is_done in D'. rewrite G in D'. congruence.
Qed.

(* ---- counting -------------------------------------------------------------------------------- *)
Lemma countb_app : forall t a b, countb t (a ++ b) = countb t a + countb t b.
Proof. induction a; intros; cbn; [reflexivity|]. rewrite IHa. lia. Qed.

Lemma countb_nonneg : forall t l, 0 <= countb t l.
Proof. induction l; cbn; [lia|]. destruct (sid_eqb a t); lia. Qed.

Lemma countb_notin : forall t l, ~ In t l -> countb t l = 0.
Proof.
  induction l; intros H; cbn; [reflexivity|].
  sid_cases a t; [exfalso; apply H; left; reflexivity|]. rewrite IHl; [lia|]. intros X. apply H. right. exact X.
Qed.

Lemma countb_nodup : forall t l, NoDup l -> In t l -> countb t l = 1.
Proof.
  induction l; intros Hn Hi; [destruct Hi|]. inversion Hn; subst. cbn.
  sid_cases a t.
  - rewrite countb_notin by assumption. lia.
  - destruct Hi as [Hi|Hi]; [congruence|]. rewrite IHl by assumption. lia.
Qed.

Lemma countb_le1 : forall t l, NoDup l -> 0 <= countb t l <= 1.
Proof.
  intros t l Hn. destruct (in_dec sid_dec t l) as [Hi|Hi].
  - rewrite countb_nodup by assumption. lia.
  - rewrite countb_notin by assumption. lia.
Qed.

Lemma nodup_app_l : forall (a b : list sid), NoDup (a ++ b) -> NoDup a.
Proof.
  induction a; intros b H; [constructor|]. cbn in H. inversion H; subst. constructor.
  - intros X. apply H2, in_or_app. left. exact X.
  - apply (IHa b), H3.
Qed.

(* ---- reservation over a list of scopes -------------------------------------------------------- *)
Definition all_live (m : smap) (l : list sid) : Prop := forall t, In t l -> is_done m t = false.

(* release over a list, every scope open, at most what is there: exact subtraction *)
Lemma uncharge_list_exact : forall l k m, kind_ok k -> all_good m -> NoDup l -> all_live m l ->
  (forall t, In t l -> stat_le (kdelta k) (use_of m t)) ->
  (forall x, shape_of (uncharge_list l k m) x = shape_of m x) /\
  all_good (uncharge_list l k m) /\
  (forall x, use_of (uncharge_list l k m) x =
             if in_dec sid_dec x l then stat_sub (use_of m x) (kdelta k) else use_of m x).
Proof.
  induction l as [|t r IH]; intros k m Hk Hg Hn Hl Hle.
  - cbn. split; [reflexivity|]. split; [assumption|]. intros x. reflexivity.
  - unfold uncharge_list in *. cbn [fold_left]. inversion Hn as [|? ? Hnotin Hnr]; subst.
    destruct (uncharge_one_props t k m Hk Hg) as (Sh & Gd & Oth & _ & Ex & _).
    specialize (Ex (Hl t (or_introl eq_refl)) (Hle t (or_introl eq_refl))).
    assert (Hl' : all_live (uncharge_one t k m) r).
    { intros x Hx. rewrite (is_done_shape _ m x (Sh x)). apply Hl. right. exact Hx. }
    assert (Hle' : forall x, In x r -> stat_le (kdelta k) (use_of (uncharge_one t k m) x)).
    { intros x Hx. rewrite Oth; [apply Hle; right; exact Hx|]. intros ->. contradiction. }
    destruct (IH k _ Hk Gd Hnr Hl' Hle') as (Sh2 & Gd2 & U2).
    split; [intros x; rewrite Sh2; apply Sh|]. split; [exact Gd2|].
    intros x. rewrite U2. destruct (in_dec sid_dec x r) as [Hi|Hi].
    + destruct (in_dec sid_dec x (t :: r)) as [_|Hc]; [|exfalso; apply Hc; right; exact Hi].
      rewrite Oth; [reflexivity|]. intros ->. contradiction.
    + destruct (sid_dec x t) as [->|Hne].
      * destruct (in_dec sid_dec t (t :: r)) as [_|Hc]; [exact Ex | exfalso; apply Hc; left; reflexivity].
      * destruct (in_dec sid_dec x (t :: r)) as [[Hc|Hc]|_]; [congruence | contradiction |].
        apply Oth, Hne.
Qed.

(* release over any list: shapes kept, everything stays good, nothing grows *)
Lemma uncharge_list_mono : forall l k m, kind_ok k -> all_good m ->
  (forall x, shape_of (uncharge_list l k m) x = shape_of m x) /\
  all_good (uncharge_list l k m) /\
  (forall x, stat_le (use_of (uncharge_list l k m) x) (use_of m x)) /\
  (forall x, ~ In x l -> use_of (uncharge_list l k m) x = use_of m x).
Proof.
  induction l as [|t r IH]; intros k m Hk Hg.
  - cbn. split; [reflexivity|]. split; [assumption|]. split; [intros x; unfold stat_le; lia | reflexivity].
  - unfold uncharge_list in *. cbn [fold_left].
    destruct (uncharge_one_props t k m Hk Hg) as (Sh & Gd & Oth & Le & _ & _).
    destruct (IH k _ Hk Gd) as (Sh2 & Gd2 & Le2 & Oth2).
    split; [intros x; rewrite Sh2; apply Sh|]. split; [exact Gd2|]. split.
    + intros x. specialize (Le2 x). destruct (sid_dec x t) as [->|Hne].
      * unfold stat_le in *. lia.
      * rewrite Oth in Le2 by assumption. exact Le2.
    + intros x Hx. rewrite Oth2 by (intros X; apply Hx; right; exact X).
      apply Oth. intros ->. apply Hx. left. reflexivity.
Qed.

(* the main lemma about charge_list: either every scope of the list got the
   vector added once, or the answer is an error and every counter of every
   scope is what it was (the charged prefix was released again) *)
Lemma charge_list_spec : forall l charged k m,
  kind_ok k -> all_good m -> NoDup (charged ++ l) ->
  (forall t, In t l -> mem (use_of m t) + mem (kdelta k) <= max_int64) ->
  all_live m charged ->
  (forall t, In t charged -> stat_le (kdelta k) (use_of m t)) ->
  let '(m', e) := charge_list l charged k m in
  (forall x, shape_of m' x = shape_of m x) /\ all_good m' /\
  match e with
  | None => all_live m l /\
            forall x, use_of m' x = if in_dec sid_dec x l then stat_add (use_of m x) (kdelta k) else use_of m x
  | Some _ => forall x, use_of m' x =
                        if in_dec sid_dec x charged then stat_sub (use_of m x) (kdelta k) else use_of m x
  end.
Proof.
  induction l as [|t r IH]; intros charged k m Hk Hg Hn Hov Hlive Hle.
  - cbn. split; [reflexivity|]. split; [assumption|]. split; [intros x []|]. intros x. reflexivity.
  - cbn [charge_list]. destruct (charge_one t k m) as [m1|e] eqn:C.
    + destruct (charge_one_ok t k m m1 Hk Hg (Hov t (or_introl eq_refl)) C) as (D & Sh & U & Gd).
      assert (Hn' : NoDup ((charged ++ [t]) ++ r)) by (rewrite <- app_assoc; exact Hn).
      assert (Hnt : ~ In t charged /\ ~ In t r).
      { apply NoDup_remove_2 in Hn. split; intros X; apply Hn, in_or_app; [left|right]; exact X. }
      destruct Hnt as [Hntc Hntr].
      assert (Hov' : forall x, In x r -> mem (use_of m1 x) + mem (kdelta k) <= max_int64).
      { intros x Hx. rewrite U. sid_cases t x; [contradiction|]. apply Hov. right. exact Hx. }
      assert (Hlive' : all_live m1 (charged ++ [t])).
      { intros x Hx. rewrite (is_done_shape m1 m x (Sh x)). apply in_app_or in Hx. destruct Hx as [Hx|[<-|[]]].
        - apply Hlive, Hx. - exact D. }
      assert (Hle' : forall x, In x (charged ++ [t]) -> stat_le (kdelta k) (use_of m1 x)).
      { intros x Hx. rewrite U. apply in_app_or in Hx. destruct Hx as [Hx|[<-|[]]].
        - sid_cases t x; [contradiction|]. apply Hle, Hx.
        - rewrite sid_eqb_refl. pose proof (kdelta_nonneg k Hk).
          destruct (Hg t) with (sc := match get m t with Some s => s | None => mkScope (mkLimit 0 0 0 0 0 0 0 0) stat0 false 0 [] [] end) as (_ & N & _).
          { unfold is_done in D. destruct (get m t); [reflexivity|discriminate]. }
          assert (Hu : nonneg (use_of m t)).
          { unfold use_of. unfold is_done in D. destruct (get m t); [exact N|discriminate]. }
          clear N. stat_crush. }
      specialize (IH (charged ++ [t]) k m1 Hk Gd Hn' Hov' Hlive' Hle').
      destruct (charge_list r (charged ++ [t]) k m1) as [m' e'].
      destruct IH as (Sh2 & Gd2 & Res).
      split; [intros x; rewrite Sh2; apply Sh|]. split; [exact Gd2|].
      destruct e'.
      * intros x. rewrite Res, U. destruct (in_dec sid_dec x (charged ++ [t])) as [Hi|Hi].
        -- apply in_app_or in Hi. destruct Hi as [Hi|[<-|[]]].
           ++ destruct (in_dec sid_dec x charged) as [_|Hc]; [|contradiction].
              sid_cases t x; [contradiction|reflexivity].
           ++ destruct (in_dec sid_dec t charged) as [Hc|_]; [contradiction|].
              rewrite sid_eqb_refl. pose proof (kdelta_nonneg k Hk). stat_crush.
        -- destruct (in_dec sid_dec x charged) as [Hc|_]; [exfalso; apply Hi, in_or_app; left; exact Hc|].
           sid_cases t x; [exfalso; apply Hi, in_or_app; right; left; reflexivity | reflexivity].
      * destruct Res as [Lr Res]. split.
        -- intros x [<-|Hx]; [exact D|]. rewrite <- (is_done_shape m1 m x (Sh x)). apply Lr, Hx.
        -- intros x. rewrite Res, U. destruct (in_dec sid_dec x r) as [Hi|Hi].
           ++ destruct (in_dec sid_dec x (t :: r)) as [_|Hc]; [|exfalso; apply Hc; right; exact Hi].
              sid_cases t x; [contradiction|reflexivity].
           ++ sid_cases t x.
              ** destruct (in_dec sid_dec x (x :: r)) as [_|Hc]; [reflexivity | exfalso; apply Hc; left; reflexivity].
              ** destruct (in_dec sid_dec x (t :: r)) as [[Hc|Hc]|_]; [congruence|contradiction|reflexivity].
    + (* refused at t: release the charged prefix *)
      assert (Hnc : NoDup charged) by (apply (nodup_app_l charged (t :: r)), Hn).
      destruct (uncharge_list_exact charged k m Hk Hg Hnc Hlive Hle) as (Sh & Gd & U).
      split; [exact Sh|]. split; [exact Gd|]. exact U.
Qed.

(* top-level corollaries for an empty charged prefix *)
Lemma charge_list_top : forall l k m,
  kind_ok k -> all_good m -> NoDup l ->
  (forall t, In t l -> mem (use_of m t) + mem (kdelta k) <= max_int64) ->
  let '(m', e) := charge_list l [] k m in
  (forall x, shape_of m' x = shape_of m x) /\ all_good m' /\
  match e with
  | None => all_live m l /\
            forall x, use_of m' x = if in_dec sid_dec x l then stat_add (use_of m x) (kdelta k) else use_of m x
  | Some _ => forall x, use_of m' x = use_of m x
  end.
Proof.
  intros l k m Hk Hg Hn Hov.
  pose proof (charge_list_spec l [] k m Hk Hg Hn Hov ltac:(intros t []) ltac:(intros t [])) as H.
  destruct (charge_list l [] k m) as [m' e]. destruct H as (Sh & Gd & Res).
  split; [exact Sh|]. split; [exact Gd|]. destruct e; [|exact Res].
  intros x. rewrite Res. destruct (in_dec sid_dec x []) as [[]|_]. reflexivity.
Qed.

(* C03 — connLimiter: for every configuration and every history of
   addConn / rmConn, no per-prefix or per-subnet counter exceeds its cap. *)
From Coq Require Import List ZArith Bool Arith Lia.
From Verif Require Import c03.Int64 c03.Model.
Import ListNotations.
Local Open Scope Z_scope.

(* a counter is fine when it is zero or between 1 and the cap *)
Definition cnt_ok (n cap : Z) : Prop := 0 <= n /\ (n = 0 \/ n <= cap).

Fixpoint pc_ok (pl : list (prefix * Z)) (pc : list Z) : Prop :=
  match pl, pc with
  | (_, cap) :: pr, n :: cr => cnt_ok n cap /\ pc_ok pr cr
  | _, _ => True
  end.

Definition cm_ok (cm : list (Z * Z)) (cap : Z) : Prop := Forall (fun e => cnt_ok (snd e) cap) cm.

Fixpoint sc_ok (rules : list (Z * Z)) (sc : list (list (Z * Z))) : Prop :=
  match rules, sc with
  | (_, cap) :: rr, cm :: cr => cm_ok cm cap /\ sc_ok rr cr
  | _, _ => True
  end.

Definition lim_inv (c : config) (l : limiter) : Prop :=
  pc_ok (built_prefixes c false) (pc4 l) /\ pc_ok (built_prefixes c true) (pc6 l) /\
  sc_ok (sub4 c) (sc4 l) /\ sc_ok (sub6 c) (sc6 l).

Lemma pc_ok_zeros : forall pl, pc_ok pl (map (fun _ => 0) pl).
Proof. induction pl as [|[p cap] r IH]; cbn; [trivial|]. split; [unfold cnt_ok; lia | exact IH]. Qed.

Lemma sc_ok_empty : forall rules, sc_ok rules (map (fun _ => []) rules).
Proof.
  induction rules as [|[len cap] r IH]; cbn; [trivial|]. split; [constructor | exact IH].
Qed.

Lemma init_limiter_inv : forall c, lim_inv c (init_limiter c).
Proof.
  intros c. unfold lim_inv, init_limiter; cbn.
  repeat split; try apply pc_ok_zeros; apply sc_ok_empty.
Qed.

Lemma prefix_add_ok : forall pl pc a pc', pc_ok pl pc -> prefix_add pl pc a = Some (Some pc') -> pc_ok pl pc'.
Proof.
  induction pl as [|[p cap] pr IH]; intros pc a pc' H E; cbn in E; [discriminate|].
  destruct pc as [|n cr]; [discriminate|]. cbn in H. destruct H as [Hn Hr].
  destruct (contains p a).
  - destruct (n + 1 >? cap) eqn:G; [discriminate|]. inversion E; subst. cbn. split; [|exact Hr].
    rewrite Z.gtb_ltb in G. apply Z.ltb_ge in G. destruct Hn as [Hn0 _]. unfold cnt_ok. lia.
  - destruct (prefix_add pr cr a) as [[cr'|]|] eqn:R; try discriminate. inversion E; subst. cbn.
    split; [exact Hn | apply (IH cr a cr' Hr R)].
Qed.

Lemma prefix_rm_ok : forall pl pc a pc', pc_ok pl pc -> prefix_rm pl pc a = Some pc' -> pc_ok pl pc'.
Proof.
  induction pl as [|[p cap] pr IH]; intros pc a pc' H E; cbn in E; [discriminate|].
  destruct pc as [|n cr]; [discriminate|]. cbn in H. destruct H as [Hn Hr].
  destruct (contains p a).
  - inversion E; subst. destruct (n <=? 0) eqn:G; cbn; (split; [|exact Hr]); [exact Hn|].
    apply Z.leb_gt in G. destruct Hn as [Hn0 Hn1]. unfold cnt_ok. lia.
  - destruct (prefix_rm pr cr a) as [cr'|] eqn:R; [|discriminate]. inversion E; subst. cbn.
    split; [exact Hn | apply (IH cr a cr' Hr R)].
Qed.

Lemma zget_ok : forall cm cap k v, cm_ok cm cap -> zget cm k = Some v -> cnt_ok v cap.
Proof.
  induction cm as [|[y w] r IH]; intros cap k v H G; cbn in G; [discriminate|].
  inversion H; subst. destruct (y =? k); [inversion G; subst; assumption | apply (IH cap k v); assumption].
Qed.

Lemma zset_ok : forall cm cap k v, cm_ok cm cap -> cnt_ok v cap -> cm_ok (zset cm k v) cap.
Proof.
  induction cm as [|[y w] r IH]; intros cap k v H Hv; cbn.
  - constructor; [exact Hv | constructor].
  - inversion H; subst. destruct (y =? k); constructor; try assumption. apply IH; assumption.
Qed.

Lemma zdel_ok : forall cm cap k, cm_ok cm cap -> cm_ok (zdel cm k) cap.
Proof.
  induction cm as [|[y w] r IH]; intros cap k H; cbn; [constructor|].
  inversion H; subst. destruct (y =? k); [assumption|]. constructor; [assumption | apply IH; assumption].
Qed.

(* after a successful check, counting under every rule stays within the caps *)
Lemma subnet_incr_ok : forall rules sc a, sc_ok rules sc -> subnet_check rules sc a = true ->
  sc_ok rules (subnet_incr rules sc a).
Proof.
  induction rules as [|[len cap] rr IH]; intros sc a H C; cbn in *; [destruct sc; exact H|].
  destruct sc as [|cm cr]; [exact H|]. destruct H as [Hc Hr].
  destruct (prefix_key a len) as [k|]; [|discriminate].
  destruct (match zget cm k with Some v => v | None => 0 end + 1 >? cap) eqn:G; [discriminate|].
  rewrite Z.gtb_ltb in G. apply Z.ltb_ge in G. cbn. split; [|apply IH; assumption].
  apply zset_ok; [exact Hc|]. destruct (zget cm k) as [v|] eqn:Z0.
  - destruct (zget_ok cm cap k v Hc Z0) as [Hv _]. unfold cnt_ok. lia.
  - unfold cnt_ok. lia.
Qed.

Lemma subnet_decr_ok : forall rules sc a, sc_ok rules sc -> sc_ok rules (subnet_decr rules sc a).
Proof.
  induction rules as [|[len cap] rr IH]; intros sc a H; cbn in *; [destruct sc; exact H|].
  destruct sc as [|cm cr]; [exact H|]. destruct H as [Hc Hr].
  destruct (prefix_key a len) as [k|]; cbn; (split; [|apply IH; assumption]); [|exact Hc].
  destruct (zget cm k) as [v|] eqn:Z0; [|exact Hc].
  destruct (v =? 0); [exact Hc|]. destruct (v - 1 <=? 0) eqn:G; [apply zdel_ok, Hc|].
  apply Z.leb_gt in G. apply zset_ok; [exact Hc|].
  destruct (zget_ok cm cap k v Hc Z0) as [Hv0 Hv1]. unfold cnt_ok. lia.
Qed.

Lemma limiter_add_inv : forall c l a l', lim_inv c l -> limiter_add c l a = Some l' -> lim_inv c l'.
Proof.
  intros c l a l' (P4 & P6 & S4 & S6) E. unfold limiter_add in E. destruct (ip_v6 a).
  - destruct (prefix_add (built_prefixes c true) (pc6 l) a) as [[pc'|]|] eqn:R; try discriminate.
    + inversion E; subst. repeat split; cbn; try assumption. apply (prefix_add_ok _ _ _ _ P6 R).
    + destruct (subnet_check (sub6 c) (sc6 l) a) eqn:C; [|discriminate]. inversion E; subst.
      repeat split; cbn; try assumption. apply subnet_incr_ok; assumption.
  - destruct (prefix_add (built_prefixes c false) (pc4 l) a) as [[pc'|]|] eqn:R; try discriminate.
    + inversion E; subst. repeat split; cbn; try assumption. apply (prefix_add_ok _ _ _ _ P4 R).
    + destruct (subnet_check (sub4 c) (sc4 l) a) eqn:C; [|discriminate]. inversion E; subst.
      repeat split; cbn; try assumption. apply subnet_incr_ok; assumption.
Qed.

Lemma limiter_rm_inv : forall c l a, lim_inv c l -> lim_inv c (limiter_rm c l a).
Proof.
  intros c l a (P4 & P6 & S4 & S6). unfold limiter_rm. destruct (ip_v6 a).
  - destruct (prefix_rm (built_prefixes c true) (pc6 l) a) as [pc'|] eqn:R;
      repeat split; cbn; try assumption; [apply (prefix_rm_ok _ _ _ _ P6 R) | apply subnet_decr_ok; assumption].
  - destruct (prefix_rm (built_prefixes c false) (pc4 l) a) as [pc'|] eqn:R;
      repeat split; cbn; try assumption; [apply (prefix_rm_ok _ _ _ _ P4 R) | apply subnet_decr_ok; assumption].
Qed.

(* histories of the limiter alone *)
Inductive lop := LAdd (a : ipaddr) | LRm (a : ipaddr).

Definition lstep (c : config) (l : limiter) (o : lop) : limiter :=
  match o with
  | LAdd a => match limiter_add c l a with Some l' => l' | None => l end
  | LRm a => limiter_rm c l a
  end.

Lemma limiter_history_inv : forall c ops, lim_inv c (fold_left (lstep c) ops (init_limiter c)).
Proof.
  intros c ops. assert (G : forall l, lim_inv c l -> lim_inv c (fold_left (lstep c) ops l)).
  { induction ops as [|o r IH]; intros l H; cbn; [exact H|]. apply IH. destruct o as [a|a]; cbn.
    - destruct (limiter_add c l a) as [l'|] eqn:E; [apply (limiter_add_inv c l a l' H E) | exact H].
    - apply limiter_rm_inv, H. }
  apply G, init_limiter_inv.
Qed.

(* the manager only changes its limiter through addConn / rmConn: every
   reachable manager state has its limiter within the caps *)
Lemma conn_done_lims : forall c st i, lim_inv c (lims st) -> lim_inv c (lims (conn_done c st i)).
Proof.
  intros c st i H. unfold conn_done. destruct (is_done (scopes st) (Conn i)); [exact H|]. cbn.
  destruct (nget (conns st) i) as [ci|]; [|exact H]. destruct (ci_ip ci); [apply limiter_rm_inv, H | exact H].
Qed.

Lemma set_peer_lims : forall c st i q, lims (fst (set_peer c st i q)) = lims st.
Proof.
  intros. unfold set_peer.
  repeat first [ reflexivity
               | match goal with |- context [match ?x with _ => _ end] => destruct x end; cbn [fst lims] ].
Qed.

Lemma step_lims : forall c st o, lim_inv c (lims st) -> lim_inv c (lims (fst (step c st o))).
Proof.
  intros c st o H. destruct o; cbn [step].
  - (* OpenConnection *)
    unfold open_conn.
    destruct (match ep with Some a => match limiter_add c (lims st) a with Some l => Some l | None => None end | None => Some (lims st) end) as [l|] eqn:E; [|exact H].
    assert (Hl : lim_inv c l).
    { destruct ep as [a|]; [|inversion E; subst; exact H].
      destruct (limiter_add c (lims st) a) as [l'|] eqn:A; [|discriminate]. inversion E; subst. apply (limiter_add_inv c _ a l H A). }
    destruct (scope_reserve _ (Conn i) (KConn inb usefd)) as [m1 e1]. destruct e1 as [e|]; [|exact Hl].
    destruct (match ep with Some a => allowed c a | None => false end).
    + destruct (scope_reserve _ (Conn i) (KConn inb usefd)) as [m4 e4]. destruct e4 as [e'|]; [|exact Hl].
      apply conn_done_lims. exact Hl.
    + apply conn_done_lims. exact Hl.
  - (* SetPeer *) rewrite set_peer_lims. exact H.
  - unfold open_stream. destruct (scope_reserve _ (Stream j) (KStream inb)) as [m3 e]. destruct e; exact H.
  - unfold set_proto. destruct (nget (streams st) j) as [si|]; [|exact H]. destruct (si_proto si); [exact H|].
    destruct (charge_one (Proto p) _ _); [|exact H]. destruct (charge_one (ProtoPeer p _) _ _); exact H.
  - unfold set_svc. destruct (nget (streams st) j) as [si|]; [|exact H].
    destruct (si_svc si); [exact H|]. destruct (si_proto si); [|exact H].
    destruct (charge_one (Svc s) _ _); [|exact H]. destruct (charge_one (SvcPeer s _) _ _); exact H.
  - unfold reserve_mem. destruct (scope_reserve _ t (KMem sz prio)). exact H.
  - exact H.
  - unfold begin_span. destruct (get _ t) as [sc|]; [|exact H]. destruct (s_done sc); exact H.
  - unfold done_op. destruct t; try exact H. apply conn_done_lims, H.
  - exact H.
Qed.

Lemma run_lims : forall c ops st, lim_inv c (lims st) -> lim_inv c (lims (run c st ops)).
Proof.
  intros c ops. induction ops as [|o r IH]; intros st H; cbn; [exact H|]. apply IH, step_lims, H.
Qed.

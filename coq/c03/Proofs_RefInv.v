(* C03 — what gc relies on: (1) the reference count of a protocol / peer scope is
   at least the number of open holders that point at it directly (an open
   connection / stream with the scope among its parents, an open span whose
   owner it is); (2) the shape of the abstract holder table (which keys and
   parent sets occur at all). *)
From Coq Require Import List ZArith Bool Arith Lia.
From Verif Require Import lib.Wire c03.Int64 c03.Model c03.Spec c03.Proofs_Int64 c03.Proofs_Base
     c03.Proofs_Sum c03.Proofs_Reach c03.Proofs_Link c03.Proofs_Targets c03.Proofs_Frames c03.Proofs_Frames2
     c03.Proofs_Frames3 c03.Proofs_Kill c03.Proofs_OpsMem c03.Proofs_Done c03.Proofs_OpsDone c03.Proofs_OpsNew
     c03.Proofs_OpsOpen c03.Proofs_Hist c03.Proofs_Mon c03.Proofs_Link2 c03.Proofs_Transfer c03.Proofs_OpsRepar
     c03.Proofs_SetPeer c03.Proofs_Hist2 c03.Proofs_Mon2 c03.Proofs_Keys c03.Proofs_Refs.
Import ListNotations.
Local Open Scope Z_scope.

(* ---- direct references held by the open holders ---------------------------------------------- *)
Definition hrefs (x : sid) (h : holder) (t : sid) : Z :=
  if h_dead h then 0 else (if leaf x then countb t (h_par h) else 0) + hdc t (h_chain h).

Fixpoint nrefsl (H : list (sid * holder)) (t : sid) : Z :=
  match H with [] => 0 | (x, h) :: r => hrefs x h t + nrefsl r t end.

Definition nrefs (a : astate) (t : sid) : Z := nrefsl (holders a) t.

Definition RefInv (m : smap) (a : astate) : Prop := forall t, is_gct t = true -> nrefs a t <= refz m t.

Lemma hrefs_nonneg : forall x h t, 0 <= hrefs x h t.
Proof.
  intros x h t. unfold hrefs. destruct (h_dead h); [lia|]. pose proof (hdc_nonneg t (h_chain h)).
  destruct (leaf x); [pose proof (countb_nonneg t (h_par h))|]; lia.
Qed.

Lemma nrefsl_nonneg : forall H t, 0 <= nrefsl H t.
Proof. induction H as [|[x h] r IH]; intros t; cbn; [lia|]. pose proof (hrefs_nonneg x h t). pose proof (IH t). lia. Qed.

Lemma nrefsl_hset_new : forall H s v t, hget H s = None -> nrefsl (hset H s v) t = nrefsl H t + hrefs s v t.
Proof.
  induction H as [|[y h] r IH]; intros s v t G; cbn [hget hset nrefsl] in *; [lia|].
  destruct (sid_eqb y s) eqn:E; [discriminate|]. cbn [nrefsl]. rewrite IH by exact G. lia.
Qed.

Lemma nrefsl_hset_old : forall H s h0 v t, NoDup (map fst H) -> hget H s = Some h0 ->
  nrefsl (hset H s v) t = nrefsl H t - hrefs s h0 t + hrefs s v t.
Proof.
  induction H as [|[y h] r IH]; intros s h0 v t Hn G; cbn [hget hset nrefsl map fst] in *; [discriminate|].
  inversion Hn; subst. destruct (sid_eqb y s) eqn:E.
  - apply sid_eqb_eq in E. subst y. inversion G; subst h0. cbn [nrefsl]. lia.
  - cbn [nrefsl]. rewrite (IH s h0 v t) by assumption. lia.
Qed.

Lemma nrefsl_ge_term : forall H s h t, hget H s = Some h -> hrefs s h t <= nrefsl H t.
Proof.
  induction H as [|[y h0] r IH]; intros s h t G; cbn [hget nrefsl] in *; [discriminate|].
  destruct (sid_eqb y s) eqn:E.
  - apply sid_eqb_eq in E. subst y. inversion G; subst. pose proof (nrefsl_nonneg r t). lia.
  - pose proof (IH s h t G). pose proof (hrefs_nonneg y h0 t). lia.
Qed.

(* a holder whose parents / owner / state are what they were counts the same *)
Lemma hrefs_same : forall x h h' t, h_par h' = h_par h -> h_chain h' = h_chain h -> h_dead h' = h_dead h ->
  hrefs x h' t = hrefs x h t.
Proof. intros x h h' t E1 E2 E3. unfold hrefs. rewrite E1, E2, E3. reflexivity. Qed.

Lemma nrefs_add_own : forall a x d t, WfA a -> (is_handle x = true -> hget (holders a) x <> None) ->
  nrefs (add_own a x d) t = nrefs a t.
Proof.
  intros a x d t W Hh. unfold nrefs, add_own. cbn [holders]. destruct (hget (holders a) x) as [h|] eqn:G.
  - rewrite (nrefsl_hset_old _ x h _ t (W_keys a W) G). unfold hrefs. cbn [h_dead h_par h_chain]. lia.
  - rewrite (nrefsl_hset_new _ x _ t G). unfold hrefs. cbn [h_dead h_par h_chain hdc].
    destruct (leaf x) eqn:L; [|lia]. exfalso. apply Hh; [destruct x; try discriminate; reflexivity | reflexivity].
Qed.

Lemma nrefs_kill : forall a x h t, WfA a -> hget (holders a) x = Some h -> nrefs (kill a x) t = nrefs a t - hrefs x h t.
Proof.
  intros a x h t W G. unfold nrefs, kill. rewrite G. cbn [holders].
  rewrite (nrefsl_hset_old _ x h _ t (W_keys a W) G). unfold hrefs at 2. cbn [h_dead]. lia.
Qed.

Lemma nrefs_repar : forall a a' x h P t, WfA a -> hget (holders a) x = Some h -> holders a' = repar a x h P ->
  nrefs a' t = nrefs a t - hrefs x h t + hrefs x (mkHolder (h_own h) P (h_chain h) (h_dead h)) t.
Proof. intros a a' x h P t W G E. unfold nrefs. rewrite E. unfold repar. apply (nrefsl_hset_old _ x h _ t (W_keys a W) G). Qed.

Lemma nrefs_holders : forall a a' t, holders a' = holders a -> nrefs a' t = nrefs a t.
Proof. intros a a' t E. unfold nrefs. rewrite E. reflexivity. Qed.

Lemma gct_count_base : forall t l, is_gct t = true -> (forall x, In x l -> is_gct x = false) -> countb t l = 0.
Proof.
  intros t l Ht H. apply countb_notin. intros X. apply H in X. congruence.
Qed.

(* ---- RefInv is preserved by every operation but gc ----------------------------------------------- *)
Lemma ind_nonneg : forall x t, 0 <= ind x t.
Proof. intros. unfold ind. destruct (sid_eqb x t); lia. Qed.

Lemma ref_open_conn : forall c st a i inb usefd ep,
  RefInv (scopes st) a -> hget (holders a) (Conn i) = None ->
  RefInv (scopes (fst (step c st (OOpenConn i inb usefd ep)))) (anext c st a (OOpenConn i inb usefd ep)).
Proof.
  intros c st a i inb usefd ep R Hf t Ht. pose proof (refz_open_conn_ge c st i inb usefd ep t Ht) as G.
  specialize (R t Ht). unfold anext. cbn [step] in *. destruct (open_conn c st i inb usefd ep) as [st' cls]. cbn [fst] in *.
  assert (N : nrefs (hd a (astep c a (OOpenConn i inb usefd ep) cls (o_aflag (model_obs st st' (OOpenConn i inb usefd ep) cls)))) t = nrefs a t).
  { cbn [astep]. destruct (cls =? 0); [|reflexivity].
    destruct (zbool _ && negb _); [reflexivity|]. cbn [hd]. unfold nrefs. cbn [holders].
    rewrite (nrefsl_hset_new _ _ _ t Hf). unfold hrefs. cbn [h_dead leaf h_par h_chain hdc].
    destruct (zbool _); [rewrite (gct_countb2 t ATransient ASystem Ht eq_refl eq_refl) | rewrite (gct_countb2 t Transient System Ht eq_refl eq_refl)]; lia. }
  lia.
Qed.

Lemma ref_open_stream : forall c st a j q inb,
  RefInv (scopes st) a -> hget (holders a) (Stream j) = None ->
  RefInv (scopes (fst (step c st (OOpenStream j q inb)))) (anext c st a (OOpenStream j q inb)).
Proof.
  intros c st a j q inb R Hf t Ht. pose proof (refz_open_stream_ge c st j q inb t Ht) as G.
  specialize (R t Ht). unfold anext. cbn [step] in *. destruct (open_stream c st j q inb) as [st' cls]. cbn [fst astep] in *.
  destruct (cls =? 0); cbn [hd]; [|lia].
  unfold nrefs in *. cbn [holders]. rewrite (nrefsl_hset_new _ _ _ t Hf). unfold hrefs. cbn [h_dead leaf h_par h_chain hdc countb].
  fold (ind (Peer q) t).
  assert (X1 : sid_eqb Transient t = false) by (apply sid_eqb_neq, gct_neq; [exact Ht | reflexivity]).
  assert (X2 : sid_eqb System t = false) by (apply sid_eqb_neq, gct_neq; [exact Ht | reflexivity]).
  rewrite X1, X2. lia.
Qed.

Lemma ref_reserve : forall c st a x sz prio, WfA a ->
  RefInv (scopes st) a -> has_holder a x = true ->
  RefInv (scopes (fst (step c st (OReserve x sz prio)))) (anext c st a (OReserve x sz prio)).
Proof.
  intros c st a x sz prio W R Hh t Ht. pose proof (refz_reserve_mem_ge c st x sz prio t Ht) as G.
  specialize (R t Ht). unfold anext. cbn [step] in *. destruct (reserve_mem c st x sz prio) as [st' cls]. cbn [fst astep] in *.
  destruct (cls =? 0); cbn [hd]; [|lia]. rewrite (nrefs_add_own a x _ t W (has_holder_if a x Hh)). lia.
Qed.

Lemma ref_release : forall c st a x sz, WfA a ->
  RefInv (scopes st) a -> has_holder a x = true ->
  RefInv (scopes (fst (step c st (ORelease x sz)))) (anext c st a (ORelease x sz)).
Proof.
  intros c st a x sz W R Hh t Ht. pose proof (refz_release_mem_ge c st x sz t Ht) as G.
  specialize (R t Ht). unfold anext. cbn [step] in *. destruct (release_mem c st x sz) as [st' cls]. cbn [fst astep] in *.
  destruct (a_dead a x); cbn [hd]; [lia|]. rewrite (nrefs_add_own a x _ t W (has_holder_if a x Hh)). lia.
Qed.

Lemma ref_begin_span : forall c st a x k,
  RefInv (scopes st) a -> hget (holders a) (Span k) = None ->
  RefInv (scopes (fst (step c st (OBeginSpan x k)))) (anext c st a (OBeginSpan x k)).
Proof.
  intros c st a x k R Hf t Ht. pose proof (refz_begin_span_ge c st x k t Ht) as G.
  specialize (R t Ht). unfold anext. cbn [step] in *. destruct (begin_span c st x k) as [st' cls]. cbn [fst astep] in *.
  destruct (cls =? 0); cbn [hd]; [|lia].
  unfold nrefs in *. cbn [holders]. rewrite (nrefsl_hset_new _ _ _ t Hf). unfold hrefs. cbn [h_dead leaf h_par h_chain hdc].
  fold (ind x t). lia.
Qed.

Lemma ref_done : forall c st a x h,
  Inv c (scopes st) a -> RefInv (scopes st) a -> is_handle x = true -> hget (holders a) x = Some h ->
  RefInv (scopes (fst (step c st (ODone x)))) (anext c st a (ODone x)).
Proof.
  intros c st a x h I R Hx G t Ht.
  pose proof (refz_done_op_ge c st x t Ht ltac:(destruct x; try discriminate; reflexivity)) as Gz.
  specialize (R t Ht). pose proof (I_wf _ _ _ I) as W.
  destruct (I_handle c _ a I x h G Hx) as (sc & Gm & Pd & Pc & Pe & _).
  assert (Ez : (if is_done (scopes st) x then 0 else countb t (edges_of (scopes st) x) + hdc t (chain_of (scopes st) x)) = hrefs x h t).
  { unfold is_done, edges_of, chain_of, hrefs. rewrite Gm, Pd, Pc, Pe. destruct (h_dead h); [reflexivity|].
    destruct (leaf x); reflexivity. }
  rewrite Ez in Gz.
  assert (N : nrefs (anext c st a (ODone x)) t = nrefs a t - hrefs x h t).
  { unfold anext. cbn [step]. destruct (done_op c st x) as [st' cls]. cbn [astep].
    rewrite <- (nrefs_kill a x h t W G).
    destruct x; try reflexivity. destruct (nget (aconns (kill a (Conn i))) i); reflexivity. }
  cbn [step] in *. lia.
Qed.

Lemma ref_set_proto : forall c st a j p s,
  Inv c (scopes st) a -> Link st a -> RefInv (scopes st) a -> nget (astreams a) j = Some s ->
  RefInv (scopes (fst (step c st (OSetProto j p)))) (anext c st a (OSetProto j p)).
Proof.
  intros c st a j p s I L R Gs t Ht. pose proof (refz_set_proto_ge c st j p t Ht) as G. specialize (R t Ht).
  pose proof (I_wf _ _ _ I) as W. pose proof (ind_nonneg (Proto p) t) as In0.
  destruct (proj2 L j s Gs) as (si & h & Gsi & Gh & Ep & Epr & Esv & Epar & Hsv).
  unfold anext. cbn [step] in *. destruct (set_proto c st j p) as [st' cls]. cbn [fst astep] in *. rewrite Gs.
  destruct (as_proto s) as [p0|] eqn:Ap.
  - destruct (cls =? 0); cbn [hd]; lia.
  - destruct (cls =? 0); cbn [hd]; [|lia].
    destruct (set_par_fields a (Stream j) h [Peer (as_peer s); ProtoPeer p (as_peer s); Proto p; System] Gh) as (F1 & _).
    match goal with |- nrefs ?x t <= _ => rewrite (nrefs_holders (set_par a (Stream j) [Peer (as_peer s); ProtoPeer p (as_peer s); Proto p; System]) x t eq_refl) end.
    rewrite (nrefs_repar a _ (Stream j) h _ t W Gh F1).
    unfold hrefs. cbn [h_dead h_par h_chain leaf]. rewrite Epar. unfold stream_par. rewrite Ap.
    destruct (h_dead h); [lia|]. unfold ind in *. destruct t; try discriminate; cbn [countb sid_eqb] in *; lia.
Qed.

Lemma ref_set_svc : forall c st a j sv s,
  Inv c (scopes st) a -> Link st a -> RefInv (scopes st) a -> nget (astreams a) j = Some s ->
  RefInv (scopes (fst (step c st (OSetSvc j sv)))) (anext c st a (OSetSvc j sv)).
Proof.
  intros c st a j sv s I L R Gs t Ht. pose proof (refz_set_svc_ge c st j sv t Ht) as G. specialize (R t Ht).
  pose proof (I_wf _ _ _ I) as W.
  destruct (proj2 L j s Gs) as (si & h & Gsi & Gh & Ep & Epr & Esv & Epar & Hsv).
  unfold anext. cbn [step] in *. destruct (set_svc c st j sv) as [st' cls]. cbn [fst astep] in *. rewrite Gs.
  destruct (as_svc s) as [sv0|] eqn:As; [destruct (cls =? 0); cbn [hd]; lia|].
  destruct (as_proto s) as [p|] eqn:Ap; [|destruct (cls =? 0); cbn [hd]; lia].
  destruct (cls =? 0); cbn [hd]; [|lia].
  set (P := [Peer (as_peer s); ProtoPeer p (as_peer s); SvcPeer sv (as_peer s); Proto p; Svc sv; System]).
  destruct (set_par_fields a (Stream j) h P Gh) as (F1 & _).
  match goal with |- nrefs ?x t <= _ => rewrite (nrefs_holders (set_par a (Stream j) P) x t eq_refl) end.
  rewrite (nrefs_repar a _ (Stream j) h _ t W Gh F1).
  unfold hrefs. cbn [h_dead h_par h_chain leaf]. rewrite Epar. unfold stream_par, P. rewrite Ap, As.
  destruct (h_dead h); [lia|]. destruct t; try discriminate; cbn [countb sid_eqb] in *; lia.
Qed.

Lemma par_ok_gct : forall al P t, par_ok al P -> is_gct t = true -> countb t P = 0.
Proof.
  intros al P t H Ht. apply gct_count_base; [exact Ht|]. intros x Hx.
  destruct H as [ -> | (_ & [ -> | -> ]) ]; [destruct al|..]; cbn in Hx; intuition (subst; reflexivity).
Qed.

Lemma ref_set_peer : forall c st a i q,
  cfg_ok c -> InvL c st a -> RefInv (scopes st) a -> wf_op2 c st a (OSetPeer i q) ->
  RefInv (scopes (fst (step c st (OSetPeer i q)))) (anextT c st a (OSetPeer i q)).
Proof.
  intros c st a i q LO IL R Wf t Ht. specialize (R t Ht). destruct IL as [I L]. pose proof (I_wf _ _ _ I) as W.
  pose proof (set_peer_picked c st a i q LO (conj I L) Wf) as P.
  destruct Wf as ((ac & Ga) & Ov).
  destruct (proj1 L i ac Ga) as (ci & h & Gci & Gh & Epe & Eal & Eep & Hpar).
  destruct (ac_peer ac) as [q0|] eqn:Ap.
  { unfold anextT in *. cbn [step] in *. unfold set_peer in *. rewrite Gci, Epe in *. cbn [fst astep model_obs o_aflag] in *.
    rewrite Ga, Ap in *. replace (E_OTHER =? 0) with false in * by reflexivity. rewrite pickT_single. exact R. }
  specialize (Hpar eq_refl).
  destruct (I_handle c _ a I (Conn i) h Gh eq_refl) as (sc & Gm & _ & _ & Pe & _). cbn [leaf] in Pe.
  assert (He : countb t (edges_of (scopes st) (Conn i)) = 0).
  { unfold edges_of. rewrite Gm, Pe. apply (par_ok_gct _ _ t Hpar Ht). }
  pose proof (refz_set_peer_ge c st i q t Ht He) as G.
  cbn [step] in *. destruct (set_peer c st i q) as [st' cls]. cbn [fst model_obs o_aflag] in *.
  destruct P as (pre & post & El & _ & _).
  assert (Hin : In (anextT c st a (OSetPeer i q)) (astep c a (OSetPeer i q) cls 0)) by (rewrite El; apply in_or_app; right; left; reflexivity).
  rewrite (astep_setpeer c a i q ac cls Ga Ap) in Hin. cbv zeta in Hin.
  pose proof (ind_nonneg (Peer q) t) as In0.
  assert (Mv : forall P, (forall x, In x P -> is_gct x = false) -> nrefs (moved_state a i ac P) t <= nrefs a t).
  { intros P HP. destruct (moved_fields a i ac h P Gh) as (F1 & _).
    rewrite (nrefs_repar a _ (Conn i) h P t W Gh F1). unfold hrefs. cbn [h_dead h_par h_chain leaf].
    destruct (h_dead h); [lia|]. rewrite (gct_count_base t P Ht HP). pose proof (countb_nonneg t (h_par h)). lia. }
  destruct (cls =? 0).
  - destruct Hin as [<-|[]]. set (still := ac_allow ac && ep_allowed_peer c q (ac_ep ac)).
    destruct (set_par_fields a (Conn i) h [Peer q; if still then ASystem else System] Gh) as (F1 & _).
    rewrite (nrefs_holders (set_par a (Conn i) [Peer q; if still then ASystem else System]) (ok_state a i q ac still) t eq_refl).
    rewrite (nrefs_repar a _ (Conn i) h _ t W Gh F1). unfold hrefs. cbn [h_dead h_par h_chain leaf].
    destruct (h_dead h); [lia|]. rewrite (par_ok_gct _ _ t Hpar Ht). cbn [countb]. fold (ind (Peer q) t).
    assert (X : sid_eqb (if still then ASystem else System) t = false).
    { apply sid_eqb_neq, gct_neq; [exact Ht | destruct still; reflexivity]. }
    rewrite X. lia.
  - assert (B1 : forall x, In x (@nil sid) -> is_gct x = false) by (intros x []).
    assert (B2 : forall x, In x [System; Transient] -> is_gct x = false) by (intros x [<-|[<-|[]]]; reflexivity).
    destruct (ac_allow ac && negb _).
    + destruct Hin as [<-|[<-|[<-|[]]]]; [pose proof (Mv [] B1) | pose proof (Mv _ B2) |]; lia.
    + destruct (a_par a (Conn i)); [destruct Hin as [<-|[<-|[]]]; [|pose proof (Mv _ B2)] | destruct Hin as [<-|[]]]; lia.
Qed.

(* ---- the shape of the abstract holder table (abstract side only) -------------------------------- *)
Definition par_shape (P : list sid) : Prop :=
  (forall p q, In (ProtoPeer p q) P -> In (Proto p) P /\ In (Peer q) P) /\
  (forall s q, In (SvcPeer s q) P -> In (Peer q) P).

Definition AShape (a : astate) : Prop := forall x h, hget (holders a) x = Some h ->
  view_target x = true /\ (leaf x = true -> par_shape (h_par h)) /\
  (forall o, hd_error (h_chain h) = Some o -> view_target o = true).

Ltac ps1 :=
  match goal with
  | H : False |- _ => destruct H
  | H : _ \/ _ |- _ => destruct H as [H|H]; ps1
  | H : @eq sid _ _ |- _ => first [discriminate H | inversion H; subst; cbn [In]; try split; auto 10]
  end.
Ltac ps := let Hps := fresh "Hps" in split; [intros ?p0 ?q0 Hps | intros ?s0 ?q0 Hps]; cbn in Hps; ps1.

Lemma ashape_holders : forall a a', holders a' = holders a -> AShape a -> AShape a'.
Proof. intros a a' E H x h G. rewrite E in G. apply (H x h G). Qed.

Lemma ashape_hset : forall a x v ac ast, AShape a -> view_target x = true ->
  (leaf x = true -> par_shape (h_par v)) -> (forall o, hd_error (h_chain v) = Some o -> view_target o = true) ->
  AShape (mkAstate (hset (holders a) x v) ac ast).
Proof.
  intros a x v ac ast H V P C y h G. cbn [holders] in G. rewrite hget_hset in G. destruct (sid_eqb x y) eqn:X.
  - apply sid_eqb_eq in X. subst y. inversion G; subst h. split; [exact V | split; assumption].
  - apply (H y h G).
Qed.

Lemma ashape_set_par : forall a x P, AShape a -> par_shape P -> AShape (set_par a x P).
Proof.
  intros a x P H Ps. unfold set_par. destruct (hget (holders a) x) as [h|] eqn:G; [|exact H].
  destruct (H x h G) as (V & _ & C). apply (ashape_hset a x _ _ _ H V); [intros _; exact Ps | exact C].
Qed.

Lemma ashape_add_own : forall a x d, AShape a -> view_target x = true -> AShape (add_own a x d).
Proof.
  intros a x d H V. unfold add_own. destruct (hget (holders a) x) as [h|] eqn:G.
  - destruct (H x h G) as (_ & P & C). apply (ashape_hset a x _ _ _ H V); [exact P | exact C].
  - apply (ashape_hset a x _ _ _ H V); [intros _; ps | intros o X; discriminate X].
Qed.

Lemma ashape_kill : forall a x, AShape a -> AShape (kill a x).
Proof.
  intros a x H. unfold kill. destruct (hget (holders a) x) as [h|] eqn:G; [|exact H].
  destruct (H x h G) as (V & P & C). apply (ashape_hset a x _ _ _ H V); [exact P | exact C].
Qed.

Lemma ashape_astep : forall c a o cls af a', AShape a -> shape2 o = true -> In a' (astep c a o cls af) -> AShape a'.
Proof.
  intros c a o cls af a' H Sh Hin. destruct o; cbn [astep shape2 core_shape] in *; try discriminate.
  - destruct (cls =? 0); [|destruct Hin as [<-|[]]; exact H].
    destruct (zbool af && negb _); [destruct Hin|]. destruct Hin as [<-|[]].
    apply (ashape_hset a (Conn i) _ _ _ H eq_refl); [intros _; destruct (zbool af); ps | intros o X; discriminate X].
  - destruct (nget (aconns a) i) as [ac|]; [|destruct Hin].
    destruct (ac_peer ac); [destruct (cls =? 0); [destruct Hin | destruct Hin as [<-|[]]; exact H]|].
    assert (Mv : forall P ac', par_shape P ->
              AShape (mkAstate (holders (set_par a (Conn i) P)) (nset (aconns (set_par a (Conn i) P)) i ac') (astreams (set_par a (Conn i) P)))).
    { intros P ac' Ps. apply (ashape_holders (set_par a (Conn i) P)); [reflexivity | apply ashape_set_par; assumption]. }
    destruct (cls =? 0).
    + destruct Hin as [<-|[]]. apply Mv. destruct (ac_allow ac && ep_allowed_peer c q (ac_ep ac)); ps.
    + destruct (ac_allow ac && negb _).
      * destruct Hin as [<-|[<-|[<-|[]]]]; [apply Mv; ps | apply Mv; ps | exact H].
      * destruct (a_par a (Conn i)); [destruct Hin as [<-|[<-|[]]]; [exact H | apply Mv; ps] | destruct Hin as [<-|[]]; exact H].
  - destruct (cls =? 0); destruct Hin as [<-|[]]; [|exact H].
    apply (ashape_hset a (Stream j) _ _ _ H eq_refl); [intros _; ps | intros o X; discriminate X].
  - destruct (nget (astreams a) j) as [s|]; [|destruct Hin].
    destruct (as_proto s); [destruct (cls =? 0); [destruct Hin | destruct Hin as [<-|[]]; exact H]|].
    destruct (cls =? 0); destruct Hin as [<-|[]]; [|exact H].
    apply (ashape_holders (set_par a (Stream j) [Peer (as_peer s); ProtoPeer p (as_peer s); Proto p; System])); [reflexivity|].
    apply ashape_set_par; [exact H | ps].
  - destruct (nget (astreams a) j) as [s0|]; [|destruct Hin].
    destruct (as_svc s0); [destruct (cls =? 0); [destruct Hin | destruct Hin as [<-|[]]; exact H]|].
    destruct (as_proto s0) as [p|]; [|destruct (cls =? 0); [destruct Hin | destruct Hin as [<-|[]]; exact H]].
    destruct (cls =? 0); destruct Hin as [<-|[]]; [|exact H].
    apply (ashape_holders (set_par a (Stream j) [Peer (as_peer s0); ProtoPeer p (as_peer s0); SvcPeer s (as_peer s0); Proto p; Svc s; System])); [reflexivity|].
    apply ashape_set_par; [exact H | ps].
  - destruct (cls =? 0); destruct Hin as [<-|[]]; [apply ashape_add_own; assumption | exact H].
  - destruct (a_dead a t); destruct Hin as [<-|[]]; [exact H | apply ashape_add_own; assumption].
  - destruct (cls =? 0); destruct Hin as [<-|[]]; [|exact H].
    apply (ashape_hset a (Span k) _ _ _ H eq_refl); [intros X; discriminate X|].
    intros o X. cbn in X. inversion X; subst o. exact Sh.
  - pose proof (ashape_kill a t H) as K. destruct t; try (destruct Hin as [<-|[]]; exact K).
    destruct (nget (aconns (kill a (Conn i))) i); destruct Hin as [<-|[]]; [|exact K].
    apply (ashape_holders (kill a (Conn i))); [reflexivity | exact K].
Qed.

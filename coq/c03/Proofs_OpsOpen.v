(* C03 — per-operation preservation: the common part of OpenConnection and
   OpenStream (new scope, AddConn/AddStream over the edges with undo, Done of
   the new scope on refusal), and OpenStream. *)
From Coq Require Import List ZArith Bool Arith Lia.
From Verif Require Import lib.Wire c03.Int64 c03.Model c03.Spec c03.Proofs_Int64 c03.Proofs_Base
     c03.Proofs_Sum c03.Proofs_Reach c03.Proofs_Link c03.Proofs_Targets c03.Proofs_Frames c03.Proofs_Frames2
     c03.Proofs_Frames3 c03.Proofs_Kill c03.Proofs_OpsMem c03.Proofs_Done c03.Proofs_OpsDone c03.Proofs_OpsNew.
Import ListNotations.
Local Open Scope Z_scope.

Lemma hset_hset : forall H s v w, hset (hset H s v) s w = hset H s w.
Proof.
  induction H as [|[y h] r IH]; intros s v w; cbn.
  - rewrite sid_eqb_refl. reflexivity.
  - destruct (sid_eqb y s) eqn:X; cbn; rewrite X; [reflexivity | rewrite IH; reflexivity].
Qed.

Lemma open_leaf : forall c mb m2 a a2 s E lim r k,
  cfg_ok c -> Inv c mb a -> leaf s = true -> hget (holders a) s = None ->
  NoDup E -> (forall q, In q E -> is_handle q = false /\ get mb q <> None) -> lim = limit_of c s ->
  (forall y, y <> s -> shape_of m2 y = shape_of mb y /\ use_of m2 y = use_of mb y) ->
  get m2 s = Some (mkScope lim stat0 false r [] E) ->
  kind_ok k -> mem (kdelta k) = 0 ->
  holders a2 = hset (holders a) s (mkHolder (kdelta k) E [] false) ->
  let '(m3, e) := scope_reserve m2 s k in
  match e with
  | None => Inv c m3 a2
  | Some _ => Inv c (scope_done m3 s) a
  end.
Proof.
  intros c mb m2 a a2 s E lim r k LO I Hl Hf Nd HE Elim Oth Gs Hk Hz Ha2.
  assert (Hs : is_handle s = true) by (destruct s; try discriminate; reflexivity).
  assert (Llim : lim_ok lim) by (rewrite Elim; apply LO).
  set (a1 := mkAstate (hset (holders a) s (mkHolder stat0 E [] false)) (aconns a) (astreams a)).
  assert (Hal : lim = a_limit c a1 s) by (rewrite Elim; unfold a_limit; destruct s; try discriminate; reflexivity).
  pose proof (Inv_new_holder c mb a a1 s E [] lim r I Hs Hf) as H1. rewrite Hl in H1.
  assert (I1 : Inv c (set mb s (mkScope lim stat0 false r [] E)) a1).
  { apply H1; try assumption; [|reflexivity]. left. repeat split; try assumption; apply HE; assumption. }
  clear H1.
  assert (I2 : Inv c m2 a1).
  { apply (Inv_extends c _ m2 a1 LO I1). apply extends_same; intros x.
    - unfold shape_of. rewrite get_set. destruct (sid_eqb s x) eqn:X.
      + apply sid_eqb_eq in X. subst x. rewrite Gs. reflexivity.
      + apply sid_eqb_neq in X. apply (Oth x). congruence.
    - rewrite use_of_set. destruct (sid_eqb s x) eqn:X.
      + apply sid_eqb_eq in X. subst x. rewrite (use_of_get m2 s _ Gs). reflexivity.
      + apply sid_eqb_neq in X. apply (Oth x). congruence. }
  assert (G1 : hget (holders a1) s = Some (mkHolder stat0 E [] false)) by (cbn [a1 holders]; rewrite hget_hset, sid_eqb_refl; reflexivity).
  assert (K : holder_if_handle a1 s) by (intros _; rewrite G1; discriminate).
  unfold scope_reserve. destruct (targets_spec c m2 a1 s I2 K) as (Nt & _ & Live).
  assert (Ov : forall x, In x (targets m2 s) -> mem (use_of m2 x) + mem (kdelta k) <= max_int64).
  { intros x _. rewrite Hz. pose proof (use_mem_le m2 x (I_good c m2 a1 I2)). lia. }
  pose proof (charge_list_top (targets m2 s) k m2 Hk (I_good c m2 a1 I2) Nt Ov) as H.
  destruct (charge_list (targets m2 s) [] k m2) as [m3 e]. destruct H as (Sh & Gd & Res).
  destruct e as [e|].
  - (* refused: the scope is closed again and nobody holds it *)
    destruct (shape_get m2 m3 s _ (Sh s) Gs) as (sc3 & G3 & Q1 & Q2 & Q3 & Q4). cbn in Q1, Q2, Q3, Q4.
    assert (U3 : s_use sc3 = stat0) by (rewrite <- (use_of_get m3 s sc3 G3), Res, (use_of_get m2 s _ Gs); reflexivity).
    destruct (scope_done_zero m3 s sc3 Gd G3 Q2 Q3 U3) as (Oth4 & sc4 & G4 & D4 & Z4 & L4).
    apply (Inv_garbage c mb _ a s sc4 I Hs Hf); try assumption.
    + intros y Hne. destruct (Oth4 y Hne) as [S4 U4]. destruct (Oth y Hne) as [S2 U2]. split.
      * rewrite S4, Sh. exact S2.
      * rewrite U4, Res. exact U2.
    + rewrite L4, Q1. exact Llim.
  - destruct Res as [Lv U]. specialize (Live Lv).
    assert (D : a_dead a1 s = false) by (unfold a_dead; rewrite G1; reflexivity).
    pose proof (Inv_add_own c m2 m3 a1 s (kdelta k) I2 K D) as H3.
    apply (Inv_holders c m3 (add_own a1 s (kdelta k)) a2).
    + rewrite Ha2. unfold add_own. rewrite G1. cbn [holders a1 h_own h_par h_chain h_dead].
      rewrite hset_hset, stat_add_0_l. reflexivity.
    + apply H3; try assumption.
      * unfold own_or0. rewrite G1. cbn [h_own]. rewrite stat_add_0_l. apply kdelta_nonneg, Hk.
      * intros x. rewrite U, <- Live. apply stat_add_count, Nt.
Qed.

(* C03 — per-operation preservation: the common part of OpenConnection and
   OpenStream (new scope, AddConn/AddStream over the edges with undo, Done of
   the new scope on refusal), and OpenStream. *)
From Coq Require Import List ZArith Bool Arith Lia.
From Verif Require Import lib.Wire c03.Int64 c03.Model c03.Spec c03.Proofs_Int64 c03.Proofs_Base
     c03.Proofs_Sum c03.Proofs_Reach c03.Proofs_Link c03.Proofs_Targets c03.Proofs_Frames c03.Proofs_Frames2
     c03.Proofs_Frames3 c03.Proofs_Kill c03.Proofs_OpsMem c03.Proofs_Done c03.Proofs_OpsDone c03.Proofs_OpsNew.
Import ListNotations.
Local Open Scope Z_scope.

Lemma hset_hset : forall H s v w, hset (hset H s v) s w = hset H s w.
Proof.
  induction H as [|[y h] r IH]; intros s v w; cbn.
  - rewrite sid_eqb_refl. reflexivity.
  - destruct (sid_eqb y s) eqn:X; cbn; rewrite X; [reflexivity | rewrite IH; reflexivity].
Qed.

Lemma open_leaf : forall c mb m2 a a2 s E lim r k,
  cfg_ok c -> Inv c mb a -> leaf s = true -> hget (holders a) s = None ->
  NoDup E -> (forall q, In q E -> is_handle q = false /\ get mb q <> None) -> lim = limit_of c s ->
  (forall y, y <> s -> shape_of m2 y = shape_of mb y /\ use_of m2 y = use_of mb y) ->
  get m2 s = Some (mkScope lim stat0 false r [] E) ->
  kind_ok k -> mem (kdelta k) = 0 ->
  holders a2 = hset (holders a) s (mkHolder (kdelta k) E [] false) ->
  let '(m3, e) := scope_reserve m2 s k in
  match e with
  | None => Inv c m3 a2
  | Some _ => Inv c (scope_done m3 s) a
  end.
Proof.
  intros c mb m2 a a2 s E lim r k LO I Hl Hf Nd HE Elim Oth Gs Hk Hz Ha2.
  assert (Hs : is_handle s = true) by (destruct s; try discriminate; reflexivity).
  assert (Llim : lim_ok lim) by (rewrite Elim; apply LO).
  set (a1 := mkAstate (hset (holders a) s (mkHolder stat0 E [] false)) (aconns a) (astreams a)).
  assert (Hal : lim = a_limit c a1 s) by (rewrite Elim; unfold a_limit; destruct s; try discriminate; reflexivity).
  pose proof (Inv_new_holder c mb a a1 s E [] lim r I Hs Hf) as H1. rewrite Hl in H1.
  assert (I1 : Inv c (set mb s (mkScope lim stat0 false r [] E)) a1).
  { apply H1; try assumption; [|reflexivity]. left. repeat split; try assumption; apply HE; assumption. }
  clear H1.
  assert (I2 : Inv c m2 a1).
  { apply (Inv_extends c _ m2 a1 LO I1). apply extends_same; intros x.
    - unfold shape_of. rewrite get_set. destruct (sid_eqb s x) eqn:X.
      + apply sid_eqb_eq in X. subst x. rewrite Gs. reflexivity.
      + apply sid_eqb_neq in X. apply (Oth x). congruence.
    - rewrite use_of_set. destruct (sid_eqb s x) eqn:X.
      + apply sid_eqb_eq in X. subst x. rewrite (use_of_get m2 s _ Gs). reflexivity.
      + apply sid_eqb_neq in X. apply (Oth x). congruence. }
  assert (G1 : hget (holders a1) s = Some (mkHolder stat0 E [] false)) by (cbn [a1 holders]; rewrite hget_hset, sid_eqb_refl; reflexivity).
  assert (K : holder_if_handle a1 s) by (intros _; rewrite G1; discriminate).
  unfold scope_reserve. destruct (targets_spec c m2 a1 s I2 K) as (Nt & _ & Live).
  assert (Ov : forall x, In x (targets m2 s) -> mem (use_of m2 x) + mem (kdelta k) <= max_int64).
  { intros x _. rewrite Hz. pose proof (use_mem_le m2 x (I_good c m2 a1 I2)). lia. }
  pose proof (charge_list_top (targets m2 s) k m2 Hk (I_good c m2 a1 I2) Nt Ov) as H.
  destruct (charge_list (targets m2 s) [] k m2) as [m3 e]. destruct H as (Sh & Gd & Res).
  destruct e as [e|].
  - (* refused: the scope is closed again and nobody holds it *)
    destruct (shape_get m2 m3 s _ (Sh s) Gs) as (sc3 & G3 & Q1 & Q2 & Q3 & Q4). cbn in Q1, Q2, Q3, Q4.
    assert (U3 : s_use sc3 = stat0) by (rewrite <- (use_of_get m3 s sc3 G3), Res, (use_of_get m2 s _ Gs); reflexivity).
    destruct (scope_done_zero m3 s sc3 Gd G3 Q2 Q3 U3) as (Oth4 & sc4 & G4 & D4 & Z4 & L4).
    apply (Inv_garbage c mb _ a s sc4 I Hs Hf); try assumption.
    + intros y Hne. destruct (Oth4 y Hne) as [S4 U4]. destruct (Oth y Hne) as [S2 U2]. split.
      * rewrite S4, Sh. exact S2.
      * rewrite U4, Res. exact U2.
    + rewrite L4, Q1. exact Llim.
  - destruct Res as [Lv U]. specialize (Live Lv).
    assert (D : a_dead a1 s = false) by (unfold a_dead; rewrite G1; reflexivity).
    pose proof (Inv_add_own c m2 m3 a1 s (kdelta k) I2 K D) as H3.
    apply (Inv_holders c m3 (add_own a1 s (kdelta k)) a2).
    + rewrite Ha2. unfold add_own. rewrite G1. cbn [holders a1 h_own h_par h_chain h_dead].
      rewrite hset_hset, stat_add_0_l. reflexivity.
    + apply H3; try assumption.
      * unfold own_or0. rewrite G1. cbn [h_own]. rewrite stat_add_0_l. apply kdelta_nonneg, Hk.
      * intros x. rewrite U, <- Live. apply stat_add_count, Nt.
Qed.

Lemma extends_increfs : forall c m l, extends c m (increfs m l).
Proof. intros. apply extends_same; intros; [apply increfs_shape | apply increfs_use]. Qed.

Lemma get_remove_other : forall m s y, y <> s -> get (remove m s) y = get m y.
Proof.
  induction m as [|[x sc] r IH]; intros s y Hne; cbn; [reflexivity|].
  destruct (sid_eqb x s) eqn:X; cbn.
  - apply sid_eqb_eq in X. subst x. destruct (sid_eqb s y) eqn:Y; [apply sid_eqb_eq in Y; congruence | reflexivity].
  - destruct (sid_eqb x y); [reflexivity | apply IH, Hne].
Qed.

Lemma stream_vec_mem : forall b, mem (stream_vec b) = 0.
Proof. reflexivity. Qed.
Lemma conn_vec_mem : forall b f, mem (conn_vec b f) = 0.
Proof. reflexivity. Qed.

Theorem open_stream_inv : forall c st a j q inb,
  cfg_ok c -> Inv c (scopes st) a -> hget (holders a) (Stream j) = None ->
  let '(st', cls) := open_stream c st j q inb in
  Inv c (scopes st')
      (if cls =? 0
       then mkAstate (hset (holders a) (Stream j) (mkHolder (stream_vec inb) [Peer q; Transient; System] [] false))
                     (aconns a) (nset (astreams a) j (mkAstream q None None))
       else a).
Proof.
  intros c st a j q inb LO I Hf. unfold open_stream.
  set (E := [Peer q; Transient; System]).
  set (m0 := get_scope c (scopes st) (Peer q)).
  assert (E0 : extends c (scopes st) m0) by (apply extends_get_scope; [reflexivity | apply (I_base c _ a I)]).
  set (mb := increfs m0 E).
  assert (Eb : extends c (scopes st) mb) by (apply (extends_trans c _ m0); [exact E0 | apply extends_increfs]).
  assert (Ib : Inv c mb a) by (apply (Inv_extends c _ mb a LO I Eb)).
  unfold new_scope. fold mb.
  set (sc0 := mkScope (lim_stream c) stat0 false 0 [] E).
  set (m2 := decref (set mb (Stream j) sc0) (Peer q)).
  set (a2 := mkAstate (hset (holders a) (Stream j) (mkHolder (stream_vec inb) E [] false))
                      (aconns a) (nset (astreams a) j (mkAstream q None None))).
  pose proof (open_leaf c mb m2 a a2 (Stream j) E (lim_stream c) 0 (KStream inb) LO Ib eq_refl Hf) as H.
  assert (HE : forall x, In x E -> is_handle x = false /\ get mb x <> None).
  { destruct (I_base c _ a I) as (B1 & B2 & _). intros x [<-|[<-|[<-|[]]]]; (split; [reflexivity|]).
    - apply (extends_present c m0 mb _ (extends_increfs c m0 E)), get_scope_present.
    - apply (extends_present c _ mb _ Eb B2).
    - apply (extends_present c _ mb _ Eb B1). }
  specialize (H ltac:(repeat constructor; cbn; intuition discriminate) HE eq_refl).
  assert (Oth : forall y, y <> Stream j -> shape_of m2 y = shape_of mb y /\ use_of m2 y = use_of mb y).
  { intros y Hne. unfold m2. rewrite decref_shape, decref_use. unfold shape_of, use_of.
    rewrite get_set_other by congruence. split; reflexivity. }
  assert (Gs : get m2 (Stream j) = Some sc0).
  { unfold m2, decref. rewrite get_upd. cbn [sid_eqb]. apply get_set_same. }
  specialize (H Oth Gs Logic.I (stream_vec_mem inb) eq_refl).
  destruct (scope_reserve m2 (Stream j) (KStream inb)) as [m3 e]. destruct e as [e|]; cbn [scopes].
  - rewrite ecode_some. exact H.
  - exact H.
Qed.

Lemma conn_done_scopes : forall c st i, scopes (conn_done c st i) = scope_done (scopes st) (Conn i).
Proof.
  intros c st i. unfold conn_done. destruct (is_done (scopes st) (Conn i)) eqn:D; [|reflexivity].
  symmetry. apply scope_done_done, D.
Qed.

Lemma nget_nset_same : forall A (l : list (nat * A)) k v, nget (nset l k v) k = Some v.
Proof.
  induction l as [|[x w] r IH]; intros k v; cbn; [rewrite Nat.eqb_refl; reflexivity|].
  destruct (Nat.eqb x k) eqn:X; cbn; rewrite X; [reflexivity | apply IH].
Qed.

Definition conn_par (al : bool) : list sid := if al then [ATransient; ASystem] else [Transient; System].

Theorem open_conn_inv : forall c st a i inb usefd ep,
  cfg_ok c -> Inv c (scopes st) a -> hget (holders a) (Conn i) = None ->
  let '(st', cls) := open_conn c st i inb usefd ep in
  let al := match nget (conns st') i with Some ci => ci_allow ci | None => false end in
  (cls = 0 -> al = true -> ep_allowed c ep = true) /\
  Inv c (scopes st')
      (if cls =? 0
       then mkAstate (hset (holders a) (Conn i) (mkHolder (conn_vec inb usefd) (conn_par al) [] false))
                     (nset (aconns a) i (mkAconn ep al None true al)) (astreams a)
       else a).
Proof.
  intros c st a i inb usefd ep LO I Hf. unfold open_conn.
  destruct (match ep with Some a0 => match limiter_add c (lims st) a0 with Some l => Some l | None => None end
                        | None => Some (lims st) end) as [l|]; [|split; [discriminate | exact I]].
  destruct (I_base c _ a I) as (B1 & B2 & B3 & B4).
  (* first attempt: transient + system *)
  unfold new_scope at 1.
  set (mb := increfs (scopes st) [Transient; System]).
  assert (Eb : extends c (scopes st) mb) by apply extends_increfs.
  assert (Ib : Inv c mb a) by (apply (Inv_extends c _ mb a LO I Eb)).
  set (sc0 := mkScope (lim_conn c) stat0 false 0 [] [Transient; System]).
  set (k := KConn inb usefd).
  pose proof (open_leaf c mb (set mb (Conn i) sc0) a
                (mkAstate (hset (holders a) (Conn i) (mkHolder (conn_vec inb usefd) (conn_par false) [] false))
                          (nset (aconns a) i (mkAconn ep false None true false)) (astreams a))
                (Conn i) [Transient; System] (lim_conn c) 0 k LO Ib eq_refl Hf) as H.
  specialize (H ltac:(repeat constructor; cbn; intuition discriminate)).
  specialize (H ltac:(intros x [<-|[<-|[]]]; (split; [reflexivity|]);
                      [apply (extends_present c _ mb _ Eb B2) | apply (extends_present c _ mb _ Eb B1)]) eq_refl).
  specialize (H ltac:(intros y Hne; unfold shape_of, use_of; rewrite get_set_other by congruence; split; reflexivity)
                (get_set_same mb (Conn i) sc0) Logic.I (conn_vec_mem inb usefd) eq_refl).
  destruct (scope_reserve (set mb (Conn i) sc0) (Conn i) k) as [m1 e1].
  destruct e1 as [e1|].
  2:{ cbn [scopes conns with_scopes]. rewrite nget_nset_same. cbn [ci_allow]. split; [discriminate | exact H]. }
  destruct (match ep with Some a0 => allowed c a0 | None => false end) eqn:R.
  - (* retry through the allow-listed scopes *)
    cbn [scopes conns streams lims with_scopes].
    set (md := scope_done m1 (Conn i)) in *.
    unfold new_scope.
    set (sc1 := mkScope (lim_conn c) stat0 false 0 [] [ATransient; ASystem]).
    set (m3 := set (increfs (remove md (Conn i)) [ATransient; ASystem]) (Conn i) sc1).
    pose proof (open_leaf c md m3 a
                  (mkAstate (hset (holders a) (Conn i) (mkHolder (conn_vec inb usefd) (conn_par true) [] false))
                            (nset (aconns a) i (mkAconn ep true None true true)) (astreams a))
                  (Conn i) [ATransient; ASystem] (lim_conn c) 0 k LO H eq_refl Hf) as H2.
    destruct (I_base c md a H) as (D1 & D2 & D3 & D4).
    specialize (H2 ltac:(repeat constructor; cbn; intuition discriminate)).
    specialize (H2 ltac:(intros x [<-|[<-|[]]]; (split; [reflexivity | assumption])) eq_refl).
    assert (Oth : forall y, y <> Conn i -> shape_of m3 y = shape_of md y /\ use_of m3 y = use_of md y).
    { intros y Hne. unfold m3. split.
      - unfold shape_of at 1. rewrite get_set_other by congruence. fold (shape_of (increfs (remove md (Conn i)) [ATransient; ASystem]) y).
        rewrite increfs_shape. unfold shape_of. rewrite get_remove_other by exact Hne. reflexivity.
      - unfold use_of at 1. rewrite get_set_other by congruence. fold (use_of (increfs (remove md (Conn i)) [ATransient; ASystem]) y).
        rewrite increfs_use. unfold use_of. rewrite get_remove_other by exact Hne. reflexivity. }
    specialize (H2 Oth (get_set_same _ (Conn i) sc1) Logic.I (conn_vec_mem inb usefd) eq_refl).
    destruct (scope_reserve m3 (Conn i) k) as [m4 e4]. destruct e4 as [e4|].
    + rewrite conn_done_scopes. cbn [scopes]. rewrite ecode_some.
      split; [intros X; destruct e4; discriminate | exact H2].
    + cbn [scopes conns]. rewrite nget_nset_same. cbn [ci_allow]. split; [intros _ _; exact R | exact H2].
  - rewrite conn_done_scopes. cbn [scopes with_scopes]. rewrite ecode_some.
    split; [intros X; destruct e1; discriminate | exact H].
Qed.

(* C03 — justification of limit refusals, part 2: the re-parenting operations
   SetProtocol, SetService, SetPeer (with and without the allow-list transfer). *)
From Coq Require Import List ZArith Bool Arith Lia.
From Verif Require Import lib.Wire c03.Int64 c03.Model c03.Spec c03.Proofs_Int64 c03.Proofs_Base
     c03.Proofs_Sum c03.Proofs_Reach c03.Proofs_Link c03.Proofs_Targets c03.Proofs_Frames c03.Proofs_Frames2
     c03.Proofs_Frames3 c03.Proofs_Kill c03.Proofs_OpsMem c03.Proofs_Done c03.Proofs_OpsDone c03.Proofs_OpsNew
     c03.Proofs_OpsOpen c03.Proofs_Hist c03.Proofs_Repar c03.Proofs_Repar2 c03.Proofs_Move c03.Proofs_Attach
     c03.Proofs_Attach1 c03.Proofs_Link2 c03.Proofs_Transfer c03.Proofs_OpsRepar c03.Proofs_SetPeer c03.Proofs_Hist2
     c03.Proofs_Prio c03.Proofs_Just.
Import ListNotations.
Local Open Scope Z_scope.

Definition exc (c : config) (a : astate) (x : sid) (d : stat) : Prop :=
  exceed (limit_of c x) (usage_A a x) d 255 true = true.

(* a refused charge of a static scope, read on the abstract state *)
Lemma refused_static : forall c m a x d e, Inv c m a -> is_handle x = false ->
  charge_one x (KStat d) m = inr e -> kind_ok (KStat d) -> ecode (Some e) = 1 -> exc c a x d.
Proof.
  intros c m a x d e I Hh C Hk Ec.
  destruct (charge_one_refused x (KStat d) m e Hk (I_good c m a I) C) as [[_ ->]|[_ (sc & G & Dn & Ex)]]; [discriminate|].
  destruct (I_static c m a I x sc G Hh) as (_ & _ & _ & Pl). unfold exc.
  rewrite <- Pl, <- (I_num c m a I x), (use_of_get m x sc G). exact Ex.
Qed.

(* ---- SetProtocol / SetService ---------------------------------------------------------------------- *)
Lemma attach_just : forall c m a s h t1 t2 rel P' m' e,
  cfg_ok c -> Inv c m a -> leaf s = true -> hget (holders a) s = Some h ->
  is_created_view t1 = true -> is_handle t2 = false -> static_par t2 = [] -> t1 <> t2 ->
  novf m (mem (use_of m s)) ->
  attach c m s t1 t2 rel P' = (m', Some e) -> ecode (Some e) = 1 ->
  exc c a t1 (use_of m s) \/ exc c a t2 (use_of m s).
Proof.
  intros c m a s h t1 t2 rel P' m' e LO I Hl G V1 H2 Sp2 N12 Ov At Ec. unfold attach in At.
  pose proof (at_I1 c m a t1 LO I V1) as I1. pose proof (at_stt c m a s t1 I V1) as Es.
  pose proof (at_k c m a s t1 LO I V1) as Hk.
  set (m1 := get_scope c m t1) in *. set (stt := use_of m1 s) in *.
  assert (Ht1 : is_handle t1 = false) by (destruct t1; try discriminate; reflexivity).
  destruct (charge_one t1 (KStat stt) m1) as [m2|e1] eqn:C1.
  2:{ inversion At; subst. left. rewrite <- Es. apply (refused_static c m1 a t1 stt e I1 Ht1 C1 Hk Ec). }
  destruct (charge_one t2 (KStat stt) (get_subscope c m2 t2)) as [m4|e2] eqn:C2; [destruct rel; inversion At|].
  inversion At; subst. right. rewrite <- Es.
  pose proof (at_ov1 c m a s t1 I V1 Ov) as Ov1. fold m1 stt in Ov1.
  destruct (charge_one_count t1 (KStat stt) m1 m2 Hk (I_good c m1 a I1) (Ov1 t1) C1) as (D1 & S2 & G2 & U2).
  set (m3 := get_subscope c m2 t2) in *.
  assert (G3 : all_good m3) by (apply get_subscope_good; assumption).
  destruct (charge_one_refused t2 (KStat stt) m3 e Hk G3 C2) as [[_ ->]|[_ (sc & Gs & Dn & Ex)]]; [discriminate|].
  pose proof (at_IB c m a t1 t2 LO I V1 H2 Sp2) as IB. fold m1 in IB. set (mB := get_subscope c m1 t2) in *.
  assert (S3 : shape_of m3 t2 = shape_of mB t2) by (apply get_subscope_shape_congr, S2).
  unfold shape_of in S3. rewrite Gs in S3. destruct (get mB t2) as [scB|] eqn:GB; cbn in S3; [|discriminate].
  unfold shape in S3. inversion S3 as [[L1 L2 L3 L4]].
  destruct (I_static c mB a IB t2 scB GB H2) as (_ & _ & _ & Pl).
  assert (Us : s_use sc = usage_A a t2).
  { rewrite <- (use_of_get m3 t2 sc Gs). unfold m3. rewrite get_subscope_use, U2, (count_other t1 t2 N12), stat_scale_0, stat_add_0_r.
    pose proof (at_use1 c m a t1 I V1 t2) as Ut. fold m1 in Ut. rewrite Ut. apply (I_num c m a I). }
  unfold exc. rewrite <- Pl, <- L1, <- Us. exact Ex.
Qed.

Lemma ecode_one : forall e, ecode e = 1 -> exists e0, e = Some e0 /\ ecode (Some e0) = 1.
Proof. intros [e0|] H; [exists e0; split; [reflexivity | exact H] | discriminate]. Qed.

Theorem set_proto_just : forall c st a m j p s,
  cfg_ok c -> Inv c (scopes st) a -> Link st a -> nget (astreams a) j = Some s ->
  novf (scopes st) (mem (use_of (scopes st) (Stream j))) -> (forall x, ostat m x = use_of (scopes st) x) ->
  snd (set_proto c st j p) = 1 -> refusal_justified c a m (OSetProto j p) = true.
Proof.
  intros c st a m j p s LO I L Gs Ov Lo C. pose proof (obs_usage c st a m I Lo) as Lu.
  destruct (proj2 L j s Gs) as (si & h & Gsi & Gh & Ep & Epr & Esv & Epar & Hsv).
  unfold refusal_justified. cbn [constrainers]. rewrite Gs. cbn [forallb]. rewrite andb_true_r.
  destruct (as_proto s) as [p0|] eqn:Ap.
  { unfold set_proto in C. rewrite Gsi, Epr in C. cbn in C. discriminate. }
  pose proof (set_proto_eq c st j p si Gsi ltac:(congruence)) as Eq. cbv zeta in Eq.
  destruct (attach c (scopes st) (Stream j) (Proto p) (ProtoPeer p (si_peer si)) true _) as [m' e] eqn:At.
  rewrite Eq in C. cbn [snd] in C. destruct (ecode_one e C) as (e0 & -> & Ec).
  destruct (attach_just c (scopes st) a (Stream j) h (Proto p) (ProtoPeer p (si_peer si)) true _ m' e0 LO I eq_refl Gh eq_refl eq_refl eq_refl
              ltac:(discriminate) Ov At Ec) as [X|X]; rewrite <- Ep.
  - apply (just_chain c a m _ _ 255 true (Proto p) Lu); [left; reflexivity | reflexivity | rewrite Lo; exact X].
  - apply (just_chain c a m _ _ 255 true (ProtoPeer p (si_peer si)) Lu); [right; left; reflexivity | reflexivity | rewrite Lo; exact X].
Qed.

Theorem set_svc_just : forall c st a m j sv s,
  cfg_ok c -> Inv c (scopes st) a -> Link st a -> nget (astreams a) j = Some s ->
  novf (scopes st) (mem (use_of (scopes st) (Stream j))) -> (forall x, ostat m x = use_of (scopes st) x) ->
  snd (set_svc c st j sv) = 1 -> refusal_justified c a m (OSetSvc j sv) = true.
Proof.
  intros c st a m j sv s LO I L Gs Ov Lo C. pose proof (obs_usage c st a m I Lo) as Lu.
  destruct (proj2 L j s Gs) as (si & h & Gsi & Gh & Ep & Epr & Esv & Epar & Hsv).
  unfold refusal_justified. cbn [constrainers]. rewrite Gs. cbn [forallb]. rewrite andb_true_r.
  destruct (as_svc s) as [sv0|] eqn:As.
  { unfold set_svc in C. rewrite Gsi, Esv in C. cbn in C. discriminate. }
  destruct (as_proto s) as [p|] eqn:Ap.
  2:{ unfold set_svc in C. rewrite Gsi, Esv, Epr in C. cbn in C. discriminate. }
  pose proof (set_svc_eq c st j sv si p Gsi Esv Epr) as Eq. cbv zeta in Eq.
  destruct (attach c (scopes st) (Stream j) (Svc sv) (SvcPeer sv (si_peer si)) false _) as [m' e] eqn:At.
  rewrite Eq in C. cbn [snd] in C. destruct (ecode_one e C) as (e0 & -> & Ec).
  destruct (attach_just c (scopes st) a (Stream j) h (Svc sv) (SvcPeer sv (si_peer si)) false _ m' e0 LO I eq_refl Gh eq_refl eq_refl eq_refl
              ltac:(discriminate) Ov At Ec) as [X|X]; rewrite <- Ep.
  - apply (just_chain c a m _ _ 255 true (Svc sv) Lu); [left; reflexivity | reflexivity | rewrite Lo; exact X].
  - apply (just_chain c a m _ _ 255 true (SvcPeer sv (si_peer si)) Lu); [right; left; reflexivity | reflexivity | rewrite Lo; exact X].
Qed.

(* ---- SetPeer ------------------------------------------------------------------------------------------- *)
Lemma attach1_just : forall c m a s t1 tr P' m' e, cfg_ok c -> Inv c m a -> is_created_view t1 = true ->
  attach1 c m s t1 tr P' = (m', Some e) -> ecode (Some e) = 1 -> exc c a t1 (use_of m s).
Proof.
  intros c m a s t1 tr P' m' e LO I V At Ec. unfold attach1 in At.
  pose proof (at_I1 c m a t1 LO I V) as I1. pose proof (at_stt c m a s t1 I V) as Es. pose proof (at_k c m a s t1 LO I V) as Hk.
  assert (Ht1 : is_handle t1 = false) by (destruct t1; try discriminate; reflexivity).
  destruct (charge_one t1 _ _) as [m2|e1] eqn:C1; inversion At; subst.
  rewrite <- Es. apply (refused_static c _ a t1 _ e I1 Ht1 C1 Hk Ec).
Qed.

Lemma charge_one_get_other : forall x k m m' y, charge_one x k m = inl m' -> y <> x -> get m' y = get m y.
Proof.
  intros x k m m' y C Hne. unfold charge_one in C. destruct (get m x) as [sc|]; [|discriminate]. destruct (s_done sc); [discriminate|].
  destruct (rc_reserve k (s_lim sc) (s_use sc)); inversion C. apply get_set_other. congruence.
Qed.

Lemma transfer_just : forall c m a aE i h m' e,
  cfg_ok c -> Inv c m a -> hget (holders a) (Conn i) = Some h -> holders aE = repar a (Conn i) h [] ->
  ~ In System (h_par h) -> ~ In Transient (h_par h) -> novf m (mem (use_of m (Conn i))) ->
  transfer_allowed m i = (m', Some e) -> ecode (Some e) = 1 ->
  exc c a System (use_of m (Conn i)) \/ exc c a Transient (use_of m (Conn i)).
Proof.
  intros c m a aE i h m' e LO I G HaE Ns Nt Ov T Ec.
  pose proof (transfer_release c m a aE i h I G HaE) as P1. cbv zeta in P1.
  unfold transfer_allowed in T. fold (uncharge_dec (edges_of m (Conn i)) (KStat (use_of m (Conn i))) m) in T.
  set (stt := use_of m (Conn i)) in *.
  set (m2 := upd (uncharge_dec (edges_of m (Conn i)) (KStat stt) m) (Conn i) (fun sc => set_edges sc [])) in *.
  destruct P1 as (I2 & _ & U2).
  assert (Hk : kind_ok (KStat stt)) by (apply kind_ok_use, (I_good c m a I)).
  assert (Keep : forall x, ~ In x (h_par h) -> use_of m2 x = use_of m x).
  { intros x Hx. pose proof (U2 x) as E. rewrite (countb_notin x (h_par h) Hx), stat_scale_0, stat_add_0_r in E. exact E. }
  assert (St : forall m0 x sc, get m0 x = get m2 x -> is_handle x = false -> ~ In x (h_par h) -> get m0 x = Some sc ->
            exceed (s_lim sc) (s_use sc) stt 255 true = true -> exc c a x stt).
  { intros m0 x sc E Hh Hx Gx Ex. rewrite E in Gx. destruct (I_static c m2 aE I2 x sc Gx Hh) as (_ & _ & _ & Pl).
    unfold exc. rewrite <- Pl, <- (I_num c m a I x), <- (Keep x Hx), (use_of_get m2 x sc Gx). exact Ex. }
  destruct (charge_one System (KStat stt) m2) as [m3|e1] eqn:C1.
  2:{ inversion T; subst. left.
      destruct (charge_one_refused System (KStat stt) m2 e Hk (I_good c m2 aE I2) C1) as [[_ ->]|[_ (sc & Gs & Dn & Ex)]]; [discriminate|].
      apply (St m2 System sc eq_refl eq_refl Ns Gs Ex). }
  destruct (charge_one Transient (KStat stt) (incref m3 System)) as [m5|e2] eqn:C2; inversion T; subst. right.
  assert (Ov1 : mem (use_of m2 System) + mem (kdelta (KStat stt)) <= max_int64).
  { rewrite (Keep System Ns). cbn [kdelta]. apply Ov. }
  destruct (charge_one_count System (KStat stt) m2 m3 Hk (I_good c m2 aE I2) Ov1 C1) as (_ & _ & G3 & _).
  destruct (charge_one_refused Transient (KStat stt) (incref m3 System) e Hk (incref_good _ _ G3) C2) as [[_ ->]|[_ (sc & Gs & Dn & Ex)]]; [discriminate|].
  apply (St (incref m3 System) Transient sc); try assumption; try reflexivity.
  unfold incref. rewrite get_upd. cbn [sid_eqb]. apply (charge_one_get_other System _ m2 m3 Transient C1). discriminate.
Qed.

Theorem set_peer_just : forall c st a m i q ac,
  cfg_ok c -> Inv c (scopes st) a -> Link st a -> nget (aconns a) i = Some ac ->
  novf (scopes st) (mem (use_of (scopes st) (Conn i))) -> (forall x, ostat m x = use_of (scopes st) x) ->
  snd (set_peer c st i q) = 1 -> refusal_justified c a m (OSetPeer i q) = true.
Proof.
  intros c st a m i q ac LO I L Ga Ov Lo C. pose proof (obs_usage c st a m I Lo) as Lu.
  destruct (proj1 L i ac Ga) as (ci & h & Gci & Gh & Epe & Eal & Eep & Hpar).
  unfold refusal_justified. cbn [constrainers]. rewrite Ga.
  destruct (ac_peer ac) as [q0|] eqn:Ap.
  { unfold set_peer in C. rewrite Gci, Epe in C. cbn in C. discriminate. }
  specialize (Hpar eq_refl). rewrite (a_par_leaf a (Conn i) h eq_refl Gh).
  set (d := ostat m (Conn i)). assert (Ed : d = use_of (scopes st) (Conn i)) by apply Lo.
  (* without transfer: the peer scope *)
  assert (Plain : forall al, ci_allow ci = al ->
            (if ci_allow ci then match ci_ep ci with Some ip => allowed_peer c q ip | None => false end = true
             else edges_of (scopes st) (Conn i) <> []) ->
            existsb (fun t => would_exceed c a m t d 255 true) [Peer q] = true).
  { intros al Ea Hc. pose proof (set_peer_eq c st i q ci Gci Epe Hc) as Eq. cbv zeta in Eq.
    destruct (attach1 c (scopes st) (Conn i) (Peer q) (tr_of (ci_allow ci)) [Peer q; sys_of (ci_allow ci)]) as [m' e] eqn:At.
    rewrite Eq in C. cbn [snd] in C. destruct (ecode_one e C) as (e0 & -> & Ec).
    apply (just_chain c a m _ _ 255 true (Peer q) Lu); [left; reflexivity | reflexivity|]. rewrite Ed.
    apply (attach1_just c (scopes st) a (Conn i) (Peer q) _ _ m' e0 LO I eq_refl At Ec). }
  (* with transfer: system, transient or the peer scope *)
  assert (Trans : forall ciT,
            ((ci_allow ci = true /\ match ci_ep ci with Some ip => allowed_peer c q ip | None => false end = false /\
              ciT = mkCinfo (ci_in ci) (ci_fd ci) false None (ci_ip ci) (ci_ep ci)) \/
             (ci_allow ci = false /\ edges_of (scopes st) (Conn i) = [] /\ ciT = ci)) ->
            ~ In System (h_par h) -> ~ In Transient (h_par h) -> ~ In (Peer q) (h_par h) -> ~ In (Conn i) (h_par h) ->
            existsb (fun t => would_exceed c a m t d 255 true) [System; Transient; Peer q] = true).
  { intros ciT HcT Ns Nt Np Nc. rewrite (set_peer_eqT c st i q ci ciT Gci Epe HcT) in C.
    destruct (moved_fields a i ac h [] Gh) as (E1 & _). destruct (moved_fields a i ac h [System; Transient] Gh) as (S1 & _).
    pose proof (transfer_inv c (scopes st) a (moved_state a i ac []) (moved_state a i ac [System; Transient]) i h LO I Gh E1 S1 Ov) as T.
    pose proof (transfer_just c (scopes st) a (moved_state a i ac []) i h) as TJ.
    destruct (transfer_allowed (scopes st) i) as [mt e]. destruct T as (Keep & T).
    destruct e as [e|].
    - cbn [snd] in C. destruct (TJ mt e LO I Gh E1 Ns Nt Ov eq_refl C) as [X|X].
      + apply (just_chain c a m _ _ 255 true System Lu); [left; reflexivity | reflexivity | rewrite Ed; exact X].
      + apply (just_chain c a m _ _ 255 true Transient Lu); [right; left; reflexivity | reflexivity | rewrite Ed; exact X].
    - destruct T as (IS & _).
      destruct (attach1 c mt (Conn i) (Peer q) Transient [Peer q; System]) as [m' e2] eqn:At. cbn [snd] in C.
      destruct (ecode_one e2 C) as (e0 & -> & Ec).
      pose proof (attach1_just c mt _ (Conn i) (Peer q) _ _ m' e0 LO IS eq_refl At Ec) as X. unfold exc in X.
      apply (just_chain c a m _ _ 255 true (Peer q) Lu); [right; right; left; reflexivity | reflexivity|].
      rewrite Ed, <- (Keep (Conn i) ltac:(discriminate) ltac:(discriminate) Nc).
      rewrite <- (I_num c _ a I (Peer q)), <- (Keep (Peer q) ltac:(discriminate) ltac:(discriminate) Np), (I_num c mt _ IS (Peer q)). exact X. }
  destruct (I_handle c _ a I (Conn i) h Gh eq_refl) as (sc & Gm & _ & _ & Pe & _). cbn [leaf] in Pe.
  assert (Ee : edges_of (scopes st) (Conn i) = h_par h) by (unfold edges_of; rewrite Gm; exact Pe).
  fold d.
  destruct (ac_allow ac) eqn:Al.
  - destruct Hpar as [Hp|(X & _)]; [|discriminate]. cbn [conn_par] in Hp.
    destruct (ep_allowed_peer c q (ac_ep ac)) eqn:Aq; cbn [andb negb orb].
    + rewrite Hp. cbn [forallb]. rewrite andb_true_r. apply (Plain true); [congruence|]. rewrite Eal, Eep. exact Aq.
    + cbn [forallb]. rewrite andb_true_r. apply (Trans (mkCinfo (ci_in ci) (ci_fd ci) false None (ci_ip ci) (ci_ep ci))).
      * left. split; [congruence|]. split; [rewrite Eep; exact Aq | reflexivity].
      * rewrite Hp. cbn. intuition discriminate.
      * rewrite Hp. cbn. intuition discriminate.
      * rewrite Hp. cbn. intuition discriminate.
      * rewrite Hp. cbn. intuition discriminate.
  - cbn [andb orb]. destruct Hpar as [Hp|(_ & [Hp|Hp])]; cbn [conn_par] in Hp; rewrite Hp; cbn [forallb]; rewrite andb_true_r.
    + apply (Plain false); [congruence|]. rewrite Eal, Ee, Hp. discriminate.
    + apply (Trans ci); try (rewrite Hp; cbn; tauto). right. split; [congruence|]. split; [rewrite Ee; exact Hp | reflexivity].
    + apply (Plain false); [congruence|]. rewrite Eal, Ee, Hp. discriminate.
Qed.

(* ---- every operation ------------------------------------------------------------------------------------ *)
Theorem just_step : forall c st a m o, cfg_ok c -> InvL c st a -> (forall x, ostat m x = use_of (scopes st) x) ->
  match o with OGC => True | _ => wf_op2 c st a o end ->
  snd (step c st o) = 1 -> refusal_justified c a m o = true.
Proof.
  intros c st a m o LO [I L] Lo Wf C. destruct o; cbn [wf_op2 wf_op step] in *; try reflexivity.
  - apply (open_conn_just c st a m i inb usefd ep LO I Wf Lo C).
  - destruct Wf as ((ac & Ga) & Ov). apply (set_peer_just c st a m i q ac LO I L Ga Ov Lo C).
  - apply (open_stream_just c st a m j q inb LO I Wf Lo C).
  - destruct Wf as ((s & Gs) & Ov). apply (set_proto_just c st a m j p s LO I L Gs Ov Lo C).
  - destruct Wf as ((s0 & Gs) & Ov). apply (set_svc_just c st a m j s s0 LO I L Gs Ov Lo C).
  - destruct Wf as (Hp & Hsz & V & Hh & Ov). apply (reserve_just c st a m t sz prio LO I Hp Hsz V Hh Ov Lo C).
Qed.

(* C03 — the model refuses only through the limit checks and always with the
   resource-limit sentinel, except where a closed scope or a caller error
   explains another answer (Spec.answer_ok).  Part 1: lists of open scopes,
   closed owners, new connection / stream scopes. *)
From Coq Require Import List ZArith Bool Arith Lia.
From Verif Require Import lib.Wire c03.Int64 c03.Model c03.Spec c03.Proofs_Int64 c03.Proofs_Base
     c03.Proofs_Sum c03.Proofs_Reach c03.Proofs_Link c03.Proofs_Targets c03.Proofs_Frames c03.Proofs_Frames2
     c03.Proofs_Frames3 c03.Proofs_Kill c03.Proofs_OpsMem c03.Proofs_Done c03.Proofs_OpsDone c03.Proofs_OpsNew
     c03.Proofs_OpsOpen c03.Proofs_Hist c03.Proofs_Link2 c03.Proofs_Just.
Import ListNotations.
Local Open Scope Z_scope.

Lemma charge_one_live_code : forall x k m e, kind_ok k -> all_good m -> is_done m x = false ->
  charge_one x k m = inr e -> e = ELimit.
Proof.
  intros x k m e Hk Gd D C. destruct (charge_one_refused x k m e Hk Gd C) as [[D' _]|[E _]]; [congruence | exact E].
Qed.

Lemma charge_list_live_code : forall l ch k m m' e, kind_ok k -> all_good m -> NoDup l ->
  (forall t, In t l -> mem (use_of m t) + mem (kdelta k) <= max_int64) -> all_live m l ->
  charge_list l ch k m = (m', Some e) -> e = ELimit.
Proof.
  intros l ch k m m' e Hk Gd Nd Ov Lv C.
  destruct (charge_list_refused l ch k m m' e Hk Gd Nd Ov C) as (p & x & q & El & _ & [[D _]|[E _]]); [|exact E].
  rewrite (Lv x) in D; [discriminate|]. rewrite El. apply in_or_app. right. left. reflexivity.
Qed.

(* the first closed scope met by a reservation is the scope itself or one of its owners *)
Lemma targets_closed : forall c m a t, Inv c m a -> known m a t ->
  forall p x q, targets m t = p ++ x :: q -> all_live m p -> is_done m x = true -> closed_owner a t = true.
Proof.
  intros c m a t I. pose proof (I_wf c m a I) as W. pattern t. apply (chain_ind a); [exact W| |]; clear t.
  - intros t E Kn p x q Et Lp Dx. unfold closed_owner. rewrite E. cbn [existsb]. rewrite orb_false_r.
    assert (K : holder_if_handle a t) by (intros Hh; unfold known in Kn; rewrite Hh in Kn; exact Kn).
    rewrite targets_root in Et by (rewrite (chain_of_link c m a t I K); exact E).
    destruct p as [|y p']; cbn in Et; inversion Et; subst.
    + rewrite <- (done_link c m a x I Kn). exact Dx.
    + exfalso. assert (Lt : is_done m y = false) by (apply Lp; left; reflexivity).
      assert (Hs : is_span y = false).
      { destruct y; try reflexivity. exfalso. specialize (K eq_refl).
        destruct (hget (holders a) (Span k)) as [h|] eqn:G; [|apply K; reflexivity].
        destruct (W_span a W _ h G eq_refl) as (o & Eo & _). unfold a_chain in E. rewrite G in E. rewrite E in Eo. discriminate. }
      assert (Da : a_dead a y = false) by (rewrite <- (done_link c m a y I Kn); exact Lt).
      assert (Hx : In x (areach a y)).
      { rewrite (areach_root a y E), Da. right. rewrite <- (edges_link c m a y I Kn Hs), H1. apply in_or_app. right. left. reflexivity. }
      rewrite (reach_live c m a y I Kn x Hx) in Dx. discriminate.
  - intros t o Hsp E N IH Kn p x q Et Lp Dx.
    assert (Kh : hget (holders a) t <> None) by (unfold known in Kn; destruct t; try discriminate; exact Kn).
    assert (Ko : holder_if_handle a o).
    { intros Ho. destruct (hget (holders a) t) as [h|] eqn:G; [|contradiction].
      destruct (W_span a W t h G Hsp) as (o' & E' & Kn' & _).
      unfold a_chain in E at 1. rewrite G in E. rewrite E in E'. inversion E'; subst o'. apply Kn', Ho. }
    assert (Em : chain_of m t = o :: chain_of m o).
    { rewrite (chain_of_link c m a t I (fun _ => Kh)), (chain_of_link c m a o I Ko). exact E. }
    rewrite (targets_span m t o Em) in Et. unfold closed_owner. rewrite E. cbn [existsb].
    destruct p as [|y p']; cbn in Et; inversion Et; subst.
    + rewrite <- (done_link c m a x I Kn), Dx. reflexivity.
    + assert (Da : a_dead a y = false) by (rewrite <- (done_link c m a y I Kn); apply Lp; left; reflexivity).
      pose proof (owner_known c m a y o I Kh E Da) as Kno.
      pose proof (IH Kno p' x q H1 (fun z Hz => Lp z (or_intror Hz)) Dx) as Co. unfold closed_owner in Co.
      rewrite Co. apply orb_true_r.
Qed.

(* a new connection / stream scope: every scope its first reservation visits is open *)
Lemma open_leaf_code : forall c mb m2 a s E lim r k m3 e,
  cfg_ok c -> Inv c mb a -> leaf s = true -> hget (holders a) s = None ->
  NoDup E -> (forall q, In q E -> is_handle q = false /\ get mb q <> None) -> lim = limit_of c s ->
  (forall y, y <> s -> shape_of m2 y = shape_of mb y /\ use_of m2 y = use_of mb y) ->
  get m2 s = Some (mkScope lim stat0 false r [] E) ->
  kind_ok k -> mem (kdelta k) = 0 ->
  scope_reserve m2 s k = (m3, Some e) -> e = ELimit.
Proof.
  intros c mb m2 a s E lim r k m3 e LO I Hl Hf Nd HE Elim Oth Gs Hk Hz C.
  assert (Gd2 : all_good m2).
  { intros y sc G. destruct (sid_dec y s) as [->|Hne].
    - rewrite Gs in G. inversion G; subst sc. split; [cbn; rewrite Elim; apply LO|]. cbn.
      pose proof (LO s) as (H1 & H2 & H3 & H4 & H5 & H6 & H7 & H8). rewrite Elim.
      split; [stat_crush | unfold fits; cbn; repeat split; lia].
    - destruct (Oth y Hne) as [Sy Uy]. unfold shape_of in Sy. rewrite G in Sy.
      destruct (get mb y) as [sc0|] eqn:G0; cbn in Sy; [|discriminate]. unfold shape in Sy. inversion Sy as [[E1 E2 E3 E4]].
      destruct (I_good c mb a I y sc0 G0) as (L & N & F).
      rewrite (use_of_get m2 y sc G), (use_of_get mb y sc0 G0) in Uy. split; [rewrite E1; exact L | rewrite Uy, E1; split; assumption]. }
  unfold scope_reserve in C.
  assert (Et : targets m2 s = s :: E).
  { rewrite targets_root; [unfold edges_of; rewrite Gs; reflexivity | unfold chain_of; rewrite Gs; reflexivity]. }
  rewrite Et in C.
  assert (Ns : ~ In s E) by (intros X; apply HE in X; destruct X as [X _]; destruct s; discriminate).
  apply (charge_list_live_code (s :: E) [] k m2 m3 e Hk Gd2); try assumption.
  - constructor; assumption.
  - intros t _. rewrite Hz. pose proof (use_mem_le m2 t Gd2). lia.
  - intros t [<-|Ht]; [unfold is_done; rewrite Gs; reflexivity|].
    destruct (HE t Ht) as [Hh Pt]. assert (Hne : t <> s) by (intros ->; contradiction).
    destruct (Oth t Hne) as [St _]. rewrite (is_done_shape m2 mb t St). unfold is_done.
    destruct (get mb t) as [sc|] eqn:G; [|contradiction]. apply (I_static c mb a I t sc G Hh).
Qed.

(* ---- Part 2: OpenStream, OpenConnection ---------------------------------------------------------- *)
Lemma ecode_limit : ecode (Some ELimit) = 1.
Proof. reflexivity. Qed.

Theorem open_stream_code : forall c st a j q inb,
  cfg_ok c -> Inv c (scopes st) a -> hget (holders a) (Stream j) = None ->
  snd (open_stream c st j q inb) = 0 \/ snd (open_stream c st j q inb) = 1.
Proof.
  intros c st a j q inb LO I Hf. unfold open_stream.
  set (E := [Peer q; Transient; System]).
  set (m0 := get_scope c (scopes st) (Peer q)).
  assert (E0 : extends c (scopes st) m0) by (apply extends_get_scope; [reflexivity | apply (I_base c _ a I)]).
  set (mb := increfs m0 E).
  assert (Eb : extends c (scopes st) mb) by (apply (extends_trans c _ m0); [exact E0 | apply extends_increfs]).
  assert (Ib : Inv c mb a) by (apply (Inv_extends c _ mb a LO I Eb)).
  unfold new_scope. fold mb.
  set (sc0 := mkScope (lim_stream c) stat0 false 0 [] E).
  set (m2 := decref (set mb (Stream j) sc0) (Peer q)).
  assert (HE : forall x, In x E -> is_handle x = false /\ get mb x <> None).
  { destruct (I_base c _ a I) as (B1 & B2 & _). intros x [<-|[<-|[<-|[]]]]; (split; [reflexivity|]).
    - apply (extends_present c m0 mb _ (extends_increfs c m0 E)), get_scope_present.
    - apply (extends_present c _ mb _ Eb B2).
    - apply (extends_present c _ mb _ Eb B1). }
  assert (Oth : forall y, y <> Stream j -> shape_of m2 y = shape_of mb y /\ use_of m2 y = use_of mb y).
  { intros y Hne. unfold m2. rewrite decref_shape, decref_use. unfold shape_of, use_of.
    rewrite get_set_other by congruence. split; reflexivity. }
  assert (Gs : get m2 (Stream j) = Some sc0).
  { unfold m2, decref. rewrite get_upd. cbn [sid_eqb]. apply get_set_same. }
  destruct (scope_reserve m2 (Stream j) (KStream inb)) as [m3 e] eqn:C. destruct e as [e|]; cbn [snd]; [|left; reflexivity].
  right. rewrite (open_leaf_code c mb m2 a (Stream j) E (lim_stream c) 0 (KStream inb) m3 e LO Ib eq_refl Hf
                   ltac:(repeat constructor; cbn; intuition discriminate) HE eq_refl Oth Gs Logic.I (stream_vec_mem inb) C).
  reflexivity.
Qed.

Theorem open_conn_code : forall c st a i inb usefd ep,
  cfg_ok c -> Inv c (scopes st) a -> hget (holders a) (Conn i) = None ->
  let '(st', cls) := open_conn c st i inb usefd ep in
  cls = 0 \/ cls = 1 \/ (cls = 4 /\ exists ip, ep = Some ip /\ limiter_add c (lims st) ip = None).
Proof.
  intros c st a i inb usefd ep LO I Hf. unfold open_conn.
  destruct (match ep with Some a0 => match limiter_add c (lims st) a0 with Some l => Some l | None => None end
                        | None => Some (lims st) end) as [l|] eqn:El.
  2:{ right. right. split; [reflexivity|]. destruct ep as [a0|]; [|discriminate].
      destruct (limiter_add c (lims st) a0) eqn:LA; [discriminate|]. exists a0. split; [reflexivity | exact LA]. }
  destruct (I_base c _ a I) as (B1 & B2 & B3 & B4).
  unfold new_scope at 1.
  set (mb := increfs (scopes st) [Transient; System]).
  assert (Eb : extends c (scopes st) mb) by apply extends_increfs.
  assert (Ib : Inv c mb a) by (apply (Inv_extends c _ mb a LO I Eb)).
  set (sc0 := mkScope (lim_conn c) stat0 false 0 [] [Transient; System]).
  set (k := KConn inb usefd).
  pose proof (open_leaf c mb (set mb (Conn i) sc0) a
                (mkAstate (hset (holders a) (Conn i) (mkHolder (conn_vec inb usefd) (conn_par false) [] false))
                          (nset (aconns a) i (mkAconn ep false None true false)) (astreams a))
                (Conn i) [Transient; System] (lim_conn c) 0 k LO Ib eq_refl Hf) as H.
  assert (Nd1 : NoDup [Transient; System]) by (repeat constructor; cbn; intuition discriminate).
  assert (HE1 : forall x, In x [Transient; System] -> is_handle x = false /\ get mb x <> None).
  { intros x [<-|[<-|[]]]; (split; [reflexivity|]); [apply (extends_present c _ mb _ Eb B2) | apply (extends_present c _ mb _ Eb B1)]. }
  assert (Oth1 : forall y, y <> Conn i -> shape_of (set mb (Conn i) sc0) y = shape_of mb y /\ use_of (set mb (Conn i) sc0) y = use_of mb y).
  { intros y Hne; unfold shape_of, use_of; rewrite get_set_other by congruence; split; reflexivity. }
  specialize (H Nd1 HE1 eq_refl Oth1 (get_set_same mb (Conn i) sc0) Logic.I (conn_vec_mem inb usefd) eq_refl).
  destruct (scope_reserve (set mb (Conn i) sc0) (Conn i) k) as [m1 e1] eqn:C1.
  destruct e1 as [e1|]; [|left; reflexivity].
  pose proof (open_leaf_code c mb _ a (Conn i) _ (lim_conn c) 0 k m1 e1 LO Ib eq_refl Hf Nd1 HE1 eq_refl Oth1
                (get_set_same mb (Conn i) sc0) Logic.I (conn_vec_mem inb usefd) C1) as ->.
  destruct (match ep with Some a0 => allowed c a0 | None => false end).
  2:{ right. left. reflexivity. }
  cbn [scopes conns streams lims with_scopes].
  set (md := scope_done m1 (Conn i)) in *. unfold new_scope.
  set (sc1 := mkScope (lim_conn c) stat0 false 0 [] [ATransient; ASystem]).
  set (m3 := set (increfs (remove md (Conn i)) [ATransient; ASystem]) (Conn i) sc1).
  destruct (I_base c md a H) as (D1 & D2 & D3 & D4).
  assert (Oth : forall y, y <> Conn i -> shape_of m3 y = shape_of md y /\ use_of m3 y = use_of md y).
  { intros y Hne. unfold m3. split.
    - unfold shape_of at 1. rewrite get_set_other by congruence. fold (shape_of (increfs (remove md (Conn i)) [ATransient; ASystem]) y).
      rewrite increfs_shape. unfold shape_of. rewrite get_remove_other by exact Hne. reflexivity.
    - unfold use_of at 1. rewrite get_set_other by congruence. fold (use_of (increfs (remove md (Conn i)) [ATransient; ASystem]) y).
      rewrite increfs_use. unfold use_of. rewrite get_remove_other by exact Hne. reflexivity. }
  destruct (scope_reserve m3 (Conn i) k) as [m4 e4] eqn:C4. destruct e4 as [e4|]; [|left; reflexivity].
  right. left.
  rewrite (open_leaf_code c md m3 a (Conn i) [ATransient; ASystem] (lim_conn c) 0 k m4 e4 LO H eq_refl Hf
             ltac:(repeat constructor; cbn; intuition discriminate)
             ltac:(intros x [<-|[<-|[]]]; (split; [reflexivity | assumption])) eq_refl Oth (get_set_same _ (Conn i) sc1)
             Logic.I (conn_vec_mem inb usefd) C4).
  reflexivity.
Qed.

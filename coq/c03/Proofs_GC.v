(* C03 — gc(): deleting the protocol / peer scopes that IsUnused (no reference,
   all six counters zero since fix 4443cff) and the per-peer sub-scopes that go
   with them preserves the simulation invariant: no open holder points at a
   deleted scope, so no sum changes. *)
From Coq Require Import List ZArith Bool Arith Lia.
From Verif Require Import lib.Wire c03.Int64 c03.Model c03.Spec c03.Proofs_Int64 c03.Proofs_Base
     c03.Proofs_Sum c03.Proofs_Reach c03.Proofs_Link c03.Proofs_Targets c03.Proofs_Frames c03.Proofs_Frames2
     c03.Proofs_Frames3 c03.Proofs_Kill c03.Proofs_OpsMem c03.Proofs_Done c03.Proofs_OpsDone c03.Proofs_OpsNew
     c03.Proofs_OpsOpen c03.Proofs_Hist c03.Proofs_Mon c03.Proofs_Repar c03.Proofs_Repar2 c03.Proofs_Move c03.Proofs_Attach
     c03.Proofs_Attach1 c03.Proofs_Link2 c03.Proofs_Transfer c03.Proofs_OpsRepar
     c03.Proofs_SetPeer c03.Proofs_Hist2 c03.Proofs_Mon2 c03.Proofs_Keys c03.Proofs_Refs c03.Proofs_RefInv.
Import ListNotations.
Local Open Scope Z_scope.

Lemma in_get : forall m t sc, nd m -> In (t, sc) m -> get m t = Some sc.
Proof.
  unfold nd. induction m as [|[y s0] r IH]; intros t sc Hn Hi; [destruct Hi|]. cbn in *. inversion Hn; subst.
  destruct Hi as [Hi|Hi].
  - inversion Hi; subst. rewrite sid_eqb_refl. reflexivity.
  - destruct (sid_eqb y t) eqn:E; [|apply IH; assumption]. apply sid_eqb_eq in E. subst y.
    exfalso. apply H1. apply (in_map fst) in Hi. exact Hi.
Qed.

Lemma get_in : forall m t sc, get m t = Some sc -> In (t, sc) m.
Proof.
  induction m as [|[y s0] r IH]; intros t sc G; cbn in *; [discriminate|].
  destruct (sid_eqb y t) eqn:E; [apply sid_eqb_eq in E; inversion G; subst; left; reflexivity | right; apply IH, G].
Qed.

(* a scope IsUnused and is not done: no reference, nothing charged *)
Lemma unused_open : forall sc, is_unused sc = true -> s_done sc = false -> s_ref sc <= 0 /\ s_use sc = stat0.
Proof.
  intros sc U D. unfold is_unused in U. rewrite D in U. destruct (s_ref sc >? 0) eqn:R; [discriminate|].
  split; [rewrite Z.gtb_ltb in R; apply Z.ltb_ge in R; exact R|].
  repeat (apply andb_true_iff in U; destruct U as [U ?]).
  repeat match goal with X : (_ =? _) = true |- _ => apply Z.eqb_eq in X end.
  destruct (s_use sc); cbn in *. subst. reflexivity.
Qed.

Lemma good_transfer : forall m m' y sc', all_good m -> shape_of m' y = shape_of m y -> use_of m' y = use_of m y ->
  get m' y = Some sc' -> good sc'.
Proof.
  intros m m' y sc' Gd S U G'. unfold shape_of in S. rewrite G' in S. destruct (get m y) as [sc|] eqn:G; cbn in S; [|discriminate].
  destruct (Gd y sc G) as (L & N & F). rewrite (use_of_get m' y sc' G'), (use_of_get m y sc G) in U.
  unfold shape in S. inversion S as [[S1 S2 S3 S4]]. split; [rewrite S1; exact L | rewrite U, S1; split; assumption].
Qed.

(* what one "Done + delete" of an unused protocol / peer scope does *)
Definition dead_ok (m : smap) (t : sid) : Prop :=
  is_gct t = true /\ exists sc, get m t = Some sc /\ s_done sc = false /\ s_chain sc = [] /\ s_edges sc = [System] /\ s_use sc = stat0.

Definition kept (m m' : smap) (y : sid) : Prop :=
  shape_of m' y = shape_of m y /\ use_of m' y = use_of m y /\ (is_gct y = true -> refz m' y = refz m y).

Lemma gc_one : forall m t, nd m -> all_good m -> dead_ok m t ->
  let m' := remove (scope_done m t) t in
  nd m' /\ all_good m' /\ get m' t = None /\ (forall y, y <> t -> kept m m' y).
Proof.
  intros m t Hn Gd (Ht & sc & G & D & Ec & Ee & Eu) m'.
  destruct (scope_done_zero m t sc Gd G D Ec Eu) as [Oth _].
  assert (Hn1 : nd (scope_done m t)) by (apply nd_scope_done, Hn).
  assert (K : forall y, y <> t -> kept m m' y).
  { intros y Hne. unfold kept, m', shape_of, use_of, refz. rewrite (get_remove_neq _ t y Hne).
    destruct (Oth y Hne) as [S U]. split; [exact S|]. split; [exact U|]. intros Hy.
    pose proof (refz_scope_done_ge m t y ltac:(congruence)) as H1. pose proof (refz_scope_done_le m t y ltac:(congruence)) as H2.
    unfold is_done, edges_of, chain_of in H1. rewrite G, D, Ec, Ee in H1. cbn [hdc countb] in H1.
    assert (X : sid_eqb System y = false) by (apply sid_eqb_neq, gct_neq; [exact Hy | reflexivity]). rewrite X in H1.
    unfold refz in *. lia. }
  assert (Gt : get m' t = None) by (apply get_remove_same, Hn1).
  split; [apply nd_remove, Hn1|]. split; [|split; assumption].
  intros y sc' Gy. destruct (sid_dec y t) as [->|Hne]; [congruence|].
  destruct (K y Hne) as (S & U & _). apply (good_transfer m m' y sc' Gd S U Gy).
Qed.

Lemma gc_fold : forall l m, nd m -> all_good m -> NoDup l -> (forall t, In t l -> dead_ok m t) ->
  let m' := fold_left (fun m t => remove (scope_done m t) t) l m in
  nd m' /\ all_good m' /\ (forall y, In y l -> get m' y = None) /\ (forall y, ~ In y l -> kept m m' y).
Proof.
  induction l as [|t r IH]; intros m Hn Gd Nd Hd; cbn [fold_left].
  - split; [exact Hn|]. split; [exact Gd|]. split; [intros y []|]. intros y _. repeat split; reflexivity.
  - inversion Nd as [|? ? Nt Nr]; subst.
    destruct (gc_one m t Hn Gd (Hd t (or_introl eq_refl))) as (Hn1 & Gd1 & Gt & K1). cbv zeta in *.
    set (m1 := remove (scope_done m t) t) in *.
    assert (Hd1 : forall t', In t' r -> dead_ok m1 t').
    { intros t' Ht'. destruct (Hd t' (or_intror Ht')) as (Hg & sc & G & D & Ec & Ee & Eu). split; [exact Hg|].
      assert (Hne : t' <> t) by (intros ->; contradiction).
      destruct (K1 t' Hne) as (S & U & _). unfold shape_of in S. rewrite G in S.
      destruct (get m1 t') as [sc1|] eqn:G1; cbn in S; [|discriminate]. exists sc1. split; [reflexivity|].
      unfold shape in S. inversion S as [[S1 S2 S3 S4]]. rewrite S2, S3, S4.
      rewrite (use_of_get m1 t' sc1 G1), (use_of_get m t' sc G) in U. rewrite U. repeat split; assumption. }
    destruct (IH m1 Hn1 Gd1 Nr Hd1) as (Hn2 & Gd2 & Del & K2). cbv zeta in *.
    split; [exact Hn2|]. split; [exact Gd2|]. split.
    + intros y [<-|Hy]; [|apply Del, Hy].
      destruct (K2 t Nt) as (S & _). unfold shape_of in S. rewrite Gt in S.
      destruct (get (fold_left _ r m1) t); [discriminate | reflexivity].
    + intros y Hy. assert (Hne : y <> t) by (intros ->; apply Hy; left; reflexivity).
      assert (Hr : ~ In y r) by (intros X; apply Hy; right; exact X).
      destruct (K1 y Hne) as (S1 & U1 & R1). destruct (K2 y Hr) as (S2 & U2 & R2).
      split; [congruence|]. split; [congruence|]. intros Hg. rewrite (R2 Hg). apply R1, Hg.
Qed.

Definition is_sub (x : sid) : bool := match x with SvcPeer _ _ | ProtoPeer _ _ => true | _ => false end.

(* a per-peer sub-scope in the charged set of a holder is the holder's own key,
   the owner of an open span, or a parent of an open connection / stream *)
Lemma reach_sub_src : forall a z x, WfA a -> is_sub x = true -> In x (areach a z) ->
  x = z \/ exists r h, hget (holders a) r = Some h /\ h_dead h = false /\
                       ((leaf r = true /\ In x (h_par h)) \/ hd_error (h_chain h) = Some x).
Proof.
  intros a z x W Hx. pattern z. apply (chain_ind a); [exact W| |]; clear z.
  - intros z E H. rewrite (areach_root a z E) in H. destruct (a_dead a z) eqn:D; [destruct H|].
    destruct H as [<-|H]; [left; reflexivity|]. right. unfold a_par in H.
    destruct z; try (cbn in H; exfalso; destruct x; try discriminate; intuition discriminate).
    + destruct (hget (holders a) (Conn i)) as [h|] eqn:G; [|destruct H]. exists (Conn i), h. split; [exact G|].
      split; [unfold a_dead in D; rewrite G in D; exact D|]. left. split; [reflexivity | exact H].
    + destruct (hget (holders a) (Stream j)) as [h|] eqn:G; [|destruct H]. exists (Stream j), h. split; [exact G|].
      split; [unfold a_dead in D; rewrite G in D; exact D|]. left. split; [reflexivity | exact H].
  - intros z o Hsp E N IH H. rewrite (areach_span a z o E) in H. destruct (a_dead a z) eqn:D; [destruct H|].
    destruct H as [<-|H]; [left; reflexivity|]. destruct (IH H) as [->|R]; [|right; exact R].
    right. unfold a_chain in E at 1. unfold a_dead in D. destruct (hget (holders a) z) as [h|] eqn:G; [|discriminate].
    exists z, h. split; [exact G|]. split; [exact D|]. right. rewrite E. reflexivity.
Qed.

Lemma existsb_sid : forall x l, existsb (sid_eqb x) l = true <-> In x l.
Proof.
  intros x l. rewrite existsb_exists. split.
  - intros (y & Hy & E). apply sid_eqb_eq in E. subst y. exact Hy.
  - intros H. exists x. split; [exact H | apply sid_eqb_refl].
Qed.

Lemma existsb_sid_false : forall x l, ~ In x l -> existsb (sid_eqb x) l = false.
Proof. intros x l H. destruct (existsb (sid_eqb x) l) eqn:E; [apply existsb_sid in E; contradiction | reflexivity]. Qed.

Lemma sumc_zero_counts : forall R H y, (forall z, In z (map fst H) -> countb y (R z) = 0) -> sumc R H y = stat0.
Proof.
  induction H as [|[z h] r IH]; intros y Hz; [apply sumc_nil|]. rewrite sumc_cons, (Hz z (or_introl eq_refl)), stat_scale_0, stat_add_0_l.
  apply IH. intros w Hw. apply Hz. right. exact Hw.
Qed.

(* an open connection / stream holds a reference on each of its parents, an open span on its owner *)
Lemma nrefs_par_pos : forall a z h p, hget (holders a) z = Some h -> h_dead h = false -> leaf z = true -> In p (h_par h) ->
  1 <= nrefs a p.
Proof.
  intros a z h p G D L Hp. pose proof (nrefsl_ge_term (holders a) z h p G) as T. unfold hrefs in T. rewrite D, L in T.
  pose proof (countb_in_pos p (h_par h) Hp). pose proof (hdc_nonneg p (h_chain h)). unfold nrefs. lia.
Qed.

Lemma nrefs_head_pos : forall a z h o, hget (holders a) z = Some h -> h_dead h = false -> hd_error (h_chain h) = Some o ->
  1 <= nrefs a o.
Proof.
  intros a z h o G D Ho. pose proof (nrefsl_ge_term (holders a) z h o G) as T. unfold hrefs in T. rewrite D in T.
  destruct (h_chain h) as [|o' r]; [discriminate|]. inversion Ho; subst o'. cbn [hdc] in T. rewrite sid_eqb_refl in T.
  assert (0 <= (if leaf z then countb o (h_par h) else 0)) by (destruct (leaf z); [apply countb_nonneg | lia]). unfold nrefs. lia.
Qed.

Section GC.
  Variables (c : config) (st : state) (a : astate).
  Hypothesis LO : cfg_ok c.
  Hypothesis I : Inv c (scopes st) a.
  Hypothesis Hn : nd (scopes st).
  Hypothesis R : RefInv (scopes st) a.
  Hypothesis A : AShape a.

  Let m := scopes st.
  Let W := I_wf c m a I.
  Let dp := unused_of m is_proto.
  Let m1 := fold_left (fun m t => remove (scope_done m t) t) dp m.
  Let dq := unused_of m1 is_peer.
  Let m2 := fold_left (fun m t => remove (scope_done m t) t) dq m1.
  Let keep := fun e : sid * scope => negb (sub_of_dead dp dq (fst e)).
  Let m3 := filter keep m2.

  Lemma gc_scopes : scopes (gc st) = m3.
  Proof. reflexivity. Qed.

  Lemma unused_in : forall mm f t, nd mm -> In t (unused_of mm f) ->
    f t = true /\ exists sc, get mm t = Some sc /\ is_unused sc = true.
  Proof.
    intros mm f t Hm Hi. unfold unused_of in Hi. apply in_map_iff in Hi. destruct Hi as ([y sc] & E & Hf). cbn in E. subst y.
    apply filter_In in Hf. destruct Hf as [Hin Hb]. cbn in Hb. apply andb_true_iff in Hb. destruct Hb as [B1 B2].
    split; [exact B1|]. exists sc. split; [apply in_get; assumption | exact B2].
  Qed.

  Lemma unused_nodup : forall mm f, nd mm -> NoDup (unused_of mm f).
  Proof. intros mm f Hm. unfold unused_of. apply (nd_filter _ mm Hm). Qed.

  (* the protocol scopes gc deletes *)
  Lemma dp_ok : forall t, In t dp -> dead_ok m t /\ nrefs a t = 0 /\ use_of m t = stat0.
  Proof.
    intros t Ht. destruct (unused_in m is_proto t Hn Ht) as (Pt & sc & G & U).
    assert (Hg : is_gct t = true) by (destruct t; try discriminate; reflexivity).
    assert (Hh : is_handle t = false) by (destruct t; try discriminate; reflexivity).
    destruct (I_static c m a I t sc G Hh) as (D & Ec & Ee & _).
    destruct (unused_open sc U D) as (Rf & Eu).
    split; [|split].
    - split; [exact Hg|]. exists sc. repeat split; try assumption. rewrite Ee. destruct t; try discriminate; reflexivity.
    - pose proof (R t Hg) as Rt. unfold refz in Rt. fold m in Rt. rewrite G in Rt. pose proof (nrefsl_nonneg (holders a) t). unfold nrefs in *. lia.
    - unfold use_of. rewrite G. exact Eu.
  Qed.

  Lemma fold1 : nd m1 /\ all_good m1 /\ (forall y, In y dp -> get m1 y = None) /\ (forall y, ~ In y dp -> kept m m1 y).
  Proof. apply (gc_fold dp m Hn (I_good c m a I) (unused_nodup m is_proto Hn)). intros t Ht. apply (dp_ok t Ht). Qed.

  (* the peer scopes gc deletes *)
  Lemma dq_ok : forall t, In t dq -> dead_ok m1 t /\ nrefs a t = 0 /\ use_of m t = stat0 /\ ~ In t dp.
  Proof.
    destruct fold1 as (Hn1 & Gd1 & Del1 & K1).
    intros t Ht. destruct (unused_in m1 is_peer t Hn1 Ht) as (Pt & sc1 & G1 & U).
    assert (Hg : is_gct t = true) by (destruct t; try discriminate; reflexivity).
    assert (Hh : is_handle t = false) by (destruct t; try discriminate; reflexivity).
    assert (Np : ~ In t dp) by (intros X; rewrite (Del1 t X) in G1; discriminate).
    destruct (K1 t Np) as (S & Us & Rf). specialize (Rf Hg).
    unfold shape_of in S. rewrite G1 in S. destruct (get m t) as [sc|] eqn:G; cbn in S; [|discriminate].
    unfold shape in S. inversion S as [[S1 S2 S3 S4]].
    destruct (I_static c m a I t sc G Hh) as (D & Ec & Ee & _).
    destruct (unused_open sc1 U ltac:(congruence)) as (Rf1 & Eu1).
    split; [|split; [|split; [|exact Np]]].
    - split; [exact Hg|]. exists sc1. split; [exact G1|]. rewrite S2, S3, S4, Ee. repeat split; try assumption.
      destruct t; try discriminate; reflexivity.
    - pose proof (R t Hg) as Rt. fold m in Rt. unfold refz in Rf, Rt. rewrite G1 in Rf. rewrite G in Rf, Rt.
      pose proof (nrefsl_nonneg (holders a) t). unfold nrefs in *. lia.
    - rewrite <- Us. unfold use_of. rewrite G1. exact Eu1.
  Qed.

  Lemma fold2 : nd m2 /\ all_good m2 /\ (forall y, In y dq -> get m2 y = None) /\ (forall y, ~ In y dq -> kept m1 m2 y).
  Proof.
    destruct fold1 as (Hn1 & Gd1 & _).
    apply (gc_fold dq m1 Hn1 Gd1 (unused_nodup m1 is_peer Hn1)). intros t Ht. apply (dq_ok t Ht).
  Qed.

  Definition Del (y : sid) : Prop := In y dp \/ In y dq \/ sub_of_dead dp dq y = true.

  Lemma Del_dec : forall y, Del y \/ ~ Del y.
  Proof.
    intros y. unfold Del. destruct (in_dec sid_dec y dp) as [H1|H1]; [left; left; exact H1|].
    destruct (in_dec sid_dec y dq) as [H2|H2]; [left; right; left; exact H2|].
    destruct (sub_of_dead dp dq y) eqn:E; [left; right; right; reflexivity|]. right. intros [X|[X|X]]; [contradiction | contradiction | discriminate].
  Qed.

  Lemma get_m3 : forall y, get m3 y = match get m2 y with Some sc => if sub_of_dead dp dq y then None else Some sc | None => None end.
  Proof.
    intros y. unfold m3. rewrite (get_filter keep m2 y (proj1 fold2)). destruct (get m2 y) as [sc|]; [|reflexivity].
    unfold keep. cbn [fst]. destruct (sub_of_dead dp dq y); reflexivity.
  Qed.

  Lemma kept_get : forall y, ~ Del y -> get m3 y = get m2 y /\ kept m m2 y.
  Proof.
    intros y Nd. destruct fold1 as (_ & _ & _ & K1). destruct fold2 as (_ & _ & _ & K2).
    assert (N1 : ~ In y dp) by (intros X; apply Nd; left; exact X).
    assert (N2 : ~ In y dq) by (intros X; apply Nd; right; left; exact X).
    assert (N3 : sub_of_dead dp dq y = false) by (destruct (sub_of_dead dp dq y) eqn:E; [exfalso; apply Nd; right; right; exact E | reflexivity]).
    split; [rewrite get_m3, N3; destruct (get m2 y); reflexivity|].
    destruct (K1 y N1) as (S1 & U1 & R1). destruct (K2 y N2) as (S2 & U2 & R2).
    split; [congruence|]. split; [congruence|]. intros Hg. rewrite (R2 Hg). apply R1, Hg.
  Qed.

  Lemma del_get : forall y, Del y -> get m3 y = None.
  Proof.
    intros y [H1|[H2|H3]]; rewrite get_m3.
    - destruct fold1 as (_ & _ & D1 & _). destruct fold2 as (_ & _ & D2 & K2).
      destruct (in_dec sid_dec y dq) as [Hq|Hq]; [rewrite (D2 y Hq); reflexivity|].
      destruct (K2 y Hq) as (S & _). unfold shape_of in S. rewrite (D1 y H1) in S. destruct (get m2 y); [discriminate | reflexivity].
    - destruct fold2 as (_ & _ & D2 & _). rewrite (D2 y H2). reflexivity.
    - rewrite H3. destruct (get m2 y); reflexivity.
  Qed.

  Lemma dp_proto : forall y, In y dp -> is_proto y = true.
  Proof. intros y H. apply (unused_in m is_proto y Hn H). Qed.
  Lemma dq_peer : forall y, In y dq -> is_peer y = true.
  Proof. intros y H. apply (unused_in m1 is_peer y (proj1 fold1) H). Qed.

  Lemma del_zero : forall y, In y dp \/ In y dq -> nrefs a y = 0 /\ use_of m y = stat0.
  Proof.
    intros y [H|H]; [destruct (dp_ok y H) as (_ & N & U) | destruct (dq_ok y H) as (_ & N & U & _)]; split; assumption.
  Qed.

  Lemma sub_dead_false : forall y, (forall p q, y = ProtoPeer p q -> ~ In (Proto p) dp /\ ~ In (Peer q) dq) ->
    (forall s q, y = SvcPeer s q -> ~ In (Peer q) dq) -> sub_of_dead dp dq y = false.
  Proof.
    intros y H1 H2. destruct y; try reflexivity; cbn [sub_of_dead].
    - apply existsb_sid_false. apply (H2 s q eq_refl).
    - destruct (H1 p q eq_refl) as [X1 X2]. rewrite (existsb_sid_false _ _ X1), (existsb_sid_false _ _ X2). reflexivity.
  Qed.

  (* no open holder points at a scope gc deletes *)
  Lemma live_par_kept : forall z h p, hget (holders a) z = Some h -> h_dead h = false -> In p (a_par a z) -> ~ Del p.
  Proof.
    intros z h p G D Hp. destruct (leaf z) eqn:L.
    - rewrite (a_par_leaf a z h L G) in Hp. destruct (A z h G) as (_ & Ps & _). specialize (Ps L). destruct Ps as [Ps1 Ps2].
      assert (Pos : forall x, In x (h_par h) -> 1 <= nrefs a x) by (intros x Hx; apply (nrefs_par_pos a z h x G D L Hx)).
      assert (Nz : forall x, In x (h_par h) -> ~ (In x dp \/ In x dq)).
      { intros x Hx X. destruct (del_zero x X) as [N _]. pose proof (Pos x Hx). lia. }
      intros [X|[X|X]]; [apply (Nz p Hp); left; exact X | apply (Nz p Hp); right; exact X|].
      rewrite sub_dead_false in X; [discriminate| |].
      + intros p1 q1 ->. destruct (Ps1 p1 q1 Hp) as [I1 I2]. split; intros Y; [apply (Nz _ I1); left; exact Y | apply (Nz _ I2); right; exact Y].
      + intros s1 q1 ->. intros Y. apply (Nz _ (Ps2 s1 q1 Hp)). right. exact Y.
    - assert (Hs : In p (static_par z)).
      { unfold a_par in Hp. destruct z; try discriminate; exact Hp. }
      assert (Hb : p = System \/ p = ASystem) by (destruct z; cbn in Hs; intuition).
      intros [X|[X|X]].
      + apply dp_proto in X. destruct Hb as [->| ->]; discriminate.
      + apply dq_peer in X. destruct Hb as [->| ->]; discriminate.
      + destruct Hb as [->| ->]; discriminate.
  Qed.

  Lemma live_head_kept : forall z h o, hget (holders a) z = Some h -> h_dead h = false -> hd_error (h_chain h) = Some o -> ~ Del o.
  Proof.
    intros z h o G D Ho. pose proof (nrefs_head_pos a z h o G D Ho) as Pos.
    destruct (A z h G) as (_ & _ & Vo). specialize (Vo o Ho).
    intros [X|[X|X]].
    - destruct (del_zero o (or_introl X)) as [N _]. lia.
    - destruct (del_zero o (or_intror X)) as [N _]. lia.
    - destruct o; try discriminate.
  Qed.

  Lemma keys_hget : forall H z, In z (map fst H) -> exists h, hget H z = Some h.
  Proof.
    induction H as [|[y h0] r IH]; intros z Hz; [destruct Hz|]. cbn in *. destruct (sid_eqb y z) eqn:E; [exists h0; reflexivity|].
    destruct Hz as [->|Hz]; [rewrite sid_eqb_refl in E; discriminate | apply IH, Hz].
  Qed.

  Lemma del_usage_zero : forall y, Del y -> usage_A a y = stat0.
  Proof.
    intros y Dy. destruct (in_dec sid_dec y dp) as [H1|H1].
    { rewrite <- (I_num c m a I y). apply (del_zero y (or_introl H1)). }
    destruct (in_dec sid_dec y dq) as [H2|H2].
    { rewrite <- (I_num c m a I y). apply (del_zero y (or_intror H2)). }
    assert (Hsd : sub_of_dead dp dq y = true) by (destruct Dy as [X|[X|X]]; [contradiction | contradiction | exact X]).
    assert (Hsub : is_sub y = true) by (destruct y; try discriminate; reflexivity).
    rewrite usage_A_sumc. apply sumc_zero_counts. intros z Hz. apply countb_notin. intros X.
    destruct (reach_sub_src a z y W Hsub X) as [->|(r & h & G & D & [[L Hp]|Hh])].
    - destruct (keys_hget _ z Hz) as (hz & Gz). destruct (A z hz Gz) as (V & _). destruct z; discriminate.
    - apply (live_par_kept r h y G D); [rewrite (a_par_leaf a r h L G); exact Hp | exact Dy].
    - apply (live_head_kept r h y G D Hh). exact Dy.
  Qed.

  Theorem gc_Inv : Inv c m3 a.
  Proof.
    assert (Gk : forall y sc', get m3 y = Some sc' -> ~ Del y /\ get m2 y = Some sc' /\ kept m m2 y).
    { intros y sc' G. destruct (Del_dec y) as [D|D]; [rewrite (del_get y D) in G; discriminate|].
      destruct (kept_get y D) as (E & K). split; [exact D|]. split; [rewrite <- E; exact G | exact K]. }
    assert (Pres : forall y, ~ Del y -> get m y <> None -> get m3 y <> None).
    { intros y D G. destruct (kept_get y D) as (E & S & _). rewrite E. apply (shape_present m m2 y S G). }
    assert (Shp : forall y sc', get m3 y = Some sc' -> exists sc, get m y = Some sc /\ shape sc' = shape sc /\ s_use sc' = s_use sc).
    { intros y sc' G. destruct (Gk y sc' G) as (_ & G2 & S & U & _). unfold shape_of in S. rewrite G2 in S.
      destruct (get m y) as [sc|] eqn:Gm; cbn in S; [|discriminate]. exists sc. split; [reflexivity|]. split; [congruence|].
      rewrite (use_of_get m2 y sc' G2), (use_of_get m y sc Gm) in U. exact U. }
    constructor.
    - exact W.
    - intros y sc' G. destruct (Gk y sc' G) as (_ & G2 & S & U & _). apply (good_transfer m m2 y sc' (I_good c m a I) S U G2).
    - intros y sc' G Hh. destruct (Shp y sc' G) as (sc & Gm & S & _). unfold shape in S. inversion S as [[S1 S2 S3 S4]].
      rewrite S1, S2, S3, S4. apply (I_static c m a I y sc Gm Hh).
    - destruct (I_base c m a I) as (B1 & B2 & B3 & B4).
      assert (Nb : forall y, is_gct y = false -> is_sub y = false -> ~ Del y).
      { intros y Hg Hs [X|[X|X]]; [apply dp_proto in X; destruct y; discriminate | apply dq_peer in X; destruct y; discriminate | destruct y; discriminate]. }
      repeat split; apply Pres; try assumption; apply Nb; reflexivity.
    - intros y h G Hh. destruct (I_handle c m a I y h G Hh) as (sc & Gm & P).
      assert (Dy : ~ Del y).
      { intros [X|[X|X]]; [apply dp_proto in X; destruct y; discriminate | apply dq_peer in X; destruct y; discriminate | destruct y; discriminate]. }
      destruct (kept_get y Dy) as (E & S & _). destruct (shape_get m m2 y sc S Gm) as (sc2 & G2 & Q1 & Q2 & Q3 & Q4).
      exists sc2. rewrite E, Q1, Q2, Q3, Q4. split; [exact G2 | exact P].
    - intros y h G D. destruct (I_present c m a I y h G D) as [P1 P2]. split.
      + intros p Hp. apply Pres; [apply (live_par_kept y h p G D Hp) | apply P1, Hp].
      + intros o Ho Hst. apply Pres; [apply (live_head_kept y h o G D Ho) | apply (P2 o Ho Hst)].
    - intros y sc' G Hh Hn0. destruct (Shp y sc' G) as (sc & Gm & S & U). unfold shape in S. inversion S as [[S1 S2 S3 S4]].
      rewrite S2, U. apply (I_garbage c m a I y sc Gm Hh Hn0).
    - intros y. destruct (Del_dec y) as [D|D].
      + rewrite (del_usage_zero y D). unfold use_of. rewrite (del_get y D). reflexivity.
      + destruct (kept_get y D) as (E & _ & U & _). rewrite <- (I_num c m a I y), <- U. unfold use_of. rewrite E. reflexivity.
  Qed.

  Theorem gc_RefInv : RefInv m3 a.
  Proof.
    intros t Ht. destruct (Del_dec t) as [D|D].
    - assert (X : In t dp \/ In t dq) by (destruct D as [X|[X|X]]; [left; exact X | right; exact X | destruct t; discriminate]).
      destruct (del_zero t X) as [N _]. unfold refz. rewrite (del_get t D). lia.
    - destruct (kept_get t D) as (E & _ & _ & Rf). specialize (Rf Ht). pose proof (R t Ht) as Rt. fold m in Rt.
      unfold refz in *. rewrite E. lia.
  Qed.
End GC.

Theorem gc_inv : forall c st a,
  cfg_ok c -> Inv c (scopes st) a -> Link st a -> nd (scopes st) -> RefInv (scopes st) a -> AShape a ->
  Inv c (scopes (gc st)) a /\ Link (gc st) a /\ nd (scopes (gc st)) /\ RefInv (scopes (gc st)) a.
Proof.
  intros c st a LO I L Hn R A. split; [apply (gc_Inv c st a); assumption|]. split; [|split; [apply nd_gc, Hn | apply (gc_RefInv c st a); assumption]].
  destruct L as [Lc Ls]. split; [intros i ac G; apply (Lc i ac G) | intros j s G; apply (Ls j s G)].
Qed.

(* C03 — reference counts of the protocol / peer scopes (what gc looks at):
   how the building blocks of the operations change them.  Everything here is
   about the model alone; lower bounds suffice. *)
From Coq Require Import List ZArith Bool Arith Lia.
From Verif Require Import lib.Wire c03.Int64 c03.Model c03.Spec c03.Proofs_Int64 c03.Proofs_Base c03.Proofs_Keys.
Import ListNotations.
Local Open Scope Z_scope.

Definition refz (m : smap) (t : sid) : Z := match get m t with Some sc => s_ref sc | None => 0 end.

(* the scopes gc() may delete on its own account *)
Definition is_gct (t : sid) : bool := match t with Proto _ | Peer _ => true | _ => false end.

(* everything of a scope but its counters *)
Definition frame (sc : scope) := (s_lim sc, s_done sc, s_ref sc, s_chain sc, s_edges sc).
Definition frame_of (m : smap) (x : sid) := option_map frame (get m x).
Definition same_frame (m m' : smap) : Prop := forall x, frame_of m' x = frame_of m x.

Lemma same_frame_refl : forall m, same_frame m m. Proof. intros m x. reflexivity. Qed.
Lemma same_frame_trans : forall m1 m2 m3, same_frame m1 m2 -> same_frame m2 m3 -> same_frame m1 m3.
Proof. intros m1 m2 m3 H1 H2 x. rewrite H2. apply H1. Qed.

Lemma frame_refz : forall m m' t, frame_of m' t = frame_of m t -> refz m' t = refz m t.
Proof.
  intros m m' t H. unfold frame_of, refz in *. destruct (get m' t), (get m t); cbn in H; try discriminate; [|reflexivity].
  unfold frame in H. inversion H. reflexivity.
Qed.
Lemma frame_edges : forall m m' t, frame_of m' t = frame_of m t -> edges_of m' t = edges_of m t.
Proof.
  intros m m' t H. unfold frame_of, edges_of in *. destruct (get m' t), (get m t); cbn in H; try discriminate; [|reflexivity].
  unfold frame in H. inversion H. reflexivity.
Qed.
Lemma frame_chain : forall m m' t, frame_of m' t = frame_of m t -> chain_of m' t = chain_of m t.
Proof.
  intros m m' t H. unfold frame_of, chain_of in *. destruct (get m' t), (get m t); cbn in H; try discriminate; [|reflexivity].
  unfold frame in H. inversion H. reflexivity.
Qed.
Lemma frame_done : forall m m' t, frame_of m' t = frame_of m t -> is_done m' t = is_done m t.
Proof.
  intros m m' t H. unfold frame_of, is_done in *. destruct (get m' t), (get m t); cbn in H; try discriminate; [|reflexivity].
  unfold frame in H. inversion H. reflexivity.
Qed.
Lemma frame_present : forall m m' t, frame_of m' t = frame_of m t -> get m t <> None -> get m' t <> None.
Proof. intros m m' t H G. unfold frame_of in H. destruct (get m t); [|contradiction]. destruct (get m' t); [discriminate | cbn in H; discriminate]. Qed.

Lemma frame_set_use : forall m t sc u, get m t = Some sc -> same_frame m (set m t (set_use sc u)).
Proof.
  intros m t sc u G x. unfold frame_of. rewrite get_set. destruct (sid_eqb t x) eqn:E; [|reflexivity].
  apply sid_eqb_eq in E. subst x. rewrite G. reflexivity.
Qed.

Lemma frame_charge_one : forall t k m m', charge_one t k m = inl m' -> same_frame m m'.
Proof.
  intros t k m m' H. unfold charge_one in H. destruct (get m t) as [sc|] eqn:G; [|discriminate].
  destruct (s_done sc); [discriminate|]. destruct (rc_reserve k (s_lim sc) (s_use sc)); inversion H. apply frame_set_use, G.
Qed.

Lemma frame_uncharge_one : forall t k m, same_frame m (uncharge_one t k m).
Proof.
  intros t k m. unfold uncharge_one. destruct (get m t) as [sc|] eqn:G; [|apply same_frame_refl].
  destruct (s_done sc); [apply same_frame_refl | apply frame_set_use, G].
Qed.

Lemma frame_uncharge_list : forall l k m, same_frame m (uncharge_list l k m).
Proof.
  induction l as [|t r IH]; intros k m; [apply same_frame_refl|]. unfold uncharge_list in *. cbn.
  apply (same_frame_trans m (uncharge_one t k m)); [apply frame_uncharge_one | apply IH].
Qed.

Lemma frame_charge_list : forall l ch k m, same_frame m (fst (charge_list l ch k m)).
Proof.
  induction l as [|t r IH]; intros ch k m; cbn; [apply same_frame_refl|].
  destruct (charge_one t k m) as [m1|e] eqn:C; [|cbn; apply frame_uncharge_list].
  apply (same_frame_trans m m1); [apply (frame_charge_one t k m m1 C) | apply IH].
Qed.

Lemma frame_scope_reserve : forall m t k, same_frame m (fst (scope_reserve m t k)).
Proof. intros. apply frame_charge_list. Qed.
Lemma frame_scope_release : forall m t k, same_frame m (scope_release m t k).
Proof. intros. apply frame_uncharge_list. Qed.

(* ---- refz under the primitives -------------------------------------------------------------- *)
Lemma refz_set : forall m x v t, refz (set m x v) t = if sid_eqb x t then s_ref v else refz m t.
Proof. intros. unfold refz. rewrite get_set. destruct (sid_eqb x t); reflexivity. Qed.

Lemma refz_upd : forall m x f t,
  refz (upd m x f) t = if sid_eqb x t then match get m x with Some sc => s_ref (f sc) | None => 0 end else refz m t.
Proof.
  intros. unfold refz. rewrite get_upd. destruct (sid_eqb x t) eqn:E; [|reflexivity].
  destruct (get m x); reflexivity.
Qed.

Lemma refz_upd_other : forall m x f t, x <> t -> refz (upd m x f) t = refz m t.
Proof. intros m x f t H. rewrite refz_upd. apply sid_eqb_neq in H. rewrite H. reflexivity. Qed.

Lemma refz_upd_keep : forall m x f t, (forall sc, s_ref (f sc) = s_ref sc) -> refz (upd m x f) t = refz m t.
Proof.
  intros m x f t H. rewrite refz_upd. destruct (sid_eqb x t) eqn:E; [|reflexivity].
  apply sid_eqb_eq in E. subst t. unfold refz. destruct (get m x); [apply H | reflexivity].
Qed.

Lemma refz_incref : forall m x t, get m x <> None -> refz (incref m x) t = refz m t + (if sid_eqb x t then 1 else 0).
Proof.
  intros m x t G. unfold incref. rewrite refz_upd. destruct (sid_eqb x t) eqn:E; [|lia].
  apply sid_eqb_eq in E. subst t. unfold refz. destruct (get m x); [reflexivity | contradiction].
Qed.

Lemma refz_incref_ge : forall m x t, refz (incref m x) t >= refz m t.
Proof.
  intros m x t. unfold incref. rewrite refz_upd. destruct (sid_eqb x t) eqn:E; [|lia].
  apply sid_eqb_eq in E. subst t. unfold refz. destruct (get m x); cbn; lia.
Qed.

Lemma refz_decref_ge : forall m x t, refz (decref m x) t >= refz m t - (if sid_eqb x t then 1 else 0).
Proof.
  intros m x t. unfold decref. rewrite refz_upd. destruct (sid_eqb x t) eqn:E; [|lia].
  apply sid_eqb_eq in E. subst t. unfold refz. destruct (get m x); cbn; lia.
Qed.

Lemma refz_decref_other : forall m x t, x <> t -> refz (decref m x) t = refz m t.
Proof. intros. apply refz_upd_other. assumption. Qed.
Lemma refz_incref_other : forall m x t, x <> t -> refz (incref m x) t = refz m t.
Proof. intros. apply refz_upd_other. assumption. Qed.

Lemma refz_increfs_ge : forall l m t, refz (increfs m l) t >= refz m t.
Proof.
  induction l as [|e r IH]; intros m t; [cbn; lia|]. unfold increfs in *. cbn.
  pose proof (IH (incref m e) t). pose proof (refz_incref_ge m e t). lia.
Qed.

Lemma get_increfs_present : forall l m x, get m x <> None -> get (increfs m l) x <> None.
Proof.
  induction l as [|e r IH]; intros m x G; [exact G|]. unfold increfs in *. cbn. apply IH.
  unfold incref. rewrite get_upd. destruct (sid_eqb e x) eqn:E; [|exact G].
  apply sid_eqb_eq in E. subst x. destruct (get m e); [discriminate | contradiction].
Qed.

(* every listed scope exists: each gets one reference per occurrence *)
Lemma refz_increfs : forall l m t, (forall e, In e l -> get m e <> None) ->
  refz (increfs m l) t = refz m t + countb t l.
Proof.
  induction l as [|e r IH]; intros m t H; [cbn; lia|]. unfold increfs in *. cbn [fold_left countb].
  rewrite IH.
  - rewrite refz_incref by (apply H; left; reflexivity). lia.
  - intros e' He'. apply (get_increfs_present [e] m e'). apply H. right. exact He'.
Qed.

Lemma refz_remove_other : forall m x t, x <> t -> refz (remove m x) t = refz m t.
Proof. intros m x t H. unfold refz. rewrite get_remove_neq by congruence. reflexivity. Qed.

Lemma frame_same_refz : forall m m' t, same_frame m m' -> refz m' t = refz m t.
Proof. intros m m' t H. apply frame_refz, H. Qed.

(* the edge loop of doneUnlocked / transferAllowedToStandard *)
Lemma refz_fold_dec_ge : forall l k m t,
  refz (fold_left (fun m e => decref (uncharge_one e k m) e) l m) t >= refz m t - countb t l.
Proof.
  induction l as [|e r IH]; intros k m t; [cbn; lia|]. cbn [fold_left countb].
  pose proof (IH k (decref (uncharge_one e k m) e) t) as H1.
  pose proof (refz_decref_ge (uncharge_one e k m) e t) as H2.
  rewrite (frame_same_refz m _ t (frame_uncharge_one e k m)) in H2. lia.
Qed.

Lemma frame_fold_dec_other : forall l k m x, ~ In x l ->
  frame_of (fold_left (fun m e => decref (uncharge_one e k m) e) l m) x = frame_of m x.
Proof.
  induction l as [|e r IH]; intros k m x H; [reflexivity|]. cbn [fold_left].
  rewrite IH by (intros X; apply H; right; exact X).
  unfold frame_of, decref. rewrite get_upd. destruct (sid_eqb e x) eqn:E.
  - apply sid_eqb_eq in E. exfalso. apply H. left. exact E.
  - apply (frame_uncharge_one e k m x).
Qed.

Definition hdc (t : sid) (ch : list sid) : Z := match ch with o :: _ => if sid_eqb o t then 1 else 0 | [] => 0 end.

Lemma hdc_nonneg : forall t ch, 0 <= hdc t ch.
Proof. intros t [|o r]; cbn; [lia|]. destruct (sid_eqb o t); lia. Qed.

(* doneUnlocked *)
Lemma refz_scope_done_ge : forall m x t, x <> t ->
  refz (scope_done m x) t >= refz m t - (if is_done m x then 0 else countb t (edges_of m x) + hdc t (chain_of m x)).
Proof.
  intros m x t Hne. unfold scope_done, is_done, edges_of, chain_of. destruct (get m x) as [sc|] eqn:G; [|lia].
  destruct (s_done sc) eqn:D; [lia|]. rewrite refz_upd_other by exact Hne.
  destruct (s_chain sc) as [|o r] eqn:Ec.
  - pose proof (refz_fold_dec_ge (s_edges sc) (KStat (s_use sc)) m t). cbn [hdc]. lia.
  - pose proof (refz_decref_ge (uncharge_list (rel_targets_from m (o :: r) (root_of m x)) (KStat (s_use sc)) m) o t) as H.
    rewrite (frame_same_refz m _ t (frame_uncharge_list _ _ m)) in H. cbn [hdc].
    pose proof (countb_nonneg t (s_edges sc)). lia.
Qed.

Lemma refz_scope_done_le : forall m x t, x <> t -> refz (scope_done m x) t <= refz m t.
Proof.
  intros m x t Hne. unfold scope_done. destruct (get m x) as [sc|] eqn:G; [|lia].
  destruct (s_done sc) eqn:D; [lia|]. rewrite refz_upd_other by exact Hne.
  destruct (s_chain sc) as [|o r] eqn:Ec.
  - generalize (s_edges sc) m. induction l as [|e l IH]; intros m0; [cbn; lia|]. cbn [fold_left].
    pose proof (IH (decref (uncharge_one e (KStat (s_use sc)) m0) e)).
    assert (refz (decref (uncharge_one e (KStat (s_use sc)) m0) e) t <= refz m0 t); [|lia].
    unfold decref. rewrite refz_upd. destruct (sid_eqb e t) eqn:E.
    + apply sid_eqb_eq in E. subst e. rewrite <- (frame_same_refz m0 _ t (frame_uncharge_one t (KStat (s_use sc)) m0)).
      unfold refz. destruct (get (uncharge_one t (KStat (s_use sc)) m0) t); cbn; lia.
    + rewrite (frame_same_refz m0 _ t (frame_uncharge_one e _ m0)). lia.
  - unfold decref. rewrite refz_upd. destruct (sid_eqb o t) eqn:E.
    + apply sid_eqb_eq in E. subst o.
      rewrite <- (frame_same_refz m _ t (frame_uncharge_list (rel_targets_from m (t :: r) (root_of m x)) (KStat (s_use sc)) m)).
      unfold refz. destruct (get (uncharge_list _ _ m) t); cbn; lia.
    + rewrite (frame_same_refz m _ t (frame_uncharge_list _ _ m)). lia.
Qed.

(* a scope created on demand starts with no reference: creation is invisible to refz *)
Lemma refz_new_scope_self : forall m x lim e, get m x = None -> refz (new_scope m x lim e) x = refz m x.
Proof. intros m x lim e G. unfold new_scope. rewrite refz_set, sid_eqb_refl. unfold refz. rewrite G. reflexivity. Qed.

Lemma refz_get_scope : forall c m x t, is_created_view x = true -> is_gct t = true ->
  refz (get_scope c m x) t = refz m t + (if sid_eqb x t then 1 else 0).
Proof.
  intros c m x t V Gt. unfold get_scope. destruct (get m x) as [sc|] eqn:G.
  - apply refz_incref. rewrite G. discriminate.
  - rewrite refz_incref by (unfold new_scope; rewrite get_set_same; discriminate). f_equal.
    unfold new_scope. cbn [increfs fold_left]. rewrite refz_set. destruct (sid_eqb x t) eqn:E.
    + apply sid_eqb_eq in E. subst t. unfold refz. rewrite G. reflexivity.
    + apply refz_incref_other. intros <-. discriminate.
Qed.

Lemma refz_get_subscope : forall c m x t, is_gct x = false -> refz (get_subscope c m x) t = refz m t \/ x = t.
Proof.
  intros c m x t _. destruct (sid_dec x t) as [->|Hne]; [right; reflexivity|]. left.
  unfold get_subscope. rewrite refz_incref_other by exact Hne. destruct (get m x); [reflexivity|].
  unfold new_scope. cbn [increfs fold_left]. rewrite refz_set. apply sid_eqb_neq in Hne. rewrite Hne. reflexivity.
Qed.

(* ---- the operations: lower bounds for the reference count of a protocol / peer scope ------- *)
Lemma gct_countb2 : forall t a b, is_gct t = true -> is_gct a = false -> is_gct b = false -> countb t [a; b] = 0.
Proof.
  intros t a b Ht Ha Hb. cbn [countb].
  assert (sid_eqb a t = false) by (apply sid_eqb_neq; intros ->; congruence).
  assert (sid_eqb b t = false) by (apply sid_eqb_neq; intros ->; congruence).
  rewrite H, H0. reflexivity.
Qed.

Lemma gct_neq : forall t x, is_gct t = true -> is_gct x = false -> x <> t.
Proof. intros t x Ht Hx ->. congruence. Qed.

Lemma edges_of_set : forall m x v, edges_of (set m x v) x = s_edges v.
Proof. intros. unfold edges_of. rewrite get_set_same. reflexivity. Qed.
Lemma chain_of_set : forall m x v, chain_of (set m x v) x = s_chain v.
Proof. intros. unfold chain_of. rewrite get_set_same. reflexivity. Qed.

Lemma conn_done_scopes' : forall c st i, scopes (conn_done c st i) = scope_done (scopes st) (Conn i).
Proof.
  intros c st i. unfold conn_done. destruct (is_done (scopes st) (Conn i)) eqn:D; [|reflexivity].
  unfold scope_done, is_done in *. destruct (get (scopes st) (Conn i)) as [sc|]; [rewrite D|]; reflexivity.
Qed.

Lemma refz_conn_done_ge : forall c st i t, is_gct t = true ->
  refz (scopes (conn_done c st i)) t >=
  refz (scopes st) t - (if is_done (scopes st) (Conn i) then 0
                        else countb t (edges_of (scopes st) (Conn i)) + hdc t (chain_of (scopes st) (Conn i))).
Proof.
  intros c st i t Ht. unfold conn_done. destruct (is_done (scopes st) (Conn i)) eqn:D; [lia|]. cbn [scopes].
  pose proof (refz_scope_done_ge (scopes st) (Conn i) t (gct_neq t (Conn i) Ht eq_refl)) as H. rewrite D in H. exact H.
Qed.

(* the new leaf scope of OpenConnection / OpenStream after the reservation attempt *)
Lemma leaf_after_reserve : forall m x lim E k,
  let m0 := new_scope m x lim E in
  let m1 := fst (scope_reserve m0 x k) in
  edges_of m1 x = E /\ chain_of m1 x = [] /\ (forall t, refz m1 t = refz m0 t).
Proof.
  intros m x lim E k m0 m1. pose proof (frame_scope_reserve m0 x k) as F. fold m1 in F.
  split; [rewrite (frame_edges m0 m1 x (F x)); unfold m0, new_scope; apply edges_of_set|].
  split; [rewrite (frame_chain m0 m1 x (F x)); unfold m0, new_scope; apply chain_of_set|].
  intros t. apply frame_refz, F.
Qed.

Lemma refz_new_leaf_ge : forall m x lim E t, is_gct t = true -> is_gct x = false ->
  refz (new_scope m x lim E) t >= refz m t.
Proof.
  intros m x lim E t Ht Hx. unfold new_scope. rewrite refz_set.
  assert (X : sid_eqb x t = false) by (apply sid_eqb_neq, (gct_neq t x Ht Hx)). rewrite X. apply refz_increfs_ge.
Qed.

Lemma refz_open_conn_ge : forall c st i inb usefd ep t, is_gct t = true ->
  refz (scopes (fst (open_conn c st i inb usefd ep))) t >= refz (scopes st) t.
Proof.
  intros c st i inb usefd ep t Ht. unfold open_conn.
  destruct (match ep with Some a => match limiter_add c (lims st) a with Some l => Some l | None => None end
                        | None => Some (lims st) end) as [l|]; [|cbn; lia].
  pose proof (leaf_after_reserve (scopes st) (Conn i) (lim_conn c) [Transient; System] (KConn inb usefd)) as L1.
  cbv zeta in L1. pose proof (refz_new_leaf_ge (scopes st) (Conn i) (lim_conn c) [Transient; System] t Ht eq_refl) as G0.
  destruct (scope_reserve _ (Conn i) (KConn inb usefd)) as [m1 e1]. cbn [fst] in L1. destruct L1 as (E1 & C1 & R1). specialize (R1 t).
  destruct e1 as [e1|]; cbn [fst scopes with_scopes]; [|lia].
  destruct (match ep with Some a => allowed c a | None => false end).
  - cbn [scopes with_scopes].
    set (md := scope_done m1 (Conn i)).
    assert (Gd : refz md t >= refz m1 t).
    { pose proof (refz_scope_done_ge m1 (Conn i) t (gct_neq t (Conn i) Ht eq_refl)) as H. fold md in H.
      rewrite E1, C1, (gct_countb2 t Transient System Ht eq_refl eq_refl) in H. cbn [hdc] in H. destruct (is_done m1 (Conn i)); lia. }
    pose proof (leaf_after_reserve (remove md (Conn i)) (Conn i) (lim_conn c) [ATransient; ASystem] (KConn inb usefd)) as L2.
    cbv zeta in L2. pose proof (refz_new_leaf_ge (remove md (Conn i)) (Conn i) (lim_conn c) [ATransient; ASystem] t Ht eq_refl) as G3.
    rewrite (refz_remove_other md (Conn i) t (gct_neq t (Conn i) Ht eq_refl)) in G3.
    destruct (scope_reserve _ (Conn i) (KConn inb usefd)) as [m4 e4]. cbn [fst] in L2. destruct L2 as (E4 & C4 & R4). specialize (R4 t).
    destruct e4 as [e4|]; cbn [fst scopes]; [|lia].
    rewrite conn_done_scopes'. cbn [scopes].
    pose proof (refz_scope_done_ge m4 (Conn i) t (gct_neq t (Conn i) Ht eq_refl)) as H.
    rewrite E4, C4, (gct_countb2 t ATransient ASystem Ht eq_refl eq_refl) in H. cbn [hdc] in H.
    destruct (is_done m4 (Conn i)); lia.
  - cbn [fst]. rewrite conn_done_scopes'. cbn [scopes with_scopes].
    pose proof (refz_scope_done_ge m1 (Conn i) t (gct_neq t (Conn i) Ht eq_refl)) as H.
    rewrite E1, C1, (gct_countb2 t Transient System Ht eq_refl eq_refl) in H. cbn [hdc] in H.
    destruct (is_done m1 (Conn i)); lia.
Qed.

Lemma ecode_some' : forall e, (ecode (Some e) =? 0) = false.
Proof. intros []; reflexivity. Qed.

Definition ind (x t : sid) : Z := if sid_eqb x t then 1 else 0.

Lemma refz_transfer_ge : forall m i t, is_gct t = true ->
  refz (fst (transfer_allowed m i)) t >= refz m t - countb t (edges_of m (Conn i)).
Proof.
  intros m i t Ht. unfold transfer_allowed.
  set (k := KStat (use_of m (Conn i))).
  set (m1 := fold_left (fun m0 e => decref (uncharge_one e k m0) e) (edges_of m (Conn i)) m).
  pose proof (refz_fold_dec_ge (edges_of m (Conn i)) k m t) as G1. fold m1 in G1.
  set (m2 := upd m1 (Conn i) (fun sc => set_edges sc [])).
  assert (G2 : refz m2 t = refz m1 t) by (apply refz_upd_keep; reflexivity).
  assert (NS : System <> t) by (apply gct_neq; [exact Ht | reflexivity]).
  assert (NT : Transient <> t) by (apply gct_neq; [exact Ht | reflexivity]).
  destruct (charge_one System k m2) as [m3|e] eqn:C1; [|cbn [fst]; lia].
  pose proof (frame_same_refz m2 m3 t (frame_charge_one _ _ _ _ C1)) as G3.
  destruct (charge_one Transient k (incref m3 System)) as [m5|e] eqn:C2; cbn [fst].
  - pose proof (frame_same_refz _ m5 t (frame_charge_one _ _ _ _ C2)) as G5.
    rewrite refz_upd_keep by reflexivity. rewrite (refz_incref_other m5 Transient t NT), G5, (refz_incref_other m3 System t NS). lia.
  - rewrite (refz_decref_other _ System t NS), (frame_same_refz _ _ t (frame_uncharge_one System k (incref m3 System))),
      (refz_incref_other m3 System t NS). lia.
Qed.

Lemma refz_attach_tail : forall c m1 s x trT k P t, is_created_view x = true -> is_gct t = true -> is_gct trT = false ->
  match charge_one x k (get_scope c m1 x) with
  | inr _ => refz (decref (get_scope c m1 x) x) t >= refz m1 t
  | inl m3 => refz (upd (decref (uncharge_one trT k m3) trT) s (fun sc => set_edges sc P)) t = refz m1 t + ind x t
  end.
Proof.
  intros c m1 s x trT k P t V Ht Htr. pose proof (refz_get_scope c m1 x t V Ht) as G2. fold (ind x t) in G2.
  destruct (charge_one x k (get_scope c m1 x)) as [m3|e] eqn:C.
  - rewrite refz_upd_keep by reflexivity. rewrite (refz_decref_other _ trT t (gct_neq t trT Ht Htr)).
    rewrite (frame_same_refz m3 _ t (frame_uncharge_one trT k m3)), (frame_same_refz _ m3 t (frame_charge_one _ _ _ _ C)). exact G2.
  - pose proof (refz_decref_ge (get_scope c m1 x) x t) as D. fold (ind x t) in D. lia.
Qed.

Lemma refz_set_peer_ge : forall c st i q t, is_gct t = true -> countb t (edges_of (scopes st) (Conn i)) = 0 ->
  let '(st', cls) := set_peer c st i q in
  refz (scopes st') t >= refz (scopes st) t + (if cls =? 0 then ind (Peer q) t else 0).
Proof.
  intros c st i q t Ht He. unfold set_peer. destruct (nget (conns st) i) as [ci|]; [|cbn; lia].
  destruct (ci_peer ci); [cbn; lia|].
  pose proof (refz_transfer_ge (scopes st) i t Ht) as GT. rewrite He in GT.
  assert (Tail : forall m1 trT sysT ci1, is_gct trT = false -> refz m1 t >= refz (scopes st) t ->
    let '(st', cls) :=
      let m2 := get_scope c m1 (Peer q) in
      let stt := use_of m2 (Conn i) in
      match charge_one (Peer q) (KStat stt) m2 with
      | inr e => (mkState (decref m2 (Peer q)) (nset (conns st) i ci1) (streams st) (lims st), ecode (Some e))
      | inl m3 =>
          let m4 := decref (uncharge_one trT (KStat stt) m3) trT in
          let m5 := upd m4 (Conn i) (fun sc => set_edges sc [Peer q; sysT]) in
          let ci2 := mkCinfo (ci_in ci1) (ci_fd ci1) (ci_allow ci1) (Some q) (ci_ip ci1) (ci_ep ci1) in
          (mkState m5 (nset (conns st) i ci2) (streams st) (lims st), E_OK)
      end in
    refz (scopes st') t >= refz (scopes st) t + (if cls =? 0 then ind (Peer q) t else 0)).
  { intros m1 trT sysT ci1 Htr G1. cbv zeta.
    pose proof (refz_attach_tail c m1 (Conn i) (Peer q) trT (KStat (use_of (get_scope c m1 (Peer q)) (Conn i))) [Peer q; sysT] t eq_refl Ht Htr) as H.
    destruct (charge_one (Peer q) _ (get_scope c m1 (Peer q))) as [m3|e]; cbn [scopes].
    - replace (E_OK =? 0) with true by reflexivity. lia.
    - rewrite ecode_some'. lia. }
  destruct (ci_allow ci).
  - destruct (true && negb _).
    + destruct (transfer_allowed (scopes st) i) as [mt e]. cbn [fst] in GT. cbv beta iota zeta.
      destruct e as [e|]; [cbn [scopes]; rewrite ecode_some'; lia|].
      apply (Tail mt Transient System _ eq_refl). lia.
    + cbv beta iota zeta. apply (Tail (scopes st) ATransient ASystem ci eq_refl). lia.
  - destruct (edges_of (scopes st) (Conn i)).
    + destruct (transfer_allowed (scopes st) i) as [mt e]. cbn [fst] in GT. cbv beta iota zeta.
      destruct e as [e|]; [cbn [scopes]; rewrite ecode_some'; lia|].
      apply (Tail mt Transient System ci eq_refl). lia.
    + cbv beta iota zeta. apply (Tail (scopes st) Transient System ci eq_refl). lia.
Qed.

Lemma get_scope_present' : forall c m t, get (get_scope c m t) t <> None.
Proof.
  intros c m t. unfold get_scope, incref. rewrite get_upd, sid_eqb_refl.
  destruct (get m t) as [sc|] eqn:G; [rewrite G; discriminate|]. unfold new_scope. rewrite get_set_same. discriminate.
Qed.

Lemma refz_open_stream_ge : forall c st j q inb t, is_gct t = true ->
  let '(st', cls) := open_stream c st j q inb in
  refz (scopes st') t >= refz (scopes st) t + (if cls =? 0 then ind (Peer q) t else 0).
Proof.
  intros c st j q inb t Ht. unfold open_stream.
  set (m0 := get_scope c (scopes st) (Peer q)).
  pose proof (refz_get_scope c (scopes st) (Peer q) t eq_refl Ht) as G0. fold m0 (ind (Peer q) t) in G0.
  set (m1 := new_scope m0 (Stream j) (lim_stream c) [Peer q; Transient; System]).
  assert (G1 : refz m1 t = refz m0 t + ind (Peer q) t).
  { unfold m1, new_scope. rewrite refz_set.
    assert (X : sid_eqb (Stream j) t = false) by (apply sid_eqb_neq, gct_neq; [exact Ht | reflexivity]). rewrite X.
    unfold increfs. cbn [fold_left].
    rewrite (refz_incref_other _ System t (gct_neq t System Ht eq_refl)), (refz_incref_other _ Transient t (gct_neq t Transient Ht eq_refl)).
    apply refz_incref. apply get_scope_present'. }
  set (m2 := decref m1 (Peer q)).
  pose proof (refz_decref_ge m1 (Peer q) t) as G2. fold m2 (ind (Peer q) t) in G2.
  pose proof (frame_scope_reserve m2 (Stream j) (KStream inb)) as F.
  destruct (scope_reserve m2 (Stream j) (KStream inb)) as [m3 e]. cbn [fst] in F.
  pose proof (frame_same_refz m2 m3 t F) as G3.
  destruct e as [e|]; cbn [scopes].
  - rewrite ecode_some'.
    pose proof (refz_scope_done_ge m3 (Stream j) t (gct_neq t (Stream j) Ht eq_refl)) as H.
    assert (E3 : edges_of m3 (Stream j) = [Peer q; Transient; System]).
    { rewrite (frame_edges m2 m3 _ (F _)). unfold m2, edges_of, decref. rewrite get_upd. cbn [sid_eqb].
      unfold m1, new_scope. rewrite get_set_same. reflexivity. }
    assert (C3 : chain_of m3 (Stream j) = []).
    { rewrite (frame_chain m2 m3 _ (F _)). unfold m2, chain_of, decref. rewrite get_upd. cbn [sid_eqb].
      unfold m1, new_scope. rewrite get_set_same. reflexivity. }
    rewrite E3, C3 in H. cbn [countb hdc] in H. fold (ind (Peer q) t) in H.
    assert (X1 : sid_eqb Transient t = false) by (apply sid_eqb_neq, gct_neq; [exact Ht | reflexivity]).
    assert (X2 : sid_eqb System t = false) by (apply sid_eqb_neq, gct_neq; [exact Ht | reflexivity]).
    rewrite X1, X2 in H. destruct (is_done m3 (Stream j)); unfold ind in *; destruct (sid_eqb (Peer q) t); lia.
  - change (ecode None) with E_OK. replace (E_OK =? 0) with true by reflexivity. unfold ind in *. destruct (sid_eqb (Peer q) t); lia.
Qed.

Lemma refz_set_proto_ge : forall c st j p t, is_gct t = true ->
  let '(st', cls) := set_proto c st j p in
  refz (scopes st') t >= refz (scopes st) t + (if cls =? 0 then ind (Proto p) t else 0).
Proof.
  intros c st j p t Ht. unfold set_proto. destruct (nget (streams st) j) as [si|]; [|cbn; lia].
  destruct (si_proto si); [cbn; lia|].
  set (m1 := get_scope c (scopes st) (Proto p)).
  pose proof (refz_get_scope c (scopes st) (Proto p) t eq_refl Ht) as G1. fold m1 (ind (Proto p) t) in G1.
  set (k := KStat (use_of m1 (Stream j))).
  destruct (charge_one (Proto p) k m1) as [m2|e1] eqn:C1; cbn [scopes with_scopes].
  2:{ rewrite ecode_some'. pose proof (refz_decref_ge m1 (Proto p) t) as D. fold (ind (Proto p) t) in D. lia. }
  pose proof (frame_same_refz m1 m2 t (frame_charge_one _ _ _ _ C1)) as G2.
  set (sub := ProtoPeer p (si_peer si)).
  assert (Ns : sub <> t) by (apply gct_neq; [exact Ht | reflexivity]).
  assert (G3 : refz (get_subscope c m2 sub) t = refz m2 t).
  { destruct (refz_get_subscope c m2 sub t eq_refl) as [X|X]; [exact X | contradiction]. }
  destruct (charge_one sub k (get_subscope c m2 sub)) as [m4|e2] eqn:C2; cbn [scopes with_scopes].
  - replace (E_OK =? 0) with true by reflexivity. rewrite refz_upd_keep by reflexivity.
    rewrite (refz_decref_other _ Transient t (gct_neq t Transient Ht eq_refl)).
    rewrite (frame_same_refz m4 _ t (frame_uncharge_one Transient k m4)), (frame_same_refz _ m4 t (frame_charge_one _ _ _ _ C2)). lia.
  - rewrite ecode_some'. rewrite (refz_decref_other _ sub t Ns).
    pose proof (refz_decref_ge (uncharge_one (Proto p) k (get_subscope c m2 sub)) (Proto p) t) as D. fold (ind (Proto p) t) in D.
    rewrite (frame_same_refz _ _ t (frame_uncharge_one (Proto p) k (get_subscope c m2 sub))) in D. lia.
Qed.

Lemma refz_set_svc_ge : forall c st j s t, is_gct t = true ->
  refz (scopes (fst (set_svc c st j s))) t >= refz (scopes st) t.
Proof.
  intros c st j s t Ht. unfold set_svc. destruct (nget (streams st) j) as [si|]; [|cbn; lia].
  destruct (si_svc si); [cbn; lia|]. destruct (si_proto si) as [p|]; [|cbn; lia].
  set (m1 := get_scope c (scopes st) (Svc s)).
  pose proof (refz_get_scope c (scopes st) (Svc s) t eq_refl Ht) as G1. fold m1 in G1.
  assert (Nv : Svc s <> t) by (apply gct_neq; [exact Ht | reflexivity]).
  assert (X : sid_eqb (Svc s) t = false) by (apply sid_eqb_neq, Nv). rewrite X in G1.
  set (k := KStat (use_of m1 (Stream j))).
  destruct (charge_one (Svc s) k m1) as [m2|e1] eqn:C1; cbn [fst scopes with_scopes].
  2:{ rewrite (refz_decref_other m1 (Svc s) t Nv). lia. }
  pose proof (frame_same_refz m1 m2 t (frame_charge_one _ _ _ _ C1)) as G2.
  set (sub := SvcPeer s (si_peer si)).
  assert (Ns : sub <> t) by (apply gct_neq; [exact Ht | reflexivity]).
  assert (G3 : refz (get_subscope c m2 sub) t = refz m2 t).
  { destruct (refz_get_subscope c m2 sub t eq_refl) as [Y|Y]; [exact Y | contradiction]. }
  destruct (charge_one sub k (get_subscope c m2 sub)) as [m4|e2] eqn:C2; cbn [fst scopes with_scopes].
  - rewrite refz_upd_keep by reflexivity. rewrite (frame_same_refz _ m4 t (frame_charge_one _ _ _ _ C2)). lia.
  - rewrite (refz_decref_other _ sub t Ns), (refz_decref_other _ (Svc s) t Nv).
    rewrite (frame_same_refz _ _ t (frame_uncharge_one (Svc s) k (get_subscope c m2 sub))). lia.
Qed.

(* View*: IncRef on entry, DecRef on leaving *)
Lemma refz_view_enter : forall c m x t, is_gct t = true ->
  refz (view_enter c m x) t = refz m t + (if is_created_view x then ind x t else 0).
Proof.
  intros c m x t Ht. unfold view_enter. destruct (is_created_view x) eqn:V; [|lia]. apply (refz_get_scope c m x t V Ht).
Qed.

Lemma refz_view_leave_ge : forall m x t, refz (view_leave m x) t >= refz m t - (if is_created_view x then ind x t else 0).
Proof. intros m x t. unfold view_leave. destruct (is_created_view x); [apply refz_decref_ge | lia]. Qed.

Lemma refz_reserve_mem_ge : forall c st x sz prio t, is_gct t = true ->
  refz (scopes (fst (reserve_mem c st x sz prio))) t >= refz (scopes st) t.
Proof.
  intros c st x sz prio t Ht. unfold reserve_mem.
  pose proof (refz_view_enter c (scopes st) x t Ht) as G0.
  pose proof (frame_scope_reserve (view_enter c (scopes st) x) x (KMem sz prio)) as F.
  destruct (scope_reserve (view_enter c (scopes st) x) x (KMem sz prio)) as [m1 e]. cbn [fst scopes with_scopes] in *.
  pose proof (refz_view_leave_ge m1 x t) as G2. rewrite (frame_same_refz _ m1 t F) in G2. lia.
Qed.

Lemma refz_release_mem_ge : forall c st x sz t, is_gct t = true ->
  refz (scopes (fst (release_mem c st x sz))) t >= refz (scopes st) t.
Proof.
  intros c st x sz t Ht. unfold release_mem. cbn [fst scopes with_scopes].
  pose proof (refz_view_enter c (scopes st) x t Ht) as G0. set (m0 := view_enter c (scopes st) x) in *.
  set (m1 := if is_done m0 x then m0 else scope_release m0 x (KMem sz 0)).
  assert (G1 : refz m1 t = refz m0 t).
  { unfold m1. destruct (is_done m0 x); [reflexivity | apply frame_same_refz, frame_scope_release]. }
  pose proof (refz_view_leave_ge m1 x t). lia.
Qed.

Lemma refz_begin_span_ge : forall c st x k t, is_gct t = true ->
  let '(st', cls) := begin_span c st x k in
  refz (scopes st') t >= refz (scopes st) t + (if cls =? 0 then ind x t else 0).
Proof.
  intros c st x k t Ht. unfold begin_span.
  pose proof (refz_view_enter c (scopes st) x t Ht) as G0. set (m0 := view_enter c (scopes st) x) in *.
  destruct (get m0 x) as [sc|] eqn:G.
  2:{ cbn [scopes with_scopes]. replace (E_CLOSED =? 0) with false by reflexivity. pose proof (refz_view_leave_ge m0 x t). lia. }
  destruct (s_done sc).
  { cbn [scopes with_scopes]. replace (E_CLOSED =? 0) with false by reflexivity. pose proof (refz_view_leave_ge m0 x t). lia. }
  cbn [scopes with_scopes]. replace (E_OK =? 0) with true by reflexivity.
  set (m2 := set (incref m0 x) (Span k) _).
  assert (G2 : refz m2 t = refz m0 t + ind x t).
  { unfold m2. rewrite refz_set.
    assert (X : sid_eqb (Span k) t = false) by (apply sid_eqb_neq, gct_neq; [exact Ht | reflexivity]). rewrite X.
    apply refz_incref. rewrite G. discriminate. }
  pose proof (refz_view_leave_ge m2 x t). lia.
Qed.

Lemma refz_done_op_ge : forall c st x t, is_gct t = true -> is_gct x = false ->
  refz (scopes (fst (done_op c st x))) t >=
  refz (scopes st) t - (if is_done (scopes st) x then 0 else countb t (edges_of (scopes st) x) + hdc t (chain_of (scopes st) x)).
Proof.
  intros c st x t Ht Hx.
  assert (E : scopes (fst (done_op c st x)) = scope_done (scopes st) x).
  { unfold done_op. destruct x; try reflexivity. cbn [fst]. apply conn_done_scopes'. }
  rewrite E. apply refz_scope_done_ge. apply (gct_neq t x Ht Hx).
Qed.

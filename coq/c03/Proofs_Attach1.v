(* C03 — SetPeer without allow-list transfer: reserve the connection's stat in
   the peer scope, release it from the (allow-listed) transient scope, switch
   the edges. *)
From Coq Require Import List ZArith Bool Arith Lia.
From Verif Require Import lib.Wire c03.Int64 c03.Model c03.Spec c03.Proofs_Int64 c03.Proofs_Base
     c03.Proofs_Sum c03.Proofs_Reach c03.Proofs_Link c03.Proofs_Targets c03.Proofs_Frames c03.Proofs_Frames2
     c03.Proofs_Frames3 c03.Proofs_Kill c03.Proofs_OpsMem c03.Proofs_OpsNew c03.Proofs_Repar c03.Proofs_Repar2
     c03.Proofs_Move c03.Proofs_Attach.
Import ListNotations.
Local Open Scope Z_scope.

Definition attach1 (c : config) (m : smap) (s t1 tr : sid) (P' : list sid) : smap * option err :=
  let m1 := get_scope c m t1 in
  let stt := use_of m1 s in
  match charge_one t1 (KStat stt) m1 with
  | inr e => (decref m1 t1, Some e)
  | inl m2 => (upd (decref (uncharge_one tr (KStat stt) m2) tr) s (fun sc => set_edges sc P'), None)
  end.

Theorem attach1_inv : forall c m a a2 s h t1 tr P',
  cfg_ok c -> Inv c m a -> leaf s = true -> hget (holders a) s = Some h ->
  is_created_view t1 = true -> is_handle tr = false -> t1 <> tr -> In tr (h_par h) ->
  NoDup P' -> (forall p, In p P' -> is_handle p = false) ->
  (forall x, countb x P' + countb x [tr] = countb x (h_par h) + countb x [t1]) ->
  mem (use_of m t1) + mem (use_of m s) <= max_int64 ->
  holders a2 = hset (holders a) s (mkHolder (h_own h) P' (h_chain h) (h_dead h)) ->
  let '(m', e) := attach1 c m s t1 tr P' in
  match e with None => Inv c m' a2 | Some _ => Inv c m' a end.
Proof.
  intros c m a a2 s h t1 tr P' LO I Hl G V1 Htr N1 HT Nd St Ms Ov Ha2. unfold attach1.
  set (m1 := get_scope c m t1). set (stt := use_of m1 s).
  destruct (charge_one t1 (KStat stt) m1) as [m2|e1] eqn:C1; [|apply (attach_fail1 c m a t1 LO I V1)].
  pose proof (at_I1 c m a t1 LO I V1) as I1. fold m1 in I1.
  pose proof (at_use1 c m a t1 I V1) as U1. fold m1 in U1.
  assert (Es : stt = use_of m s) by (apply U1).
  pose proof (I_wf c m a I) as W.
  assert (Hs : is_handle s = true) by (destruct s; try discriminate; reflexivity).
  assert (Hk : kind_ok (KStat stt)) by (apply kind_ok_use, (I_good c m1 a I1)).
  assert (Ov1 : mem (use_of m1 t1) + mem (kdelta (KStat stt)) <= max_int64).
  { rewrite U1. cbn [kdelta]. rewrite Es. exact Ov. }
  destruct (charge_one_count t1 (KStat stt) m1 m2 Hk (I_good c m1 a I1) Ov1 C1) as (D1 & S2 & G2 & U2).
  destruct (I_handle c m1 a I1 s h G Hs) as (sc1 & Gs1 & Pd & Pc & Pe & Pl).
  (* the scope released from is a parent of s: it exists, is open and holds at least s's stat *)
  assert (Ptr : a_dead a s = false -> get m1 tr <> None).
  { intros D. assert (Dh : h_dead h = false) by (unfold a_dead in D; rewrite G in D; exact D).
    destruct (I_present c m1 a I1 s h G Dh) as [P1 _]. apply P1. rewrite (a_par_leaf a s h Hl G). exact HT. }
  assert (X1 : sid_eqb t1 tr = false) by (apply sid_eqb_neq; exact N1).
  assert (Utr : use_of m2 tr = use_of m tr).
  { rewrite U2, count_single, X1, stat_scale_0, stat_add_0_r. apply U1. }
  assert (Le : stat_le (kdelta (KStat stt)) (use_of m2 tr)).
  { cbn [kdelta]. rewrite Utr, Es. destruct (a_dead a s) eqn:D.
    - rewrite (dead_use_zero c m a s I Hs D). pose proof (use_nonneg m tr (I_good c m a I)) as N.
      revert N. generalize (use_of m tr). intros [] N. unfold nonneg, stat_le, stat0 in *.
      cbn [Model.mem Model.sin Model.sout Model.cin Model.cout Model.fd] in *. repeat split; lia.
    - rewrite !(I_num c m a I).
      assert (Dh : h_dead h = false) by (unfold a_dead in D; rewrite G in D; exact D).
      apply (usage_ge_through a s h W Hs G Dh).
      rewrite (areach_root a s (rp_chain_s a s h W Hl G)), D, (a_par_leaf a s h Hl G). right. exact HT. }
  (* releasing from tr: exact when it is open; when s is closed nothing is released anyway *)
  set (m3 := uncharge_one tr (KStat stt) m2).
  assert (H3 : all_good m3 /\ (forall y, shape_of m3 y = shape_of m1 y) /\
               (forall x, stat_add (use_of m3 x) (stat_scale (countb x [tr]) stt) = use_of m2 x)).
  { destruct (uncharge_one_props tr (KStat stt) m2 Hk G2) as (S3 & G3 & Oth & _ & Ex & Dn).
    split; [exact G3|]. split; [intros y; unfold m3; rewrite S3; apply S2|].
    intros x. rewrite count_single. destruct (sid_eqb tr x) eqn:X.
    - apply sid_eqb_eq in X. subst x. rewrite stat_scale_1. destruct (is_done m2 tr) eqn:Dt.
      + (* tr closed or missing: only possible when s is closed and holds nothing *)
        unfold m3. rewrite (Dn eq_refl tr).
        assert (Z : stt = stat0).
        { rewrite Es. destruct (a_dead a s) eqn:D; [apply (dead_use_zero c m a s I Hs D)|]. exfalso.
          rewrite (is_done_shape m2 m1 tr (S2 tr)) in Dt. unfold is_done in Dt.
          destruct (get m1 tr) as [sct|] eqn:Gt; [|apply (Ptr eq_refl); reflexivity].
          destruct (I_static c m1 a I1 tr sct Gt Htr) as (Dn' & _). congruence. }
        rewrite Z, stat_add_0_r. reflexivity.
      + unfold m3. rewrite (Ex eq_refl Le). cbn [kdelta]. generalize (use_of m2 tr) stt. intros [] [].
        unfold stat_add, stat_sub; cbn [Model.mem Model.sin Model.sout Model.cin Model.cout Model.fd]. f_equal; lia.
    - apply sid_eqb_neq in X. rewrite stat_scale_0, stat_add_0_r. unfold m3. apply Oth. congruence. }
  destruct H3 as (G3 & S3 & U3).
  set (m4 := decref m3 tr).
  destruct (shape_get m1 m4 s sc1 ltac:(unfold m4; rewrite decref_shape; apply S3) Gs1) as (sc4 & G4s & Q1 & Q2 & Q3 & Q4).
  assert (Gm5 : get (upd m4 s (fun sc => set_edges sc P')) s = Some (set_edges sc4 P')) by (rewrite get_upd, sid_eqb_refl, G4s; reflexivity).
  apply (Inv_move c m1 _ a a2 s h P' [t1] [tr] sc1 (set_edges sc4 P') I1 Hl G Ha2 Nd St); try assumption; try reflexivity.
  - intros D p Hp. assert (Hps : p <> s) by (intros ->; apply St in Hp; congruence).
    apply (shape_present m1 _ p); [rewrite upd_edges_shape_other by exact Hps; unfold m4; rewrite decref_shape; apply S3|].
    pose proof (Ms p) as Mp. pose proof (countb_in_pos p P' Hp). pose proof (countb_nonneg p [tr]).
    assert (X : 0 < countb p (h_par h) \/ 0 < countb p [t1]) by lia.
    destruct X as [X|X].
    + apply countb_pos_in in X. destruct (I_present c m1 a I1 s h G D) as [P1 _]. apply P1.
      rewrite (a_par_leaf a s h Hl G). exact X.
    + apply countb_pos_in in X. destruct X as [<-|[]]. apply get_scope_present.
  - intros y Hne. rewrite upd_edges_shape_other by exact Hne. unfold m4. rewrite decref_shape. apply S3.
  - apply upd_edges_good. unfold m4. apply decref_good, G3.
  - intros x. rewrite upd_edges_use. unfold m4. rewrite decref_use. pose proof (U3 x) as E3. rewrite U2 in E3.
    fold stt. exact E3.
Qed.

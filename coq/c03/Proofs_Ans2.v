(* C03 — answers of the model, part 2: the re-parenting operations refuse only
   with the sentinel (or a plain error when already attached). *)
From Coq Require Import List ZArith Bool Arith Lia.
From Verif Require Import lib.Wire c03.Int64 c03.Model c03.Spec c03.Proofs_Int64 c03.Proofs_Base
     c03.Proofs_Sum c03.Proofs_Reach c03.Proofs_Link c03.Proofs_Targets c03.Proofs_Frames c03.Proofs_Frames2
     c03.Proofs_Frames3 c03.Proofs_Kill c03.Proofs_OpsMem c03.Proofs_Done c03.Proofs_OpsDone c03.Proofs_OpsNew
     c03.Proofs_OpsOpen c03.Proofs_Hist c03.Proofs_Repar c03.Proofs_Repar2 c03.Proofs_Move c03.Proofs_Attach
     c03.Proofs_Attach1 c03.Proofs_Link2 c03.Proofs_Transfer c03.Proofs_OpsRepar c03.Proofs_SetPeer c03.Proofs_Hist2
     c03.Proofs_Prio c03.Proofs_Cap c03.Proofs_CapInv c03.Proofs_Cap2 c03.Proofs_Just c03.Proofs_Just2 c03.Proofs_Ans.
Import ListNotations.
Local Open Scope Z_scope.

Lemma static_live : forall c m a x, Inv c m a -> is_handle x = false -> get m x <> None -> is_done m x = false.
Proof.
  intros c m a x I Hh P. unfold is_done. destruct (get m x) as [sc|] eqn:G; [|contradiction].
  apply (I_static c m a I x sc G Hh).
Qed.

Lemma attach_code : forall c m a s h t1 t2 rel P' m' e,
  cfg_ok c -> Inv c m a -> leaf s = true -> hget (holders a) s = Some h ->
  is_created_view t1 = true -> is_handle t2 = false -> static_par t2 = [] -> t1 <> t2 ->
  novf m (mem (use_of m s)) ->
  attach c m s t1 t2 rel P' = (m', Some e) -> e = ELimit.
Proof.
  intros c m a s h t1 t2 rel P' m' e LO I Hl G V1 H2 Sp2 N12 Ov At. unfold attach in At.
  pose proof (at_I1 c m a t1 LO I V1) as I1. pose proof (at_k c m a s t1 LO I V1) as Hk.
  set (m1 := get_scope c m t1) in *. set (stt := use_of m1 s) in *.
  assert (Ht1 : is_handle t1 = false) by (destruct t1; try discriminate; reflexivity).
  assert (L1 : is_done m1 t1 = false) by (apply (static_live c m1 a t1 I1 Ht1), get_scope_present).
  destruct (charge_one t1 (KStat stt) m1) as [m2|e1] eqn:C1.
  2:{ inversion At; subst. apply (charge_one_live_code t1 (KStat stt) m1 e Hk (I_good c m1 a I1) L1 C1). }
  destruct (charge_one t2 (KStat stt) (get_subscope c m2 t2)) as [m4|e2] eqn:C2; [destruct rel; inversion At|].
  inversion At; subst.
  pose proof (at_ov1 c m a s t1 I V1 Ov) as Ov1. fold m1 stt in Ov1.
  destruct (charge_one_count t1 (KStat stt) m1 m2 Hk (I_good c m1 a I1) (Ov1 t1) C1) as (D1 & S2 & G2 & U2).
  set (m3 := get_subscope c m2 t2) in *.
  assert (G3 : all_good m3) by (apply get_subscope_good; assumption).
  pose proof (at_IB c m a t1 t2 LO I V1 H2 Sp2) as IB. fold m1 in IB. set (mB := get_subscope c m1 t2) in *.
  assert (S3 : shape_of m3 t2 = shape_of mB t2) by (apply get_subscope_shape_congr, S2).
  apply (charge_one_live_code t2 (KStat stt) m3 e Hk G3); [|exact C2].
  rewrite (is_done_shape m3 mB t2 S3). apply (static_live c mB a t2 IB H2), get_subscope_present.
Qed.

Lemma attach1_code : forall c m a s t1 tr P' m' e, cfg_ok c -> Inv c m a -> is_created_view t1 = true ->
  attach1 c m s t1 tr P' = (m', Some e) -> e = ELimit.
Proof.
  intros c m a s t1 tr P' m' e LO I V At. unfold attach1 in At.
  pose proof (at_I1 c m a t1 LO I V) as I1. pose proof (at_k c m a s t1 LO I V) as Hk.
  assert (Ht1 : is_handle t1 = false) by (destruct t1; try discriminate; reflexivity).
  destruct (charge_one t1 _ _) as [m2|e1] eqn:C1; inversion At; subst.
  apply (charge_one_live_code t1 _ _ e Hk (I_good c _ a I1)); [|exact C1].
  apply (static_live c _ a t1 I1 Ht1), get_scope_present.
Qed.

Lemma transfer_code : forall c m a aE i h m' e,
  cfg_ok c -> Inv c m a -> hget (holders a) (Conn i) = Some h -> holders aE = repar a (Conn i) h [] ->
  ~ In System (h_par h) -> novf m (mem (use_of m (Conn i))) ->
  transfer_allowed m i = (m', Some e) -> e = ELimit.
Proof.
  intros c m a aE i h m' e LO I G HaE Ns Ov T.
  pose proof (transfer_release c m a aE i h I G HaE) as P1. cbv zeta in P1.
  unfold transfer_allowed in T. fold (uncharge_dec (edges_of m (Conn i)) (KStat (use_of m (Conn i))) m) in T.
  set (stt := use_of m (Conn i)) in *.
  set (m2 := upd (uncharge_dec (edges_of m (Conn i)) (KStat stt) m) (Conn i) (fun sc => set_edges sc [])) in *.
  destruct P1 as (I2 & _ & U2).
  assert (Hk : kind_ok (KStat stt)) by (apply kind_ok_use, (I_good c m a I)).
  destruct (I_base c m2 aE I2) as (B1 & B2 & _).
  destruct (charge_one System (KStat stt) m2) as [m3|e1] eqn:C1.
  2:{ inversion T; subst. apply (charge_one_live_code System (KStat stt) m2 e Hk (I_good c m2 aE I2)); [|exact C1].
      apply (static_live c m2 aE System I2 eq_refl B1). }
  destruct (charge_one Transient (KStat stt) (incref m3 System)) as [m5|e2] eqn:C2; inversion T; subst.
  assert (Keep : use_of m2 System = use_of m System).
  { pose proof (U2 System) as E. rewrite (countb_notin System (h_par h) Ns), stat_scale_0, stat_add_0_r in E. exact E. }
  assert (Ov1 : mem (use_of m2 System) + mem (kdelta (KStat stt)) <= max_int64) by (rewrite Keep; cbn [kdelta]; apply Ov).
  destruct (charge_one_count System (KStat stt) m2 m3 Hk (I_good c m2 aE I2) Ov1 C1) as (_ & _ & G3 & _).
  apply (charge_one_live_code Transient (KStat stt) (incref m3 System) e Hk (incref_good _ _ G3)); [|exact C2].
  unfold is_done, incref. rewrite get_upd. cbn [sid_eqb].
  rewrite (charge_one_get_other System _ m2 m3 Transient C1 ltac:(discriminate)).
  destruct (get m2 Transient) as [sc|] eqn:Gt; [|contradiction]. apply (I_static c m2 aE I2 Transient sc Gt eq_refl).
Qed.

Theorem set_proto_code : forall c st a j p s,
  cfg_ok c -> Inv c (scopes st) a -> Link st a -> nget (astreams a) j = Some s ->
  novf (scopes st) (mem (use_of (scopes st) (Stream j))) ->
  answer_ok c a (OSetProto j p) (snd (set_proto c st j p)) = true.
Proof.
  intros c st a j p s LO I L Gs Ov. unfold answer_ok. cbn [other_refusal_ok]. rewrite Gs.
  destruct (proj2 L j s Gs) as (si & h & Gsi & Gh & Ep & Epr & Esv & Epar & Hsv).
  destruct (as_proto s) as [p0|] eqn:Ap.
  { unfold set_proto. rewrite Gsi, Epr. cbn. reflexivity. }
  pose proof (set_proto_eq c st j p si Gsi ltac:(congruence)) as Eq. cbv zeta in Eq.
  destruct (attach c (scopes st) (Stream j) (Proto p) (ProtoPeer p (si_peer si)) true _) as [m' e] eqn:At.
  rewrite Eq. cbn [snd]. destruct e as [e|]; [|reflexivity].
  rewrite (attach_code c (scopes st) a (Stream j) h (Proto p) (ProtoPeer p (si_peer si)) true _ m' e LO I eq_refl Gh eq_refl eq_refl eq_refl
             ltac:(discriminate) Ov At). reflexivity.
Qed.

Theorem set_svc_code : forall c st a j sv s,
  cfg_ok c -> Inv c (scopes st) a -> Link st a -> nget (astreams a) j = Some s ->
  novf (scopes st) (mem (use_of (scopes st) (Stream j))) ->
  answer_ok c a (OSetSvc j sv) (snd (set_svc c st j sv)) = true.
Proof.
  intros c st a j sv s LO I L Gs Ov. unfold answer_ok. cbn [other_refusal_ok]. rewrite Gs.
  destruct (proj2 L j s Gs) as (si & h & Gsi & Gh & Ep & Epr & Esv & Epar & Hsv).
  destruct (as_svc s) as [sv0|] eqn:As.
  { unfold set_svc. rewrite Gsi, Esv. cbn. reflexivity. }
  destruct (as_proto s) as [p|] eqn:Ap.
  2:{ unfold set_svc. rewrite Gsi, Esv, Epr. cbn. reflexivity. }
  pose proof (set_svc_eq c st j sv si p Gsi Esv Epr) as Eq. cbv zeta in Eq.
  destruct (attach c (scopes st) (Stream j) (Svc sv) (SvcPeer sv (si_peer si)) false _) as [m' e] eqn:At.
  rewrite Eq. cbn [snd]. destruct e as [e|]; [|reflexivity].
  rewrite (attach_code c (scopes st) a (Stream j) h (Svc sv) (SvcPeer sv (si_peer si)) false _ m' e LO I eq_refl Gh eq_refl eq_refl eq_refl
             ltac:(discriminate) Ov At). reflexivity.
Qed.

Theorem set_peer_code : forall c st a i q ac,
  cfg_ok c -> Inv c (scopes st) a -> Link st a -> nget (aconns a) i = Some ac ->
  novf (scopes st) (mem (use_of (scopes st) (Conn i))) ->
  answer_ok c a (OSetPeer i q) (snd (set_peer c st i q)) = true.
Proof.
  intros c st a i q ac LO I L Ga Ov. unfold answer_ok. cbn [other_refusal_ok]. rewrite Ga.
  destruct (proj1 L i ac Ga) as (ci & h & Gci & Gh & Epe & Eal & Eep & Hpar).
  destruct (ac_peer ac) as [q0|] eqn:Ap.
  { unfold set_peer. rewrite Gci, Epe. cbn. reflexivity. }
  specialize (Hpar eq_refl).
  assert (Ok : forall e : option err, (forall e0, e = Some e0 -> e0 = ELimit) ->
            (ecode e =? 0) || (ecode e =? 1) || ((ecode e =? 3) && false) = true).
  { intros [e0|] H; [rewrite (H e0 eq_refl)|]; reflexivity. }
  assert (Plain : (if ci_allow ci then match ci_ep ci with Some ip => allowed_peer c q ip | None => false end = true
                   else edges_of (scopes st) (Conn i) <> []) ->
                  (snd (set_peer c st i q) =? 0) || (snd (set_peer c st i q) =? 1) || ((snd (set_peer c st i q) =? 3) && false) = true).
  { intros Hc. pose proof (set_peer_eq c st i q ci Gci Epe Hc) as Eq. cbv zeta in Eq.
    destruct (attach1 c (scopes st) (Conn i) (Peer q) (tr_of (ci_allow ci)) [Peer q; sys_of (ci_allow ci)]) as [m' e] eqn:At.
    rewrite Eq. cbn [snd]. apply Ok. intros e0 ->. apply (attach1_code c (scopes st) a (Conn i) (Peer q) _ _ m' e0 LO I eq_refl At). }
  assert (Trans : forall ciT,
            ((ci_allow ci = true /\ match ci_ep ci with Some ip => allowed_peer c q ip | None => false end = false /\
              ciT = mkCinfo (ci_in ci) (ci_fd ci) false None (ci_ip ci) (ci_ep ci)) \/
             (ci_allow ci = false /\ edges_of (scopes st) (Conn i) = [] /\ ciT = ci)) ->
            ~ In System (h_par h) ->
            (snd (set_peer c st i q) =? 0) || (snd (set_peer c st i q) =? 1) || ((snd (set_peer c st i q) =? 3) && false) = true).
  { intros ciT HcT Ns. rewrite (set_peer_eqT c st i q ci ciT Gci Epe HcT).
    destruct (moved_fields a i ac h [] Gh) as (E1 & _). destruct (moved_fields a i ac h [System; Transient] Gh) as (S1 & _).
    pose proof (transfer_inv c (scopes st) a (moved_state a i ac []) (moved_state a i ac [System; Transient]) i h LO I Gh E1 S1 Ov) as T.
    pose proof (transfer_code c (scopes st) a (moved_state a i ac []) i h) as TC.
    destruct (transfer_allowed (scopes st) i) as [mt e]. destruct T as (Keep & T).
    destruct e as [e|].
    - cbn [snd]. apply Ok. intros e0 E0. inversion E0; subst e0. apply (TC mt e LO I Gh E1 Ns Ov eq_refl).
    - destruct T as (IS & _).
      destruct (attach1 c mt (Conn i) (Peer q) Transient [Peer q; System]) as [m' e2] eqn:At. cbn [snd].
      apply Ok. intros e0 ->. apply (attach1_code c mt _ (Conn i) (Peer q) _ _ m' e0 LO IS eq_refl At). }
  destruct (I_handle c _ a I (Conn i) h Gh eq_refl) as (sc & Gm & _ & _ & Pe & _). cbn [leaf] in Pe.
  assert (Ee : edges_of (scopes st) (Conn i) = h_par h) by (unfold edges_of; rewrite Gm; exact Pe).
  destruct (ac_allow ac) eqn:Al.
  - destruct Hpar as [Hp|(X & _)]; [|discriminate]. cbn [conn_par] in Hp.
    destruct (ep_allowed_peer c q (ac_ep ac)) eqn:Aq.
    + apply Plain. rewrite Eal, Eep. exact Aq.
    + apply (Trans (mkCinfo (ci_in ci) (ci_fd ci) false None (ci_ip ci) (ci_ep ci))).
      * left. split; [congruence|]. split; [rewrite Eep; exact Aq | reflexivity].
      * rewrite Hp. cbn. intuition discriminate.
  - destruct Hpar as [Hp|(_ & [Hp|Hp])]; cbn [conn_par] in Hp.
    + apply Plain. rewrite Eal, Ee, Hp. discriminate.
    + apply (Trans ci); [|rewrite Hp; cbn; tauto]. right. split; [congruence|]. split; [rewrite Ee; exact Hp | reflexivity].
    + apply Plain. rewrite Eal, Ee, Hp. discriminate.
Qed.

Lemma charge_neg_code3 : forall t k m r sz prio, k = KMem sz prio -> sz < 0 ->
  ecode (snd (charge_list (t :: r) [] k m)) = 2 /\ is_done m t = true \/ ecode (snd (charge_list (t :: r) [] k m)) = 3.
Proof.
  intros t k m r sz prio -> Hs. cbn [charge_list]. unfold charge_one, is_done.
  destruct (get m t) as [sc|]; [|left; split; reflexivity].
  destruct (s_done sc); [left; split; reflexivity|].
  cbn [rc_reserve]. unfold reserve_memory, check_memory.
  replace (sz <? 0) with true by (symmetry; apply Z.ltb_lt; exact Hs). right. reflexivity.
Qed.

Theorem reserve_code : forall c st a t sz prio,
  cfg_ok c -> Inv c (scopes st) a ->
  0 <= prio <= 255 -> sz <= max_int64 -> view_target t = true -> has_holder a t = true ->
  novf (scopes st) (Z.max sz 0) ->
  answer_ok c a (OReserve t sz prio) (snd (reserve_mem c st t sz prio)) = true.
Proof.
  intros c st a t sz prio LO I Hp Hsz V Hh Ov. unfold reserve_mem, answer_ok. cbn [other_refusal_ok].
  pose proof (has_holder_if a t Hh) as K.
  pose proof (extends_view_enter c (scopes st) a t I) as E0.
  set (m0 := view_enter c (scopes st) t) in *.
  assert (I0 : Inv c m0 a) by (apply (Inv_extends c (scopes st) m0 a LO I E0)).
  pose proof (view_enter_known c (scopes st) a t I V K) as Kn. fold m0 in Kn.
  unfold scope_reserve.
  destruct (Z_lt_le_dec sz 0) as [Hneg|Hpos].
  - pose proof (charge_neg_code3 t (KMem sz prio) m0 (chain_of m0 t ++ edges_of m0 (root_of m0 t)) sz prio eq_refl Hneg) as X.
    unfold targets. destruct (charge_list _ [] (KMem sz prio) m0) as [m1 e]. cbn [snd] in *.
    replace (sz <? 0) with true by (symmetry; apply Z.ltb_lt; exact Hneg).
    destruct X as [[X D]|X]; rewrite X; cbn [Z.eqb andb orb]; [|reflexivity].
    unfold closed_owner. rewrite <- (done_link c m0 a t I0 Kn), D. reflexivity.
  - destruct (targets_spec c m0 a t I0 K) as (Nd & _ & _).
    assert (Hk : kind_ok (KMem sz prio)) by (cbn; lia).
    assert (Ov0 : forall x, In x (targets m0 t) -> mem (use_of m0 x) + mem (kdelta (KMem sz prio)) <= max_int64).
    { intros x _. destruct (E0 x) as [U _]. rewrite U. cbn. specialize (Ov x). lia. }
    destruct (charge_list (targets m0 t) [] (KMem sz prio) m0) as [m1 e] eqn:Cl. cbn [snd].
    destruct e as [e|]; [|reflexivity].
    destruct (charge_list_refused _ [] _ m0 m1 e Hk (I_good c m0 a I0) Nd Ov0 Cl) as (p & x & q & El & Lp & Rx).
    destruct Rx as [[Dx ->]|[-> _]]; [|reflexivity]. cbn [ecode Z.eqb andb orb].
    rewrite (targets_closed c m0 a t I0 Kn p x q El Lp Dx). reflexivity.
Qed.

Theorem begin_span_code : forall c st a t k,
  cfg_ok c -> Inv c (scopes st) a -> view_target t = true -> has_holder a t = true ->
  answer_ok c a (OBeginSpan t k) (snd (begin_span c st t k)) = true.
Proof.
  intros c st a t k LO I V Hh. unfold begin_span, answer_ok. cbn [other_refusal_ok].
  pose proof (has_holder_if a t Hh) as K.
  pose proof (extends_view_enter c (scopes st) a t I) as E0.
  set (m0 := view_enter c (scopes st) t) in *.
  assert (I0 : Inv c m0 a) by (apply (Inv_extends c (scopes st) m0 a LO I E0)).
  pose proof (view_enter_known c (scopes st) a t I V K) as Kn. fold m0 in Kn.
  pose proof (done_link c m0 a t I0 Kn) as Dl. unfold is_done in Dl.
  destruct (get m0 t) as [sc|] eqn:Gm.
  - destruct (s_done sc); cbn [snd]; [rewrite <- Dl; reflexivity | reflexivity].
  - cbn [snd]. rewrite <- Dl. reflexivity.
Qed.

(* every answer of the model is a legal answer *)
Theorem ans_step : forall c st a o, cfg_ok c -> InvL c st a -> CapInv c st a ->
  match o with OGC => True | _ => wf_op2 c st a o end ->
  answer_ok c a o (snd (step c st o)) = true.
Proof.
  intros c st a o LO [I L] Ci Wf. destruct o; cbn [wf_op2 wf_op step] in *; try reflexivity.
  - pose proof (open_conn_code c st a i inb usefd ep LO I Wf) as H.
    destruct (open_conn c st i inb usefd ep) as [st' cls]. cbn [snd]. unfold answer_ok. cbn [other_refusal_ok].
    destruct H as [->|[->|[-> (ip & -> & LA)]]]; try reflexivity.
    rewrite (limiter_add_refused c (lims st) ip (open_ips a false) (proj1 Ci) LA). reflexivity.
  - destruct Wf as ((ac & Ga) & Ov). apply (set_peer_code c st a i q ac LO I L Ga Ov).
  - unfold answer_ok. destruct (open_stream_code c st a j q inb LO I Wf) as [->| ->]; reflexivity.
  - destruct Wf as ((s & Gs) & Ov). apply (set_proto_code c st a j p s LO I L Gs Ov).
  - destruct Wf as ((s0 & Gs) & Ov). apply (set_svc_code c st a j s s0 LO I L Gs Ov).
  - destruct Wf as (Hp & Hsz & V & Hh & Ov). apply (reserve_code c st a t sz prio LO I Hp Hsz V Hh Ov).
  - destruct Wf as (V & Hh & _). apply (begin_span_code c st a t k LO I V Hh).
  - unfold done_op. destruct t; reflexivity.
Qed.

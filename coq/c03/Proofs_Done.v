(* C03 — Done on a connection / stream / span with an open holder: the model's
   doneUnlocked against the abstract kill. *)
From Coq Require Import List ZArith Bool Arith Lia.
From Verif Require Import lib.Wire c03.Int64 c03.Model c03.Spec c03.Proofs_Int64 c03.Proofs_Base
     c03.Proofs_Sum c03.Proofs_Reach c03.Proofs_Link c03.Proofs_Targets c03.Proofs_Frames c03.Proofs_Frames2
     c03.Proofs_Frames3 c03.Proofs_Kill c03.Proofs_OpsMem.
Import ListNotations.
Local Open Scope Z_scope.

(* the edge loop of doneUnlocked: ReleaseForChild + DecRef per edge *)
Definition uncharge_dec (l : list sid) (k : rkind) (m : smap) : smap :=
  fold_left (fun m e => decref (uncharge_one e k m) e) l m.

Lemma uncharge_dec_exact : forall l k m, kind_ok k -> all_good m -> NoDup l -> all_live m l ->
  (forall t, In t l -> stat_le (kdelta k) (use_of m t)) ->
  (forall x, shape_of (uncharge_dec l k m) x = shape_of m x) /\
  all_good (uncharge_dec l k m) /\
  (forall x, use_of (uncharge_dec l k m) x =
             if in_dec sid_dec x l then stat_sub (use_of m x) (kdelta k) else use_of m x).
Proof.
  induction l as [|t r IH]; intros k m Hk Hg Hn Hl Hle.
  - cbn. split; [reflexivity|]. split; [assumption|]. intros x. reflexivity.
  - unfold uncharge_dec in *. cbn [fold_left]. inversion Hn as [|? ? Hnotin Hnr]; subst.
    destruct (uncharge_one_props t k m Hk Hg) as (Sh & Gd & Oth & _ & Ex & _).
    specialize (Ex (Hl t (or_introl eq_refl)) (Hle t (or_introl eq_refl))).
    set (m1 := decref (uncharge_one t k m) t).
    assert (Sh1 : forall x, shape_of m1 x = shape_of m x) by (intros x; unfold m1; rewrite decref_shape; apply Sh).
    assert (U1 : forall x, use_of m1 x = use_of (uncharge_one t k m) x) by (intros x; unfold m1; apply decref_use).
    assert (Gd1 : all_good m1) by (unfold m1; apply decref_good, Gd).
    assert (Hl' : all_live m1 r).
    { intros x Hx. rewrite (is_done_shape _ m x (Sh1 x)). apply Hl. right. exact Hx. }
    assert (Hle' : forall x, In x r -> stat_le (kdelta k) (use_of m1 x)).
    { intros x Hx. rewrite U1, Oth; [apply Hle; right; exact Hx|]. intros ->. contradiction. }
    destruct (IH k m1 Hk Gd1 Hnr Hl' Hle') as (Sh2 & Gd2 & U2).
    split; [intros x; rewrite Sh2; apply Sh1|]. split; [exact Gd2|].
    intros x. rewrite U2, U1. destruct (in_dec sid_dec x r) as [Hi|Hi].
    + destruct (in_dec sid_dec x (t :: r)) as [_|Hc]; [|exfalso; apply Hc; right; exact Hi].
      rewrite Oth; [reflexivity|]. intros ->. contradiction.
    + destruct (sid_dec x t) as [->|Hne].
      * destruct (in_dec sid_dec t (t :: r)) as [_|Hc]; [exact Ex | exfalso; apply Hc; left; reflexivity].
      * destruct (in_dec sid_dec x (t :: r)) as [[Hc|Hc]|_]; [congruence | contradiction |].
        apply Oth, Hne.
Qed.

(* closing the scope itself *)
Lemma upd_done_get : forall m t x,
  get (upd m t set_done) x = if sid_eqb t x then option_map set_done (get m t) else get m x.
Proof. intros. apply get_upd. Qed.

Section DoneCore.
  Variables (c : config) (m m1 : smap) (a : astate) (t : sid) (h : holder) (sc : scope) (tail : list sid).
  Hypothesis I : Inv c m a.
  Hypothesis Ht : is_handle t = true.
  Hypothesis G : hget (holders a) t = Some h.
  Hypothesis D : h_dead h = false.
  Hypothesis Gm : get m t = Some sc.
  Hypothesis Rt : areach a t = t :: tail.
  Hypothesis S1 : forall x, shape_of m1 x = shape_of m x.
  Hypothesis G1 : all_good m1.
  Hypothesis U1 : forall x, use_of m1 x = if in_dec sid_dec x tail then stat_sub (use_of m x) (s_use sc) else use_of m x.
  Let W := I_wf c m a I.
  Let m' := upd m1 t set_done.
  Let a' := kill a t.

  Lemma dc_notin : ~ In t tail.
  Proof. pose proof (reach_nodup a t W) as N. rewrite Rt in N. inversion N; assumption. Qed.

  Lemma dc_get_t : exists sc1, get m1 t = Some sc1 /\ s_lim sc1 = s_lim sc /\ s_done sc1 = s_done sc /\
                               s_chain sc1 = s_chain sc /\ s_edges sc1 = s_edges sc /\ s_use sc1 = s_use sc.
  Proof.
    destruct (shape_get m m1 t sc (S1 t) Gm) as (sc1 & G1' & Q1 & Q2 & Q3 & Q4). exists sc1.
    repeat split; try assumption. rewrite <- (use_of_get m1 t sc1 G1'), U1.
    destruct (in_dec sid_dec t tail) as [X|_]; [exfalso; apply dc_notin, X | apply use_of_get, Gm].
  Qed.

  Lemma dc_shape : forall x, x <> t -> shape_of m' x = shape_of m x.
  Proof.
    intros x Hne. unfold shape_of, m'. rewrite upd_done_get. destruct (sid_eqb t x) eqn:X; [apply sid_eqb_eq in X; congruence|].
    apply S1.
  Qed.

  Lemma dc_use : forall x, stat_add (use_of m' x) (stat_scale (countb x (areach a t)) (s_use sc)) = use_of m x.
  Proof.
    intros x. unfold m', use_of at 1. rewrite upd_done_get. rewrite Rt. cbn [countb].
    destruct (sid_eqb t x) eqn:X.
    - apply sid_eqb_eq in X. subst x. destruct dc_get_t as (sc1 & G1' & _). rewrite G1'. cbn.
      rewrite (countb_notin t tail dc_notin), (use_of_get m t sc Gm).
      rewrite ?Z.add_0_r, stat_scale_1, stat_add_0_l. reflexivity.
    - fold (use_of m1 x). rewrite U1, (countb_in_dec x tail).
      + destruct (in_dec sid_dec x tail); generalize (use_of m x) (s_use sc); intros [] [];
          unfold stat_add, stat_sub, stat_scale; cbn [Model.mem Model.sin Model.sout Model.cin Model.cout Model.fd]; f_equal; lia.
      + pose proof (reach_nodup a t W) as N. rewrite Rt in N. inversion N; assumption.
  Qed.

  Lemma dc_get' : forall x, get m' x = if sid_eqb t x then option_map set_done (get m1 t) else get m1 x.
  Proof. intros x. unfold m'. apply upd_done_get. Qed.

  Lemma dc_use_t : s_use sc = usage_A a t.
  Proof. rewrite <- (I_num c m a I t). symmetry. apply use_of_get, Gm. Qed.

  Lemma dc_num : forall x, use_of m' x = usage_A a' x.
  Proof.
    intros x. pose proof (dc_use x) as E1. pose proof (usage_kill a t h W Ht G D x) as E2.
    fold a' in E2. rewrite (I_num c m a I x), dc_use_t in E1. revert E1 E2.
    generalize (use_of m' x) (usage_A a' x) (stat_scale (countb x (areach a t)) (usage_A a t)) (usage_A a x).
    intros [] [] [] [] E1 E2. injection E1; injection E2; intros. f_equal; lia.
  Qed.

  Lemma Inv_done_core : Inv c m' a'.
  Proof.
    destruct dc_get_t as (sc1 & G1' & Q1 & Q2 & Q3 & Q4 & Q5).
    assert (Hg' : forall x, x <> t -> get m' x = get m1 x).
    { intros x Hne. rewrite dc_get'. destruct (sid_eqb t x) eqn:X; [apply sid_eqb_eq in X; congruence | reflexivity]. }
    assert (Hgt : get m' t = Some (set_done sc1)) by (rewrite dc_get', sid_eqb_refl, G1'; reflexivity).
    assert (Pres : forall q, get m q <> None -> get m' q <> None).
    { intros q Gq. destruct (sid_dec q t) as [->|Hne]; [rewrite Hgt; discriminate|].
      rewrite Hg' by exact Hne. apply (shape_present m m1 q (S1 q) Gq). }
    constructor.
    - apply (WfA_kill a t h W Ht G).
    - intros x scx Gx. destruct (sid_dec x t) as [->|Hne].
      + rewrite Hgt in Gx. inversion Gx; subst scx. destruct (G1 t sc1 G1') as (L & _ & _).
        split; [exact L|]. cbn. destruct L as (H1 & H2 & H3 & H4 & H5 & H6 & H7 & H8).
        split; [stat_crush | unfold fits; cbn; repeat split; lia].
      + rewrite Hg' in Gx by exact Hne. apply (G1 x scx Gx).
    - intros x scx Gx Hh. assert (Hne : x <> t) by (intros ->; congruence).
      rewrite Hg' in Gx by exact Hne. pose proof (S1 x) as Sx. unfold shape_of in Sx. rewrite Gx in Sx.
      destruct (get m x) as [sc0|] eqn:G0; cbn in Sx; [|discriminate]. unfold shape in Sx. inversion Sx as [[E1 E2 E3 E4]].
      rewrite E1, E2, E3, E4. apply (I_static c m a I x sc0 G0 Hh).
    - destruct (I_base c m a I) as (B1 & B2 & B3 & B4). repeat split; apply Pres; assumption.
    - intros y hy Gy Hh. unfold a' in Gy. rewrite (kill_hget a t h G) in Gy. destruct (sid_eqb t y) eqn:X.
      + apply sid_eqb_eq in X. subst y. inversion Gy; subst hy; cbn.
        destruct (I_handle c m a I t h G Ht) as (sc0 & Gm0 & P1 & P2 & P3 & P4). rewrite Gm in Gm0. inversion Gm0; subst sc0.
        exists (set_done sc1). split; [exact Hgt|]. cbn. rewrite Q3, Q4, Q1.
        unfold a_limit. unfold a'. destruct t; try (repeat split; assumption).
        rewrite (kill_chain a _ h G). repeat split; assumption.
      + apply sid_eqb_neq in X. destruct (I_handle c m a I y hy Gy Hh) as (sc0 & Gm0 & P1 & P2 & P3 & P4).
        destruct (shape_get m m1 y sc0 (S1 y) Gm0) as (scy & Gy1 & R1 & R2 & R3 & R4).
        exists scy. rewrite Hg' by congruence. split; [exact Gy1|]. rewrite R1, R2, R3, R4.
        unfold a_limit, a'. destruct y; try (repeat split; assumption).
        rewrite (kill_chain a t h G). repeat split; assumption.
    - intros y hy Gy Dy. unfold a' in Gy. rewrite (kill_hget a t h G) in Gy. destruct (sid_eqb t y) eqn:X.
      + inversion Gy; subst hy. discriminate.
      + destruct (I_present c m a I y hy Gy Dy) as [P1 P2]. unfold a'. rewrite (kill_par a t h G). split.
        * intros q Hq. apply Pres, P1, Hq.
        * intros o Ho Hs. apply Pres, (P2 o Ho Hs).
    - intros y scy Gy Hh Hn. unfold a' in Hn. rewrite (kill_hget a t h G) in Hn.
      destruct (sid_eqb t y) eqn:X; [discriminate|]. apply sid_eqb_neq in X.
      rewrite Hg' in Gy by congruence. pose proof (S1 y) as Sy. unfold shape_of in Sy. rewrite Gy in Sy.
      destruct (get m y) as [sc0|] eqn:G0; cbn in Sy; [|discriminate].
      destruct (I_garbage c m a I y sc0 G0 Hh Hn) as [Dn Z]. unfold shape in Sy. inversion Sy as [[E1 E2 E3 E4]].
      split; [rewrite E2; exact Dn|].
      rewrite <- (use_of_get m1 y scy Gy), U1.
      destruct (in_dec sid_dec y tail) as [Hi|_]; [|rewrite (use_of_get m y sc0 G0); exact Z].
      exfalso. assert (Hr : In y (areach a t)) by (rewrite Rt; right; exact Hi).
      destruct (reach_in a t y W Hr) as [X1|[X1|X1]]; [congruence | | congruence].
      apply (chain_holders a t y W X1 Hh). exact Hn.
    - exact dc_num.
  Qed.
End DoneCore.

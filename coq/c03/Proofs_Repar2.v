(* C03 — the frame lemma for re-parenting: the model moved the whole stat of a
   connection / stream from its old parents to the new ones. *)
From Coq Require Import List ZArith Bool Arith Lia.
From Verif Require Import lib.Wire c03.Int64 c03.Model c03.Spec c03.Proofs_Int64 c03.Proofs_Base
     c03.Proofs_Sum c03.Proofs_Reach c03.Proofs_Link c03.Proofs_Targets c03.Proofs_Frames c03.Proofs_Frames2
     c03.Proofs_Frames3 c03.Proofs_Kill c03.Proofs_Repar.
Import ListNotations.
Local Open Scope Z_scope.

Lemma Inv_repar : forall c m m' a a' s h P' sc sc',
  Inv c m a -> leaf s = true -> hget (holders a) s = Some h ->
  holders a' = hset (holders a) s (mkHolder (h_own h) P' (h_chain h) (h_dead h)) ->
  NoDup P' -> (forall p, In p P' -> is_handle p = false) ->
  (h_dead h = false -> forall p, In p P' -> get m' p <> None) ->
  (forall y, y <> s -> shape_of m' y = shape_of m y) ->
  get m s = Some sc -> get m' s = Some sc' ->
  s_lim sc' = s_lim sc -> s_done sc' = s_done sc -> s_chain sc' = s_chain sc -> s_edges sc' = P' ->
  all_good m' ->
  (forall x, stat_add (use_of m' x) (stat_scale (countb x (areach a s)) (use_of m s))
           = stat_add (use_of m x) (stat_scale (countb x (areach a' s)) (use_of m s))) ->
  Inv c m' a'.
Proof.
  intros c m m' a a' s h P' sc sc' I Hl G Ha' Nd St HP Oth Gm Gm' Q1 Q2 Q3 Q4 Gd U.
  pose proof (I_wf c m a I) as W.
  assert (Hs : is_handle s = true) by (destruct s; try discriminate; reflexivity).
  pose proof (WfA_repar a a' s h P' W Hl G Ha' Nd St) as W'.
  assert (Pres : forall q, get m q <> None -> get m' q <> None).
  { intros q Gq. destruct (sid_dec q s) as [->|Hne]; [rewrite Gm'; discriminate | apply (shape_present m m' q (Oth q Hne) Gq)]. }
  assert (Hg : forall y, hget (holders a') y = if sid_eqb s y then Some (mkHolder (h_own h) P' (h_chain h) (h_dead h)) else hget (holders a) y)
    by (apply (rp_hget a a' s h P' Ha')).
  destruct (I_handle c m a I s h G Hs) as (sc0 & G0 & Pd & Pc & Pe & Pl). rewrite Gm in G0. inversion G0; subst sc0.
  constructor.
  - exact W'.
  - exact Gd.
  - intros y scy Gy Hh. assert (Hne : y <> s) by (intros ->; congruence).
    pose proof (Oth y Hne) as Sy. unfold shape_of in Sy. rewrite Gy in Sy.
    destruct (get m y) as [sc1|] eqn:G1; cbn in Sy; [|discriminate]. unfold shape in Sy. inversion Sy as [[E1 E2 E3 E4]].
    rewrite E1, E2, E3, E4. apply (I_static c m a I y sc1 G1 Hh).
  - destruct (I_base c m a I) as (B1 & B2 & B3 & B4). repeat split; apply Pres; assumption.
  - intros y hy Gy Hh. rewrite Hg in Gy. destruct (sid_eqb s y) eqn:X.
    + apply sid_eqb_eq in X. subst y. inversion Gy; subst hy; cbn. exists sc'. rewrite Hl, Q1, Q2, Q3, Q4.
      repeat split; try assumption. rewrite Pl. unfold a_limit. destruct s; try discriminate; reflexivity.
    + apply sid_eqb_neq in X. destruct (I_handle c m a I y hy Gy Hh) as (sc1 & G1 & R).
      destruct (shape_get m m' y sc1 (Oth y ltac:(congruence)) G1) as (scy & Gy' & T1 & T2 & T3 & T4).
      exists scy. rewrite T1, T2, T3, T4. split; [exact Gy'|].
      assert (El : a_limit c a' y = a_limit c a y).
      { unfold a_limit. destruct y; try reflexivity. rewrite (rp_chain a a' s h P' G Ha'). reflexivity. }
      rewrite El. exact R.
  - intros y hy Gy Dy. rewrite Hg in Gy. destruct (sid_eqb s y) eqn:X.
    + apply sid_eqb_eq in X. subst y. inversion Gy; subst hy; cbn.
      rewrite (rp_par_s a a' s h P' Hl Ha'). split; [intros q Hq; apply (HP Dy q Hq)|].
      intros o Ho. destruct (W_leaf a W s h G Hl) as [Ec _]. rewrite Ec in Ho. discriminate Ho.
    + apply sid_eqb_neq in X. destruct (I_present c m a I y hy Gy Dy) as [P1 P2].
      rewrite (rp_par_other a a' s h P' Ha' y) by congruence. split.
      * intros q Hq. apply Pres, P1, Hq.
      * intros o Ho Hst. apply Pres, (P2 o Ho Hst).
  - intros y scy Gy Hh Hn. rewrite Hg in Hn. destruct (sid_eqb s y) eqn:X; [discriminate|]. apply sid_eqb_neq in X.
    pose proof (Oth y ltac:(congruence)) as Sy. unfold shape_of in Sy. rewrite Gy in Sy.
    destruct (get m y) as [sc1|] eqn:G1; cbn in Sy; [|discriminate]. unfold shape in Sy. inversion Sy as [[E1 E2 E3 E4]].
    destruct (I_garbage c m a I y sc1 G1 Hh Hn) as [D Z]. split; [rewrite E2; exact D|].
    assert (C0 : forall b, WfA b -> hget (holders b) y = None -> a_chain b s = [] -> countb y (areach b s) = 0).
    { intros b Wb Nb Cb. apply countb_notin. intros Xr. destruct (reach_in b s y Wb Xr) as [X1|[X1|X1]]; [congruence | | congruence].
      rewrite Cb in X1. destruct X1. }
    pose proof (U y) as Uy.
    rewrite (C0 a W Hn (rp_chain_s a s h W Hl G)) in Uy.
    rewrite (C0 a' W') in Uy.
    + rewrite !stat_scale_0, !stat_add_0_r in Uy. rewrite <- (use_of_get m' y scy Gy), Uy, (use_of_get m y sc1 G1). exact Z.
    + rewrite Hg. destruct (sid_eqb s y) eqn:Y; [apply sid_eqb_eq in Y; congruence | exact Hn].
    + rewrite (rp_chain a a' s h P' G Ha'). apply (rp_chain_s a s h W Hl G).
  - intros x. pose proof (U x) as Ux. pose proof (usage_repar a a' s h P' W Hl G Ha' x) as Ax.
    rewrite (I_num c m a I x), (I_num c m a I s) in Ux. revert Ux Ax.
    generalize (use_of m' x) (usage_A a' x) (usage_A a x)
               (stat_scale (countb x (areach a s)) (usage_A a s)) (stat_scale (countb x (areach a' s)) (usage_A a s)).
    intros [] [] [] [] [] Ux Ax. unfold stat_add in *. injection Ux; injection Ax; intros. f_equal; lia.
Qed.

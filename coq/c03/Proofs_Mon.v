(* C03 — the monitor that judges implementation traces accepts the model's
   own trace.  Part 1: the observed map follows the model's scope map. *)
From Coq Require Import List ZArith Bool Arith Lia.
From Verif Require Import lib.Wire c03.Int64 c03.Model c03.Spec c03.Proofs_Int64 c03.Proofs_Base
     c03.Proofs_Sum c03.Proofs_Reach c03.Proofs_Link c03.Proofs_Targets c03.Proofs_Frames c03.Proofs_Frames2
     c03.Proofs_Frames3 c03.Proofs_Kill c03.Proofs_OpsMem c03.Proofs_Done c03.Proofs_OpsDone c03.Proofs_OpsNew
     c03.Proofs_OpsOpen c03.Proofs_Hist.
Import ListNotations.
Local Open Scope Z_scope.

Lemma oget_oset : forall m t v x, oget (oset m t v) x = if sid_eqb t x then Some v else oget m x.
Proof.
  induction m as [|[y e] r IH]; intros t v x; cbn.
  - destruct (sid_eqb t x); reflexivity.
  - destruct (sid_eqb y t) eqn:E; cbn.
    + apply sid_eqb_eq in E. subst y. destruct (sid_eqb t x); reflexivity.
    + destruct (sid_eqb t x) eqn:E2.
      * apply sid_eqb_eq in E2. subst x. rewrite E. rewrite IH, sid_eqb_refl. reflexivity.
      * destruct (sid_eqb y x); [reflexivity|]. rewrite IH, E2. reflexivity.
Qed.

Lemma ostat_delta_other : forall d m t, (forall e, In e d -> e_sid e <> t) ->
  ostat (apply_delta m d) t = ostat m t.
Proof.
  induction d as [|e r IH]; intros m t H; [reflexivity|]. unfold apply_delta in *. cbn [fold_left].
  rewrite IH by (intros e' He'; apply H; right; exact He').
  unfold ostat. rewrite oget_oset. destruct (sid_eqb (e_sid e) t) eqn:X; [|reflexivity].
  apply sid_eqb_eq in X. exfalso. apply (H e (or_introl eq_refl) X).
Qed.

Lemma ostat_delta_hit : forall d m t v, (forall e, In e d -> e_sid e = t -> e_stat e = v) ->
  (exists e, In e d /\ e_sid e = t) -> ostat (apply_delta m d) t = v.
Proof.
  induction d as [|e r IH]; intros m t v Hv [e0 [Hi He]]; [destruct Hi|]. unfold apply_delta in *. cbn [fold_left].
  destruct (in_dec sid_dec t (map e_sid r)) as [Hr|Hr].
  - apply IH; [intros e' He' E'; apply Hv; [right; exact He' | exact E']|].
    apply in_map_iff in Hr. destruct Hr as (e1 & E1 & I1). exists e1. split; assumption.
  - fold (apply_delta (oset m (e_sid e) e) r). rewrite ostat_delta_other.
    + unfold ostat. rewrite oget_oset. destruct Hi as [<-|Hi].
      * rewrite He, sid_eqb_refl. apply Hv; [left; reflexivity | exact He].
      * exfalso. apply Hr. apply in_map_iff. exists e0. split; assumption.
    + intros e' He' E'. apply Hr. apply in_map_iff. exists e'. split; assumption.
Qed.

Lemma get_in_keys : forall m t sc, get m t = Some sc -> In t (map fst m).
Proof.
  induction m as [|[y s] r IH]; intros t sc G; cbn in *; [discriminate|].
  sid_cases y t; [left; reflexivity | right; apply (IH t sc G)].
Qed.

Lemma get_notin_keys : forall m t, ~ In t (map fst m) -> get m t = None.
Proof.
  intros m t H. destruct (get m t) as [sc|] eqn:G; [|reflexivity]. exfalso. apply H, (get_in_keys m t sc G).
Qed.

Lemma keys_get : forall m t, In t (map fst m) -> get m t <> None.
Proof.
  induction m as [|[y s] r IH]; intros t H; cbn in *; [destruct H|].
  destruct (sid_eqb y t) eqn:X; [discriminate|]. destruct H as [H|H]; [apply sid_eqb_neq in X; congruence | apply IH, H].
Qed.

(* the monitor's view of the stats after a model step is the model's scope map *)
Lemma obs_follows : forall st st' o cls m,
  (forall t, ostat m t = use_of (scopes st) t) ->
  forall t, ostat (apply_delta m (o_delta (model_obs st st' o cls))) t = use_of (scopes st') t.
Proof.
  intros st st' o cls m L t. unfold model_obs. cbn [o_delta].
  set (d1 := map (fun e => entry_of (scopes st') (fst e)) (scopes st')).
  set (gone := filter (fun t0 => match get (scopes st') t0 with None => true | Some _ => false end) (map fst (scopes st))).
  set (d2 := map (fun t0 => mkEntry t0 stat0 0 2) gone).
  assert (Hv : forall e, In e (d1 ++ d2) -> e_sid e = t -> e_stat e = use_of (scopes st') t).
  { intros e He Et. apply in_app_or in He. destruct He as [He|He].
    - apply in_map_iff in He. destruct He as ([x sc] & <- & Hx). cbn [fst] in *. unfold entry_of in *.
      destruct (get (scopes st') x) as [scx|] eqn:G; cbn in Et |- *; subst x; unfold use_of; rewrite G; reflexivity.
    - apply in_map_iff in He. destruct He as (x & <- & Hx). cbn in Et |- *. subst x.
      apply filter_In in Hx. destruct Hx as [_ Hx]. unfold use_of. destruct (get (scopes st') t); [discriminate | reflexivity]. }
  destruct (in_dec sid_dec t (map e_sid (d1 ++ d2))) as [Hi|Hi].
  - apply ostat_delta_hit; [exact Hv|]. apply in_map_iff in Hi. destruct Hi as (e & E & I). exists e. split; assumption.
  - rewrite ostat_delta_other by (intros e He E; apply Hi, in_map_iff; exists e; split; assumption).
    rewrite L.
    assert (N' : get (scopes st') t = None).
    { apply get_notin_keys. intros X. apply Hi. rewrite map_app. apply in_or_app. left. unfold d1. rewrite map_map.
      apply in_map_iff in X. destruct X as ([x sc] & Ex & Ix). cbn in Ex. subst x.
      apply in_map_iff. exists (t, sc). split; [|exact Ix]. cbn. unfold entry_of. destruct (get (scopes st') t); reflexivity. }
    assert (N : get (scopes st) t = None).
    { apply get_notin_keys. intros X. apply Hi. rewrite map_app. apply in_or_app. right. unfold d2. rewrite map_map. cbn.
      rewrite map_id. unfold gone. apply filter_In. split; [exact X | rewrite N'; reflexivity]. }
    unfold use_of. rewrite N, N'. reflexivity.
Qed.

(* C03 — the monitor that judges implementation traces accepts the model's
   own trace.  Part 1: the observed map follows the model's scope map. *)
From Coq Require Import List ZArith Bool Arith Lia.
From Verif Require Import lib.Wire c03.Int64 c03.Model c03.Spec c03.Proofs_Int64 c03.Proofs_Base
     c03.Proofs_Sum c03.Proofs_Reach c03.Proofs_Link c03.Proofs_Targets c03.Proofs_Frames c03.Proofs_Frames2
     c03.Proofs_Frames3 c03.Proofs_Kill c03.Proofs_OpsMem c03.Proofs_Done c03.Proofs_OpsDone c03.Proofs_OpsNew
     c03.Proofs_OpsOpen c03.Proofs_Hist.
Import ListNotations.
Local Open Scope Z_scope.

Lemma oget_oset : forall m t v x, oget (oset m t v) x = if sid_eqb t x then Some v else oget m x.
Proof.
  induction m as [|[y e] r IH]; intros t v x; cbn.
  - destruct (sid_eqb t x); reflexivity.
  - destruct (sid_eqb y t) eqn:E; cbn.
    + apply sid_eqb_eq in E. subst y. destruct (sid_eqb t x); reflexivity.
    + destruct (sid_eqb t x) eqn:E2.
      * apply sid_eqb_eq in E2. subst x. rewrite E. rewrite IH, sid_eqb_refl. reflexivity.
      * destruct (sid_eqb y x); [reflexivity|]. rewrite IH, E2. reflexivity.
Qed.

Lemma ostat_delta_other : forall d m t, (forall e, In e d -> e_sid e <> t) ->
  ostat (apply_delta m d) t = ostat m t.
Proof.
  induction d as [|e r IH]; intros m t H; [reflexivity|]. unfold apply_delta in *. cbn [fold_left].
  rewrite IH by (intros e' He'; apply H; right; exact He').
  unfold ostat. rewrite oget_oset. destruct (sid_eqb (e_sid e) t) eqn:X; [|reflexivity].
  apply sid_eqb_eq in X. exfalso. apply (H e (or_introl eq_refl) X).
Qed.

Lemma ostat_delta_hit : forall d m t v, (forall e, In e d -> e_sid e = t -> e_stat e = v) ->
  (exists e, In e d /\ e_sid e = t) -> ostat (apply_delta m d) t = v.
Proof.
  induction d as [|e r IH]; intros m t v Hv [e0 [Hi He]]; [destruct Hi|]. unfold apply_delta in *. cbn [fold_left].
  destruct (in_dec sid_dec t (map e_sid r)) as [Hr|Hr].
  - apply IH; [intros e' He' E'; apply Hv; [right; exact He' | exact E']|].
    apply in_map_iff in Hr. destruct Hr as (e1 & E1 & I1). exists e1. split; assumption.
  - fold (apply_delta (oset m (e_sid e) e) r). rewrite ostat_delta_other.
    + unfold ostat. rewrite oget_oset. destruct Hi as [<-|Hi].
      * rewrite He, sid_eqb_refl. apply Hv; [left; reflexivity | exact He].
      * exfalso. apply Hr. apply in_map_iff. exists e0. split; assumption.
    + intros e' He' E'. apply Hr. apply in_map_iff. exists e'. split; assumption.
Qed.

Lemma get_in_keys : forall m t sc, get m t = Some sc -> In t (map fst m).
Proof.
  induction m as [|[y s] r IH]; intros t sc G; cbn in *; [discriminate|].
  sid_cases y t; [left; reflexivity | right; apply (IH t sc G)].
Qed.

Lemma get_notin_keys : forall m t, ~ In t (map fst m) -> get m t = None.
Proof.
  intros m t H. destruct (get m t) as [sc|] eqn:G; [|reflexivity]. exfalso. apply H, (get_in_keys m t sc G).
Qed.

Lemma keys_get : forall m t, In t (map fst m) -> get m t <> None.
Proof.
  induction m as [|[y s] r IH]; intros t H; cbn in *; [destruct H|].
  destruct (sid_eqb y t) eqn:X; [discriminate|]. destruct H as [H|H]; [apply sid_eqb_neq in X; congruence | apply IH, H].
Qed.

(* the monitor's view of the stats after a model step is the model's scope map *)
Lemma obs_follows : forall st st' o cls m,
  (forall t, ostat m t = use_of (scopes st) t) ->
  forall t, ostat (apply_delta m (o_delta (model_obs st st' o cls))) t = use_of (scopes st') t.
Proof.
  intros st st' o cls m L t. unfold model_obs. cbn [o_delta].
  set (d1 := map (fun e => entry_of (scopes st') (fst e)) (scopes st')).
  set (gone := filter (fun t0 => match get (scopes st') t0 with None => true | Some _ => false end) (map fst (scopes st))).
  set (d2 := map (fun t0 => mkEntry t0 stat0 0 2) gone).
  assert (Hv : forall e, In e (d1 ++ d2) -> e_sid e = t -> e_stat e = use_of (scopes st') t).
  { intros e He Et. apply in_app_or in He. destruct He as [He|He].
    - apply in_map_iff in He. destruct He as ([x sc] & <- & Hx). cbn [fst] in *. unfold entry_of in *.
      destruct (get (scopes st') x) as [scx|] eqn:G; cbn in Et |- *; subst x; unfold use_of; rewrite G; reflexivity.
    - apply in_map_iff in He. destruct He as (x & <- & Hx). cbn in Et |- *. subst x.
      apply filter_In in Hx. destruct Hx as [_ Hx]. unfold use_of. destruct (get (scopes st') t); [discriminate | reflexivity]. }
  destruct (in_dec sid_dec t (map e_sid (d1 ++ d2))) as [Hi|Hi].
  - apply ostat_delta_hit; [exact Hv|]. apply in_map_iff in Hi. destruct Hi as (e & E & I). exists e. split; assumption.
  - rewrite ostat_delta_other by (intros e He E; apply Hi, in_map_iff; exists e; split; assumption).
    rewrite L.
    assert (N' : get (scopes st') t = None).
    { apply get_notin_keys. intros X. apply Hi. rewrite map_app. apply in_or_app. left. unfold d1. rewrite map_map.
      apply in_map_iff in X. destruct X as ([x sc] & Ex & Ix). cbn in Ex. subst x.
      apply in_map_iff. exists (t, sc). split; [|exact Ix]. cbn. unfold entry_of. destruct (get (scopes st') t); reflexivity. }
    assert (N : get (scopes st) t = None).
    { apply get_notin_keys. intros X. apply Hi. rewrite map_app. apply in_or_app. right. unfold d2. rewrite map_map. cbn.
      rewrite map_id. unfold gone. apply filter_In. split; [exact X | rewrite N'; reflexivity]. }
    unfold use_of. rewrite N, N'. reflexivity.
Qed.

(* ---- Part 2: one monitored step ------------------------------------------------------------- *)
Lemma limit_wf_ok : forall l, limit_wf l = true -> lim_ok l.
Proof.
  intros l H. unfold limit_wf in H. repeat (apply andb_true_iff in H; destruct H as [H ?]).
  repeat match goal with X : (_ <=? _) = true |- _ => apply Z.leb_le in X end.
  unfold lim_ok. repeat split; lia.
Qed.

Lemma find_over_in : forall l k i lim, find_over l k i = Some lim -> exists k' i', In (k', i', lim) l.
Proof.
  induction l as [|[[k0 i0] l0] r IH]; intros k i lim H; cbn in H; [discriminate|].
  destruct ((k0 =? k) && Nat.eqb i0 i).
  - inversion H; subst. exists k0, i0. left. reflexivity.
  - destruct (IH k i lim H) as (k' & i' & X). exists k', i'. right. exact X.
Qed.

Lemma config_wf_ok : forall c, config_wf c = true -> cfg_ok c.
Proof.
  intros c H t. unfold config_wf in H. apply andb_true_iff in H. destruct H as [H1 H2].
  cbn [forallb] in H1. repeat (apply andb_true_iff in H1; destruct H1 as [? H1]).
  rewrite forallb_forall in H2.
  assert (Hov : forall kind id dflt, limit_wf dflt = true ->
            lim_ok (match find_over (lim_over c) kind id with Some l => l | None => dflt end)).
  { intros kind id dflt Hd. destruct (find_over (lim_over c) kind id) as [l|] eqn:F; [|apply limit_wf_ok, Hd].
    apply find_over_in in F. destruct F as (k' & i' & F). apply limit_wf_ok. apply (H2 _ F). }
  destruct t; cbn [limit_of]; try (apply limit_wf_ok; assumption); apply Hov; assumption.
Qed.

Lemma first_some_none : forall A B (f : A -> option B) l, (forall x, In x l -> f x = None) -> first_some f l = None.
Proof.
  induction l as [|x r IH]; intros H; [reflexivity|]. cbn. rewrite (H x (or_introl eq_refl)).
  apply IH. intros y Hy. apply H. right. exact Hy.
Qed.

Lemma usage_mismatch_none : forall a m l, (forall t, ostat m t = usage_A a t) -> usage_mismatch a m l = None.
Proof.
  induction l as [|t r IH]; intros H; [reflexivity|]. cbn. rewrite (H t).
  replace (stat_eqb (usage_A a t) (usage_A a t)) with true by (symmetry; apply stat_eqb_eq; reflexivity).
  apply IH, H.
Qed.

Lemma nonneg_bool : forall u, nonneg u -> stat_nonneg u = true.
Proof.
  intros u (H1 & H2 & H3 & H4 & H5 & H6). unfold stat_nonneg.
  repeat (apply andb_true_iff; split); apply Z.leb_le; assumption.
Qed.

Lemma fits_bool : forall l u, fits l u -> within l u = true.
Proof.
  intros l u (H1 & H2 & H3 & H4 & H5 & H6 & H7 & H8). unfold within.
  repeat (apply andb_true_iff; split); apply Z.leb_le; assumption.
Qed.

Lemma fits_zero : forall l, lim_ok l -> fits l stat0.
Proof. intros l (H1 & H2 & H3 & H4 & H5 & H6 & H7 & H8). unfold fits; cbn. repeat split; lia. Qed.

Lemma within_ok : forall c m a t, cfg_ok c -> Inv c m a -> within (a_limit c a t) (use_of m t) = true.
Proof.
  intros c m a t LO I. apply fits_bool. unfold use_of. destruct (get m t) as [sc|] eqn:G.
  2:{ apply fits_zero. unfold a_limit. destruct t; apply LO. }
  destruct (is_handle t) eqn:Hh.
  - destruct (hget (holders a) t) as [h|] eqn:Gh.
    + destruct (I_handle c m a I t h Gh Hh) as (sc0 & G0 & _ & _ & _ & Pl). rewrite G in G0. inversion G0; subst sc0.
      rewrite <- Pl. apply (I_good c m a I t sc G).
    + destruct (I_garbage c m a I t sc G Hh Gh) as [_ Z]. rewrite Z. apply fits_zero. unfold a_limit. destruct t; apply LO.
  - destruct (I_static c m a I t sc G Hh) as (_ & _ & _ & Pl).
    assert (E : a_limit c a t = limit_of c t) by (destruct t; try discriminate; reflexivity).
    rewrite E, <- Pl. apply (I_good c m a I t sc G).
Qed.

(* if the abstract successor is the single (or first) candidate and the
   invariant holds after the step, the core monitor accepts the step *)
Lemma mon_step_accepts : forall c a a' m m' o x rest,
  cfg_ok c -> astep c a o (o_cls x) (o_aflag x) = a' :: rest ->
  m' = apply_delta m (o_delta x) ->
  (exists sm, Inv c sm a' /\ forall t, ostat m' t = use_of sm t) ->
  mon_step_gen ck_core c a m o x = inl (a', m').
Proof.
  intros c a a' m m' o x rest LO Ha Em (sm & I & L). unfold mon_step_gen. rewrite Ha, <- Em.
  assert (Hu : forall t, ostat m' t = usage_A a' t) by (intros t; rewrite L; apply (I_num c sm a' I)).
  cbn [first_some]. rewrite (usage_mismatch_none a' m' _ Hu).
  unfold check_after. rewrite (usage_mismatch_none a' m' _ Hu).
  rewrite first_some_none.
  2:{ intros t _. rewrite L, (nonneg_bool _ (use_nonneg sm t (I_good c sm a' I))). reflexivity. }
  rewrite first_some_none.
  2:{ intros t _. rewrite L, (within_ok c sm a' t LO I). reflexivity. }
  reflexivity.
Qed.

(* ---- Part 3: the whole trace ---------------------------------------------------------------- *)
Definition core_shape (o : op) : bool :=
  match o with
  | OReserve t _ _ | ORelease t _ | OBeginSpan t _ => view_target t
  | ODone t => handle_target t
  | OOpenConn _ _ _ _ | OOpenStream _ _ _ => true
  | _ => false
  end.

Lemma oget_In : forall m x e, oget m x = Some e -> exists y, In (y, e) m.
Proof.
  induction m as [|[y e0] r IH]; intros x e G; cbn in G; [discriminate|].
  destruct (sid_eqb y x); [inversion G; subst; exists y; left; reflexivity|].
  destruct (IH x e G) as (z & Hz). exists z. right. exact Hz.
Qed.

Lemma novf_of_bool : forall st m o b, (forall t, ostat m t = use_of (scopes st) t) ->
  no_overflow m o = true -> bump m o = b -> 0 <= b < two63 -> novf (scopes st) b.
Proof.
  intros st m o b L H Eb Hb x. rewrite <- L. unfold no_overflow in H. rewrite forallb_forall in H.
  unfold ostat. destruct (oget m x) as [e|] eqn:G.
  - destruct (oget_In m x e G) as (y & Hy). specialize (H (y, e) Hy). cbn [snd] in H.
    apply Z.ltb_lt in H. rewrite Eb in H. unfold two63, max_int64 in *. lia.
  - cbn. unfold two63, max_int64 in *. lia.
Qed.

Lemma caller_wf : forall st a m o, (forall t, ostat m t = use_of (scopes st) t) ->
  core_shape o = true -> caller_ok a o = true -> no_overflow m o = true -> wf_op st a o.
Proof.
  intros st a m o L Sh C N. destruct o; cbn [core_shape caller_ok wf_op] in *; try discriminate.
  - unfold fresh in C. destruct (hget (holders a) (Conn i)); [discriminate | reflexivity].
  - unfold fresh in C. destruct (hget (holders a) (Stream j)); [discriminate | reflexivity].
  - repeat (apply andb_true_iff in C; destruct C as [C ?]).
    apply Z.leb_le in C. apply Z.leb_le in H1. apply Z.ltb_lt in H0.
    split; [lia|]. split; [unfold two63, max_int64 in *; lia|]. split; [exact Sh|]. split; [assumption|].
    apply (novf_of_bool st m (OReserve t sz prio) (Z.max sz 0) L N eq_refl). unfold two63 in *. lia.
  - repeat (apply andb_true_iff in C; destruct C as [C ?]). apply Z.leb_le in C.
    split; [exact C|]. split; [exact Sh|]. split; [assumption|].
    apply orb_true_iff in H. destruct H as [H|H]; [left; exact H | right; apply Z.leb_le, H].
  - apply andb_true_iff in C. destruct C as [C1 C2]. split; [exact Sh|]. split; [exact C1|].
    unfold fresh in C2. destruct (hget (holders a) (Span k)); [discriminate | reflexivity].
  - split; [destruct t; try discriminate; reflexivity|].
    unfold has_holder in C. destruct t; try discriminate; destruct (hget (holders a) _); discriminate.
Qed.

Lemma astep_core_head : forall c st a o, cfg_ok c -> Inv c (scopes st) a -> wf_op st a o ->
  let '(st', cls) := step c st o in
  astep c a o cls (o_aflag (model_obs st st' o cls)) = [anext c st a o].
Proof.
  intros c st a o LO I Wf. unfold anext. destruct o; cbn [step wf_op] in *; try contradiction.
  - pose proof (open_conn_inv c st a i inb usefd ep LO I Wf) as H.
    destruct (open_conn c st i inb usefd ep) as [st' cls]. cbv zeta in H. destruct H as [P _].
    unfold model_obs. cbn [o_aflag astep]. destruct (cls =? 0) eqn:C; [|reflexivity]. apply Z.eqb_eq in C.
    set (al := match nget (conns st') i with Some ci => ci_allow ci | None => false end) in *.
    assert (Eal : zbool (match nget (conns st') i with Some ci => b2z (ci_allow ci) | None => 0 end) = al).
    { unfold al. destruct (nget (conns st') i); [apply zbool_b2z | reflexivity]. }
    rewrite Eal. destruct al; [rewrite (P C eq_refl)|]; reflexivity.
  - destruct (open_stream c st j q inb) as [st' cls]. cbn [astep]. destruct (cls =? 0); reflexivity.
  - destruct (reserve_mem c st t sz prio) as [st' cls]. cbn [astep]. destruct (cls =? 0); reflexivity.
  - destruct (release_mem c st t sz) as [st' cls]. cbn [astep]. destruct (a_dead a t); reflexivity.
  - destruct (begin_span c st t k) as [st' cls]. cbn [astep]. destruct (cls =? 0); reflexivity.
  - destruct (done_op c st t) as [st' cls]. cbn [astep]. destruct t; try reflexivity.
    destruct (nget (aconns (kill a (Conn i))) i); reflexivity.
Qed.

Theorem monitor_accepts_from : forall c ops st a m i,
  cfg_ok c -> Inv c (scopes st) a -> (forall t, ostat m t = use_of (scopes st) t) ->
  forallb core_shape ops = true ->
  callers_run c a m i (model_trace c st ops) = None ->
  mon_run_gen ck_core c a m i (model_trace c st ops) = [].
Proof.
  intros c ops. induction ops as [|o r IH]; intros st a m i LO I L Sh Cr; [reflexivity|].
  cbn [forallb] in Sh. apply andb_true_iff in Sh. destruct Sh as [Sh1 Sh2].
  cbn [model_trace] in *. pose proof (astep_core_head c st a o LO I) as Hd.
  pose proof (step_inv c st a o LO I) as Hi.
  destruct (step c st o) as [st' cls] eqn:Es. cbn [fst] in Hi.
  cbn [callers_run mon_run_gen] in *.
  destruct (caller_ok a o && no_overflow m o) eqn:C; [|discriminate].
  apply andb_true_iff in C. destruct C as [C1 C2].
  pose proof (caller_wf st a m o L Sh1 C1 C2) as Wf. specialize (Hd Wf). specialize (Hi Wf).
  set (x := model_obs st st' o cls) in *.
  set (m' := apply_delta m (o_delta x)).
  assert (L' : forall t, ostat m' t = use_of (scopes st') t) by (apply obs_follows, L).
  assert (Ecls : o_cls x = cls) by reflexivity.
  pose proof (mon_step_accepts c a (anext c st a o) m m' o x [] LO) as Ms.
  rewrite Ecls in Ms. specialize (Ms Hd eq_refl (ex_intro _ (scopes st') (conj Hi L'))).
  rewrite Ms in *. apply (IH st' _ m' (i + 1) LO Hi L' Sh2 Cr).
Qed.

Theorem monitor_accepts_core : forall c ops,
  config_wf c = true -> forallb core_shape ops = true ->
  callers_run c astate0 [] 0 (model_trace c (init_state c) ops) = None ->
  mon_run_gen ck_core c astate0 [] 0 (model_trace c (init_state c) ops) = [].
Proof.
  intros c ops W Sh Cr. pose proof (config_wf_ok c W) as LO.
  apply (monitor_accepts_from c ops (init_state c) astate0 [] 0 LO (init_inv c LO)); try assumption.
  intros t. cbn. unfold use_of. destruct t; reflexivity.
Qed.

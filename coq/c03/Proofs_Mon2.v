(* C03 — the core monitor accepts every model trace, for the operation language
   with re-parenting incl. the allow-list transfer inside SetPeer (no gc). *)
From Coq Require Import List ZArith Bool Arith Lia.
From Verif Require Import lib.Wire c03.Int64 c03.Model c03.Spec c03.Proofs_Int64 c03.Proofs_Base
     c03.Proofs_Sum c03.Proofs_Reach c03.Proofs_Link c03.Proofs_Targets c03.Proofs_Frames c03.Proofs_Frames2
     c03.Proofs_Frames3 c03.Proofs_Kill c03.Proofs_OpsMem c03.Proofs_Done c03.Proofs_OpsDone c03.Proofs_OpsNew
     c03.Proofs_OpsOpen c03.Proofs_Hist c03.Proofs_Mon c03.Proofs_Link2 c03.Proofs_Transfer c03.Proofs_OpsRepar c03.Proofs_SetPeer c03.Proofs_Hist2.
Import ListNotations.
Local Open Scope Z_scope.

Definition shape2 (o : op) : bool :=
  match o with
  | OSetPeer _ _ | OSetProto _ _ | OSetSvc _ _ => true
  | OGC => false
  | _ => core_shape o
  end.

(* the decidable hypothesis on a trace: callers behave (Spec.caller_ok,
   Spec.no_overflow), operations are well-shaped, no gc *)
Fixpoint covered_run (c : config) (a : astate) (m : omap) (tr : list (op * obs)) : bool :=
  match tr with
  | [] => true
  | (o, x) :: r =>
      caller_ok a o && no_overflow m o && shape2 o &&
      match mon_step_gen ck_core c a m o x with
      | inl (a', m') => covered_run c a' m' r
      | inr _ => true
      end
  end.

Lemma len1_hd : forall A (l : list A) d, length l = 1%nat -> l = [hd d l].
Proof. intros A [|x [|y r]] d H; cbn in *; try discriminate. reflexivity. Qed.

Lemma wf2_of_bool : forall c st a m o, InvL c st a -> (forall t, ostat m t = use_of (scopes st) t) ->
  caller_ok a o = true -> no_overflow m o = true -> shape2 o = true ->
  wf_op2 c st a o.
Proof.
  intros c st a m o [I L0] L C N Sh.
  assert (Bd : forall x, 0 <= mem (use_of (scopes st) x) < two63).
  { intros x. pose proof (use_nonneg (scopes st) x (I_good _ _ _ I)) as (H0 & _).
    pose proof (use_mem_le (scopes st) x (I_good _ _ _ I)). unfold two63, max_int64 in *. lia. }
  destruct o; cbn [wf_op2 shape2] in *; try discriminate;
    try (apply (caller_wf st a m _ L Sh C N)).
  - cbn [caller_ok] in *. destruct (nget (aconns a) i) as [ac|] eqn:Ga; [|discriminate].
    split; [exists ac; reflexivity|].
    apply (novf_of_bool st m (OSetPeer i q) _ L N); [cbn [bump]; rewrite L; reflexivity | apply Bd].
  - cbn [caller_ok] in C. destruct (nget (astreams a) j) as [s|] eqn:Gs; [|discriminate].
    split; [exists s; reflexivity|]. apply (novf_of_bool st m (OSetProto j p) _ L N); [cbn [bump]; rewrite L; reflexivity | apply Bd].
  - cbn [caller_ok] in C. destruct (nget (astreams a) j) as [s0|] eqn:Gs; [|discriminate].
    split; [exists s0; reflexivity|]. apply (novf_of_bool st m (OSetSvc j s) _ L N); [cbn [bump]; rewrite L; reflexivity | apply Bd].
Qed.

(* the abstract successor is among the candidates, and every candidate listed
   before it disagrees with it on the system scope *)
Lemma astep_picked : forall c st a o, cfg_ok c -> InvL c st a -> wf_op2 c st a o ->
  let '(st', cls) := step c st o in
  exists pre post, astep c a o cls (o_aflag (model_obs st st' o cls)) = pre ++ anextT c st a o :: post /\
    (forall cand, In cand pre -> usage_A cand System <> usage_A (anextT c st a o) System).
Proof.
  intros c st a o LO [I L] Wf.
  assert (Core : wf_op st a o -> match o with OSetPeer _ _ => False | _ => True end ->
                 let '(st', cls) := step c st o in
                 exists pre post, astep c a o cls (o_aflag (model_obs st st' o cls)) = pre ++ anextT c st a o :: post /\
                   (forall cand, In cand pre -> usage_A cand System <> usage_A (anextT c st a o) System)).
  { intros W No. rewrite (anextT_other c st a o No). pose proof (astep_core_head c st a o LO I W) as H.
    destruct (step c st o) as [st' cls]. exists [], []. split; [exact H | intros cand []]. }
  assert (Single : forall o' st' cls, match o' with OSetPeer _ _ => False | _ => True end -> step c st o' = (st', cls) ->
                   length (astep c a o' cls (o_aflag (model_obs st st' o' cls))) = 1%nat ->
                   exists pre post, astep c a o' cls (o_aflag (model_obs st st' o' cls)) = pre ++ anextT c st a o' :: post /\
                     (forall cand, In cand pre -> usage_A cand System <> usage_A (anextT c st a o') System)).
  { intros o' st' cls No Es Hl. rewrite (anextT_other c st a o' No). unfold anext. rewrite Es.
    exists [], []. split; [apply len1_hd, Hl | intros cand []]. }
  destruct o; cbn [wf_op2] in Wf; try (apply Core; [exact Wf | exact Logic.I]); try contradiction;
    destruct L as [Lc Ls].
  - pose proof (set_peer_picked c st a i q LO (conj I (conj Lc Ls)) Wf) as H.
    destruct (step c st (OSetPeer i q)) as [st' cls]. destruct H as (pre & post & El & _ & Hm).
    exists pre, post. split; assumption.
  - destruct Wf as ((s & Gs) & _). destruct (Ls j s Gs) as (si & h & Gsi & _ & _ & Epr & _).
    destruct (step c st (OSetProto j p)) as [st' cls] eqn:Es. apply (Single (OSetProto j p) st' cls Logic.I Es).
    cbn [step] in Es. cbn [astep]. rewrite Gs.
    destruct (as_proto s) as [p0|] eqn:Ap.
    + unfold set_proto in Es. rewrite Gsi, Epr in Es. inversion Es. reflexivity.
    + destruct (cls =? 0); reflexivity.
  - destruct Wf as ((s0 & Gs) & _). destruct (Ls j s0 Gs) as (si & h & Gsi & _ & _ & Epr & Esv & _).
    destruct (step c st (OSetSvc j s)) as [st' cls] eqn:Es. apply (Single (OSetSvc j s) st' cls Logic.I Es).
    cbn [step] in Es. cbn [astep]. rewrite Gs.
    destruct (as_svc s0) as [sv0|] eqn:As.
    + unfold set_svc in Es. rewrite Gsi, Esv in Es. inversion Es. reflexivity.
    + destruct (as_proto s0) as [p0|] eqn:Ap.
      * destruct (cls =? 0); reflexivity.
      * unfold set_svc in Es. rewrite Gsi, Esv, Epr in Es. inversion Es. reflexivity.
Qed.

Lemma first_some_app : forall A B (f : A -> option B) pre x y post,
  (forall z, In z pre -> f z = None) -> f x = Some y -> first_some f (pre ++ x :: post) = Some y.
Proof.
  induction pre as [|z r IH]; intros x y post Hn Hx; cbn [app first_some]; [rewrite Hx; reflexivity|].
  rewrite (Hn z (or_introl eq_refl)). apply IH; [intros w Hw; apply Hn; right; exact Hw | exact Hx].
Qed.

Lemma usage_mismatch_some : forall a m l t, In t l -> ostat m t <> usage_A a t -> usage_mismatch a m l <> None.
Proof.
  induction l as [|x r IH]; intros t Hi Hne; [destruct Hi|]. cbn [usage_mismatch].
  destruct (stat_eqb (ostat m x) (usage_A a x)) eqn:E; [|discriminate].
  destruct Hi as [->|Hi]; [apply stat_eqb_eq in E; contradiction | apply (IH t Hi Hne)].
Qed.

Lemma oset_keys : forall m t v x, In x (map fst m) \/ x = t -> In x (map fst (oset m t v)).
Proof.
  induction m as [|[y e] r IH]; intros t v x H; cbn.
  - destruct H as [ [] | -> ]. left. reflexivity.
  - destruct (sid_eqb y t) eqn:E; cbn.
    + apply sid_eqb_eq in E. subst y. destruct H as [ [H|H] | -> ]; [left; exact H | right; exact H | left; reflexivity].
    + destruct H as [ [H|H] | -> ]; [left; exact H | right; apply IH; left; exact H | right; apply IH; right; reflexivity].
Qed.

Lemma delta_keys : forall d m x, In x (map fst m) \/ In x (map e_sid d) -> In x (map fst (apply_delta m d)).
Proof.
  induction d as [|e r IH]; intros m x H; unfold apply_delta in *; cbn [fold_left].
  - destruct H as [H|[]]. exact H.
  - apply IH. destruct H as [H|[H|H]]; [left; apply oset_keys; left; exact H | left; apply oset_keys; right; symmetry; exact H | right; exact H].
Qed.

Lemma model_obs_keys : forall st st' o cls m x, get (scopes st') x <> None ->
  In x (map fst (apply_delta m (o_delta (model_obs st st' o cls)))).
Proof.
  intros st st' o cls m x G. apply delta_keys. right. unfold model_obs. cbn [o_delta]. rewrite map_app. apply in_or_app. left.
  rewrite map_map. destruct (get (scopes st') x) as [sc|] eqn:Gx; [|contradiction].
  apply get_in_keys in Gx. apply in_map_iff in Gx. destruct Gx as ([y sy] & Ey & Iy). cbn in Ey. subst y.
  apply in_map_iff. exists (x, sy). split; [|exact Iy]. cbn. unfold entry_of. destruct (get (scopes st') x); reflexivity.
Qed.

(* the monitor's choice among several candidates; the three extra checks are
   hypotheses here, needed only when switched on *)
Lemma mon_step_accepts_ck : forall ck c a a' m m' o x pre post,
  cfg_ok c -> astep c a o (o_cls x) (o_aflag x) = pre ++ a' :: post ->
  m' = apply_delta m (o_delta x) ->
  (exists sm, Inv c sm a' /\ forall t, ostat m' t = use_of sm t) ->
  (forall cand, In cand pre -> exists t, In t (map fst m') /\ ostat m' t <> usage_A cand t) ->
  (ck_prio ck = true -> forall t sz prio, o = OReserve t sz prio -> o_cls x = 0 -> forall y, In y (areach a' t) ->
     l_mem (a_limit c a' y) = max_int64 \/ mem (ostat m' y) <= prio_threshold (a_limit c a' y) prio) ->
  (ck_just ck = true -> o_cls x = 1 -> refusal_justified c a m o = true) ->
  (ck_cap ck = true -> forall i inb fd ip, o = OOpenConn i inb fd (Some ip) -> o_cls x = 0 ->
     cap_ok c (open_ips a' false) ip = true) ->
  (ck_just ck = true -> answer_ok c a o (o_cls x) = true) ->
  mon_step_gen ck c a m o x = inl (a', m').
Proof.
  intros ck c a a' m m' o x pre post LO Ha Em (sm & I & L) Hpre Hprio Hjust Hcap Hans. unfold mon_step_gen. rewrite Ha, <- Em.
  assert (Hu : forall t, ostat m' t = usage_A a' t) by (intros t; rewrite L; apply (I_num c sm a' I)).
  set (F := fun cand => match usage_mismatch cand m' (universe cand m') with None => Some cand | Some _ => None end).
  assert (Pk : first_some F (pre ++ a' :: post) = Some a').
  { apply first_some_app.
    - intros z Hz. unfold F. destruct (Hpre z Hz) as (t & Ht & Hne).
      destruct (usage_mismatch z m' (universe z m')) eqn:E; [reflexivity|]. exfalso.
      apply (usage_mismatch_some z m' (universe z m') t); [unfold universe; apply in_or_app; left; exact Ht | exact Hne | exact E].
    - unfold F. rewrite (usage_mismatch_none a' m' _ Hu). reflexivity. }
  destruct (pre ++ a' :: post) as [|a1 rest] eqn:El; [destruct pre; discriminate|].
  fold F. rewrite Pk.
  assert (Ck : check_after ck c a' m' o (o_cls x) = []).
  { unfold check_after. rewrite (usage_mismatch_none a' m' _ Hu).
    rewrite first_some_none.
    2:{ intros t _. rewrite L, (nonneg_bool _ (use_nonneg sm t (I_good c sm a' I))). reflexivity. }
    rewrite first_some_none.
    2:{ intros t _. rewrite L, (within_ok c sm a' t LO I). reflexivity. }
    assert (Pb : prio_check ck c a' m' o (o_cls x) = None).
    { unfold prio_check. destruct (ck_prio ck) eqn:Kp; [|reflexivity]. destruct o; try reflexivity.
      destruct (o_cls x =? 0) eqn:C0; [|reflexivity]. apply Z.eqb_eq in C0.
      apply first_some_none. intros y Hy.
      destruct (Hprio eq_refl t sz prio eq_refl C0 y Hy) as [E|E].
      - rewrite E, Z.eqb_refl. reflexivity.
      - apply Z.leb_le in E. rewrite E, orb_true_r. reflexivity. }
    rewrite Pb. unfold cap_check.
    destruct (ck_cap ck) eqn:Kc; [|reflexivity]. destruct o; try reflexivity. destruct ep as [ip|]; [|reflexivity].
    destruct (o_cls x =? 0) eqn:C0; [|reflexivity]. apply Z.eqb_eq in C0.
    rewrite (Hcap eq_refl i inb usefd ip eq_refl C0). reflexivity. }
  rewrite Ck.
  destruct (ck_just ck) eqn:Kj; [|reflexivity]. rewrite (Hans eq_refl). cbn [negb andb].
  destruct (o_cls x =? 1) eqn:C1; [|reflexivity]. apply Z.eqb_eq in C1.
  rewrite (Hjust eq_refl C1). reflexivity.
Qed.

Lemma mon_step_accepts_pick : forall c a a' m m' o x pre post,
  cfg_ok c -> astep c a o (o_cls x) (o_aflag x) = pre ++ a' :: post ->
  m' = apply_delta m (o_delta x) ->
  (exists sm, Inv c sm a' /\ forall t, ostat m' t = use_of sm t) ->
  (forall cand, In cand pre -> exists t, In t (map fst m') /\ ostat m' t <> usage_A cand t) ->
  mon_step_gen ck_core c a m o x = inl (a', m').
Proof.
  intros c a a' m m' o x pre post LO Ha Em H1 H2.
  apply (mon_step_accepts_ck ck_core c a a' m m' o x pre post LO Ha Em H1 H2); intros X; discriminate X.
Qed.

Theorem monitor_accepts2_from : forall c ops st a m i,
  cfg_ok c -> InvL c st a -> (forall t, ostat m t = use_of (scopes st) t) ->
  covered_run c a m (model_trace c st ops) = true ->
  mon_run_gen ck_core c a m i (model_trace c st ops) = [].
Proof.
  intros c ops. induction ops as [|o r IH]; intros st a m i LO IL L Cv; [reflexivity|].
  cbn [model_trace] in *. pose proof (astep_picked c st a o LO IL) as Hd.
  pose proof (step_inv2 c st a o LO IL) as Hi.
  destruct (step c st o) as [st' cls] eqn:Es. cbn [fst] in Hi.
  cbn [covered_run mon_run_gen] in *.
  repeat (apply andb_true_iff in Cv; destruct Cv as [Cv ?]).
  pose proof (wf2_of_bool c st a m o IL L Cv H1 H0) as Wf. specialize (Hd Wf). specialize (Hi Wf).
  destruct Hd as (pre & post & El & Hm).
  set (x := model_obs st st' o cls) in *. set (m' := apply_delta m (o_delta x)).
  assert (L' : forall t, ostat m' t = use_of (scopes st') t) by (apply obs_follows, L).
  pose proof (mon_step_accepts_pick c a (anextT c st a o) m m' o x pre post LO) as Ms.
  assert (Ecls : o_cls x = cls) by reflexivity. rewrite Ecls in Ms.
  specialize (Ms El eq_refl (ex_intro _ (scopes st') (conj (proj1 Hi) L'))).
  assert (Hp : forall cand, In cand pre -> exists t, In t (map fst m') /\ ostat m' t <> usage_A cand t).
  { intros cand Hc. exists System. split.
    - apply model_obs_keys. apply (I_base _ _ _ (proj1 Hi)).
    - rewrite L', (I_num _ _ _ (proj1 Hi) System). intros E. apply (Hm cand Hc). symmetry. exact E. }
  specialize (Ms Hp). rewrite Ms in *. apply (IH st' _ m' (i + 1) LO Hi L' H).
Qed.

Theorem monitor_accepts2 : forall c ops,
  config_wf c = true ->
  covered_run c astate0 [] (model_trace c (init_state c) ops) = true ->
  mon_run_gen ck_core c astate0 [] 0 (model_trace c (init_state c) ops) = [].
Proof.
  intros c ops W Cv. pose proof (config_wf_ok c W) as LO.
  apply (monitor_accepts2_from c ops (init_state c) astate0 [] 0 LO); try assumption.
  - split; [apply init_inv, LO | apply init_link].
  - intros t. cbn. unfold use_of. destruct t; reflexivity.
Qed.

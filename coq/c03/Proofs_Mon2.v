(* C03 — the core monitor accepts every model trace, for the operation language
   with re-parenting (no gc, no allow-list transfer inside SetPeer). *)
From Coq Require Import List ZArith Bool Arith Lia.
From Verif Require Import lib.Wire c03.Int64 c03.Model c03.Spec c03.Proofs_Int64 c03.Proofs_Base
     c03.Proofs_Sum c03.Proofs_Reach c03.Proofs_Link c03.Proofs_Targets c03.Proofs_Frames c03.Proofs_Frames2
     c03.Proofs_Frames3 c03.Proofs_Kill c03.Proofs_OpsMem c03.Proofs_Done c03.Proofs_OpsDone c03.Proofs_OpsNew
     c03.Proofs_OpsOpen c03.Proofs_Hist c03.Proofs_Mon c03.Proofs_Link2 c03.Proofs_OpsRepar c03.Proofs_Hist2.
Import ListNotations.
Local Open Scope Z_scope.

Definition shape2 (o : op) : bool :=
  match o with
  | OSetPeer _ _ | OSetProto _ _ | OSetSvc _ _ => true
  | OGC => false
  | _ => core_shape o
  end.

(* SetPeer never has to move an allow-listed connection to the standard scopes *)
Definition no_transfer (c : config) (a : astate) (o : op) : bool :=
  match o with
  | OSetPeer i q =>
      match nget (aconns a) i with
      | Some ac => match ac_peer ac with
                   | Some _ => true
                   | None => negb (ac_allow ac) || ep_allowed_peer c q (ac_ep ac)
                   end
      | None => true
      end
  | _ => true
  end.

(* the decidable hypothesis on a trace: callers behave (Spec.caller_ok,
   Spec.no_overflow), operations are well-shaped, no gc, no allow-list transfer *)
Fixpoint covered_run (c : config) (a : astate) (m : omap) (tr : list (op * obs)) : bool :=
  match tr with
  | [] => true
  | (o, x) :: r =>
      caller_ok a o && no_overflow m o && shape2 o && no_transfer c a o &&
      match mon_step_gen false c a m o x with
      | inl (a', m') => covered_run c a' m' r
      | inr _ => true
      end
  end.

Lemma len1_hd : forall A (l : list A) d, length l = 1%nat -> l = [hd d l].
Proof. intros A [|x [|y r]] d H; cbn in *; try discriminate. reflexivity. Qed.

Lemma wf2_of_bool : forall c st a m o, InvL c st a -> (forall t, ostat m t = use_of (scopes st) t) ->
  caller_ok a o = true -> no_overflow m o = true -> shape2 o = true -> no_transfer c a o = true ->
  wf_op2 c st a o.
Proof.
  intros c st a m o [I L0] L C N Sh Nt.
  assert (Bd : forall x, 0 <= mem (use_of (scopes st) x) < two63).
  { intros x. pose proof (use_nonneg (scopes st) x (I_good _ _ _ I)) as (H0 & _).
    pose proof (use_mem_le (scopes st) x (I_good _ _ _ I)). unfold two63, max_int64 in *. lia. }
  destruct o; cbn [wf_op2 shape2] in *; try discriminate;
    try (apply (caller_wf st a m _ L Sh C N)).
  - cbn [caller_ok no_transfer] in *. destruct (nget (aconns a) i) as [ac|] eqn:Ga; [|discriminate].
    exists ac. split; [reflexivity|]. split.
    + intros Ap. rewrite Ap in Nt. apply orb_true_iff in Nt. destruct Nt as [X|X]; [left; destruct (ac_allow ac); [discriminate | reflexivity] | right; exact X].
    + apply (novf_of_bool st m (OSetPeer i q) _ L N); [cbn [bump]; rewrite L; reflexivity | apply Bd].
  - cbn [caller_ok] in C. destruct (nget (astreams a) j) as [s|] eqn:Gs; [|discriminate].
    split; [exists s; reflexivity|]. apply (novf_of_bool st m (OSetProto j p) _ L N); [cbn [bump]; rewrite L; reflexivity | apply Bd].
  - cbn [caller_ok] in C. destruct (nget (astreams a) j) as [s0|] eqn:Gs; [|discriminate].
    split; [exists s0; reflexivity|]. apply (novf_of_bool st m (OSetSvc j s) _ L N); [cbn [bump]; rewrite L; reflexivity | apply Bd].
Qed.

Lemma astep_head2 : forall c st a o, cfg_ok c -> InvL c st a -> wf_op2 c st a o ->
  let '(st', cls) := step c st o in
  astep c a o cls (o_aflag (model_obs st st' o cls)) = [anext c st a o].
Proof.
  intros c st a o LO [I L] Wf.
  assert (Core : wf_op st a o -> let '(st', cls) := step c st o in
                 astep c a o cls (o_aflag (model_obs st st' o cls)) = [anext c st a o])
    by (intros W; apply (astep_core_head c st a o LO I W)).
  destruct o; cbn [wf_op2] in Wf; try (apply Core; exact Wf); try contradiction;
    unfold anext; destruct L as [Lc Ls]; cbn [step].
  - destruct Wf as (ac & Ga & Hno & _). destruct (Lc i ac Ga) as (ci & h & Gci & _ & Epe & _).
    destruct (set_peer c st i q) as [st' cls] eqn:Es. apply len1_hd. cbn [astep]. rewrite Ga.
    destruct (ac_peer ac) as [q0|] eqn:Ap.
    + unfold set_peer in Es. rewrite Gci, Epe in Es. inversion Es. reflexivity.
    + destruct (cls =? 0); [reflexivity|]. specialize (Hno eq_refl).
      replace (ac_allow ac && negb (ac_allow ac && ep_allowed_peer c q (ac_ep ac))) with false.
      2:{ destruct (ac_allow ac); [|reflexivity]. destruct Hno as [X|X]; [discriminate | rewrite X; reflexivity]. }
      destruct (conn_par_nonempty st a i ac (conj Lc Ls) Ga Ap) as (x0 & l0 & Ex). rewrite Ex. reflexivity.
  - destruct Wf as ((s & Gs) & _). destruct (Ls j s Gs) as (si & h & Gsi & _ & _ & Epr & _).
    destruct (set_proto c st j p) as [st' cls] eqn:Es. apply len1_hd. cbn [astep]. rewrite Gs.
    destruct (as_proto s) as [p0|] eqn:Ap.
    + unfold set_proto in Es. rewrite Gsi, Epr in Es. inversion Es. reflexivity.
    + destruct (cls =? 0); reflexivity.
  - destruct Wf as ((s0 & Gs) & _). destruct (Ls j s0 Gs) as (si & h & Gsi & _ & _ & Epr & Esv & _).
    destruct (set_svc c st j s) as [st' cls] eqn:Es. apply len1_hd. cbn [astep]. rewrite Gs.
    destruct (as_svc s0) as [sv0|] eqn:As.
    + unfold set_svc in Es. rewrite Gsi, Esv in Es. inversion Es. reflexivity.
    + destruct (as_proto s0) as [p0|] eqn:Ap.
      * destruct (cls =? 0); reflexivity.
      * unfold set_svc in Es. rewrite Gsi, Esv, Epr in Es. inversion Es. reflexivity.
Qed.

Theorem monitor_accepts2_from : forall c ops st a m i,
  cfg_ok c -> InvL c st a -> (forall t, ostat m t = use_of (scopes st) t) ->
  covered_run c a m (model_trace c st ops) = true ->
  mon_run_gen false c a m i (model_trace c st ops) = [].
Proof.
  intros c ops. induction ops as [|o r IH]; intros st a m i LO IL L Cv; [reflexivity|].
  cbn [model_trace] in *. pose proof (astep_head2 c st a o LO IL) as Hd.
  pose proof (step_inv2 c st a o LO IL) as Hi.
  destruct (step c st o) as [st' cls] eqn:Es. cbn [fst] in Hi.
  cbn [covered_run mon_run_gen] in *.
  repeat (apply andb_true_iff in Cv; destruct Cv as [Cv ?]).
  pose proof (wf2_of_bool c st a m o IL L Cv H2 H1 H0) as Wf. specialize (Hd Wf). specialize (Hi Wf).
  set (x := model_obs st st' o cls) in *. set (m' := apply_delta m (o_delta x)).
  assert (L' : forall t, ostat m' t = use_of (scopes st') t) by (apply obs_follows, L).
  pose proof (mon_step_accepts c a (anext c st a o) m m' o x [] LO) as Ms.
  assert (Ecls : o_cls x = cls) by reflexivity. rewrite Ecls in Ms.
  specialize (Ms Hd eq_refl (ex_intro _ (scopes st') (conj (proj1 Hi) L'))).
  rewrite Ms in *. apply (IH st' _ m' (i + 1) LO Hi L' H).
Qed.

Theorem monitor_accepts2 : forall c ops,
  config_wf c = true ->
  covered_run c astate0 [] (model_trace c (init_state c) ops) = true ->
  mon_run_gen false c astate0 [] 0 (model_trace c (init_state c) ops) = [].
Proof.
  intros c ops W Cv. pose proof (config_wf_ok c W) as LO.
  apply (monitor_accepts2_from c ops (init_state c) astate0 [] 0 LO); try assumption.
  - split; [apply init_inv, LO | apply init_link].
  - intros t. cbn. unfold use_of. destruct t; reflexivity.
Qed.

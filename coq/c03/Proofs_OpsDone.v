(* C03 — per-operation preservation: Done on connections, streams and spans
   (first call, repeated calls, owners closed before their spans). *)
From Coq Require Import List ZArith Bool Arith Lia.
From Verif Require Import lib.Wire c03.Int64 c03.Model c03.Spec c03.Proofs_Int64 c03.Proofs_Base
     c03.Proofs_Sum c03.Proofs_Reach c03.Proofs_Link c03.Proofs_Targets c03.Proofs_Frames c03.Proofs_Frames2
     c03.Proofs_Frames3 c03.Proofs_Kill c03.Proofs_OpsMem c03.Proofs_Done.
Import ListNotations.
Local Open Scope Z_scope.

Lemma hset_same : forall H t h, hget H t = Some h -> hset H t h = H.
Proof.
  induction H as [|[y h0] r IH]; intros t h G; cbn in *; [discriminate|].
  destruct (sid_eqb y t) eqn:X.
  - inversion G; subst. apply sid_eqb_eq in X. subst. reflexivity.
  - rewrite IH by exact G. reflexivity.
Qed.

Lemma kill_dead_same : forall a t h, WfA a -> hget (holders a) t = Some h -> h_dead h = true ->
  holders (kill a t) = holders a.
Proof.
  intros a t h W G D. unfold kill. rewrite G. cbn [holders].
  destruct (W_own a W t h G) as [_ Z]. specialize (Z D).
  replace (mkHolder stat0 (h_par h) (h_chain h) true) with h.
  - apply hset_same, G.
  - destruct h; cbn in *. subst. reflexivity.
Qed.

Lemma scope_done_done : forall m t, is_done m t = true -> scope_done m t = m.
Proof.
  intros m t H. unfold scope_done, is_done in *. destruct (get m t) as [sc|]; [|reflexivity].
  rewrite H. reflexivity.
Qed.

Theorem scope_done_inv : forall c m a t h,
  Inv c m a -> is_handle t = true -> hget (holders a) t = Some h ->
  Inv c (scope_done m t) (kill a t).
Proof.
  intros c m a t h I Ht G. pose proof (I_wf c m a I) as W.
  destruct (I_handle c m a I t h G Ht) as (sc & Gm & Pd & Pc & Pe & Pl).
  assert (Kn : known m a t) by (unfold known; rewrite Ht, G; discriminate).
  destruct (h_dead h) eqn:D.
  - rewrite scope_done_done by (unfold is_done; rewrite Gm; exact Pd).
    apply (Inv_holders c m a (kill a t)); [symmetry; apply (kill_dead_same a t h W G D) | exact I].
  - assert (Da : a_dead a t = false) by (unfold a_dead; rewrite G; exact D).
    assert (Ust : s_use sc = usage_A a t) by (rewrite <- (I_num c m a I t); symmetry; apply use_of_get, Gm).
    assert (Hk : kind_ok (KStat (s_use sc))).
    { destruct (I_good c m a I t sc Gm) as (L & N & F). split; [exact N|]. apply good_mem_le. split; [exact L | split; [exact N | exact F]]. }
    assert (Hle : forall e, In e (areach a t) -> stat_le (kdelta (KStat (s_use sc))) (use_of m e)).
    { intros e He. cbn [kdelta]. rewrite Ust, (I_num c m a I e). apply (usage_ge_through a t h W Ht G D e He). }
    assert (Hlv : forall e, In e (areach a t) -> is_done m e = false) by (apply (reach_live c m a t I Kn)).
    pose proof (reach_nodup a t W) as Nd.
    unfold scope_done. rewrite Gm, Pd.
    destruct (chain_cases a t W) as [E|(o & Hsp & E & N)].
    + (* connection / stream: loop over the edges *)
      assert (Ec : s_chain sc = []) by (rewrite Pc; unfold a_chain in E; rewrite G in E; exact E).
      rewrite Ec. assert (Rt : areach a t = t :: a_par a t) by (rewrite (areach_root a t E), Da; reflexivity).
      assert (Hs : is_span t = false).
      { destruct t; try reflexivity. destruct (W_span a W _ h G eq_refl) as (o & Eo & _).
        unfold a_chain in E. rewrite G in E. rewrite E in Eo. discriminate. }
      assert (Ee : s_edges sc = a_par a t).
      { rewrite <- (edges_link c m a t I Kn Hs). unfold edges_of. rewrite Gm. reflexivity. }
      rewrite Ee. rewrite Rt in Nd, Hle, Hlv. inversion Nd as [|? ? Hnotin Nd']; subst.
      destruct (uncharge_dec_exact (a_par a t) (KStat (s_use sc)) m Hk (I_good c m a I) Nd'
                  (fun e He => Hlv e (or_intror He)) (fun e He => Hle e (or_intror He))) as (S1 & G1 & U1).
      apply (Inv_done_core c m _ a t h sc (a_par a t) I Ht G D Gm Rt S1 G1 U1).
    + (* span: release along the owners, then the root's edges *)
      assert (Ec : s_chain sc = o :: a_chain a o) by (rewrite Pc; unfold a_chain in E at 1; rewrite G in E; exact E).
      rewrite Ec. assert (Rt : areach a t = t :: areach a o) by (rewrite (areach_span a t o E), Da; reflexivity).
      assert (Ko : known m a o) by (apply (owner_known c m a t o I); [rewrite G; discriminate | exact E | exact Da]).
      assert (Kh : holder_if_handle a o).
      { intros Ho. unfold known in Ko. rewrite Ho in Ko. exact Ko. }
      assert (Er : rel_targets_from m (o :: a_chain a o) (root_of m t) = areach a o).
      { rewrite <- (rel_targets_reach c m a o I Ko). unfold rel_targets.
        rewrite (chain_of_link c m a o I Kh). f_equal.
        apply root_of_span. rewrite (chain_of_link c m a o I Kh).
        unfold chain_of. rewrite Gm. exact Ec. }
      rewrite Er. rewrite Rt in Nd, Hle, Hlv. inversion Nd as [|? ? Hnotin Nd']; subst.
      destruct (uncharge_list_exact (areach a o) (KStat (s_use sc)) m Hk (I_good c m a I) Nd'
                  (fun e He => Hlv e (or_intror He)) (fun e He => Hle e (or_intror He))) as (S1 & G1 & U1).
      apply (Inv_done_core c m _ a t h sc (areach a o) I Ht G D Gm Rt).
      * intros x. rewrite decref_shape. apply S1.
      * apply decref_good, G1.
      * intros x. rewrite decref_use. apply U1.
Qed.

(* C03 — concrete configurations and histories used as witnesses and
   non-vacuity examples (definitions only). *)
From Coq Require Import List ZArith Bool.
From Verif Require Import lib.Wire c03.Int64 c03.Model c03.Spec.
Import ListNotations.
Local Open Scope Z_scope.

Definition gen_lim : limit := mkLimit 1073741824 100 100 100 100 100 100 100.

Definition base_cfg : config :=
  mkConfig gen_lim gen_lim gen_lim gen_lim gen_lim gen_lim gen_lim gen_lim gen_lim gen_lim gen_lim
           [] [] [(32, 8)] [(56, 8); (48, 64)] [] [].

Definition with_limits (c : config) (sys tr : limit) : config :=
  mkConfig sys tr (lim_asystem c) (lim_atransient c) (lim_svc c) (lim_svcpeer c) (lim_proto c)
           (lim_protopeer c) (lim_peer c) (lim_conn c) (lim_stream c) (lim_over c) (allow_nets c)
           (sub4 c) (sub6 c) (pre4 c) (pre6 c).

Definition with_nets (c : config) (al : list (prefix * option nat)) (p4 : list (prefix * Z)) : config :=
  mkConfig (lim_system c) (lim_transient c) (lim_asystem c) (lim_atransient c) (lim_svc c) (lim_svcpeer c)
           (lim_proto c) (lim_protopeer c) (lim_peer c) (lim_conn c) (lim_stream c) (lim_over c) al
           (sub4 c) (sub6 c) p4 (pre6 c).

Definition ip4 (a b c d : Z) : ipaddr := mkIp false (((a * 256 + b) * 256 + c) * 256 + d).
Definition net4 (a b c d len : Z) : prefix := mkPrefix false (((a * 256 + b) * 256 + c) * 256 + d) len.

Definition no_conns : limit := mkLimit 1073741824 100 100 100 0 100 100 100.

(* DESIGN 9 item 6: a View reservation on a peer scope, then gc *)
Definition gc_cfg : config := base_cfg.
Definition gc_ops : list op := [OReserve (Peer 0) 300 255; OGC].

(* DESIGN 9 item 7: allow-listed /24 with an explicit prefix cap of 2; the
   standard system scope admits no connection, so each OpenConnection is
   retried through the allow-listed scopes and loses its limiter count *)
Definition al_cfg : config :=
  with_nets (with_limits base_cfg no_conns gen_lim)
            [(net4 10 1 0 0 24, None)] [(net4 10 1 0 0 24, 2)].
Definition al_ops : list op :=
  [OOpenConn 0 true true (Some (ip4 10 1 0 1));
   OOpenConn 1 true true (Some (ip4 10 1 0 2));
   OOpenConn 2 true true (Some (ip4 10 1 0 3))].

(* found by the harness: SetPeer again after a refused transferAllowedToStandard *)
Definition retry_cfg : config :=
  with_nets (with_limits base_cfg gen_lim no_conns)
            [(net4 10 1 1 0 24, Some 1%nat)] [(net4 10 1 1 0 24, 64)].
Definition retry_ops : list op :=
  [OOpenConn 0 true true (Some (ip4 10 1 1 1));
   OSetPeer 0 2;
   OSetPeer 0 2].

(* a history through every kind of operation on which everything is fine *)
Definition tour_cfg : config :=
  mkConfig gen_lim gen_lim gen_lim gen_lim gen_lim gen_lim gen_lim
           (mkLimit 100 100 100 100 100 100 100 100)   (* protocol-peer scopes: 100 bytes *)
           gen_lim gen_lim gen_lim [] [] [(32, 8)] [(56, 8); (48, 64)] [] [].
Definition tour_ops : list op :=
  [OOpenConn 0 true true (Some (ip4 10 1 2 1));
   OReserve (Conn 0) 500 255;
   OSetPeer 0 1;
   OOpenStream 0 1 true;
   OSetProto 0 0;
   OSetSvc 0 0;
   OReserve (Stream 0) 60 255;
   OBeginSpan (Stream 0) 0;
   OBeginSpan (Span 0) 1;
   OReserve (Span 1) 41 255;     (* refused by the protocol-peer scope: undone in peer, stream, spans *)
   OReserve (Span 1) 40 255;
   OReserve (Span 1) 0 0;        (* zero bytes at priority 0: over the scaled threshold *)
   ODone (Stream 0);             (* owner closed under its spans *)
   OReserve (Span 1) 1 255;      (* scope closed *)
   ORelease (Span 1) 40;
   ODone (Span 1); ODone (Span 0); ODone (Span 1);
   OReserve (Peer 1) 10 255;
   OBeginSpan (Peer 1) 2;
   OGC;                          (* peer 1 is referenced by conn 0 and span 2: nothing collected *)
   ORelease (Peer 1) 10;
   ODone (Span 2);
   ODone (Conn 0); ODone (Conn 0);
   OGC].

(* C03 — the conn limiter refuses only at a cap: if addConn refuses an endpoint
   then the prefix that governs it, or one of its subnets, is at its cap, the
   counters being the numbers of open connections (LimCount). *)
From Coq Require Import List ZArith Bool Arith Lia.
From Verif Require Import lib.Wire c03.Int64 c03.Model c03.Spec c03.Proofs_Int64 c03.Proofs_Base c03.Proofs_Cap.
Import ListNotations.
Local Open Scope Z_scope.

Lemma prefix_add_refused : forall pl pc off cnt a, pc_cnt pl pc off cnt -> prefix_add pl pc a = Some None ->
  exists j cap, first_match pl a off = Some (j, cap) /\ cnt j + 1 > cap.
Proof.
  induction pl as [|[p cap] pr IH]; intros pc off cnt a H E; destruct pc as [|n cr]; cbn in *; try discriminate; try contradiction.
  destruct H as [H1 H2]. destruct (contains p a).
  - destruct (n + 1 >? cap) eqn:G; [|discriminate]. rewrite Z.gtb_ltb in G. apply Z.ltb_lt in G.
    exists off, cap. split; [reflexivity | lia].
  - destruct (prefix_add pr cr a) as [[cr'|]|] eqn:R; try discriminate.
    apply (IH cr (off + 1) cnt a H2 R).
Qed.

Lemma subnet_check_refused : forall rules sc cnt a, sc_cnt rules sc cnt -> subnet_check rules sc a = false ->
  existsb (fun rule => match prefix_key a (fst rule) with
                       | None => true
                       | Some k => cnt (fst rule) k + 1 >? snd rule
                       end) rules = true.
Proof.
  induction rules as [|[len cap] rr IH]; intros sc cnt a H C; destruct sc as [|cm cr]; cbn in *; try discriminate; try contradiction.
  destruct H as (Nd & Hz & Hr). destruct (prefix_key a len) as [k|] eqn:Pk; [|reflexivity].
  fold (zdef cm k) in C. rewrite <- Hz. destruct (zdef cm k + 1 >? cap) eqn:G; [reflexivity|].
  cbn [orb]. apply (IH cr cnt a Hr C).
Qed.

Theorem limiter_add_refused : forall c l a L, LimCount c l L -> limiter_add c l a = None -> cap_reached c L a = true.
Proof.
  intros c l a L H E. set (v := ip_v6 a). destruct (H v) as [Hp Hs].
  assert (Main : match prefix_add (built_prefixes c v) (pcs v l) a with
                 | Some None => True
                 | None => subnet_check (subs v c) (scs v l) a = false
                 | Some (Some _) => False
                 end -> cap_reached c L a = true).
  { intros M. unfold cap_reached. fold v.
    destruct (prefix_add (built_prefixes c v) (pcs v l) a) as [[p|]|] eqn:PA; [destruct M| |].
    - destruct (prefix_add_refused _ _ 0 (cntP c v L) a Hp PA) as (j & cap & F & G).
      change (pre_of c a = Some (j, cap)) in F. rewrite F. fold (in_pre c v j).
      change (zcount (in_pre c v j) L) with (cntP c v L j). apply Z.gtb_lt. lia.
    - pose proof (prefix_add_cnt (built_prefixes c v) (pcs v l) 0 (cntP c v L) a Hp) as X. rewrite PA in X.
      change (pre_of c a = None) in X. rewrite X. fold (subs v c).
      pose proof (subnet_check_refused (subs v c) (scs v l) (cntS c v L) a Hs M) as Ex.
      rewrite existsb_exists in Ex |- *. destruct Ex as (rule & Hr & Er). exists rule. split; [exact Hr|].
      destruct (prefix_key a (fst rule)) as [k|]; [|reflexivity]. exact Er. }
  apply Main. unfold limiter_add in E. fold v in E. destruct v; cbn [pcs scs subs].
  - destruct (prefix_add (built_prefixes c true) (pc6 l) a) as [[p|]|]; [discriminate | exact Logic.I|].
    destruct (subnet_check (sub6 c) (sc6 l) a); [discriminate | reflexivity].
  - destruct (prefix_add (built_prefixes c false) (pc4 l) a) as [[p|]|]; [discriminate | exact Logic.I|].
    destruct (subnet_check (sub4 c) (sc4 l) a); [discriminate | reflexivity].
Qed.

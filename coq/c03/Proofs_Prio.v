(* C03 — the monitor's priority-threshold check on the model's own trace: after
   an accepted ReserveMemory(size, prio) every scope the reservation is charged
   to is at or below limit * (1 + prio) / 256 (or has the unchecked MaxInt64
   limit). *)
From Coq Require Import List ZArith Bool Arith Lia.
From Verif Require Import lib.Wire c03.Int64 c03.Model c03.Spec c03.Proofs_Int64 c03.Proofs_Base
     c03.Proofs_Sum c03.Proofs_Reach c03.Proofs_Link c03.Proofs_Targets c03.Proofs_Frames c03.Proofs_Frames2
     c03.Proofs_Frames3 c03.Proofs_Kill c03.Proofs_OpsMem.
Import ListNotations.
Local Open Scope Z_scope.

Definition under_prio (m : smap) (t : sid) (sz prio : Z) : Prop :=
  exists sc, get m t = Some sc /\ s_done sc = false /\
             (l_mem (s_lim sc) = max_int64 \/ mem (s_use sc) + sz <= mem_threshold (l_mem (s_lim sc)) prio).

Lemma charge_one_mem : forall t sz prio m m', all_good m -> 0 <= sz <= max_int64 -> 0 <= prio <= 255 ->
  mem (use_of m t) + sz <= max_int64 ->
  charge_one t (KMem sz prio) m = inl m' ->
  under_prio m t sz prio /\ (forall x, x <> t -> get m' x = get m x).
Proof.
  intros t sz prio m m' Gd Hsz Hp Ov H. unfold charge_one in H. destruct (get m t) as [sc|] eqn:G; [|discriminate].
  destruct (s_done sc) eqn:D; [discriminate|]. cbn [rc_reserve] in H.
  destruct (reserve_memory (s_lim sc) (s_use sc) sz prio) as [u|e] eqn:R; [|discriminate]. inversion H; subst m'.
  destruct (Gd t sc G) as (L & N & F).
  assert (Ov' : mem (s_use sc) + sz <= max_int64) by (unfold use_of in Ov; rewrite G in Ov; exact Ov).
  destruct (reserve_memory_ok (s_lim sc) (s_use sc) sz prio u L N F Hsz Hp Ov' R) as (_ & Th).
  split; [exists sc; split; [exact G | split; [exact D | exact Th]]|].
  intros x Hne. apply get_set_other. congruence.
Qed.

Lemma charge_list_prio : forall l ch sz prio m m', all_good m -> 0 <= sz <= max_int64 -> 0 <= prio <= 255 -> NoDup l ->
  (forall t, In t l -> mem (use_of m t) + sz <= max_int64) ->
  charge_list l ch (KMem sz prio) m = (m', None) ->
  forall t, In t l -> under_prio m t sz prio.
Proof.
  induction l as [|t r IH]; intros ch sz prio m m' Gd Hsz Hp Nd Ov H y Hy; [destruct Hy|].
  cbn [charge_list] in H. destruct (charge_one t (KMem sz prio) m) as [m1|e] eqn:C; [|inversion H].
  inversion Nd as [|? ? Nt Nr]; subst.
  destruct (charge_one_mem t sz prio m m1 Gd Hsz Hp (Ov t (or_introl eq_refl)) C) as (Ut & Oth).
  destruct Hy as [<-|Hy]; [exact Ut|].
  assert (Hk : kind_ok (KMem sz prio)) by (cbn; lia).
  destruct (charge_one_ok t (KMem sz prio) m m1 Hk Gd ltac:(cbn; apply Ov; left; reflexivity) C) as (_ & _ & U1 & Gd1).
  assert (Hne : y <> t) by (intros ->; contradiction).
  assert (Ov1 : forall x, In x r -> mem (use_of m1 x) + sz <= max_int64).
  { intros x Hx. rewrite U1. destruct (sid_eqb t x) eqn:E; [apply sid_eqb_eq in E; subst x; contradiction|]. apply Ov. right. exact Hx. }
  destruct (IH (ch ++ [t]) sz prio m1 m' Gd1 Hsz Hp Nr Ov1 H y Hy) as (sc & G & D & Th).
  exists sc. rewrite <- (Oth y Hne). split; [exact G | split; assumption].
Qed.

Lemma prio_threshold_eq : forall l prio, prio_threshold l prio = mem_threshold (l_mem l) prio.
Proof. reflexivity. Qed.

(* the limit of an open scope is the limit the property assigns to it *)
Lemma live_limit : forall c m a y sc, Inv c m a -> get m y = Some sc -> s_done sc = false -> s_lim sc = a_limit c a y.
Proof.
  intros c m a y sc I G D. destruct (is_handle y) eqn:Hh.
  - destruct (hget (holders a) y) as [h|] eqn:Gh.
    + destruct (I_handle c m a I y h Gh Hh) as (sc0 & G0 & _ & _ & _ & Pl). rewrite G in G0. inversion G0; subst. exact Pl.
    + destruct (I_garbage c m a I y sc G Hh Gh) as [Dn _]. congruence.
  - destruct (I_static c m a I y sc G Hh) as (_ & _ & _ & Pl). rewrite Pl. destruct y; try discriminate; reflexivity.
Qed.

Theorem reserve_prio : forall c st a t sz prio,
  cfg_ok c -> Inv c (scopes st) a ->
  0 <= prio <= 255 -> sz <= max_int64 -> view_target t = true -> has_holder a t = true ->
  novf (scopes st) (Z.max sz 0) ->
  let '(st', cls) := reserve_mem c st t sz prio in
  cls = 0 -> forall y, In y (areach a t) ->
  l_mem (a_limit c a y) = max_int64 \/ mem (use_of (scopes st') y) <= prio_threshold (a_limit c a y) prio.
Proof.
  intros c st a t sz prio LO I Hp Hsz V Hh Ov. unfold reserve_mem.
  pose proof (has_holder_if a t Hh) as K.
  pose proof (extends_view_enter c (scopes st) a t I) as E0.
  set (m0 := view_enter c (scopes st) t) in *.
  assert (I0 : Inv c m0 a) by (apply (Inv_extends c (scopes st) m0 a LO I E0)).
  unfold scope_reserve.
  destruct (Z_lt_le_dec sz 0) as [Hneg|Hpos].
  - destruct (charge_neg t (KMem sz prio) m0 (chain_of m0 t ++ edges_of m0 (root_of m0 t)) sz prio eq_refl Hneg) as [e He].
    unfold targets. rewrite He. intros X. destruct e; discriminate X.
  - destruct (targets_spec c m0 a t I0 K) as (Nd & _ & Live).
    assert (Hk : kind_ok (KMem sz prio)) by (cbn; lia).
    assert (Ov0 : forall x, In x (targets m0 t) -> mem (use_of m0 x) + mem (kdelta (KMem sz prio)) <= max_int64).
    { intros x _. destruct (E0 x) as [U _]. rewrite U. cbn. specialize (Ov x). lia. }
    pose proof (charge_list_top (targets m0 t) (KMem sz prio) m0 Hk (I_good c m0 a I0) Nd Ov0) as H.
    pose proof (charge_list_prio (targets m0 t) [] sz prio m0) as P.
    destruct (charge_list (targets m0 t) [] (KMem sz prio) m0) as [m1 e]. destruct H as (Sh & Gd & Res).
    cbn [scopes with_scopes]. destruct e as [e|]; [intros X; destruct e; discriminate X|]. intros _ y Hy.
    destruct Res as [Lv U]. rewrite <- (Live Lv) in Hy.
    specialize (P m1 (I_good c m0 a I0) ltac:(lia) Hp Nd ltac:(intros x Hx; apply (Ov0 x Hx)) eq_refl y Hy).
    destruct P as (sc & G & D & Th).
    rewrite <- (live_limit c m0 a y sc I0 G D), prio_threshold_eq.
    destruct Th as [Th|Th]; [left; exact Th | right].
    assert (Eu : use_of (view_leave m1 t) y = use_of m1 y).
    { unfold view_leave. destruct (is_created_view t); [apply decref_use | reflexivity]. }
    rewrite Eu, U. destruct (in_dec sid_dec y (targets m0 t)) as [_|X]; [|contradiction].
    cbn [kdelta stat_add mem_vec Model.mem]. rewrite (use_of_get m0 y sc G). exact Th.
Qed.

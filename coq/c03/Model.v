(* C03 — resource manager accounting.  Executable model transcribed from
   /repo/p2p/host/resource-manager/{scope.go,rcmgr.go,conn_limiter.go,allowlist.go}.
   No proofs in this file.

   Layout kept from the code (this is where things can go wrong):
   - every scope has its own six counters, a done flag, a reference count, a
     linearised parent list [s_edges] (DAG scopes) or an owner (span scopes);
   - a reservation is made locally and then in every edge, one after the
     other, and on a refusal the already charged prefix is released again
     ([charge_list]);
   - span scopes forward to their owner, which forwards to its owner ... up to
     a DAG scope, which loops over its edges.  The recursion through the owner
     is unrolled: a span stores its owner chain [s_chain] = owner :: owner's
     chain, so that the scopes visited by ReserveMemory on s are
     s :: s_chain s ++ s_edges (root);
   - releases clamp at zero ("BUG: too much ... released"), skip done edges,
     and stop at the first done owner;
   - doneUnlocked releases the whole stat to the owner / to the edges once;
   - SetPeer / SetProtocol / SetService / transferAllowedToStandard move the
     whole stat with ReserveForChild / ReleaseForChild and their rollbacks;
   - openConnection's allow-list retry; connLimiter add/rm; gc with IsUnused
     .
   Go int is int64 here; counters other than memory stay tiny and are plain Z;
   memory uses the wrap-around arithmetic of Int64.v. *)
From Coq Require Import List ZArith Bool Arith.
From Verif Require Import c03.Int64.
Import ListNotations.
Local Open Scope Z_scope.

(* ---- identifiers --------------------------------------------------------- *)
Inductive sid :=
| System | Transient | ASystem | ATransient
| Svc (s : nat) | Proto (p : nat) | Peer (q : nat)
| SvcPeer (s q : nat) | ProtoPeer (p q : nat)
| Conn (i : nat) | Stream (j : nat) | Span (k : nat).

Definition sid_eqb (a b : sid) : bool :=
  match a, b with
  | System, System | Transient, Transient | ASystem, ASystem | ATransient, ATransient => true
  | Svc x, Svc y | Proto x, Proto y | Peer x, Peer y
  | Conn x, Conn y | Stream x, Stream y | Span x, Span y => Nat.eqb x y
  | SvcPeer x1 x2, SvcPeer y1 y2 | ProtoPeer x1 x2, ProtoPeer y1 y2 => Nat.eqb x1 y1 && Nat.eqb x2 y2
  | _, _ => false
  end.

(* ---- counters and limits -------------------------------------------------- *)
Record stat := mkStat { mem : Z; sin : Z; sout : Z; cin : Z; cout : Z; fd : Z }.
Definition stat0 : stat := mkStat 0 0 0 0 0 0.

Record limit := mkLimit {
  l_mem : Z; l_s : Z; l_sin : Z; l_sout : Z; l_c : Z; l_cin : Z; l_cout : Z; l_fd : Z }.

(* what a reservation asks for *)
Inductive rkind :=
| KMem (sz prio : Z)           (* ReserveMemory / ReserveMemoryForChild *)
| KStream (inb : bool)         (* AddStream / AddStreamForChild *)
| KConn (inb usefd : bool)     (* AddConn / AddConnForChild *)
| KStat (st : stat).           (* ReserveForChild / ReleaseForChild / ReleaseResources *)

Inductive err := EClosed | ELimit | EOther.

Definition b2z (b : bool) : Z := if b then 1 else 0.

(* checkMemory, literally: negative -> plain error; MaxInt64 -> no check;
   addInt64WithOverflow; mulInt64WithOverflow with the big.Int fallback *)
Definition check_memory (lim : limit) (u : stat) (rsvp prio : Z) : option err :=
  if rsvp <? 0 then Some EOther
  else if l_mem lim =? max_int64 then None
  else
    let '(newmem, addOk) := add_with_overflow (mem u) rsvp in
    let '(th, mulOk) := mul_with_overflow (1 + prio) (l_mem lim) in
    let threshold :=
      if mulOk then Z.quot th 256
      else Z.shiftr (l_mem lim * (1 + prio)) 8 (* big.Int: exact product, Rsh 8 *) in
    if negb addOk || (newmem >? threshold) then Some ELimit else None.

(* addStreams *)
Definition add_streams (lim : limit) (u : stat) (i o : Z) : option stat :=
  if (i >? 0) && (sin u + i >? l_sin lim) then None
  else if (o >? 0) && (sout u + o >? l_sout lim) then None
  else if sin u + i + sout u + o >? l_s lim then None
  else Some (mkStat (mem u) (sin u + i) (sout u + o) (cin u) (cout u) (fd u)).

(* addConns *)
Definition add_conns (lim : limit) (u : stat) (i o f : Z) : option stat :=
  if (i >? 0) && (cin u + i >? l_cin lim) then None
  else if (o >? 0) && (cout u + o >? l_cout lim) then None
  else if cin u + i + cout u + o >? l_c lim then None
  else if (f >? 0) && (fd u + f >? l_fd lim) then None
  else Some (mkStat (mem u) (sin u) (sout u) (cin u + i) (cout u + o) (fd u + f)).

Definition clamp0 (z : Z) : Z := if z <? 0 then 0 else z.

(* releaseMemory / removeStreams / removeConns: subtract, clamp at zero *)
Definition release_memory (u : stat) (sz : Z) : stat :=
  mkStat (clamp0 (sub64 (mem u) sz)) (sin u) (sout u) (cin u) (cout u) (fd u).
Definition remove_streams (u : stat) (i o : Z) : stat :=
  mkStat (mem u) (clamp0 (sin u - i)) (clamp0 (sout u - o)) (cin u) (cout u) (fd u).
Definition remove_conns (u : stat) (i o f : Z) : stat :=
  mkStat (mem u) (sin u) (sout u) (clamp0 (cin u - i)) (clamp0 (cout u - o)) (clamp0 (fd u - f)).

Definition reserve_memory (lim : limit) (u : stat) (sz prio : Z) : stat + err :=
  match check_memory lim u sz prio with
  | Some e => inr e
  | None => inl (mkStat (add64 (mem u) sz) (sin u) (sout u) (cin u) (cout u) (fd u))
  end.

(* the per-scope part of a reservation of kind k *)
Definition rc_reserve (k : rkind) (lim : limit) (u : stat) : stat + err :=
  match k with
  | KMem sz prio => reserve_memory lim u sz prio
  | KStream inb =>
      match add_streams lim u (b2z inb) (b2z (negb inb)) with Some u' => inl u' | None => inr ELimit end
  | KConn inb usefd =>
      match add_conns lim u (b2z inb) (b2z (negb inb)) (b2z usefd) with Some u' => inl u' | None => inr ELimit end
  | KStat st =>
      (* ReserveForChild: memory at priority 255, then streams, then conns,
         undoing what was taken when a later part is refused *)
      match reserve_memory lim u (mem st) 255 with
      | inr e => inr e
      | inl u1 =>
          match add_streams lim u1 (sin st) (sout st) with
          | None => inr ELimit          (* releaseMemory: the updated copy is dropped *)
          | Some u2 =>
              match add_conns lim u2 (cin st) (cout st) (fd st) with
              | None => inr ELimit      (* releaseMemory + removeStreams *)
              | Some u3 => inl u3
              end
          end
      end
  end.

Definition rc_release (k : rkind) (u : stat) : stat :=
  match k with
  | KMem sz _ => release_memory u sz
  | KStream inb => remove_streams u (b2z inb) (b2z (negb inb))
  | KConn inb usefd => remove_conns u (b2z inb) (b2z (negb inb)) (b2z usefd)
  | KStat st => remove_conns (remove_streams (release_memory u (mem st)) (sin st) (sout st)) (cin st) (cout st) (fd st)
  end.

(* ---- scopes ---------------------------------------------------------------- *)
Record scope := mkScope {
  s_lim : limit; s_use : stat; s_done : bool; s_ref : Z;
  s_chain : list sid;     (* span scopes: owner, owner's owner, ... ; [] for DAG scopes *)
  s_edges : list sid }.   (* DAG scopes: linearised parent set *)

Definition set_use (sc : scope) (u : stat) := mkScope (s_lim sc) u (s_done sc) (s_ref sc) (s_chain sc) (s_edges sc).
Definition set_ref (sc : scope) (r : Z) := mkScope (s_lim sc) (s_use sc) (s_done sc) r (s_chain sc) (s_edges sc).
Definition set_edges (sc : scope) (e : list sid) := mkScope (s_lim sc) (s_use sc) (s_done sc) (s_ref sc) (s_chain sc) e.
Definition set_done (sc : scope) := mkScope (s_lim sc) stat0 true (s_ref sc) (s_chain sc) (s_edges sc).

Definition smap := list (sid * scope).

Fixpoint get (m : smap) (t : sid) : option scope :=
  match m with
  | [] => None
  | (x, sc) :: r => if sid_eqb x t then Some sc else get r t
  end.

Fixpoint set (m : smap) (t : sid) (v : scope) : smap :=
  match m with
  | [] => [(t, v)]
  | (x, sc) :: r => if sid_eqb x t then (x, v) :: r else (x, sc) :: set r t v
  end.

Fixpoint remove (m : smap) (t : sid) : smap :=
  match m with
  | [] => []
  | (x, sc) :: r => if sid_eqb x t then r else (x, sc) :: remove r t
  end.

Definition upd (m : smap) (t : sid) (f : scope -> scope) : smap :=
  match get m t with Some sc => set m t (f sc) | None => m end.

Definition incref (m : smap) (t : sid) := upd m t (fun sc => set_ref sc (s_ref sc + 1)).
Definition decref (m : smap) (t : sid) := upd m t (fun sc => set_ref sc (s_ref sc - 1)).
Definition increfs (m : smap) (l : list sid) := fold_left incref l m.

Definition is_done (m : smap) (t : sid) : bool :=
  match get m t with Some sc => s_done sc | None => true end.
Definition use_of (m : smap) (t : sid) : stat :=
  match get m t with Some sc => s_use sc | None => stat0 end.

(* newResourceScope: IncRef every edge *)
Definition new_scope (m : smap) (t : sid) (lim : limit) (edges : list sid) : smap :=
  set (increfs m edges) t (mkScope lim stat0 false 0 [] edges).

(* one scope's share of a reservation: the *ForChild functions, and the local
   part of ReserveMemory/AddStream/AddConn *)
Definition charge_one (t : sid) (k : rkind) (m : smap) : smap + err :=
  match get m t with
  | None => inr EClosed
  | Some sc =>
      if s_done sc then inr EClosed
      else match rc_reserve k (s_lim sc) (s_use sc) with
           | inl u => inl (set m t (set_use sc u))
           | inr e => inr e
           end
  end.

(* Release*ForChild: nothing on a done scope *)
Definition uncharge_one (t : sid) (k : rkind) (m : smap) : smap :=
  match get m t with
  | None => m
  | Some sc => if s_done sc then m else set m t (set_use sc (rc_release k (s_use sc)))
  end.

Definition uncharge_list (l : list sid) (k : rkind) (m : smap) : smap :=
  fold_left (fun m t => uncharge_one t k m) l m.

(* reserve in every scope of l in order; on a refusal release the charged
   prefix ("for _, e := range s.edges[:reserved] { e.Release...ForChild }",
   and the local release of each owner level) and report the error *)
Fixpoint charge_list (l charged : list sid) (k : rkind) (m : smap) : smap * option err :=
  match l with
  | [] => (m, None)
  | t :: r =>
      match charge_one t k m with
      | inr e => (uncharge_list charged k m, Some e)
      | inl m' => charge_list r (charged ++ [t]) k m'
      end
  end.

(* the DAG scope at the top of s's owner chain *)
Definition root_of (m : smap) (t : sid) : sid :=
  match get m t with
  | Some sc => last (s_chain sc) t
  | None => t
  end.
Definition chain_of (m : smap) (t : sid) : list sid :=
  match get m t with Some sc => s_chain sc | None => [] end.
Definition edges_of (m : smap) (t : sid) : list sid :=
  match get m t with Some sc => s_edges sc | None => [] end.

(* scopes visited by ReserveMemory / AddStream / AddConn called on t *)
Definition targets (m : smap) (t : sid) : list sid :=
  t :: chain_of m t ++ edges_of m (root_of m t).

(* scopes reached by ReleaseMemory / ReleaseResources starting at the list l
   of owner levels: stops at the first done owner; at the root every edge
   that is not done *)
Fixpoint live_prefix (m : smap) (l : list sid) : list sid * bool :=
  match l with
  | [] => ([], true)
  | t :: r => if is_done m t then ([], false)
              else let '(p, all) := live_prefix m r in (t :: p, all)
  end.

Definition rel_targets_from (m : smap) (levels : list sid) (root : sid) : list sid :=
  let '(p, all) := live_prefix m levels in
  if all then p ++ edges_of m root else p.

(* ReleaseMemory called on t *)
Definition rel_targets (m : smap) (t : sid) : list sid :=
  rel_targets_from m (t :: chain_of m t) (root_of m t).

(* resourceScope.ReserveMemory / AddStream / AddConn on t *)
Definition scope_reserve (m : smap) (t : sid) (k : rkind) : smap * option err :=
  charge_list (targets m t) [] k m.

(* resourceScope.ReleaseMemory on t *)
Definition scope_release (m : smap) (t : sid) (k : rkind) : smap :=
  uncharge_list (rel_targets m t) k m.

(* doneUnlocked *)
Definition scope_done (m : smap) (t : sid) : smap :=
  match get m t with
  | None => m
  | Some sc =>
      if s_done sc then m
      else
        let st := s_use sc in
        let m1 :=
          match s_chain sc with
          | o :: _ =>
              (* owner.ReleaseResources(stat); owner.DecRef() *)
              decref (uncharge_list (rel_targets_from m (s_chain sc) (root_of m t)) (KStat st) m) o
          | [] =>
              fold_left (fun m e => decref (uncharge_one e (KStat st) m) e) (s_edges sc) m
          end in
        upd m1 t set_done
  end.

(* ---- configuration ---------------------------------------------------------- *)
Record ipaddr := mkIp { ip_v6 : bool; ip_val : Z }.
Record prefix := mkPrefix { p_v6 : bool; p_base : Z; p_len : Z }.

Definition ip_bits (v6 : bool) : Z := if v6 then 128 else 32.

(* netip.Addr.Prefix(len): the high len bits; None when len is out of range *)
Definition prefix_key (a : ipaddr) (len : Z) : option Z :=
  if (len <? 0) || (len >? ip_bits (ip_v6 a)) then None
  else Some (Z.shiftr (ip_val a) (ip_bits (ip_v6 a) - len)).

Definition contains (p : prefix) (a : ipaddr) : bool :=
  Bool.eqb (p_v6 p) (ip_v6 a) &&
  match prefix_key a (p_len p) with
  | Some k => k =? Z.shiftr (p_base p) (ip_bits (p_v6 p) - p_len p)
  | None => false
  end.

Record config := mkConfig {
  lim_system : limit; lim_transient : limit; lim_asystem : limit; lim_atransient : limit;
  lim_svc : limit; lim_svcpeer : limit; lim_proto : limit; lim_protopeer : limit;
  lim_peer : limit; lim_conn : limit; lim_stream : limit;
  lim_over : list (Z * nat * limit);       (* per-service / protocol / peer overrides: (kind, id, limit);
                                              kind 4 Svc, 5 Proto, 6 Peer, 7 ServicePeer(svc), 8 ProtocolPeer(proto) *)
  allow_nets : list (prefix * option nat); (* allow-list: network, optional peer constraint *)
  sub4 : list (Z * Z); sub6 : list (Z * Z);            (* ConnLimitPerSubnet: (PrefixLength, ConnCount) *)
  pre4 : list (prefix * Z); pre6 : list (prefix * Z)   (* NetworkPrefixLimit as passed to WithNetworkPrefixLimit *)
}.

Fixpoint find_over (l : list (Z * nat * limit)) (kind : Z) (id : nat) : option limit :=
  match l with
  | [] => None
  | (k, i, lim) :: r => if (k =? kind) && Nat.eqb i id then Some lim else find_over r kind id
  end.

Definition limit_of (c : config) (t : sid) : limit :=
  let ov kind id dflt := match find_over (lim_over c) kind id with Some l => l | None => dflt end in
  match t with
  | System => lim_system c | Transient => lim_transient c
  | ASystem => lim_asystem c | ATransient => lim_atransient c
  | Svc s => ov 4 s (lim_svc c) | Proto p => ov 5 p (lim_proto c) | Peer q => ov 6 q (lim_peer c)
  | SvcPeer s _ => ov 7 s (lim_svcpeer c) | ProtoPeer p _ => ov 8 p (lim_protopeer c)
  | Conn _ => lim_conn c | Stream _ => lim_stream c
  | Span _ => lim_conn c (* never used: a span copies its owner's limit *)
  end.

(* net.IP.To4: an IPv4-mapped IPv6 address ::ffff:a.b.c.d is taken as a.b.c.d.
   The allow-list matches with net.IPNet.Contains, which unmaps; the connection
   limiter works on netip.Addr / netip.Prefix, which do not (a mapped address is
   an IPv6 key there, when added and when removed) *)
Definition unmap (a : ipaddr) : ipaddr :=
  if ip_v6 a && (Z.shiftr (ip_val a) 32 =? 65535) then mkIp false (Z.land (ip_val a) 4294967295) else a.

(* Allowlist.Allowed / AllowedPeerAndMultiaddr *)
Definition allowed (c : config) (a : ipaddr) : bool :=
  existsb (fun e => contains (fst e) (unmap a)) (allow_nets c).
Definition allowed_peer (c : config) (q : nat) (a : ipaddr) : bool :=
  existsb (fun e => contains (fst e) (unmap a) &&
                    match snd e with None => true | Some q' => Nat.eqb q q' end) (allow_nets c).

(* sortNetworkPrefixes: stable, most specific first (insertion sort is stable) *)
Fixpoint ins_prefix (x : prefix * Z) (l : list (prefix * Z)) : list (prefix * Z) :=
  match l with
  | [] => [x]
  | y :: r => if p_len (fst y) <? p_len (fst x) then x :: y :: r else y :: ins_prefix x r
  end.
Definition sort_prefixes (l : list (prefix * Z)) : list (prefix * Z) :=
  fold_left (fun acc x => ins_prefix x acc) l [].

Definition prefix_eqb (a b : prefix) : bool :=
  Bool.eqb (p_v6 a) (p_v6 b) && (p_base a =? p_base b) && (p_len a =? p_len b).

(* NewResourceManager: every allow-listed network without peer constraint that
   has no explicit prefix limit gets one with the allow-listed system's
   connection limit (the "registered" set is not extended while adding) *)
Definition built_prefixes (c : config) (v6 : bool) : list (prefix * Z) :=
  let explicit := sort_prefixes (if v6 then pre6 c else pre4 c) in
  let registered := map fst (sort_prefixes (pre4 c)) ++ map fst (sort_prefixes (pre6 c)) in
  fold_left
    (fun acc e =>
       match snd e with
       | Some _ => acc
       | None =>
           if Bool.eqb (p_v6 (fst e)) v6 && negb (existsb (prefix_eqb (fst e)) registered)
           then sort_prefixes (acc ++ [(fst e, l_c (lim_asystem c))])
           else acc
       end)
    (allow_nets c) explicit.

(* ---- connLimiter -------------------------------------------------------------- *)
Record limiter := mkLimiter {
  pc4 : list Z; pc6 : list Z;                       (* connsPerNetworkPrefixV4/6 *)
  sc4 : list (list (Z * Z)); sc6 : list (list (Z * Z)) (* ip4/ip6connsPerLimit: per rule, prefix key -> count *)
}.

Fixpoint zget (l : list (Z * Z)) (k : Z) : option Z :=
  match l with [] => None | (x, v) :: r => if x =? k then Some v else zget r k end.
Fixpoint zset (l : list (Z * Z)) (k v : Z) : list (Z * Z) :=
  match l with [] => [(k, v)] | (x, w) :: r => if x =? k then (x, v) :: r else (x, w) :: zset r k v end.
Fixpoint zdel (l : list (Z * Z)) (k : Z) : list (Z * Z) :=
  match l with [] => [] | (x, w) :: r => if x =? k then r else (x, w) :: zdel r k end.

(* first matching network prefix: Some (Some counts') = counted, Some None =
   refused, None = no prefix matches *)
Fixpoint prefix_add (pl : list (prefix * Z)) (pc : list Z) (a : ipaddr) : option (option (list Z)) :=
  match pl, pc with
  | (p, cap) :: pr, n :: cr =>
      if contains p a then
        (if n + 1 >? cap then Some None else Some (Some (n + 1 :: cr)))
      else match prefix_add pr cr a with
           | Some (Some cr') => Some (Some (n :: cr'))
           | x => x
           end
  | _, _ => None
  end.

Fixpoint prefix_rm (pl : list (prefix * Z)) (pc : list Z) (a : ipaddr) : option (list Z) :=
  match pl, pc with
  | (p, cap) :: pr, n :: cr =>
      if contains p a then Some (if n <=? 0 then n :: cr else n - 1 :: cr)
      else match prefix_rm pr cr a with Some cr' => Some (n :: cr') | None => None end
  | _, _ => None
  end.

(* subnet rules: first check every rule, then count under every rule *)
Fixpoint subnet_check (rules : list (Z * Z)) (sc : list (list (Z * Z))) (a : ipaddr) : bool :=
  match rules, sc with
  | (len, cap) :: rr, cm :: cr =>
      match prefix_key a len with
      | None => false
      | Some k =>
          let n := match zget cm k with Some v => v | None => 0 end in
          if n + 1 >? cap then false else subnet_check rr cr a
      end
  | _, _ => true
  end.

Fixpoint subnet_incr (rules : list (Z * Z)) (sc : list (list (Z * Z))) (a : ipaddr) : list (list (Z * Z)) :=
  match rules, sc with
  | (len, _) :: rr, cm :: cr =>
      match prefix_key a len with
      | None => cm :: subnet_incr rr cr a
      | Some k => zset cm k (match zget cm k with Some v => v | None => 0 end + 1) :: subnet_incr rr cr a
      end
  | _, _ => sc
  end.

Fixpoint subnet_decr (rules : list (Z * Z)) (sc : list (list (Z * Z))) (a : ipaddr) : list (list (Z * Z)) :=
  match rules, sc with
  | (len, _) :: rr, cm :: cr =>
      match prefix_key a len with
      | None => cm :: subnet_decr rr cr a
      | Some k =>
          (match zget cm k with
           | Some v => if v =? 0 then cm else if v - 1 <=? 0 then zdel cm k else zset cm k (v - 1)
           | None => cm
           end) :: subnet_decr rr cr a
      end
  | _, _ => sc
  end.

Definition init_limiter (c : config) : limiter :=
  mkLimiter (map (fun _ => 0) (built_prefixes c false)) (map (fun _ => 0) (built_prefixes c true))
            (map (fun _ => []) (sub4 c)) (map (fun _ => []) (sub6 c)).

(* connLimiter.addConn *)
Definition limiter_add (c : config) (l : limiter) (a : ipaddr) : option limiter :=
  if ip_v6 a then
    match prefix_add (built_prefixes c true) (pc6 l) a with
    | Some None => None
    | Some (Some pc') => Some (mkLimiter (pc4 l) pc' (sc4 l) (sc6 l))
    | None => if subnet_check (sub6 c) (sc6 l) a
              then Some (mkLimiter (pc4 l) (pc6 l) (sc4 l) (subnet_incr (sub6 c) (sc6 l) a))
              else None
    end
  else
    match prefix_add (built_prefixes c false) (pc4 l) a with
    | Some None => None
    | Some (Some pc') => Some (mkLimiter pc' (pc6 l) (sc4 l) (sc6 l))
    | None => if subnet_check (sub4 c) (sc4 l) a
              then Some (mkLimiter (pc4 l) (pc6 l) (subnet_incr (sub4 c) (sc4 l) a) (sc6 l))
              else None
    end.

(* connLimiter.rmConn *)
Definition limiter_rm (c : config) (l : limiter) (a : ipaddr) : limiter :=
  if ip_v6 a then
    match prefix_rm (built_prefixes c true) (pc6 l) a with
    | Some pc' => mkLimiter (pc4 l) pc' (sc4 l) (sc6 l)
    | None => mkLimiter (pc4 l) (pc6 l) (sc4 l) (subnet_decr (sub6 c) (sc6 l) a)
    end
  else
    match prefix_rm (built_prefixes c false) (pc4 l) a with
    | Some pc' => mkLimiter pc' (pc6 l) (sc4 l) (sc6 l)
    | None => mkLimiter (pc4 l) (pc6 l) (subnet_decr (sub4 c) (sc4 l) a) (sc6 l)
    end.

(* ---- manager state -------------------------------------------------------------- *)
Record cinfo := mkCinfo {
  ci_in : bool; ci_fd : bool; ci_allow : bool;
  ci_peer : option nat;
  ci_ip : option ipaddr;     (* connectionScope.ip *)
  ci_ep : option ipaddr }.   (* IP of connectionScope.endpoint *)

Record sinfo := mkSinfo { si_in : bool; si_peer : nat; si_proto : option nat; si_svc : option nat }.

Record state := mkState {
  scopes : smap;
  conns : list (nat * cinfo);
  streams : list (nat * sinfo);
  lims : limiter }.

Fixpoint nget {A} (l : list (nat * A)) (k : nat) : option A :=
  match l with [] => None | (x, v) :: r => if Nat.eqb x k then Some v else nget r k end.
Fixpoint nset {A} (l : list (nat * A)) (k : nat) (v : A) : list (nat * A) :=
  match l with [] => [(k, v)] | (x, w) :: r => if Nat.eqb x k then (x, v) :: r else (x, w) :: nset r k v end.

Definition with_scopes (st : state) (m : smap) := mkState m (conns st) (streams st) (lims st).

(* NewResourceManager: system, transient, allow-listed pair, each with one
   reference of its own *)
Definition init_scopes (c : config) : smap :=
  let m := new_scope [] System (lim_system c) [] in
  let m := incref m System in
  let m := new_scope m Transient (lim_transient c) [System] in
  let m := incref m Transient in
  let m := new_scope m ASystem (lim_asystem c) [] in
  let m := incref m ASystem in
  let m := new_scope m ATransient (lim_atransient c) [ASystem] in
  incref m ATransient.

Definition init_state (c : config) : state :=
  mkState (init_scopes c) [] [] (init_limiter c).

(* getServiceScope / getProtocolScope / getPeerScope: create on demand, IncRef *)
Definition get_scope (c : config) (m : smap) (t : sid) : smap :=
  let m1 := match get m t with
            | Some _ => m
            | None => new_scope m t (limit_of c t) [System]
            end in
  incref m1 t.

(* serviceScope.getPeerScope / protocolScope.getPeerScope: no edges *)
Definition get_subscope (c : config) (m : smap) (t : sid) : smap :=
  let m1 := match get m t with
            | Some _ => m
            | None => new_scope m t (limit_of c t) []
            end in
  incref m1 t.

Definition ecode (e : option err) : Z :=
  match e with None => 0 | Some ELimit => 1 | Some EClosed => 2 | Some EOther => 3 end.
Definition E_OK : Z := 0.
Definition E_LIMIT : Z := 1.
Definition E_CLOSED : Z := 2.
Definition E_OTHER : Z := 3.
Definition E_CAP : Z := 4.   (* "connections per ip limit exceeded": a plain error *)

(* connectionScope.Done *)
Definition conn_done (c : config) (st : state) (i : nat) : state :=
  if is_done (scopes st) (Conn i) then st
  else
    let l := match nget (conns st) i with
             | Some ci => match ci_ip ci with Some a => limiter_rm c (lims st) a | None => lims st end
             | None => lims st
             end in
    mkState (scope_done (scopes st) (Conn i)) (conns st) (streams st) l.

(* openConnection *)
Definition open_conn (c : config) (st : state) (i : nat) (inb usefd : bool) (ep : option ipaddr) : state * Z :=
  let after_limiter :=
    match ep with
    | Some a => match limiter_add c (lims st) a with Some l => Some l | None => None end
    | None => Some (lims st)
    end in
  match after_limiter with
  | None => (st, E_CAP)
  | Some l =>
      let m0 := new_scope (scopes st) (Conn i) (lim_conn c) [Transient; System] in
      let ci := mkCinfo inb usefd false None ep ep in
      let st0 := mkState m0 (nset (conns st) i ci) (streams st) l in
      let '(m1, e1) := scope_reserve m0 (Conn i) (KConn inb usefd) in
      let st1 := with_scopes st0 m1 in
      match e1 with
      | None => (st1, E_OK)
      | Some _ =>
          let retry := match ep with Some a => allowed c a | None => false end in
          if retry then
            (* conn.resourceScope.Done() (the limiter count is kept);
               conn = newAllowListedConnectionScope(..., ip) ; AddConn again *)
            let st2 := with_scopes st1 (scope_done (scopes st1) (Conn i)) in
            let m3 := new_scope (remove (scopes st2) (Conn i)) (Conn i) (lim_conn c) [ATransient; ASystem] in
            let ci' := mkCinfo inb usefd true None ep ep in
            let '(m4, e4) := scope_reserve m3 (Conn i) (KConn inb usefd) in
            let st4 := mkState m4 (nset (conns st2) i ci') (streams st2) (lims st2) in
            match e4 with
            | None => (st4, E_OK)
            | Some _ => (conn_done c st4 i, ecode e4)
            end
          else (conn_done c st1 i, ecode e1)
      end
  end.

(* transferAllowedToStandard (on conn i, current edges released first) *)
Definition transfer_allowed (m : smap) (i : nat) : smap * option err :=
  let st := use_of m (Conn i) in
  let m1 := fold_left (fun m e => decref (uncharge_one e (KStat st) m) e) (edges_of m (Conn i)) m in
  let m2 := upd m1 (Conn i) (fun sc => set_edges sc []) in
  match charge_one System (KStat st) m2 with
  | inr e => (m2, Some e)
  | inl m3 =>
      let m4 := incref m3 System in
      match charge_one Transient (KStat st) m4 with
      | inr e => (decref (uncharge_one System (KStat st) m4) System, Some e)
      | inl m5 =>
          let m6 := incref m5 Transient in
          (upd m6 (Conn i) (fun sc => set_edges sc [System; Transient]), None)
      end
  end.

(* connectionScope.SetPeer *)
Definition set_peer (c : config) (st : state) (i q : nat) : state * Z :=
  match nget (conns st) i with
  | None => (st, E_OTHER)
  | Some ci =>
      match ci_peer ci with
      | Some _ => (st, E_OTHER)    (* "connection scope already attached to a peer" *)
      | None =>
          let m := scopes st in
          (* allow-listed connection whose peer is not allowed at this address: move to the standard scopes first *)
          let needs_transfer :=
            ci_allow ci && negb (match ci_ep ci with Some a => allowed_peer c q a | None => false end) in
          let '(m1, ci1, sysT, trT, terr) :=
            if ci_allow ci then
              if needs_transfer then
                let ci' := mkCinfo (ci_in ci) (ci_fd ci) false (ci_peer ci) (ci_ip ci) (ci_ep ci) in
                let '(mt, e) := transfer_allowed m i in (mt, ci', System, Transient, e)
              else (m, ci, ASystem, ATransient, None)
            else
              (* an earlier refused transfer left the connection without edges:
                 charge the standard scopes now (fix e9a9a54) *)
              match edges_of m (Conn i) with
              | [] => let '(mt, e) := transfer_allowed m i in (mt, ci, System, Transient, e)
              | _ => (m, ci, System, Transient, None)
              end in
          match terr with
          | Some e => (mkState m1 (nset (conns st) i ci1) (streams st) (lims st), ecode (Some e))
          | None =>
              let m2 := get_scope c m1 (Peer q) in
              let stt := use_of m2 (Conn i) in
              match charge_one (Peer q) (KStat stt) m2 with
              | inr e =>
                  (mkState (decref m2 (Peer q)) (nset (conns st) i ci1) (streams st) (lims st), ecode (Some e))
              | inl m3 =>
                  let m4 := decref (uncharge_one trT (KStat stt) m3) trT in
                  let m5 := upd m4 (Conn i) (fun sc => set_edges sc [Peer q; sysT]) in
                  let ci2 := mkCinfo (ci_in ci1) (ci_fd ci1) (ci_allow ci1) (Some q) (ci_ip ci1) (ci_ep ci1) in
                  (mkState m5 (nset (conns st) i ci2) (streams st) (lims st), E_OK)
              end
          end
      end
  end.

(* OpenStream *)
Definition open_stream (c : config) (st : state) (j q : nat) (inb : bool) : state * Z :=
  let m0 := get_scope c (scopes st) (Peer q) in
  let m1 := new_scope m0 (Stream j) (lim_stream c) [Peer q; Transient; System] in
  let m2 := decref m1 (Peer q) in
  let si := mkSinfo inb q None None in
  let '(m3, e) := scope_reserve m2 (Stream j) (KStream inb) in
  match e with
  | None => (mkState m3 (conns st) (nset (streams st) j si) (lims st), E_OK)
  | Some _ => (mkState (scope_done m3 (Stream j)) (conns st) (nset (streams st) j si) (lims st), ecode e)
  end.

(* streamScope.SetProtocol *)
Definition set_proto (c : config) (st : state) (j p : nat) : state * Z :=
  match nget (streams st) j with
  | None => (st, E_OTHER)
  | Some si =>
      match si_proto si with
      | Some _ => (st, E_OTHER)
      | None =>
          let q := si_peer si in
          let m1 := get_scope c (scopes st) (Proto p) in
          let stt := use_of m1 (Stream j) in
          match charge_one (Proto p) (KStat stt) m1 with
          | inr e => (with_scopes st (decref m1 (Proto p)), ecode (Some e))
          | inl m2 =>
              let m3 := get_subscope c m2 (ProtoPeer p q) in
              match charge_one (ProtoPeer p q) (KStat stt) m3 with
              | inr e =>
                  (with_scopes st (decref (decref (uncharge_one (Proto p) (KStat stt) m3) (Proto p)) (ProtoPeer p q)),
                   ecode (Some e))
              | inl m4 =>
                  let m5 := decref (uncharge_one Transient (KStat stt) m4) Transient in
                  let m6 := upd m5 (Stream j) (fun sc => set_edges sc [Peer q; ProtoPeer p q; Proto p; System]) in
                  (mkState m6 (conns st) (nset (streams st) j (mkSinfo (si_in si) q (Some p) (si_svc si))) (lims st), E_OK)
              end
          end
      end
  end.

(* streamScope.SetService *)
Definition set_svc (c : config) (st : state) (j s : nat) : state * Z :=
  match nget (streams st) j with
  | None => (st, E_OTHER)
  | Some si =>
      match si_svc si, si_proto si with
      | Some _, _ => (st, E_OTHER)
      | None, None => (st, E_OTHER)
      | None, Some p =>
          let q := si_peer si in
          let m1 := get_scope c (scopes st) (Svc s) in
          let stt := use_of m1 (Stream j) in
          match charge_one (Svc s) (KStat stt) m1 with
          | inr e => (with_scopes st (decref m1 (Svc s)), ecode (Some e))
          | inl m2 =>
              let m3 := get_subscope c m2 (SvcPeer s q) in
              match charge_one (SvcPeer s q) (KStat stt) m3 with
              | inr e =>
                  (with_scopes st (decref (decref (uncharge_one (Svc s) (KStat stt) m3) (Svc s)) (SvcPeer s q)),
                   ecode (Some e))
              | inl m4 =>
                  let m5 := upd m4 (Stream j)
                              (fun sc => set_edges sc [Peer q; ProtoPeer p q; SvcPeer s q; Proto p; Svc s; System]) in
                  (mkState m5 (conns st) (nset (streams st) j (mkSinfo (si_in si) q (Some p) (Some s))) (lims st), E_OK)
              end
          end
      end
  end.

(* scopes reached through View{System,Transient,Service,Protocol,Peer} *)
Definition is_view (t : sid) : bool :=
  match t with System | Transient | Svc _ | Proto _ | Peer _ => true | _ => false end.
Definition is_created_view (t : sid) : bool :=
  match t with Svc _ | Proto _ | Peer _ => true | _ => false end.

(* View*(…, f): getXScope (IncRef) ; f ; DecRef *)
Definition view_enter (c : config) (m : smap) (t : sid) : smap :=
  if is_created_view t then get_scope c m t else m.
Definition view_leave (m : smap) (t : sid) : smap :=
  if is_created_view t then decref m t else m.

(* ReserveMemory(sz, prio) on a handle or inside a View callback *)
Definition reserve_mem (c : config) (st : state) (t : sid) (sz prio : Z) : state * Z :=
  let m0 := view_enter c (scopes st) t in
  let '(m1, e) := scope_reserve m0 t (KMem sz prio) in
  (with_scopes st (view_leave m1 t), ecode e).

(* ReleaseMemory(sz) *)
Definition release_mem (c : config) (st : state) (t : sid) (sz : Z) : state * Z :=
  let m0 := view_enter c (scopes st) t in
  let m1 := if is_done m0 t then m0 else scope_release m0 t (KMem sz 0) in
  (with_scopes st (view_leave m1 t), E_OK).

(* BeginSpan: refCnt++ on the owner; the span copies the owner's limit *)
Definition begin_span (c : config) (st : state) (t : sid) (k : nat) : state * Z :=
  let m0 := view_enter c (scopes st) t in
  match get m0 t with
  | None => (with_scopes st (view_leave m0 t), E_CLOSED)
  | Some sc =>
      if s_done sc then (with_scopes st (view_leave m0 t), E_CLOSED)
      else
        let m1 := incref m0 t in
        let m2 := set m1 (Span k) (mkScope (s_lim sc) stat0 false 0 (t :: s_chain sc) []) in
        (with_scopes st (view_leave m2 t), E_OK)
  end.

(* Done on a connection, stream or span handle *)
Definition done_op (c : config) (st : state) (t : sid) : state * Z :=
  match t with
  | Conn i => (conn_done c st i, E_OK)
  | _ => (with_scopes st (scope_done (scopes st) t), E_OK)
  end.

(* IsUnused (memory counts since fix 4443cff) *)
Definition is_unused (sc : scope) : bool :=
  if s_done sc then true
  else if s_ref sc >? 0 then false
  else (sin (s_use sc) =? 0) && (sout (s_use sc) =? 0) && (cin (s_use sc) =? 0) &&
       (cout (s_use sc) =? 0) && (fd (s_use sc) =? 0) && (mem (s_use sc) =? 0).

Definition is_proto (t : sid) : bool := match t with Proto _ => true | _ => false end.
Definition is_peer (t : sid) : bool := match t with Peer _ => true | _ => false end.

(* the protocol / peer scopes gc() finds unused (in map order) *)
Definition unused_of (m : smap) (f : sid -> bool) : list sid :=
  map fst (filter (fun e => f (fst e) && is_unused (snd e)) m).

Definition sub_of_dead (dead_protos dead_peers : list sid) (t : sid) : bool :=
  match t with
  | ProtoPeer p q => existsb (sid_eqb (Proto p)) dead_protos || existsb (sid_eqb (Peer q)) dead_peers
  | SvcPeer _ q => existsb (sid_eqb (Peer q)) dead_peers
  | _ => false
  end.

(* gc(): Done + delete every unused protocol scope, then every unused peer
   scope; then the per-peer sub-scopes of dead peers (and, with their map,
   those of deleted protocol scopes) *)
Definition gc (st : state) : state :=
  let m := scopes st in
  let dp := unused_of m is_proto in
  let m1 := fold_left (fun m t => remove (scope_done m t) t) dp m in
  let dq := unused_of m1 is_peer in
  let m2 := fold_left (fun m t => remove (scope_done m t) t) dq m1 in
  let m3 := filter (fun e => negb (sub_of_dead dp dq (fst e))) m2 in
  with_scopes st m3.

(* ---- operations ------------------------------------------------------------------ *)
Inductive op :=
| OOpenConn (i : nat) (inb usefd : bool) (ep : option ipaddr)
| OSetPeer (i q : nat)
| OOpenStream (j q : nat) (inb : bool)
| OSetProto (j p : nat)
| OSetSvc (j s : nat)
| OReserve (t : sid) (sz prio : Z)
| ORelease (t : sid) (sz : Z)
| OBeginSpan (t : sid) (k : nat)
| ODone (t : sid)
| OGC.

Definition step (c : config) (st : state) (o : op) : state * Z :=
  match o with
  | OOpenConn i inb usefd ep => open_conn c st i inb usefd ep
  | OSetPeer i q => set_peer c st i q
  | OOpenStream j q inb => open_stream c st j q inb
  | OSetProto j p => set_proto c st j p
  | OSetSvc j s => set_svc c st j s
  | OReserve t sz prio => reserve_mem c st t sz prio
  | ORelease t sz => release_mem c st t sz
  | OBeginSpan t k => begin_span c st t k
  | ODone t => done_op c st t
  | OGC => (gc st, E_OK)
  end.

Fixpoint run (c : config) (st : state) (ops : list op) : state :=
  match ops with
  | [] => st
  | o :: r => run c (fst (step c st o)) r
  end.

(* C03 — the scopes visited by ReserveMemory/AddStream/AddConn on a scope
   (targets): distinct, and, when all of them are open, exactly what the
   holder is charged to in the abstract table. *)
From Coq Require Import List ZArith Bool Arith Lia.
From Verif Require Import lib.Wire c03.Int64 c03.Model c03.Spec c03.Proofs_Int64 c03.Proofs_Base
     c03.Proofs_Sum c03.Proofs_Reach c03.Proofs_Link.
Import ListNotations.
Local Open Scope Z_scope.

Lemma targets_root : forall m t, chain_of m t = [] -> targets m t = t :: edges_of m t.
Proof.
  intros m t E. unfold targets, root_of. rewrite E.
  assert (R : match get m t with Some sc => last (s_chain sc) t | None => t end = t).
  { unfold chain_of in E. destruct (get m t) as [sc|]; [rewrite E|]; reflexivity. }
  rewrite R. reflexivity.
Qed.

Lemma targets_span : forall m t o, chain_of m t = o :: chain_of m o -> targets m t = t :: targets m o.
Proof.
  intros m t o E. unfold targets. rewrite (root_of_span m t o E), E. reflexivity.
Qed.

Definition holder_if_handle (a : astate) (t : sid) : Prop :=
  is_handle t = true -> hget (holders a) t <> None.

Lemma targets_spec : forall c m a t, Inv c m a -> holder_if_handle a t ->
  NoDup (targets m t) /\
  (forall x, In x (targets m t) -> x = t \/ In x (a_chain a t) \/ is_handle x = false) /\
  (all_live m (targets m t) -> targets m t = areach a t).
Proof.
  intros c m a t I. pose proof (I_wf c m a I) as W.
  pattern t. apply (chain_ind a); [exact W| |]; clear t.
  - intros t E K.
    rewrite targets_root by (rewrite (chain_of_link c m a t I K); exact E).
    destruct (get m t) as [sc|] eqn:Gm.
    + (* the scope exists *)
      assert (Kn : known m a t).
      { unfold known. destruct (is_handle t) eqn:Hh; [apply K; exact Hh | rewrite Gm; discriminate]. }
      assert (Hs : is_span t = false).
      { destruct t; try reflexivity. exfalso. specialize (K eq_refl).
        destruct (hget (holders a) (Span k)) as [h|] eqn:G; [|apply K; reflexivity].
        destruct (W_span a W _ h G eq_refl) as (o & Eo & _).
        unfold a_chain in E. rewrite G in E. rewrite E in Eo. discriminate. }
      rewrite (edges_link c m a t I Kn Hs). split; [apply a_par_nodup, W|]. split.
      * intros x [X|X]; [left; congruence | right; right; apply (a_par_static a t x W X)].
      * intros L. rewrite (areach_root a t E). rewrite <- (done_link c m a t I Kn).
        rewrite (L t (or_introl eq_refl)). reflexivity.
    + (* no such scope: nothing can be charged *)
      unfold edges_of. rewrite Gm. split; [repeat constructor; cbn; tauto|]. split.
      * intros x [X|[]]. left. congruence.
      * intros L. specialize (L t (or_introl eq_refl)). unfold is_done in L. rewrite Gm in L. discriminate.
  - intros t o Hsp E N IH K.
    assert (Kh : hget (holders a) t <> None) by (apply K; destruct t; try discriminate; reflexivity).
    assert (Ko : holder_if_handle a o).
    { intros Ho. destruct (hget (holders a) t) as [h|] eqn:G; [|contradiction].
      destruct (W_span a W t h G Hsp) as (o' & E' & Kn & _).
      unfold a_chain in E at 1. rewrite G in E. rewrite E in E'. inversion E'; subst o'. apply Kn, Ho. }
    assert (Em : chain_of m t = o :: chain_of m o).
    { rewrite (chain_of_link c m a t I (fun _ => Kh)), (chain_of_link c m a o I Ko). exact E. }
    rewrite (targets_span m t o Em). destruct (IH Ko) as (Nd & Mem & Live).
    assert (Nt : ~ In t (targets m o)).
    { intros X. destruct (Mem t X) as [X1|[X1|X1]].
      - apply N. left. congruence.
      - apply N. right. exact X1.
      - destruct t; discriminate. }
    split; [constructor; assumption|]. split.
    + intros x [X|X]; [left; congruence|]. right. rewrite E.
      destruct (Mem x X) as [X1|[X1|X1]]; [left; left; congruence | left; right; exact X1 | right; exact X1].
    + intros L. rewrite (areach_span a t o E).
      assert (Kn : known m a t) by (unfold known; destruct t; try discriminate; exact Kh).
      rewrite <- (done_link c m a t I Kn), (L t (or_introl eq_refl)). f_equal.
      apply Live. intros x Hx. apply L. right. exact Hx.
Qed.

(* all counts over a duplicate-free list are 0 or 1 *)
Lemma countb_in_dec : forall x l, NoDup l ->
  countb x l = if in_dec sid_dec x l then 1 else 0.
Proof.
  intros x l Hn. destruct (in_dec sid_dec x l) as [Hi|Hi];
    [apply countb_nodup; assumption | apply countb_notin; assumption].
Qed.

Lemma stat_add_count : forall u d x l, NoDup l ->
  (if in_dec sid_dec x l then stat_add u d else u) = stat_add u (stat_scale (countb x l) d).
Proof.
  intros u d x l Hn. rewrite (countb_in_dec x l Hn). destruct (in_dec sid_dec x l).
  - rewrite stat_scale_1. reflexivity.
  - rewrite stat_scale_0, stat_add_0_r. reflexivity.
Qed.

Lemma stat_sub_count : forall u d x l, NoDup l ->
  (if in_dec sid_dec x l then stat_sub u d else u) = stat_sub u (stat_scale (countb x l) d).
Proof.
  intros u d x l Hn. rewrite (countb_in_dec x l Hn). destruct (in_dec sid_dec x l).
  - rewrite stat_scale_1. reflexivity.
  - rewrite stat_scale_0. destruct u; unfold stat_sub, stat0; cbn. f_equal; lia.
Qed.

(* C03 — algebra of the abstract usage (sum over holders) under updates of one holder. *)
From Coq Require Import List ZArith Bool Arith Lia.
From Verif Require Import c03.Int64 c03.Model c03.Spec c03.Proofs_Int64 c03.Proofs_Base.
Import ListNotations.
Local Open Scope Z_scope.

Definition sumc (R : sid -> list sid) (H : list (sid * holder)) (t : sid) : stat :=
  fold_right (fun e acc => stat_add (stat_scale (countb t (R (fst e))) (h_own (snd e))) acc) stat0 H.

Lemma usage_A_sumc : forall a t, usage_A a t = sumc (areach a) (holders a) t.
Proof. reflexivity. Qed.

Lemma sumc_cons : forall R y h r t,
  sumc R ((y, h) :: r) t = stat_add (stat_scale (countb t (R y)) (h_own h)) (sumc R r t).
Proof. reflexivity. Qed.
Lemma sumc_nil : forall R t, sumc R [] t = stat0.
Proof. reflexivity. Qed.
Opaque sumc.

Lemma hget_hset : forall H t v x, hget (hset H t v) x = if sid_eqb t x then Some v else hget H x.
Proof.
  induction H as [|[y h] r IH]; intros t v x; cbn.
  - destruct (sid_eqb t x); reflexivity.
  - destruct (sid_eqb y t) eqn:E; cbn.
    + apply sid_eqb_eq in E. subst y. destruct (sid_eqb t x); reflexivity.
    + sid_cases t x.
      * rewrite E. rewrite IH, sid_eqb_refl. reflexivity.
      * destruct (sid_eqb y x); [reflexivity|]. rewrite IH. apply sid_eqb_neq in E0. rewrite E0. reflexivity.
Qed.

Lemma hget_in_keys : forall H t h, hget H t = Some h -> In t (map fst H).
Proof.
  induction H as [|[y h0] r IH]; intros t h G; cbn in *; [discriminate|].
  sid_cases y t; [left; reflexivity | right; apply (IH t h), G].
Qed.

Lemma hget_none_keys : forall H t, hget H t = None -> ~ In t (map fst H).
Proof.
  induction H as [|[y h0] r IH]; intros t G; cbn in *; [tauto|].
  sid_cases y t; [discriminate|]. intros [X|X]; [congruence | apply (IH t G), X].
Qed.

Lemma hset_keys_nodup : forall H t v, NoDup (map fst H) -> NoDup (map fst (hset H t v)).
Proof.
  induction H as [|[y h] r IH]; intros t v Hn; cbn.
  - constructor; [tauto | constructor].
  - cbn in Hn. inversion Hn; subst. destruct (sid_eqb y t) eqn:E; cbn.
    + constructor; assumption.
    + constructor; [|apply IH; assumption].
      intros X. apply H1. clear - X E.
      induction r as [|[z hz] r IH]; cbn in *.
      * destruct X as [X|[]]. subst. rewrite sid_eqb_refl in E. discriminate.
      * destruct (sid_eqb z t) eqn:Ez; cbn in X.
        -- destruct X as [X|X]; [left; exact X | right; exact X].
        -- destruct X as [X|X]; [left; exact X | right; apply IH, X].
Qed.

Lemma sumc_ext : forall R R' H t, (forall x, In x (map fst H) -> R x = R' x) -> sumc R H t = sumc R' H t.
Proof.
  induction H as [|[y h] r IH]; intros t E; [reflexivity|]. rewrite !sumc_cons.
  rewrite (E y) by (left; reflexivity). rewrite IH; [reflexivity|]. intros x Hx. apply E. right. exact Hx.
Qed.

(* adding a holder under a new key *)
Lemma sumc_hset_new : forall R H s v t, hget H s = None ->
  sumc R (hset H s v) t = stat_add (sumc R H t) (stat_scale (countb t (R s)) (h_own v)).
Proof.
  induction H as [|[y h] r IH]; intros s v t G; cbn [hget hset] in *.
  - rewrite sumc_cons, sumc_nil. generalize (stat_scale (countb t (R s)) (h_own v)). intros. stat_crush.
  - sid_cases y s; [discriminate|]. apply sid_eqb_neq in E. try rewrite E. rewrite !sumc_cons. rewrite IH by exact G.
    generalize (sumc R r t) (stat_scale (countb t (R y)) (h_own h)) (stat_scale (countb t (R s)) (h_own v)).
    intros. stat_crush.
Qed.

(* replacing the holder under an existing key (keys distinct) *)
Lemma sumc_hset_old : forall R H s h0 v t, NoDup (map fst H) -> hget H s = Some h0 ->
  stat_add (sumc R (hset H s v) t) (stat_scale (countb t (R s)) (h_own h0)) =
  stat_add (sumc R H t) (stat_scale (countb t (R s)) (h_own v)).
Proof.
  induction H as [|[y h] r IH]; intros s h0 v t Hn G; cbn [hget hset map fst] in *; [discriminate|].
  inversion Hn as [|? ? Hnotin Hnr]; subst. sid_cases y s.
  - inversion G; subst. rewrite !sumc_cons.
    generalize (sumc R r t) (stat_scale (countb t (R s)) (h_own h0)) (stat_scale (countb t (R s)) (h_own v)).
    intros. stat_crush.
  - apply sid_eqb_neq in E. try rewrite E. rewrite !sumc_cons. specialize (IH s h0 v t Hnr G).
    revert IH.
    generalize (sumc R (hset r s v) t) (sumc R r t) (stat_scale (countb t (R y)) (h_own h))
               (stat_scale (countb t (R s)) (h_own h0)) (stat_scale (countb t (R s)) (h_own v)).
    intros s1 s2 s3 s4 s5 IH. apply stat_ext; injection IH; intros; cbn [stat_add mem sin sout cin cout fd]; lia.
Qed.

(* the same list of holders under another reach function that differs at s only *)
Lemma sumc_change_reach : forall R R' H s h0 t, NoDup (map fst H) -> hget H s = Some h0 ->
  (forall x, x <> s -> In x (map fst H) -> R' x = R x) ->
  stat_add (sumc R' H t) (stat_scale (countb t (R s)) (h_own h0)) =
  stat_add (sumc R H t) (stat_scale (countb t (R' s)) (h_own h0)).
Proof.
  induction H as [|[y h] r IH]; intros s h0 t Hn G E; cbn [hget map fst] in *; [discriminate|].
  inversion Hn as [|? ? Hnotin Hnr]; subst. rewrite !sumc_cons. sid_cases y s.
  - inversion G; subst.
    rewrite (sumc_ext R' R r t).
    + generalize (sumc R r t) (stat_scale (countb t (R s)) (h_own h0)) (stat_scale (countb t (R' s)) (h_own h0)).
      intros. stat_crush.
    + intros x Hx. apply E; [|right; exact Hx]. intros ->. contradiction.
  - rewrite (E y E0 (or_introl eq_refl)).
    assert (E' : forall x, x <> s -> In x (map fst r) -> R' x = R x) by (intros x H1' H2'; apply E; [exact H1' | right; exact H2']).
    specialize (IH s h0 t Hnr G E'). revert IH.
    generalize (sumc R' r t) (sumc R r t) (stat_scale (countb t (R y)) (h_own h))
               (stat_scale (countb t (R s)) (h_own h0)) (stat_scale (countb t (R' s)) (h_own h0)).
    intros s1 s2 s3 s4 s5 IH. apply stat_ext; injection IH; intros; cbn [stat_add mem sin sout cin cout fd]; lia.
Qed.

(* every term of the sum is non-negative, so the sum dominates each term *)
Lemma stat_scale_nonneg : forall n s, 0 <= n -> nonneg s -> nonneg (stat_scale n s).
Proof. intros n s Hn Hs. unfold nonneg in *. destruct s; cbn in *. repeat split; nia. Qed.

Lemma sumc_nonneg : forall R H t, (forall x h, In (x, h) H -> nonneg (h_own h)) -> nonneg (sumc R H t).
Proof.
  induction H as [|[y h] r IH]; intros t Hn.
  - rewrite sumc_nil. stat_crush.
  - rewrite sumc_cons. assert (A : nonneg (stat_scale (countb t (R y)) (h_own h))).
    { apply stat_scale_nonneg; [apply countb_nonneg | apply (Hn y h); left; reflexivity]. }
    assert (B : nonneg (sumc R r t)) by (apply IH; intros x h' Hx; apply (Hn x h'); right; exact Hx).
    revert A B. generalize (stat_scale (countb t (R y)) (h_own h)) (sumc R r t). intros. stat_crush.
Qed.

Lemma hget_In : forall H t h, hget H t = Some h -> In (t, h) H.
Proof.
  induction H as [|[y h0] r IH]; intros t h G; cbn in *; [discriminate|].
  sid_cases y t; [inversion G; left; reflexivity | right; apply IH, G].
Qed.

Lemma sumc_ge_term : forall R H s h t, (forall x h', In (x, h') H -> nonneg (h_own h')) ->
  hget H s = Some h -> stat_le (stat_scale (countb t (R s)) (h_own h)) (sumc R H t).
Proof.
  induction H as [|[y h0] r IH]; intros s h t Hn G; cbn [hget] in *; [discriminate|].
  rewrite sumc_cons. sid_cases y s.
  - inversion G; subst.
    assert (B : nonneg (sumc R r t)) by (apply sumc_nonneg; intros x h' Hx; apply (Hn x h'); right; exact Hx).
    revert B. generalize (stat_scale (countb t (R s)) (h_own h)) (sumc R r t). intros. stat_crush.
  - assert (A : nonneg (stat_scale (countb t (R y)) (h_own h0))).
    { apply stat_scale_nonneg; [apply countb_nonneg | apply (Hn y h0); left; reflexivity]. }
    assert (B : stat_le (stat_scale (countb t (R s)) (h_own h)) (sumc R r t)).
    { apply IH; [|exact G]. intros x h' Hx; apply (Hn x h'); right; exact Hx. }
    revert A B. generalize (stat_scale (countb t (R y)) (h_own h0)) (stat_scale (countb t (R s)) (h_own h)) (sumc R r t).
    intros. stat_crush.
Qed.

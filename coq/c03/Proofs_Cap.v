(* C03 — "the number of simultaneously open connections from one IP subnet never
   exceeds the configured per-subnet cap": the connLimiter's counters are exactly
   the numbers of open connections governed by each network prefix / each
   (subnet rule, subnet), so a connection is admitted only while the open ones
   of its subnet stay within the cap.  Part A: the limiter alone. *)
From Coq Require Import List ZArith Bool Arith Lia.
From Verif Require Import lib.Wire c03.Int64 c03.Model c03.Spec.
Import ListNotations.
Local Open Scope Z_scope.

Definition zdef (cm : list (Z * Z)) (k : Z) : Z := match zget cm k with Some v => v | None => 0 end.

(* what the monitor counts (Spec.cap_ok), as predicates on one open endpoint *)
Definition in_pre (c : config) (v6 : bool) (idx : Z) (x : ipaddr) : bool :=
  Bool.eqb (ip_v6 x) v6 && match pre_of c x with Some (j, _) => j =? idx | None => false end.
Definition in_sub (c : config) (v6 : bool) (len k : Z) (x : ipaddr) : bool :=
  Bool.eqb (ip_v6 x) v6 && match pre_of c x with Some _ => false | None => true end &&
  match prefix_key x len with Some k' => k' =? k | None => false end.

Lemma zcount_app : forall A (f : A -> bool) l1 l2, zcount f (l1 ++ l2) = zcount f l1 + zcount f l2.
Proof. intros. unfold zcount. rewrite filter_app, app_length, Nat2Z.inj_add. reflexivity. Qed.

Lemma zcount_cons : forall A (f : A -> bool) x l, zcount f (x :: l) = (if f x then 1 else 0) + zcount f l.
Proof. intros. unfold zcount. cbn [filter]. destruct (f x); cbn [length]; lia. Qed.

Lemma zcount_insert : forall A (f : A -> bool) l1 x l2, zcount f (l1 ++ x :: l2) = zcount f (l1 ++ l2) + (if f x then 1 else 0).
Proof. intros. rewrite !zcount_app, zcount_cons. lia. Qed.

Lemma zcount_nonneg : forall A (f : A -> bool) l, 0 <= zcount f l.
Proof. intros. unfold zcount. lia. Qed.

Lemma zcount_ext : forall A (f g : A -> bool) l, (forall x, f x = g x) -> zcount f l = zcount g l.
Proof. intros A f g l H. unfold zcount. rewrite (filter_ext f g H). reflexivity. Qed.

(* ---- the counters per network prefix ---------------------------------------------------------- *)
Fixpoint pc_cnt (pl : list (prefix * Z)) (pc : list Z) (off : Z) (cnt : Z -> Z) : Prop :=
  match pl, pc with
  | [], [] => True
  | _ :: pr, n :: cr => n = cnt off /\ pc_cnt pr cr (off + 1) cnt
  | _, _ => False
  end.

Lemma pc_cnt_ext : forall pl pc off cnt cnt', (forall i, off <= i -> cnt' i = cnt i) -> pc_cnt pl pc off cnt -> pc_cnt pl pc off cnt'.
Proof.
  induction pl as [|e pr IH]; intros pc off cnt cnt' E H; destruct pc as [|n cr]; cbn in *; try exact H.
  destruct H as [H1 H2]. split; [rewrite E by lia; exact H1|]. apply (IH cr (off + 1) cnt cnt'); [intros i Hi; apply E; lia | exact H2].
Qed.

Lemma first_match_ge : forall pl a off j cap, first_match pl a off = Some (j, cap) -> off <= j.
Proof.
  induction pl as [|[p cp] pr IH]; intros a off j cap H; cbn in H; [discriminate|].
  destruct (contains p a); [inversion H; lia|]. apply IH in H. lia.
Qed.

Lemma prefix_add_cnt : forall pl pc off cnt a, pc_cnt pl pc off cnt ->
  match prefix_add pl pc a with
  | Some (Some pc') => exists j cap, first_match pl a off = Some (j, cap) /\ cnt j + 1 <= cap /\
                                     pc_cnt pl pc' off (fun i => cnt i + (if i =? j then 1 else 0))
  | Some None => True
  | None => first_match pl a off = None
  end.
Proof.
  induction pl as [|[p cap] pr IH]; intros pc off cnt a H; destruct pc as [|n cr]; cbn in *; try reflexivity; try contradiction.
  destruct H as [H1 H2]. destruct (contains p a).
  - destruct (n + 1 >? cap) eqn:G; [exact Logic.I|]. rewrite Z.gtb_ltb in G. apply Z.ltb_ge in G.
    exists off, cap. split; [reflexivity|]. split; [lia|]. cbn. rewrite Z.eqb_refl. split; [lia|].
    apply (pc_cnt_ext pr cr (off + 1) cnt); [|exact H2]. intros i Hi.
    destruct (i =? off) eqn:E; [apply Z.eqb_eq in E; lia | lia].
  - specialize (IH cr (off + 1) cnt a H2). destruct (prefix_add pr cr a) as [[cr'|]|]; [|exact Logic.I | exact IH].
    destruct IH as (j & cp & F & Le & P). exists j, cp. split; [exact F|]. split; [exact Le|]. cbn.
    split; [|exact P]. pose proof (first_match_ge pr a (off + 1) j cp F).
    destruct (off =? j) eqn:E; [apply Z.eqb_eq in E; lia | lia].
Qed.

Lemma prefix_rm_cnt : forall pl pc off cnt a, pc_cnt pl pc off cnt ->
  match prefix_rm pl pc a with
  | Some pc' => exists j cap, first_match pl a off = Some (j, cap) /\
                              (1 <= cnt j -> pc_cnt pl pc' off (fun i => cnt i - (if i =? j then 1 else 0)))
  | None => first_match pl a off = None
  end.
Proof.
  induction pl as [|[p cap] pr IH]; intros pc off cnt a H; destruct pc as [|n cr]; cbn in *; try reflexivity; try contradiction.
  destruct H as [H1 H2]. destruct (contains p a).
  - exists off, cap. split; [reflexivity|]. intros Pos.
    replace (n <=? 0) with false by (symmetry; apply Z.leb_gt; lia). cbn. rewrite Z.eqb_refl. split; [lia|].
    apply (pc_cnt_ext pr cr (off + 1) cnt); [|exact H2]. intros i Hi.
    destruct (i =? off) eqn:E; [apply Z.eqb_eq in E; lia | lia].
  - specialize (IH cr (off + 1) cnt a H2). destruct (prefix_rm pr cr a) as [cr'|]; [|exact IH].
    destruct IH as (j & cp & F & P). exists j, cp. split; [exact F|]. intros Pos. cbn.
    split; [|apply P, Pos]. pose proof (first_match_ge pr a (off + 1) j cp F).
    destruct (off =? j) eqn:E; [apply Z.eqb_eq in E; lia | lia].
Qed.

(* ---- the counters per (subnet rule, subnet) ------------------------------------------------------ *)
Lemma zget_zset : forall cm k v k', zget (zset cm k v) k' = if k =? k' then Some v else zget cm k'.
Proof.
  induction cm as [|[y w] r IH]; intros k v k'; cbn.
  - destruct (k =? k'); reflexivity.
  - destruct (y =? k) eqn:E; cbn.
    + apply Z.eqb_eq in E. subst y. destruct (k =? k'); reflexivity.
    + destruct (k =? k') eqn:E2.
      * apply Z.eqb_eq in E2. subst k'. rewrite E, IH, Z.eqb_refl. reflexivity.
      * destruct (y =? k'); [reflexivity|]. rewrite IH, E2. reflexivity.
Qed.

Lemma zdef_zset : forall cm k v k', zdef (zset cm k v) k' = if k =? k' then v else zdef cm k'.
Proof. intros. unfold zdef. rewrite zget_zset. destruct (k =? k'); reflexivity. Qed.

Lemma zget_notin : forall cm k, ~ In k (map fst cm) -> zget cm k = None.
Proof.
  induction cm as [|[y w] r IH]; intros k H; cbn; [reflexivity|].
  destruct (y =? k) eqn:E; [apply Z.eqb_eq in E; subst; exfalso; apply H; left; reflexivity|].
  apply IH. intros X. apply H. right. exact X.
Qed.

Lemma zget_zdel : forall cm k k', NoDup (map fst cm) -> zget (zdel cm k) k' = if k =? k' then None else zget cm k'.
Proof.
  induction cm as [|[y w] r IH]; intros k k' Hn; cbn.
  - destruct (k =? k'); reflexivity.
  - cbn in Hn. inversion Hn; subst. destruct (y =? k) eqn:E; cbn.
    + apply Z.eqb_eq in E. subst y. destruct (k =? k') eqn:E2; [|reflexivity].
      apply Z.eqb_eq in E2. subst k'. apply zget_notin. assumption.
    + destruct (y =? k') eqn:E3.
      * destruct (k =? k') eqn:E2; [|reflexivity]. apply Z.eqb_eq in E2, E3. subst. rewrite Z.eqb_refl in E. discriminate.
      * apply IH. assumption.
Qed.

Lemma zdef_zdel : forall cm k k', NoDup (map fst cm) -> zdef (zdel cm k) k' = if k =? k' then 0 else zdef cm k'.
Proof. intros. unfold zdef. rewrite zget_zdel by assumption. destruct (k =? k'); reflexivity. Qed.

Lemma zset_keys_in : forall cm k v x, In x (map fst (zset cm k v)) -> x = k \/ In x (map fst cm).
Proof.
  induction cm as [|[y w] r IH]; intros k v x H; cbn in *.
  - destruct H as [H|[]]. left. congruence.
  - destruct (y =? k) eqn:E; cbn in H.
    + right. exact H.
    + destruct H as [H|H]; [right; left; exact H|]. destruct (IH k v x H) as [X|X]; [left; exact X | right; right; exact X].
Qed.

Lemma zset_nodup : forall cm k v, NoDup (map fst cm) -> NoDup (map fst (zset cm k v)).
Proof.
  induction cm as [|[y w] r IH]; intros k v Hn; cbn.
  - constructor; [tauto | constructor].
  - cbn in Hn. inversion Hn; subst. destruct (y =? k) eqn:E; cbn.
    + constructor; assumption.
    + constructor; [|apply IH; assumption]. intros X. destruct (zset_keys_in r k v y X) as [->|X'].
      * rewrite Z.eqb_refl in E. discriminate.
      * contradiction.
Qed.

Lemma zdel_keys_in : forall cm k x, In x (map fst (zdel cm k)) -> In x (map fst cm).
Proof.
  induction cm as [|[y w] r IH]; intros k x H; cbn in *; [exact H|].
  destruct (y =? k); cbn in H; [right; exact H|]. destruct H as [H|H]; [left; exact H | right; apply (IH k x H)].
Qed.

Lemma zdel_nodup : forall cm k, NoDup (map fst cm) -> NoDup (map fst (zdel cm k)).
Proof.
  induction cm as [|[y w] r IH]; intros k Hn; cbn; [constructor|].
  cbn in Hn. inversion Hn; subst. destruct (y =? k); cbn; [assumption|].
  constructor; [|apply IH; assumption]. intros X. apply H1, (zdel_keys_in r k y X).
Qed.

Fixpoint sc_cnt (rules : list (Z * Z)) (sc : list (list (Z * Z))) (cnt : Z -> Z -> Z) : Prop :=
  match rules, sc with
  | [], [] => True
  | (len, _) :: rr, cm :: cr => NoDup (map fst cm) /\ (forall k, zdef cm k = cnt len k) /\ sc_cnt rr cr cnt
  | _, _ => False
  end.

Lemma sc_cnt_ext : forall rules sc cnt cnt', (forall len k, cnt' len k = cnt len k) -> sc_cnt rules sc cnt -> sc_cnt rules sc cnt'.
Proof.
  induction rules as [|[len cap] rr IH]; intros sc cnt cnt' E H; destruct sc as [|cm cr]; cbn in *; try exact H.
  destruct H as (H1 & H2 & H3). split; [exact H1|]. split; [intros k; rewrite E; apply H2 | apply (IH cr cnt cnt' E H3)].
Qed.

(* what one more / one less open endpoint [a] (governed by no network prefix) does to the counts *)
Definition bump_sub (a : ipaddr) (d : Z) (cnt : Z -> Z -> Z) : Z -> Z -> Z :=
  fun len k => cnt len k + (match prefix_key a len with Some k' => if k' =? k then d else 0 | None => 0 end).

Lemma subnet_incr_cnt : forall rules sc cnt a, sc_cnt rules sc cnt -> subnet_check rules sc a = true ->
  sc_cnt rules (subnet_incr rules sc a) (bump_sub a 1 cnt) /\
  forallb (fun rule => match prefix_key a (fst rule) with
                       | None => true
                       | Some k => bump_sub a 1 cnt (fst rule) k <=? snd rule
                       end) rules = true.
Proof.
  induction rules as [|[len cap] rr IH]; intros sc cnt a H C; destruct sc as [|cm cr]; cbn in *; try contradiction.
  - split; [exact Logic.I | reflexivity].
  - destruct H as (Nd & Hz & Hr). destruct (prefix_key a len) as [k|] eqn:Pk; [|discriminate].
    fold (zdef cm k) in C. destruct (zdef cm k + 1 >? cap) eqn:G; [discriminate|].
    rewrite Z.gtb_ltb in G. apply Z.ltb_ge in G. destruct (IH cr cnt a Hr C) as (P & F). split.
    + split; [apply zset_nodup, Nd|]. split; [|exact P]. intros k'. fold (zdef cm k). rewrite zdef_zset. unfold bump_sub. rewrite Pk.
      destruct (k =? k') eqn:E; [apply Z.eqb_eq in E; subst k'; rewrite Hz; lia | rewrite Hz; lia].
    + apply andb_true_iff. split; [|exact F]. unfold bump_sub. rewrite Pk, Z.eqb_refl. apply Z.leb_le. rewrite <- Hz. lia.
Qed.

Lemma subnet_decr_cnt : forall rules sc cnt a, sc_cnt rules sc cnt ->
  (forall len k, prefix_key a len = Some k -> 1 <= cnt len k) ->
  sc_cnt rules (subnet_decr rules sc a) (bump_sub a (-1) cnt).
Proof.
  induction rules as [|[len cap] rr IH]; intros sc cnt a H Pos; destruct sc as [|cm cr]; cbn in *; try contradiction; [exact Logic.I|].
  destruct H as (Nd & Hz & Hr). specialize (IH cr cnt a Hr Pos).
  destruct (prefix_key a len) as [k|] eqn:Pk.
  - specialize (Pos len k Pk). pose proof (Hz k) as Hk. unfold zdef in Hk.
    destruct (zget cm k) as [v|] eqn:Zg; [|lia].
    replace (v =? 0) with false by (symmetry; apply Z.eqb_neq; lia).
    destruct (v - 1 <=? 0) eqn:G.
    + apply Z.leb_le in G. split; [apply zdel_nodup, Nd|]. split; [|exact IH]. intros k'. rewrite (zdef_zdel cm k k' Nd).
      unfold bump_sub. rewrite Pk. destruct (k =? k') eqn:E; [apply Z.eqb_eq in E; subst k'; lia | rewrite Hz; lia].
    + apply Z.leb_gt in G. split; [apply zset_nodup, Nd|]. split; [|exact IH]. intros k'. rewrite zdef_zset.
      unfold bump_sub. rewrite Pk. destruct (k =? k') eqn:E; [apply Z.eqb_eq in E; subst k'; lia | rewrite Hz; lia].
  - split; [exact Nd|]. split; [|exact IH]. intros k'. unfold bump_sub. rewrite Pk, Hz. lia.
Qed.

(* ---- the limiter as a whole ------------------------------------------------------------------------ *)
Definition pcs (v6 : bool) (l : limiter) := if v6 then pc6 l else pc4 l.
Definition scs (v6 : bool) (l : limiter) := if v6 then sc6 l else sc4 l.
Definition subs (v6 : bool) (c : config) := if v6 then sub6 c else sub4 c.
Definition cntP (c : config) (v6 : bool) (L : list ipaddr) : Z -> Z := fun idx => zcount (in_pre c v6 idx) L.
Definition cntS (c : config) (v6 : bool) (L : list ipaddr) : Z -> Z -> Z := fun len k => zcount (in_sub c v6 len k) L.

(* [L]: the endpoints of the open connections *)
Definition LimCount (c : config) (l : limiter) (L : list ipaddr) : Prop :=
  forall v6, pc_cnt (built_prefixes c v6) (pcs v6 l) 0 (cntP c v6 L) /\ sc_cnt (subs v6 c) (scs v6 l) (cntS c v6 L).

Lemma pc_cnt_zeros : forall pl off cnt, (forall i, cnt i = 0) -> pc_cnt pl (map (fun _ => 0) pl) off cnt.
Proof. induction pl as [|e r IH]; intros off cnt H; cbn; [trivial|]. split; [symmetry; apply H | apply IH, H]. Qed.

Lemma sc_cnt_empty : forall rules cnt, (forall len k, cnt len k = 0) -> sc_cnt rules (map (fun _ => []) rules) cnt.
Proof.
  induction rules as [|[len cap] r IH]; intros cnt H; cbn; [trivial|].
  split; [constructor|]. split; [intros k; rewrite H; reflexivity | apply IH, H].
Qed.

Lemma limcount_init : forall c, LimCount c (init_limiter c) [].
Proof.
  intros c v6. unfold init_limiter. destruct v6; cbn [pcs scs subs pc4 pc6 sc4 sc6];
    (split; [apply pc_cnt_zeros; reflexivity | apply sc_cnt_empty; reflexivity]).
Qed.

Lemma pre_of_eq : forall c a, pre_of c a = first_match (built_prefixes c (ip_v6 a)) a 0.
Proof. reflexivity. Qed.

Lemma in_pre_self : forall c a j cap idx, pre_of c a = Some (j, cap) -> in_pre c (ip_v6 a) idx a = (idx =? j).
Proof. intros c a j cap idx H. unfold in_pre. rewrite H, eqb_reflx. cbn. apply Z.eqb_sym. Qed.

Lemma in_pre_other : forall c a v6 idx, (ip_v6 a <> v6 \/ pre_of c a = None) -> in_pre c v6 idx a = false.
Proof.
  intros c a v6 idx [H|H]; unfold in_pre.
  - destruct (Bool.eqb (ip_v6 a) v6) eqn:E; [apply eqb_prop in E; contradiction | reflexivity].
  - rewrite H. apply andb_false_r.
Qed.

Lemma in_sub_other : forall c a v6 len k, (ip_v6 a <> v6 \/ pre_of c a <> None) -> in_sub c v6 len k a = false.
Proof.
  intros c a v6 len k [H|H]; unfold in_sub.
  - destruct (Bool.eqb (ip_v6 a) v6) eqn:E; [apply eqb_prop in E; contradiction | reflexivity].
  - destruct (pre_of c a); [rewrite andb_false_r; reflexivity | contradiction].
Qed.

Lemma in_sub_self : forall c a len k, pre_of c a = None ->
  (if in_sub c (ip_v6 a) len k a then 1 else 0) = match prefix_key a len with Some k' => if k' =? k then 1 else 0 | None => 0 end.
Proof. intros c a len k H. unfold in_sub. rewrite H, eqb_reflx. cbn. destruct (prefix_key a len) as [k'|]; [destruct (k' =? k)|]; reflexivity. Qed.

Lemma neq_negb : forall b : bool, b <> negb b.
Proof. intros []; discriminate. Qed.

Theorem limcount_add : forall c l a l' L1 L2, LimCount c l (L1 ++ L2) -> limiter_add c l a = Some l' ->
  LimCount c l' (L1 ++ a :: L2) /\ cap_ok c (L1 ++ a :: L2) a = true.
Proof.
  intros c l a l' L1 L2 H E.
  set (v := ip_v6 a). destruct (H v) as [Hp Hs]. destruct (H (negb v)) as [Hp' Hs'].
  (* the other address family is untouched *)
  assert (Oth : forall l1, pcs (negb v) l1 = pcs (negb v) l -> scs (negb v) l1 = scs (negb v) l ->
            pc_cnt (built_prefixes c (negb v)) (pcs (negb v) l1) 0 (cntP c (negb v) (L1 ++ a :: L2)) /\
            sc_cnt (subs (negb v) c) (scs (negb v) l1) (cntS c (negb v) (L1 ++ a :: L2))).
  { intros l1 E1 E2. rewrite E1, E2. split.
    - apply (pc_cnt_ext _ _ 0 (cntP c (negb v) (L1 ++ L2))); [|exact Hp']. intros i _. unfold cntP.
      rewrite zcount_insert, in_pre_other by (left; apply neq_negb). lia.
    - apply (sc_cnt_ext _ _ (cntS c (negb v) (L1 ++ L2))); [|exact Hs']. intros len k. unfold cntS.
      rewrite zcount_insert, in_sub_other by (left; apply neq_negb). lia. }
  pose proof (prefix_add_cnt (built_prefixes c v) (pcs v l) 0 (cntP c v (L1 ++ L2)) a Hp) as PA.
  assert (Main : forall pc' sc',
    (match prefix_add (built_prefixes c v) (pcs v l) a with
     | Some (Some p) => pc' = p /\ sc' = scs v l
     | Some None => False
     | None => pc' = pcs v l /\ subnet_check (subs v c) (scs v l) a = true /\ sc' = subnet_incr (subs v c) (scs v l) a
     end) ->
    pc_cnt (built_prefixes c v) pc' 0 (cntP c v (L1 ++ a :: L2)) /\ sc_cnt (subs v c) sc' (cntS c v (L1 ++ a :: L2)) /\
    cap_ok c (L1 ++ a :: L2) a = true).
  { intros pc' sc' M. destruct (prefix_add (built_prefixes c v) (pcs v l) a) as [[p|]|]; [|destruct M|].
    - destruct M as [-> ->]. destruct PA as (j & cap & F & Le & P). change (pre_of c a = Some (j, cap)) in F.
      split; [|split].
      + apply (pc_cnt_ext _ _ 0 (fun i => cntP c v (L1 ++ L2) i + (if i =? j then 1 else 0))); [|exact P].
        intros i _. unfold cntP. rewrite zcount_insert. unfold v. rewrite (in_pre_self c a j cap i F). reflexivity.
      + apply (sc_cnt_ext _ _ (cntS c v (L1 ++ L2))); [|exact Hs]. intros len k. unfold cntS.
        rewrite zcount_insert, in_sub_other by (right; rewrite F; discriminate). lia.
      + unfold cap_ok. rewrite F. apply Z.leb_le. fold (in_pre c (ip_v6 a) j). fold v.
        change (zcount (in_pre c v j) (L1 ++ a :: L2)) with (cntP c v (L1 ++ a :: L2) j). unfold cntP.
        rewrite zcount_insert. unfold v at 2. rewrite (in_pre_self c a j cap j F), Z.eqb_refl. unfold cntP in Le. lia.
    - destruct M as (-> & C & ->). change (pre_of c a = None) in PA.
      destruct (subnet_incr_cnt (subs v c) (scs v l) (cntS c v (L1 ++ L2)) a Hs C) as (P & Fa).
      assert (Ecnt : forall len k, cntS c v (L1 ++ a :: L2) len k = bump_sub a 1 (cntS c v (L1 ++ L2)) len k).
      { intros len k. unfold cntS, bump_sub. rewrite zcount_insert. unfold v. rewrite (in_sub_self c a len k PA). reflexivity. }
      split; [|split].
      + apply (pc_cnt_ext _ _ 0 (cntP c v (L1 ++ L2))); [|exact Hp]. intros i _. unfold cntP.
        rewrite zcount_insert, in_pre_other by (right; exact PA). lia.
      + apply (sc_cnt_ext _ _ (bump_sub a 1 (cntS c v (L1 ++ L2)))); [exact Ecnt | exact P].
      + unfold cap_ok. rewrite PA. fold v. fold (subs v c). rewrite forallb_forall in Fa |- *. intros rule Hr.
        specialize (Fa rule Hr). destruct (prefix_key a (fst rule)) as [k|]; [|reflexivity].
        rewrite <- Ecnt in Fa. exact Fa. }
  unfold limiter_add in E. fold v in E. destruct v eqn:V; cbn [pcs scs subs negb] in *.
  - destruct (prefix_add (built_prefixes c true) (pc6 l) a) as [[p|]|] eqn:PAe.
    + inversion E; subst l'. destruct (Main p (sc6 l) (conj eq_refl eq_refl)) as (M1 & M2 & M3).
      split; [|exact M3]. intros [|]; cbn [pcs scs subs pc4 pc6 sc4 sc6]; [split; assumption | apply (Oth (mkLimiter (pc4 l) p (sc4 l) (sc6 l))); reflexivity].
    + discriminate.
    + destruct (subnet_check (sub6 c) (sc6 l) a) eqn:C; [|discriminate]. inversion E; subst l'.
      destruct (Main (pc6 l) (subnet_incr (sub6 c) (sc6 l) a) (conj eq_refl (conj eq_refl eq_refl))) as (M1 & M2 & M3).
      split; [|exact M3]. intros [|]; cbn [pcs scs subs pc4 pc6 sc4 sc6]; [split; assumption | apply (Oth (mkLimiter (pc4 l) (pc6 l) (sc4 l) (subnet_incr (sub6 c) (sc6 l) a))); reflexivity].
  - destruct (prefix_add (built_prefixes c false) (pc4 l) a) as [[p|]|] eqn:PAe.
    + inversion E; subst l'. destruct (Main p (sc4 l) (conj eq_refl eq_refl)) as (M1 & M2 & M3).
      split; [|exact M3]. intros [|]; cbn [pcs scs subs pc4 pc6 sc4 sc6]; [apply (Oth (mkLimiter p (pc6 l) (sc4 l) (sc6 l))); reflexivity | split; assumption].
    + discriminate.
    + destruct (subnet_check (sub4 c) (sc4 l) a) eqn:C; [|discriminate]. inversion E; subst l'.
      destruct (Main (pc4 l) (subnet_incr (sub4 c) (sc4 l) a) (conj eq_refl (conj eq_refl eq_refl))) as (M1 & M2 & M3).
      split; [|exact M3]. intros [|]; cbn [pcs scs subs pc4 pc6 sc4 sc6]; [apply (Oth (mkLimiter (pc4 l) (pc6 l) (subnet_incr (sub4 c) (sc4 l) a) (sc6 l))); reflexivity | split; assumption].
Qed.

Theorem limcount_rm : forall c l a L1 L2, LimCount c l (L1 ++ a :: L2) -> LimCount c (limiter_rm c l a) (L1 ++ L2).
Proof.
  intros c l a L1 L2 H.
  set (v := ip_v6 a). destruct (H v) as [Hp Hs]. destruct (H (negb v)) as [Hp' Hs'].
  assert (Oth : forall l1, pcs (negb v) l1 = pcs (negb v) l -> scs (negb v) l1 = scs (negb v) l ->
            pc_cnt (built_prefixes c (negb v)) (pcs (negb v) l1) 0 (cntP c (negb v) (L1 ++ L2)) /\
            sc_cnt (subs (negb v) c) (scs (negb v) l1) (cntS c (negb v) (L1 ++ L2))).
  { intros l1 E1 E2. rewrite E1, E2. split.
    - apply (pc_cnt_ext _ _ 0 (cntP c (negb v) (L1 ++ a :: L2))); [|exact Hp']. intros i _. unfold cntP.
      rewrite zcount_insert, in_pre_other by (left; apply neq_negb). lia.
    - apply (sc_cnt_ext _ _ (cntS c (negb v) (L1 ++ a :: L2))); [|exact Hs']. intros len k. unfold cntS.
      rewrite zcount_insert, in_sub_other by (left; apply neq_negb). lia. }
  pose proof (prefix_rm_cnt (built_prefixes c v) (pcs v l) 0 (cntP c v (L1 ++ a :: L2)) a Hp) as PR.
  assert (Main : forall pc' sc',
    (match prefix_rm (built_prefixes c v) (pcs v l) a with
     | Some p => pc' = p /\ sc' = scs v l
     | None => pc' = pcs v l /\ sc' = subnet_decr (subs v c) (scs v l) a
     end) ->
    pc_cnt (built_prefixes c v) pc' 0 (cntP c v (L1 ++ L2)) /\ sc_cnt (subs v c) sc' (cntS c v (L1 ++ L2))).
  { intros pc' sc' M. destruct (prefix_rm (built_prefixes c v) (pcs v l) a) as [p|].
    - destruct M as [-> ->]. destruct PR as (j & cap & F & P). change (pre_of c a = Some (j, cap)) in F.
      assert (Pos : 1 <= cntP c v (L1 ++ a :: L2) j).
      { unfold cntP. rewrite zcount_insert. unfold v. rewrite (in_pre_self c a j cap j F), Z.eqb_refl.
        pose proof (zcount_nonneg _ (in_pre c (ip_v6 a) j) (L1 ++ L2)). lia. }
      split.
      + apply (pc_cnt_ext _ _ 0 (fun i => cntP c v (L1 ++ a :: L2) i - (if i =? j then 1 else 0))); [|apply P, Pos].
        intros i _. unfold cntP. rewrite zcount_insert. unfold v. rewrite (in_pre_self c a j cap i F). lia.
      + apply (sc_cnt_ext _ _ (cntS c v (L1 ++ a :: L2))); [|exact Hs]. intros len k. unfold cntS.
        rewrite zcount_insert, in_sub_other by (right; rewrite F; discriminate). lia.
    - destruct M as (-> & ->). change (pre_of c a = None) in PR.
      assert (Ecnt : forall len k, cntS c v (L1 ++ L2) len k = bump_sub a (-1) (cntS c v (L1 ++ a :: L2)) len k).
      { intros len k. unfold cntS, bump_sub. rewrite zcount_insert. unfold v. rewrite (in_sub_self c a len k PR).
        destruct (prefix_key a len) as [k'|]; [destruct (k' =? k)|]; lia. }
      split.
      + apply (pc_cnt_ext _ _ 0 (cntP c v (L1 ++ a :: L2))); [|exact Hp]. intros i _. unfold cntP.
        rewrite zcount_insert, in_pre_other by (right; exact PR). lia.
      + apply (sc_cnt_ext _ _ (bump_sub a (-1) (cntS c v (L1 ++ a :: L2)))); [exact Ecnt|].
        apply (subnet_decr_cnt _ _ _ a Hs). intros len k Pk. unfold cntS. rewrite zcount_insert. unfold v.
        rewrite (in_sub_self c a len k PR), Pk, Z.eqb_refl. pose proof (zcount_nonneg _ (in_sub c (ip_v6 a) len k) (L1 ++ L2)). lia. }
  unfold limiter_rm. fold v. destruct v eqn:V; cbn [pcs scs subs negb] in *.
  - destruct (prefix_rm (built_prefixes c true) (pc6 l) a) as [p|] eqn:PRe.
    + destruct (Main p (sc6 l) (conj eq_refl eq_refl)) as (M1 & M2).
      intros [|]; cbn [pcs scs subs pc4 pc6 sc4 sc6]; [split; assumption | apply (Oth (mkLimiter (pc4 l) p (sc4 l) (sc6 l))); reflexivity].
    + destruct (Main (pc6 l) (subnet_decr (sub6 c) (sc6 l) a) (conj eq_refl eq_refl)) as (M1 & M2).
      intros [|]; cbn [pcs scs subs pc4 pc6 sc4 sc6]; [split; assumption | apply (Oth (mkLimiter (pc4 l) (pc6 l) (sc4 l) (subnet_decr (sub6 c) (sc6 l) a))); reflexivity].
  - destruct (prefix_rm (built_prefixes c false) (pc4 l) a) as [p|] eqn:PRe.
    + destruct (Main p (sc4 l) (conj eq_refl eq_refl)) as (M1 & M2).
      intros [|]; cbn [pcs scs subs pc4 pc6 sc4 sc6]; [apply (Oth (mkLimiter p (pc6 l) (sc4 l) (sc6 l))); reflexivity | split; assumption].
    + destruct (Main (pc4 l) (subnet_decr (sub4 c) (sc4 l) a) (conj eq_refl eq_refl)) as (M1 & M2).
      intros [|]; cbn [pcs scs subs pc4 pc6 sc4 sc6]; [apply (Oth (mkLimiter (pc4 l) (pc6 l) (subnet_decr (sub4 c) (sc4 l) a) (sc6 l))); reflexivity | split; assumption].
Qed.

(* permuting / regrouping the list of open endpoints does not matter *)
Lemma limcount_ext : forall c l L L', (forall f : ipaddr -> bool, zcount f L' = zcount f L) -> LimCount c l L -> LimCount c l L'.
Proof.
  intros c l L L' E H v6. destruct (H v6) as [Hp Hs]. split.
  - apply (pc_cnt_ext _ _ 0 (cntP c v6 L)); [|exact Hp]. intros i _. apply E.
  - apply (sc_cnt_ext _ _ (cntS c v6 L)); [|exact Hs]. intros len k. apply E.
Qed.

(* C03 — per-operation preservation of the invariant: ReserveMemory and
   ReleaseMemory on connections, streams, spans and View scopes. *)
From Coq Require Import List ZArith Bool Arith Lia.
From Verif Require Import lib.Wire c03.Int64 c03.Model c03.Spec c03.Proofs_Int64 c03.Proofs_Base
     c03.Proofs_Sum c03.Proofs_Reach c03.Proofs_Link c03.Proofs_Targets c03.Proofs_Frames c03.Proofs_Frames2.
Import ListNotations.
Local Open Scope Z_scope.

Definition cfg_ok (c : config) : Prop := forall t, lim_ok (limit_of c t).

(* no scope's memory leaves the int64 range when [b] more bytes are charged *)
Definition novf (m : smap) (b : Z) : Prop := forall x, mem (use_of m x) + b <= max_int64.

Lemma has_holder_if : forall a t, has_holder a t = true -> holder_if_handle a t.
Proof.
  intros a t H Hh. unfold has_holder in H.
  destruct t; try discriminate; destruct (hget (holders a) _); try discriminate; discriminate.
Qed.

Lemma ecode_some : forall e, (ecode (Some e) =? 0) = false.
Proof. intros []; reflexivity. Qed.

Lemma extends_view_enter : forall c m a t, Inv c m a -> extends c m (view_enter c m t).
Proof.
  intros c m a t I. unfold view_enter. destruct (is_created_view t) eqn:V; [|apply extends_refl].
  apply extends_get_scope; [exact V | apply (I_base c m a I)].
Qed.

Lemma extends_view_leave : forall c m t, extends c m (view_leave m t).
Proof. intros. unfold view_leave. destruct (is_created_view t); [apply extends_decref | apply extends_refl]. Qed.

Lemma get_scope_present : forall c m t, get (get_scope c m t) t <> None.
Proof.
  intros c m t. unfold get_scope. destruct (get m t) as [sc|] eqn:G; unfold incref; rewrite get_upd, sid_eqb_refl.
  - rewrite G. discriminate.
  - unfold new_scope. rewrite get_set_same. discriminate.
Qed.

(* after view_enter a View scope exists *)
Lemma view_enter_known : forall c m a t, Inv c m a -> view_target t = true -> holder_if_handle a t ->
  known (view_enter c m t) a t.
Proof.
  intros c m a t I V K. unfold known. destruct (is_handle t) eqn:Hh; [apply K, Hh|].
  destruct (I_base c m a I) as (B1 & B2 & _).
  destruct t; try discriminate; unfold view_enter; cbn [is_created_view]; try assumption; apply get_scope_present.
Qed.

Lemma charge_neg : forall t k m r sz prio, k = KMem sz prio -> sz < 0 ->
  exists e, charge_list (t :: r) [] k m = (m, Some e).
Proof.
  intros t k m r sz prio -> Hs. cbn [charge_list]. unfold charge_one.
  destruct (get m t) as [sc|]; [|eexists; reflexivity].
  destruct (s_done sc); [eexists; reflexivity|].
  cbn [rc_reserve]. unfold reserve_memory, check_memory.
  replace (sz <? 0) with true by (symmetry; apply Z.ltb_lt; exact Hs). eexists; reflexivity.
Qed.

Theorem reserve_inv : forall c st a t sz prio,
  cfg_ok c -> Inv c (scopes st) a ->
  0 <= prio <= 255 -> sz <= max_int64 -> view_target t = true -> has_holder a t = true ->
  novf (scopes st) (Z.max sz 0) ->
  let '(st', cls) := reserve_mem c st t sz prio in
  Inv c (scopes st') (if cls =? 0 then add_own a t (mem_vec sz) else a).
Proof.
  intros c st a t sz prio LO I Hp Hsz V Hh Ov. unfold reserve_mem.
  pose proof (has_holder_if a t Hh) as K.
  pose proof (extends_view_enter c (scopes st) a t I) as E0.
  set (m0 := view_enter c (scopes st) t) in *.
  assert (I0 : Inv c m0 a) by (apply (Inv_extends c (scopes st) m0 a LO I E0)).
  unfold scope_reserve.
  destruct (Z_lt_le_dec sz 0) as [Hneg|Hpos].
  - destruct (charge_neg t (KMem sz prio) m0 (chain_of m0 t ++ edges_of m0 (root_of m0 t)) sz prio eq_refl Hneg) as [e He].
    unfold targets. rewrite He. cbn [scopes with_scopes]. rewrite ecode_some.
    apply (Inv_extends c m0 _ a LO I0), extends_view_leave.
  - destruct (targets_spec c m0 a t I0 K) as (Nd & _ & Live).
    assert (Hk : kind_ok (KMem sz prio)) by (cbn; lia).
    assert (Ov0 : forall x, In x (targets m0 t) -> mem (use_of m0 x) + mem (kdelta (KMem sz prio)) <= max_int64).
    { intros x _. destruct (E0 x) as [U _]. rewrite U. cbn. specialize (Ov x). lia. }
    pose proof (charge_list_top (targets m0 t) (KMem sz prio) m0 Hk (I_good c m0 a I0) Nd Ov0) as H.
    destruct (charge_list (targets m0 t) [] (KMem sz prio) m0) as [m1 e]. destruct H as (Sh & Gd & Res).
    cbn [scopes with_scopes]. destruct e as [e|].
    + rewrite ecode_some. apply (Inv_extends c m1 _ a LO); [|apply extends_view_leave].
      apply (Inv_extends c m0 m1 a LO I0). apply extends_same; assumption.
    + cbn [ecode]. replace (0 =? 0) with true by reflexivity. destruct Res as [Lv U].
      apply (Inv_extends c m1 _ _ LO); [|apply extends_view_leave].
      specialize (Live Lv).
      assert (D : a_dead a t = false).
      { rewrite <- (done_link c m0 a t I0 (view_enter_known c (scopes st) a t I V K)).
        apply Lv. unfold targets. left. reflexivity. }
      apply (Inv_add_own c m0 m1 a t (mem_vec sz) I0 K D); try assumption.
      * unfold own_or0. destruct (hget (holders a) t) as [h|] eqn:G.
        -- destruct (W_own a (I_wf c m0 a I0) t h G) as [Hn _]. revert Hn. generalize (h_own h). intros. stat_crush.
        -- stat_crush.
      * intros x. rewrite U, <- Live. cbn [kdelta]. apply stat_add_count, Nd.
Qed.

(* ---- ReleaseMemory ------------------------------------------------------------------ *)
Lemma in_hget : forall H x h, NoDup (map fst H) -> In (x, h) H -> hget H x = Some h.
Proof.
  induction H as [|[y h0] r IH]; intros x h Hn Hi; [destruct Hi|]. cbn in *. inversion Hn; subst.
  destruct Hi as [Hi|Hi].
  - inversion Hi; subst. rewrite sid_eqb_refl. reflexivity.
  - sid_cases y x; [|apply IH; assumption]. exfalso. apply H1. apply (in_map fst) in Hi. exact Hi.
Qed.

Lemma own_le_usage : forall a t h x, WfA a -> hget (holders a) t = Some h -> In x (areach a t) ->
  stat_le (h_own h) (usage_A a x).
Proof.
  intros a t h x W G Hx. rewrite usage_A_sumc.
  pose proof (sumc_ge_term (areach a) (holders a) t h x) as H.
  rewrite (countb_nodup x (areach a t) (reach_nodup a t W) Hx), stat_scale_1 in H. apply H; [|exact G].
  intros y h' Hi. apply (W_own a W y h'), in_hget; [apply (W_keys a W) | exact Hi].
Qed.

(* every scope a holder is charged to is open in the model *)
Lemma reach_live : forall c m a t, Inv c m a -> known m a t -> forall x, In x (areach a t) -> is_done m x = false.
Proof.
  intros c m a t I. pose proof (I_wf c m a I) as W. pattern t. apply (chain_ind a); [exact W| |]; clear t.
  - intros t E K x Hx. rewrite (areach_root a t E) in Hx. destruct (a_dead a t) eqn:D; [destruct Hx|].
    destruct Hx as [<-|Hx]; [rewrite (done_link c m a t I K); exact D|].
    assert (Hs : is_handle x = false) by (apply (a_par_static a t x W Hx)).
    assert (P : get m x <> None).
    { destruct (hget (holders a) t) as [h|] eqn:G.
      - assert (Dh : h_dead h = false) by (unfold a_dead in D; rewrite G in D; exact D).
        destruct (I_present c m a I t h G Dh) as [P1 _]. apply P1, Hx.
      - unfold a_par in Hx. rewrite G in Hx. destruct (I_base c m a I) as (B1 & B2 & B3 & B4).
        destruct t; cbn in Hx; try (destruct Hx as [<-|[]]; assumption); destruct Hx. }
    unfold is_done. destruct (get m x) as [sc|] eqn:Gx; [|contradiction].
    apply (I_static c m a I x sc Gx Hs).
  - intros t o Hsp E _ IH K x Hx. rewrite (areach_span a t o E) in Hx. destruct (a_dead a t) eqn:D; [destruct Hx|].
    destruct Hx as [<-|Hx]; [rewrite (done_link c m a t I K); exact D|].
    apply IH; [|exact Hx].
    apply (owner_known c m a t o I); [unfold known in K; destruct t; try discriminate; exact K | exact E | exact D].
Qed.

Theorem release_inv : forall c st a t sz,
  cfg_ok c -> Inv c (scopes st) a ->
  0 <= sz -> view_target t = true -> has_holder a t = true ->
  (a_dead a t = true \/ sz <= mem (own_of a t)) ->
  let '(st', cls) := release_mem c st t sz in
  cls = 0 /\ Inv c (scopes st') (if a_dead a t then a else add_own a t (mem_vec (- sz))).
Proof.
  intros c st a t sz LO I Hsz V Hh Hc. unfold release_mem. split; [reflexivity|].
  pose proof (has_holder_if a t Hh) as K.
  pose proof (extends_view_enter c (scopes st) a t I) as E0.
  set (m0 := view_enter c (scopes st) t) in *.
  assert (I0 : Inv c m0 a) by (apply (Inv_extends c (scopes st) m0 a LO I E0)).
  pose proof (view_enter_known c (scopes st) a t I V K) as Kn. fold m0 in Kn.
  pose proof (I_wf c m0 a I0) as W.
  cbn [scopes with_scopes]. rewrite (done_link c m0 a t I0 Kn).
  destruct (a_dead a t) eqn:D.
  - apply (Inv_extends c m0 _ a LO I0), extends_view_leave.
  - destruct Hc as [Hc|Hc]; [discriminate|].
    apply (Inv_extends c (scope_release m0 t (KMem sz 0)) _ _ LO); [|apply extends_view_leave].
    unfold scope_release. rewrite (rel_targets_reach c m0 a t I0 Kn).
    (* what the holder has, every scope it is charged to has as well *)
    assert (Hown : forall x, In x (areach a t) -> stat_le (mem_vec sz) (use_of m0 x)).
    { intros x Hx. rewrite (I_num c m0 a I0). unfold own_of in Hc.
      destruct (hget (holders a) t) as [h|] eqn:G.
      - pose proof (own_le_usage a t h x W G Hx) as Le.
        assert (Dh : h_dead h = false) by (unfold a_dead in D; rewrite G in D; exact D). rewrite Dh in Hc.
        destruct (W_own a W t h G) as [Hn _]. revert Le Hn Hc. generalize (h_own h) (usage_A a x). intros. stat_crush.
      - cbn in Hc. assert (sz = 0) by lia. subst sz.
        pose proof (I_good c m0 a I0) as Gd. rewrite <- (I_num c m0 a I0).
        unfold use_of. destruct (get m0 x) as [sc|] eqn:Gx; [|stat_crush].
        destruct (Gd x sc Gx) as (_ & Hn & _). revert Hn. generalize (s_use sc). intros. stat_crush. }
    assert (Hself : In t (areach a t)).
    { destruct (chain_cases a t W) as [E|(o & _ & E & _)];
        [rewrite (areach_root a t E), D | rewrite (areach_span a t o E), D]; left; reflexivity. }
    assert (Hk : kind_ok (KMem sz 0)).
    { cbn. split; [|lia]. split; [exact Hsz|]. specialize (Hown t Hself).
      assert (mem (use_of m0 t) <= max_int64).
      { unfold use_of. destruct (get m0 t) as [sc|] eqn:Gt; [apply good_mem_le, (I_good c m0 a I0 t sc Gt) | cbn; unfold max_int64; lia]. }
      destruct Hown as [Hm _]. cbn in Hm. lia. }
    destruct (uncharge_list_exact (areach a t) (KMem sz 0) m0 Hk (I_good c m0 a I0) (reach_nodup a t W)
                (reach_live c m0 a t I0 Kn) Hown) as (Sh & Gd & U).
    apply (Inv_add_own c m0 _ a t (mem_vec (- sz)) I0 K D); try assumption.
    + unfold own_or0. unfold own_of in Hc. destruct (hget (holders a) t) as [h|] eqn:G.
      * assert (Dh : h_dead h = false) by (unfold a_dead in D; rewrite G in D; exact D). rewrite Dh in Hc.
        destruct (W_own a W t h G) as [Hn _]. revert Hn Hc. generalize (h_own h). intros. stat_crush.
      * cbn in Hc. assert (sz = 0) by lia. subst sz. stat_crush.
    + intros x. rewrite U. cbn [kdelta]. rewrite (stat_sub_count _ _ x _ (reach_nodup a t W)).
      generalize (use_of m0 x) (countb x (areach a t)). intros u n. destruct u; unfold stat_sub, stat_add, stat_scale, mem_vec; cbn. f_equal; lia.
Qed.

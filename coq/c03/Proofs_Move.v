(* C03 — re-parenting, model side: the effect of ReserveForChild /
   ReleaseForChild on single scopes in counting form, and the frame lemma in
   "added to / removed from" form. *)
From Coq Require Import List ZArith Bool Arith Lia.
From Verif Require Import lib.Wire c03.Int64 c03.Model c03.Spec c03.Proofs_Int64 c03.Proofs_Base
     c03.Proofs_Sum c03.Proofs_Reach c03.Proofs_Link c03.Proofs_Targets c03.Proofs_Frames c03.Proofs_Frames2
     c03.Proofs_Frames3 c03.Proofs_Kill c03.Proofs_OpsMem c03.Proofs_OpsNew c03.Proofs_Repar c03.Proofs_Repar2.
Import ListNotations.
Local Open Scope Z_scope.

Lemma count_single : forall t x, countb x [t] = if sid_eqb t x then 1 else 0.
Proof. intros. cbn. lia. Qed.

Lemma charge_one_count : forall t k m m',
  kind_ok k -> all_good m -> mem (use_of m t) + mem (kdelta k) <= max_int64 ->
  charge_one t k m = inl m' ->
  is_done m t = false /\ (forall x, shape_of m' x = shape_of m x) /\ all_good m' /\
  (forall x, use_of m' x = stat_add (use_of m x) (stat_scale (countb x [t]) (kdelta k))).
Proof.
  intros t k m m' Hk Gd Ov C. destruct (charge_one_ok t k m m' Hk Gd Ov C) as (D & S & U & G').
  split; [exact D|]. split; [exact S|]. split; [exact G'|].
  intros x. rewrite U, count_single. destruct (sid_eqb t x) eqn:X.
  - apply sid_eqb_eq in X. subst x. rewrite stat_scale_1. reflexivity.
  - rewrite stat_scale_0, stat_add_0_r. reflexivity.
Qed.

Lemma uncharge_one_count : forall t k m,
  kind_ok k -> all_good m -> is_done m t = false -> stat_le (kdelta k) (use_of m t) ->
  (forall x, shape_of (uncharge_one t k m) x = shape_of m x) /\ all_good (uncharge_one t k m) /\
  (forall x, stat_add (use_of (uncharge_one t k m) x) (stat_scale (countb x [t]) (kdelta k)) = use_of m x).
Proof.
  intros t k m Hk Gd D Le. destruct (uncharge_one_props t k m Hk Gd) as (S & G' & Oth & _ & Ex & _).
  split; [exact S|]. split; [exact G'|]. intros x. rewrite count_single. destruct (sid_eqb t x) eqn:X.
  - apply sid_eqb_eq in X. subst x. rewrite (Ex D Le), stat_scale_1.
    generalize (use_of m t) (kdelta k). intros [] []. unfold stat_add, stat_sub; cbn. f_equal; lia.
  - apply sid_eqb_neq in X. rewrite stat_scale_0, stat_add_0_r. apply Oth. congruence.
Qed.

(* a closed holder has nothing charged *)
Lemma reach_alive : forall a y x, WfA a -> In x (areach a y) -> is_handle x = true -> a_dead a x = false.
Proof.
  intros a y x W. pattern y. apply (chain_ind a); [exact W| |]; clear y.
  - intros y E H Hx. rewrite (areach_root a y E) in H. destruct (a_dead a y) eqn:D; [destruct H|].
    destruct H as [<-|H]; [exact D|]. apply (a_par_static a y x W) in H. congruence.
  - intros y o _ E _ IH H Hx. rewrite (areach_span a y o E) in H. destruct (a_dead a y) eqn:D; [destruct H|].
    destruct H as [<-|H]; [exact D | apply IH; assumption].
Qed.

Lemma dead_use_zero : forall c m a s, Inv c m a -> is_handle s = true -> a_dead a s = true -> use_of m s = stat0.
Proof.
  intros c m a s I Hs D. pose proof (I_wf c m a I) as W. rewrite (I_num c m a I s), usage_A_sumc.
  assert (Z : forall H, sumc (areach a) H s = stat0).
  { induction H as [|[y h] r IH]; [apply sumc_nil|]. rewrite sumc_cons, IH.
    rewrite (countb_notin s (areach a y)); [rewrite stat_scale_0; reflexivity|].
    intros X. pose proof (reach_alive a y s W X Hs). congruence. }
  apply Z.
Qed.

(* the frame lemma in "charged to Add, released from Rem" form *)
Lemma Inv_move : forall c m m' a a' s h P' Add Rem sc sc',
  Inv c m a -> leaf s = true -> hget (holders a) s = Some h ->
  holders a' = hset (holders a) s (mkHolder (h_own h) P' (h_chain h) (h_dead h)) ->
  NoDup P' -> (forall p, In p P' -> is_handle p = false) ->
  (h_dead h = false -> forall p, In p P' -> get m' p <> None) ->
  (forall y, y <> s -> shape_of m' y = shape_of m y) ->
  get m s = Some sc -> get m' s = Some sc' ->
  s_lim sc' = s_lim sc -> s_done sc' = s_done sc -> s_chain sc' = s_chain sc -> s_edges sc' = P' ->
  all_good m' ->
  (forall x, countb x P' + countb x Rem = countb x (h_par h) + countb x Add) ->
  (forall x, stat_add (use_of m' x) (stat_scale (countb x Rem) (use_of m s))
           = stat_add (use_of m x) (stat_scale (countb x Add) (use_of m s))) ->
  Inv c m' a'.
Proof.
  intros c m m' a a' s h P' Add Rem sc sc' I Hl G Ha' Nd St HP Oth Gm Gm' Q1 Q2 Q3 Q4 Gd Ms U.
  pose proof (I_wf c m a I) as W.
  assert (Hs : is_handle s = true) by (destruct s; try discriminate; reflexivity).
  apply (Inv_repar c m m' a a' s h P' sc sc' I Hl G Ha' Nd St HP Oth Gm Gm' Q1 Q2 Q3 Q4 Gd).
  intros x.
  assert (Ec : a_chain a s = []) by (apply (rp_chain_s a s h W Hl G)).
  rewrite (rp_reach_s a a' s h P' W Hl G Ha'), (areach_root a s Ec), (a_par_leaf a s h Hl G).
  destruct (a_dead a s) eqn:D.
  - (* closed: it holds nothing, and nothing moved *)
    pose proof (U x) as Ux. rewrite (dead_use_zero c m a s I Hs D) in *.
    rewrite !stat_scale_stat0, !stat_add_0_r in *. exact Ux.
  - pose proof (U x) as Ux. pose proof (Ms x) as Mx. cbn [countb]. revert Ux Mx.
    generalize (use_of m' x) (use_of m x) (use_of m s) (countb x P') (countb x Rem) (countb x (h_par h)) (countb x Add)
               (if sid_eqb s x then 1 else 0).
    intros [] [] [] c1 c2 c3 c4 c0 Ux Mx. unfold stat_add, stat_scale in *.
    cbn [Model.mem Model.sin Model.sout Model.cin Model.cout Model.fd] in *.
    injection Ux; intros. f_equal; nia.
Qed.

(* C03 — entry points of the correspondence driver: case kind 5 (concurrent run
   with mid-flight samples, Conc.v) is judged by the concurrent monitor, every
   other kind by the sequential one (Spec.v).  No proofs in this file. *)
From Coq Require Import List ZArith Bool.
From Verif Require Import lib.Wire c03.Model c03.Spec c03.Conc.
Import ListNotations.
Local Open Scope Z_scope.

Definition conform_case (l : list Z) : list Z :=
  match l with 5 :: _ => conc_conform_case l | _ => conform_case_seq l end.

Definition monitor_case (l : list Z) : list Z :=
  match l with 5 :: _ => conc_monitor_case l | _ => monitor_case_seq l end.

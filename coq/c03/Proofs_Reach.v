(* C03 — the abstract side: well-formed holder tables and what a holder is
   charged to (areach), including span owner chains. *)
From Coq Require Import List ZArith Bool Arith Lia.
From Verif Require Import lib.Wire c03.Int64 c03.Model c03.Spec c03.Proofs_Int64 c03.Proofs_Base c03.Proofs_Sum.
Import ListNotations.
Local Open Scope Z_scope.

Definition is_handle (t : sid) : bool :=
  match t with Conn _ | Stream _ | Span _ => true | _ => false end.
Definition leaf (t : sid) : bool :=
  match t with Conn _ | Stream _ => true | _ => false end.
Definition is_span (t : sid) : bool :=
  match t with Span _ => true | _ => false end.

Record WfA (a : astate) : Prop := {
  W_keys : NoDup (map fst (holders a));
  W_static : forall t h, hget (holders a) t = Some h -> is_handle t = false ->
             h_dead h = false /\ h_chain h = [];
  W_leaf : forall t h, hget (holders a) t = Some h -> leaf t = true ->
           h_chain h = [] /\ NoDup (h_par h) /\ (forall p, In p (h_par h) -> is_handle p = false);
  W_span : forall t h, hget (holders a) t = Some h -> is_span t = true ->
           exists o, h_chain h = o :: a_chain a o /\
                     (is_handle o = true -> hget (holders a) o <> None) /\
                     ~ In t (o :: a_chain a o);
  W_own : forall t h, hget (holders a) t = Some h ->
          nonneg (h_own h) /\ (h_dead h = true -> h_own h = stat0)
}.

Lemma static_par_nodup : forall t, NoDup (t :: static_par t).
Proof. intros t. destruct t; cbn; repeat constructor; cbn; intuition discriminate. Qed.

Lemma static_par_static : forall t p, In p (static_par t) -> is_handle p = false.
Proof. intros t p H. destruct t; cbn in H; intuition (subst; reflexivity). Qed.

(* ---- unfolding areach ------------------------------------------------------------ *)
Lemma areach_dead : forall a t, a_dead a t = true -> areach a t = [].
Proof. intros a t H. unfold areach. rewrite H. reflexivity. Qed.

Lemma areach_root : forall a t, a_chain a t = [] ->
  areach a t = if a_dead a t then [] else t :: a_par a t.
Proof. intros a t H. unfold areach. rewrite H. reflexivity. Qed.

Lemma areach_span : forall a t o, a_chain a t = o :: a_chain a o ->
  areach a t = if a_dead a t then [] else t :: areach a o.
Proof.
  intros a t o H. unfold areach at 1. rewrite H. destruct (a_dead a t); [reflexivity|].
  f_equal. cbn [awalk]. unfold areach. destruct (a_dead a o); [reflexivity|].
  destruct (a_chain a o); reflexivity.
Qed.

(* areach looks at the table only through a_dead, a_chain and a_par *)
Lemma awalk_skel : forall a a' l,
  (forall y, a_dead a' y = a_dead a y) -> (forall y, a_par a' y = a_par a y) -> awalk a' l = awalk a l.
Proof.
  intros a a' l Hd Hp. induction l as [|o r IH]; [reflexivity|]. cbn [awalk].
  rewrite Hd, Hp, IH. reflexivity.
Qed.

Lemma areach_skel : forall a a' t,
  (forall y, a_dead a' y = a_dead a y) -> (forall y, a_par a' y = a_par a y) ->
  (forall y, a_chain a' y = a_chain a y) -> areach a' t = areach a t.
Proof.
  intros a a' t Hd Hp Hc. unfold areach. rewrite Hd, Hp, Hc. destruct (a_dead a t); [reflexivity|].
  destruct (a_chain a t) as [|o r]; [reflexivity|]. rewrite (awalk_skel a a' _ Hd Hp). reflexivity.
Qed.

(* ---- the shape of the chain of a holder --------------------------------------------- *)
Lemma chain_cases : forall a t, WfA a ->
  a_chain a t = [] \/ exists o, is_span t = true /\ a_chain a t = o :: a_chain a o /\ ~ In t (o :: a_chain a o).
Proof.
  intros a t W. destruct (hget (holders a) t) as [h|] eqn:G.
  2:{ left. unfold a_chain. rewrite G. reflexivity. }
  assert (E0 : a_chain a t = h_chain h) by (unfold a_chain; rewrite G; reflexivity).
  rewrite E0. destruct (is_handle t) eqn:Hh.
  - destruct (leaf t) eqn:Hl.
    + left. apply (W_leaf a W t h G Hl).
    + assert (Hs : is_span t = true) by (destruct t; try discriminate; reflexivity).
      destruct (W_span a W t h G Hs) as (o & E & _ & N). right. exists o. repeat split; assumption.
  - left. apply (W_static a W t h G Hh).
Qed.

Lemma a_par_static : forall a t p, WfA a -> In p (a_par a t) -> is_handle p = false.
Proof.
  intros a t p W H. unfold a_par in H.
  destruct t; try (apply (static_par_static _ p H));
    (destruct (hget (holders a) _) as [h|] eqn:G; [|destruct H]);
    eapply (W_leaf a W _ h G); try reflexivity; exact H.
Qed.

Lemma a_par_nodup : forall a t, WfA a -> NoDup (t :: a_par a t).
Proof.
  intros a t W.
  assert (L : forall x, leaf x = true -> NoDup (x :: a_par a x)).
  { intros x Hl. constructor.
    - intros X. apply (a_par_static a x x W) in X. destruct x; discriminate.
    - unfold a_par. destruct x; try discriminate;
        (destruct (hget (holders a) _) as [h|] eqn:G; [apply (W_leaf a W _ h G); reflexivity | constructor]). }
  destruct (leaf t) eqn:Hl; [apply L, Hl|].
  destruct t; try discriminate; apply static_par_nodup.
Qed.

(* induction along owner chains *)
Lemma chain_ind : forall a (P : sid -> Prop), WfA a ->
  (forall t, a_chain a t = [] -> P t) ->
  (forall t o, is_span t = true -> a_chain a t = o :: a_chain a o -> ~ In t (o :: a_chain a o) -> P o -> P t) ->
  forall t, P t.
Proof.
  intros a P W Hr Hs.
  assert (G : forall n t, (length (a_chain a t) <= n)%nat -> P t).
  { induction n as [|n IH]; intros t Hn.
    - apply Hr. destruct (a_chain a t); [reflexivity | cbn in Hn; lia].
    - destruct (chain_cases a t W) as [E|(o & Hsp & E & N)]; [apply Hr, E|].
      apply (Hs t o Hsp E N). apply IH. rewrite E in Hn. cbn in Hn. lia. }
  intros t. apply (G (length (a_chain a t))). lia.
Qed.

(* elements of areach: the holder, its owners, or static scopes *)
Lemma reach_in : forall a t x, WfA a -> In x (areach a t) ->
  x = t \/ In x (a_chain a t) \/ is_handle x = false.
Proof.
  intros a t x W. revert x. pattern t. apply (chain_ind a); [exact W| |]; clear t.
  - intros t E x H. rewrite (areach_root a t E) in H. destruct (a_dead a t); [destruct H|].
    destruct H as [H|H]; [left; congruence | right; right; apply (a_par_static a t x W H)].
  - intros t o _ E _ IH x H. rewrite (areach_span a t o E) in H. destruct (a_dead a t); [destruct H|].
    destruct H as [H|H]; [left; congruence|]. right. rewrite E.
    destruct (IH x H) as [X|[X|X]]; [left; left; congruence | left; right; exact X | right; exact X].
Qed.

Lemma reach_nodup : forall a t, WfA a -> NoDup (areach a t).
Proof.
  intros a t W. pattern t. apply (chain_ind a); [exact W| |]; clear t.
  - intros t E. rewrite (areach_root a t E). destruct (a_dead a t); [constructor | apply a_par_nodup, W].
  - intros t o Hsp E N IH. rewrite (areach_span a t o E). destruct (a_dead a t); [constructor|].
    constructor; [|exact IH]. intros X. apply (reach_in a o t W) in X.
    destruct X as [X|[X|X]].
    + apply N. left. congruence.
    + apply N. right. exact X.
    + destruct t; discriminate.
Qed.

(* a live holder is charged to itself *)
Lemma reach_self : forall a t, WfA a -> a_dead a t = false -> countb t (areach a t) = 1.
Proof.
  intros a t W D. apply countb_nodup; [apply reach_nodup, W|].
  destruct (chain_cases a t W) as [E|(o & _ & E & _)].
  - rewrite (areach_root a t E), D. left. reflexivity.
  - rewrite (areach_span a t o E), D. left. reflexivity.
Qed.

(* C03 — the CONCURRENT model: interleaving of single-lock sections.
   No proofs in this file.

   In scope.go a reservation that touches several scopes is not one critical
   section.  resourceScope.ReserveMemory / AddStream / AddConn lock the scope
   itself (the connection / stream; this lock is kept for the whole call, so
   the calls on ONE connection or stream are serialised), charge it, and then
   reserve*ForEdges locks each edge ONE AT A TIME (ReserveMemoryForChild /
   AddStreamForChild / AddConnForChild: check and add under that edge's
   mutex); when an edge refuses, the edges already charged are released one
   at a time (edges[:reserved], then the local release).  ReleaseMemory and
   doneUnlocked release edge by edge.  SetPeer / SetProtocol / SetService /
   transferAllowedToStandard charge the new scopes with ReserveForChild one
   by one (rolling the charged ones back on a refusal) and release the old
   ones with ReleaseForChild, each call its own critical section.

   LTS.  Shared state: the usage vector of every scope ([c_use], scopes are
   natural numbers, an ARBITRARY graph: every holder carries its own edge
   list).  Agents: the holders (connections / streams).  A holder is [Idle]
   or in the middle of one operation; an ATOMIC STEP of the system is one
   step of one holder, chosen by the schedule:
     - Idle: start an operation (no shared access);
     - [Acq (s :: todo) got k ..]: ONE check-and-add on scope s under its
       lock = Model.rc_reserve k (limit s) (usage s) - the very function the
       sequential model uses for *ForChild; success moves s to [got], a
       refusal switches to [Drop (undo_order got)];
     - [Acq [] ..]: commit (holder-local: own += delta, or new edge list);
     - [Drop (s :: todo) k ..]: ONE release on scope s = Model.rc_release;
     - [Drop [] ..]: return.
   Operations: OReserve k (ReserveMemory / AddStream / AddConn: self, then
   the edges in order; undo = charged edges in order, then self), ORelease k
   (ReleaseMemory / RemoveStream / RemoveConn: self, then the edges), ODone
   (doneUnlocked: the whole stat released from every edge, then the scope
   itself reads zero), OMove add drop edges' (SetPeer: add [peer] drop
   [transient]; SetProtocol: add [proto; protopeer] drop [transient];
   SetService: add [svc; svcpeer] drop []; the re-charge half of
   transferAllowedToStandard: add [system; transient]; the whole stat is
   charged to the new scopes one by one with rollback, then released from the
   dropped ones), OUnlink (the first half of transferAllowedToStandard: the
   whole stat released from every edge, edges := nil).
   Any number of holders, any schedule ([run] over a list of (holder index,
   operation to start when idle)); more interleavings than the code allows
   (the code runs the two halves of SetPeer's transfer back to back) - a
   superset is what a safety theorem needs.

   NOT in this LTS: span scopes (owner chains; BeginSpan), gc, the conn
   limiter, done edges (an edge is never done while a holder references it:
   Proofs_RefInv), the int64 wrap: a run in which a successful reservation
   would carry a scope's memory past MaxInt64 is [None] (the sequential
   theorems' no_overflow hypothesis, DESIGN 9 item 13). *)
From Coq Require Import List ZArith Bool Arith.
From Verif Require Import lib.Wire c03.Int64 c03.Model c03.Spec.
Import ListNotations.
Local Open Scope Z_scope.

Fixpoint cnt (s : nat) (l : list nat) : Z :=
  match l with [] => 0 | x :: r => (if Nat.eqb x s then 1 else 0) + cnt s r end.

Definition cdelta (k : rkind) : stat :=
  match k with
  | KMem sz _ => mem_vec sz
  | KStream inb => stream_vec inb
  | KConn inb usefd => conn_vec inb usefd
  | KStat st => st
  end.

Definition stat_leb (a b : stat) : bool :=
  (mem a <=? mem b) && (sin a <=? sin b) && (sout a <=? sout b) &&
  (cin a <=? cin b) && (cout a <=? cout b) && (fd a <=? fd b).

(* what Go's types guarantee about a request, plus a non-negative size *)
Definition kind_okb (k : rkind) : bool :=
  match k with
  | KMem sz prio => (0 <=? sz) && (sz <=? max_int64) && (0 <=? prio) && (prio <=? 255)
  | KStat _ => false          (* whole-stat moves only through OMove / ODone / OUnlink *)
  | _ => true
  end.

Inductive cont :=
| CReserve
| CMove (drop edges' : list nat).

Inductive phase :=
| Idle
| Acq (todo got : list nat) (k : rkind) (c : cont) (snap : stat * list nat)
      (* snap: (own, edges) when the operation began *)
| Drop (todo : list nat) (k : rkind) (back : option (stat * list nat)).
      (* back = Some snap: this is the undo of a REFUSED operation *)

Record cholder := mkCH {
  h_self : nat; h_edges : list nat; h_own : stat; h_dead : bool; h_ph : phase }.

Definition set_ph (h : cholder) (p : phase) := mkCH (h_self h) (h_edges h) (h_own h) (h_dead h) p.

Inductive cop :=
| OReserve (k : rkind)
| ORelease (k : rkind)
| ODone
| OMove (add drop edges' : list nat)
| OUnlink.

(* the order in which the code takes back a charged prefix *)
Definition undo_order (c : cont) (got : list nat) : list nat :=
  match c with
  | CReserve => tl got ++ firstn 1 got      (* edges[:reserved] in order, then the local release *)
  | CMove _ _ => got
  end.

(* edges ++ add is a rearrangement of edges' ++ drop *)
Definition move_okb (edges add drop edges' : list nat) : bool :=
  forallb (fun s => cnt s (edges ++ add) =? cnt s (edges' ++ drop)) (edges ++ add ++ edges' ++ drop).

Definition start (h : cholder) (o : cop) : cholder :=
  if h_dead h then h else
  match o with
  | OReserve k =>
      if kind_okb k then set_ph h (Acq (h_self h :: h_edges h) [] k CReserve (h_own h, h_edges h)) else h
  | ORelease k =>
      (* callers never release more than they reserved *)
      if kind_okb k && stat_leb (cdelta k) (h_own h)
      then mkCH (h_self h) (h_edges h) (stat_sub (h_own h) (cdelta k)) false (Drop (h_self h :: h_edges h) k None)
      else h
  | ODone =>
      mkCH (h_self h) [] stat0 true (Drop (h_edges h ++ [h_self h]) (KStat (h_own h)) None)
  | OMove add drop e' =>
      if move_okb (h_edges h) add drop e'
      then set_ph h (Acq add [] (KStat (h_own h)) (CMove drop e') (h_own h, h_edges h)) else h
  | OUnlink =>
      mkCH (h_self h) [] (h_own h) false (Drop (h_edges h) (KStat (h_own h)) None)
  end.

Definition upd_use (use : nat -> stat) (s : nat) (u : stat) : nat -> stat :=
  fun x => if Nat.eqb x s then u else use x.

(* one atomic step of holder h; None = the int64 guard *)
Definition hstep (lim : nat -> limit) (use : nat -> stat) (h : cholder) (o : cop)
  : option ((nat -> stat) * cholder) :=
  match h_ph h with
  | Idle => Some (use, start h o)
  | Acq (s :: todo) got k c snap =>
      match rc_reserve k (lim s) (use s) with
      | inl u' =>
          if mem (use s) + mem (cdelta k) >? max_int64 then None
          else Some (upd_use use s u', set_ph h (Acq todo (got ++ [s]) k c snap))
      | inr _ => Some (use, set_ph h (Drop (undo_order c got) k (Some snap)))
      end
  | Acq [] got k c snap =>
      match c with
      | CReserve => Some (use, mkCH (h_self h) (h_edges h) (stat_add (h_own h) (cdelta k)) (h_dead h) Idle)
      | CMove drop e' => Some (use, mkCH (h_self h) e' (h_own h) (h_dead h) (Drop drop k None))
      end
  | Drop (s :: todo) k b => Some (upd_use use s (rc_release k (use s)), set_ph h (Drop todo k b))
  | Drop [] k b => Some (use, set_ph h Idle)
  end.

Record cstate := mkCS { c_use : nat -> stat; c_hs : list cholder }.

Fixpoint set_nth {A} (i : nat) (l : list A) (x : A) : list A :=
  match l, i with
  | [], _ => []
  | _ :: r, O => x :: r
  | y :: r, S j => y :: set_nth j r x
  end.

Definition gstep (lim : nat -> limit) (st : cstate) (io : nat * cop) : option cstate :=
  match nth_error (c_hs st) (fst io) with
  | None => Some st
  | Some h =>
      match hstep lim (c_use st) h (snd io) with
      | None => None
      | Some (u', h') => Some (mkCS u' (set_nth (fst io) (c_hs st) h'))
      end
  end.

Fixpoint run (lim : nat -> limit) (st : cstate) (sched : list (nat * cop)) : option cstate :=
  match sched with
  | [] => Some st
  | io :: r => match gstep lim st io with Some st' => run lim st' r | None => None end
  end.

(* initial state: nothing charged, every holder idle and empty *)
Definition fresh (h : cholder) : bool :=
  match h_ph h with Idle => stat_eqb (h_own h) stat0 && negb (h_dead h) | _ => false end.
Definition init_cs (hs : list cholder) : cstate := mkCS (fun _ => stat0) hs.

(* ---- what a holder has charged to scope s right now ---------------------------- *)
Definition base (h : cholder) (s : nat) : stat :=
  stat_scale (cnt s (h_self h :: h_edges h)) (h_own h).

Definition inflight (h : cholder) (s : nat) : stat :=
  match h_ph h with
  | Idle => stat0
  | Acq _ got k _ _ => stat_scale (cnt s got) (cdelta k)       (* the charged prefix *)
  | Drop todo k _ => stat_scale (cnt s todo) (cdelta k)          (* not yet released / undone *)
  end.

(* everything the operation in flight may have charged to s *)
Definition inflight_max (h : cholder) (s : nat) : stat :=
  match h_ph h with
  | Idle => stat0
  | Acq todo got k _ _ => stat_scale (cnt s (todo ++ got)) (cdelta k)
  | Drop todo k _ => stat_scale (cnt s todo) (cdelta k)
  end.

Definition held (h : cholder) (s : nat) : stat := stat_add (base h s) (inflight h s).

Fixpoint sum_over {A} (f : A -> stat) (l : list A) : stat :=
  match l with [] => stat0 | x :: r => stat_add (f x) (sum_over f r) end.

Definition sum_held (hs : list cholder) (s : nat) : stat := sum_over (fun h => held h s) hs.

Definition idle (h : cholder) : bool := match h_ph h with Idle => true | _ => false end.
Definition quiescent (st : cstate) : bool := forallb idle (c_hs st).

(* ---- the monitor of a concurrent run (case kind 5) ------------------------------
   A SAMPLE is one Stat() of one shared scope read while operations are in
   flight, together with, per worker, a lower and an upper bound of what that
   worker's holders have charged to the scope at that instant:
     lo = charges held through the whole sampling window,
     hi = lo + charges of the operations started and not yet finished (and of
          holders opened / closed inside the window).
   Clauses: no counter negative (CL_CNEG), none above the scope's limit
   (CL_CLIMIT), sum lo <= observed <= sum hi (CL_CBOUND).  At QUIESCENCE the
   case lists every holder (own vector, edge list) and the Stat() of every
   shared scope: observed = sum over the holders charged to it (CL_CQUIET). *)
Record csample := mkSample {
  sm_k : Z; sm_a : Z;                     (* which scope, for the report only *)
  sm_lim : limit; sm_obs : stat; sm_parts : list (stat * stat) }.

Record ccase := mkCase {
  cc_samples : list csample;
  cc_holders : list (nat * stat * list nat);     (* self, own, edges *)
  cc_final : list (nat * (Z * Z) * stat) }.      (* scope id, (K, a), observed *)

Definition CL_CNEG : Z := 11.
Definition CL_CLIMIT : Z := 12.
Definition CL_CBOUND : Z := 13.
Definition CL_CQUIET : Z := 14.

Definition mon_sample (x : csample) : list Z :=
  let lo := sum_over fst (sm_parts x) in
  let hi := sum_over snd (sm_parts x) in
  if negb (stat_nonneg (sm_obs x)) then [CL_CNEG; sm_k x; sm_a x] ++ zstat (sm_obs x)
  else if negb (within (sm_lim x) (sm_obs x)) then [CL_CLIMIT; sm_k x; sm_a x] ++ zstat (sm_obs x)
  else if negb (stat_leb lo (sm_obs x) && stat_leb (sm_obs x) hi)
       then [CL_CBOUND; sm_k x; sm_a x] ++ zstat (sm_obs x) ++ zstat lo ++ zstat hi
  else [].

Fixpoint mon_samples (i : Z) (l : list csample) : list Z :=
  match l with
  | [] => []
  | x :: r => match mon_sample x with
              | [] => mon_samples (i + 1) r
              | d => ERR_PROPERTY :: i :: d
              end
  end.

Definition quiet_usage (hs : list (nat * stat * list nat)) (s : nat) : stat :=
  sum_over (fun h => stat_scale (cnt s (fst (fst h) :: snd h)) (snd (fst h))) hs.

Fixpoint mon_final (i : Z) (hs : list (nat * stat * list nat)) (l : list (nat * (Z * Z) * stat)) : list Z :=
  match l with
  | [] => []
  | (s, ka, obs) :: r =>
      if stat_eqb obs (quiet_usage hs s) then mon_final (i + 1) hs r
      else [ERR_PROPERTY; i; CL_CQUIET; fst ka; snd ka] ++ zstat (quiet_usage hs s) ++ zstat obs
  end.

Definition mon_conc (c : ccase) : list Z :=
  match mon_samples 0 (cc_samples c) with
  | [] => mon_final 1000000 (cc_holders c) (cc_final c)
  | d => d
  end.

(* ---- the model's own trace of a concurrent run ----------------------------------- *)
Definition model_sample (lim : nat -> limit) (st : cstate) (s : nat) : csample :=
  mkSample 0 (Z.of_nat s) (lim s) (c_use st s)
           (map (fun h => (base h s, stat_add (base h s) (inflight_max h s))) (c_hs st)).

(* segments of one schedule; a sample of scope s is taken after each segment *)
Fixpoint trace_samples (lim : nat -> limit) (st : cstate) (segs : list (list (nat * cop) * nat))
  : option (list csample * cstate) :=
  match segs with
  | [] => Some ([], st)
  | (sch, s) :: r =>
      match run lim st sch with
      | None => None
      | Some st' =>
          match trace_samples lim st' r with
          | None => None
          | Some (l, fin) => Some (model_sample lim st' s :: l, fin)
          end
      end
  end.

Definition holders_of (st : cstate) : list (nat * stat * list nat) :=
  map (fun h => (h_self h, h_own h, h_edges h)) (c_hs st).

Definition model_case (lim : nat -> limit) (smp : list csample) (fin : cstate) (scopes : list nat) : ccase :=
  mkCase smp (holders_of fin) (map (fun s => (s, (0, Z.of_nat s), c_use fin s)) scopes).

(* ---- wire format of case kind 5 -----------------------------------------------------
     5 nsamples { K a  lim(8)  obs(6)  nparts { lo(6) hi(6) }* }*
       nholders { self own(6) nedges edge* }*
       nscopes  { id K a obs(6) }*
   limits: mem s sin sout c cin cout fd, -1 = MaxInt64 *)
Definition dec_stat (l : list Z) : option (stat * list Z) :=
  match l with
  | m :: si :: so :: ci :: co :: f :: r => Some (mkStat m si so ci co f, r)
  | _ => None
  end.

Definition dec_part (l : list Z) : option ((stat * stat) * list Z) :=
  match dec_stat l with
  | Some (lo, r) => match dec_stat r with Some (hi, r') => Some ((lo, hi), r') | None => None end
  | None => None
  end.

Definition dec_sample (l : list Z) : option (csample * list Z) :=
  match l with
  | k :: a :: r =>
      match dec_limit r with
      | Some (lim, r1) =>
          match dec_stat r1 with
          | Some (obs, r2) =>
              match dec_counted dec_part r2 with
              | Some (ps, r3) => Some (mkSample k a lim obs ps, r3)
              | None => None
              end
          | None => None
          end
      | None => None
      end
  | _ => None
  end.

Definition dec_nat (l : list Z) : option (nat * list Z) :=
  match l with x :: r => if x <? 0 then None else Some (znat x, r) | [] => None end.

Definition dec_holder (l : list Z) : option ((nat * stat * list nat) * list Z) :=
  match l with
  | s :: r =>
      if s <? 0 then None else
      match dec_stat r with
      | Some (own, r1) =>
          match dec_counted dec_nat r1 with
          | Some (es, r2) => Some ((znat s, own, es), r2)
          | None => None
          end
      | None => None
      end
  | [] => None
  end.

Definition dec_final (l : list Z) : option ((nat * (Z * Z) * stat) * list Z) :=
  match l with
  | s :: k :: a :: r =>
      if s <? 0 then None else
      match dec_stat r with
      | Some (obs, r1) => Some ((znat s, (k, a), obs), r1)
      | None => None
      end
  | _ => None
  end.

Definition dec_conc (l : list Z) : option ccase :=
  match l with
  | 5 :: r =>
      match dec_counted dec_sample r with
      | Some (smp, r1) =>
          match dec_counted dec_holder r1 with
          | Some (hs, r2) =>
              match dec_counted dec_final r2 with
              | Some (fin, []) => Some (mkCase smp hs fin)
              | _ => None
              end
          | None => None
          end
      | None => None
      end
  | _ => None
  end.

Definition conc_monitor_case (l : list Z) : list Z :=
  match dec_conc l with
  | Some c =>
      if forallb (fun x => limit_wf (sm_lim x)) (cc_samples c) then mon_conc c else [ERR_MALFORMED; 51]
  | None => [ERR_MALFORMED; 5]
  end.

(* conformance of the concurrent model = what it predicts for the quiescent
   state: run the model holders (idle, with the reported own vectors and edge
   lists) and compare [sum_held] - the usage the LTS invariant gives - with the
   observed Stat() of every shared scope *)
Definition conc_conform_case (l : list Z) : list Z :=
  match dec_conc l with
  | Some c =>
      let hs := map (fun h => mkCH (fst (fst h)) (snd h) (snd (fst h)) false Idle) (cc_holders c) in
      let fix go (i : Z) (f : list (nat * (Z * Z) * stat)) : list Z :=
        match f with
        | [] => []
        | (s, ka, obs) :: r =>
            if stat_eqb obs (sum_held hs s) then go (i + 1) r
            else [ERR_MISMATCH; i; fst ka; snd ka] ++ zstat (sum_held hs s) ++ zstat obs
        end in
      go 0 (cc_final c)
  | None => [ERR_MALFORMED; 5]
  end.

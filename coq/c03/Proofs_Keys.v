(* C03 — the manager's scope map has no duplicate keys (needed by gc: after
   delete(r.peer, p) the key is really gone). *)
From Coq Require Import List ZArith Bool Arith Lia.
From Verif Require Import lib.Wire c03.Int64 c03.Model c03.Spec c03.Proofs_Int64 c03.Proofs_Base.
Import ListNotations.
Local Open Scope Z_scope.

Definition nd (m : smap) : Prop := NoDup (map fst m).

Lemma set_keys_in : forall m t v x, In x (map fst (set m t v)) -> x = t \/ In x (map fst m).
Proof.
  induction m as [|[y sc] r IH]; intros t v x H; cbn in *.
  - destruct H as [H|[]]. left. congruence.
  - destruct (sid_eqb y t) eqn:E; cbn in H.
    + right. exact H.
    + destruct H as [H|H]; [right; left; exact H|]. destruct (IH t v x H) as [X|X]; [left; exact X | right; right; exact X].
Qed.

Lemma nd_set : forall m t v, nd m -> nd (set m t v).
Proof.
  unfold nd. induction m as [|[y sc] r IH]; intros t v Hn; cbn.
  - constructor; [tauto | constructor].
  - cbn in Hn. inversion Hn; subst. destruct (sid_eqb y t) eqn:E; cbn.
    + constructor; assumption.
    + constructor; [|apply IH; assumption]. intros X. destruct (set_keys_in r t v y X) as [->|X'].
      * rewrite sid_eqb_refl in E. discriminate.
      * contradiction.
Qed.

Lemma nd_upd : forall m t f, nd m -> nd (upd m t f).
Proof. intros m t f H. unfold upd. destruct (get m t); [apply nd_set, H | exact H]. Qed.

Lemma remove_keys_in : forall m t x, In x (map fst (remove m t)) -> In x (map fst m).
Proof.
  induction m as [|[y sc] r IH]; intros t x H; cbn in *; [exact H|].
  destruct (sid_eqb y t); cbn in H; [right; exact H|]. destruct H as [H|H]; [left; exact H | right; apply (IH t x H)].
Qed.

Lemma nd_remove : forall m t, nd m -> nd (remove m t).
Proof.
  unfold nd. induction m as [|[y sc] r IH]; intros t Hn; cbn; [constructor|].
  cbn in Hn. inversion Hn; subst. destruct (sid_eqb y t); cbn; [assumption|].
  constructor; [|apply IH; assumption]. intros X. apply H1, (remove_keys_in r t y X).
Qed.

Lemma get_in_keys0 : forall m t sc, get m t = Some sc -> In t (map fst m).
Proof.
  induction m as [|[y s] r IH]; intros t sc G; cbn in *; [discriminate|].
  sid_cases y t; [left; reflexivity | right; apply (IH t sc G)].
Qed.

Lemma get_remove_same : forall m t, nd m -> get (remove m t) t = None.
Proof.
  unfold nd. induction m as [|[y sc] r IH]; intros t Hn; cbn; [reflexivity|].
  cbn in Hn. inversion Hn; subst. destruct (sid_eqb y t) eqn:E; cbn.
  - apply sid_eqb_eq in E. subst y. destruct (get r t) as [s0|] eqn:G; [|reflexivity].
    exfalso. apply H1, (get_in_keys0 r t s0 G).
  - rewrite E. apply IH. assumption.
Qed.

Lemma get_remove_neq : forall m s y, y <> s -> get (remove m s) y = get m y.
Proof.
  induction m as [|[x sc] r IH]; intros s y Hne; cbn; [reflexivity|].
  destruct (sid_eqb x s) eqn:E; cbn.
  - apply sid_eqb_eq in E. subst x. apply sid_eqb_neq in Hne. rewrite (proj2 (sid_eqb_neq s y)); [reflexivity|].
    intros X. apply sid_eqb_neq in Hne. congruence.
  - destruct (sid_eqb x y); [reflexivity | apply IH, Hne].
Qed.

Lemma filter_keys_in : forall (f : sid * scope -> bool) m x, In x (map fst (filter f m)) -> In x (map fst m).
Proof.
  intros f m x H. apply in_map_iff in H. destruct H as (e & E & Hi). apply filter_In in Hi.
  apply in_map_iff. exists e. split; [exact E | apply Hi].
Qed.

Lemma nd_filter : forall (f : sid * scope -> bool) m, nd m -> nd (filter f m).
Proof.
  unfold nd. intros f. induction m as [|[y sc] r IH]; intros Hn; cbn; [constructor|].
  cbn in Hn. inversion Hn; subst. destruct (f (y, sc)); cbn; [|apply IH; assumption].
  constructor; [|apply IH; assumption]. intros X. apply H1, (filter_keys_in f r y X).
Qed.

Lemma get_filter : forall (f : sid * scope -> bool) m x, nd m ->
  get (filter f m) x = match get m x with Some sc => if f (x, sc) then Some sc else None | None => None end.
Proof.
  unfold nd. intros f. induction m as [|[y sc] r IH]; intros x Hn; cbn; [reflexivity|].
  cbn in Hn. inversion Hn; subst. destruct (sid_eqb y x) eqn:E.
  - apply sid_eqb_eq in E. subst y. destruct (f (x, sc)) eqn:F; cbn; [rewrite sid_eqb_refl; reflexivity|].
    rewrite IH by assumption. destruct (get r x) as [s0|] eqn:G; [|reflexivity].
    exfalso. apply H1, (get_in_keys0 r x s0 G).
  - destruct (f (y, sc)); cbn; [rewrite E|]; apply IH; assumption.
Qed.

(* ---- the building blocks keep the keys distinct ------------------------------------------- *)
Lemma nd_incref : forall m t, nd m -> nd (incref m t). Proof. intros. apply nd_upd. assumption. Qed.
Lemma nd_decref : forall m t, nd m -> nd (decref m t). Proof. intros. apply nd_upd. assumption. Qed.
Lemma nd_increfs : forall l m, nd m -> nd (increfs m l).
Proof. induction l as [|e r IH]; intros m H; [exact H|]. unfold increfs in *. cbn. apply IH, nd_incref, H. Qed.
Lemma nd_new_scope : forall m t lim e, nd m -> nd (new_scope m t lim e).
Proof. intros. unfold new_scope. apply nd_set, nd_increfs. assumption. Qed.

Lemma nd_charge_one : forall t k m m', charge_one t k m = inl m' -> nd m -> nd m'.
Proof.
  intros t k m m' H Hn. unfold charge_one in H. destruct (get m t) as [sc|]; [|discriminate].
  destruct (s_done sc); [discriminate|]. destruct (rc_reserve k (s_lim sc) (s_use sc)); inversion H. apply nd_set, Hn.
Qed.

Lemma nd_uncharge_one : forall t k m, nd m -> nd (uncharge_one t k m).
Proof. intros t k m H. unfold uncharge_one. destruct (get m t) as [sc|]; [|exact H]. destruct (s_done sc); [exact H | apply nd_set, H]. Qed.

Lemma nd_uncharge_list : forall l k m, nd m -> nd (uncharge_list l k m).
Proof. induction l as [|t r IH]; intros k m H; [exact H|]. unfold uncharge_list in *. cbn. apply IH, nd_uncharge_one, H. Qed.

Lemma nd_charge_list : forall l ch k m, nd m -> nd (fst (charge_list l ch k m)).
Proof.
  induction l as [|t r IH]; intros ch k m H; cbn; [exact H|].
  destruct (charge_one t k m) as [m1|e] eqn:C; [apply IH, (nd_charge_one t k m m1 C H) | cbn; apply nd_uncharge_list, H].
Qed.

Lemma nd_scope_reserve : forall m t k, nd m -> nd (fst (scope_reserve m t k)).
Proof. intros. apply nd_charge_list. assumption. Qed.
Lemma nd_scope_release : forall m t k, nd m -> nd (scope_release m t k).
Proof. intros. apply nd_uncharge_list. assumption. Qed.

Lemma nd_fold_dec : forall l k m, nd m -> nd (fold_left (fun m e => decref (uncharge_one e k m) e) l m).
Proof. induction l as [|e r IH]; intros k m H; [exact H|]. cbn. apply IH, nd_decref, nd_uncharge_one, H. Qed.

Lemma nd_scope_done : forall m t, nd m -> nd (scope_done m t).
Proof.
  intros m t H. unfold scope_done. destruct (get m t) as [sc|]; [|exact H]. destruct (s_done sc); [exact H|].
  apply nd_upd. destruct (s_chain sc); [apply nd_fold_dec, H | apply nd_decref, nd_uncharge_list, H].
Qed.

Lemma nd_get_scope : forall c m t, nd m -> nd (get_scope c m t).
Proof. intros c m t H. unfold get_scope. apply nd_incref. destruct (get m t); [exact H | apply nd_new_scope, H]. Qed.
Lemma nd_get_subscope : forall c m t, nd m -> nd (get_subscope c m t).
Proof. intros c m t H. unfold get_subscope. apply nd_incref. destruct (get m t); [exact H | apply nd_new_scope, H]. Qed.
Lemma nd_view_enter : forall c m t, nd m -> nd (view_enter c m t).
Proof. intros c m t H. unfold view_enter. destruct (is_created_view t); [apply nd_get_scope, H | exact H]. Qed.
Lemma nd_view_leave : forall m t, nd m -> nd (view_leave m t).
Proof. intros m t H. unfold view_leave. destruct (is_created_view t); [apply nd_decref, H | exact H]. Qed.

Lemma nd_transfer : forall m i, nd m -> nd (fst (transfer_allowed m i)).
Proof.
  intros m i H. unfold transfer_allowed.
  set (m2 := upd _ (Conn i) _).
  assert (H2 : nd m2) by (apply nd_upd, nd_fold_dec, H).
  destruct (charge_one System _ m2) as [m3|e] eqn:C1; [|exact H2].
  pose proof (nd_charge_one _ _ _ _ C1 H2) as H3.
  destruct (charge_one Transient _ (incref m3 System)) as [m5|e] eqn:C2; cbn.
  - apply nd_upd, nd_incref, (nd_charge_one _ _ _ _ C2), nd_incref, H3.
  - apply nd_decref, nd_uncharge_one, nd_incref, H3.
Qed.

(* ---- the operations ----------------------------------------------------------------------------- *)
Ltac ndt := repeat first
  [ assumption
  | match goal with H : nd ?a -> nd ?b |- nd ?b => apply H end
  | apply nd_view_enter | apply nd_view_leave | apply nd_get_scope | apply nd_get_subscope | apply nd_scope_done
  | apply nd_scope_release | apply nd_new_scope | apply nd_uncharge_list | apply nd_uncharge_one | apply nd_fold_dec
  | apply nd_increfs | apply nd_incref | apply nd_decref | apply nd_remove | apply nd_filter | apply nd_upd | apply nd_set ].

Ltac nd_pair :=
  match goal with
  | |- context [scope_reserve ?m ?t ?k] =>
      let H := fresh "Hr" in pose proof (nd_scope_reserve m t k) as H; destruct (scope_reserve m t k) as [? ?]; cbn [fst] in H
  | |- context [transfer_allowed ?m ?i] =>
      let H := fresh "Hr" in pose proof (nd_transfer m i) as H; destruct (transfer_allowed m i) as [? ?]; cbn [fst] in H
  end.

Ltac nd_charge :=
  match goal with
  | |- context [charge_one ?t ?k ?m] =>
      let C := fresh "C" in let H := fresh "Hc" in
      destruct (charge_one t k m) as [?|?] eqn:C; [pose proof (nd_charge_one _ _ _ _ C) as H|]
  end.

Lemma nd_conn_done : forall c st i, nd (scopes st) -> nd (scopes (conn_done c st i)).
Proof. intros c st i H. unfold conn_done. destruct (is_done (scopes st) (Conn i)); cbn [scopes]; ndt. Qed.

Lemma nd_open_conn : forall c st i inb usefd ep, nd (scopes st) -> nd (scopes (fst (open_conn c st i inb usefd ep))).
Proof.
  intros c st i inb usefd ep H. unfold open_conn.
  destruct (match ep with Some a => match limiter_add c (lims st) a with Some l => Some l | None => None end
                        | None => Some (lims st) end) as [l|]; [|exact H].
  nd_pair. destruct o as [e1|]; cbn [fst scopes with_scopes]; [|ndt].
  destruct (match ep with Some a => allowed c a | None => false end).
  - cbn [scopes with_scopes]. nd_pair. destruct o as [e4|]; cbn [fst scopes]; [apply nd_conn_done; cbn [scopes]|]; ndt.
  - apply nd_conn_done. cbn [scopes with_scopes]. ndt.
Qed.

Lemma nd_set_peer : forall c st i q, nd (scopes st) -> nd (scopes (fst (set_peer c st i q))).
Proof.
  intros c st i q H. unfold set_peer. destruct (nget (conns st) i) as [ci|]; [|exact H].
  destruct (ci_peer ci); [exact H|].
  destruct (ci_allow ci).
  - destruct (true && negb _).
    + nd_pair. cbv beta iota zeta. destruct o as [e|]; [cbn [fst scopes]; ndt | nd_charge; cbn [fst scopes]; ndt].
    + cbv beta iota zeta. nd_charge; cbn [fst scopes]; ndt.
  - destruct (edges_of (scopes st) (Conn i)).
    + nd_pair. cbv beta iota zeta. destruct o as [e|]; [cbn [fst scopes]; ndt | nd_charge; cbn [fst scopes]; ndt].
    + cbv beta iota zeta. nd_charge; cbn [fst scopes]; ndt.
Qed.

Lemma nd_open_stream : forall c st j q inb, nd (scopes st) -> nd (scopes (fst (open_stream c st j q inb))).
Proof. intros c st j q inb H. unfold open_stream. nd_pair. destruct o; cbn [fst scopes]; ndt. Qed.

Lemma nd_set_proto : forall c st j p, nd (scopes st) -> nd (scopes (fst (set_proto c st j p))).
Proof.
  intros c st j p H. unfold set_proto. destruct (nget (streams st) j) as [si|]; [|exact H].
  destruct (si_proto si); [exact H|]. nd_charge; cbn [fst scopes with_scopes]; [|ndt].
  nd_charge; cbn [fst scopes with_scopes]; ndt.
Qed.

Lemma nd_set_svc : forall c st j s, nd (scopes st) -> nd (scopes (fst (set_svc c st j s))).
Proof.
  intros c st j s H. unfold set_svc. destruct (nget (streams st) j) as [si|]; [|exact H].
  destruct (si_svc si); [exact H|]. destruct (si_proto si); [|exact H].
  nd_charge; cbn [fst scopes with_scopes]; [|ndt].
  nd_charge; cbn [fst scopes with_scopes]; ndt.
Qed.

Lemma nd_reserve_mem : forall c st t sz prio, nd (scopes st) -> nd (scopes (fst (reserve_mem c st t sz prio))).
Proof. intros c st t sz prio H. unfold reserve_mem. nd_pair. cbn [fst scopes with_scopes]. ndt. Qed.

Lemma nd_release_mem : forall c st t sz, nd (scopes st) -> nd (scopes (fst (release_mem c st t sz))).
Proof.
  intros c st t sz H. unfold release_mem. cbn [fst scopes with_scopes].
  destruct (is_done (view_enter c (scopes st) t) t); ndt.
Qed.

Lemma nd_begin_span : forall c st t k, nd (scopes st) -> nd (scopes (fst (begin_span c st t k))).
Proof.
  intros c st t k H. unfold begin_span. destruct (get (view_enter c (scopes st) t) t) as [sc|]; [destruct (s_done sc)|];
    cbn [fst scopes with_scopes]; ndt.
Qed.

Lemma nd_done_op : forall c st t, nd (scopes st) -> nd (scopes (fst (done_op c st t))).
Proof. intros c st t H. unfold done_op. destruct t; cbn [fst scopes with_scopes]; try (apply nd_conn_done); ndt. Qed.

Lemma nd_fold_rm : forall l m, nd m -> nd (fold_left (fun m t => remove (scope_done m t) t) l m).
Proof. induction l as [|t r IH]; intros m H; [exact H|]. cbn. apply IH. ndt. Qed.

Lemma nd_gc : forall st, nd (scopes st) -> nd (scopes (gc st)).
Proof. intros st H. unfold gc. cbn [scopes with_scopes]. apply nd_filter, nd_fold_rm, nd_fold_rm, H. Qed.

Theorem nd_step : forall c st o, nd (scopes st) -> nd (scopes (fst (step c st o))).
Proof.
  intros c st o H. destruct o; cbn [step].
  - apply nd_open_conn, H. - apply nd_set_peer, H. - apply nd_open_stream, H. - apply nd_set_proto, H.
  - apply nd_set_svc, H. - apply nd_reserve_mem, H. - apply nd_release_mem, H. - apply nd_begin_span, H.
  - apply nd_done_op, H. - cbn [fst]. apply nd_gc, H.
Qed.

Lemma nd_init : forall c, nd (scopes (init_state c)).
Proof. intros c. unfold nd. cbn. repeat constructor; cbn; intuition discriminate. Qed.

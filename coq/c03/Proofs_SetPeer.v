(* C03 — SetPeer as a whole: which of the candidate successors of Spec.astep the
   model realises, that the invariant and the link hold for it, and that every
   candidate listed before it disagrees with the observed usage of the system
   scope (so the monitor picks the same one). *)
From Coq Require Import List ZArith Bool Arith Lia.
From Verif Require Import lib.Wire c03.Int64 c03.Model c03.Spec c03.Proofs_Int64 c03.Proofs_Base
     c03.Proofs_Sum c03.Proofs_Reach c03.Proofs_Link c03.Proofs_Targets c03.Proofs_Frames c03.Proofs_Frames2
     c03.Proofs_Frames3 c03.Proofs_Kill c03.Proofs_OpsMem c03.Proofs_Done c03.Proofs_OpsDone c03.Proofs_OpsNew
     c03.Proofs_OpsOpen c03.Proofs_Hist c03.Proofs_Repar c03.Proofs_Repar2 c03.Proofs_Move c03.Proofs_Attach
     c03.Proofs_Attach1 c03.Proofs_Link2 c03.Proofs_Transfer c03.Proofs_OpsRepar.
Import ListNotations.
Local Open Scope Z_scope.

Lemma a_par_repar : forall a a' i h P, holders a' = repar a (Conn i) h P -> a_par a' (Conn i) = P.
Proof. intros a a' i h P H. unfold a_par. rewrite H, hget_repar, sid_eqb_refl. reflexivity. Qed.

Lemma repar_same : forall a s h, hget (holders a) s = Some h -> repar a s h (h_par h) = holders a.
Proof.
  intros a s h G. unfold repar. replace (mkHolder (h_own h) (h_par h) (h_chain h) (h_dead h)) with h by (destruct h; reflexivity).
  apply hset_same, G.
Qed.

(* moving a connection that holds something from "no scope" to system + transient
   changes what the system scope must read *)
Lemma usage_moved_differs : forall c m a aE aS s h,
  Inv c m a -> leaf s = true -> hget (holders a) s = Some h ->
  holders aE = repar a s h [] -> holders aS = repar a s h [System; Transient] ->
  use_of m s <> stat0 -> usage_A aE System <> usage_A aS System.
Proof.
  intros c m a aE aS s h I Hl G HaE HaS Nz. pose proof (I_wf c m a I) as W.
  assert (Hs : is_handle s = true) by (destruct s; try discriminate; reflexivity).
  assert (WE : WfA aE) by (apply (WfA_repar a aE s h [] W Hl G HaE); [constructor | intros p Hp; destruct Hp]).
  set (hE := mkHolder (h_own h) [] (h_chain h) (h_dead h)).
  assert (GE : hget (holders aE) s = Some hE) by (rewrite HaE, hget_repar, sid_eqb_refl; reflexivity).
  assert (HaS' : holders aS = hset (holders aE) s (mkHolder (h_own hE) [System; Transient] (h_chain hE) (h_dead hE))).
  { rewrite HaS, HaE. unfold repar. rewrite hset_hset. reflexivity. }
  assert (Nd : NoDup [System; Transient]) by (repeat constructor; cbn; intuition discriminate).
  assert (St : forall p, In p [System; Transient] -> is_handle p = false) by (intros p [<-|[<-|[]]]; reflexivity).
  (* the connection is open: a closed one holds nothing *)
  destruct (a_dead a s) eqn:D; [exfalso; apply Nz, (dead_use_zero c m a s I Hs D)|].
  assert (DE : a_dead aE s = false) by (rewrite (rp_dead a aE s h [] G HaE); exact D).
  (* what it holds is the same in aE *)
  assert (Us : usage_A aE s = usage_A a s).
  { pose proof (usage_repar a aE s h [] W Hl G HaE s) as E.
    rewrite (reach_self a s W D), (reach_self aE s WE DE) in E. apply (stat_add_cancel_r _ _ _ E). }
  pose proof (usage_repar aE aS s hE [System; Transient] WE Hl GE HaS' System) as E.
  rewrite (rp_reach_s aE aS s hE [System; Transient] WE Hl GE HaS'), DE in E.
  rewrite (areach_root aE s (rp_chain_s aE s hE WE Hl GE)), DE, (a_par_leaf aE s hE Hl GE) in E.
  assert (X : sid_eqb s System = false) by (destruct s; try discriminate; reflexivity).
  cbn [countb h_par hE sid_eqb] in E. rewrite X in E. cbn [Z.add] in E.
  rewrite stat_scale_0, stat_add_0_r, stat_scale_1, Us, <- (I_num c m a I s) in E.
  intros Eq. rewrite Eq in E. apply Nz. revert E. generalize (usage_A aS System) (use_of m s).
  intros [] [] E. unfold stat_add in E. injection E; intros. unfold stat0. f_equal; lia.
Qed.

Lemma astep_setpeer : forall c a i q ac cls, nget (aconns a) i = Some ac -> ac_peer ac = None ->
  astep c a (OSetPeer i q) cls 0 =
  let still := ac_allow ac && ep_allowed_peer c q (ac_ep ac) in
  if cls =? 0 then [ok_state a i q ac still]
  else if ac_allow ac && negb still then [moved_state a i ac []; moved_state a i ac [System; Transient]; a]
  else match a_par a (Conn i) with [] => [a; moved_state a i ac [System; Transient]] | _ => [a] end.
Proof. intros c a i q ac cls H H0. cbn [astep]. rewrite H, H0. reflexivity. Qed.

Lemma moved_fields : forall a i ac h P, hget (holders a) (Conn i) = Some h ->
  holders (moved_state a i ac P) = repar a (Conn i) h P /\
  (forall i', nget (aconns (moved_state a i ac P)) i' =
              if Nat.eqb i i' then Some (mkAconn (ac_ep ac) false None (ac_open ac) (ac_adm ac)) else nget (aconns a) i') /\
  astreams (moved_state a i ac P) = astreams a.
Proof.
  intros a i ac h P G. destruct (set_par_fields a (Conn i) h P G) as (F1 & F2 & F3).
  unfold moved_state. cbn [holders aconns astreams]. split; [exact F1|]. split; [|exact F3].
  intros i'. rewrite F2. apply nget_nset.
Qed.

Definition picked (c : config) (st' : state) (a : astate) (o : op) (l : list astate) : Prop :=
  exists pre a' post, l = pre ++ a' :: post /\ pickT st' o a l = a' /\
    Inv c (scopes st') a' /\ Link st' a' /\
    (forall cand, In cand pre -> usage_A cand System <> usage_A a' System).

Lemma picked_single : forall c st' a o x, Inv c (scopes st') x -> Link st' x -> picked c st' a o [x].
Proof.
  intros c st' a o x Ix Lx. exists [], x, []. split; [reflexivity|]. split; [apply pickT_single|].
  split; [exact Ix|]. split; [exact Lx|]. intros cand [].
Qed.

Theorem set_peer_full : forall c st a i q ac,
  cfg_ok c -> Inv c (scopes st) a -> Link st a -> nget (aconns a) i = Some ac ->
  novf (scopes st) (mem (use_of (scopes st) (Conn i))) ->
  let '(st', cls) := set_peer c st i q in
  picked c st' a (OSetPeer i q) (astep c a (OSetPeer i q) cls 0).
Proof.
  intros c st a i q ac LO I L Ga Ov.
  destruct (proj1 L i ac Ga) as (ci & h & Gci & Gh & Epe & Eal & Eep & Hpar).
  destruct (ac_peer ac) as [q0|] eqn:Ap.
  { unfold set_peer. rewrite Gci, Epe. cbn [astep]. rewrite Ga, Ap. replace (E_OTHER =? 0) with false by reflexivity.
    apply picked_single; assumption. }
  specialize (Hpar eq_refl).
  assert (OvP : mem (use_of (scopes st) (Peer q)) + mem (use_of (scopes st) (Conn i)) <= max_int64) by apply Ov.
  destruct (moved_fields a i ac h [] Gh) as (E1 & E2 & E3).
  destruct (moved_fields a i ac h [System; Transient] Gh) as (S1 & S2 & S3).
  pose proof (set_peer_transfer c st a) as TR.
  destruct (ac_allow ac) eqn:Al.
  - (* admitted through the allow-list *)
    destruct Hpar as [Hp|(X & _)]; [|discriminate]. cbn [conn_par] in Hp.
    destruct (ep_allowed_peer c q (ac_ep ac)) eqn:Aq.
    + pose proof (set_peer_plain c st a i q ac ci h true LO I L Ga Gci Gh Ap Epe Eal Al Eep (or_introl Hp) (fun _ => Aq) OvP) as H.
      destruct (set_peer c st i q) as [st' cls]. rewrite (astep_setpeer c a i q ac cls Ga Ap). cbv zeta. rewrite Al, Aq.
      cbn [andb negb]. destruct (cls =? 0); [apply picked_single; apply H|].
      rewrite (a_par_leaf a (Conn i) h eq_refl Gh), Hp. apply picked_single; apply H.
    + specialize (TR (moved_state a i ac []) (moved_state a i ac [System; Transient]) i q ac ci h
                     (mkAconn (ac_ep ac) false None (ac_open ac) (ac_adm ac)) LO I L Ga Gci Gh Ap Epe).
      specialize (TR ltac:(congruence) Eep (or_introl (conj Al (conj Aq Hp))) Ov E1 S1 E2 S2 E3 S3 eq_refl eq_refl eq_refl).
      destruct (set_peer c st i q) as [st' cls]. rewrite (astep_setpeer c a i q ac cls Ga Ap). cbv zeta. rewrite Al, Aq.
      cbn [andb negb]. destruct (cls =? 0); [apply picked_single; apply TR|].
      destruct TR as [(Ed & IE & LE)|(Ed & IS & LS & Nz)].
      * exists [], (moved_state a i ac []), [moved_state a i ac [System; Transient]; a].
        split; [reflexivity|]. split; [|split; [exact IE | split; [exact LE | intros cand []]]].
        unfold pickT. cbn [find agrees app]. rewrite (a_par_repar a _ i h [] E1), Ed. reflexivity.
      * exists [moved_state a i ac []], (moved_state a i ac [System; Transient]), [a].
        split; [reflexivity|]. split; [|split; [exact IS | split; [exact LS|]]].
        -- unfold pickT. cbn [find agrees app]. rewrite (a_par_repar a _ i h [] E1), (a_par_repar a _ i h _ S1), Ed. reflexivity.
        -- intros cand [<-|[]]. apply (usage_moved_differs c (scopes st) a _ _ (Conn i) h I eq_refl Gh E1 S1 Nz).
  - (* admitted through the standard scopes, or taken off the allow-list earlier *)
    destruct Hpar as [Hp|(_ & [Hp|Hp])]; cbn [conn_par] in Hp.
    + pose proof (set_peer_plain c st a i q ac ci h false LO I L Ga Gci Gh Ap Epe Eal Al Eep (or_introl Hp) ltac:(discriminate) OvP) as H.
      destruct (set_peer c st i q) as [st' cls]. rewrite (astep_setpeer c a i q ac cls Ga Ap). cbv zeta. rewrite Al.
      cbn [andb negb]. destruct (cls =? 0); [apply picked_single; apply H|].
      rewrite (a_par_leaf a (Conn i) h eq_refl Gh), Hp. apply picked_single; apply H.
    + (* no edges: the re-charge path of e9a9a54 *)
      assert (Ha : holders a = repar a (Conn i) h []) by (rewrite <- Hp; symmetry; apply repar_same, Gh).
      assert (Eac : mkAconn (ac_ep ac) false None (ac_open ac) (ac_adm ac) = ac).
      { destruct ac; cbn in *. subst. reflexivity. }
      rewrite Eac in S2.
      specialize (TR a (moved_state a i ac [System; Transient]) i q ac ci h ac LO I L Ga Gci Gh Ap Epe).
      specialize (TR ltac:(congruence) Eep (or_intror (conj Al Hp)) Ov Ha S1 (fun i' => nget_self _ _ i ac i' Ga) S2 eq_refl S3 Ap Al eq_refl).
      destruct (set_peer c st i q) as [st' cls]. rewrite (astep_setpeer c a i q ac cls Ga Ap). cbv zeta. rewrite Al.
      cbn [andb negb]. destruct (cls =? 0); [apply picked_single; apply TR|].
      rewrite (a_par_leaf a (Conn i) h eq_refl Gh), Hp.
      destruct TR as [(Ed & IE & LE)|(Ed & IS & LS & Nz)].
      * exists [], a, [moved_state a i ac [System; Transient]].
        split; [reflexivity|]. split; [|split; [exact IE | split; [exact LE | intros cand []]]].
        unfold pickT. cbn [find agrees app]. rewrite (a_par_leaf a (Conn i) h eq_refl Gh), Hp, Ed. reflexivity.
      * exists [a], (moved_state a i ac [System; Transient]), [].
        split; [reflexivity|]. split; [|split; [exact IS | split; [exact LS|]]].
        -- unfold pickT. cbn [find agrees app]. rewrite (a_par_leaf a (Conn i) h eq_refl Gh), Hp, (a_par_repar a _ i h _ S1), Ed. reflexivity.
        -- intros cand [<-|[]]. apply (usage_moved_differs c (scopes st) a _ _ (Conn i) h I eq_refl Gh Ha S1 Nz).
    + pose proof (set_peer_plain c st a i q ac ci h false LO I L Ga Gci Gh Ap Epe Eal Al Eep (or_intror (conj eq_refl Hp)) ltac:(discriminate) OvP) as H.
      destruct (set_peer c st i q) as [st' cls]. rewrite (astep_setpeer c a i q ac cls Ga Ap). cbv zeta. rewrite Al.
      cbn [andb negb]. destruct (cls =? 0); [apply picked_single; apply H|].
      rewrite (a_par_leaf a (Conn i) h eq_refl Gh), Hp. apply picked_single; apply H.
Qed.

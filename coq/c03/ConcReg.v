(* C03 — the registry of per-peer sub-scopes on top of the concurrent LTS of Conc.v.
   No proofs in this file.

   protocolScope.getPeerScope / serviceScope.getPeerScope look the sub-scope of a peer up in
   s.peers and, when there is none, create and store one - all under s.Lock(): ONE atomic
   step.  [RAttach key outer drop rest] is SetProtocol / SetService of an idle stream: the
   sub-scope of [key] = (protocol | service, peer) is looked up or created ([lookup_or_create],
   a fresh scope id from the allocation counter), then the stream's whole stat is charged to
   [outer] (the protocol / service scope) and to the sub-scope, one single-lock section each
   with rollback (Conc.OMove), [drop] is released and the new edge list is sub :: rest.
   (In the code the lookup comes after the charge to [outer]; it touches no counter, so the
   order is immaterial for the usage.)  Every other operation is Conc.gstep unchanged. *)
From Coq Require Import List ZArith Bool Arith.
From Verif Require Import lib.Wire c03.Int64 c03.Model c03.Spec c03.Conc.
Import ListNotations.
Local Open Scope Z_scope.

Record rstate := mkRS { r_cs : cstate; r_reg : list (nat * nat); r_next : nat }.

Fixpoint rfind (k : nat) (reg : list (nat * nat)) : option nat :=
  match reg with
  | [] => None
  | (k', id) :: r => if Nat.eqb k' k then Some id else rfind k r
  end.

Definition lookup_or_create (reg : list (nat * nat)) (next : nat) (key : nat) : list (nat * nat) * nat * nat :=
  match rfind key reg with
  | Some id => (reg, next, id)
  | None => ((key, next) :: reg, S next, next)
  end.

Inductive rop :=
| RPlain (o : cop)
| RAttach (key outer : nat) (drop rest : list nat).

(* the Conc operation an [rop] stands for, and the registry after its atomic lookup-or-create *)
Definition rop_cop (reg : list (nat * nat)) (next : nat) (ro : rop) : list (nat * nat) * nat * cop :=
  match ro with
  | RPlain o => (reg, next, o)
  | RAttach key outer drop rest =>
      let '(reg', next', id) := lookup_or_create reg next key in
      (reg', next', OMove [outer; id] drop (id :: rest))
  end.

Definition is_idle (st : cstate) (i : nat) : bool :=
  match nth_error (c_hs st) i with Some h => idle h | None => false end.

Definition rstep (lim : nat -> limit) (st : rstate) (io : nat * rop) : option rstate :=
  (* the lookup-or-create happens when the operation begins (holder idle); a step of a holder
     in the middle of an operation ignores the operation named by the schedule *)
  let '(reg', next', o) :=
    if is_idle (r_cs st) (fst io) then rop_cop (r_reg st) (r_next st) (snd io)
    else (r_reg st, r_next st, ODone) in
  match gstep lim (r_cs st) (fst io, o) with
  | Some cs => Some (mkRS cs reg' next')
  | None => None
  end.

Fixpoint rrun (lim : nat -> limit) (st : rstate) (sched : list (nat * rop)) : option rstate :=
  match sched with
  | [] => Some st
  | io :: r => match rstep lim st io with Some st' => rrun lim st' r | None => None end
  end.

Definition init_rs (hs : list cholder) (first_sub : nat) : rstate := mkRS (init_cs hs) [] first_sub.

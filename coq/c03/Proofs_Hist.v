(* C03 — the invariant along arbitrary histories (operations without
   re-parenting and gc in this file), and the property clauses as corollaries. *)
From Coq Require Import List ZArith Bool Arith Lia.
From Verif Require Import lib.Wire c03.Int64 c03.Model c03.Spec c03.Proofs_Int64 c03.Proofs_Base
     c03.Proofs_Sum c03.Proofs_Reach c03.Proofs_Link c03.Proofs_Targets c03.Proofs_Frames c03.Proofs_Frames2
     c03.Proofs_Frames3 c03.Proofs_Kill c03.Proofs_OpsMem c03.Proofs_Done c03.Proofs_OpsDone c03.Proofs_OpsNew
     c03.Proofs_OpsOpen.
Import ListNotations.
Local Open Scope Z_scope.

(* the abstract successor the monitor computes from the model's own answer *)
Definition anext (c : config) (st : state) (a : astate) (o : op) : astate :=
  let '(st', cls) := step c st o in
  hd a (astep c a o cls (o_aflag (model_obs st st' o cls))).

(* what callers must respect (the Prop form of Spec.caller_ok / no_overflow,
   read on the model's own state), for the operations of this file *)
Definition wf_op (st : state) (a : astate) (o : op) : Prop :=
  match o with
  | OReserve t sz prio => 0 <= prio <= 255 /\ sz <= max_int64 /\ view_target t = true /\ has_holder a t = true /\
                          novf (scopes st) (Z.max sz 0)
  | ORelease t sz => 0 <= sz /\ view_target t = true /\ has_holder a t = true /\
                     (a_dead a t = true \/ sz <= mem (own_of a t))
  | OBeginSpan t k => view_target t = true /\ has_holder a t = true /\ hget (holders a) (Span k) = None
  | ODone t => is_handle t = true /\ hget (holders a) t <> None
  | OOpenConn i _ _ _ => hget (holders a) (Conn i) = None
  | OOpenStream j _ _ => hget (holders a) (Stream j) = None
  | _ => False
  end.

Lemma init_inv : forall c, cfg_ok c -> Inv c (init_scopes c) astate0.
Proof.
  intros c LO.
  assert (G : forall t, get (init_scopes c) t =
     match t with
     | System => Some (mkScope (lim_system c) stat0 false 2 [] [])
     | Transient => Some (mkScope (lim_transient c) stat0 false 1 [] [System])
     | ASystem => Some (mkScope (lim_asystem c) stat0 false 2 [] [])
     | ATransient => Some (mkScope (lim_atransient c) stat0 false 1 [] [ASystem])
     | _ => None end).
  { intros t. destruct t; reflexivity. }
  assert (Gd : forall l d r ch ed, lim_ok l -> good (mkScope l stat0 d r ch ed)).
  { intros l d r ch ed H. split; [exact H|]. cbn. destruct H as (H1 & H2 & H3 & H4 & H5 & H6 & H7 & H8).
    split; [stat_crush | unfold fits; cbn; repeat split; lia]. }
  constructor.
  - constructor; cbn; try (intros; discriminate). constructor.
  - intros t sc H. rewrite G in H. destruct t; try discriminate; inversion H; subst; apply Gd;
      [apply (LO System) | apply (LO Transient) | apply (LO ASystem) | apply (LO ATransient)].
  - intros t sc H Hh. rewrite G in H. destruct t; try discriminate; inversion H; subst; cbn; repeat split; reflexivity.
  - rewrite !G. repeat split; discriminate.
  - intros t h H. discriminate.
  - intros t h H. discriminate.
  - intros t sc H Hh. rewrite G in H. destruct t; discriminate.
  - intros t. unfold use_of. rewrite G. destruct t; reflexivity.
Qed.

Lemma zbool_b2z : forall b, zbool (b2z b) = b.
Proof. intros []; reflexivity. Qed.

Theorem step_inv : forall c st a o,
  cfg_ok c -> Inv c (scopes st) a -> wf_op st a o ->
  Inv c (scopes (fst (step c st o))) (anext c st a o).
Proof.
  intros c st a o LO I Wf. unfold anext. destruct o; cbn [step wf_op] in *; try contradiction.
  - (* OpenConnection *)
    pose proof (open_conn_inv c st a i inb usefd ep LO I Wf) as H.
    destruct (open_conn c st i inb usefd ep) as [st' cls]. cbn [fst]. cbv zeta in H. destruct H as [P H].
    unfold model_obs. cbn [o_aflag astep].
    destruct (cls =? 0) eqn:C; [|exact H]. apply Z.eqb_eq in C.
    set (al := match nget (conns st') i with Some ci => ci_allow ci | None => false end) in *.
    assert (Eal : zbool (match nget (conns st') i with Some ci => b2z (ci_allow ci) | None => 0 end) = al).
    { unfold al. destruct (nget (conns st') i); [apply zbool_b2z | reflexivity]. }
    rewrite Eal. destruct al eqn:Al.
    + rewrite (P C eq_refl). cbn [negb andb hd conn_par] in *. exact H.
    + cbn [andb hd conn_par] in *. exact H.
  - (* OpenStream *)
    pose proof (open_stream_inv c st a j q inb LO I Wf) as H.
    destruct (open_stream c st j q inb) as [st' cls]. cbn [fst astep].
    destruct (cls =? 0); exact H.
  - (* ReserveMemory *)
    destruct Wf as (Hp & Hsz & V & Hh & Ov).
    pose proof (reserve_inv c st a t sz prio LO I Hp Hsz V Hh Ov) as H.
    destruct (reserve_mem c st t sz prio) as [st' cls]. cbn [fst astep].
    destruct (cls =? 0); exact H.
  - (* ReleaseMemory *)
    destruct Wf as (Hsz & V & Hh & Hc).
    pose proof (release_inv c st a t sz LO I Hsz V Hh Hc) as H.
    destruct (release_mem c st t sz) as [st' cls]. cbn [fst astep]. destruct H as [_ H].
    destruct (a_dead a t); exact H.
  - (* BeginSpan *)
    destruct Wf as (V & Hh & Hf).
    pose proof (begin_span_inv c st a t k LO I V Hh Hf) as H.
    destruct (begin_span c st t k) as [st' cls]. cbn [fst astep].
    destruct (cls =? 0); exact H.
  - (* Done *)
    destruct Wf as (Ht & Hh). destruct (hget (holders a) t) as [h|] eqn:G; [|contradiction].
    pose proof (scope_done_inv c (scopes st) a t h I Ht G) as H.
    assert (Es : scopes (fst (done_op c st t)) = scope_done (scopes st) t).
    { unfold done_op. destruct t; try reflexivity. cbn [fst]. apply conn_done_scopes. }
    rewrite Es. destruct (done_op c st t) as [st' cls]. cbn [astep].
    destruct t; try exact H.
    destruct (nget (aconns (kill a (Conn i))) i); cbn [hd]; [|exact H].
    apply (Inv_holders c _ (kill a (Conn i))); [reflexivity | exact H].
Qed.

(* ---- histories ------------------------------------------------------------------------------ *)
Fixpoint run_a (c : config) (st : state) (a : astate) (ops : list op) : astate :=
  match ops with
  | [] => a
  | o :: r => run_a c (fst (step c st o)) (anext c st a o) r
  end.

Fixpoint wf_hist (c : config) (st : state) (a : astate) (ops : list op) : Prop :=
  match ops with
  | [] => True
  | o :: r => wf_op st a o /\ wf_hist c (fst (step c st o)) (anext c st a o) r
  end.

Theorem history_inv_from : forall c ops st a,
  cfg_ok c -> Inv c (scopes st) a -> wf_hist c st a ops ->
  Inv c (scopes (run c st ops)) (run_a c st a ops).
Proof.
  intros c ops. induction ops as [|o r IH]; intros st a LO I Wf; [exact I|].
  cbn [run run_a]. destruct Wf as [W1 W2]. apply IH; [exact LO | apply step_inv; assumption | exact W2].
Qed.

Theorem history_inv : forall c ops,
  cfg_ok c -> wf_hist c (init_state c) astate0 ops ->
  Inv c (scopes (run c (init_state c) ops)) (run_a c (init_state c) astate0 ops).
Proof. intros c ops LO Wf. apply history_inv_from; [exact LO | apply init_inv, LO | exact Wf]. Qed.

(* usage == sum over the holders charged to the scope, for every scope *)
Corollary usage_is_sum_l : forall c ops t,
  cfg_ok c -> wf_hist c (init_state c) astate0 ops ->
  use_of (scopes (run c (init_state c) ops)) t = usage_A (run_a c (init_state c) astate0 ops) t.
Proof. intros c ops t LO Wf. apply (I_num _ _ _ (history_inv c ops LO Wf)). Qed.

(* never negative, never above the limit; the limit is the configured one *)
Corollary within_limits_l : forall c ops t sc,
  cfg_ok c -> wf_hist c (init_state c) astate0 ops ->
  get (scopes (run c (init_state c) ops)) t = Some sc ->
  nonneg (s_use sc) /\ fits (s_lim sc) (s_use sc) /\
  (is_handle t = false -> s_lim sc = limit_of c t).
Proof.
  intros c ops t sc LO Wf G. pose proof (history_inv c ops LO Wf) as I.
  destruct (I_good _ _ _ I t sc G) as (_ & N & F). split; [exact N|]. split; [exact F|].
  intros Hh. apply (I_static _ _ _ I t sc G Hh).
Qed.

(* a refused operation changes no counter of any scope *)
Corollary refusal_is_noop_l : forall c st a o t,
  cfg_ok c -> Inv c (scopes st) a -> wf_op st a o ->
  snd (step c st o) <> 0 ->
  match o with ORelease _ _ | ODone _ => False | _ => True end ->
  use_of (scopes (fst (step c st o))) t = use_of (scopes st) t.
Proof.
  intros c st a o t LO I Wf Hc Ho. pose proof (step_inv c st a o LO I Wf) as I'.
  rewrite (I_num _ _ _ I' t), (I_num _ _ _ I t). f_equal. unfold anext.
  destruct (step c st o) as [st' cls]. cbn [snd] in Hc.
  assert (C : (cls =? 0) = false) by (apply Z.eqb_neq, Hc).
  destruct o; cbn [astep wf_op] in *; try contradiction; rewrite C; reflexivity.
Qed.

(* when nothing is held any more, every scope reads zero *)
Lemma sumc_zero : forall R H x, (forall y h, In (y, h) H -> h_own h = stat0) -> sumc R H x = stat0.
Proof.
  induction H as [|[y h] r IH]; intros x Z; [apply sumc_nil|]. rewrite sumc_cons, (Z y h (or_introl eq_refl)).
  rewrite stat_scale_stat0, stat_add_0_l. apply IH. intros z hz Hz. apply (Z z hz). right. exact Hz.
Qed.

Corollary release_all_zero_l : forall c ops t,
  cfg_ok c -> wf_hist c (init_state c) astate0 ops ->
  (forall y h, In (y, h) (holders (run_a c (init_state c) astate0 ops)) -> h_dead h = true \/ h_own h = stat0) ->
  use_of (scopes (run c (init_state c) ops)) t = stat0.
Proof.
  intros c ops t LO Wf Z. pose proof (history_inv c ops LO Wf) as I.
  rewrite (I_num _ _ _ I t), usage_A_sumc. apply sumc_zero. intros y h Hi.
  destruct (Z y h Hi) as [D|E]; [|exact E].
  apply (W_own _ (I_wf _ _ _ I) y h); [|exact D].
  apply in_hget_k; [apply (W_keys _ (I_wf _ _ _ I)) | exact Hi].
Qed.

(* C03 — the property as a decidable predicate over observed traces, the
   abstract "holders" specification it is stated against, and the wire format
   of the correspondence.  No proofs in this file.

   ABSTRACT SPEC (A).  A holder is something a caller holds: an open
   connection, an open stream, a span, or the direct reservations made on a
   scope reached through View*.  Each holder has the vector [h_own] of what
   was reserved on it directly and not released, and the scopes it is charged
   to ([areach]): itself, for a span the owners above it as long as they are
   open, and the parent scopes of the connection / stream / view scope at the
   top.  [usage_A a t] is the sum of h_own over the holders charged to t.
   The abstract step [astep] only looks at the operation and at the error
   class the implementation answered; GC is the identity.

   MONITOR.  After every operation: every scope's observed Stat() equals
   usage_A (this contains "refusal changes nothing" and "everything reads zero
   when nothing is held" since a refusal leaves A unchanged), no counter is
   negative or above the configured limit, a successful ReserveMemory(_,prio)
   leaves every charged scope at or below limit*(1+prio)/256, a refusal that
   claims the resource-limit sentinel is justified by a scope that would
   exceed, a refused re-parenting leaves the connection charged to one of the
   consistent parent sets, and the open connections counted under one subnet
   rule never exceed its cap.

   WIRE FORMAT (one case per line, integers; -1 encodes MaxInt64 in limits):
     3 flags                     flags bit0: the case may contain caller errors
                                 (release of more than reserved); such a case is
                                 compared with the model but not judged
     11 limits, 8 ints each      system transient asystem atransient svc svcpeer proto
                                 protopeer peer conn stream ; mem s sin sout c cin cout fd
     nover (kind id 8 ints)*     kind 4 svc 5 proto 6 peer 7 svcpeer(svc) 8 protopeer(proto)
     nallow (v6 w1 w2 w3 w4 len peer)*      peer -1 = none ; v4 address in w1
     nsub4 (len cap)*  nsub6 (len cap)*
     npre4 (v6 w1 w2 w3 w4 len cap)*  npre6 (...)*
     then operations, each  <op> <class> <aflag> <nd> <nd entries of 11 ints>
       op:  1 i inb fd hasip v6 w1 w2 w3 w4 | 2 i q | 3 j q inb | 4 j p | 5 j s
          | 6 K a b sz prio | 7 K a b sz | 8 K a b k | 9 K a b | 10
       scope K a b: 0 system 1 transient 2 asystem 3 atransient 4 svc s 5 proto p 6 peer q
                    7 svcpeer s q 8 protopeer p q 9 conn i 10 stream j 11 span k
       class: 0 ok 1 resource-limit sentinel 2 scope-closed sentinel 3 other 4 per-IP cap
       aflag: after a successful OpenConnection, 1 = the connection was admitted
              through the allow-listed scopes
       entry: K a b mem sin sout cin cout fd refcnt done   -- every scope whose
              Stat()/refcnt/done differs from what was last reported
              (done: 0 open, 1 done, 2 no longer in the manager's maps) *)
From Coq Require Import List ZArith Bool Arith.
From Verif Require Import lib.Wire c03.Int64 c03.Model.
Import ListNotations.
Local Open Scope Z_scope.

(* ---- vectors ---------------------------------------------------------------- *)
Definition stat_add (a b : stat) : stat :=
  mkStat (mem a + mem b) (sin a + sin b) (sout a + sout b) (cin a + cin b) (cout a + cout b) (fd a + fd b).
Definition stat_sub (a b : stat) : stat :=
  mkStat (mem a - mem b) (sin a - sin b) (sout a - sout b) (cin a - cin b) (cout a - cout b) (fd a - fd b).
Definition stat_eqb (a b : stat) : bool :=
  (mem a =? mem b) && (sin a =? sin b) && (sout a =? sout b) &&
  (cin a =? cin b) && (cout a =? cout b) && (fd a =? fd b).
Definition stat_nonneg (a : stat) : bool :=
  (0 <=? mem a) && (0 <=? sin a) && (0 <=? sout a) && (0 <=? cin a) && (0 <=? cout a) && (0 <=? fd a).
Definition within (l : limit) (u : stat) : bool :=
  (mem u <=? l_mem l) && (sin u <=? l_sin l) && (sout u <=? l_sout l) && (sin u + sout u <=? l_s l) &&
  (cin u <=? l_cin l) && (cout u <=? l_cout l) && (cin u + cout u <=? l_c l) && (fd u <=? l_fd l).

Definition conn_vec (inb usefd : bool) : stat := mkStat 0 0 0 (b2z inb) (b2z (negb inb)) (b2z usefd).
Definition stream_vec (inb : bool) : stat := mkStat 0 (b2z inb) (b2z (negb inb)) 0 0 0.
Definition mem_vec (sz : Z) : stat := mkStat sz 0 0 0 0 0.

(* ---- abstract state ----------------------------------------------------------- *)
Record holder := mkHolder {
  h_own : stat;
  h_par : list sid;      (* connection / stream: current parent scopes *)
  h_chain : list sid;    (* span: owner, owner's owner, ... *)
  h_dead : bool }.

(* ac_adm: admitted through the allow-listed scopes when it was opened (never changes; attribution only) *)
Record aconn := mkAconn { ac_ep : option ipaddr; ac_allow : bool; ac_peer : option nat; ac_open : bool; ac_adm : bool }.
Record astream := mkAstream { as_peer : nat; as_proto : option nat; as_svc : option nat }.

Record astate := mkAstate {
  holders : list (sid * holder);
  aconns : list (nat * aconn);
  astreams : list (nat * astream) }.

Definition astate0 : astate := mkAstate [] [] [].

Fixpoint hget (l : list (sid * holder)) (t : sid) : option holder :=
  match l with [] => None | (x, h) :: r => if sid_eqb x t then Some h else hget r t end.
Fixpoint hset (l : list (sid * holder)) (t : sid) (v : holder) : list (sid * holder) :=
  match l with
  | [] => [(t, v)]
  | (x, h) :: r => if sid_eqb x t then (x, v) :: r else (x, h) :: hset r t v
  end.

(* parents of the scopes that exist independently of any caller *)
Definition static_par (t : sid) : list sid :=
  match t with
  | Transient | Svc _ | Proto _ | Peer _ => [System]
  | ATransient => [ASystem]
  | _ => []
  end.

Definition a_dead (a : astate) (t : sid) : bool :=
  match hget (holders a) t with Some h => h_dead h | None => false end.
Definition a_par (a : astate) (t : sid) : list sid :=
  match t with
  | Conn _ | Stream _ => match hget (holders a) t with Some h => h_par h | None => [] end
  | _ => static_par t
  end.
Definition a_chain (a : astate) (t : sid) : list sid :=
  match hget (holders a) t with Some h => h_chain h | None => [] end.

(* owners above a span, while they are open; above the topmost owner its parents *)
Fixpoint awalk (a : astate) (l : list sid) : list sid :=
  match l with
  | [] => []
  | o :: r => if a_dead a o then []
              else o :: match r with [] => a_par a o | _ => awalk a r end
  end.

(* the scopes holder t is charged to *)
Definition areach (a : astate) (t : sid) : list sid :=
  if a_dead a t then []
  else match a_chain a t with
       | [] => t :: a_par a t
       | ch => t :: awalk a ch
       end.

Fixpoint countb (t : sid) (l : list sid) : Z :=
  match l with [] => 0 | x :: r => (if sid_eqb x t then 1 else 0) + countb t r end.

Definition stat_scale (n : Z) (s : stat) : stat :=
  mkStat (n * mem s) (n * sin s) (n * sout s) (n * cin s) (n * cout s) (n * fd s).

Definition usage_A (a : astate) (t : sid) : stat :=
  fold_right (fun e acc => stat_add (stat_scale (countb t (areach a (fst e))) (h_own (snd e))) acc)
             stat0 (holders a).

Definition own_of (a : astate) (t : sid) : stat :=
  match hget (holders a) t with Some h => if h_dead h then stat0 else h_own h | None => stat0 end.

Definition add_own (a : astate) (t : sid) (d : stat) : astate :=
  let h := match hget (holders a) t with
           | Some h => h
           | None => mkHolder stat0 [] [] false
           end in
  mkAstate (hset (holders a) t (mkHolder (stat_add (h_own h) d) (h_par h) (h_chain h) (h_dead h)))
           (aconns a) (astreams a).

Definition set_par (a : astate) (t : sid) (p : list sid) : astate :=
  match hget (holders a) t with
  | Some h => mkAstate (hset (holders a) t (mkHolder (h_own h) p (h_chain h) (h_dead h))) (aconns a) (astreams a)
  | None => a
  end.

Definition kill (a : astate) (t : sid) : astate :=
  match hget (holders a) t with
  | Some h => mkAstate (hset (holders a) t (mkHolder stat0 (h_par h) (h_chain h) true)) (aconns a) (astreams a)
  | None => a
  end.

Definition ep_allowed (c : config) (ep : option ipaddr) : bool :=
  match ep with Some ip => allowed c ip | None => false end.
Definition ep_allowed_peer (c : config) (q : nat) (ep : option ipaddr) : bool :=
  match ep with Some ip => allowed_peer c q ip | None => false end.

(* the abstract step.  Returns the candidate successor states (more than one
   only for a refused SetPeer of an allow-listed connection), or [] when the
   observed answer is not a legal answer to this operation at all. *)
Definition astep (c : config) (a : astate) (o : op) (cls aflag : Z) : list astate :=
  let ok := cls =? 0 in
  match o with
  | OOpenConn i inb usefd ep =>
      if ok then
        let al := zbool aflag in
        if al && negb (ep_allowed c ep) then []
        else
          let par := if al then [ATransient; ASystem] else [Transient; System] in
          [mkAstate (hset (holders a) (Conn i) (mkHolder (conn_vec inb usefd) par [] false))
                    (nset (aconns a) i (mkAconn ep al None true al)) (astreams a)]
      else [a]
  | OSetPeer i q =>
      match nget (aconns a) i with
      | None => []
      | Some ac =>
          match ac_peer ac with
          | Some _ => if ok then [] else [a]
          | None =>
              let still := ac_allow ac && ep_allowed_peer c q (ac_ep ac) in
              if ok then
                let a1 := set_par a (Conn i) [Peer q; if still then ASystem else System] in
                [mkAstate (holders a1) (nset (aconns a1) i (mkAconn (ac_ep ac) still (Some q) (ac_open ac) (ac_adm ac))) (astreams a1)]
              else
                let moved p := let a1 := set_par a (Conn i) p in
                               mkAstate (holders a1) (nset (aconns a1) i (mkAconn (ac_ep ac) false None (ac_open ac) (ac_adm ac))) (astreams a1) in
                if ac_allow ac && negb still then
                  (* refused while being moved from the allow-listed to the standard
                     scopes (isAllowlisted is cleared first): released from the
                     allow-listed pair and refused by system/transient - the documented
                     intermediate state "charged to no scope", which the next SetPeer
                     repairs -, or fully moved and refused by the peer scope, or (an
                     atomic transfer) still where it was *)
                  [moved []; moved [System; Transient]; a]
                else
                  (* a connection that an earlier refused transfer left charged to no
                     scope is charged to system + transient again before the peer
                     scope is asked (fix e9a9a54): refused by them, or by the peer *)
                  match a_par a (Conn i) with
                  | [] => [a; moved [System; Transient]]
                  | _ => [a]
                  end
          end
      end
  | OOpenStream j q inb =>
      if ok then
        [mkAstate (hset (holders a) (Stream j) (mkHolder (stream_vec inb) [Peer q; Transient; System] [] false))
                  (aconns a) (nset (astreams a) j (mkAstream q None None))]
      else [a]
  | OSetProto j p =>
      match nget (astreams a) j with
      | None => []
      | Some s =>
          match as_proto s with
          | Some _ => if ok then [] else [a]
          | None =>
              if ok then
                let a1 := set_par a (Stream j) [Peer (as_peer s); ProtoPeer p (as_peer s); Proto p; System] in
                [mkAstate (holders a1) (aconns a1) (nset (astreams a1) j (mkAstream (as_peer s) (Some p) (as_svc s)))]
              else [a]
          end
      end
  | OSetSvc j sv =>
      match nget (astreams a) j with
      | None => []
      | Some s =>
          match as_svc s, as_proto s with
          | Some _, _ => if ok then [] else [a]
          | None, None => if ok then [] else [a]
          | None, Some p =>
              if ok then
                let q := as_peer s in
                let a1 := set_par a (Stream j) [Peer q; ProtoPeer p q; SvcPeer sv q; Proto p; Svc sv; System] in
                [mkAstate (holders a1) (aconns a1) (nset (astreams a1) j (mkAstream q (Some p) (Some sv)))]
              else [a]
          end
      end
  | OReserve t sz prio => if ok then [add_own a t (mem_vec sz)] else [a]
  | ORelease t sz => if a_dead a t then [a] else [add_own a t (mem_vec (- sz))]
  | OBeginSpan t k =>
      if ok then
        [mkAstate (hset (holders a) (Span k) (mkHolder stat0 [] (t :: a_chain a t) false)) (aconns a) (astreams a)]
      else [a]
  | ODone t =>
      let a1 := kill a t in
      match t with
      | Conn i =>
          match nget (aconns a1) i with
          | Some ac => [mkAstate (holders a1) (nset (aconns a1) i (mkAconn (ac_ep ac) (ac_allow ac) (ac_peer ac) false (ac_adm ac))) (astreams a1)]
          | None => [a1]
          end
      | _ => [a1]
      end
  | OGC => [a]
  end.

(* ---- what callers may do (hypotheses of the theorems, checked on every case) --- *)
(* releases at most what was reserved directly on that scope; sizes and
   priorities in range; the total of outstanding memory stays below 2^63 *)
Definition has_holder (a : astate) (t : sid) : bool :=
  match t with
  | Conn _ | Stream _ | Span _ => match hget (holders a) t with Some _ => true | None => false end
  | _ => true
  end.
Definition fresh (a : astate) (t : sid) : bool :=
  match hget (holders a) t with Some _ => false | None => true end.

(* releases at most what was reserved directly on that scope; priorities in
   range; only handles that were obtained are used, new handles get new ids *)
Definition caller_ok (a : astate) (o : op) : bool :=
  match o with
  | OReserve t sz prio => (0 <=? prio) && (prio <=? 255) && (sz <? two63) && has_holder a t
  | ORelease t sz => (0 <=? sz) && has_holder a t && (a_dead a t || (sz <=? mem (own_of a t)))
  | OBeginSpan t k => has_holder a t && fresh a (Span k)
  | ODone t => has_holder a t
  | OOpenConn i _ _ _ => fresh a (Conn i)
  | OOpenStream j _ _ => fresh a (Stream j)
  | OSetPeer i _ => match nget (aconns a) i with Some _ => true | None => false end
  | OSetProto j _ | OSetSvc j _ => match nget (astreams a) j with Some _ => true | None => false end
  | OGC => true
  end.

(* ---- observations ----------------------------------------------------------------- *)
Record entry := mkEntry { e_sid : sid; e_stat : stat; e_ref : Z; e_done : Z }.
Record obs := mkObs { o_cls : Z; o_aflag : Z; o_delta : list entry }.

Definition omap := list (sid * entry).
Fixpoint oget (m : omap) (t : sid) : option entry :=
  match m with [] => None | (x, e) :: r => if sid_eqb x t then Some e else oget r t end.
Fixpoint oset (m : omap) (t : sid) (v : entry) : omap :=
  match m with [] => [(t, v)] | (x, e) :: r => if sid_eqb x t then (x, v) :: r else (x, e) :: oset r t v end.
Definition apply_delta (m : omap) (d : list entry) : omap :=
  fold_left (fun m e => oset m (e_sid e) e) d m.
Definition ostat (m : omap) (t : sid) : stat :=
  match oget m t with Some e => e_stat e | None => stat0 end.

(* memory an operation adds to scopes that already hold some: no scope's
   memory may leave the int64 range (hypothesis of the theorems; with a
   MaxInt64 limit the code does not check: DESIGN 9 item 13) *)
Definition bump (m : omap) (o : op) : Z :=
  match o with
  | OReserve _ sz _ => Z.max sz 0
  | OSetPeer i _ => mem (ostat m (Conn i))
  | OSetProto j _ | OSetSvc j _ => mem (ostat m (Stream j))
  | _ => 0
  end.
Definition no_overflow (m : omap) (o : op) : bool :=
  forallb (fun e => mem (e_stat (snd e)) + bump m o <? two63) m.

(* ---- limits as the property sees them ------------------------------------------------ *)
(* a span is limited like the scope at the top of its owner chain *)
Definition a_limit (c : config) (a : astate) (t : sid) : limit :=
  match t with
  | Span _ => limit_of c (last (a_chain a t) t)
  | _ => limit_of c t
  end.

Definition prio_threshold (l : limit) (prio : Z) : Z := (l_mem l * (1 + prio)) / 256.

(* ---- per-subnet caps ------------------------------------------------------------------ *)
Fixpoint first_match (pl : list (prefix * Z)) (ip : ipaddr) (i : Z) : option (Z * Z) :=
  match pl with
  | [] => None
  | (p, cap) :: r => if contains p ip then Some (i, cap) else first_match r ip (i + 1)
  end.

Definition pre_of (c : config) (ip : ipaddr) := first_match (built_prefixes c (ip_v6 ip)) ip 0.

(* open connections with an IP endpoint; [only_std]: leave out those admitted
   through the allow-listed scopes (used for attribution only) *)
Definition open_ips (a : astate) (only_std : bool) : list ipaddr :=
  flat_map (fun e => match ac_ep (snd e) with
                     | Some ip => if ac_open (snd e) && negb (only_std && ac_adm (snd e)) then [ip] else []
                     | None => [] end) (aconns a).

Definition zcount {A} (f : A -> bool) (l : list A) : Z := Z.of_nat (length (filter f l)).

(* is the rule that governs [ip] respected by the list of open endpoints? *)
Definition cap_ok (c : config) (ips : list ipaddr) (ip : ipaddr) : bool :=
  match pre_of c ip with
  | Some (i, cap) =>
      zcount (fun x => Bool.eqb (ip_v6 x) (ip_v6 ip) &&
                       match pre_of c x with Some (j, _) => j =? i | None => false end) ips <=? cap
  | None =>
      forallb (fun rule =>
                 match prefix_key ip (fst rule) with
                 | None => true
                 | Some k =>
                     zcount (fun x => Bool.eqb (ip_v6 x) (ip_v6 ip) &&
                                      match pre_of c x with Some _ => false | None => true end &&
                                      match prefix_key x (fst rule) with Some k' => k' =? k | None => false end) ips
                     <=? snd rule
                 end)
              (if ip_v6 ip then sub6 c else sub4 c)
  end.

(* ---- the monitor ------------------------------------------------------------------------ *)
Definition universe (a : astate) (m : omap) : list sid :=
  map fst m ++ flat_map (fun e => areach a (fst e)) (holders a).

Definition zsid (t : sid) : list Z :=
  match t with
  | System => [0; 0; 0] | Transient => [1; 0; 0] | ASystem => [2; 0; 0] | ATransient => [3; 0; 0]
  | Svc s => [4; natz s; 0] | Proto p => [5; natz p; 0] | Peer q => [6; natz q; 0]
  | SvcPeer s q => [7; natz s; natz q] | ProtoPeer p q => [8; natz p; natz q]
  | Conn i => [9; natz i; 0] | Stream j => [10; natz j; 0] | Span k => [11; natz k; 0]
  end.
Definition zstat (s : stat) : list Z := [mem s; sin s; sout s; cin s; cout s; fd s].

(* first scope whose observed Stat() is not the sum of its holders *)
Fixpoint usage_mismatch (a : astate) (m : omap) (l : list sid) : option sid :=
  match l with
  | [] => None
  | t :: r => if stat_eqb (ostat m t) (usage_A a t) then usage_mismatch a m r else Some t
  end.

Definition CL_USAGE : Z := 1.
Definition CL_NEG : Z := 2.
Definition CL_LIMIT : Z := 3.
Definition CL_PRIO : Z := 4.
Definition CL_ANSWER : Z := 5.
Definition CL_CAP : Z := 6.
Definition CL_UNJUST : Z := 7.

Fixpoint first_some {A B} (f : A -> option B) (l : list A) : option B :=
  match l with [] => None | x :: r => match f x with Some y => Some y | None => first_some f r end end.

(* would scope t refuse the vector d at priority prio, judged from its observed
   usage before the operation and its configured limit? *)
Definition would_exceed (c : config) (a : astate) (m : omap) (t : sid) (d : stat) (prio : Z) (memop : bool) : bool :=
  let l := a_limit c a t in
  let u := ostat m t in
  (memop && negb (l_mem l =? max_int64) && (mem u + mem d >? prio_threshold l prio)) ||
  ((0 <? sin d) && (sin u + sin d >? l_sin l)) || ((0 <? sout d) && (sout u + sout d >? l_sout l)) ||
  (sin u + sin d + sout u + sout d >? l_s l) ||
  ((0 <? cin d) && (cin u + cin d >? l_cin l)) || ((0 <? cout d) && (cout u + cout d >? l_cout l)) ||
  (cin u + cin d + cout u + cout d >? l_c l) ||
  ((0 <? fd d) && (fd u + fd d >? l_fd l)).

(* scopes that constrain operation o, with the vector asked of them; used to
   judge a refusal that claims the resource-limit sentinel *)
Definition constrainers (c : config) (a : astate) (m : omap) (o : op) : list (list sid * stat * Z * bool) :=
  match o with
  | OOpenConn i inb usefd ep =>
      (* refused only if the standard chain refuses and, for an allow-listed
         endpoint, the allow-listed chain refuses as well *)
      [([Conn i; Transient; System], conn_vec inb usefd, 255, false)] ++
      (if ep_allowed c ep then [([Conn i; ATransient; ASystem], conn_vec inb usefd, 255, false)] else [])
  | OOpenStream j q inb => [([Stream j; Peer q; Transient; System], stream_vec inb, 255, false)]
  | OReserve t sz prio => [(areach a t, mem_vec sz, prio, true)]
  | OSetPeer i q =>
      match nget (aconns a) i with
      | Some ac =>
          if (ac_allow ac && negb (ep_allowed_peer c q (ac_ep ac))) ||
             (match a_par a (Conn i) with [] => true | _ => false end)
          then [([System; Transient; Peer q], ostat m (Conn i), 255, true)]
          else [([Peer q], ostat m (Conn i), 255, true)]
      | None => []
      end
  | OSetProto j p =>
      match nget (astreams a) j with
      | Some s => [([Proto p; ProtoPeer p (as_peer s)], ostat m (Stream j), 255, true)]
      | None => []
      end
  | OSetSvc j sv =>
      match nget (astreams a) j with
      | Some s => [([Svc sv; SvcPeer sv (as_peer s)], ostat m (Stream j), 255, true)]
      | None => []
      end
  | _ => []
  end.

(* a limit refusal is justified when in every alternative chain some scope
   would exceed.  The new conn/stream scope itself starts from zero. *)
Definition refusal_justified (c : config) (a : astate) (m : omap) (o : op) : bool :=
  forallb (fun alt => let '(l, d, prio, memop) := alt in
                      existsb (fun t => would_exceed c a m t d prio memop) l)
          (constrainers c a m o).

(* "fails with an error wrapping the resource-limit sentinel": an operation is
   refused ONLY with the sentinel (class 1, judged by refusal_justified), except
   where the caller or the history explains another error:
   class 2 (scope closed)  ReserveMemory / BeginSpan on a scope that was closed, or a
                           span below a closed owner;
   class 3 (plain error)   a second SetPeer / SetProtocol / SetService, SetService
                           before SetProtocol, a negative size;
   class 4 (per-IP cap)    OpenConnection from an endpoint with an IP address whose governing
                           prefix / one of whose subnets is at its cap (cap_reached).
   Anything else - a closed-scope or plain error from OpenConnection, OpenStream or a
   first SetPeer / SetProtocol / SetService, a limit refusal that does not carry
   the sentinel - is a violation. *)
(* the per-subnet limiter may refuse an endpoint only when the rule that governs it is
   at its cap, counting the connections that are open according to the history *)
Definition cap_reached (c : config) (ips : list ipaddr) (ip : ipaddr) : bool :=
  match pre_of c ip with
  | Some (i, cap) =>
      zcount (fun x => Bool.eqb (ip_v6 x) (ip_v6 ip) &&
                       match pre_of c x with Some (j, _) => j =? i | None => false end) ips + 1 >? cap
  | None =>
      existsb (fun rule =>
                 match prefix_key ip (fst rule) with
                 | None => true
                 | Some k =>
                     zcount (fun x => Bool.eqb (ip_v6 x) (ip_v6 ip) &&
                                      match pre_of c x with Some _ => false | None => true end &&
                                      match prefix_key x (fst rule) with Some k' => k' =? k | None => false end) ips + 1
                     >? snd rule
                 end)
              (if ip_v6 ip then sub6 c else sub4 c)
  end.

Definition closed_owner (a : astate) (t : sid) : bool := a_dead a t || existsb (a_dead a) (a_chain a t).

Definition other_refusal_ok (c : config) (a : astate) (o : op) (cls : Z) : bool :=
  match o with
  | OOpenConn _ _ _ ep => (cls =? 4) && match ep with Some ip => cap_reached c (open_ips a false) ip | None => false end
  | OSetPeer i _ =>
      (cls =? 3) && match nget (aconns a) i with
                    | Some ac => match ac_peer ac with Some _ => true | None => false end
                    | None => false end
  | OSetProto j _ =>
      (cls =? 3) && match nget (astreams a) j with
                    | Some s => match as_proto s with Some _ => true | None => false end
                    | None => false end
  | OSetSvc j _ =>
      (cls =? 3) && match nget (astreams a) j with
                    | Some s => match as_svc s, as_proto s with
                                | Some _, _ => true
                                | None, None => true
                                | None, Some _ => false
                                end
                    | None => false end
  | OReserve t sz _ => ((cls =? 2) && closed_owner a t) || ((cls =? 3) && (sz <? 0))
  | OBeginSpan t _ => (cls =? 2) && a_dead a t
  | _ => false
  end.

Definition answer_ok (c : config) (a : astate) (o : op) (cls : Z) : bool :=
  (cls =? 0) || (cls =? 1) || other_refusal_ok c a o cls.

(* which of the three checks beyond the core (answer legality, sums, signs,
   limits) are switched on: the priority threshold after a successful
   ReserveMemory, the justification of resource-limit refusals, the per-subnet cap *)
Record checks := mkChecks { ck_prio : bool; ck_just : bool; ck_cap : bool }.
Definition ck_core : checks := mkChecks false false false.
Definition ck_all : checks := mkChecks true true true.

(* a successful ReserveMemory(_, prio) leaves every charged scope at or below limit*(1+prio)/256 *)
Definition prio_check (ck : checks) (c : config) (a : astate) (m : omap) (o : op) (cls : Z) : option sid :=
  if ck_prio ck then
    match o with
    | OReserve t sz prio =>
        if cls =? 0 then
          first_some (fun x => if (l_mem (a_limit c a x) =? max_int64) ||
                                  (mem (ostat m x) <=? prio_threshold (a_limit c a x) prio)
                               then None else Some x) (areach a t)
        else None
    | _ => None
    end
  else None.

(* the open connections counted under the rule that governs a newly admitted one stay within its cap *)
Definition cap_check (ck : checks) (c : config) (a : astate) (o : op) (cls : Z) : list Z :=
  if ck_cap ck then
    match o with
    | OOpenConn i _ _ (Some ip) =>
        if (cls =? 0) && negb (cap_ok c (open_ips a false) ip)
        then [CL_CAP; if cap_ok c (open_ips a true) ip then 1 else 0] ++ zsid (Conn i)
        else []
    | _ => []
    end
  else [].

(* checks on the state after one operation; [a] is the abstract state after it,
   [m] the observed stats after it.  Result: [] or clause :: scope ++ details *)
Definition check_after (ck : checks) (c : config) (a : astate) (m : omap) (o : op) (cls : Z) : list Z :=
  let U := universe a m in
  match usage_mismatch a m U with
  | Some t => [CL_USAGE] ++ zsid t ++ zstat (usage_A a t) ++ zstat (ostat m t)
  | None =>
      match first_some (fun t => if stat_nonneg (ostat m t) then None else Some t) U with
      | Some t => [CL_NEG] ++ zsid t ++ zstat (ostat m t)
      | None =>
          match first_some (fun t => if within (a_limit c a t) (ostat m t) then None else Some t) U with
          | Some t => [CL_LIMIT] ++ zsid t ++ zstat (ostat m t)
          | None =>
              match prio_check ck c a m o cls with
              | Some t => [CL_PRIO] ++ zsid t ++ zstat (ostat m t)
              | None => cap_check ck c a o cls
              end
          end
      end
  end.

(* attribution of a usage mismatch at a GC step: which View reservations sit on
   peer / protocol scopes that nothing else holds open, and read zero now *)
Definition gc_dropped (a : astate) (m : omap) : list sid :=
  flat_map (fun e =>
    let t := fst e in
    match t with
    | Peer _ | Proto _ =>
        if negb (h_dead (snd e)) && (0 <? mem (h_own (snd e))) &&
           stat_eqb (ostat m t) stat0 &&
           forallb (fun e2 => sid_eqb (fst e2) t || (countb t (areach a (fst e2)) =? 0)) (holders a)
        then [t] else []
    | _ => []
    end) (holders a).

Definition drop_holders (a : astate) (l : list sid) : astate :=
  fold_left kill l a.

(* one monitored step: Some (a', m') or a diagnostic *)
Definition mon_step_gen (ck : checks) (c : config) (a : astate) (m : omap) (o : op) (x : obs)
  : (astate * omap) + list Z :=
  let m' := apply_delta m (o_delta x) in
  let cls := o_cls x in
  match astep c a o cls (o_aflag x) with
  | [] => inr [CL_ANSWER; cls]
  | a1 :: rest =>
      (* first candidate whose sums match the observation; the first one is the
         reference for the diagnostic *)
      let pick := first_some (fun cand => match usage_mismatch cand m' (universe cand m') with
                                          | None => Some cand | Some _ => None end) (a1 :: rest) in
      let a' := match pick with Some cand => cand | None => a1 end in
      match check_after ck c a' m' o cls with
      | [] =>
          if ck_just ck && negb (answer_ok c a o cls) then inr [CL_ANSWER; cls; 1]
          else if ck_just ck && (cls =? 1) && negb (refusal_justified c a m o)
          then inr [CL_UNJUST; cls]
          else inl (a', m')
      | d =>
          (* attribution (does not influence the verdict) *)
          let site :=
            match o, d with
            | OGC, 1 :: _ =>
                let dropped := gc_dropped a' m' in
                match dropped with
                | [] => 0
                | _ => let a2 := drop_holders a' dropped in
                       match usage_mismatch a2 m' (universe a2 m') with None => 2 | Some _ => 0 end
                end
            | OSetPeer i _, 1 :: _ =>
                (* accepted SetPeer of a connection that an earlier refused
                   allow-list transfer left charged to no scope *)
                match nget (aconns a) i with
                | Some ac => if (cls =? 0) && ac_adm ac && negb (ac_allow ac) && negb (a_dead a (Conn i)) &&
                                match a_par a (Conn i) with [] => true | _ => false end
                             then 3 else 0
                | None => 0
                end
            | _, _ => 0
            end in
          inr (d ++ [-1; site])
      end
  end.

Definition mon_step := mon_step_gen ck_all.

(* [ck_core]: sums, signs, limits only; [ck_all] adds the priority
   threshold, the justification of limit refusals and the per-subnet cap *)
Fixpoint mon_run_gen (ck : checks) (c : config) (a : astate) (m : omap) (i : Z) (tr : list (op * obs)) : list Z :=
  match tr with
  | [] => []
  | (o, x) :: r =>
      match mon_step_gen ck c a m o x with
      | inl (a', m') => mon_run_gen ck c a' m' (i + 1) r
      | inr d => ERR_PROPERTY :: i :: d
      end
  end.
Definition mon_run := mon_run_gen ck_all.

(* the caller hypotheses along a trace: index of the first operation that
   breaks them *)
Fixpoint callers_run (c : config) (a : astate) (m : omap) (i : Z) (tr : list (op * obs)) : option Z :=
  match tr with
  | [] => None
  | (o, x) :: r =>
      if caller_ok a o && no_overflow m o then
        match mon_step_gen ck_core c a m o x with
        | inl (a', m') => callers_run c a' m' (i + 1) r
        | inr _ => None
        end
      else Some i
  end.

Definition holds (c : config) (tr : list (op * obs)) : bool :=
  match mon_run c astate0 [] 0 tr with [] => true | _ => false end.

(* ---- the model's own trace (what the theorems talk about) ------------------------------ *)
Definition entry_of (m : smap) (t : sid) : entry :=
  match get m t with
  | Some sc => mkEntry t (s_use sc) (s_ref sc) (if s_done sc then 1 else 0)
  | None => mkEntry t stat0 0 2
  end.

(* the model reports every scope it knows after every step (a full dump is a
   legal delta) *)
Definition model_obs (st st' : state) (o : op) (cls : Z) : obs :=
  let aflag := match o with
               | OOpenConn i _ _ _ =>
                   if cls =? 0 then match nget (conns st') i with Some ci => b2z (ci_allow ci) | None => 0 end
                   else 0
               | _ => 0 end in
  let gone := filter (fun t => match get (scopes st') t with None => true | Some _ => false end)
                     (map fst (scopes st)) in
  mkObs cls aflag (map (fun e => entry_of (scopes st') (fst e)) (scopes st') ++
                   map (fun t => mkEntry t stat0 0 2) gone).

Fixpoint model_trace (c : config) (st : state) (ops : list op) : list (op * obs) :=
  match ops with
  | [] => []
  | o :: r => let '(st', cls) := step c st o in (o, model_obs st st' o cls) :: model_trace c st' r
  end.

(* ---- conformance: replay on the model, compare everything observed ---------------------- *)
Definition live_flag (d : Z) : bool := d =? 0.

Definition entry_agrees (me oe : entry) : bool :=
  stat_eqb (e_stat me) (e_stat oe) &&
  Bool.eqb (live_flag (e_done me)) (live_flag (e_done oe)) &&
  (negb (live_flag (e_done me)) || (e_ref me =? e_ref oe)).

Definition conf_mismatch (st : state) (m : omap) : option sid :=
  first_some (fun t =>
    let me := entry_of (scopes st) t in
    let oe := match oget m t with Some e => e | None => mkEntry t stat0 0 2 end in
    if entry_agrees me oe then None else Some t)
    (map fst m ++ map fst (scopes st)).

Fixpoint conform_run (c : config) (st : state) (m : omap) (i : Z) (tr : list (op * obs)) : list Z :=
  match tr with
  | [] => []
  | (o, x) :: r =>
      let '(st', cls) := step c st o in
      let m' := apply_delta m (o_delta x) in
      let af := o_aflag (model_obs st st' o cls) in
      if negb (cls =? o_cls x) then [ERR_MISMATCH; i; 1; cls; o_cls x]
      else if negb (af =? o_aflag x) then [ERR_MISMATCH; i; 2; af; o_aflag x]
      else match conf_mismatch st' m' with
           | Some t =>
               let me := entry_of (scopes st') t in
               let oe := match oget m' t with Some e => e | None => mkEntry t stat0 0 2 end in
               [ERR_MISMATCH; i; 3] ++ zsid t ++ zstat (e_stat me) ++ [e_ref me; e_done me]
                                  ++ zstat (e_stat oe) ++ [e_ref oe; e_done oe]
           | None => conform_run c st' m' (i + 1) r
           end
  end.

(* ---- decoding -------------------------------------------------------------------------------- *)
Definition unz (z : Z) : Z := if z =? -1 then max_int64 else z.

Definition dec_limit (l : list Z) : option (limit * list Z) :=
  match l with
  | a :: b :: c :: d :: e :: f :: g :: h :: r =>
      Some (mkLimit (unz a) (unz b) (unz c) (unz d) (unz e) (unz f) (unz g) (unz h), r)
  | _ => None
  end.

Definition two32 : Z := 4294967296.
Definition ipval (v6 : bool) (w1 w2 w3 w4 : Z) : Z :=
  if v6 then ((w1 * two32 + w2) * two32 + w3) * two32 + w4 else w1.

Definition dec_sid (k a b : Z) : option sid :=
  if (a <? 0) || (b <? 0) then None else
  match k with
  | 0 => Some System | 1 => Some Transient | 2 => Some ASystem | 3 => Some ATransient
  | 4 => Some (Svc (znat a)) | 5 => Some (Proto (znat a)) | 6 => Some (Peer (znat a))
  | 7 => Some (SvcPeer (znat a) (znat b)) | 8 => Some (ProtoPeer (znat a) (znat b))
  | 9 => Some (Conn (znat a)) | 10 => Some (Stream (znat a)) | 11 => Some (Span (znat a))
  | _ => None
  end.

(* generic: decode n items *)
Fixpoint dec_n {A} (n : nat) (f : list Z -> option (A * list Z)) (l : list Z) : option (list A * list Z) :=
  match n with
  | O => Some ([], l)
  | S n' => match f l with
            | Some (x, r) => match dec_n n' f r with Some (xs, r') => Some (x :: xs, r') | None => None end
            | None => None
            end
  end.

Definition dec_counted {A} (f : list Z -> option (A * list Z)) (l : list Z) : option (list A * list Z) :=
  match l with
  | n :: r => if (n <? 0) || (n >? zlen r) then None else dec_n (znat n) f r
  | [] => None
  end.

Definition dec_over (l : list Z) : option ((Z * nat * limit) * list Z) :=
  match l with
  | k :: i :: r => match dec_limit r with Some (lim, r') => Some ((k, znat i, lim), r') | None => None end
  | _ => None
  end.

Definition dec_prefix (l : list Z) : option (prefix * list Z) :=
  match l with
  | v6 :: w1 :: w2 :: w3 :: w4 :: len :: r => Some (mkPrefix (zbool v6) (ipval (zbool v6) w1 w2 w3 w4) len, r)
  | _ => None
  end.

Definition dec_allow (l : list Z) : option ((prefix * option nat) * list Z) :=
  match dec_prefix l with
  | Some (p, q :: r) => Some ((p, if q <? 0 then None else Some (znat q)), r)
  | _ => None
  end.

Definition dec_pair (l : list Z) : option ((Z * Z) * list Z) :=
  match l with a :: b :: r => Some ((a, b), r) | _ => None end.

Definition dec_prelim (l : list Z) : option ((prefix * Z) * list Z) :=
  match dec_prefix l with
  | Some (p, cap :: r) => Some ((p, unz cap), r)
  | _ => None
  end.

Definition dec_config (l : list Z) : option (config * list Z) :=
  match dec_n 11 dec_limit l with
  | Some ([l1; l2; l3; l4; l5; l6; l7; l8; l9; l10; l11], r) =>
      match dec_counted dec_over r with
      | Some (ov, r1) =>
        match dec_counted dec_allow r1 with
        | Some (al, r2) =>
          match dec_counted dec_pair r2 with
          | Some (s4, r3) =>
            match dec_counted dec_pair r3 with
            | Some (s6, r4) =>
              match dec_counted dec_prelim r4 with
              | Some (p4, r5) =>
                match dec_counted dec_prelim r5 with
                | Some (p6, r6) =>
                    Some (mkConfig l1 l2 l3 l4 l5 l6 l7 l8 l9 l10 l11 ov al
                                   (map (fun x => (fst x, unz (snd x))) s4)
                                   (map (fun x => (fst x, unz (snd x))) s6) p4 p6, r6)
                | None => None end
              | None => None end
            | None => None end
          | None => None end
        | None => None end
      | None => None end
  | _ => None
  end.

Definition dec_entry (l : list Z) : option (entry * list Z) :=
  match l with
  | k :: a :: b :: m :: si :: so :: ci :: co :: f :: rf :: dn :: r =>
      match dec_sid k a b with
      | Some t => Some (mkEntry t (mkStat m si so ci co f) rf dn, r)
      | None => None
      end
  | _ => None
  end.

Definition view_target (t : sid) : bool :=
  match t with
  | System | Transient | Svc _ | Proto _ | Peer _ | Conn _ | Stream _ | Span _ => true
  | _ => false
  end.
Definition handle_target (t : sid) : bool :=
  match t with Conn _ | Stream _ | Span _ => true | _ => false end.

Definition dec_op (l : list Z) : option (op * list Z) :=
  match l with
  | 1 :: i :: inb :: f :: hasip :: v6 :: w1 :: w2 :: w3 :: w4 :: r =>
      if i <? 0 then None else
      Some (OOpenConn (znat i) (zbool inb) (zbool f)
              (if zbool hasip then Some (mkIp (zbool v6) (ipval (zbool v6) w1 w2 w3 w4)) else None), r)
  | 2 :: i :: q :: r => if (i <? 0) || (q <? 0) then None else Some (OSetPeer (znat i) (znat q), r)
  | 3 :: j :: q :: inb :: r => if (j <? 0) || (q <? 0) then None else Some (OOpenStream (znat j) (znat q) (zbool inb), r)
  | 4 :: j :: p :: r => if (j <? 0) || (p <? 0) then None else Some (OSetProto (znat j) (znat p), r)
  | 5 :: j :: s :: r => if (j <? 0) || (s <? 0) then None else Some (OSetSvc (znat j) (znat s), r)
  | 6 :: k :: a :: b :: sz :: prio :: r =>
      match dec_sid k a b with
      | Some t => if view_target t then Some (OReserve t sz prio, r) else None
      | None => None end
  | 7 :: k :: a :: b :: sz :: r =>
      match dec_sid k a b with
      | Some t => if view_target t then Some (ORelease t sz, r) else None
      | None => None end
  | 8 :: k :: a :: b :: sp :: r =>
      match dec_sid k a b with
      | Some t => if view_target t && (0 <=? sp) then Some (OBeginSpan t (znat sp), r) else None
      | None => None end
  | 9 :: k :: a :: b :: r =>
      match dec_sid k a b with
      | Some t => if handle_target t then Some (ODone t, r) else None
      | None => None end
  | 10 :: r => Some (OGC, r)
  | _ => None
  end.

Definition dec_step (l : list Z) : option ((op * obs) * list Z) :=
  match dec_op l with
  | Some (o, cls :: af :: r) =>
      match dec_counted dec_entry r with
      | Some (d, r') => Some ((o, mkObs cls af d), r')
      | None => None
      end
  | _ => None
  end.

Fixpoint dec_trace (fuel : nat) (l : list Z) : option (list (op * obs)) :=
  match l with
  | [] => Some []
  | _ =>
      match fuel with
      | O => None
      | S f => match dec_step l with
               | Some (x, r) => match dec_trace f r with Some t => Some (x :: t) | None => None end
               | None => None
               end
      end
  end.

Definition dec_case (l : list Z) : option (Z * config * list (op * obs)) :=
  match l with
  | 3 :: flags :: r =>
      match dec_config r with
      | Some (c, r') => match dec_trace (length r') r' with
                        | Some tr => Some (flags, c, tr)
                        | None => None end
      | None => None
      end
  | _ => None
  end.

(* configurations the theorems cover (and the harness generates): limits are
   non-negative, subnet prefix lengths in range *)
Definition limit_wf (l : limit) : bool :=
  (0 <=? l_mem l) && (0 <=? l_s l) && (0 <=? l_sin l) && (0 <=? l_sout l) &&
  (0 <=? l_c l) && (0 <=? l_cin l) && (0 <=? l_cout l) && (0 <=? l_fd l) && (l_mem l <=? max_int64).

Definition config_wf (c : config) : bool :=
  forallb limit_wf [lim_system c; lim_transient c; lim_asystem c; lim_atransient c; lim_svc c; lim_svcpeer c;
                    lim_proto c; lim_protopeer c; lim_peer c; lim_conn c; lim_stream c] &&
  forallb (fun e => limit_wf (snd e)) (lim_over c).

(* case kind 4 (concurrent run, testing only): totals at quiescence
     4 want(6) got(6) sampled-limit-violations system-after-drain(4) transient-after-drain(4) *)
Definition quiescent_case (l : list Z) : list Z :=
  match l with
  | 4 :: r =>
      let want := ztake 6 r in
      let got := ztake 6 (zdrop 6 r) in
      let rest := zdrop 12 r in
      if negb (zlen r =? 21) then [ERR_MALFORMED; 4]
      else if negb (zlist_eqb want got) then [ERR_PROPERTY; 0; CL_USAGE] ++ want ++ got
      else if negb (forallb (fun z => z =? 0) rest) then [ERR_PROPERTY; 1; CL_LIMIT] ++ rest
      else []
  | _ => [ERR_MALFORMED; 4]
  end.

Definition conform_case_seq (l : list Z) : list Z :=
  match l with 4 :: _ => [] | _ =>
  match dec_case l with
  | Some (_, c, tr) => conform_run c (init_state c) [] 0 tr
  | None => [ERR_MALFORMED; 0]
  end end.

Definition monitor_case_seq (l : list Z) : list Z :=
  match l with 4 :: _ => quiescent_case l | _ =>
  match dec_case l with
  | Some (flags, c, tr) =>
      if negb (config_wf c) then [ERR_MALFORMED; 1]
      else match callers_run c astate0 [] 0 tr with
           | Some i => if Z.testbit flags 0 then mon_run c astate0 [] 0 (firstn (Z.to_nat i) tr)
                       else [ERR_MALFORMED; 2; i]
           | None => mon_run c astate0 [] 0 tr
           end
  | None => [ERR_MALFORMED; 0]
  end end.

(* C03 — the registry layer of ConcReg.v: every run is a run of Conc.v (so the c03c theorems
   hold of it), a key is bound to ONE sub-scope for ever, different keys to different ones. *)
From Coq Require Import List ZArith Bool Arith Lia.
From Verif Require Import lib.Wire c03.Int64 c03.Model c03.Spec c03.Proofs_Base c03.Conc c03.Proofs_Conc c03.ConcReg.
Import ListNotations.
Local Open Scope Z_scope.

Definition reg_ok (reg : list (nat * nat)) (next : nat) : Prop :=
  (forall k id, rfind k reg = Some id -> (id < next)%nat) /\
  (forall k1 k2 id, rfind k1 reg = Some id -> rfind k2 reg = Some id -> k1 = k2).

Lemma loc_spec : forall reg next key reg' next' id,
  reg_ok reg next -> lookup_or_create reg next key = (reg', next', id) ->
  reg_ok reg' next' /\ rfind key reg' = Some id /\ (next <= next')%nat /\
  (forall k x, rfind k reg = Some x -> rfind k reg' = Some x).
Proof.
  intros reg next key reg' next' id [Hlt Hinj] H. unfold lookup_or_create in H.
  destruct (rfind key reg) as [x|] eqn:E; injection H as H1 H2 H3; subst reg' next' id.
  - split; [split; assumption|]. split; [exact E|]. split; [lia | auto].
  - split; [split|].
    + intros k x Hk. cbn [rfind] in Hk. destruct (Nat.eqb key k); [injection Hk as Hx; lia|].
      specialize (Hlt k x Hk). lia.
    + intros k1 k2 x H1 H2. cbn [rfind] in H1, H2.
      destruct (Nat.eqb key k1) eqn:E1; destruct (Nat.eqb key k2) eqn:E2.
      * apply Nat.eqb_eq in E1. apply Nat.eqb_eq in E2. congruence.
      * injection H1 as Hx. subst x. specialize (Hlt k2 next H2). lia.
      * injection H2 as Hx. subst x. specialize (Hlt k1 next H1). lia.
      * eapply Hinj; eassumption.
    + split; [cbn [rfind]; rewrite Nat.eqb_refl; reflexivity|]. split; [lia|].
      intros k x Hk. cbn [rfind]. destruct (Nat.eqb key k) eqn:Ek; [|exact Hk].
      apply Nat.eqb_eq in Ek. subst. rewrite E in Hk. discriminate.
Qed.

Lemma rstep_spec : forall lim st io st', reg_ok (r_reg st) (r_next st) -> rstep lim st io = Some st' ->
  reg_ok (r_reg st') (r_next st') /\
  (forall k x, rfind k (r_reg st) = Some x -> rfind k (r_reg st') = Some x) /\
  (exists o, gstep lim (r_cs st) (fst io, o) = Some (r_cs st')) /\
  (forall key outer drop rest, snd io = RAttach key outer drop rest -> is_idle (r_cs st) (fst io) = true ->
     exists id, rfind key (r_reg st') = Some id /\
                gstep lim (r_cs st) (fst io, OMove [outer; id] drop (id :: rest)) = Some (r_cs st')).
Proof.
  intros lim [cs reg next] [i ro] st' Hok H. unfold rstep in H. cbn [r_cs r_reg r_next fst snd] in *.
  destruct (is_idle cs i) eqn:Ei.
  - destruct ro as [o|key outer drop rest]; cbn [rop_cop] in H.
    + destruct (gstep lim cs (i, o)) as [cs'|] eqn:Eg; [|discriminate]. inversion H; subst; clear H.
      cbn [r_cs r_reg r_next]. split; [exact Hok|]. split; [auto|]. split; [exists o; exact Eg|].
      intros ? ? ? ? Hc. discriminate.
    + destruct (lookup_or_create reg next key) as [[reg' next'] id] eqn:El.
      destruct (gstep lim cs (i, OMove [outer; id] drop (id :: rest))) as [cs'|] eqn:Eg; [|discriminate].
      inversion H; subst; clear H. cbn [r_cs r_reg r_next].
      destruct (loc_spec _ _ _ _ _ _ Hok El) as (H1 & H2 & _ & H4).
      split; [exact H1|]. split; [exact H4|]. split; [eexists; exact Eg|].
      intros key0 outer0 drop0 rest0 Hc _. inversion Hc; subst. exists id. split; [exact H2 | exact Eg].
  - destruct (gstep lim cs (i, ODone)) as [cs'|] eqn:Eg; [|discriminate]. inversion H; subst; clear H.
    cbn [r_cs r_reg r_next]. split; [exact Hok|]. split; [auto|]. split; [exists ODone; exact Eg|].
    intros ? ? ? ? _ Hc. discriminate.
Qed.

(* every run with the registry is a run of the LTS of Conc.v; bindings are permanent *)
Lemma rrun_spec : forall lim sched st st', reg_ok (r_reg st) (r_next st) -> rrun lim st sched = Some st' ->
  reg_ok (r_reg st') (r_next st') /\
  (forall k x, rfind k (r_reg st) = Some x -> rfind k (r_reg st') = Some x) /\
  exists sched', run lim (r_cs st) sched' = Some (r_cs st').
Proof.
  intros lim. induction sched as [|io r IH]; intros st st' Hok H; cbn [rrun] in H.
  - inversion H; subst. split; [exact Hok|]. split; [auto|]. exists []. reflexivity.
  - destruct (rstep lim st io) as [st1|] eqn:Es; [|discriminate].
    destruct (rstep_spec lim st io st1 Hok Es) as (H1 & H2 & [o Ho] & _).
    destruct (IH st1 st' H1 H) as (H3 & H4 & [s' Hs']).
    split; [exact H3|]. split; [intros k x Hk; apply H4; apply H2; exact Hk|].
    exists ((fst io, o) :: s'). cbn [run]. rewrite Ho. exact Hs'.
Qed.

Lemma reg_ok_init : forall n, reg_ok [] n.
Proof. intros n. split; [intros k id H; discriminate | intros k1 k2 id H; discriminate]. Qed.

(* consequences for reachable states of the registry LTS *)
Lemma reg_reach : forall lim hs first sched st,
  (forall s, lim_ok (lim s)) -> forallb fresh hs = true ->
  rrun lim (init_rs hs first) sched = Some st ->
  (* the usage invariant of Conc.v *)
  cinv lim (r_cs st) /\
  (* one sub-scope per key, distinct keys have distinct sub-scopes *)
  (forall k1 k2 id, rfind k1 (r_reg st) = Some id -> rfind k2 (r_reg st) = Some id -> k1 = k2).
Proof.
  intros lim hs first sched st Hlim Hf Hr.
  destruct (rrun_spec lim sched (init_rs hs first) st (reg_ok_init first) Hr) as ((_ & Hinj) & _ & [s' Hs']).
  split; [|exact Hinj]. unfold init_rs in Hs'. cbn [r_cs] in Hs'.
  exact (conc_reach_inv lim hs s' (r_cs st) Hlim Hf Hs').
Qed.

(* at quiescence the registered sub-scope of every key reports exactly the sum over the holders
   charged to it, within its limit *)
Lemma reg_quiet : forall lim hs first sched st key id,
  (forall s, lim_ok (lim s)) -> forallb fresh hs = true ->
  rrun lim (init_rs hs first) sched = Some st -> quiescent (r_cs st) = true ->
  rfind key (r_reg st) = Some id ->
  c_use (r_cs st) id = quiet_usage (holders_of (r_cs st)) id /\
  nonneg (c_use (r_cs st) id) /\ fits (lim id) (c_use (r_cs st) id).
Proof.
  intros lim hs first sched st key id Hlim Hf Hr Hq _.
  destruct (reg_reach lim hs first sched st Hlim Hf Hr) as ((_ & Hsum & Huse) & _).
  split; [rewrite Hsum; apply quiet_sum; exact Hq | apply Huse].
Qed.

(* C03 — frame lemmas, part 2: adding to / taking from what one holder holds
   (ReserveMemory, ReleaseMemory, and the charging step of OpenConnection /
   OpenStream). *)
From Coq Require Import List ZArith Bool Arith Lia.
From Verif Require Import lib.Wire c03.Int64 c03.Model c03.Spec c03.Proofs_Int64 c03.Proofs_Base
     c03.Proofs_Sum c03.Proofs_Reach c03.Proofs_Link c03.Proofs_Targets c03.Proofs_Frames.
Import ListNotations.
Local Open Scope Z_scope.

Definition own_or0 (a : astate) (t : sid) : stat :=
  match hget (holders a) t with Some h => h_own h | None => stat0 end.

Lemma add_own_dead : forall a t d y, a_dead (add_own a t d) y = a_dead a y.
Proof.
  intros. unfold a_dead, add_own. cbn [holders]. rewrite hget_hset. sid_cases t y; [|reflexivity].
  destruct (hget (holders a) y); reflexivity.
Qed.
Lemma add_own_chain : forall a t d y, a_chain (add_own a t d) y = a_chain a y.
Proof.
  intros. unfold a_chain, add_own. cbn [holders]. rewrite hget_hset. sid_cases t y; [|reflexivity].
  destruct (hget (holders a) y); reflexivity.
Qed.
Lemma add_own_par : forall a t d y, a_par (add_own a t d) y = a_par a y.
Proof.
  intros. unfold a_par, add_own. cbn [holders]. destruct y; try reflexivity;
    rewrite hget_hset; (sid_cases t (Conn i) || sid_cases t (Stream j)); try reflexivity;
    match goal with |- context [hget (holders a) ?k] => destruct (hget (holders a) k) end; reflexivity.
Qed.
Lemma add_own_reach : forall a t d y, areach (add_own a t d) y = areach a y.
Proof. intros. apply areach_skel; intros; [apply add_own_dead | apply add_own_par | apply add_own_chain]. Qed.
Lemma add_own_limit : forall c a t d y, a_limit c (add_own a t d) y = a_limit c a y.
Proof. intros. unfold a_limit. destruct y; try reflexivity. rewrite add_own_chain. reflexivity. Qed.

Lemma add_own_hget : forall a t d y,
  hget (holders (add_own a t d)) y =
  if sid_eqb t y then
    Some (match hget (holders a) t with
          | Some h => mkHolder (stat_add (h_own h) d) (h_par h) (h_chain h) (h_dead h)
          | None => mkHolder (stat_add stat0 d) [] [] false end)
  else hget (holders a) y.
Proof.
  intros. unfold add_own. cbn [holders]. rewrite hget_hset. sid_cases t y; [|reflexivity].
  destruct (hget (holders a) y); reflexivity.
Qed.

Lemma scale_add : forall n a b, stat_scale n (stat_add a b) = stat_add (stat_scale n a) (stat_scale n b).
Proof. intros n [] []. unfold stat_scale, stat_add; cbn. f_equal; lia. Qed.

Lemma usage_add_own : forall a t d x, WfA a ->
  usage_A (add_own a t d) x = stat_add (usage_A a x) (stat_scale (countb x (areach a t)) d).
Proof.
  intros a t d x W. rewrite !usage_A_sumc.
  rewrite (sumc_ext (areach (add_own a t d)) (areach a)) by (intros; apply add_own_reach).
  unfold add_own. cbn [holders]. destruct (hget (holders a) t) as [h0|] eqn:G.
  - pose proof (sumc_hset_old (areach a) (holders a) t h0
                  (mkHolder (stat_add (h_own h0) d) (h_par h0) (h_chain h0) (h_dead h0)) x (W_keys a W) G) as H.
    cbn [h_own] in H. rewrite scale_add in H. revert H.
    generalize (sumc (areach a) (hset (holders a) t (mkHolder (stat_add (h_own h0) d) (h_par h0) (h_chain h0) (h_dead h0))) x)
               (sumc (areach a) (holders a) x) (stat_scale (countb x (areach a t)) (h_own h0))
               (stat_scale (countb x (areach a t)) d).
    intros s1 s2 s3 s4 H. apply stat_ext; injection H; intros; cbn [stat_add mem sin sout cin cout fd]; lia.
  - rewrite (sumc_hset_new (areach a) (holders a) t _ x G). cbn [h_own]. rewrite stat_add_0_l. reflexivity.
Qed.

Lemma chain_holders : forall a t y, WfA a -> In y (a_chain a t) -> is_handle y = true ->
  hget (holders a) y <> None.
Proof.
  intros a t y W. pattern t. apply (chain_ind a); [exact W| |]; clear t.
  - intros t E H. rewrite E in H. destruct H.
  - intros t o Hsp E _ IH H Hy. rewrite E in H. destruct H as [H|H]; [|apply IH; assumption]. subst y.
    destruct (hget (holders a) t) as [h|] eqn:G.
    + destruct (W_span a W t h G Hsp) as (o' & E' & Kn & _).
      unfold a_chain in E at 1. rewrite G in E. rewrite E in E'. inversion E'; subst o'. apply Kn, Hy.
    + unfold a_chain in E at 1. rewrite G in E. discriminate.
Qed.

Lemma WfA_add_own : forall a t d, WfA a -> holder_if_handle a t -> a_dead a t = false ->
  nonneg (stat_add (own_or0 a t) d) -> WfA (add_own a t d).
Proof.
  intros a t d W K D Hn. constructor.
  - unfold add_own. cbn [holders]. apply hset_keys_nodup, (W_keys a W).
  - intros y h G Hh. rewrite add_own_hget in G. sid_cases t y; [|apply (W_static a W y h G Hh)].
    destruct (hget (holders a) y) as [h0|] eqn:G0; inversion G; subst h; cbn; [apply (W_static a W y h0 G0 Hh) | split; reflexivity].
  - intros y h G Hl. rewrite add_own_hget in G. sid_cases t y; [|apply (W_leaf a W y h G Hl)].
    destruct (hget (holders a) y) as [h0|] eqn:G0; inversion G; subst h; cbn; [apply (W_leaf a W y h0 G0 Hl)|].
    split; [reflexivity|]. split; [constructor | intros p []].
  - intros y h G Hs. rewrite add_own_hget in G.
    assert (X : exists h0, hget (holders a) y = Some h0 /\ h_chain h = h_chain h0).
    { sid_cases t y; [|exists h; split; [exact G | reflexivity]].
      destruct (hget (holders a) y) as [h0|] eqn:G0.
      - inversion G; subst h. exists h0. split; reflexivity.
      - exfalso. apply K; [destruct y; try discriminate; reflexivity | exact G0]. }
    destruct X as (h0 & G0 & Ec). destruct (W_span a W y h0 G0 Hs) as (o & E & Kn & N).
    exists o. rewrite add_own_chain, Ec. split; [exact E|]. split; [|exact N].
    intros Ho. rewrite add_own_hget. destruct (sid_eqb t o); [discriminate | apply Kn, Ho].
  - intros y h G. rewrite add_own_hget in G. sid_cases t y; [|apply (W_own a W y h G)].
    unfold own_or0 in Hn. unfold a_dead in D.
    destruct (hget (holders a) y) as [h0|] eqn:G0; inversion G; subst h; cbn.
    + split; [exact Hn | intros X; congruence].
    + split; [exact Hn | intros X; discriminate].
Qed.

(* the numeric frame lemma: every scope of areach a t moves by d, the holder's own by d *)
Lemma Inv_add_own : forall c m m' a t d,
  Inv c m a -> holder_if_handle a t -> a_dead a t = false -> nonneg (stat_add (own_or0 a t) d) ->
  (forall x, shape_of m' x = shape_of m x) -> all_good m' ->
  (forall x, use_of m' x = stat_add (use_of m x) (stat_scale (countb x (areach a t)) d)) ->
  Inv c m' (add_own a t d).
Proof.
  intros c m m' a t d I K D Hn S Gd U. pose proof (I_wf c m a I) as W. constructor.
  - apply WfA_add_own; assumption.
  - exact Gd.
  - intros x sc' G' Hh. specialize (S x). unfold shape_of in S. rewrite G' in S.
    destruct (get m x) as [sc|] eqn:G; cbn in S; [|discriminate]. unfold shape in S. inversion S as [[S1 S2 S3 S4]].
    rewrite S1, S2, S3, S4. apply (I_static c m a I x sc G Hh).
  - destruct (I_base c m a I) as (B1 & B2 & B3 & B4). repeat split; apply (shape_present m m' _ (S _)); assumption.
  - intros y h G Hh. rewrite add_own_hget in G.
    assert (X : exists h0, hget (holders a) y = Some h0 /\ h_dead h = h_dead h0 /\ h_chain h = h_chain h0 /\ h_par h = h_par h0).
    { sid_cases t y; [|exists h; repeat split; [exact G|..]; reflexivity].
      destruct (hget (holders a) y) as [h0|] eqn:G0.
      - inversion G; subst h. exists h0. repeat split; reflexivity.
      - exfalso. apply K; [exact Hh | exact G0]. }
    destruct X as (h0 & G0 & E1 & E2 & E3). destruct (I_handle c m a I y h0 G0 Hh) as (sc & Gm & P1 & P2 & P3 & P4).
    destruct (shape_get m m' y sc (S y) Gm) as (sc' & G' & Q1 & Q2 & Q3 & Q4).
    exists sc'. rewrite Q1, Q2, Q3, Q4, E1, E2, E3, add_own_limit. repeat split; assumption.
  - intros y h G Dy. rewrite add_own_hget in G. rewrite add_own_par.
    assert (X : (exists h0, hget (holders a) y = Some h0 /\ h_dead h0 = false /\ h_chain h = h_chain h0) \/
                (hget (holders a) y = None /\ h_chain h = [])).
    { sid_cases t y; [|left; exists h; repeat split; assumption].
      destruct (hget (holders a) y) as [h0|] eqn:G0; inversion G; subst h; cbn in *.
      - left. exists h0. repeat split; assumption.
      - right. split; reflexivity. }
    destruct X as [(h0 & G0 & D0 & Ec)|(G0 & Ec)].
    + destruct (I_present c m a I y h0 G0 D0) as [P1 P2]. rewrite Ec. split.
      * intros p Hp. apply (shape_present m m' p (S p)), P1, Hp.
      * intros o Ho Hs. apply (shape_present m m' o (S o)), (P2 o Ho Hs).
    + rewrite Ec. split; [|intros o X; discriminate X].
      intros p Hp. apply (shape_present m m' p (S p)).
      (* a scope without holder that is being charged: it is static and its parents exist *)
      unfold a_par in Hp. rewrite G0 in Hp.
      destruct (I_base c m a I) as (B1 & B2 & B3 & B4).
      destruct y; cbn in Hp; try (destruct Hp as [<-|[]]; assumption); destruct Hp.
  - intros y sc' G' Hh Hnone. rewrite add_own_hget in Hnone.
    sid_cases t y; [discriminate|].
    specialize (S y). unfold shape_of in S. rewrite G' in S.
    destruct (get m y) as [sc|] eqn:G; cbn in S; [|discriminate].
    destruct (I_garbage c m a I y sc G Hh Hnone) as [Dn Z]. unfold shape in S. inversion S as [[S1 S2 S3 S4]].
    split; [rewrite S2; exact Dn|].
    rewrite <- (use_of_get m' y sc' G'), U, (use_of_get m y sc G), Z.
    assert (C0 : countb y (areach a t) = 0).
    { apply countb_notin. intros X. destruct (reach_in a t y W X) as [X1|[X1|X1]].
      - subst y. apply K in Hh. contradiction.
      - apply (chain_holders a t y W X1 Hh). exact Hnone.
      - congruence. }
    rewrite C0, stat_scale_0. reflexivity.
  - intros x. rewrite U, usage_add_own by exact W. rewrite (I_num c m a I). reflexivity.
Qed.

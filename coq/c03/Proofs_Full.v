(* C03 — the whole operation language of the property (OpenConnection, SetPeer
   incl. the allow-list transfer, OpenStream, SetProtocol, SetService,
   ReserveMemory, ReleaseMemory, BeginSpan, Done, gc): the invariant along every
   history, the property clauses as corollaries, and the monitor coupling. *)
From Coq Require Import List ZArith Bool Arith Lia.
From Verif Require Import lib.Wire c03.Int64 c03.Model c03.Spec c03.Proofs_Int64 c03.Proofs_Base
     c03.Proofs_Sum c03.Proofs_Reach c03.Proofs_Link c03.Proofs_Targets c03.Proofs_Frames c03.Proofs_Frames2
     c03.Proofs_Frames3 c03.Proofs_Kill c03.Proofs_OpsMem c03.Proofs_Done c03.Proofs_OpsDone c03.Proofs_OpsNew
     c03.Proofs_OpsOpen c03.Proofs_Hist c03.Proofs_Mon c03.Proofs_Link2 c03.Proofs_Transfer c03.Proofs_OpsRepar
     c03.Proofs_SetPeer c03.Proofs_Hist2 c03.Proofs_Mon2 c03.Proofs_Keys c03.Proofs_Refs c03.Proofs_RefInv c03.Proofs_GC
     c03.Proofs_Prio c03.Proofs_Cap c03.Proofs_CapInv c03.Proofs_Just c03.Proofs_Just2 c03.Proofs_Ans c03.Proofs_Ans2.
Import ListNotations.
Local Open Scope Z_scope.

(* the simulation invariant with what gc needs on top *)
Definition InvG (c : config) (st : state) (a : astate) : Prop :=
  InvL c st a /\ nd (scopes st) /\ RefInv (scopes st) a /\ AShape a /\ CapInv c st a.

(* the operation language: View* on scopes that can be viewed, Done on handles *)
Definition op_shape (o : op) : bool := match o with OGC => true | _ => shape2 o end.

(* callers' obligations (Prop form of Spec.caller_ok / Spec.no_overflow, on the model's own state) *)
Definition wf_opF (c : config) (st : state) (a : astate) (o : op) : Prop :=
  match o with OGC => True | _ => wf_op2 c st a o end.

Lemma wf_shape : forall c st a o, wf_opF c st a o -> op_shape o = true.
Proof.
  intros c st a o H. destruct o; cbn in *; try reflexivity.
  - destruct H as (_ & _ & V & _). exact V.
  - destruct H as (_ & V & _). exact V.
  - destruct H as (V & _). exact V.
  - destruct H as (V & _). destruct t; try discriminate; reflexivity.
Qed.

Lemma anextT_gc : forall c st a, anextT c st a OGC = a.
Proof. intros. rewrite (anextT_other c st a OGC Logic.I). reflexivity. Qed.

Lemma pickT_in : forall st' o a l, pickT st' o a l = a \/ In (pickT st' o a l) l.
Proof.
  intros st' o a l. unfold pickT. destruct (find (fun cand => agrees st' cand o) l) as [x|] eqn:F.
  - right. apply (find_some _ _ F).
  - destruct l as [|y r]; [left; reflexivity | right; left; reflexivity].
Qed.

Lemma ashape_step : forall c st a o, AShape a -> op_shape o = true -> AShape (anextT c st a o).
Proof.
  intros c st a o A Sh. destruct o; try (rewrite anextT_gc; exact A);
    (unfold anextT; destruct (step c st _) as [st' cls];
     match goal with |- AShape (pickT ?s ?o ?a ?l) => destruct (pickT_in s o a l) as [E|E]; [rewrite E; exact A | apply (ashape_astep _ _ _ _ _ _ A Sh E)] end).
Qed.

Lemma ref_step : forall c st a o, cfg_ok c -> InvL c st a -> RefInv (scopes st) a -> wf_op2 c st a o ->
  RefInv (scopes (fst (step c st o))) (anextT c st a o).
Proof.
  intros c st a o LO IL R Wf. pose proof (I_wf _ _ _ (proj1 IL)) as W.
  destruct o; cbn [wf_op2 wf_op] in Wf; try contradiction.
  - rewrite (anextT_other c st a (OOpenConn i inb usefd ep) Logic.I). apply ref_open_conn; assumption.
  - apply ref_set_peer; assumption.
  - rewrite (anextT_other c st a (OOpenStream j q inb) Logic.I). apply ref_open_stream; assumption.
  - rewrite (anextT_other c st a (OSetProto j p) Logic.I). destruct Wf as ((s & Gs) & _). apply (ref_set_proto c st a j p s (proj1 IL) (proj2 IL) R Gs).
  - rewrite (anextT_other c st a (OSetSvc j s) Logic.I). destruct Wf as ((s0 & Gs) & _). apply (ref_set_svc c st a j s s0 (proj1 IL) (proj2 IL) R Gs).
  - rewrite (anextT_other c st a (OReserve t sz prio) Logic.I). destruct Wf as (_ & _ & _ & Hh & _). apply ref_reserve; assumption.
  - rewrite (anextT_other c st a (ORelease t sz) Logic.I). destruct Wf as (_ & _ & Hh & _). apply ref_release; assumption.
  - rewrite (anextT_other c st a (OBeginSpan t k) Logic.I). destruct Wf as (_ & _ & Hf). apply ref_begin_span; assumption.
  - rewrite (anextT_other c st a (ODone t) Logic.I). destruct Wf as (Ht & Hh). destruct (hget (holders a) t) as [h|] eqn:G; [|contradiction].
    apply (ref_done c st a t h (proj1 IL) R Ht G).
Qed.

Theorem step_full : forall c st a o,
  cfg_ok c -> InvG c st a -> wf_opF c st a o -> InvG c (fst (step c st o)) (anextT c st a o).
Proof.
  intros c st a o LO (IL & Hn & R & A & Ci) Wf. pose proof (wf_shape c st a o Wf) as Sh.
  assert (Cs : CapInv c (fst (step c st o)) (anextT c st a o)).
  { apply (cap_step c st a o LO IL Ci). destruct o; exact Wf. }
  destruct o; try (cbn [wf_opF] in Wf;
    (split; [apply step_inv2; assumption|]; split; [apply nd_step; exact Hn|];
     split; [apply ref_step; assumption | split; [apply ashape_step; assumption | exact Cs]])).
  rewrite anextT_gc in *. cbn [step fst] in *. destruct IL as [I L].
  destruct (gc_inv c st a LO I L Hn R A) as (I' & L' & Hn' & R'). split; [split; assumption|]. split; [exact Hn'|]. split; [exact R'|]. split; assumption.
Qed.

Fixpoint wf_histF (c : config) (st : state) (a : astate) (ops : list op) : Prop :=
  match ops with
  | [] => True
  | o :: r => wf_opF c st a o /\ wf_histF c (fst (step c st o)) (anextT c st a o) r
  end.

Lemma init_invG : forall c, cfg_ok c -> InvG c (init_state c) astate0.
Proof.
  intros c LO. split; [split; [apply init_inv, LO | apply init_link]|]. split; [apply nd_init|].
  split; [intros t Ht; unfold nrefs; cbn; unfold refz; destruct (get _ t) as [sc|] eqn:G; [|lia]|split; [intros x h G; discriminate | apply init_capinv]].
  destruct t; try discriminate; cbn in G; discriminate.
Qed.

Theorem history_full_from : forall c ops st a,
  cfg_ok c -> InvG c st a -> wf_histF c st a ops -> InvG c (run c st ops) (run_aT c st a ops).
Proof.
  intros c ops. induction ops as [|o r IH]; intros st a LO I Wf; [exact I|].
  cbn [run run_aT]. destruct Wf as [W1 W2]. apply IH; [exact LO | apply step_full; assumption | exact W2].
Qed.

(* ---- from the decidable caller discipline of the property's quantifier -------------------------- *)
Lemma wfF_of_bool : forall c st a m o, InvG c st a -> (forall t, ostat m t = use_of (scopes st) t) ->
  caller_ok a o = true -> no_overflow m o = true -> op_shape o = true -> wf_opF c st a o.
Proof.
  intros c st a m o (IL & _) L C N Sh. destruct o; cbn [wf_opF]; try exact Logic.I;
    apply (wf2_of_bool c st a m _ IL L C N Sh).
Qed.

Lemma astep_pickedF : forall c st a o, cfg_ok c -> InvG c st a -> wf_opF c st a o ->
  let '(st', cls) := step c st o in
  exists pre post, astep c a o cls (o_aflag (model_obs st st' o cls)) = pre ++ anextT c st a o :: post /\
    (forall cand, In cand pre -> usage_A cand System <> usage_A (anextT c st a o) System).
Proof.
  intros c st a o LO (IL & _) Wf. destruct o; try (apply (astep_picked c st a _ LO IL Wf)).
  rewrite anextT_gc. cbn [step astep]. exists [], []. split; [reflexivity | intros cand []].
Qed.


Lemma prio_step : forall c st a m t sz prio, cfg_ok c -> InvG c st a -> (forall x, ostat m x = use_of (scopes st) x) ->
  wf_opF c st a (OReserve t sz prio) ->
  let '(st', cls) := step c st (OReserve t sz prio) in
  cls = 0 -> forall m', (forall x, ostat m' x = use_of (scopes st') x) ->
  forall y, In y (areach (anextT c st a (OReserve t sz prio)) t) ->
  l_mem (a_limit c (anextT c st a (OReserve t sz prio)) y) = max_int64 \/
  mem (ostat m' y) <= prio_threshold (a_limit c (anextT c st a (OReserve t sz prio)) y) prio.
Proof.
  intros c st a m t sz prio LO ((I & _) & _) L Wf. cbn [wf_opF wf_op2 wf_op] in Wf. destruct Wf as (Hp & Hsz & V & Hh & Ov).
  pose proof (reserve_prio c st a t sz prio LO I Hp Hsz V Hh Ov) as P.
  rewrite (anextT_other c st a (OReserve t sz prio) Logic.I). unfold anext. cbn [step].
  destruct (reserve_mem c st t sz prio) as [st' cls]. intros C m' L' y Hy. cbn [astep] in *. subst cls. cbn [Z.eqb hd] in *.
  rewrite add_own_reach in Hy. rewrite add_own_limit, L'. apply (P eq_refl y Hy).
Qed.

Theorem full_from : forall ck c ops st a m i,
  cfg_ok c -> InvG c st a -> (forall t, ostat m t = use_of (scopes st) t) ->
  forallb op_shape ops = true -> callers_run c a m i (model_trace c st ops) = None ->
  mon_run_gen ck c a m i (model_trace c st ops) = [] /\ wf_histF c st a ops.
Proof.
  intros ck c ops. induction ops as [|o r IH]; intros st a m i LO IG L Sh Cr; [split; [reflexivity | exact Logic.I]|].
  cbn [forallb] in Sh. apply andb_true_iff in Sh. destruct Sh as [Sh1 Sh2].
  cbn [model_trace wf_histF] in *. pose proof (astep_pickedF c st a o LO IG) as Hd.
  pose proof (step_full c st a o LO IG) as Hi.
  assert (Pr : forall t sz prio, o = OReserve t sz prio -> wf_opF c st a o ->
            let '(st', cls) := step c st o in
            cls = 0 -> forall m', (forall x, ostat m' x = use_of (scopes st') x) ->
            forall y, In y (areach (anextT c st a o) t) ->
            l_mem (a_limit c (anextT c st a o) y) = max_int64 \/ mem (ostat m' y) <= prio_threshold (a_limit c (anextT c st a o) y) prio).
  { intros t sz prio -> Wf. apply (prio_step c st a m t sz prio LO IG L Wf). }
  assert (Js : wf_opF c st a o -> snd (step c st o) = 1 -> refusal_justified c a m o = true).
  { intros Wf. destruct IG as (IL & _). apply (just_step c st a m o LO IL L). destruct o; exact Wf. }
  assert (Cp : wf_opF c st a o -> forall i0 inb usefd ip, o = OOpenConn i0 inb usefd (Some ip) -> snd (step c st o) = 0 ->
            cap_ok c (open_ips (anextT c st a o) false) ip = true).
  { intros Wf. destruct IG as (IL & _ & _ & _ & Ci). apply (cap_step c st a o LO IL Ci). destruct o; exact Wf. }
  assert (As : wf_opF c st a o -> answer_ok c a o (snd (step c st o)) = true).
  { intros Wf. destruct IG as (IL & _ & _ & _ & Ci). apply (ans_step c st a o LO IL Ci). destruct o; exact Wf. }
  destruct (step c st o) as [st' cls] eqn:Es. cbn [fst snd] in Hi, Cp, Js, As.
  cbn [callers_run mon_run_gen] in *.
  destruct (caller_ok a o && no_overflow m o) eqn:C; [|discriminate].
  apply andb_true_iff in C. destruct C as [C1 C2].
  pose proof (wfF_of_bool c st a m o IG L C1 C2 Sh1) as Wf. specialize (Hd Wf). specialize (Hi Wf). specialize (Cp Wf). specialize (Js Wf). specialize (As Wf).
  destruct Hd as (pre & post & El & Hm).
  set (x := model_obs st st' o cls) in *. set (m' := apply_delta m (o_delta x)) in *.
  assert (L' : forall t, ostat m' t = use_of (scopes st') t) by (apply obs_follows, L).
  assert (Ecls : o_cls x = cls) by reflexivity.
  pose proof (proj1 (proj1 Hi)) as I'.
  assert (Hp : forall cand, In cand pre -> exists t, In t (map fst m') /\ ostat m' t <> usage_A cand t).
  { intros cand Hc. exists System. split.
    - apply model_obs_keys. apply (I_base _ _ _ I').
    - rewrite L', (I_num _ _ _ I' System). intros E. apply (Hm cand Hc). symmetry. exact E. }
  (* the core monitor (what callers_run threads) and the monitor with the proved checks agree *)
  pose proof (mon_step_accepts_pick c a (anextT c st a o) m m' o x pre post LO) as Ms0.
  rewrite Ecls in Ms0. specialize (Ms0 El eq_refl (ex_intro _ (scopes st') (conj I' L')) Hp).
  pose proof (mon_step_accepts_ck ck c a (anextT c st a o) m m' o x pre post LO) as Ms.
  rewrite Ecls in Ms. specialize (Ms El eq_refl (ex_intro _ (scopes st') (conj I' L')) Hp).
  assert (Msk : mon_step_gen ck c a m o x = inl (anextT c st a o, m')).
  { apply Ms.
    - intros _ t sz prio Eo C0 y Hy. apply (Pr t sz prio Eo Wf C0 m' L' y Hy).
    - intros _ Cj. apply Js, Cj.
    - intros _ i0 inb usefd ip Eo C0. apply (Cp i0 inb usefd ip Eo C0).
    - intros _. exact As. }
  rewrite Ms0 in Cr. rewrite Msk.
  destruct (IH st' _ m' (i + 1) LO Hi L' Sh2 Cr) as [M Wh]. split; [exact M | split; [exact Wf | exact Wh]].
Qed.

Lemma init_obs : forall c t, ostat [] t = use_of (scopes (init_state c)) t.
Proof. intros c t. cbn. unfold use_of. destruct t; reflexivity. Qed.

(* the hypotheses of the property's quantifier: well-formed limit table, operations of
   the language, callers never release more than they reserved and stay in int64 *)
Definition disciplined (c : config) (ops : list op) : Prop :=
  config_wf c = true /\ forallb op_shape ops = true /\
  callers_run c astate0 [] 0 (model_trace c (init_state c) ops) = None.

Theorem history_full : forall c ops, disciplined c ops ->
  InvG c (run c (init_state c) ops) (run_aT c (init_state c) astate0 ops).
Proof.
  intros c ops (Wc & Sh & Cr). pose proof (config_wf_ok c Wc) as LO.
  apply (history_full_from c ops _ _ LO (init_invG c LO)).
  apply (full_from ck_core c ops (init_state c) astate0 [] 0 LO (init_invG c LO) (init_obs c) Sh Cr).
Qed.

Theorem monitor_accepts_ck : forall ck c ops, disciplined c ops ->
  mon_run_gen ck c astate0 [] 0 (model_trace c (init_state c) ops) = [].
Proof.
  intros ck c ops (Wc & Sh & Cr). pose proof (config_wf_ok c Wc) as LO.
  apply (full_from ck c ops (init_state c) astate0 [] 0 LO (init_invG c LO) (init_obs c) Sh Cr).
Qed.

(* THE monitor, with every check switched on *)
Theorem monitor_accepts_full : forall c ops, disciplined c ops ->
  mon_run c astate0 [] 0 (model_trace c (init_state c) ops) = [].
Proof. intros c ops. exact (monitor_accepts_ck ck_all c ops). Qed.

(* "the number of simultaneously open connections from one IP subnet never exceeds
   the configured per-subnet cap": whenever a connection with an IP endpoint is
   admitted, the open connections governed by the same network prefix / by each
   subnet rule's subnet of that endpoint - the new one included - are within the cap *)
Corollary subnet_cap_full : forall c ops i inb usefd ip, disciplined c (ops ++ [OOpenConn i inb usefd (Some ip)]) ->
  snd (step c (run c (init_state c) ops) (OOpenConn i inb usefd (Some ip))) = 0 ->
  cap_ok c (open_ips (run_aT c (init_state c) astate0 (ops ++ [OOpenConn i inb usefd (Some ip)])) false) ip = true.
Proof.
  intros c ops i inb usefd ip (Wc & Sh & Cr) C0. pose proof (config_wf_ok c Wc) as LO.
  destruct (full_from ck_core c _ (init_state c) astate0 [] 0 LO (init_invG c LO) (init_obs c) Sh Cr) as [_ Wh].
  assert (G : forall l st a, InvG c st a -> wf_histF c st a (l ++ [OOpenConn i inb usefd (Some ip)]) ->
            snd (step c (run c st l) (OOpenConn i inb usefd (Some ip))) = 0 ->
            cap_ok c (open_ips (run_aT c st a (l ++ [OOpenConn i inb usefd (Some ip)])) false) ip = true).
  { induction l as [|o r IHl]; intros st a IG Wf C1; cbn [app run run_aT wf_histF] in *.
    - destruct Wf as [W1 _]. destruct IG as (IL & _ & _ & _ & Ci).
      apply (proj2 (cap_step c st a (OOpenConn i inb usefd (Some ip)) LO IL Ci W1) i inb usefd ip eq_refl C1).
    - destruct Wf as [W1 W2]. apply IHl; [apply step_full; assumption | exact W2 | exact C1]. }
  apply (G ops _ _ (init_invG c LO) Wh C0).
Qed.

Corollary usage_is_sum_full : forall c ops t, disciplined c ops ->
  use_of (scopes (run c (init_state c) ops)) t = usage_A (run_aT c (init_state c) astate0 ops) t.
Proof. intros c ops t D. apply (I_num _ _ _ (proj1 (proj1 (history_full c ops D)))). Qed.

Corollary within_limits_full : forall c ops t sc, disciplined c ops ->
  get (scopes (run c (init_state c) ops)) t = Some sc ->
  nonneg (s_use sc) /\ fits (s_lim sc) (s_use sc) /\ (is_handle t = false -> s_lim sc = limit_of c t).
Proof.
  intros c ops t sc D G. pose proof (proj1 (proj1 (history_full c ops D))) as I.
  destruct (I_good _ _ _ I t sc G) as (_ & N & F). split; [exact N|]. split; [exact F|].
  intros Hh. apply (I_static _ _ _ I t sc G Hh).
Qed.

Corollary release_all_zero_full : forall c ops t, disciplined c ops ->
  (forall y h, In (y, h) (holders (run_aT c (init_state c) astate0 ops)) -> h_dead h = true \/ h_own h = stat0) ->
  use_of (scopes (run c (init_state c) ops)) t = stat0.
Proof.
  intros c ops t D Z. pose proof (proj1 (proj1 (history_full c ops D))) as I.
  rewrite (I_num _ _ _ I t), usage_A_sumc. apply sumc_zero. intros y h Hi.
  destruct (Z y h Hi) as [Dd|E]; [|exact E].
  apply (W_own _ (I_wf _ _ _ I) y h); [|exact Dd].
  apply in_hget_k; [apply (W_keys _ (I_wf _ _ _ I)) | exact Hi].
Qed.

(* an operation of the full language that answers an error (gc never does) *)
Corollary refusal_is_noop_full : forall c st a o t,
  cfg_ok c -> InvG c st a -> wf_opF c st a o -> transfers c a o = false ->
  snd (step c st o) <> 0 ->
  match o with ORelease _ _ | ODone _ => False | _ => True end ->
  use_of (scopes (fst (step c st o))) t = use_of (scopes st) t /\ anextT c st a o = a.
Proof.
  intros c st a o t LO (IL & _) Wf Nt Hc Ho. destruct o; try (apply (refusal_is_noop2 c st a _ t LO IL Wf Nt Hc Ho)).
  cbn in Hc. exfalso. apply Hc. reflexivity.
Qed.

(* C03 — the simulation invariant between the model's scope map and the
   abstract holder table, and the correspondence of the scopes visited by a
   reservation / release with areach. *)
From Coq Require Import List ZArith Bool Arith Lia.
From Verif Require Import lib.Wire c03.Int64 c03.Model c03.Spec c03.Proofs_Int64 c03.Proofs_Base
     c03.Proofs_Sum c03.Proofs_Reach.
Import ListNotations.
Local Open Scope Z_scope.

Record Inv (c : config) (m : smap) (a : astate) : Prop := {
  I_wf : WfA a;
  I_good : all_good m;
  I_static : forall t sc, get m t = Some sc -> is_handle t = false ->
             s_done sc = false /\ s_chain sc = [] /\ s_edges sc = static_par t /\ s_lim sc = limit_of c t;
  I_base : get m System <> None /\ get m Transient <> None /\ get m ASystem <> None /\ get m ATransient <> None;
  I_handle : forall t h, hget (holders a) t = Some h -> is_handle t = true ->
             exists sc, get m t = Some sc /\ s_done sc = h_dead h /\ s_chain sc = h_chain h /\
                        s_edges sc = (if leaf t then h_par h else []) /\ s_lim sc = a_limit c a t;
  I_present : forall t h, hget (holders a) t = Some h -> h_dead h = false ->
              (forall p, In p (a_par a t) -> get m p <> None) /\
              (forall o, hd_error (h_chain h) = Some o -> is_handle o = false -> get m o <> None);
  I_garbage : forall t sc, get m t = Some sc -> is_handle t = true -> hget (holders a) t = None ->
              s_done sc = true /\ s_use sc = stat0;
  I_num : forall t, use_of m t = usage_A a t
}.

Definition known (m : smap) (a : astate) (t : sid) : Prop :=
  if is_handle t then hget (holders a) t <> None else get m t <> None.

Lemma last_default : forall (l : list sid) x d d', last (x :: l) d = last (x :: l) d'.
Proof. induction l as [|y r IH]; intros x d d'; [reflexivity|]. cbn [last] in *. apply IH. Qed.

Lemma last_cons : forall (o : sid) l t, last (o :: l) t = last l o.
Proof. intros o l t. destruct l as [|x r]; [reflexivity|]. cbn [last]. apply (last_default r x t o). Qed.

(* the model's chain / done flag / edges agree with the abstract table *)
Lemma chain_of_link : forall c m a t, Inv c m a -> (is_handle t = true -> hget (holders a) t <> None) ->
  chain_of m t = a_chain a t.
Proof.
  intros c m a t I K. unfold chain_of, a_chain. destruct (is_handle t) eqn:Hh.
  - destruct (hget (holders a) t) as [h|] eqn:G; [|exfalso; apply (K eq_refl); reflexivity].
    destruct (I_handle c m a I t h G Hh) as (sc & Gm & _ & Hc & _). rewrite Gm. exact Hc.
  - destruct (get m t) as [sc|] eqn:Gm.
    + destruct (I_static c m a I t sc Gm Hh) as (_ & Hc & _). rewrite Hc.
      destruct (hget (holders a) t) as [h|] eqn:G; [|reflexivity].
      symmetry. apply (W_static a (I_wf c m a I) t h G Hh).
    + destruct (hget (holders a) t) as [h|] eqn:G; [|reflexivity].
      symmetry. apply (W_static a (I_wf c m a I) t h G Hh).
Qed.

Lemma done_link : forall c m a t, Inv c m a -> known m a t -> is_done m t = a_dead a t.
Proof.
  intros c m a t I K. unfold known in K. unfold is_done, a_dead. destruct (is_handle t) eqn:Hh.
  - destruct (hget (holders a) t) as [h|] eqn:G; [|exfalso; apply K; reflexivity].
    destruct (I_handle c m a I t h G Hh) as (sc & Gm & Hd & _). rewrite Gm. exact Hd.
  - destruct (get m t) as [sc|] eqn:Gm; [|exfalso; apply K; reflexivity].
    destruct (I_static c m a I t sc Gm Hh) as (Hd & _). rewrite Hd.
    destruct (hget (holders a) t) as [h|] eqn:G; [|reflexivity].
    symmetry. apply (W_static a (I_wf c m a I) t h G Hh).
Qed.

Lemma edges_link : forall c m a t, Inv c m a -> known m a t -> is_span t = false ->
  edges_of m t = a_par a t.
Proof.
  intros c m a t I K Hs. unfold known in K. unfold edges_of. destruct (is_handle t) eqn:Hh.
  - destruct (hget (holders a) t) as [h|] eqn:G; [|exfalso; apply K; reflexivity].
    destruct (I_handle c m a I t h G Hh) as (sc & Gm & _ & _ & He & _). rewrite Gm, He.
    unfold a_par. destruct t; try discriminate; cbn [leaf]; rewrite G; reflexivity.
  - destruct (get m t) as [sc|] eqn:Gm; [|exfalso; apply K; reflexivity].
    destruct (I_static c m a I t sc Gm Hh) as (_ & _ & He & _). rewrite He.
    unfold a_par. destruct t; try discriminate; reflexivity.
Qed.

(* every element of a live holder's chain and parent list is known *)
Lemma owner_known : forall c m a t o, Inv c m a -> hget (holders a) t <> None ->
  a_chain a t = o :: a_chain a o -> a_dead a t = false -> known m a o.
Proof.
  intros c m a t o I K E D. unfold known. destruct (hget (holders a) t) as [h|] eqn:G; [|contradiction].
  assert (Ec : h_chain h = o :: a_chain a o) by (unfold a_chain in E at 1; rewrite G in E; exact E).
  assert (Dh : h_dead h = false) by (unfold a_dead in D; rewrite G in D; exact D).
  destruct (is_handle o) eqn:Ho.
  - assert (Hs : is_span t = true).
    { destruct (chain_cases a t (I_wf c m a I)) as [X|(o' & X & _)]; [rewrite X in E; discriminate | exact X]. }
    destruct (W_span a (I_wf c m a I) t h G Hs) as (o' & E' & Kn & _).
    rewrite Ec in E'. inversion E'; subst o'. apply Kn, Ho.
  - destruct (I_present c m a I t h G Dh) as [_ P]. apply P; [rewrite Ec; reflexivity | exact Ho].
Qed.

(* scopes reached by a release = what the holder is charged to *)
Lemma rel_targets_root : forall m t, chain_of m t = [] ->
  rel_targets m t = if is_done m t then [] else t :: edges_of m t.
Proof.
  intros m t E. unfold rel_targets, rel_targets_from, root_of. rewrite E.
  assert (R : match get m t with Some sc => last (s_chain sc) t | None => t end = t).
  { unfold chain_of in E. destruct (get m t) as [sc|]; [rewrite E|]; reflexivity. }
  rewrite R. cbn [live_prefix]. destruct (is_done m t); reflexivity.
Qed.

Lemma root_of_span : forall m t o, chain_of m t = o :: chain_of m o -> root_of m t = root_of m o.
Proof.
  intros m t o E. unfold root_of, chain_of in *. destruct (get m t) as [sc|]; [|discriminate].
  rewrite E, last_cons. destruct (get m o) as [so|]; reflexivity.
Qed.

Lemma rel_targets_span : forall m t o, chain_of m t = o :: chain_of m o ->
  rel_targets m t = if is_done m t then [] else t :: rel_targets m o.
Proof.
  intros m t o E. unfold rel_targets. rewrite (root_of_span m t o E), E.
  unfold rel_targets_from. cbn [live_prefix]. destruct (is_done m t); [reflexivity|].
  destruct (is_done m o); [reflexivity|].
  destruct (live_prefix m (chain_of m o)) as [p all]. destruct all; reflexivity.
Qed.

Lemma rel_targets_reach : forall c m a t, Inv c m a -> known m a t -> rel_targets m t = areach a t.
Proof.
  intros c m a t I. pattern t. apply (chain_ind a); [apply (I_wf c m a I)| |]; clear t.
  - intros t E K.
    assert (Kh : is_handle t = true -> hget (holders a) t <> None).
    { intros Hh. unfold known in K. rewrite Hh in K. exact K. }
    rewrite rel_targets_root by (rewrite (chain_of_link c m a t I Kh); exact E).
    rewrite (areach_root a t E), (done_link c m a t I K).
    destruct (a_dead a t); [reflexivity|]. f_equal. apply (edges_link c m a t I K).
    destruct t; try reflexivity. exfalso. unfold known in K. cbn in K.
    destruct (hget (holders a) (Span k)) as [h|] eqn:G; [|apply K; reflexivity].
    destruct (W_span a (I_wf c m a I) _ h G eq_refl) as (o & Eo & _).
    unfold a_chain in E. rewrite G in E. rewrite E in Eo. discriminate.
  - intros t o Hsp E _ IH K.
    assert (Kh : hget (holders a) t <> None).
    { unfold known in K. destruct t; try discriminate. exact K. }
    assert (Ko : is_handle o = true -> hget (holders a) o <> None).
    { intros Ho. destruct (hget (holders a) t) as [h|] eqn:G; [|contradiction].
      destruct (W_span a (I_wf c m a I) t h G Hsp) as (o' & E' & Kn & _).
      unfold a_chain in E at 1. rewrite G in E. rewrite E in E'. inversion E'; subst o'. apply Kn, Ho. }
    assert (Em : chain_of m t = o :: chain_of m o).
    { rewrite (chain_of_link c m a t I (fun _ => Kh)), (chain_of_link c m a o I Ko). exact E. }
    rewrite (rel_targets_span m t o Em), (areach_span a t o E), (done_link c m a t I K).
    destruct (a_dead a t) eqn:D; [reflexivity|]. f_equal. apply IH.
    apply (owner_known c m a t o I Kh E D).
Qed.

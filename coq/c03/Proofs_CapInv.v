(* C03 — per-subnet cap, part B: along every history the limiter's counters are
   the numbers of open connections (Proofs_Cap.LimCount for the endpoints of the
   open connections of the abstract state), hence every admitted connection
   passes the monitor's cap check. *)
From Coq Require Import List ZArith Bool Arith Lia.
From Verif Require Import lib.Wire c03.Int64 c03.Model c03.Spec c03.Proofs_Int64 c03.Proofs_Base
     c03.Proofs_Sum c03.Proofs_Reach c03.Proofs_Link c03.Proofs_Targets c03.Proofs_Frames c03.Proofs_Frames2
     c03.Proofs_Frames3 c03.Proofs_Kill c03.Proofs_OpsMem c03.Proofs_Done c03.Proofs_OpsDone c03.Proofs_OpsNew
     c03.Proofs_OpsOpen c03.Proofs_Hist c03.Proofs_Mon c03.Proofs_Limiter c03.Proofs_Link2 c03.Proofs_Transfer c03.Proofs_OpsRepar
     c03.Proofs_SetPeer c03.Proofs_Hist2 c03.Proofs_Mon2 c03.Proofs_Keys c03.Proofs_Refs c03.Proofs_RefInv c03.Proofs_GC
     c03.Proofs_Cap.
Import ListNotations.
Local Open Scope Z_scope.

Lemma done_after_reserve : forall m x lim E k, is_done (fst (scope_reserve (new_scope m x lim E) x k)) x = false.
Proof.
  intros m x lim E k. rewrite (frame_done _ _ x (frame_scope_reserve (new_scope m x lim E) x k x)).
  unfold is_done, new_scope. rewrite get_set_same. reflexivity.
Qed.

(* what OpenConnection does to the limiter and to the connection records *)
Lemma open_conn_lims : forall c st i inb usefd ep,
  let '(st', cls) := open_conn c st i inb usefd ep in
  (forall i', i' <> i -> nget (conns st') i' = nget (conns st) i') /\
  match ep with
  | None => lims st' = lims st
  | Some ip => match limiter_add c (lims st) ip with
               | None => st' = st /\ cls <> 0
               | Some l1 => if cls =? 0 then lims st' = l1 else lims st' = limiter_rm c l1 ip
               end
  end /\
  (cls = 0 -> exists ci, nget (conns st') i = Some ci /\ ci_ip ci = ep).
Proof.
  intros c st i inb usefd ep. unfold open_conn.
  assert (Ns : forall A (l : list (nat * A)) v i', i' <> i -> nget (nset l i v) i' = nget l i').
  { intros A l v i' Hne. rewrite nget_nset. destruct (Nat.eqb i i') eqn:X; [apply Nat.eqb_eq in X; congruence | reflexivity]. }
  assert (Cd : forall s0 ci0, is_done (scopes s0) (Conn i) = false -> nget (conns s0) i = Some ci0 ->
            conns (conn_done c s0 i) = conns s0 /\
            lims (conn_done c s0 i) = match ci_ip ci0 with Some a0 => limiter_rm c (lims s0) a0 | None => lims s0 end).
  { intros s0 ci0 D G. unfold conn_done. rewrite D, G. cbn [conns lims]. split; reflexivity. }
  destruct ep as [ip|].
  - destruct (limiter_add c (lims st) ip) as [l1|] eqn:LA.
    2:{ split; [reflexivity|]. split; [split; [reflexivity | discriminate] | discriminate]. }
    pose proof (done_after_reserve (scopes st) (Conn i) (lim_conn c) [Transient; System] (KConn inb usefd)) as D1.
    destruct (scope_reserve _ (Conn i) (KConn inb usefd)) as [m1 e1]. cbn [fst] in D1. destruct e1 as [e1|].
    2:{ cbn [conns lims with_scopes]. split; [intros i' Hne; apply Ns, Hne|]. split; [reflexivity|].
        intros _. eexists. rewrite nget_nset_same. split; reflexivity. }
    destruct (allowed c ip).
    + cbn [scopes conns streams lims with_scopes].
      pose proof (done_after_reserve (remove (scope_done m1 (Conn i)) (Conn i)) (Conn i) (lim_conn c) [ATransient; ASystem] (KConn inb usefd)) as D4.
      destruct (scope_reserve _ (Conn i) (KConn inb usefd)) as [m4 e4]. cbn [fst] in D4. destruct e4 as [e4|].
      * match goal with |- context [conn_done c ?s0 i] => destruct (Cd s0 (mkCinfo inb usefd true None (Some ip) (Some ip)) D4 ltac:(cbn [conns]; apply nget_nset_same)) as [C1 C2] end.
        rewrite C1, C2. cbn [conns lims ci_ip]. rewrite ecode_some. split; [intros i' Hne; rewrite !Ns by exact Hne; reflexivity|].
        split; [reflexivity|]. intros X. destruct e4; discriminate.
      * cbn [conns lims ecode]. split; [intros i' Hne; rewrite !Ns by exact Hne; reflexivity|]. split; [reflexivity|].
        intros _. eexists. rewrite nget_nset_same. split; reflexivity.
    + match goal with |- context [conn_done c ?s0 i] => destruct (Cd s0 (mkCinfo inb usefd false None (Some ip) (Some ip)) D1 ltac:(cbn [conns with_scopes]; apply nget_nset_same)) as [C1 C2] end.
      rewrite C1, C2. cbn [conns lims with_scopes ci_ip]. rewrite ecode_some. split; [intros i' Hne; apply Ns, Hne|].
      split; [reflexivity|]. intros X. destruct e1; discriminate.
  - pose proof (done_after_reserve (scopes st) (Conn i) (lim_conn c) [Transient; System] (KConn inb usefd)) as D1.
    destruct (scope_reserve _ (Conn i) (KConn inb usefd)) as [m1 e1]. cbn [fst] in D1. destruct e1 as [e1|].
    2:{ cbn [conns lims with_scopes]. split; [intros i' Hne; apply Ns, Hne|]. split; [reflexivity|].
        intros _. eexists. rewrite nget_nset_same. split; reflexivity. }
    match goal with |- context [conn_done c ?s0 i] => destruct (Cd s0 (mkCinfo inb usefd false None None None) D1 ltac:(cbn [conns with_scopes]; apply nget_nset_same)) as [C1 C2] end.
    rewrite C1, C2. cbn [conns lims with_scopes ci_ip]. split; [intros i' Hne; apply Ns, Hne|].
    split; [reflexivity|]. intros X. destruct e1; discriminate.
Qed.

(* ---- the invariant ---------------------------------------------------------------------------------- *)
Definition XLink (st : state) (a : astate) : Prop :=
  forall i ac, nget (aconns a) i = Some ac ->
    exists ci h, nget (conns st) i = Some ci /\ hget (holders a) (Conn i) = Some h /\
                 ci_ip ci = ac_ep ac /\ ac_open ac = negb (h_dead h).

(* every connection holder has its connection record *)
Definition XConv (a : astate) : Prop := forall i, hget (holders a) (Conn i) <> None -> nget (aconns a) i <> None.

Definition CapInv (c : config) (st : state) (a : astate) : Prop :=
  LimCount c (lims st) (open_ips a false) /\ XLink st a /\ XConv a.

Definition oip (ac : aconn) : list ipaddr :=
  match ac_ep ac with Some ip => if ac_open ac then [ip] else [] | None => [] end.

Lemma open_ips_oip : forall a, open_ips a false = flat_map (fun e => oip (snd e)) (aconns a).
Proof.
  intros a. unfold open_ips. apply flat_map_ext. intros [i ac]. unfold oip. cbn [snd].
  destruct (ac_ep ac); [|reflexivity]. cbn [andb negb]. rewrite andb_true_r. reflexivity.
Qed.

Lemma nset_fresh : forall A (l : list (nat * A)) i v, nget l i = None -> nset l i v = l ++ [(i, v)].
Proof.
  induction l as [|[y w] r IH]; intros i v G; cbn in *; [reflexivity|].
  destruct (Nat.eqb y i); [discriminate|]. rewrite IH by exact G. reflexivity.
Qed.

Lemma nset_split : forall A (l : list (nat * A)) i v0 v, nget l i = Some v0 ->
  exists A1 A2, l = A1 ++ (i, v0) :: A2 /\ nset l i v = A1 ++ (i, v) :: A2.
Proof.
  induction l as [|[y w] r IH]; intros i v0 v G; cbn in *; [discriminate|].
  destruct (Nat.eqb y i) eqn:E.
  - apply Nat.eqb_eq in E. subst y. inversion G; subst w. exists [], r. split; reflexivity.
  - destruct (IH i v0 v G) as (A1 & A2 & E1 & E2). exists ((y, w) :: A1), A2. cbn. rewrite <- E1, E2. split; reflexivity.
Qed.

Lemma init_capinv : forall c, CapInv c (init_state c) astate0.
Proof. intros c. split; [apply limcount_init | split; [intros i ac G; discriminate | intros i G; exfalso; apply G; reflexivity]]. Qed.

(* nothing that matters for the cap changed *)
Lemma cap_frame : forall c st st' a a', CapInv c st a -> lims st' = lims st ->
  (forall i', option_map ci_ip (nget (conns st') i') = option_map ci_ip (nget (conns st) i')) ->
  open_ips a' false = open_ips a false ->
  (forall i ac', nget (aconns a') i = Some ac' -> exists ac, nget (aconns a) i = Some ac /\ ac_ep ac' = ac_ep ac /\ ac_open ac' = ac_open ac) ->
  (forall i, nget (aconns a) i <> None -> nget (aconns a') i <> None) ->
  (forall i, option_map h_dead (hget (holders a') (Conn i)) = option_map h_dead (hget (holders a) (Conn i))) ->
  CapInv c st' a'.
Proof.
  intros c st st' a a' (Lc & X & Xc) El Ec Eo Ea Ek Eh. split; [rewrite El, Eo; exact Lc|]. split.
  - intros i ac' G. destruct (Ea i ac' G) as (ac & Ga & E1 & E2). destruct (X i ac Ga) as (ci & h & Gc & Gh & P1 & P2).
    pose proof (Ec i) as Eci. rewrite Gc in Eci. destruct (nget (conns st') i) as [ci'|]; cbn in Eci; [|discriminate].
    pose proof (Eh i) as Ehi. rewrite Gh in Ehi. destruct (hget (holders a') (Conn i)) as [h'|]; cbn in Ehi; [|discriminate].
    exists ci', h'. split; [reflexivity|]. split; [reflexivity|]. inversion Eci. inversion Ehi. split; congruence.
  - intros i Hh. apply Ek, Xc. pose proof (Eh i) as Ehi. destruct (hget (holders a') (Conn i)); [|contradiction].
    destruct (hget (holders a) (Conn i)); [discriminate | cbn in Ehi; discriminate].
Qed.

Lemma aconns_set_par : forall a s P, aconns (set_par a s P) = aconns a.
Proof. intros. unfold set_par. destruct (hget (holders a) s); reflexivity. Qed.

Lemma dead_set_par : forall a s P y, option_map h_dead (hget (holders (set_par a s P)) y) = option_map h_dead (hget (holders a) y).
Proof.
  intros a s P y. unfold set_par. destruct (hget (holders a) s) as [h|] eqn:G; [|reflexivity]. cbn [holders].
  rewrite hget_hset. destruct (sid_eqb s y) eqn:E; [|reflexivity]. apply sid_eqb_eq in E. subst y. rewrite G. reflexivity.
Qed.

Lemma dead_add_own : forall a t d y, (is_handle t = true -> hget (holders a) t <> None) -> is_handle y = true ->
  option_map h_dead (hget (holders (add_own a t d)) y) = option_map h_dead (hget (holders a) y).
Proof.
  intros a t d y Hh Hy. rewrite add_own_hget. destruct (sid_eqb t y) eqn:E; [|reflexivity]. apply sid_eqb_eq in E. subst y.
  destruct (hget (holders a) t) as [h|] eqn:G; [reflexivity|]. exfalso. apply (Hh Hy). reflexivity.
Qed.

Lemma dead_kill_other : forall a t y, t <> y -> option_map h_dead (hget (holders (kill a t)) y) = option_map h_dead (hget (holders a) y).
Proof.
  intros a t y Hne. unfold kill. destruct (hget (holders a) t) as [h|]; [|reflexivity]. cbn [holders].
  rewrite hget_hset. apply sid_eqb_neq in Hne. rewrite Hne. reflexivity.
Qed.

Lemma flat_map_nset_same : forall (l : list (nat * aconn)) i ac ac', nget l i = Some ac -> oip ac' = oip ac ->
  flat_map (fun e => oip (snd e)) (nset l i ac') = flat_map (fun e => oip (snd e)) l.
Proof.
  intros l i ac ac' G E. destruct (nset_split _ l i ac ac' G) as (A1 & A2 & E1 & E2). rewrite E2, E1.
  rewrite !flat_map_app. cbn [flat_map snd]. rewrite E. reflexivity.
Qed.

(* the abstract step of every operation but OpenConnection and Done(connection) *)
Lemma astep_cap_frame : forall c a o cls af a', In a' (astep c a o cls af) ->
  match o with OOpenConn _ _ _ _ | ODone (Conn _) => False | _ => True end ->
  (forall t, match o with OReserve t' _ _ | ORelease t' _ => t' = t | _ => False end -> is_handle t = true -> hget (holders a) t <> None) ->
  open_ips a' false = open_ips a false /\
  (forall i ac', nget (aconns a') i = Some ac' -> exists ac, nget (aconns a) i = Some ac /\ ac_ep ac' = ac_ep ac /\ ac_open ac' = ac_open ac) /\
  (forall i, nget (aconns a) i <> None -> nget (aconns a') i <> None) /\
  (forall i, option_map h_dead (hget (holders a') (Conn i)) = option_map h_dead (hget (holders a) (Conn i))).
Proof.
  intros c a o cls af a' Hin No Hh.
  assert (Same : forall b, aconns b = aconns a ->
            (forall i, option_map h_dead (hget (holders b) (Conn i)) = option_map h_dead (hget (holders a) (Conn i))) ->
            open_ips b false = open_ips a false /\
            (forall i ac', nget (aconns b) i = Some ac' -> exists ac, nget (aconns a) i = Some ac /\ ac_ep ac' = ac_ep ac /\ ac_open ac' = ac_open ac) /\
            (forall i, nget (aconns a) i <> None -> nget (aconns b) i <> None) /\
            (forall i, option_map h_dead (hget (holders b) (Conn i)) = option_map h_dead (hget (holders a) (Conn i)))).
  { intros b E1 E2. split; [rewrite !open_ips_oip, E1; reflexivity|]. split; [|split; [rewrite E1; auto | exact E2]].
    intros i ac' G. rewrite E1 in G. exists ac'. repeat split; assumption. }
  assert (Refl : open_ips a false = open_ips a false /\
            (forall i ac', nget (aconns a) i = Some ac' -> exists ac, nget (aconns a) i = Some ac /\ ac_ep ac' = ac_ep ac /\ ac_open ac' = ac_open ac) /\
            (forall i, nget (aconns a) i <> None -> nget (aconns a) i <> None) /\
            (forall i, option_map h_dead (hget (holders a) (Conn i)) = option_map h_dead (hget (holders a) (Conn i))))
    by (apply Same; reflexivity).
  destruct o; cbn [astep] in Hin; try contradiction.
  - (* SetPeer *)
    destruct (nget (aconns a) i) as [ac|] eqn:Ga; [|destruct Hin].
    destruct (ac_peer ac); [destruct (cls =? 0); [destruct Hin | destruct Hin as [<-|[]]; exact Refl]|].
    assert (Mv : forall P al pe,
      let b := mkAstate (holders (set_par a (Conn i) P)) (nset (aconns (set_par a (Conn i) P)) i (mkAconn (ac_ep ac) al pe (ac_open ac) (ac_adm ac))) (astreams (set_par a (Conn i) P)) in
      open_ips b false = open_ips a false /\
      (forall i0 ac', nget (aconns b) i0 = Some ac' -> exists ac0, nget (aconns a) i0 = Some ac0 /\ ac_ep ac' = ac_ep ac0 /\ ac_open ac' = ac_open ac0) /\
      (forall i0, nget (aconns a) i0 <> None -> nget (aconns b) i0 <> None) /\
      (forall i0, option_map h_dead (hget (holders b) (Conn i0)) = option_map h_dead (hget (holders a) (Conn i0)))).
    { intros P al pe b. unfold b. cbn [aconns holders]. rewrite aconns_set_par. split; [|split; [|split]].
      - rewrite !open_ips_oip. cbn [aconns]. apply (flat_map_nset_same _ i ac _ Ga). reflexivity.
      - intros i0 ac' G. rewrite nget_nset in G. destruct (Nat.eqb i i0) eqn:E.
        + apply Nat.eqb_eq in E. subst i0. inversion G; subst ac'. exists ac. repeat split. exact Ga.
        + exists ac'. repeat split. exact G.
      - intros i0 G. rewrite nget_nset. destruct (Nat.eqb i i0); [discriminate | exact G].
      - intros i0. apply dead_set_par. }
    destruct (cls =? 0).
    + destruct Hin as [<-|[]]. apply Mv.
    + destruct (ac_allow ac && negb _).
      * destruct Hin as [<-|[<-|[<-|[]]]]; [apply Mv | apply Mv | exact Refl].
      * destruct (a_par a (Conn i)); [destruct Hin as [<-|[<-|[]]]; [exact Refl | apply Mv] | destruct Hin as [<-|[]]; exact Refl].
  - (* OpenStream *)
    destruct (cls =? 0); destruct Hin as [<-|[]]; [|exact Refl]. apply Same; [reflexivity|]. intros i. cbn [holders]. rewrite hget_hset. reflexivity.
  - (* SetProto *)
    destruct (nget (astreams a) j) as [s|]; [|destruct Hin].
    destruct (as_proto s); [destruct (cls =? 0); [destruct Hin | destruct Hin as [<-|[]]; exact Refl]|].
    destruct (cls =? 0); destruct Hin as [<-|[]]; [|exact Refl]. apply Same; [apply aconns_set_par | intros i; apply dead_set_par].
  - (* SetSvc *)
    destruct (nget (astreams a) j) as [s0|]; [|destruct Hin].
    destruct (as_svc s0); [destruct (cls =? 0); [destruct Hin | destruct Hin as [<-|[]]; exact Refl]|].
    destruct (as_proto s0); [|destruct (cls =? 0); [destruct Hin | destruct Hin as [<-|[]]; exact Refl]].
    destruct (cls =? 0); destruct Hin as [<-|[]]; [|exact Refl]. apply Same; [apply aconns_set_par | intros i; apply dead_set_par].
  - (* Reserve *)
    destruct (cls =? 0); destruct Hin as [<-|[]]; [|exact Refl].
    apply Same; [reflexivity | intros i; apply dead_add_own; [apply (Hh t eq_refl) | reflexivity]].
  - (* Release *)
    destruct (a_dead a t); destruct Hin as [<-|[]]; [exact Refl|].
    apply Same; [reflexivity | intros i; apply dead_add_own; [apply (Hh t eq_refl) | reflexivity]].
  - (* BeginSpan *)
    destruct (cls =? 0); destruct Hin as [<-|[]]; [|exact Refl]. apply Same; [reflexivity|]. intros i. cbn [holders]. rewrite hget_hset. reflexivity.
  - (* Done on a stream / span *)
    destruct t; try contradiction; destruct Hin as [<-|[]];
      (apply Same; [unfold kill; destruct (hget (holders a) _); reflexivity | intros i; apply dead_kill_other; discriminate]).
  - (* gc *) destruct Hin as [<-|[]]. exact Refl.
Qed.

(* ---- the model side of every operation but OpenConnection and Done(connection) ---------------- *)
Lemma set_peer_conns_ip : forall c st i q i',
  option_map ci_ip (nget (conns (fst (set_peer c st i q))) i') = option_map ci_ip (nget (conns st) i').
Proof.
  intros c st i q i'. unfold set_peer. destruct (nget (conns st) i) as [ci|] eqn:G; [|reflexivity].
  destruct (ci_peer ci); [reflexivity|].
  assert (K : forall ci1, ci_ip ci1 = ci_ip ci ->
            option_map ci_ip (nget (nset (conns st) i ci1) i') = option_map ci_ip (nget (conns st) i')).
  { intros ci1 E. rewrite nget_nset. destruct (Nat.eqb i i') eqn:X; [|reflexivity].
    apply Nat.eqb_eq in X. subst i'. rewrite G. cbn. rewrite E. reflexivity. }
  destruct (ci_allow ci).
  - destruct (true && negb _).
    + destruct (transfer_allowed (scopes st) i) as [mt e]. cbv beta iota zeta. destruct e as [e|]; [cbn [fst conns]; apply K; reflexivity|].
      destruct (charge_one (Peer q) _ _); cbn [fst conns]; apply K; reflexivity.
    + cbv beta iota zeta. destruct (charge_one (Peer q) _ _); cbn [fst conns]; apply K; reflexivity.
  - destruct (edges_of (scopes st) (Conn i)).
    + destruct (transfer_allowed (scopes st) i) as [mt e]. cbv beta iota zeta. destruct e as [e|]; [cbn [fst conns]; apply K; reflexivity|].
      destruct (charge_one (Peer q) _ _); cbn [fst conns]; apply K; reflexivity.
    + cbv beta iota zeta. destruct (charge_one (Peer q) _ _); cbn [fst conns]; apply K; reflexivity.
Qed.

Lemma step_other_model : forall c st o, match o with OOpenConn _ _ _ _ | ODone (Conn _) => False | _ => True end ->
  lims (fst (step c st o)) = lims st /\
  forall i', option_map ci_ip (nget (conns (fst (step c st o))) i') = option_map ci_ip (nget (conns st) i').
Proof.
  intros c st o No. destruct o; cbn [step]; try contradiction.
  - split; [apply set_peer_lims | apply set_peer_conns_ip].
  - unfold open_stream. destruct (scope_reserve _ (Stream j) (KStream inb)) as [m3 e]. destruct e; split; reflexivity.
  - unfold set_proto. destruct (nget (streams st) j) as [si|]; [|split; reflexivity]. destruct (si_proto si); [split; reflexivity|].
    destruct (charge_one (Proto p) _ _); [|split; reflexivity]. destruct (charge_one (ProtoPeer p _) _ _); split; reflexivity.
  - unfold set_svc. destruct (nget (streams st) j) as [si|]; [|split; reflexivity].
    destruct (si_svc si); [split; reflexivity|]. destruct (si_proto si); [|split; reflexivity].
    destruct (charge_one (Svc s) _ _); [|split; reflexivity]. destruct (charge_one (SvcPeer s _) _ _); split; reflexivity.
  - unfold reserve_mem. destruct (scope_reserve _ t (KMem sz prio)). split; reflexivity.
  - split; reflexivity.
  - unfold begin_span. destruct (get _ t) as [sc|]; [destruct (s_done sc)|]; split; reflexivity.
  - unfold done_op. destruct t; try contradiction; split; reflexivity.
  - split; reflexivity.
Qed.

Lemma pickT_in' : forall st' o a l, pickT st' o a l = a \/ In (pickT st' o a l) l.
Proof.
  intros st' o a l. unfold pickT. destruct (find (fun cand => agrees st' cand o) l) as [x|] eqn:F.
  - right. apply (find_some _ _ F).
  - destruct l as [|y r]; [left; reflexivity | right; left; reflexivity].
Qed.

Lemma cap_step_other : forall c st a o, CapInv c st a ->
  match o with OOpenConn _ _ _ _ | ODone (Conn _) => False | _ => True end ->
  (forall t, match o with OReserve t' _ _ | ORelease t' _ => t' = t | _ => False end -> is_handle t = true -> hget (holders a) t <> None) ->
  CapInv c (fst (step c st o)) (anextT c st a o).
Proof.
  intros c st a o Ci No Hh. destruct (step_other_model c st o No) as [El Ec].
  unfold anextT. destruct (step c st o) as [st' cls]. cbn [fst] in *.
  destruct (pickT_in' st' o a (astep c a o cls (o_aflag (model_obs st st' o cls)))) as [E|E].
  - rewrite E. apply (cap_frame c st st' a a Ci El Ec eq_refl); [|auto|reflexivity].
    intros i ac' G. exists ac'. repeat split. exact G.
  - destruct (astep_cap_frame c a o cls _ _ E No Hh) as (Eo & Ea & Ek & Eh).
    apply (cap_frame c st st' a _ Ci El Ec Eo Ea Ek Eh).
Qed.

(* ---- OpenConnection ------------------------------------------------------------------------------- *)
Lemma cap_open_conn : forall c st a i inb usefd ep,
  cfg_ok c -> Inv c (scopes st) a -> Link st a -> CapInv c st a -> hget (holders a) (Conn i) = None ->
  CapInv c (fst (step c st (OOpenConn i inb usefd ep))) (anext c st a (OOpenConn i inb usefd ep)) /\
  (forall ip, ep = Some ip -> snd (step c st (OOpenConn i inb usefd ep)) = 0 ->
              cap_ok c (open_ips (anext c st a (OOpenConn i inb usefd ep)) false) ip = true).
Proof.
  intros c st a i inb usefd ep LO I L (Lc & X & Xc) Hf.
  assert (Fa : nget (aconns a) i = None).
  { destruct (nget (aconns a) i) as [ac|] eqn:G; [|reflexivity]. destruct (proj1 L i ac G) as (ci & h & _ & Gh & _). congruence. }
  pose proof (open_conn_lims c st i inb usefd ep) as OL.
  pose proof (open_conn_inv c st a i inb usefd ep LO I Hf) as OI.
  unfold anext. cbn [step]. destruct (open_conn c st i inb usefd ep) as [st' cls]. cbn [fst snd] in *.
  destruct OL as (Oc & Ol & On). cbv zeta in OI. destruct OI as [P _].
  unfold model_obs. cbn [o_aflag astep].
  assert (Xold : forall b, aconns b = aconns a -> holders b = holders a -> XLink st' b).
  { intros b E1 E2 i0 ac G. rewrite E1 in G. destruct (X i0 ac G) as (ci & h & Gc & Gh & R).
    assert (Hne : i0 <> i) by (intros ->; congruence).
    exists ci, h. rewrite E2, (Oc i0 Hne). split; [exact Gc | split; [exact Gh | exact R]]. }
  destruct (cls =? 0) eqn:C.
  - apply Z.eqb_eq in C. destruct (On C) as (ci & Gci & Eip).
    set (al := zbool (match nget (conns st') i with Some ci0 => b2z (ci_allow ci0) | None => 0 end)).
    assert (Ec : (al && negb (ep_allowed c ep)) = false).
    { destruct al eqn:Al; [|reflexivity]. unfold al in Al. rewrite Gci, zbool_b2z in Al.
      rewrite (P C); [reflexivity|]. rewrite Gci. exact Al. }
    rewrite Ec. cbn [hd].
    set (a1 := mkAstate (hset (holders a) (Conn i) (mkHolder (conn_vec inb usefd) (if al then [ATransient; ASystem] else [Transient; System]) [] false))
                        (nset (aconns a) i (mkAconn ep al None true al)) (astreams a)).
    assert (Eo : open_ips a1 false = open_ips a false ++ match ep with Some ip => [ip] | None => [] end).
    { rewrite !open_ips_oip. unfold a1. cbn [aconns]. rewrite (nset_fresh _ _ i _ Fa), flat_map_app. cbn [flat_map snd].
      unfold oip. cbn [ac_ep ac_open]. rewrite app_nil_r. reflexivity. }
    assert (Cap : LimCount c (lims st') (open_ips a1 false) /\
                  (forall ip, ep = Some ip -> cap_ok c (open_ips a1 false) ip = true)).
    { rewrite Eo. destruct ep as [ip|].
      - destruct (limiter_add c (lims st) ip) as [l1|] eqn:LA; [|destruct Ol as [_ N]; contradiction].
        rewrite Ol.
        assert (Lc' : LimCount c (lims st) (open_ips a false ++ [])) by (rewrite app_nil_r; exact Lc).
        destruct (limcount_add c (lims st) ip l1 (open_ips a false) [] Lc' LA) as [H1 H2].
        split; [exact H1|]. intros ip' E. inversion E; subst ip'. exact H2.
      - rewrite Ol, app_nil_r. split; [exact Lc | intros ip E; discriminate]. }
    destruct Cap as [Cl Ck]. split; [|intros ip E _; apply Ck, E].
    split; [exact Cl|]. split.
    + intros i0 ac G. unfold a1 in G. cbn [aconns] in G. rewrite nget_nset in G. destruct (Nat.eqb i i0) eqn:E.
      * apply Nat.eqb_eq in E. subst i0. inversion G; subst ac. exists ci. eexists. unfold a1. cbn [holders].
        rewrite hget_hset, sid_eqb_refl. split; [exact Gci|]. split; [reflexivity|]. cbn. split; [exact Eip | reflexivity].
      * apply Nat.eqb_neq in E. destruct (X i0 ac G) as (ci0 & h & Gc & Gh & R). exists ci0, h. unfold a1. cbn [holders].
        rewrite hget_hset. cbn [sid_eqb]. apply Nat.eqb_neq in E. rewrite E. apply Nat.eqb_neq in E.
        rewrite (Oc i0 ltac:(congruence)). split; [exact Gc | split; [exact Gh | exact R]].
    + intros i0 Hh. unfold a1 in *. cbn [holders aconns] in *. rewrite nget_nset. destruct (Nat.eqb i i0) eqn:E; [discriminate|].
      apply Xc. rewrite hget_hset in Hh. cbn [sid_eqb] in Hh. rewrite E in Hh. exact Hh.
  - (* refused: nothing is held afterwards *)
    cbn [hd]. split; [|intros ip _ N; subst cls; discriminate].
    split; [|split; [apply Xold; reflexivity | exact Xc]].
    destruct ep as [ip|]; [|rewrite Ol; exact Lc].
    destruct (limiter_add c (lims st) ip) as [l1|] eqn:LA.
    + rewrite Ol.
      assert (Lc' : LimCount c (lims st) (open_ips a false ++ [])) by (rewrite app_nil_r; exact Lc).
      destruct (limcount_add c (lims st) ip l1 (open_ips a false) [] Lc' LA) as [H1 _].
      pose proof (limcount_rm c l1 ip (open_ips a false) [] H1) as H2. rewrite app_nil_r in H2. exact H2.
    + destruct Ol as [-> _]. exact Lc.
Qed.

(* ---- Done on a connection --------------------------------------------------------------------------- *)
Lemma cap_done_conn : forall c st a i h,
  Inv c (scopes st) a -> CapInv c st a -> hget (holders a) (Conn i) = Some h ->
  CapInv c (fst (step c st (ODone (Conn i)))) (anext c st a (ODone (Conn i))).
Proof.
  intros c st a i h I (Lc & X & Xc) Gh. pose proof (I_wf _ _ _ I) as W.
  destruct (I_handle c _ a I (Conn i) h Gh eq_refl) as (sc & Gm & Pd & _).
  assert (Ed : is_done (scopes st) (Conn i) = h_dead h) by (unfold is_done; rewrite Gm; exact Pd).
  destruct (nget (aconns a) i) as [ac|] eqn:Ga; [|exfalso; apply (Xc i); [rewrite Gh; discriminate | exact Ga]].
  destruct (X i ac Ga) as (ci & h0 & Gci & Gh0 & Eip & Eop). rewrite Gh in Gh0. inversion Gh0; subst h0.
  unfold anext. cbn [step done_op fst astep].
  assert (Ek : aconns (kill a (Conn i)) = aconns a) by (unfold kill; rewrite Gh; reflexivity).
  rewrite Ek, Ga. cbn [hd].
  set (ac' := mkAconn (ac_ep ac) (ac_allow ac) (ac_peer ac) false (ac_adm ac)).
  set (a1 := mkAstate (holders (kill a (Conn i))) (nset (aconns a) i ac') (astreams (kill a (Conn i)))).
  assert (Hk : forall y, hget (holders (kill a (Conn i))) y =
               if sid_eqb (Conn i) y then Some (mkHolder stat0 (h_par h) (h_chain h) true) else hget (holders a) y).
  { intros y. unfold kill. rewrite Gh. cbn [holders]. apply hget_hset. }
  assert (Xl : XLink (conn_done c st i) a1 /\ XConv a1).
  { assert (Cs : conns (conn_done c st i) = conns st) by (unfold conn_done; destruct (is_done (scopes st) (Conn i)); reflexivity).
    split.
    - intros i0 ac0 G. unfold a1 in G. cbn [aconns] in G. rewrite nget_nset in G. unfold a1. cbn [holders]. rewrite Hk, Cs. cbn [sid_eqb].
      destruct (Nat.eqb i i0) eqn:E.
      + apply Nat.eqb_eq in E. subst i0. inversion G; subst ac0. exists ci. eexists. split; [exact Gci|]. split; [reflexivity|].
        cbn. split; [exact Eip | reflexivity].
      + destruct (X i0 ac0 G) as (ci0 & h0 & R). exists ci0, h0. exact R.
    - intros i0 Hh. unfold a1 in *. cbn [holders aconns] in *. rewrite nget_nset. destruct (Nat.eqb i i0) eqn:E; [discriminate|].
      apply Xc. rewrite Hk in Hh. cbn [sid_eqb] in Hh. rewrite E in Hh. exact Hh. }
  split; [|exact Xl].
  (* the limiter and the open endpoints *)
  destruct (nset_split _ (aconns a) i ac ac' Ga) as (A1 & A2 & E1 & E2).
  assert (Eo : open_ips a false = flat_map (fun e => oip (snd e)) A1 ++ oip ac ++ flat_map (fun e => oip (snd e)) A2).
  { rewrite open_ips_oip, E1, flat_map_app. reflexivity. }
  assert (Eo1 : open_ips a1 false = flat_map (fun e => oip (snd e)) A1 ++ flat_map (fun e => oip (snd e)) A2).
  { rewrite open_ips_oip. unfold a1. cbn [aconns]. rewrite E2, flat_map_app. cbn [flat_map snd].
    assert (Z0 : oip ac' = []) by (unfold oip, ac'; cbn; destruct (ac_ep ac); reflexivity). rewrite Z0. reflexivity. }
  unfold conn_done. rewrite Ed. destruct (h_dead h) eqn:D.
  - (* already closed: it is not among the open ones *)
    rewrite Eo1. rewrite Eo in Lc. unfold oip in Lc. rewrite Eop in Lc. cbn [negb] in Lc.
    destruct (ac_ep ac); cbn [app] in Lc; exact Lc.
  - cbn [lims]. rewrite Gci, Eip, Eo1. rewrite Eo in Lc. unfold oip in Lc. rewrite Eop in Lc. cbn [negb] in Lc.
    destruct (ac_ep ac) as [ip|]; cbn [app] in Lc; [apply limcount_rm, Lc | exact Lc].
Qed.

(* ---- every operation ---------------------------------------------------------------------------------- *)
Theorem cap_step : forall c st a o, cfg_ok c -> InvL c st a -> CapInv c st a ->
  match o with OGC => True | _ => wf_op2 c st a o end ->
  CapInv c (fst (step c st o)) (anextT c st a o) /\
  (forall i inb usefd ip, o = OOpenConn i inb usefd (Some ip) -> snd (step c st o) = 0 ->
     cap_ok c (open_ips (anextT c st a o) false) ip = true).
Proof.
  intros c st a o LO [I L] Ci Wf.
  assert (Oth : match o with OOpenConn _ _ _ _ | ODone (Conn _) => False | _ => True end ->
          (forall t, match o with OReserve t' _ _ | ORelease t' _ => t' = t | _ => False end -> is_handle t = true -> hget (holders a) t <> None) ->
          CapInv c (fst (step c st o)) (anextT c st a o) /\
          (forall i inb usefd ip, o = OOpenConn i inb usefd (Some ip) -> snd (step c st o) = 0 ->
             cap_ok c (open_ips (anextT c st a o) false) ip = true)).
  { intros No Hh. split; [apply cap_step_other; assumption|]. intros i inb usefd ip E. subst o. destruct No. }
  destruct o; cbn [wf_op2 wf_op] in Wf; try (apply Oth; [exact Logic.I | intros t0 X; try destruct X]).
  - rewrite (anextT_other c st a (OOpenConn i inb usefd ep) Logic.I).
    destruct (cap_open_conn c st a i inb usefd ep LO I L Ci Wf) as [H1 H2]. split; [exact H1|].
    intros i0 inb0 usefd0 ip E C. inversion E; subst. apply (H2 ip eq_refl C).
  - destruct Wf as (_ & _ & _ & Hh & _). apply (has_holder_if a t Hh).
  - destruct Wf as (_ & _ & Hh & _). apply (has_holder_if a t Hh).
  - destruct Wf as (Ht & Hh). destruct t; try (apply Oth; [exact Logic.I | intros t0 X; destruct X]).
    rewrite (anextT_other c st a (ODone (Conn i)) Logic.I). destruct (hget (holders a) (Conn i)) as [h|] eqn:G; [|contradiction].
    split; [apply (cap_done_conn c st a i h I Ci G) | intros i0 inb usefd ip E; discriminate E].
Qed.

(* C03 — concrete concurrent runs for the non-vacuity examples of Properties.v.  No proofs. *)
From Coq Require Import List ZArith Bool Arith.
From Verif Require Import lib.Wire c03.Int64 c03.Model c03.Spec c03.Conc.
Import ListNotations.
Local Open Scope Z_scope.

(* scope 0 = "system" (memory limit 100), scope 1 = "peer" (memory limit 10), every other
   scope (the holders' own) memory limit 50; counters limited to 4 *)
Definition ex_lim (s : nat) : limit :=
  match s with
  | O => mkLimit 100 4 4 4 4 4 4 4
  | S O => mkLimit 10 4 4 4 4 4 4 4
  | _ => mkLimit 50 4 4 4 4 4 4 4
  end.

(* two holders charged to system, then peer *)
Definition ex_hs : list cholder :=
  [mkCH 10 [0%nat; 1%nat] stat0 false Idle; mkCH 11 [0%nat; 1%nat] stat0 false Idle].

Definition tick (i : nat) : nat * cop := (i, ORelease (KStat stat0)).   (* ignored unless idle; never enabled when idle *)

(* holder 0 reserves 8 (accepted: start, self, system, peer, commit); holder 1 starts to
   reserve 5 and has charged itself and system when the prefix ends *)
Definition ex_prefix : list (nat * cop) :=
  [(0%nat, OReserve (KMem 8 255)); tick 0; tick 0; tick 0; tick 0;
   (1%nat, OReserve (KMem 5 255)); tick 1; tick 1].
(* ... the peer scope refuses (8 + 5 > 10) ... *)
Definition ex_refusal : list (nat * cop) := ex_prefix ++ [tick 1].
(* ... system and the holder itself are released again, the call returns *)
Definition ex_returned : list (nat * cop) := ex_refusal ++ [tick 1; tick 1; tick 1].
(* interleaved: both reservations in flight at once, holder 1 reaches peer first *)
Definition ex_interleaved : list (nat * cop) :=
  [(0%nat, OReserve (KMem 8 255)); (1%nat, OReserve (KMem 5 255)); tick 0; tick 1; tick 1; tick 0; tick 1; tick 0;
   tick 1; tick 0; tick 0; tick 0].

Definition use_at (sched : list (nat * cop)) (s : nat) : option (list Z) :=
  option_map (fun st => zstat (c_use st s)) (run ex_lim (init_cs ex_hs) sched).
Definition phase_at (sched : list (nat * cop)) (i : nat) : option phase :=
  match run ex_lim (init_cs ex_hs) sched with
  | Some st => option_map h_ph (nth_error (c_hs st) i)
  | None => None
  end.

(* a whole case: samples after the prefix (system), after the refusal (system), at the end (peer) *)
Definition ex_case : option ccase :=
  match trace_samples ex_lim (init_cs ex_hs)
          [(ex_prefix, 0%nat); ([tick 1], 0%nat); ([tick 1; tick 1; tick 1], 1%nat)] with
  | Some (smp, fin) => Some (model_case ex_lim smp fin [0%nat; 1%nat; 10%nat; 11%nat])
  | None => None
  end.

(* C03 — the invariant along arbitrary histories of the whole operation
   language except gc (SetPeer includes the allow-list transfer). *)
From Coq Require Import List ZArith Bool Arith Lia.
From Verif Require Import lib.Wire c03.Int64 c03.Model c03.Spec c03.Proofs_Int64 c03.Proofs_Base
     c03.Proofs_Sum c03.Proofs_Reach c03.Proofs_Link c03.Proofs_Targets c03.Proofs_Frames c03.Proofs_Frames2
     c03.Proofs_Frames3 c03.Proofs_Kill c03.Proofs_OpsMem c03.Proofs_Done c03.Proofs_OpsDone c03.Proofs_OpsNew
     c03.Proofs_OpsOpen c03.Proofs_Hist c03.Proofs_Link2 c03.Proofs_Transfer c03.Proofs_OpsRepar c03.Proofs_SetPeer.
Import ListNotations.
Local Open Scope Z_scope.

Definition InvL (c : config) (st : state) (a : astate) : Prop := Inv c (scopes st) a /\ Link st a.

(* callers' obligations for every operation but gc *)
Definition wf_op2 (c : config) (st : state) (a : astate) (o : op) : Prop :=
  match o with
  | OSetPeer i q =>
      (exists ac, nget (aconns a) i = Some ac) /\ novf (scopes st) (mem (use_of (scopes st) (Conn i)))
  | OSetProto j _ | OSetSvc j _ =>
      (exists s, nget (astreams a) j = Some s) /\ novf (scopes st) (mem (use_of (scopes st) (Stream j)))
  | OGC => False
  | _ => wf_op st a o
  end.

(* SetPeer: the successor is the candidate the model realises; it is also the
   one the monitor picks (every earlier candidate disagrees on the system scope) *)
Lemma set_peer_picked : forall c st a i q,
  cfg_ok c -> InvL c st a -> wf_op2 c st a (OSetPeer i q) ->
  let '(st', cls) := step c st (OSetPeer i q) in
  exists pre post, astep c a (OSetPeer i q) cls (o_aflag (model_obs st st' (OSetPeer i q) cls))
                   = pre ++ anextT c st a (OSetPeer i q) :: post /\
    InvL c st' (anextT c st a (OSetPeer i q)) /\
    (forall cand, In cand pre -> usage_A cand System <> usage_A (anextT c st a (OSetPeer i q)) System).
Proof.
  intros c st a i q LO [I L] ((ac & Ga) & Ov). pose proof (set_peer_full c st a i q ac LO I L Ga Ov) as H.
  unfold anextT. cbn [step]. destruct (set_peer c st i q) as [st' cls]. cbn [model_obs o_aflag].
  destruct H as (pre & a' & post & El & Ep & Ia & La & Hm). rewrite Ep.
  exists pre, post. split; [exact El|]. split; [split; assumption | exact Hm].
Qed.

Theorem step_inv2 : forall c st a o,
  cfg_ok c -> InvL c st a -> wf_op2 c st a o -> InvL c (fst (step c st o)) (anextT c st a o).
Proof.
  intros c st a o LO [I L] Wf.
  assert (Core : wf_op st a o -> match o with OSetPeer _ _ => False | _ => True end ->
                 InvL c (fst (step c st o)) (anextT c st a o)).
  { intros W No. rewrite (anextT_other c st a o No). split; [apply step_inv; assumption | apply link_core; assumption]. }
  destruct o; cbn [wf_op2] in Wf; try (apply Core; [exact Wf | exact Logic.I]); try contradiction.
  - pose proof (set_peer_picked c st a i q LO (conj I L) Wf) as H.
    destruct (step c st (OSetPeer i q)) as [st' cls]. destruct H as (pre & post & _ & H & _). exact H.
  - rewrite (anextT_other c st a (OSetProto j p) Logic.I). destruct Wf as ((s & Gs) & Ov). apply (set_proto_inv c st a j p s LO I L Gs Ov).
  - rewrite (anextT_other c st a (OSetSvc j s) Logic.I). destruct Wf as ((s0 & Gs) & Ov). apply (set_svc_inv c st a j s s0 LO I L Gs Ov).
Qed.

Fixpoint run_aT (c : config) (st : state) (a : astate) (ops : list op) : astate :=
  match ops with
  | [] => a
  | o :: r => run_aT c (fst (step c st o)) (anextT c st a o) r
  end.

Fixpoint wf_hist2 (c : config) (st : state) (a : astate) (ops : list op) : Prop :=
  match ops with
  | [] => True
  | o :: r => wf_op2 c st a o /\ wf_hist2 c (fst (step c st o)) (anextT c st a o) r
  end.

Lemma init_link : forall c, Link (init_state c) astate0.
Proof. intros c. split; intros k x H; discriminate. Qed.

Theorem history_inv2_from : forall c ops st a,
  cfg_ok c -> InvL c st a -> wf_hist2 c st a ops -> InvL c (run c st ops) (run_aT c st a ops).
Proof.
  intros c ops. induction ops as [|o r IH]; intros st a LO I Wf; [exact I|].
  cbn [run run_aT]. destruct Wf as [W1 W2]. apply IH; [exact LO | apply step_inv2; assumption | exact W2].
Qed.

Theorem history_inv2 : forall c ops,
  cfg_ok c -> wf_hist2 c (init_state c) astate0 ops ->
  InvL c (run c (init_state c) ops) (run_aT c (init_state c) astate0 ops).
Proof.
  intros c ops LO Wf. apply history_inv2_from; [exact LO | split; [apply init_inv, LO | apply init_link] | exact Wf].
Qed.

Corollary usage_is_sum2 : forall c ops t,
  cfg_ok c -> wf_hist2 c (init_state c) astate0 ops ->
  use_of (scopes (run c (init_state c) ops)) t = usage_A (run_aT c (init_state c) astate0 ops) t.
Proof. intros c ops t LO Wf. apply (I_num _ _ _ (proj1 (history_inv2 c ops LO Wf))). Qed.

Corollary within_limits2 : forall c ops t sc,
  cfg_ok c -> wf_hist2 c (init_state c) astate0 ops ->
  get (scopes (run c (init_state c) ops)) t = Some sc ->
  nonneg (s_use sc) /\ fits (s_lim sc) (s_use sc) /\ (is_handle t = false -> s_lim sc = limit_of c t).
Proof.
  intros c ops t sc LO Wf G. pose proof (proj1 (history_inv2 c ops LO Wf)) as I.
  destruct (I_good _ _ _ I t sc G) as (_ & N & F). split; [exact N|]. split; [exact F|].
  intros Hh. apply (I_static _ _ _ I t sc G Hh).
Qed.

(* SetPeer has to move the connection to the standard scopes first
   (transferAllowedToStandard): allow-listed and the peer is not allowed at this
   address, or left without edges by an earlier refused transfer *)
Definition transfers (c : config) (a : astate) (o : op) : bool :=
  match o with
  | OSetPeer i q =>
      match nget (aconns a) i with
      | Some ac =>
          match ac_peer ac with
          | Some _ => false
          | None => (ac_allow ac && negb (ep_allowed_peer c q (ac_ep ac))) ||
                    match a_par a (Conn i) with [] => true | _ => false end
          end
      | None => false
      end
  | _ => false
  end.

(* an operation that answers an error changes no counter of any scope and no
   holder: this includes the refused re-parenting steps SetProtocol, SetService
   and SetPeer without transfer, which leave the connection / stream charged
   exactly where it was *)
Corollary refusal_is_noop2 : forall c st a o t,
  cfg_ok c -> InvL c st a -> wf_op2 c st a o -> transfers c a o = false ->
  snd (step c st o) <> 0 ->
  match o with ORelease _ _ | ODone _ => False | _ => True end ->
  use_of (scopes (fst (step c st o))) t = use_of (scopes st) t /\
  anextT c st a o = a.
Proof.
  intros c st a o t LO IL Wf Nt Hc Ho. pose proof (step_inv2 c st a o LO IL Wf) as [I' _]. destruct IL as [I L].
  assert (E : anextT c st a o = a).
  { destruct o; try (rewrite (anextT_other c st a _ Logic.I)); unfold anextT, anext; destruct (step c st _) as [st' cls]; cbn [snd] in Hc;
      assert (C : (cls =? 0) = false) by (apply Z.eqb_neq, Hc);
      cbn [astep wf_op2 wf_op model_obs o_aflag] in *; try contradiction; rewrite ?C; try reflexivity.
    - destruct Wf as ((ac & Ga) & _). cbn [transfers] in Nt. rewrite Ga in *. destruct (ac_peer ac) eqn:Ap; [apply pickT_single|].
      apply orb_false_iff in Nt. destruct Nt as [N1 N2].
      replace (ac_allow ac && negb (ac_allow ac && ep_allowed_peer c q (ac_ep ac))) with false.
      2:{ destruct (ac_allow ac); [|reflexivity]. cbn [andb] in *. symmetry. exact N1. }
      destruct (a_par a (Conn i)); [discriminate | apply pickT_single].
    - destruct Wf as ((s & Gs) & _). rewrite Gs. destruct (as_proto s); reflexivity.
    - destruct Wf as ((s0 & Gs) & _). rewrite Gs. destruct (as_svc s0); [reflexivity|]. destruct (as_proto s0); reflexivity. }
  rewrite E in *. split; [|reflexivity]. rewrite (I_num _ _ _ I' t), (I_num _ _ _ I t). reflexivity.
Qed.

(* a refused SetPeer - also one that had to take the connection off the
   allow-list - leaves the connection charged exactly once to each scope of a
   consistent parent set: where it was, or {} (released from the allow-listed
   pair / never re-charged, refused by system or transient: the documented
   intermediate state), or {system, transient} (moved, refused by the peer
   scope); and every scope's usage is the sum of its holders for that set *)
Theorem reparent_refused_consistent : forall c st a i q,
  cfg_ok c -> InvL c st a -> wf_op2 c st a (OSetPeer i q) -> snd (step c st (OSetPeer i q)) <> 0 ->
  let a' := anextT c st a (OSetPeer i q) in
  InvL c (fst (step c st (OSetPeer i q))) a' /\
  (a' = a \/ ((a_par a' (Conn i) = [] \/ a_par a' (Conn i) = [System; Transient]) /\ transfers c a (OSetPeer i q) = true)) /\
  NoDup (Conn i :: a_par a' (Conn i)).
Proof.
  intros c st a i q LO IL Wf Hc a'. pose proof (set_peer_picked c st a i q LO IL Wf) as H.
  pose proof (step_inv2 c st a _ LO IL Wf) as IL'. fold a' in IL'. split; [exact IL'|].
  split; [|apply a_par_nodup, (I_wf _ _ _ (proj1 IL'))].
  destruct (step c st (OSetPeer i q)) as [st' cls]. cbn [snd fst model_obs o_aflag] in *. fold a' in H.
  destruct H as (pre & post & El & _ & _). destruct Wf as ((ac & Ga) & _).
  assert (Hin : In a' (astep c a (OSetPeer i q) cls 0)) by (rewrite El; apply in_or_app; right; left; reflexivity).
  destruct (proj1 (proj2 IL) i ac Ga) as (ci & h & _ & Gh & _).
  assert (C : (cls =? 0) = false) by (apply Z.eqb_neq, Hc).
  destruct (ac_peer ac) eqn:Ap.
  { cbn [astep] in Hin. rewrite Ga, Ap, C in Hin. destruct Hin as [<-|[]]. left. reflexivity. }
  rewrite (astep_setpeer c a i q ac cls Ga Ap) in Hin. cbv zeta in Hin. rewrite C in Hin.
  cbn [transfers]. rewrite Ga, Ap.
  destruct (moved_fields a i ac h [] Gh) as (E1 & _). destruct (moved_fields a i ac h [System; Transient] Gh) as (S1 & _).
  destruct (ac_allow ac && negb (ac_allow ac && ep_allowed_peer c q (ac_ep ac))) eqn:T.
  - assert (T' : ac_allow ac && negb (ep_allowed_peer c q (ac_ep ac)) = true) by (destruct (ac_allow ac); [exact T | discriminate]).
    rewrite T'. cbn [orb]. destruct Hin as [<-|[<-|[<-|[]]]]; [right | right | left; reflexivity].
    + split; [left; apply (a_par_repar a _ i h [] E1) | reflexivity].
    + split; [right; apply (a_par_repar a _ i h _ S1) | reflexivity].
  - destruct (a_par a (Conn i)) eqn:Pa.
    + rewrite orb_true_r. destruct Hin as [<-|[<-|[]]]; [left; reflexivity | right].
      split; [right; apply (a_par_repar a _ i h _ S1) | reflexivity].
    + destruct Hin as [<-|[]]. left. reflexivity.
Qed.

(* an accepted SetPeer leaves the connection charged to the peer scope and to
   the (allow-listed) system scope - also when it was charged to no scope before *)
Theorem setpeer_ok_charges : forall c st a i q ac,
  cfg_ok c -> InvL c st a -> wf_op2 c st a (OSetPeer i q) -> nget (aconns a) i = Some ac ->
  snd (step c st (OSetPeer i q)) = 0 ->
  InvL c (fst (step c st (OSetPeer i q))) (anextT c st a (OSetPeer i q)) /\
  a_par (anextT c st a (OSetPeer i q)) (Conn i) =
    [Peer q; if ac_allow ac && ep_allowed_peer c q (ac_ep ac) then ASystem else System].
Proof.
  intros c st a i q ac LO IL Wf Ga Hc. split; [apply step_inv2; assumption|].
  pose proof (set_peer_picked c st a i q LO IL Wf) as H.
  destruct (step c st (OSetPeer i q)) as [st' cls]. cbn [snd fst model_obs o_aflag] in *. subst cls.
  destruct H as (pre & post & El & _ & _).
  destruct (proj1 (proj2 IL) i ac Ga) as (ci & h & Gci & Gh & Epe & _).
  destruct (ac_peer ac) eqn:Ap.
  { cbn [astep] in El. rewrite Ga, Ap in El. cbn in El. destruct pre; discriminate. }
  rewrite (astep_setpeer c a i q ac 0 Ga Ap) in El. cbv zeta in El. cbn [Z.eqb] in El.
  assert (E : anextT c st a (OSetPeer i q) = ok_state a i q ac (ac_allow ac && ep_allowed_peer c q (ac_ep ac))).
  { destruct pre as [|x pre]; cbn in El; inversion El as [[X1 X2]]; [reflexivity | destruct pre; discriminate]. }
  rewrite E. unfold ok_state. unfold a_par. cbn [holders].
  destruct (set_par_fields a (Conn i) h [Peer q; if ac_allow ac && ep_allowed_peer c q (ac_ep ac) then ASystem else System] Gh) as (F1 & _).
  rewrite F1, hget_repar, sid_eqb_refl. reflexivity.
Qed.

Corollary release_all_zero2 : forall c ops t,
  cfg_ok c -> wf_hist2 c (init_state c) astate0 ops ->
  (forall y h, In (y, h) (holders (run_aT c (init_state c) astate0 ops)) -> h_dead h = true \/ h_own h = stat0) ->
  use_of (scopes (run c (init_state c) ops)) t = stat0.
Proof.
  intros c ops t LO Wf Z. pose proof (proj1 (history_inv2 c ops LO Wf)) as I.
  rewrite (I_num _ _ _ I t), usage_A_sumc. apply sumc_zero. intros y h Hi.
  destruct (Z y h Hi) as [D|E]; [|exact E].
  apply (W_own _ (I_wf _ _ _ I) y h); [|exact D].
  apply in_hget_k; [apply (W_keys _ (I_wf _ _ _ I)) | exact Hi].
Qed.

(* C03 — the invariant along arbitrary histories of the whole operation
   language except gc and the allow-list transfer inside SetPeer. *)
From Coq Require Import List ZArith Bool Arith Lia.
From Verif Require Import lib.Wire c03.Int64 c03.Model c03.Spec c03.Proofs_Int64 c03.Proofs_Base
     c03.Proofs_Sum c03.Proofs_Reach c03.Proofs_Link c03.Proofs_Targets c03.Proofs_Frames c03.Proofs_Frames2
     c03.Proofs_Frames3 c03.Proofs_Kill c03.Proofs_OpsMem c03.Proofs_Done c03.Proofs_OpsDone c03.Proofs_OpsNew
     c03.Proofs_OpsOpen c03.Proofs_Hist c03.Proofs_Link2 c03.Proofs_OpsRepar.
Import ListNotations.
Local Open Scope Z_scope.

Definition InvL (c : config) (st : state) (a : astate) : Prop := Inv c (scopes st) a /\ Link st a.

(* callers' obligations for every operation but gc; for SetPeer the allow-list
   transfer (allow-listed connection, peer not allowed at that address) is excluded *)
Definition wf_op2 (c : config) (st : state) (a : astate) (o : op) : Prop :=
  match o with
  | OSetPeer i q =>
      exists ac, nget (aconns a) i = Some ac /\
                 (ac_peer ac = None -> ac_allow ac = false \/ ep_allowed_peer c q (ac_ep ac) = true) /\
                 novf (scopes st) (mem (use_of (scopes st) (Conn i)))
  | OSetProto j _ | OSetSvc j _ =>
      (exists s, nget (astreams a) j = Some s) /\ novf (scopes st) (mem (use_of (scopes st) (Stream j)))
  | OGC => False
  | _ => wf_op st a o
  end.

Theorem step_inv2 : forall c st a o,
  cfg_ok c -> InvL c st a -> wf_op2 c st a o -> InvL c (fst (step c st o)) (anext c st a o).
Proof.
  intros c st a o LO [I L] Wf.
  assert (Core : wf_op st a o -> InvL c (fst (step c st o)) (anext c st a o)).
  { intros W. split; [apply step_inv; assumption | apply link_core; assumption]. }
  destruct o; cbn [wf_op2] in Wf; try (apply Core; exact Wf); try contradiction.
  - destruct Wf as (ac & Ga & Hno & Ov). apply (set_peer_inv c st a i q ac LO I L Ga Hno Ov).
  - destruct Wf as ((s & Gs) & Ov). apply (set_proto_inv c st a j p s LO I L Gs Ov).
  - destruct Wf as ((s0 & Gs) & Ov). apply (set_svc_inv c st a j s s0 LO I L Gs Ov).
Qed.

Fixpoint wf_hist2 (c : config) (st : state) (a : astate) (ops : list op) : Prop :=
  match ops with
  | [] => True
  | o :: r => wf_op2 c st a o /\ wf_hist2 c (fst (step c st o)) (anext c st a o) r
  end.

Lemma init_link : forall c, Link (init_state c) astate0.
Proof. intros c. split; intros k x H; discriminate. Qed.

Theorem history_inv2_from : forall c ops st a,
  cfg_ok c -> InvL c st a -> wf_hist2 c st a ops -> InvL c (run c st ops) (run_a c st a ops).
Proof.
  intros c ops. induction ops as [|o r IH]; intros st a LO I Wf; [exact I|].
  cbn [run run_a]. destruct Wf as [W1 W2]. apply IH; [exact LO | apply step_inv2; assumption | exact W2].
Qed.

Theorem history_inv2 : forall c ops,
  cfg_ok c -> wf_hist2 c (init_state c) astate0 ops ->
  InvL c (run c (init_state c) ops) (run_a c (init_state c) astate0 ops).
Proof.
  intros c ops LO Wf. apply history_inv2_from; [exact LO | split; [apply init_inv, LO | apply init_link] | exact Wf].
Qed.

Corollary usage_is_sum2 : forall c ops t,
  cfg_ok c -> wf_hist2 c (init_state c) astate0 ops ->
  use_of (scopes (run c (init_state c) ops)) t = usage_A (run_a c (init_state c) astate0 ops) t.
Proof. intros c ops t LO Wf. apply (I_num _ _ _ (proj1 (history_inv2 c ops LO Wf))). Qed.

Corollary within_limits2 : forall c ops t sc,
  cfg_ok c -> wf_hist2 c (init_state c) astate0 ops ->
  get (scopes (run c (init_state c) ops)) t = Some sc ->
  nonneg (s_use sc) /\ fits (s_lim sc) (s_use sc) /\ (is_handle t = false -> s_lim sc = limit_of c t).
Proof.
  intros c ops t sc LO Wf G. pose proof (proj1 (history_inv2 c ops LO Wf)) as I.
  destruct (I_good _ _ _ I t sc G) as (_ & N & F). split; [exact N|]. split; [exact F|].
  intros Hh. apply (I_static _ _ _ I t sc G Hh).
Qed.

(* an operation that answers an error changes no counter of any scope: this
   includes the refused re-parenting steps, which leave the connection / stream
   charged exactly where it was *)
Corollary refusal_is_noop2 : forall c st a o t,
  cfg_ok c -> InvL c st a -> wf_op2 c st a o ->
  snd (step c st o) <> 0 ->
  match o with ORelease _ _ | ODone _ => False | _ => True end ->
  use_of (scopes (fst (step c st o))) t = use_of (scopes st) t /\
  holders (anext c st a o) = holders a.
Proof.
  intros c st a o t LO IL Wf Hc Ho. pose proof (step_inv2 c st a o LO IL Wf) as [I' _]. destruct IL as [I L].
  assert (E : anext c st a o = a).
  { unfold anext. destruct (step c st o) as [st' cls]. cbn [snd] in Hc.
    assert (C : (cls =? 0) = false) by (apply Z.eqb_neq, Hc).
    destruct o; cbn [astep wf_op2 wf_op] in *; try contradiction; rewrite ?C; try reflexivity.
    - destruct Wf as (ac & Ga & Hno & _). rewrite Ga. destruct (ac_peer ac) eqn:Ap; [reflexivity|].
      specialize (Hno eq_refl).
      replace (ac_allow ac && negb (ac_allow ac && ep_allowed_peer c q (ac_ep ac))) with false.
      2:{ destruct (ac_allow ac); [|reflexivity]. destruct Hno as [X|X]; [discriminate | rewrite X; reflexivity]. }
      destruct (conn_par_nonempty st a i ac L Ga Ap) as (x0 & l0 & Ex). rewrite Ex. reflexivity.
    - destruct Wf as ((s & Gs) & _). rewrite Gs. destruct (as_proto s); reflexivity.
    - destruct Wf as ((s0 & Gs) & _). rewrite Gs. destruct (as_svc s0); [reflexivity|]. destruct (as_proto s0); reflexivity. }
  rewrite E in *. split; [|reflexivity]. rewrite (I_num _ _ _ I' t), (I_num _ _ _ I t). reflexivity.
Qed.

Corollary release_all_zero2 : forall c ops t,
  cfg_ok c -> wf_hist2 c (init_state c) astate0 ops ->
  (forall y h, In (y, h) (holders (run_a c (init_state c) astate0 ops)) -> h_dead h = true \/ h_own h = stat0) ->
  use_of (scopes (run c (init_state c) ops)) t = stat0.
Proof.
  intros c ops t LO Wf Z. pose proof (proj1 (history_inv2 c ops LO Wf)) as I.
  rewrite (I_num _ _ _ I t), usage_A_sumc. apply sumc_zero. intros y h Hi.
  destruct (Z y h Hi) as [D|E]; [|exact E].
  apply (W_own _ (I_wf _ _ _ I) y h); [|exact D].
  apply in_hget_k; [apply (W_keys _ (I_wf _ _ _ I)) | exact Hi].
Qed.

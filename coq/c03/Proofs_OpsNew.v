(* C03 — per-operation preservation: BeginSpan, OpenStream, OpenConnection. *)
From Coq Require Import List ZArith Bool Arith Lia.
From Verif Require Import lib.Wire c03.Int64 c03.Model c03.Spec c03.Proofs_Int64 c03.Proofs_Base
     c03.Proofs_Sum c03.Proofs_Reach c03.Proofs_Link c03.Proofs_Targets c03.Proofs_Frames c03.Proofs_Frames2
     c03.Proofs_Frames3 c03.Proofs_Kill c03.Proofs_OpsMem c03.Proofs_Done c03.Proofs_OpsDone.
Import ListNotations.
Local Open Scope Z_scope.

(* the limit of a scope is the configured limit of the scope at the top of its owner chain *)
Lemma lim_link : forall c m a t sc, Inv c m a -> known m a t -> get m t = Some sc ->
  s_lim sc = limit_of c (last (a_chain a t) t).
Proof.
  intros c m a t sc I K Gm. pose proof (I_wf c m a I) as W. unfold known in K.
  destruct (is_handle t) eqn:Hh.
  - destruct (hget (holders a) t) as [h|] eqn:G; [|contradiction].
    destruct (I_handle c m a I t h G Hh) as (sc0 & Gm0 & _ & _ & _ & Pl). rewrite Gm in Gm0. inversion Gm0; subst sc0.
    rewrite Pl. unfold a_limit. destruct t; try discriminate; try reflexivity;
      (assert (E : a_chain a _ = []) by (unfold a_chain; rewrite G; apply (W_leaf a W _ h G eq_refl)); rewrite E; reflexivity).
  - destruct (I_static c m a I t sc Gm Hh) as (_ & _ & _ & Pl). rewrite Pl.
    assert (E : a_chain a t = []).
    { unfold a_chain. destruct (hget (holders a) t) as [h|] eqn:G; [apply (W_static a W t h G Hh) | reflexivity]. }
    rewrite E. reflexivity.
Qed.

Lemma known_extends : forall c m m' a t, extends c m m' -> known m a t -> known m' a t.
Proof.
  intros c m m' a t E K. unfold known in *. destruct (is_handle t); [exact K | apply (extends_present c m m' t E K)].
Qed.

Theorem begin_span_inv : forall c st a t k,
  cfg_ok c -> Inv c (scopes st) a -> view_target t = true -> has_holder a t = true ->
  hget (holders a) (Span k) = None ->
  let '(st', cls) := begin_span c st t k in
  Inv c (scopes st')
      (if cls =? 0
       then mkAstate (hset (holders a) (Span k) (mkHolder stat0 [] (t :: a_chain a t) false)) (aconns a) (astreams a)
       else a).
Proof.
  intros c st a t k LO I V Hh Hf. unfold begin_span.
  pose proof (has_holder_if a t Hh) as K.
  pose proof (extends_view_enter c (scopes st) a t I) as E0.
  set (m0 := view_enter c (scopes st) t) in *.
  assert (I0 : Inv c m0 a) by (apply (Inv_extends c (scopes st) m0 a LO I E0)).
  pose proof (view_enter_known c (scopes st) a t I V K) as Kn. fold m0 in Kn.
  destruct (get m0 t) as [sc|] eqn:Gm.
  2:{ cbn [scopes with_scopes]. apply (Inv_extends c m0 _ a LO I0), extends_view_leave. }
  destruct (s_done sc) eqn:Dn.
  { cbn [scopes with_scopes]. apply (Inv_extends c m0 _ a LO I0), extends_view_leave. }
  cbn [scopes with_scopes]. replace (E_OK =? 0) with true by reflexivity.
  apply (Inv_extends c (set (incref m0 t) (Span k) (mkScope (s_lim sc) stat0 false 0 (t :: s_chain sc) [])) _ _ LO);
    [|apply extends_view_leave].
  pose proof (extends_incref c m0 t) as E1.
  assert (I1 : Inv c (incref m0 t) a) by (apply (Inv_extends c m0 _ a LO I0 E1)).
  assert (Da : a_dead a t = false).
  { rewrite <- (done_link c m0 a t I0 Kn). unfold is_done. rewrite Gm. exact Dn. }
  assert (Ec : s_chain sc = a_chain a t).
  { rewrite <- (chain_of_link c m0 a t I0 K). unfold chain_of. rewrite Gm. reflexivity. }
  rewrite Ec.
  set (a' := mkAstate (hset (holders a) (Span k) (mkHolder stat0 [] (t :: a_chain a t) false)) (aconns a) (astreams a)).
  pose proof (Inv_new_holder c (incref m0 t) a a' (Span k) [] (t :: a_chain a t) (s_lim sc) 0 I1 eq_refl Hf) as H.
  cbn [leaf] in H. apply H.
  - right. split; [reflexivity|]. split; [reflexivity|]. exists t. split; [reflexivity|].
    split; [apply (known_extends c m0 _ a t E1 Kn) | exact Da].
  - apply (I_good c m0 a I0 t sc Gm).
  - reflexivity.
  - unfold a_limit, a', a_chain. cbn [holders]. rewrite hget_hset, sid_eqb_refl. cbn [h_chain].
    rewrite last_cons. apply (lim_link c m0 a t sc I0 Kn Gm).
Qed.

(* ---- a refused OpenConnection / OpenStream: the new scope is closed again -------------- *)
Lemma kind_ok_zero : kind_ok (KStat stat0).
Proof. cbn. split; [stat_crush | cbn; unfold max_int64; lia]. Qed.

Lemma use_nonneg : forall m x, all_good m -> nonneg (use_of m x).
Proof.
  intros m x Gd. unfold use_of. destruct (get m x) as [sc|] eqn:G; [apply (Gd x sc G) | stat_crush].
Qed.

Lemma use_mem_le : forall m x, all_good m -> mem (use_of m x) <= max_int64.
Proof.
  intros m x Gd. unfold use_of. destruct (get m x) as [sc|] eqn:G; [apply good_mem_le, (Gd x sc G) | cbn; unfold max_int64; lia].
Qed.

Lemma uncharge_one_zero : forall e m, all_good m -> forall x, use_of (uncharge_one e (KStat stat0) m) x = use_of m x.
Proof.
  intros e m Gd x. destruct (uncharge_one_props e (KStat stat0) m kind_ok_zero Gd) as (_ & _ & Oth & _ & Ex & Dn).
  destruct (sid_dec x e) as [->|Hne]; [|apply Oth, Hne].
  destruct (is_done m e) eqn:D; [apply Dn; reflexivity|]. rewrite (Ex eq_refl).
  - cbn [kdelta]. generalize (use_of m e). intros []. unfold stat_sub, stat0; cbn. f_equal; lia.
  - cbn [kdelta]. pose proof (use_nonneg m e Gd) as N. revert N. generalize (use_of m e). intros. stat_crush.
Qed.

Lemma uncharge_dec_zero : forall l m, all_good m ->
  all_good (uncharge_dec l (KStat stat0) m) /\
  (forall x, shape_of (uncharge_dec l (KStat stat0) m) x = shape_of m x) /\
  (forall x, use_of (uncharge_dec l (KStat stat0) m) x = use_of m x).
Proof.
  induction l as [|e r IH]; intros m Gd; [split; [exact Gd | split; reflexivity]|].
  unfold uncharge_dec in *. cbn [fold_left].
  destruct (uncharge_one_props e (KStat stat0) m kind_ok_zero Gd) as (Sh & Gd1 & _).
  destruct (IH (decref (uncharge_one e (KStat stat0) m) e) (decref_good _ _ Gd1)) as (G2 & S2 & U2).
  split; [exact G2|]. split.
  - intros x. rewrite S2, decref_shape. apply Sh.
  - intros x. rewrite U2, decref_use. apply uncharge_one_zero, Gd.
Qed.

(* Done on an open leaf scope that holds nothing *)
Lemma scope_done_zero : forall m s sc, all_good m -> get m s = Some sc -> s_done sc = false ->
  s_chain sc = [] -> s_use sc = stat0 ->
  (forall y, y <> s -> shape_of (scope_done m s) y = shape_of m y /\ use_of (scope_done m s) y = use_of m y) /\
  (exists sc', get (scope_done m s) s = Some sc' /\ s_done sc' = true /\ s_use sc' = stat0 /\ s_lim sc' = s_lim sc).
Proof.
  intros m s sc Gd G Dn Ec Eu. unfold scope_done. rewrite G, Dn, Ec, Eu.
  fold (uncharge_dec (s_edges sc) (KStat stat0) m).
  destruct (uncharge_dec_zero (s_edges sc) m Gd) as (G1 & S1 & U1). split.
  - intros y Hne. unfold shape_of, use_of. rewrite get_upd.
    destruct (sid_eqb s y) eqn:X; [apply sid_eqb_eq in X; congruence|].
    split; [apply S1 | apply U1].
  - destruct (shape_get m _ s sc (S1 s) G) as (sc1 & Gs & Q1 & _).
    exists (set_done sc1). rewrite get_upd, sid_eqb_refl, Gs. cbn. repeat split. exact Q1.
Qed.

(* a closed, empty handle scope that nobody holds does not matter *)
Lemma Inv_garbage : forall c m m' a s sc',
  Inv c m a -> is_handle s = true -> hget (holders a) s = None ->
  (forall y, y <> s -> shape_of m' y = shape_of m y /\ use_of m' y = use_of m y) ->
  get m' s = Some sc' -> s_done sc' = true -> s_use sc' = stat0 -> lim_ok (s_lim sc') ->
  Inv c m' a.
Proof.
  intros c m m' a s sc' I Hs Hf Oth Gs Dn Zu Ll. pose proof (I_wf c m a I) as W.
  assert (Pres : forall q, q <> s -> get m q <> None -> get m' q <> None).
  { intros q Hne Gq. apply (shape_present m m' q (proj1 (Oth q Hne)) Gq). }
  assert (Us : use_of m s = stat0).
  { unfold use_of. destruct (get m s) as [sc|] eqn:G; [apply (I_garbage c m a I s sc G Hs Hf) | reflexivity]. }
  constructor.
  - exact W.
  - intros x scx Gx. destruct (sid_dec x s) as [->|Hne].
    + rewrite Gs in Gx. inversion Gx; subst scx. split; [exact Ll|]. rewrite Zu.
      destruct Ll as (H1 & H2 & H3 & H4 & H5 & H6 & H7 & H8). split; [stat_crush | unfold fits; cbn; repeat split; lia].
    + destruct (Oth x Hne) as [Sx Ux]. unfold shape_of in Sx. rewrite Gx in Sx.
      destruct (get m x) as [sc|] eqn:G; cbn in Sx; [|discriminate]. unfold shape in Sx. inversion Sx as [[E1 E2 E3 E4]].
      destruct (I_good c m a I x sc G) as (L & N & F).
      rewrite (use_of_get m' x scx Gx), (use_of_get m x sc G) in Ux. split; [rewrite E1; exact L | rewrite Ux, E1; split; assumption].
  - intros x scx Gx Hh. assert (Hne : x <> s) by (intros ->; congruence).
    destruct (Oth x Hne) as [Sx _]. unfold shape_of in Sx. rewrite Gx in Sx.
    destruct (get m x) as [sc|] eqn:G; cbn in Sx; [|discriminate]. unfold shape in Sx. inversion Sx as [[E1 E2 E3 E4]].
    rewrite E1, E2, E3, E4. apply (I_static c m a I x sc G Hh).
  - destruct (I_base c m a I) as (B1 & B2 & B3 & B4).
    repeat split; (apply Pres; [intros X; rewrite <- X in Hs; discriminate Hs | assumption]).
  - intros y h G Hh. assert (Hne : y <> s) by (intros ->; congruence).
    destruct (I_handle c m a I y h G Hh) as (sc & Gm & P).
    destruct (shape_get m m' y sc (proj1 (Oth y Hne)) Gm) as (scy & Gy & Q1 & Q2 & Q3 & Q4).
    exists scy. rewrite Q1, Q2, Q3, Q4. split; assumption.
  - intros y h G D. destruct (I_present c m a I y h G D) as [P1 P2]. split.
    + intros q Hq. apply Pres; [|apply P1, Hq]. intros ->. apply (a_par_static a y s W) in Hq. congruence.
    + intros o Ho Hst. apply Pres; [intros ->; congruence | apply (P2 o Ho Hst)].
  - intros y scy Gy Hh Hn. destruct (sid_dec y s) as [->|Hne].
    + rewrite Gs in Gy. inversion Gy; subst scy. split; assumption.
    + destruct (Oth y Hne) as [Sy Uy]. unfold shape_of in Sy. rewrite Gy in Sy.
      destruct (get m y) as [sc|] eqn:G; cbn in Sy; [|discriminate]. unfold shape in Sy. inversion Sy as [[E1 E2 E3 E4]].
      destruct (I_garbage c m a I y sc G Hh Hn) as [D Z]. split; [rewrite E2; exact D|].
      rewrite <- (use_of_get m' y scy Gy), Uy, (use_of_get m y sc G). exact Z.
  - intros x. rewrite <- (I_num c m a I x). destruct (sid_dec x s) as [->|Hne].
    + rewrite Us. rewrite (use_of_get m' s sc' Gs). exact Zu.
    + apply (Oth x Hne).
Qed.

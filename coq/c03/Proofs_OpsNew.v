(* C03 — per-operation preservation: BeginSpan, OpenStream, OpenConnection. *)
From Coq Require Import List ZArith Bool Arith Lia.
From Verif Require Import lib.Wire c03.Int64 c03.Model c03.Spec c03.Proofs_Int64 c03.Proofs_Base
     c03.Proofs_Sum c03.Proofs_Reach c03.Proofs_Link c03.Proofs_Targets c03.Proofs_Frames c03.Proofs_Frames2
     c03.Proofs_Frames3 c03.Proofs_Kill c03.Proofs_OpsMem c03.Proofs_Done c03.Proofs_OpsDone.
Import ListNotations.
Local Open Scope Z_scope.

(* the limit of a scope is the configured limit of the scope at the top of its owner chain *)
Lemma lim_link : forall c m a t sc, Inv c m a -> known m a t -> get m t = Some sc ->
  s_lim sc = limit_of c (last (a_chain a t) t).
Proof.
  intros c m a t sc I K Gm. pose proof (I_wf c m a I) as W. unfold known in K.
  destruct (is_handle t) eqn:Hh.
  - destruct (hget (holders a) t) as [h|] eqn:G; [|contradiction].
    destruct (I_handle c m a I t h G Hh) as (sc0 & Gm0 & _ & _ & _ & Pl). rewrite Gm in Gm0. inversion Gm0; subst sc0.
    rewrite Pl. unfold a_limit. destruct t; try discriminate; try reflexivity;
      (assert (E : a_chain a _ = []) by (unfold a_chain; rewrite G; apply (W_leaf a W _ h G eq_refl)); rewrite E; reflexivity).
  - destruct (I_static c m a I t sc Gm Hh) as (_ & _ & _ & Pl). rewrite Pl.
    assert (E : a_chain a t = []).
    { unfold a_chain. destruct (hget (holders a) t) as [h|] eqn:G; [apply (W_static a W t h G Hh) | reflexivity]. }
    rewrite E. reflexivity.
Qed.

Lemma known_extends : forall c m m' a t, extends c m m' -> known m a t -> known m' a t.
Proof.
  intros c m m' a t E K. unfold known in *. destruct (is_handle t); [exact K | apply (extends_present c m m' t E K)].
Qed.

Theorem begin_span_inv : forall c st a t k,
  cfg_ok c -> Inv c (scopes st) a -> view_target t = true -> has_holder a t = true ->
  hget (holders a) (Span k) = None ->
  let '(st', cls) := begin_span c st t k in
  Inv c (scopes st')
      (if cls =? 0
       then mkAstate (hset (holders a) (Span k) (mkHolder stat0 [] (t :: a_chain a t) false)) (aconns a) (astreams a)
       else a).
Proof.
  intros c st a t k LO I V Hh Hf. unfold begin_span.
  pose proof (has_holder_if a t Hh) as K.
  pose proof (extends_view_enter c (scopes st) a t I) as E0.
  set (m0 := view_enter c (scopes st) t) in *.
  assert (I0 : Inv c m0 a) by (apply (Inv_extends c (scopes st) m0 a LO I E0)).
  pose proof (view_enter_known c (scopes st) a t I V K) as Kn. fold m0 in Kn.
  destruct (get m0 t) as [sc|] eqn:Gm.
  2:{ cbn [scopes with_scopes]. apply (Inv_extends c m0 _ a LO I0), extends_view_leave. }
  destruct (s_done sc) eqn:Dn.
  { cbn [scopes with_scopes]. apply (Inv_extends c m0 _ a LO I0), extends_view_leave. }
  cbn [scopes with_scopes]. replace (E_OK =? 0) with true by reflexivity.
  apply (Inv_extends c (set (incref m0 t) (Span k) (mkScope (s_lim sc) stat0 false 0 (t :: s_chain sc) [])) _ _ LO);
    [|apply extends_view_leave].
  pose proof (extends_incref c m0 t) as E1.
  assert (I1 : Inv c (incref m0 t) a) by (apply (Inv_extends c m0 _ a LO I0 E1)).
  assert (Da : a_dead a t = false).
  { rewrite <- (done_link c m0 a t I0 Kn). unfold is_done. rewrite Gm. exact Dn. }
  assert (Ec : s_chain sc = a_chain a t).
  { rewrite <- (chain_of_link c m0 a t I0 K). unfold chain_of. rewrite Gm. reflexivity. }
  rewrite Ec.
  set (a' := mkAstate (hset (holders a) (Span k) (mkHolder stat0 [] (t :: a_chain a t) false)) (aconns a) (astreams a)).
  pose proof (Inv_new_holder c (incref m0 t) a a' (Span k) [] (t :: a_chain a t) (s_lim sc) 0 I1 eq_refl Hf) as H.
  cbn [leaf] in H. apply H.
  - right. split; [reflexivity|]. split; [reflexivity|]. exists t. split; [reflexivity|].
    split; [apply (known_extends c m0 _ a t E1 Kn) | exact Da].
  - apply (I_good c m0 a I0 t sc Gm).
  - reflexivity.
  - unfold a_limit, a', a_chain. cbn [holders]. rewrite hget_hset, sid_eqb_refl. cbn [h_chain].
    rewrite last_cons. apply (lim_link c m0 a t sc I0 Kn Gm).
Qed.

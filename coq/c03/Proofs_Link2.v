(* C03 — the link between the manager's per-connection / per-stream records and
   the abstract ones (needed by the re-parenting operations), and its
   preservation by the operations that do not re-parent. *)
From Coq Require Import List ZArith Bool Arith Lia.
From Verif Require Import lib.Wire c03.Int64 c03.Model c03.Spec c03.Proofs_Int64 c03.Proofs_Base
     c03.Proofs_Sum c03.Proofs_Reach c03.Proofs_Link c03.Proofs_Targets c03.Proofs_Frames c03.Proofs_Frames2
     c03.Proofs_Frames3 c03.Proofs_Kill c03.Proofs_OpsMem c03.Proofs_Done c03.Proofs_OpsDone c03.Proofs_OpsNew
     c03.Proofs_OpsOpen c03.Proofs_Hist.
Import ListNotations.
Local Open Scope Z_scope.

Definition stream_par (s : astream) : list sid :=
  let q := as_peer s in
  match as_proto s with
  | None => [Peer q; Transient; System]
  | Some p =>
      match as_svc s with
      | None => [Peer q; ProtoPeer p q; Proto p; System]
      | Some sv => [Peer q; ProtoPeer p q; SvcPeer sv q; Proto p; Svc sv; System]
      end
  end.

(* parents of a connection that is not attached to a peer: the pair it was
   admitted through, or - after SetPeer took it off the allow-list
   (transferAllowedToStandard) and was refused - nothing, or system + transient
   in the order the transfer lists them *)
Definition par_ok (al : bool) (P : list sid) : Prop :=
  P = conn_par al \/ (al = false /\ (P = [] \/ P = [System; Transient])).

Definition conn_link (st : state) (a : astate) (i : nat) (ac : aconn) : Prop :=
  exists ci h, nget (conns st) i = Some ci /\ hget (holders a) (Conn i) = Some h /\
               ci_peer ci = ac_peer ac /\ ci_allow ci = ac_allow ac /\ ci_ep ci = ac_ep ac /\
               (ac_peer ac = None -> par_ok (ac_allow ac) (h_par h)).

Definition stream_link (st : state) (a : astate) (j : nat) (s : astream) : Prop :=
  exists si h, nget (streams st) j = Some si /\ hget (holders a) (Stream j) = Some h /\
               si_peer si = as_peer s /\ si_proto si = as_proto s /\ si_svc si = as_svc s /\
               h_par h = stream_par s /\ (as_proto s = None -> as_svc s = None).

Definition Link (st : state) (a : astate) : Prop :=
  (forall i ac, nget (aconns a) i = Some ac -> conn_link st a i ac) /\
  (forall j s, nget (astreams a) j = Some s -> stream_link st a j s).

Lemma nget_nset : forall A (l : list (nat * A)) k v x, nget (nset l k v) x = if Nat.eqb k x then Some v else nget l x.
Proof.
  induction l as [|[y w] r IH]; intros k v x; cbn.
  - destruct (Nat.eqb k x); reflexivity.
  - destruct (Nat.eqb y k) eqn:E; cbn.
    + apply Nat.eqb_eq in E. subst y. destruct (Nat.eqb k x); reflexivity.
    + destruct (Nat.eqb k x) eqn:E2.
      * apply Nat.eqb_eq in E2. subst x. rewrite E. rewrite IH, Nat.eqb_refl. reflexivity.
      * destruct (Nat.eqb y x); [reflexivity|]. rewrite IH, E2. reflexivity.
Qed.

(* nothing about connections / streams changed, holders keep their parents *)
Lemma Link_frame : forall st st' a a',
  conns st' = conns st -> streams st' = streams st -> aconns a' = aconns a -> astreams a' = astreams a ->
  (forall t h, leaf t = true -> hget (holders a) t = Some h ->
               exists h', hget (holders a') t = Some h' /\ h_par h' = h_par h) ->
  Link st a -> Link st' a'.
Proof.
  intros st st' a a' Ec Es Eac Eas Hp [Lc Ls]. split.
  - intros i ac Gi. rewrite Eac in Gi. destruct (Lc i ac Gi) as (ci & h & P1 & P2 & P3 & P4 & P5 & P6).
    destruct (Hp (Conn i) h eq_refl P2) as (h' & G' & Ep). exists ci, h'. rewrite Ec, Ep. repeat split; assumption.
  - intros j s Gj. rewrite Eas in Gj. destruct (Ls j s Gj) as (si & h & P1 & P2 & P3 & P4 & P5 & P6 & P7).
    destruct (Hp (Stream j) h eq_refl P2) as (h' & G' & Ep). exists si, h'. rewrite Es, Ep. repeat split; assumption.
Qed.

Lemma add_own_keeps_par : forall a t d x h, hget (holders a) x = Some h ->
  exists h', hget (holders (add_own a t d)) x = Some h' /\ h_par h' = h_par h.
Proof.
  intros a t d x h G. rewrite add_own_hget. destruct (sid_eqb t x) eqn:X.
  - apply sid_eqb_eq in X. subst x. rewrite G. eexists. split; reflexivity.
  - exists h. split; [exact G | reflexivity].
Qed.

Lemma kill_keeps_par : forall a t x h, hget (holders a) x = Some h ->
  exists h', hget (holders (kill a t)) x = Some h' /\ h_par h' = h_par h.
Proof.
  intros a t x h G. unfold kill. destruct (hget (holders a) t) as [ht|] eqn:Gt; [|exists h; split; [exact G | reflexivity]].
  cbn [holders]. rewrite hget_hset. destruct (sid_eqb t x) eqn:X.
  - apply sid_eqb_eq in X. subst x. rewrite G in Gt. inversion Gt; subst ht. eexists. split; reflexivity.
  - exists h. split; [exact G | reflexivity].
Qed.

Lemma reserve_conns : forall c st t sz prio, conns (fst (reserve_mem c st t sz prio)) = conns st /\ streams (fst (reserve_mem c st t sz prio)) = streams st.
Proof. intros. unfold reserve_mem. destruct (scope_reserve _ t _). split; reflexivity. Qed.
Lemma release_conns : forall c st t sz, conns (fst (release_mem c st t sz)) = conns st /\ streams (fst (release_mem c st t sz)) = streams st.
Proof. intros. unfold release_mem. split; reflexivity. Qed.
Lemma span_conns : forall c st t k, conns (fst (begin_span c st t k)) = conns st /\ streams (fst (begin_span c st t k)) = streams st.
Proof. intros. unfold begin_span. destruct (get _ t) as [sc|]; [destruct (s_done sc)|]; split; reflexivity. Qed.
Lemma done_conns : forall c st t, conns (fst (done_op c st t)) = conns st /\ streams (fst (done_op c st t)) = streams st.
Proof.
  intros. unfold done_op. destruct t; try (split; reflexivity). cbn [fst]. unfold conn_done.
  destruct (is_done (scopes st) (Conn i)); split; reflexivity.
Qed.

Lemma open_conn_conns : forall c st i inb usefd ep,
  let '(st', cls) := open_conn c st i inb usefd ep in
  streams st' = streams st /\
  (forall i', i' <> i -> nget (conns st') i' = nget (conns st) i') /\
  (cls = 0 -> exists ci, nget (conns st') i = Some ci /\ ci_peer ci = None /\ ci_ep ci = ep).
Proof.
  intros c st i inb usefd ep. unfold open_conn.
  assert (Cd : forall s0, conns (conn_done c s0 i) = conns s0 /\ streams (conn_done c s0 i) = streams s0).
  { intros s0. unfold conn_done. destruct (is_done (scopes s0) (Conn i)); split; reflexivity. }
  assert (Ns : forall A (l : list (nat * A)) v i', i' <> i -> nget (nset l i v) i' = nget l i').
  { intros A l v i' Hne. rewrite nget_nset. destruct (Nat.eqb i i') eqn:X; [apply Nat.eqb_eq in X; congruence | reflexivity]. }
  destruct (match ep with Some a0 => match limiter_add c (lims st) a0 with Some l => Some l | None => None end
                        | None => Some (lims st) end) as [l|].
  2:{ split; [reflexivity|]. split; [reflexivity | discriminate]. }
  destruct (scope_reserve _ (Conn i) (KConn inb usefd)) as [m1 e1]. destruct e1 as [e1|].
  2:{ cbn [streams conns with_scopes]. split; [reflexivity|]. split; [intros i' Hne; apply Ns, Hne|].
      intros _. eexists. rewrite nget_nset_same. repeat split. }
  destruct (match ep with Some a0 => allowed c a0 | None => false end).
  - cbn [streams conns with_scopes]. destruct (scope_reserve _ (Conn i) (KConn inb usefd)) as [m4 e4]. destruct e4 as [e4|].
    + match goal with |- context [conn_done c ?s0 i] => destruct (Cd s0) as [C1 C2] end.
      rewrite C1, C2. cbn [conns streams]. split; [reflexivity|]. split; [intros i' Hne; rewrite !Ns by exact Hne; reflexivity|].
      intros X. destruct e4; discriminate.
    + cbn [streams conns]. split; [reflexivity|]. split; [intros i' Hne; rewrite !Ns by exact Hne; reflexivity|].
      intros _. eexists. rewrite nget_nset_same. repeat split.
  - match goal with |- context [conn_done c ?s0 i] => destruct (Cd s0) as [C1 C2] end.
    rewrite C1, C2. cbn [conns streams with_scopes]. split; [reflexivity|]. split; [intros i' Hne; apply Ns, Hne|].
    intros X. destruct e1; discriminate.
Qed.

Lemma open_stream_streams : forall c st j q inb,
  conns (fst (open_stream c st j q inb)) = conns st /\
  streams (fst (open_stream c st j q inb)) = nset (streams st) j (mkSinfo inb q None None).
Proof. intros. unfold open_stream. destruct (scope_reserve _ (Stream j) (KStream inb)) as [m3 e]. destruct e; split; reflexivity. Qed.

Lemma hset_other_leaf : forall H s v t h, s <> t -> hget H t = Some h ->
  exists h', hget (hset H s v) t = Some h' /\ h_par h' = h_par h.
Proof.
  intros H s v t h Hne G. rewrite hget_hset. destruct (sid_eqb s t) eqn:X; [apply sid_eqb_eq in X; congruence|].
  exists h. split; [exact G | reflexivity].
Qed.

Theorem link_core : forall c st a o,
  cfg_ok c -> Inv c (scopes st) a -> Link st a -> wf_op st a o ->
  Link (fst (step c st o)) (anext c st a o).
Proof.
  intros c st a o LO I L Wf. unfold anext. destruct o; cbn [step wf_op] in *; try contradiction.
  - (* OpenConnection *)
    pose proof (open_conn_inv c st a i inb usefd ep LO I Wf) as H. pose proof (open_conn_conns c st i inb usefd ep) as Hc.
    destruct (open_conn c st i inb usefd ep) as [st' cls]. cbn [fst]. cbv zeta in H. destruct H as [P _].
    destruct Hc as (Hs & Ho & Hn). destruct L as [Lc Ls]. unfold model_obs. cbn [o_aflag astep].
    assert (Fr : forall i' ac, nget (aconns a) i' = Some ac -> i' <> i).
    { intros i' ac Gi ->. destruct (Lc i ac Gi) as (ci & h & _ & Gh & _). congruence. }
    assert (Keep : forall a', aconns a' = aconns a -> astreams a' = astreams a -> holders a' = holders a -> Link st' a').
    { intros a' E1 E2 E3. split.
      - intros i' ac Gi. rewrite E1 in Gi. destruct (Lc i' ac Gi) as (ci & h & P1 & P2 & R). exists ci, h.
        rewrite E3, (Ho i' (Fr i' ac Gi)). split; [exact P1 | split; [exact P2 | exact R]].
      - intros j s Gj. rewrite E2 in Gj. destruct (Ls j s Gj) as (si & h & P1 & P2 & R). exists si, h.
        rewrite E3, Hs. split; [exact P1 | split; [exact P2 | exact R]]. }
    destruct (cls =? 0) eqn:C; [|apply Keep; reflexivity]. apply Z.eqb_eq in C.
    set (al := match nget (conns st') i with Some ci => ci_allow ci | None => false end) in *.
    assert (Eal : zbool (match nget (conns st') i with Some ci => b2z (ci_allow ci) | None => 0 end) = al).
    { unfold al. destruct (nget (conns st') i); [apply zbool_b2z | reflexivity]. }
    rewrite Eal.
    assert (Ec : (al && negb (ep_allowed c ep)) = false).
    { destruct al eqn:Al; [rewrite (P C eq_refl)|]; reflexivity. }
    rewrite Ec. cbn [hd]. destruct (Hn C) as (ci & Gci & Pp & Pe). split; cbn [aconns astreams holders].
    + intros i' ac Gi. rewrite nget_nset in Gi. destruct (Nat.eqb i i') eqn:X.
      * apply Nat.eqb_eq in X. subst i'. inversion Gi; subst ac. exists ci. eexists. cbn [holders]. rewrite hget_hset, sid_eqb_refl.
        split; [exact Gci|]. split; [reflexivity|]. cbn. unfold al. rewrite Gci. repeat split; try assumption;
          try (intros _; left; destruct (ci_allow ci); reflexivity).
      * apply Nat.eqb_neq in X. destruct (Lc i' ac Gi) as (ci' & h & P1 & P2 & R).
        destruct (hset_other_leaf (holders a) (Conn i) (mkHolder (conn_vec inb usefd) (if al then [ATransient; ASystem] else [Transient; System]) [] false) (Conn i') h ltac:(congruence) P2) as (h' & G' & Ep).
        exists ci', h'. rewrite (Ho i' ltac:(congruence)), Ep. split; [exact P1 | split; [exact G' | exact R]].
    + intros j s Gj. destruct (Ls j s Gj) as (si & h & P1 & P2 & R).
      destruct (hset_other_leaf (holders a) (Conn i) (mkHolder (conn_vec inb usefd) (if al then [ATransient; ASystem] else [Transient; System]) [] false) (Stream j) h ltac:(discriminate) P2) as (h' & G' & Ep).
      exists si, h'. rewrite Hs, Ep. split; [exact P1 | split; [exact G' | exact R]].
  - (* OpenStream *)
    destruct (open_stream_streams c st j q inb) as [Hc Hs].
    destruct (open_stream c st j q inb) as [st' cls]. cbn [fst astep] in *. destruct L as [Lc Ls].
    assert (Fr : forall j' s, nget (astreams a) j' = Some s -> j' <> j).
    { intros j' s Gj ->. destruct (Ls j s Gj) as (si & h & _ & Gh & _). congruence. }
    destruct (cls =? 0); cbn [hd]; split; cbn [aconns astreams holders].
    + intros i ac Gi. destruct (Lc i ac Gi) as (ci & h & P1 & P2 & R).
      destruct (hset_other_leaf (holders a) (Stream j) (mkHolder (stream_vec inb) [Peer q; Transient; System] [] false) (Conn i) h ltac:(discriminate) P2) as (h' & G' & Ep).
      exists ci, h'. rewrite Hc, Ep. split; [exact P1 | split; [exact G' | exact R]].
    + intros j' s Gj. rewrite nget_nset in Gj. destruct (Nat.eqb j j') eqn:X.
      * apply Nat.eqb_eq in X. subst j'. inversion Gj; subst s. eexists. eexists. cbn [holders]. rewrite Hs, nget_nset_same, hget_hset, sid_eqb_refl.
        split; [reflexivity|]. split; [reflexivity|]. cbn. repeat split.
      * apply Nat.eqb_neq in X. destruct (Ls j' s Gj) as (si & h & P1 & P2 & R).
        destruct (hset_other_leaf (holders a) (Stream j) (mkHolder (stream_vec inb) [Peer q; Transient; System] [] false) (Stream j') h ltac:(congruence) P2) as (h' & G' & Ep).
        exists si, h'. rewrite Hs, nget_nset, Ep. apply Nat.eqb_neq in X. rewrite X. split; [exact P1 | split; [exact G' | exact R]].
    + intros i ac Gi. destruct (Lc i ac Gi) as (ci & h & P1 & P2 & R). exists ci, h. rewrite Hc. split; [exact P1 | split; [exact P2 | exact R]].
    + intros j' s Gj. destruct (Ls j' s Gj) as (si & h & P1 & P2 & R). exists si, h.
      rewrite Hs, nget_nset. pose proof (Fr j' s Gj) as Hne. apply Nat.eqb_neq in Hne.
      rewrite Nat.eqb_sym in Hne. rewrite Hne. split; [exact P1 | split; [exact P2 | exact R]].
  - (* ReserveMemory *)
    destruct (reserve_conns c st t sz prio) as [Hc Hs].
    destruct (reserve_mem c st t sz prio) as [st' cls]. cbn [fst astep] in *.
    destruct (cls =? 0); cbn [hd]; apply (Link_frame st st' a _ Hc Hs); try reflexivity; try exact L.
    + intros x h _ G. apply add_own_keeps_par, G.
    + intros x h _ G. exists h. split; [exact G | reflexivity].
  - (* ReleaseMemory *)
    destruct (release_conns c st t sz) as [Hc Hs].
    destruct (release_mem c st t sz) as [st' cls]. cbn [fst astep] in *.
    destruct (a_dead a t); cbn [hd]; apply (Link_frame st st' a _ Hc Hs); try reflexivity; try exact L.
    + intros x h _ G. exists h. split; [exact G | reflexivity].
    + intros x h _ G. apply add_own_keeps_par, G.
  - (* BeginSpan *)
    destruct (span_conns c st t k) as [Hc Hs].
    destruct (begin_span c st t k) as [st' cls]. cbn [fst astep] in *.
    destruct (cls =? 0); cbn [hd]; apply (Link_frame st st' a _ Hc Hs); try reflexivity; try exact L.
    + intros x h Hl G. cbn [holders]. apply hset_other_leaf; [intros <-; discriminate | exact G].
    + intros x h _ G. exists h. split; [exact G | reflexivity].
  - (* Done *)
    destruct (done_conns c st t) as [Hc Hs].
    destruct (done_op c st t) as [st' cls]. cbn [fst astep] in *.
    assert (Lk : Link st' (kill a t)).
    { apply (Link_frame st st' a _ Hc Hs); try exact L.
      - unfold kill. destruct (hget (holders a) t); reflexivity.
      - unfold kill. destruct (hget (holders a) t); reflexivity.
      - intros x h _ G. apply kill_keeps_par, G. }
    destruct t; try exact Lk.
    destruct (nget (aconns (kill a (Conn i))) i) as [ac|] eqn:Ga; cbn [hd]; [|exact Lk].
    destruct Lk as [Lc Ls]. split; cbn [aconns astreams holders].
    + intros i' ac' Gi. rewrite nget_nset in Gi. destruct (Nat.eqb i i') eqn:X.
      * apply Nat.eqb_eq in X. subst i'. inversion Gi; subst ac'. destruct (Lc i ac Ga) as (ci & h & R). exists ci, h. exact R.
      * destruct (Lc i' ac' Gi) as (ci & h & R). exists ci, h. exact R.
    + exact Ls.
Qed.

Lemma conn_par_cases : forall st a i ac, Link st a -> nget (aconns a) i = Some ac -> ac_peer ac = None ->
  par_ok (ac_allow ac) (a_par a (Conn i)).
Proof.
  intros st a i ac [Lc _] Ga Ap. destruct (Lc i ac Ga) as (ci & h & _ & Gh & _ & _ & _ & Hp).
  rewrite (a_par_leaf a (Conn i) h eq_refl Gh). exact (Hp Ap).
Qed.

(* ---- the abstract successor when the answer admits several candidates ----------------------
   A refused SetPeer that had to take the connection off the allow-list has
   more than one legal outcome (Spec.astep).  The monitor picks the first
   candidate whose sums match the observation; for the model's own trace that is
   the candidate whose parent list is the connection's edge list after the step. *)
Fixpoint sids_eqb (l1 l2 : list sid) : bool :=
  match l1, l2 with
  | [], [] => true
  | x :: r1, y :: r2 => sid_eqb x y && sids_eqb r1 r2
  | _, _ => false
  end.

Lemma sids_eqb_eq : forall l1 l2, sids_eqb l1 l2 = true <-> l1 = l2.
Proof.
  induction l1 as [|x r IH]; intros [|y r2]; cbn; split; intros H; try discriminate; try reflexivity.
  - apply andb_true_iff in H. destruct H as [H1 H2]. apply sid_eqb_eq in H1. apply IH in H2. congruence.
  - inversion H; subst. rewrite sid_eqb_refl. apply IH. reflexivity.
Qed.

Definition agrees (st' : state) (cand : astate) (o : op) : bool :=
  match o with
  | OSetPeer i _ => sids_eqb (a_par cand (Conn i)) (edges_of (scopes st') (Conn i))
  | _ => true
  end.

Definition pickT (st' : state) (o : op) (a : astate) (l : list astate) : astate :=
  match find (fun cand => agrees st' cand o) l with Some x => x | None => hd a l end.

Definition anextT (c : config) (st : state) (a : astate) (o : op) : astate :=
  let '(st', cls) := step c st o in
  pickT st' o a (astep c a o cls (o_aflag (model_obs st st' o cls))).

Lemma pickT_single : forall st' o a x, pickT st' o a [x] = x.
Proof. intros. unfold pickT. cbn. destruct (agrees st' x o); reflexivity. Qed.

Lemma pickT_hd : forall st' o a l, (forall cand, agrees st' cand o = true) -> pickT st' o a l = hd a l.
Proof. intros st' o a l H. unfold pickT. destruct l as [|x r]; [reflexivity|]. cbn. rewrite H. reflexivity. Qed.

Lemma anextT_other : forall c st a o, match o with OSetPeer _ _ => False | _ => True end ->
  anextT c st a o = anext c st a o.
Proof.
  intros c st a o H. unfold anextT, anext. destruct (step c st o) as [st' cls].
  apply pickT_hd. intros cand. destruct o; try reflexivity. destruct H.
Qed.

(* the link after SetPeer touched connection i only *)
Lemma link_setpeer : forall st st' a a' i ac' ci' h',
  Link st a ->
  (forall i', nget (aconns a') i' = if Nat.eqb i i' then Some ac' else nget (aconns a) i') ->
  astreams a' = astreams a ->
  (forall i', nget (conns st') i' = if Nat.eqb i i' then Some ci' else nget (conns st) i') ->
  streams st' = streams st ->
  (forall y, hget (holders a') y = if sid_eqb (Conn i) y then Some h' else hget (holders a) y) ->
  ci_peer ci' = ac_peer ac' -> ci_allow ci' = ac_allow ac' -> ci_ep ci' = ac_ep ac' ->
  (ac_peer ac' = None -> par_ok (ac_allow ac') (h_par h')) ->
  Link st' a'.
Proof.
  intros st st' a a' i ac' ci' h' [Lc Ls] Hac Has Hc Hs Hh E1 E2 E3 E4. split.
  - intros i' acx Gi. rewrite Hac in Gi. unfold conn_link. rewrite Hc, Hh. cbn [sid_eqb].
    destruct (Nat.eqb i i') eqn:X.
    + inversion Gi; subst acx. exists ci', h'. repeat split; assumption.
    + destruct (Lc i' acx Gi) as (ci1 & h1 & R). exists ci1, h1. exact R.
  - intros j s Gj. rewrite Has in Gj. unfold stream_link. rewrite Hs, Hh. cbn [sid_eqb].
    destruct (Ls j s Gj) as (si & h1 & R). exists si, h1. exact R.
Qed.

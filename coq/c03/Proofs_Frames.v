(* C03 — frame lemmas: how the invariant moves under the building blocks of
   the operations.  Part 1: reference counts / new static scopes; adding to
   (or taking from) what one holder holds. *)
From Coq Require Import List ZArith Bool Arith Lia.
From Verif Require Import lib.Wire c03.Int64 c03.Model c03.Spec c03.Proofs_Int64 c03.Proofs_Base
     c03.Proofs_Sum c03.Proofs_Reach c03.Proofs_Link c03.Proofs_Targets.
Import ListNotations.
Local Open Scope Z_scope.

Lemma shape_get : forall m m' x sc, shape_of m' x = shape_of m x -> get m x = Some sc ->
  exists sc', get m' x = Some sc' /\ s_lim sc' = s_lim sc /\ s_done sc' = s_done sc /\
              s_chain sc' = s_chain sc /\ s_edges sc' = s_edges sc.
Proof.
  intros m m' x sc H G. unfold shape_of in H. rewrite G in H.
  destruct (get m' x) as [sc'|]; cbn in H; [|discriminate]. exists sc'. unfold shape in H.
  inversion H. repeat split; reflexivity.
Qed.

Lemma shape_present : forall m m' x, shape_of m' x = shape_of m x -> get m x <> None -> get m' x <> None.
Proof.
  intros m m' x H G. unfold shape_of in H. destruct (get m x); [|contradiction].
  destruct (get m' x); [discriminate | cbn in H; discriminate].
Qed.

Lemma use_of_get : forall m x sc, get m x = Some sc -> use_of m x = s_use sc.
Proof. intros m x sc G. unfold use_of. rewrite G. reflexivity. Qed.

(* m' is m with other reference counts and possibly new, empty static scopes *)
Definition extends (c : config) (m m' : smap) : Prop :=
  forall x, use_of m' x = use_of m x /\
            (shape_of m' x = shape_of m x \/
             (get m x = None /\ is_handle x = false /\
              exists sc', get m' x = Some sc' /\ s_done sc' = false /\ s_chain sc' = [] /\
                          s_edges sc' = static_par x /\ s_lim sc' = limit_of c x)).

Lemma extends_present : forall c m m' x, extends c m m' -> get m x <> None -> get m' x <> None.
Proof.
  intros c m m' x E G. destruct (E x) as [_ [S|(N & _)]]; [apply (shape_present m m' x S G) | contradiction].
Qed.

Lemma Inv_extends : forall c m m' a, (forall t, lim_ok (limit_of c t)) ->
  Inv c m a -> extends c m m' -> Inv c m' a.
Proof.
  intros c m m' a LO I E. constructor.
  - apply (I_wf c m a I).
  - intros x sc' G'. destruct (E x) as [U [S|(N & Hh & sc2 & G2 & D2 & C2 & E2 & L2)]].
    + unfold shape_of in S. rewrite G' in S. destruct (get m x) as [sc|] eqn:G; cbn in S; [|discriminate].
      destruct (I_good c m a I x sc G) as (L & Nn & F).
      rewrite (use_of_get m' x sc' G'), (use_of_get m x sc G) in U. unfold shape in S. inversion S as [[S1 S2 S3 S4]].
      split; [rewrite S1; exact L | rewrite U, S1; split; assumption].
    + rewrite G' in G2. inversion G2; subst sc2.
      assert (U0 : s_use sc' = stat0).
      { rewrite <- (use_of_get m' x sc' G'), U. unfold use_of. rewrite N. reflexivity. }
      split; [rewrite L2; apply LO|]. rewrite U0, L2. pose proof (LO x) as (H1 & H2 & H3 & H4 & H5 & H6 & H7 & H8).
      split; [stat_crush | unfold fits; cbn; repeat split; lia].
  - intros x sc' G' Hh. destruct (E x) as [U [S|(N & _ & sc2 & G2 & D2 & C2 & E2 & L2)]].
    + unfold shape_of in S. rewrite G' in S. destruct (get m x) as [sc|] eqn:G; cbn in S; [|discriminate].
      unfold shape in S. inversion S as [[S1 S2 S3 S4]]. rewrite S1, S2, S3, S4. apply (I_static c m a I x sc G Hh).
    + rewrite G' in G2. inversion G2; subst sc2. repeat split; assumption.
  - destruct (I_base c m a I) as (B1 & B2 & B3 & B4).
    repeat split; apply (extends_present c m m' _ E); assumption.
  - intros t h G Hh. destruct (I_handle c m a I t h G Hh) as (sc & Gm & P1 & P2 & P3 & P4).
    destruct (E t) as [_ [S|(N & _)]]; [|congruence].
    destruct (shape_get m m' t sc S Gm) as (sc' & G' & Q1 & Q2 & Q3 & Q4).
    exists sc'. rewrite Q1, Q2, Q3, Q4. repeat split; assumption.
  - intros t h G D. destruct (I_present c m a I t h G D) as [P1 P2]. split.
    + intros p Hp. apply (extends_present c m m' p E), P1, Hp.
    + intros o Ho Hs. apply (extends_present c m m' o E), (P2 o Ho Hs).
  - intros t sc' G' Hh Hn. destruct (E t) as [U [S|(_ & Hh' & _)]]; [|congruence].
    unfold shape_of in S. rewrite G' in S. destruct (get m t) as [sc|] eqn:G; cbn in S; [|discriminate].
    destruct (I_garbage c m a I t sc G Hh Hn) as [D Z]. unfold shape in S. inversion S as [[S1 S2 S3 S4]].
    split; [rewrite S2; exact D|]. rewrite <- (use_of_get m' t sc' G'), U, (use_of_get m t sc G). exact Z.
  - intros t. destruct (E t) as [U _]. rewrite U. apply (I_num c m a I).
Qed.

Lemma extends_refl : forall c m, extends c m m.
Proof. intros c m x. split; [reflexivity | left; reflexivity]. Qed.

Lemma extends_trans : forall c m1 m2 m3, extends c m1 m2 -> extends c m2 m3 -> extends c m1 m3.
Proof.
  intros c m1 m2 m3 E1 E2 x. destruct (E1 x) as [U1 S1]. destruct (E2 x) as [U2 S2].
  split; [congruence|]. destruct S1 as [S1|(N1 & H1 & sc1 & G1 & R1)].
  - destruct S2 as [S2|(N2 & H2 & R2)]; [left; congruence|]. right. split; [|split; assumption].
    unfold shape_of in S1. rewrite N2 in S1. destruct (get m1 x); [discriminate | reflexivity].
  - destruct S2 as [S2|(N2 & _)]; [|congruence]. right. split; [exact N1|]. split; [exact H1|].
    destruct (shape_get m2 m3 x sc1 S2 G1) as (sc3 & G3 & Q1 & Q2 & Q3 & Q4). exists sc3.
    destruct R1 as (D & C & Ed & L). rewrite Q1, Q2, Q3, Q4. repeat split; assumption.
Qed.

Lemma extends_same : forall c m m', (forall x, shape_of m' x = shape_of m x) ->
  (forall x, use_of m' x = use_of m x) -> extends c m m'.
Proof. intros c m m' S U x. split; [apply U | left; apply S]. Qed.

Lemma extends_incref : forall c m t, extends c m (incref m t).
Proof. intros. apply extends_same; intros; [apply incref_shape | apply incref_use]. Qed.
Lemma extends_decref : forall c m t, extends c m (decref m t).
Proof. intros. apply extends_same; intros; [apply decref_shape | apply decref_use]. Qed.

(* getServiceScope / getProtocolScope / getPeerScope *)
Lemma extends_get_scope : forall c m t, is_created_view t = true -> get m System <> None ->
  extends c m (get_scope c m t).
Proof.
  intros c m t Hv Hs. unfold get_scope. destruct (get m t) as [sc|] eqn:G; [apply extends_incref|].
  apply (extends_trans c m (new_scope m t (limit_of c t) [System])); [|apply extends_incref].
  intros x. unfold new_scope. cbn [increfs fold_left]. split.
  - rewrite use_of_set. sid_cases t x; [|apply incref_use]. cbn. unfold use_of. rewrite G. reflexivity.
  - sid_cases t x.
    + right. split; [exact G|]. split; [destruct x; try discriminate; reflexivity|].
      eexists. rewrite get_set_same. split; [reflexivity|]. cbn.
      repeat split; destruct x; try discriminate; reflexivity.
    + left. unfold shape_of. rewrite get_set_other by exact E. apply incref_shape.
Qed.

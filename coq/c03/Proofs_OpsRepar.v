(* C03 — per-operation preservation: SetProtocol, SetService, SetPeer (with and
   without the allow-list transfer), with the connection / stream link. *)
From Coq Require Import List ZArith Bool Arith Lia.
From Verif Require Import lib.Wire c03.Int64 c03.Model c03.Spec c03.Proofs_Int64 c03.Proofs_Base
     c03.Proofs_Sum c03.Proofs_Reach c03.Proofs_Link c03.Proofs_Targets c03.Proofs_Frames c03.Proofs_Frames2
     c03.Proofs_Frames3 c03.Proofs_Kill c03.Proofs_OpsMem c03.Proofs_Done c03.Proofs_OpsDone c03.Proofs_OpsNew
     c03.Proofs_OpsOpen c03.Proofs_Hist c03.Proofs_Repar c03.Proofs_Repar2 c03.Proofs_Move c03.Proofs_Attach
     c03.Proofs_Attach1 c03.Proofs_Link2 c03.Proofs_Transfer.
Import ListNotations.
Local Open Scope Z_scope.

Lemma set_par_holders : forall a s h P, hget (holders a) s = Some h ->
  holders (set_par a s P) = hset (holders a) s (mkHolder (h_own h) P (h_chain h) (h_dead h)).
Proof. intros a s h P G. unfold set_par. rewrite G. reflexivity. Qed.

(* ---- SetProtocol ------------------------------------------------------------------------- *)
Lemma set_proto_eq : forall c st j p si, nget (streams st) j = Some si -> si_proto si = None ->
  let q := si_peer si in
  let '(m', e) := attach c (scopes st) (Stream j) (Proto p) (ProtoPeer p q) true [Peer q; ProtoPeer p q; Proto p; System] in
  set_proto c st j p =
  (match e with
   | None => mkState m' (conns st) (nset (streams st) j (mkSinfo (si_in si) q (Some p) (si_svc si))) (lims st)
   | Some _ => with_scopes st m'
   end, ecode e).
Proof.
  intros c st j p si G Hp. cbv zeta. unfold set_proto, attach. rewrite G, Hp.
  destruct (charge_one (Proto p) _ _) as [m2|e1]; [|reflexivity].
  destruct (charge_one (ProtoPeer p (si_peer si)) _ _) as [m4|e2]; reflexivity.
Qed.

Definition proto_par (q p : nat) : list sid := [Peer q; ProtoPeer p q; Proto p; System].

Theorem set_proto_inv : forall c st a j p s,
  cfg_ok c -> Inv c (scopes st) a -> Link st a -> nget (astreams a) j = Some s ->
  novf (scopes st) (mem (use_of (scopes st) (Stream j))) ->
  Inv c (scopes (fst (step c st (OSetProto j p)))) (anext c st a (OSetProto j p)) /\
  Link (fst (step c st (OSetProto j p))) (anext c st a (OSetProto j p)).
Proof.
  intros c st a j p s LO I L Gs Ov. destruct L as [Lc Ls].
  destruct (Ls j s Gs) as (si & h & Gsi & Gh & Ep & Epr & Esv & Epar & Hsv).
  unfold anext. cbn [step astep]. rewrite Gs.
  destruct (as_proto s) as [p0|] eqn:Ap.
  - (* already attached: plain error, nothing changes *)
    unfold set_proto. rewrite Gsi, Epr. cbn [fst]. replace (E_OTHER =? 0) with false by reflexivity. cbn [hd].
    split; [exact I | split; assumption].
  - pose proof (set_proto_eq c st j p si Gsi ltac:(congruence)) as Eq. cbv zeta in Eq.
    set (q := si_peer si) in *. set (P' := [Peer q; ProtoPeer p q; Proto p; System]) in *.
    set (a2 := mkAstate (holders (set_par a (Stream j) [Peer (as_peer s); ProtoPeer p (as_peer s); Proto p; System]))
                        (aconns (set_par a (Stream j) [Peer (as_peer s); ProtoPeer p (as_peer s); Proto p; System]))
                        (nset (astreams (set_par a (Stream j) [Peer (as_peer s); ProtoPeer p (as_peer s); Proto p; System])) j
                              (mkAstream (as_peer s) (Some p) (as_svc s)))).
    assert (Eq' : as_peer s = q) by (symmetry; exact Ep).
    assert (Hpar : h_par h = [Peer q; Transient; System]).
    { rewrite Epar. unfold stream_par. rewrite Ap, Eq'. reflexivity. }
    pose proof (attach_inv c (scopes st) a a2 (Stream j) h (Proto p) (ProtoPeer p q) true P' LO I eq_refl Gh eq_refl eq_refl eq_refl) as H.
    specialize (H ltac:(discriminate) ltac:(discriminate) ltac:(discriminate)).
    specialize (H ltac:(intros _; rewrite Hpar; right; left; reflexivity)).
    specialize (H ltac:(unfold P'; repeat constructor; cbn; intuition discriminate)).
    specialize (H ltac:(unfold P'; intros x [<-|[<-|[<-|[<-|[]]]]]; reflexivity)).
    specialize (H ltac:(intros x; rewrite Hpar; unfold P'; cbn [countb]; lia) Ov).
    specialize (H ltac:(unfold a2; cbn [holders]; rewrite Eq'; apply set_par_holders, Gh)).
    destruct (attach c (scopes st) (Stream j) (Proto p) (ProtoPeer p q) true P') as [m' e]. rewrite Eq. cbn [fst].
    destruct e as [e|].
    + rewrite ecode_some. cbn [hd scopes with_scopes]. split; [exact H|]. split.
      * intros i ac Gi. destruct (Lc i ac Gi) as (ci & hc & R). exists ci, hc. exact R.
      * intros j' s' Gj'. destruct (Ls j' s' Gj') as (si' & hs & R). exists si', hs. exact R.
    + cbn [ecode]. replace (0 =? 0) with true by reflexivity. cbn [hd scopes]. fold a2. split; [exact H|]. split.
      * intros i ac Gi. unfold a2 in Gi. cbn [aconns] in Gi. unfold set_par in Gi. rewrite Gh in Gi. cbn [aconns] in Gi.
        destruct (Lc i ac Gi) as (ci & hc & P1 & P2 & R).
        destruct (hset_other_leaf (holders a) (Stream j) (mkHolder (h_own h) [Peer (as_peer s); ProtoPeer p (as_peer s); Proto p; System] (h_chain h) (h_dead h)) (Conn i) hc ltac:(discriminate) P2) as (h' & G' & Ep').
        exists ci, h'. unfold a2. cbn [holders conns]. rewrite (set_par_holders a (Stream j) h _ Gh), Ep'.
        split; [exact P1 | split; [exact G' | exact R]].
      * intros j' s' Gj'. unfold a2 in Gj'. cbn [astreams] in Gj'. unfold set_par in Gj'. rewrite Gh in Gj'. cbn [astreams] in Gj'.
        rewrite nget_nset in Gj'. unfold a2. cbn [holders streams]. rewrite (set_par_holders a (Stream j) h _ Gh).
        destruct (Nat.eqb j j') eqn:X.
        -- apply Nat.eqb_eq in X. subst j'. inversion Gj'; subst s'. eexists. eexists. cbn [streams holders].
           rewrite nget_nset_same, hget_hset, sid_eqb_refl. split; [reflexivity|]. split; [reflexivity|]. cbn.
           unfold stream_par. cbn. rewrite (Hsv eq_refl). split; [symmetry; exact Eq'|]. split; [reflexivity|].
           split; [rewrite Esv; apply Hsv; reflexivity|]. split; [reflexivity | discriminate].
        -- apply Nat.eqb_neq in X. destruct (Ls j' s' Gj') as (si' & hs & P1 & P2 & R).
           destruct (hset_other_leaf (holders a) (Stream j) (mkHolder (h_own h) [Peer (as_peer s); ProtoPeer p (as_peer s); Proto p; System] (h_chain h) (h_dead h)) (Stream j') hs ltac:(congruence) P2) as (h' & G' & Ep').
           exists si', h'. cbn [streams]. rewrite nget_nset, Ep'. apply Nat.eqb_neq in X. rewrite X.
           split; [exact P1 | split; [exact G' | exact R]].
Qed.

(* ---- SetService ---------------------------------------------------------------------------- *)
Lemma set_svc_eq : forall c st j sv si p, nget (streams st) j = Some si -> si_svc si = None -> si_proto si = Some p ->
  let q := si_peer si in
  let '(m', e) := attach c (scopes st) (Stream j) (Svc sv) (SvcPeer sv q) false
                         [Peer q; ProtoPeer p q; SvcPeer sv q; Proto p; Svc sv; System] in
  set_svc c st j sv =
  (match e with
   | None => mkState m' (conns st) (nset (streams st) j (mkSinfo (si_in si) q (Some p) (Some sv))) (lims st)
   | Some _ => with_scopes st m'
   end, ecode e).
Proof.
  intros c st j sv si p G Hs Hp. cbv zeta. unfold set_svc, attach. rewrite G, Hs, Hp.
  destruct (charge_one (Svc sv) _ _) as [m2|e1]; [|reflexivity].
  destruct (charge_one (SvcPeer sv (si_peer si)) _ _) as [m4|e2]; reflexivity.
Qed.

Theorem set_svc_inv : forall c st a j sv s,
  cfg_ok c -> Inv c (scopes st) a -> Link st a -> nget (astreams a) j = Some s ->
  novf (scopes st) (mem (use_of (scopes st) (Stream j))) ->
  Inv c (scopes (fst (step c st (OSetSvc j sv)))) (anext c st a (OSetSvc j sv)) /\
  Link (fst (step c st (OSetSvc j sv))) (anext c st a (OSetSvc j sv)).
Proof.
  intros c st a j sv s LO I L Gs Ov. destruct L as [Lc Ls].
  destruct (Ls j s Gs) as (si & h & Gsi & Gh & Ep & Epr & Esv & Epar & Hsv).
  unfold anext. cbn [step astep]. rewrite Gs.
  assert (Same : Inv c (scopes st) a /\ Link st a) by (split; [exact I | split; assumption]).
  destruct (as_svc s) as [sv0|] eqn:As.
  { unfold set_svc. rewrite Gsi, Esv. cbn [fst]. replace (E_OTHER =? 0) with false by reflexivity. exact Same. }
  destruct (as_proto s) as [p|] eqn:Ap.
  2:{ unfold set_svc. rewrite Gsi, Esv, Epr. cbn [fst]. replace (E_OTHER =? 0) with false by reflexivity. exact Same. }
  pose proof (set_svc_eq c st j sv si p Gsi Esv Epr) as Eq. cbv zeta in Eq.
  set (q := si_peer si) in *. set (P' := [Peer q; ProtoPeer p q; SvcPeer sv q; Proto p; Svc sv; System]) in *.
  assert (Eq' : as_peer s = q) by (symmetry; exact Ep).
  set (Pa := [Peer (as_peer s); ProtoPeer p (as_peer s); SvcPeer sv (as_peer s); Proto p; Svc sv; System]).
  set (a2 := mkAstate (holders (set_par a (Stream j) Pa)) (aconns (set_par a (Stream j) Pa))
                      (nset (astreams (set_par a (Stream j) Pa)) j (mkAstream (as_peer s) (Some p) (Some sv)))).
  assert (Hpar : h_par h = [Peer q; ProtoPeer p q; Proto p; System]).
  { rewrite Epar. unfold stream_par. rewrite Ap, As, Eq'. reflexivity. }
  pose proof (attach_inv c (scopes st) a a2 (Stream j) h (Svc sv) (SvcPeer sv q) false P' LO I eq_refl Gh eq_refl eq_refl eq_refl) as H.
  specialize (H ltac:(discriminate) ltac:(discriminate) ltac:(discriminate) ltac:(discriminate)).
  specialize (H ltac:(unfold P'; repeat constructor; cbn; intuition discriminate)).
  specialize (H ltac:(unfold P'; intros x [<-|[<-|[<-|[<-|[<-|[<-|[]]]]]]]; reflexivity)).
  specialize (H ltac:(intros x; rewrite Hpar; unfold P'; cbn [countb]; lia) Ov).
  specialize (H ltac:(unfold a2, Pa; cbn [holders]; rewrite Eq'; apply set_par_holders, Gh)).
  destruct (attach c (scopes st) (Stream j) (Svc sv) (SvcPeer sv q) false P') as [m' e]. rewrite Eq. cbn [fst].
  destruct e as [e|].
  - rewrite ecode_some. cbn [hd scopes with_scopes]. split; [exact H|]. split.
    + intros i ac Gi. destruct (Lc i ac Gi) as (ci & hc & R). exists ci, hc. exact R.
    + intros j' s' Gj'. destruct (Ls j' s' Gj') as (si' & hs & R). exists si', hs. exact R.
  - cbn [ecode]. replace (0 =? 0) with true by reflexivity. cbn [hd scopes]. fold Pa a2. split; [exact H|]. split.
    + intros i ac Gi. unfold a2 in Gi. cbn [aconns] in Gi. unfold set_par in Gi. rewrite Gh in Gi. cbn [aconns] in Gi.
      destruct (Lc i ac Gi) as (ci & hc & P1 & P2 & R).
      destruct (hset_other_leaf (holders a) (Stream j) (mkHolder (h_own h) Pa (h_chain h) (h_dead h)) (Conn i) hc ltac:(discriminate) P2) as (h' & G' & Ep').
      exists ci, h'. unfold a2. cbn [holders conns]. rewrite (set_par_holders a (Stream j) h _ Gh), Ep'.
      split; [exact P1 | split; [exact G' | exact R]].
    + intros j' s' Gj'. unfold a2 in Gj'. cbn [astreams] in Gj'. unfold set_par in Gj'. rewrite Gh in Gj'. cbn [astreams] in Gj'.
      rewrite nget_nset in Gj'. unfold a2. cbn [holders streams]. rewrite (set_par_holders a (Stream j) h _ Gh).
      destruct (Nat.eqb j j') eqn:X.
      * apply Nat.eqb_eq in X. subst j'. inversion Gj'; subst s'. eexists. eexists. cbn [streams holders].
        rewrite nget_nset_same, hget_hset, sid_eqb_refl. split; [reflexivity|]. split; [reflexivity|]. cbn.
        split; [symmetry; exact Eq'|]. split; [reflexivity|]. split; [reflexivity|]. split; [reflexivity | discriminate].
      * apply Nat.eqb_neq in X. destruct (Ls j' s' Gj') as (si' & hs & P1 & P2 & R).
        destruct (hset_other_leaf (holders a) (Stream j) (mkHolder (h_own h) Pa (h_chain h) (h_dead h)) (Stream j') hs ltac:(congruence) P2) as (h' & G' & Ep').
        exists si', h'. cbn [streams]. rewrite nget_nset, Ep'. apply Nat.eqb_neq in X. rewrite X.
        split; [exact P1 | split; [exact G' | exact R]].
Qed.

(* ---- SetPeer ------------------------------------------------------------------------------------ *)
Definition sys_of (al : bool) : sid := if al then ASystem else System.
Definition tr_of (al : bool) : sid := if al then ATransient else Transient.

(* the abstract successors Spec.astep lists for SetPeer *)
Definition ok_state (a : astate) (i q : nat) (ac : aconn) (still : bool) : astate :=
  let a1 := set_par a (Conn i) [Peer q; if still then ASystem else System] in
  mkAstate (holders a1) (nset (aconns a1) i (mkAconn (ac_ep ac) still (Some q) (ac_open ac) (ac_adm ac))) (astreams a1).
Definition moved_state (a : astate) (i : nat) (ac : aconn) (p : list sid) : astate :=
  let a1 := set_par a (Conn i) p in
  mkAstate (holders a1) (nset (aconns a1) i (mkAconn (ac_ep ac) false None (ac_open ac) (ac_adm ac))) (astreams a1).

Lemma set_par_fields : forall a s h P, hget (holders a) s = Some h ->
  holders (set_par a s P) = repar a s h P /\ aconns (set_par a s P) = aconns a /\ astreams (set_par a s P) = astreams a.
Proof. intros a s h P G. unfold set_par, repar. rewrite G. repeat split. Qed.

Lemma hget_repar : forall a s h P y,
  hget (repar a s h P) y = if sid_eqb s y then Some (mkHolder (h_own h) P (h_chain h) (h_dead h)) else hget (holders a) y.
Proof. intros. unfold repar. apply hget_hset. Qed.

Lemma hget_self : forall a s h y, hget (holders a) s = Some h ->
  hget (holders a) y = if sid_eqb s y then Some h else hget (holders a) y.
Proof. intros a s h y G. destruct (sid_eqb s y) eqn:X; [apply sid_eqb_eq in X; subst y; exact G | reflexivity]. Qed.

Lemma nget_self : forall A (l : list (nat * A)) i v i', nget l i = Some v ->
  nget l i' = if Nat.eqb i i' then Some v else nget l i'.
Proof. intros A l i v i' G. destruct (Nat.eqb i i') eqn:X; [apply Nat.eqb_eq in X; subst i'; exact G | reflexivity]. Qed.

Lemma set_peer_eq : forall c st i q ci,
  nget (conns st) i = Some ci -> ci_peer ci = None ->
  (if ci_allow ci then match ci_ep ci with Some ip => allowed_peer c q ip | None => false end = true
   else edges_of (scopes st) (Conn i) <> []) ->
  let al := ci_allow ci in
  let '(m', e) := attach1 c (scopes st) (Conn i) (Peer q) (tr_of al) [Peer q; sys_of al] in
  set_peer c st i q =
  (mkState m' (nset (conns st) i
                 (match e with
                  | None => mkCinfo (ci_in ci) (ci_fd ci) al (Some q) (ci_ip ci) (ci_ep ci)
                  | Some _ => ci end)) (streams st) (lims st), ecode e).
Proof.
  intros c st i q ci G Hp Hc. cbv zeta. unfold set_peer, attach1. rewrite G, Hp.
  destruct (ci_allow ci) eqn:Al; cbn [sys_of tr_of].
  - rewrite Hc. cbn [negb andb]. destruct (charge_one (Peer q) _ _) as [m3|e1]; cbn [ci_allow ci_in ci_fd ci_peer ci_ip ci_ep]; rewrite ?Al; reflexivity.
  - cbn [andb]. destruct (edges_of (scopes st) (Conn i)) as [|e0 es]; [contradiction|].
    destruct (charge_one (Peer q) _ _) as [m3|e1]; cbn [ci_allow ci_in ci_fd ci_peer ci_ip ci_ep]; rewrite ?Al; reflexivity.
Qed.

(* SetPeer that does not have to move the connection off the allow-list *)
Lemma set_peer_plain : forall c st a i q ac ci h al,
  cfg_ok c -> Inv c (scopes st) a -> Link st a ->
  nget (aconns a) i = Some ac -> nget (conns st) i = Some ci -> hget (holders a) (Conn i) = Some h ->
  ac_peer ac = None -> ci_peer ci = None -> ci_allow ci = al -> ac_allow ac = al -> ci_ep ci = ac_ep ac ->
  (h_par h = [tr_of al; sys_of al] \/ (al = false /\ h_par h = [System; Transient])) ->
  (al = true -> ep_allowed_peer c q (ac_ep ac) = true) ->
  mem (use_of (scopes st) (Peer q)) + mem (use_of (scopes st) (Conn i)) <= max_int64 ->
  let '(st', cls) := set_peer c st i q in
  if cls =? 0 then Inv c (scopes st') (ok_state a i q ac al) /\ Link st' (ok_state a i q ac al)
  else Inv c (scopes st') a /\ Link st' a.
Proof.
  intros c st a i q ac ci h al LO I L Ga Gci Gh Ap Epe Eal Eal' Eep Hpar Hal Ov.
  assert (Hc : if ci_allow ci then match ci_ep ci with Some ip => allowed_peer c q ip | None => false end = true
               else edges_of (scopes st) (Conn i) <> []).
  { rewrite Eal. destruct al eqn:Al.
    - rewrite Eep. exact (Hal eq_refl).
    - destruct (I_handle c _ a I (Conn i) h Gh eq_refl) as (sc & Gm & _ & _ & Pe & _).
      unfold edges_of. rewrite Gm, Pe. cbn [leaf]. destruct Hpar as [X|[_ X]]; rewrite X; discriminate. }
  pose proof (set_peer_eq c st i q ci Gci Epe Hc) as Eq. cbv zeta in Eq. rewrite Eal in Eq.
  set (P' := [Peer q; sys_of al]) in *.
  destruct (set_par_fields a (Conn i) h [Peer q; if al then ASystem else System] Gh) as (F1 & F2 & F3).
  assert (Htr : In (tr_of al) (h_par h)).
  { destruct Hpar as [X|[Z X]]; rewrite X; [left; reflexivity | rewrite Z; right; left; reflexivity]. }
  pose proof (attach1_inv c (scopes st) a (ok_state a i q ac al) (Conn i) h (Peer q) (tr_of al) P' LO I eq_refl Gh eq_refl) as H.
  specialize (H ltac:(destruct al; reflexivity) ltac:(destruct al; discriminate) Htr).
  specialize (H ltac:(unfold P'; destruct al; repeat constructor; cbn; intuition discriminate)).
  specialize (H ltac:(unfold P'; intros x [<-|[<-|[]]]; destruct al; reflexivity)).
  specialize (H ltac:(intros x; unfold P'; destruct Hpar as [X|[Z X]]; rewrite X; [|rewrite Z]; cbn [countb tr_of sys_of]; lia) Ov).
  specialize (H ltac:(unfold ok_state; cbn [holders]; rewrite F1; unfold repar, P', sys_of; reflexivity)).
  destruct (attach1 c (scopes st) (Conn i) (Peer q) (tr_of al) P') as [m' e]. rewrite Eq.
  destruct e as [e|].
  - rewrite ecode_some. cbn [scopes]. split; [exact H|].
    apply (link_setpeer st _ a a i ac ci h L); cbn [conns streams]; try reflexivity; try assumption.
    + intros i'. apply nget_self, Ga.
    + intros i'. apply nget_nset.
    + intros y. apply hget_self, Gh.
    + congruence.
    + congruence.
    + intros _. rewrite Eal'. destruct Hpar as [X|X]; [left; rewrite X; destruct al; reflexivity | right; split; [apply X | right; apply X]].
  - cbn [ecode]. replace (0 =? 0) with true by reflexivity. cbn [scopes]. split; [exact H|].
    apply (link_setpeer st _ a (ok_state a i q ac al) i (mkAconn (ac_ep ac) al (Some q) (ac_open ac) (ac_adm ac))
             (mkCinfo (ci_in ci) (ci_fd ci) al (Some q) (ci_ip ci) (ci_ep ci))
             (mkHolder (h_own h) [Peer q; if al then ASystem else System] (h_chain h) (h_dead h)) L);
      unfold ok_state; cbn [conns streams aconns astreams holders]; try reflexivity; try assumption.
    + intros i'. rewrite F2. apply nget_nset.
    + intros i'. apply nget_nset.
    + intros y. rewrite F1. apply hget_repar.
    + intros X; discriminate X.
Qed.

(* SetPeer that first moves the connection to the standard scopes: an
   allow-listed connection whose peer is not allowed at this address, or a
   connection that an earlier refused transfer left without edges (e9a9a54) *)
Lemma set_peer_eqT : forall c st i q ci ciT,
  nget (conns st) i = Some ci -> ci_peer ci = None ->
  ((ci_allow ci = true /\ match ci_ep ci with Some ip => allowed_peer c q ip | None => false end = false /\
    ciT = mkCinfo (ci_in ci) (ci_fd ci) false None (ci_ip ci) (ci_ep ci)) \/
   (ci_allow ci = false /\ edges_of (scopes st) (Conn i) = [] /\ ciT = ci)) ->
  set_peer c st i q =
  let '(mt, e) := transfer_allowed (scopes st) i in
  match e with
  | Some e => (mkState mt (nset (conns st) i ciT) (streams st) (lims st), ecode (Some e))
  | None =>
      let '(m', e2) := attach1 c mt (Conn i) (Peer q) Transient [Peer q; System] in
      (mkState m' (nset (conns st) i
                     (match e2 with
                      | None => mkCinfo (ci_in ciT) (ci_fd ciT) (ci_allow ciT) (Some q) (ci_ip ciT) (ci_ep ciT)
                      | Some _ => ciT end)) (streams st) (lims st), ecode e2)
  end.
Proof.
  intros c st i q ci ciT G Hp Hc. unfold set_peer, attach1. rewrite G, Hp.
  destruct Hc as [(Al & Na & ->)|(Al & Ed & ->)]; rewrite Al.
  - rewrite Na. cbn [negb andb]. destruct (transfer_allowed (scopes st) i) as [mt e]. destruct e as [e|]; [reflexivity|].
    destruct (charge_one (Peer q) _ _) as [m3|e1]; reflexivity.
  - rewrite Ed. destruct (transfer_allowed (scopes st) i) as [mt e]. destruct e as [e|]; [reflexivity|].
    destruct (charge_one (Peer q) _ _) as [m3|e1]; rewrite ?Al; reflexivity.
Qed.

Lemma edges_keep_fail1 : forall c m t s, is_created_view t = true -> get m System <> None -> get m s <> None ->
  edges_of (decref (get_scope c m t) t) s = edges_of m s.
Proof.
  intros c m t s V B Gs. apply edges_of_shape. rewrite decref_shape.
  destruct (extends_get_scope c m t V B s) as [_ [S|(N & _)]]; [exact S | contradiction].
Qed.

Lemma attach1_fail_edges : forall c m s t1 tr P' m' e, attach1 c m s t1 tr P' = (m', Some e) ->
  is_created_view t1 = true -> get m System <> None -> get m s <> None -> edges_of m' s = edges_of m s.
Proof.
  intros c m s t1 tr P' m' e H V B Gs. unfold attach1 in H.
  destruct (charge_one t1 _ _) as [m2|e1]; inversion H; subst. apply edges_keep_fail1; assumption.
Qed.

(* the peer scope refuses only a connection that holds something *)
Lemma attach1_fail_nonzero : forall c m a s t1 tr P' m' e, attach1 c m s t1 tr P' = (m', Some e) ->
  cfg_ok c -> Inv c m a -> is_created_view t1 = true -> use_of m s <> stat0.
Proof.
  intros c m a s t1 tr P' m' e H LO I V Z. unfold attach1 in H.
  destruct (charge_one t1 _ _) as [m2|e1] eqn:C; [discriminate|].
  rewrite (at_use1 c m a t1 I V s), Z in C.
  pose proof (at_I1 c m a t1 LO I V) as I1.
  destruct (get (get_scope c m t1) t1) as [sc|] eqn:G; [|exact (get_scope_present c m t1 G)].
  assert (Hh : is_handle t1 = false) by (destruct t1; try discriminate; reflexivity).
  destruct (I_static c _ a I1 t1 sc G Hh) as (D & _).
  destruct (charge_zero_ok t1 _ sc G D (I_good c _ a I1 t1 sc G)) as (mz & Cz). congruence.
Qed.

Lemma set_peer_transfer : forall c st a aE aS i q ac ci h acE,
  cfg_ok c -> Inv c (scopes st) a -> Link st a ->
  nget (aconns a) i = Some ac -> nget (conns st) i = Some ci -> hget (holders a) (Conn i) = Some h ->
  ac_peer ac = None -> ci_peer ci = None -> ci_allow ci = ac_allow ac -> ci_ep ci = ac_ep ac ->
  ((ac_allow ac = true /\ ep_allowed_peer c q (ac_ep ac) = false /\ h_par h = [ATransient; ASystem]) \/
   (ac_allow ac = false /\ h_par h = [])) ->
  novf (scopes st) (mem (use_of (scopes st) (Conn i))) ->
  holders aE = repar a (Conn i) h [] -> holders aS = repar a (Conn i) h [System; Transient] ->
  (forall i', nget (aconns aE) i' = if Nat.eqb i i' then Some acE else nget (aconns a) i') ->
  (forall i', nget (aconns aS) i' = if Nat.eqb i i' then Some acE else nget (aconns a) i') ->
  astreams aE = astreams a -> astreams aS = astreams a ->
  ac_peer acE = None -> ac_allow acE = false -> ac_ep acE = ac_ep ac ->
  let '(st', cls) := set_peer c st i q in
  if cls =? 0 then Inv c (scopes st') (ok_state a i q ac false) /\ Link st' (ok_state a i q ac false)
  else (edges_of (scopes st') (Conn i) = [] /\ Inv c (scopes st') aE /\ Link st' aE) \/
       (edges_of (scopes st') (Conn i) = [System; Transient] /\ Inv c (scopes st') aS /\ Link st' aS /\
        use_of (scopes st) (Conn i) <> stat0).
Proof.
  intros c st a aE aS i q ac ci h acE LO I L Ga Gci Gh Ap Epe Eal Eep Hcase Ov HaE HaS NE NS SE SS PE AE EE.
  assert (HT : exists ciT,
    ((ci_allow ci = true /\ match ci_ep ci with Some ip => allowed_peer c q ip | None => false end = false /\
      ciT = mkCinfo (ci_in ci) (ci_fd ci) false None (ci_ip ci) (ci_ep ci)) \/
     (ci_allow ci = false /\ edges_of (scopes st) (Conn i) = [] /\ ciT = ci)) /\
    ci_peer ciT = None /\ ci_allow ciT = false /\ ci_ep ciT = ci_ep ci).
  { destruct Hcase as [(Al & Na & Hp)|(Al & Hp)].
    - eexists. split; [left; split; [congruence|]; split; [rewrite Eep; exact Na | reflexivity]|]. repeat split.
    - exists ci. split; [|repeat split; congruence]. right. split; [congruence|]. split; [|reflexivity].
      destruct (I_handle c _ a I (Conn i) h Gh eq_refl) as (sc & Gm & _ & _ & Pe & _).
      unfold edges_of. rewrite Gm, Pe. exact Hp. }
  destruct HT as (ciT & HcT & T1 & T2 & T3).
  rewrite (set_peer_eqT c st i q ci ciT Gci Epe HcT).
  pose proof (transfer_inv c (scopes st) a aE aS i h LO I Gh HaE HaS Ov) as T.
  destruct (transfer_allowed (scopes st) i) as [mt e]. destruct T as (Keep & T).
  assert (Np : forall x, is_handle x = true \/ is_created_view x = true -> ~ In x (h_par h)).
  { intros x Hx X. destruct Hcase as [(_ & _ & Hp)|(_ & Hp)]; rewrite Hp in X; [|destruct X].
    destruct X as [<-|[<-|[]]]; destruct Hx; discriminate. }
  assert (Kc : use_of mt (Conn i) = use_of (scopes st) (Conn i))
    by (apply Keep; [discriminate | discriminate | apply Np; left; reflexivity]).
  assert (Nc : forall v i', nget (nset (conns st) i v) i' = if Nat.eqb i i' then Some v else nget (conns st) i')
    by (intros; apply nget_nset).
  destruct e as [e|].
  - destruct T as (IE & EdE). rewrite ecode_some. left. cbn [scopes]. split; [exact EdE|]. split; [exact IE|].
    apply (link_setpeer st _ a aE i acE ciT (mkHolder (h_own h) [] (h_chain h) (h_dead h)) L); cbn [conns streams];
      try reflexivity; try assumption; try congruence; try apply Nc.
    + intros y. rewrite HaE. apply hget_repar.
    + intros _. rewrite AE. right. split; [reflexivity | left; reflexivity].
  - destruct T as (IS & EdS).
    set (hS := mkHolder (h_own h) [System; Transient] (h_chain h) (h_dead h)).
    assert (GS : hget (holders aS) (Conn i) = Some hS) by (rewrite HaS, hget_repar, sid_eqb_refl; reflexivity).
    destruct (set_par_fields a (Conn i) h [Peer q; System] Gh) as (F1 & F2 & F3).
    pose proof (attach1_inv c mt aS (ok_state a i q ac false) (Conn i) hS (Peer q) Transient [Peer q; System] LO IS eq_refl GS eq_refl eq_refl) as H.
    specialize (H ltac:(discriminate) ltac:(right; left; reflexivity)).
    specialize (H ltac:(repeat constructor; cbn; intuition discriminate)).
    specialize (H ltac:(intros x [<-|[<-|[]]]; reflexivity)).
    specialize (H ltac:(intros x; cbn [countb h_par hS]; lia)).
    specialize (H ltac:(rewrite Kc, Keep; [apply Ov | discriminate | discriminate | apply Np; right; reflexivity])).
    specialize (H ltac:(unfold ok_state; cbn [holders]; rewrite F1, HaS; unfold repar; rewrite hset_hset; reflexivity)).
    destruct (attach1 c mt (Conn i) (Peer q) Transient [Peer q; System]) as [m' e2] eqn:At.
    destruct e2 as [e2|].
    + rewrite ecode_some. right. cbn [scopes].
      assert (Gs : get mt (Conn i) <> None).
      { destruct (I_handle c mt aS IS (Conn i) hS GS eq_refl) as (sc & Gm & _). rewrite Gm. discriminate. }
      split; [rewrite (attach1_fail_edges c mt _ _ _ _ m' e2 At eq_refl (proj1 (I_base c mt aS IS)) Gs); exact EdS|].
      split; [exact H|]. split.
      * apply (link_setpeer st _ a aS i acE ciT hS L); cbn [conns streams]; try reflexivity; try assumption; try congruence; try apply Nc.
        -- intros y. rewrite HaS. apply hget_repar.
        -- intros _. rewrite AE. right. split; [reflexivity | right; reflexivity].
      * rewrite <- Kc. apply (attach1_fail_nonzero c mt aS _ _ _ _ m' e2 At LO IS eq_refl).
    + cbn [ecode]. replace (0 =? 0) with true by reflexivity. cbn [scopes]. split; [exact H|].
      apply (link_setpeer st _ a (ok_state a i q ac false) i (mkAconn (ac_ep ac) false (Some q) (ac_open ac) (ac_adm ac))
               (mkCinfo (ci_in ciT) (ci_fd ciT) (ci_allow ciT) (Some q) (ci_ip ciT) (ci_ep ciT))
               (mkHolder (h_own h) [Peer q; System] (h_chain h) (h_dead h)) L);
        unfold ok_state; cbn [conns streams aconns astreams holders ci_peer ci_allow ci_ep ac_peer ac_allow ac_ep];
        try reflexivity; try assumption; try congruence; try apply Nc.
      * intros i'. rewrite F2. apply nget_nset.
      * intros y. rewrite F1. apply hget_repar.
Qed.

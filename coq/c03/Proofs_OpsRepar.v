(* C03 — per-operation preservation: SetProtocol, SetService, SetPeer (without
   the allow-list transfer), with the connection / stream link. *)
From Coq Require Import List ZArith Bool Arith Lia.
From Verif Require Import lib.Wire c03.Int64 c03.Model c03.Spec c03.Proofs_Int64 c03.Proofs_Base
     c03.Proofs_Sum c03.Proofs_Reach c03.Proofs_Link c03.Proofs_Targets c03.Proofs_Frames c03.Proofs_Frames2
     c03.Proofs_Frames3 c03.Proofs_Kill c03.Proofs_OpsMem c03.Proofs_Done c03.Proofs_OpsDone c03.Proofs_OpsNew
     c03.Proofs_OpsOpen c03.Proofs_Hist c03.Proofs_Repar c03.Proofs_Repar2 c03.Proofs_Move c03.Proofs_Attach
     c03.Proofs_Attach1 c03.Proofs_Link2.
Import ListNotations.
Local Open Scope Z_scope.

Lemma set_par_holders : forall a s h P, hget (holders a) s = Some h ->
  holders (set_par a s P) = hset (holders a) s (mkHolder (h_own h) P (h_chain h) (h_dead h)).
Proof. intros a s h P G. unfold set_par. rewrite G. reflexivity. Qed.

(* ---- SetProtocol ------------------------------------------------------------------------- *)
Lemma set_proto_eq : forall c st j p si, nget (streams st) j = Some si -> si_proto si = None ->
  let q := si_peer si in
  let '(m', e) := attach c (scopes st) (Stream j) (Proto p) (ProtoPeer p q) true [Peer q; ProtoPeer p q; Proto p; System] in
  set_proto c st j p =
  (match e with
   | None => mkState m' (conns st) (nset (streams st) j (mkSinfo (si_in si) q (Some p) (si_svc si))) (lims st)
   | Some _ => with_scopes st m'
   end, ecode e).
Proof.
  intros c st j p si G Hp. cbv zeta. unfold set_proto, attach. rewrite G, Hp.
  destruct (charge_one (Proto p) _ _) as [m2|e1]; [|reflexivity].
  destruct (charge_one (ProtoPeer p (si_peer si)) _ _) as [m4|e2]; reflexivity.
Qed.

Definition proto_par (q p : nat) : list sid := [Peer q; ProtoPeer p q; Proto p; System].

Theorem set_proto_inv : forall c st a j p s,
  cfg_ok c -> Inv c (scopes st) a -> Link st a -> nget (astreams a) j = Some s ->
  novf (scopes st) (mem (use_of (scopes st) (Stream j))) ->
  Inv c (scopes (fst (step c st (OSetProto j p)))) (anext c st a (OSetProto j p)) /\
  Link (fst (step c st (OSetProto j p))) (anext c st a (OSetProto j p)).
Proof.
  intros c st a j p s LO I L Gs Ov. destruct L as [Lc Ls].
  destruct (Ls j s Gs) as (si & h & Gsi & Gh & Ep & Epr & Esv & Epar & Hsv).
  unfold anext. cbn [step astep]. rewrite Gs.
  destruct (as_proto s) as [p0|] eqn:Ap.
  - (* already attached: plain error, nothing changes *)
    unfold set_proto. rewrite Gsi, Epr. cbn [fst]. replace (E_OTHER =? 0) with false by reflexivity. cbn [hd].
    split; [exact I | split; assumption].
  - pose proof (set_proto_eq c st j p si Gsi ltac:(congruence)) as Eq. cbv zeta in Eq.
    set (q := si_peer si) in *. set (P' := [Peer q; ProtoPeer p q; Proto p; System]) in *.
    set (a2 := mkAstate (holders (set_par a (Stream j) [Peer (as_peer s); ProtoPeer p (as_peer s); Proto p; System]))
                        (aconns (set_par a (Stream j) [Peer (as_peer s); ProtoPeer p (as_peer s); Proto p; System]))
                        (nset (astreams (set_par a (Stream j) [Peer (as_peer s); ProtoPeer p (as_peer s); Proto p; System])) j
                              (mkAstream (as_peer s) (Some p) (as_svc s)))).
    assert (Eq' : as_peer s = q) by (symmetry; exact Ep).
    assert (Hpar : h_par h = [Peer q; Transient; System]).
    { rewrite Epar. unfold stream_par. rewrite Ap, Eq'. reflexivity. }
    pose proof (attach_inv c (scopes st) a a2 (Stream j) h (Proto p) (ProtoPeer p q) true P' LO I eq_refl Gh eq_refl eq_refl eq_refl) as H.
    specialize (H ltac:(discriminate) ltac:(discriminate) ltac:(discriminate)).
    specialize (H ltac:(intros _; rewrite Hpar; right; left; reflexivity)).
    specialize (H ltac:(unfold P'; repeat constructor; cbn; intuition discriminate)).
    specialize (H ltac:(unfold P'; intros x [<-|[<-|[<-|[<-|[]]]]]; reflexivity)).
    specialize (H ltac:(intros x; rewrite Hpar; unfold P'; cbn [countb]; lia) Ov).
    specialize (H ltac:(unfold a2; cbn [holders]; rewrite Eq'; apply set_par_holders, Gh)).
    destruct (attach c (scopes st) (Stream j) (Proto p) (ProtoPeer p q) true P') as [m' e]. rewrite Eq. cbn [fst].
    destruct e as [e|].
    + rewrite ecode_some. cbn [hd scopes with_scopes]. split; [exact H|]. split.
      * intros i ac Gi. destruct (Lc i ac Gi) as (ci & hc & R). exists ci, hc. exact R.
      * intros j' s' Gj'. destruct (Ls j' s' Gj') as (si' & hs & R). exists si', hs. exact R.
    + cbn [ecode]. replace (0 =? 0) with true by reflexivity. cbn [hd scopes]. fold a2. split; [exact H|]. split.
      * intros i ac Gi. unfold a2 in Gi. cbn [aconns] in Gi. unfold set_par in Gi. rewrite Gh in Gi. cbn [aconns] in Gi.
        destruct (Lc i ac Gi) as (ci & hc & P1 & P2 & R).
        destruct (hset_other_leaf (holders a) (Stream j) (mkHolder (h_own h) [Peer (as_peer s); ProtoPeer p (as_peer s); Proto p; System] (h_chain h) (h_dead h)) (Conn i) hc ltac:(discriminate) P2) as (h' & G' & Ep').
        exists ci, h'. unfold a2. cbn [holders conns]. rewrite (set_par_holders a (Stream j) h _ Gh), Ep'.
        split; [exact P1 | split; [exact G' | exact R]].
      * intros j' s' Gj'. unfold a2 in Gj'. cbn [astreams] in Gj'. unfold set_par in Gj'. rewrite Gh in Gj'. cbn [astreams] in Gj'.
        rewrite nget_nset in Gj'. unfold a2. cbn [holders streams]. rewrite (set_par_holders a (Stream j) h _ Gh).
        destruct (Nat.eqb j j') eqn:X.
        -- apply Nat.eqb_eq in X. subst j'. inversion Gj'; subst s'. eexists. eexists. cbn [streams holders].
           rewrite nget_nset_same, hget_hset, sid_eqb_refl. split; [reflexivity|]. split; [reflexivity|]. cbn.
           unfold stream_par. cbn. rewrite (Hsv eq_refl). split; [symmetry; exact Eq'|]. split; [reflexivity|].
           split; [rewrite Esv; apply Hsv; reflexivity|]. split; [reflexivity | discriminate].
        -- apply Nat.eqb_neq in X. destruct (Ls j' s' Gj') as (si' & hs & P1 & P2 & R).
           destruct (hset_other_leaf (holders a) (Stream j) (mkHolder (h_own h) [Peer (as_peer s); ProtoPeer p (as_peer s); Proto p; System] (h_chain h) (h_dead h)) (Stream j') hs ltac:(congruence) P2) as (h' & G' & Ep').
           exists si', h'. cbn [streams]. rewrite nget_nset, Ep'. apply Nat.eqb_neq in X. rewrite X.
           split; [exact P1 | split; [exact G' | exact R]].
Qed.

(* ---- SetService ---------------------------------------------------------------------------- *)
Lemma set_svc_eq : forall c st j sv si p, nget (streams st) j = Some si -> si_svc si = None -> si_proto si = Some p ->
  let q := si_peer si in
  let '(m', e) := attach c (scopes st) (Stream j) (Svc sv) (SvcPeer sv q) false
                         [Peer q; ProtoPeer p q; SvcPeer sv q; Proto p; Svc sv; System] in
  set_svc c st j sv =
  (match e with
   | None => mkState m' (conns st) (nset (streams st) j (mkSinfo (si_in si) q (Some p) (Some sv))) (lims st)
   | Some _ => with_scopes st m'
   end, ecode e).
Proof.
  intros c st j sv si p G Hs Hp. cbv zeta. unfold set_svc, attach. rewrite G, Hs, Hp.
  destruct (charge_one (Svc sv) _ _) as [m2|e1]; [|reflexivity].
  destruct (charge_one (SvcPeer sv (si_peer si)) _ _) as [m4|e2]; reflexivity.
Qed.

Theorem set_svc_inv : forall c st a j sv s,
  cfg_ok c -> Inv c (scopes st) a -> Link st a -> nget (astreams a) j = Some s ->
  novf (scopes st) (mem (use_of (scopes st) (Stream j))) ->
  Inv c (scopes (fst (step c st (OSetSvc j sv)))) (anext c st a (OSetSvc j sv)) /\
  Link (fst (step c st (OSetSvc j sv))) (anext c st a (OSetSvc j sv)).
Proof.
  intros c st a j sv s LO I L Gs Ov. destruct L as [Lc Ls].
  destruct (Ls j s Gs) as (si & h & Gsi & Gh & Ep & Epr & Esv & Epar & Hsv).
  unfold anext. cbn [step astep]. rewrite Gs.
  assert (Same : Inv c (scopes st) a /\ Link st a) by (split; [exact I | split; assumption]).
  destruct (as_svc s) as [sv0|] eqn:As.
  { unfold set_svc. rewrite Gsi, Esv. cbn [fst]. replace (E_OTHER =? 0) with false by reflexivity. exact Same. }
  destruct (as_proto s) as [p|] eqn:Ap.
  2:{ unfold set_svc. rewrite Gsi, Esv, Epr. cbn [fst]. replace (E_OTHER =? 0) with false by reflexivity. exact Same. }
  pose proof (set_svc_eq c st j sv si p Gsi Esv Epr) as Eq. cbv zeta in Eq.
  set (q := si_peer si) in *. set (P' := [Peer q; ProtoPeer p q; SvcPeer sv q; Proto p; Svc sv; System]) in *.
  assert (Eq' : as_peer s = q) by (symmetry; exact Ep).
  set (Pa := [Peer (as_peer s); ProtoPeer p (as_peer s); SvcPeer sv (as_peer s); Proto p; Svc sv; System]).
  set (a2 := mkAstate (holders (set_par a (Stream j) Pa)) (aconns (set_par a (Stream j) Pa))
                      (nset (astreams (set_par a (Stream j) Pa)) j (mkAstream (as_peer s) (Some p) (Some sv)))).
  assert (Hpar : h_par h = [Peer q; ProtoPeer p q; Proto p; System]).
  { rewrite Epar. unfold stream_par. rewrite Ap, As, Eq'. reflexivity. }
  pose proof (attach_inv c (scopes st) a a2 (Stream j) h (Svc sv) (SvcPeer sv q) false P' LO I eq_refl Gh eq_refl eq_refl eq_refl) as H.
  specialize (H ltac:(discriminate) ltac:(discriminate) ltac:(discriminate) ltac:(discriminate)).
  specialize (H ltac:(unfold P'; repeat constructor; cbn; intuition discriminate)).
  specialize (H ltac:(unfold P'; intros x [<-|[<-|[<-|[<-|[<-|[<-|[]]]]]]]; reflexivity)).
  specialize (H ltac:(intros x; rewrite Hpar; unfold P'; cbn [countb]; lia) Ov).
  specialize (H ltac:(unfold a2, Pa; cbn [holders]; rewrite Eq'; apply set_par_holders, Gh)).
  destruct (attach c (scopes st) (Stream j) (Svc sv) (SvcPeer sv q) false P') as [m' e]. rewrite Eq. cbn [fst].
  destruct e as [e|].
  - rewrite ecode_some. cbn [hd scopes with_scopes]. split; [exact H|]. split.
    + intros i ac Gi. destruct (Lc i ac Gi) as (ci & hc & R). exists ci, hc. exact R.
    + intros j' s' Gj'. destruct (Ls j' s' Gj') as (si' & hs & R). exists si', hs. exact R.
  - cbn [ecode]. replace (0 =? 0) with true by reflexivity. cbn [hd scopes]. fold Pa a2. split; [exact H|]. split.
    + intros i ac Gi. unfold a2 in Gi. cbn [aconns] in Gi. unfold set_par in Gi. rewrite Gh in Gi. cbn [aconns] in Gi.
      destruct (Lc i ac Gi) as (ci & hc & P1 & P2 & R).
      destruct (hset_other_leaf (holders a) (Stream j) (mkHolder (h_own h) Pa (h_chain h) (h_dead h)) (Conn i) hc ltac:(discriminate) P2) as (h' & G' & Ep').
      exists ci, h'. unfold a2. cbn [holders conns]. rewrite (set_par_holders a (Stream j) h _ Gh), Ep'.
      split; [exact P1 | split; [exact G' | exact R]].
    + intros j' s' Gj'. unfold a2 in Gj'. cbn [astreams] in Gj'. unfold set_par in Gj'. rewrite Gh in Gj'. cbn [astreams] in Gj'.
      rewrite nget_nset in Gj'. unfold a2. cbn [holders streams]. rewrite (set_par_holders a (Stream j) h _ Gh).
      destruct (Nat.eqb j j') eqn:X.
      * apply Nat.eqb_eq in X. subst j'. inversion Gj'; subst s'. eexists. eexists. cbn [streams holders].
        rewrite nget_nset_same, hget_hset, sid_eqb_refl. split; [reflexivity|]. split; [reflexivity|]. cbn.
        split; [symmetry; exact Eq'|]. split; [reflexivity|]. split; [reflexivity|]. split; [reflexivity | discriminate].
      * apply Nat.eqb_neq in X. destruct (Ls j' s' Gj') as (si' & hs & P1 & P2 & R).
        destruct (hset_other_leaf (holders a) (Stream j) (mkHolder (h_own h) Pa (h_chain h) (h_dead h)) (Stream j') hs ltac:(congruence) P2) as (h' & G' & Ep').
        exists si', h'. cbn [streams]. rewrite nget_nset, Ep'. apply Nat.eqb_neq in X. rewrite X.
        split; [exact P1 | split; [exact G' | exact R]].
Qed.

(* ---- SetPeer (no allow-list transfer) --------------------------------------------------------- *)
Definition sys_of (al : bool) : sid := if al then ASystem else System.
Definition tr_of (al : bool) : sid := if al then ATransient else Transient.

Lemma set_peer_eq : forall c st i q ci,
  nget (conns st) i = Some ci -> ci_peer ci = None ->
  (if ci_allow ci then match ci_ep ci with Some ip => allowed_peer c q ip | None => false end = true
   else edges_of (scopes st) (Conn i) <> []) ->
  let al := ci_allow ci in
  let '(m', e) := attach1 c (scopes st) (Conn i) (Peer q) (tr_of al) [Peer q; sys_of al] in
  set_peer c st i q =
  (mkState m' (nset (conns st) i
                 (match e with
                  | None => mkCinfo (ci_in ci) (ci_fd ci) al (Some q) (ci_ip ci) (ci_ep ci)
                  | Some _ => ci end)) (streams st) (lims st), ecode e).
Proof.
  intros c st i q ci G Hp Hc. cbv zeta. unfold set_peer, attach1. rewrite G, Hp.
  destruct (ci_allow ci) eqn:Al; cbn [sys_of tr_of].
  - rewrite Hc. cbn [negb andb]. destruct (charge_one (Peer q) _ _) as [m3|e1]; cbn [ci_allow ci_in ci_fd ci_peer ci_ip ci_ep]; rewrite ?Al; reflexivity.
  - cbn [andb]. destruct (edges_of (scopes st) (Conn i)) as [|e0 es]; [contradiction|].
    destruct (charge_one (Peer q) _ _) as [m3|e1]; cbn [ci_allow ci_in ci_fd ci_peer ci_ip ci_ep]; rewrite ?Al; reflexivity.
Qed.

Theorem set_peer_inv : forall c st a i q ac,
  cfg_ok c -> Inv c (scopes st) a -> Link st a -> nget (aconns a) i = Some ac ->
  (ac_peer ac = None -> ac_allow ac = false \/ ep_allowed_peer c q (ac_ep ac) = true) ->
  novf (scopes st) (mem (use_of (scopes st) (Conn i))) ->
  Inv c (scopes (fst (step c st (OSetPeer i q)))) (anext c st a (OSetPeer i q)) /\
  Link (fst (step c st (OSetPeer i q))) (anext c st a (OSetPeer i q)).
Proof.
  intros c st a i q ac LO I L Ga Hno Ov. destruct L as [Lc Ls].
  destruct (Lc i ac Ga) as (ci & h & Gci & Gh & Epe & Eal & Eep & Hpar).
  unfold anext. cbn [step astep]. rewrite Ga.
  destruct (ac_peer ac) as [q0|] eqn:Ap.
  { unfold set_peer. rewrite Gci, Epe. cbn [fst]. replace (E_OTHER =? 0) with false by reflexivity. cbn [hd].
    split; [exact I | split; assumption]. }
  specialize (Hpar eq_refl). specialize (Hno eq_refl).
  set (al := ac_allow ac) in *.
  assert (Estill : (al && ep_allowed_peer c q (ac_ep ac)) = al).
  { destruct al eqn:Al; [|reflexivity]. destruct Hno as [X|X]; [discriminate | rewrite X; reflexivity]. }
  assert (Hc : if ci_allow ci then match ci_ep ci with Some ip => allowed_peer c q ip | None => false end = true
               else edges_of (scopes st) (Conn i) <> []).
  { rewrite Eal. fold al. destruct al eqn:Al.
    - destruct Hno as [X|X]; [discriminate|]. rewrite Eep. exact X.
    - destruct (I_handle c _ a I (Conn i) h Gh eq_refl) as (sc & Gm & _ & _ & Pe & _).
      unfold edges_of. rewrite Gm, Pe. cbn [leaf]. rewrite Hpar. discriminate. }
  pose proof (set_peer_eq c st i q ci Gci Epe Hc) as Eq. cbv zeta in Eq. rewrite Eal in Eq. fold al in Eq.
  set (P' := [Peer q; sys_of al]) in *.
  set (a2 := mkAstate (holders (set_par a (Conn i) [Peer q; if al && ep_allowed_peer c q (ac_ep ac) then ASystem else System]))
                      (nset (aconns (set_par a (Conn i) [Peer q; if al && ep_allowed_peer c q (ac_ep ac) then ASystem else System])) i
                            (mkAconn (ac_ep ac) (al && ep_allowed_peer c q (ac_ep ac)) (Some q) (ac_open ac) (ac_adm ac)))
                      (astreams (set_par a (Conn i) [Peer q; if al && ep_allowed_peer c q (ac_ep ac) then ASystem else System]))).
  assert (Hp' : h_par h = [tr_of al; sys_of al]) by (rewrite Hpar; destruct al; reflexivity).
  pose proof (attach1_inv c (scopes st) a a2 (Conn i) h (Peer q) (tr_of al) P' LO I eq_refl Gh eq_refl) as H.
  specialize (H ltac:(destruct al; reflexivity) ltac:(destruct al; discriminate)).
  specialize (H ltac:(rewrite Hp'; left; reflexivity)).
  specialize (H ltac:(unfold P'; destruct al; repeat constructor; cbn; intuition discriminate)).
  specialize (H ltac:(unfold P'; intros x [<-|[<-|[]]]; destruct al; reflexivity)).
  specialize (H ltac:(intros x; rewrite Hp'; unfold P'; cbn [countb]; lia) Ov).
  specialize (H ltac:(unfold a2; cbn [holders]; rewrite Estill, (set_par_holders a (Conn i) h _ Gh); unfold P', sys_of; reflexivity)).
  destruct (attach1 c (scopes st) (Conn i) (Peer q) (tr_of al) P') as [m' e]. rewrite Eq. cbn [fst].
  assert (Ncx : forall i' v, nget (nset (conns st) i v) i' = if Nat.eqb i i' then Some v else nget (conns st) i') by (intros; apply nget_nset).
  destruct e as [e|].
  - rewrite ecode_some. replace (al && negb (al && ep_allowed_peer c q (ac_ep ac))) with false by (rewrite Estill; destruct al; reflexivity).
    rewrite (a_par_leaf a (Conn i) h eq_refl Gh), Hp'. cbn [hd scopes]. split; [exact H|]. split.
    + intros i' ac' Gi. destruct (Lc i' ac' Gi) as (ci' & hc & P1 & R). unfold conn_link. cbn [conns]. rewrite Ncx.
      destruct (Nat.eqb i i') eqn:X.
      * apply Nat.eqb_eq in X. subst i'. rewrite Gci in P1. inversion P1; subst ci'. exists ci, hc. split; [reflexivity | exact R].
      * exists ci', hc. split; [exact P1 | exact R].
    + intros j s Gj. destruct (Ls j s Gj) as (si & hs & R). exists si, hs. exact R.
  - cbn [ecode]. replace (0 =? 0) with true by reflexivity. cbn [hd scopes]. fold a2. split; [exact H|]. split.
    + intros i' ac' Gi. unfold a2 in Gi. cbn [aconns] in Gi. unfold set_par in Gi. rewrite Gh in Gi. cbn [aconns] in Gi.
      rewrite nget_nset in Gi. unfold a2, conn_link. cbn [holders conns]. rewrite (set_par_holders a (Conn i) h _ Gh), Ncx.
      destruct (Nat.eqb i i') eqn:X.
      * apply Nat.eqb_eq in X. subst i'. inversion Gi; subst ac'. eexists. eexists. rewrite hget_hset, sid_eqb_refl.
        split; [reflexivity|]. split; [reflexivity|]. cbn. rewrite Estill. repeat split; try assumption; discriminate.
      * destruct (Lc i' ac' Gi) as (ci' & hc & P1 & P2 & R).
        destruct (hset_other_leaf (holders a) (Conn i) (mkHolder (h_own h) [Peer q; if al && ep_allowed_peer c q (ac_ep ac) then ASystem else System] (h_chain h) (h_dead h)) (Conn i') hc ltac:(apply Nat.eqb_neq in X; congruence) P2) as (h' & G' & Ep').
        exists ci', h'. rewrite Ep'. split; [exact P1 | split; [exact G' | exact R]].
    + intros j s Gj. unfold a2 in Gj. cbn [astreams] in Gj. unfold set_par in Gj. rewrite Gh in Gj. cbn [astreams] in Gj.
      destruct (Ls j s Gj) as (si & hs & P1 & P2 & R).
      destruct (hset_other_leaf (holders a) (Conn i) (mkHolder (h_own h) [Peer q; if al && ep_allowed_peer c q (ac_ep ac) then ASystem else System] (h_chain h) (h_dead h)) (Stream j) hs ltac:(discriminate) P2) as (h' & G' & Ep').
      exists si, h'. unfold a2. cbn [holders streams]. rewrite (set_par_holders a (Conn i) h _ Gh), Ep'.
      split; [exact P1 | split; [exact G' | exact R]].
Qed.

(* C03 — lemmas about the int64 arithmetic of checkMemory. *)
From Coq Require Import ZArith Bool Lia.
From Verif Require Import c03.Int64 c03.Model.
Local Open Scope Z_scope.

Lemma gtb_false : forall a b, a <= b -> (a >? b) = false.
Proof. intros. rewrite Z.gtb_ltb. apply Z.ltb_ge. lia. Qed.
Lemma gtb_true : forall a b, b < a -> (a >? b) = true.
Proof. intros. rewrite Z.gtb_ltb. apply Z.ltb_lt. lia. Qed.

Lemma wrap64_id : forall z, min_int64 <= z <= max_int64 -> wrap64 z = z.
Proof.
  intros z H. unfold wrap64, min_int64, max_int64, two63, two64 in *.
  rewrite Z.mod_small; lia.
Qed.

Lemma wrap64_range : forall z, min_int64 <= wrap64 z <= max_int64.
Proof.
  intros z. unfold wrap64, min_int64, max_int64, two63, two64.
  pose proof (Z.mod_pos_bound (z + 9223372036854775808) 18446744073709551616 ltac:(lia)). lia.
Qed.

Lemma add64_exact : forall a b, min_int64 <= a + b <= max_int64 -> add64 a b = a + b.
Proof. intros. unfold add64. apply wrap64_id; assumption. Qed.

Lemma sub64_exact : forall a b, min_int64 <= a - b <= max_int64 -> sub64 a b = a - b.
Proof. intros. unfold sub64. apply wrap64_id; assumption. Qed.

(* wrap64 z = z - k * 2^64 for some k *)
Lemma wrap64_shape : forall z, exists k, wrap64 z = z - k * two64.
Proof.
  intros z. unfold wrap64. exists ((z + two63) / two64).
  pose proof (Z.div_mod (z + two63) two64 ltac:(unfold two64; lia)). lia.
Qed.

(* addInt64WithOverflow on non-negative operands: ok iff the sum fits *)
Lemma add_with_overflow_spec : forall a b, 0 <= a <= max_int64 -> 0 <= b <= max_int64 ->
  add_with_overflow a b = (if a + b <=? max_int64 then (a + b, true) else (add64 a b, false)).
Proof.
  intros a b Ha Hb. unfold add_with_overflow.
  destruct (a + b <=? max_int64) eqn:E.
  - apply Z.leb_le in E. rewrite add64_exact by (unfold min_int64 in *; lia).
    f_equal. destruct (Z.eq_dec b 0) as [->|Hnz].
    + rewrite (gtb_false (a + 0) a) by lia. reflexivity.
    + rewrite (gtb_true (a + b) a) by lia. rewrite (gtb_true b 0) by lia. reflexivity.
  - apply Z.leb_gt in E. f_equal.
    assert (Hw : add64 a b = a + b - two64).
    { unfold add64, wrap64. unfold max_int64, two63, two64 in *.
      replace (a + b + 9223372036854775808) with ((a + b - 9223372036854775808) + 1 * 18446744073709551616) by lia.
      rewrite Z.mod_add by lia. rewrite Z.mod_small by lia. lia. }
    rewrite Hw. unfold max_int64, two64 in *.
    rewrite (gtb_false (a + b - 18446744073709551616) a) by lia.
    rewrite (gtb_true b 0) by lia. reflexivity.
Qed.

(* mulInt64WithOverflow for a multiplier 1..256 and a non-negative limit:
   ok iff the product fits *)
Lemma mul_with_overflow_spec : forall a b, 1 <= a <= 256 -> 0 <= b <= max_int64 ->
  snd (mul_with_overflow a b) = (a * b <=? max_int64) /\
  (a * b <= max_int64 -> fst (mul_with_overflow a b) = a * b).
Proof.
  intros a b Ha Hb. unfold mul_with_overflow.
  destruct (a =? 0) eqn:Ea0; [apply Z.eqb_eq in Ea0; lia|].
  destruct (b =? 0) eqn:Eb0.
  { apply Z.eqb_eq in Eb0. subst b. cbn [orb fst snd]. rewrite Z.mul_0_r. split; [reflexivity|].
    intros _. unfold mul64. rewrite Z.mul_0_r. reflexivity. }
  destruct (a =? 1) eqn:Ea1.
  { apply Z.eqb_eq in Ea1. subst a. cbn [orb fst snd]. rewrite Z.mul_1_l. split.
    - symmetry. apply Z.leb_le. lia.
    - intros _. unfold mul64. rewrite Z.mul_1_l. apply wrap64_id. unfold min_int64. lia. }
  destruct (b =? 1) eqn:Eb1.
  { apply Z.eqb_eq in Eb1. subst b. cbn [orb fst snd]. rewrite Z.mul_1_r. split.
    - symmetry. apply Z.leb_le. unfold max_int64. lia.
    - intros _. unfold mul64. rewrite Z.mul_1_r. apply wrap64_id. unfold min_int64, max_int64. lia. }
  cbn [orb].
  apply Z.eqb_neq in Ea0, Eb0, Ea1, Eb1.
  destruct (a =? min_int64) eqn:Eam; [apply Z.eqb_eq in Eam; unfold min_int64 in Eam; lia|].
  destruct (b =? min_int64) eqn:Ebm; [apply Z.eqb_eq in Ebm; unfold min_int64 in Ebm; lia|].
  cbn [orb fst snd].
  destruct (a * b <=? max_int64) eqn:E.
  - apply Z.leb_le in E.
    assert (Hx : mul64 a b = a * b) by (unfold mul64; apply wrap64_id; unfold min_int64; nia).
    rewrite Hx. split; [|intros _; reflexivity].
    apply Z.eqb_eq. apply Z.quot_mul. lia.
  - apply Z.leb_gt in E. split; [|intros; lia].
    apply Z.eqb_neq. intros Hq.
    destruct (wrap64_shape (a * b)) as [k Hk]. fold (mul64 a b) in Hk.
    pose proof (wrap64_range (a * b)) as Hr. fold (mul64 a b) in Hr.
    assert (Hk1 : 1 <= k) by (unfold max_int64, min_int64, two64 in *; nia).
    (* c = a*b - k*2^64 < a*b ; c quot b = a needs a*b <= c when c >= 0 *)
    set (c := mul64 a b) in *.
    destruct (Z_lt_le_dec c 0) as [Hneg|Hpos].
    + assert (Z.quot c b <= 0).
      { rewrite <- (Z.opp_involutive c). rewrite Z.quot_opp_l by lia.
        pose proof (Z.quot_pos (- c) b ltac:(lia) ltac:(lia)). lia. }
      lia.
    + pose proof (Z.mul_quot_le c b ltac:(lia) ltac:(lia)) as Hle.
      rewrite Hq in Hle. unfold two64 in *. nia.
Qed.

(* the mathematical reading of checkMemory *)
Definition mem_threshold (lim prio : Z) : Z := (lim * (1 + prio)) / 256.

Lemma shiftr8 : forall z, 0 <= z -> Z.shiftr z 8 = z / 256.
Proof. intros. rewrite Z.shiftr_div_pow2 by lia. reflexivity. Qed.

Theorem check_memory_spec_l : forall lim u rsvp prio,
  0 <= l_mem lim <= max_int64 -> 0 <= mem u <= max_int64 -> 0 <= rsvp <= max_int64 -> 0 <= prio <= 255 ->
  check_memory lim u rsvp prio =
    if l_mem lim =? max_int64 then None
    else if mem u + rsvp <=? mem_threshold (l_mem lim) prio then None else Some ELimit.
Proof.
  intros lim u rsvp prio Hl Hm Hr Hp. unfold check_memory.
  replace (rsvp <? 0) with false by (symmetry; apply Z.ltb_ge; lia).
  destruct (l_mem lim =? max_int64) eqn:Emax; [reflexivity|]. apply Z.eqb_neq in Emax.
  rewrite add_with_overflow_spec by lia.
  pose proof (mul_with_overflow_spec (1 + prio) (l_mem lim) ltac:(lia) ltac:(lia)) as [Hok Hval].
  destruct (mul_with_overflow (1 + prio) (l_mem lim)) as [th mulOk] eqn:Emul. cbn [fst snd] in *.
  assert (Hth : (if mulOk then Z.quot th 256 else Z.shiftr (l_mem lim * (1 + prio)) 8)
                = mem_threshold (l_mem lim) prio).
  { unfold mem_threshold. subst mulOk. destruct ((1 + prio) * l_mem lim <=? max_int64) eqn:E.
    - apply Z.leb_le in E. rewrite (Hval E). rewrite Z.quot_div_nonneg by nia. f_equal. lia.
    - apply shiftr8. nia. }
  rewrite Hth.
  assert (Hbound : mem_threshold (l_mem lim) prio <= l_mem lim).
  { unfold mem_threshold. apply Z.div_le_upper_bound; [lia|]. nia. }
  destruct (mem u + rsvp <=? max_int64) eqn:Efit.
  - apply Z.leb_le in Efit. cbn [negb orb].
    destruct (mem u + rsvp <=? mem_threshold (l_mem lim) prio) eqn:E.
    + apply Z.leb_le in E. rewrite (gtb_false (mem u + rsvp) (mem_threshold (l_mem lim) prio)) by lia. reflexivity.
    + apply Z.leb_gt in E. rewrite (gtb_true (mem u + rsvp) (mem_threshold (l_mem lim) prio)) by lia. reflexivity.
  - apply Z.leb_gt in Efit. cbn [negb orb].
    replace (mem u + rsvp <=? mem_threshold (l_mem lim) prio) with false by (symmetry; apply Z.leb_gt; lia).
    reflexivity.
Qed.

(* C03 — Go int64 arithmetic as used by scope.go (checkMemory).  Definitions
   only; lemmas are in Proofs_Int64.v. *)
From Coq Require Import ZArith Bool.
Local Open Scope Z_scope.

Definition two63 : Z := 9223372036854775808.
Definition two64 : Z := 18446744073709551616.
Definition max_int64 : Z := 9223372036854775807.
Definition min_int64 : Z := -9223372036854775808.

(* two's complement wrap-around of a mathematical integer into int64 *)
Definition wrap64 (z : Z) : Z := (z + two63) mod two64 - two63.

Definition add64 (a b : Z) : Z := wrap64 (a + b).
Definition sub64 (a b : Z) : Z := wrap64 (a - b).
Definition mul64 (a b : Z) : Z := wrap64 (a * b).

(* func addInt64WithOverflow(a, b int64) (c int64, ok bool) { c = a + b; return c, (c > a) == (b > 0) } *)
Definition add_with_overflow (a b : Z) : Z * bool :=
  let c := add64 a b in (c, Bool.eqb (c >? a) (b >? 0)).

(* func mulInt64WithOverflow(a, b int64) (c int64, ok bool); Go's / truncates (Z.quot) *)
Definition mul_with_overflow (a b : Z) : Z * bool :=
  let c := mul64 a b in
  if (a =? 0) || (b =? 0) || (a =? 1) || (b =? 1) then (c, true)
  else if (a =? min_int64) || (b =? min_int64) then (c, false)
  else (c, Z.quot c b =? a).

(* C03 — the abstract side of Done: closing a holder removes, from every scope,
   exactly what was charged to it through that holder (its own reservations
   and those of the spans below it). *)
From Coq Require Import List ZArith Bool Arith Lia.
From Verif Require Import lib.Wire c03.Int64 c03.Model c03.Spec c03.Proofs_Int64 c03.Proofs_Base
     c03.Proofs_Sum c03.Proofs_Reach c03.Proofs_Link c03.Proofs_Targets c03.Proofs_Frames c03.Proofs_Frames2
     c03.Proofs_Frames3.
Import ListNotations.
Local Open Scope Z_scope.

Lemma in_hget_k : forall H x h, NoDup (map fst H) -> In (x, h) H -> hget H x = Some h.
Proof.
  induction H as [|[y h0] r IH]; intros x h Hn Hi; [destruct Hi|]. cbn in *. inversion Hn; subst.
  destruct Hi as [Hi|Hi].
  - inversion Hi; subst. rewrite sid_eqb_refl. reflexivity.
  - sid_cases y x; [|apply IH; assumption]. exfalso. apply H1. apply (in_map fst) in Hi. exact Hi.
Qed.

Lemma sid_eqb_sym_false : forall a b, sid_eqb a b = false -> sid_eqb b a = false.
Proof. intros a b H. apply sid_eqb_neq. apply sid_eqb_neq in H. congruence. Qed.

Lemma scale_split : forall p q w s,
  stat_scale (p + q * w) s = stat_add (stat_scale p s) (stat_scale w (stat_scale q s)).
Proof. intros p q w []. unfold stat_scale, stat_add; cbn. f_equal; ring. Qed.

Lemma sumc_split : forall R R' H t0 x,
  (forall y, In y (map fst H) -> countb x (R y) = countb x (R' y) + countb t0 (R y) * countb x (R t0)) ->
  sumc R H x = stat_add (sumc R' H x) (stat_scale (countb x (R t0)) (sumc R H t0)).
Proof.
  induction H as [|[y h] r IH]; intros t0 x S.
  - rewrite !sumc_nil, stat_scale_stat0. reflexivity.
  - rewrite !sumc_cons. rewrite (S y (or_introl eq_refl)), scale_split, scale_add.
    rewrite (IH t0 x) by (intros z Hz; apply S; right; exact Hz).
    generalize (stat_scale (countb x (R' y)) (h_own h)) (sumc R' r x)
               (stat_scale (countb x (R t0)) (stat_scale (countb t0 (R y)) (h_own h)))
               (stat_scale (countb x (R t0)) (sumc R r t0)).
    intros [] [] [] []. unfold stat_add; cbn. f_equal; lia.
Qed.

Section Kill.
  Variables (a : astate) (t : sid) (h : holder).
  Hypothesis W : WfA a.
  Hypothesis Ht : is_handle t = true.
  Hypothesis G : hget (holders a) t = Some h.
  Hypothesis D : h_dead h = false.
  Let a' := kill a t.

  Lemma kill_holders : holders a' = hset (holders a) t (mkHolder stat0 (h_par h) (h_chain h) true).
  Proof. unfold a', kill. rewrite G. reflexivity. Qed.

  Lemma kill_hget : forall y, hget (holders a') y =
    if sid_eqb t y then Some (mkHolder stat0 (h_par h) (h_chain h) true) else hget (holders a) y.
  Proof. intros y. rewrite kill_holders. apply hget_hset. Qed.

  Lemma kill_dead : forall y, a_dead a' y = if sid_eqb t y then true else a_dead a y.
  Proof. intros y. unfold a_dead. rewrite kill_hget. destruct (sid_eqb t y); reflexivity. Qed.

  Lemma kill_chain : forall y, a_chain a' y = a_chain a y.
  Proof.
    intros y. unfold a_chain. rewrite kill_hget. destruct (sid_eqb t y) eqn:X; [|reflexivity].
    apply sid_eqb_eq in X. rewrite <- X, G. reflexivity.
  Qed.

  Lemma kill_par : forall y, a_par a' y = a_par a y.
  Proof.
    intros y. unfold a_par. destruct y; try reflexivity; rewrite kill_hget;
      match goal with |- context [sid_eqb t ?k] => destruct (sid_eqb t k) eqn:X end; try reflexivity;
      apply sid_eqb_eq in X; rewrite <- X, G; reflexivity.
  Qed.

  Lemma t_live : a_dead a t = false.
  Proof. unfold a_dead. rewrite G. exact D. Qed.

  (* t is not a static scope, so it is no parent *)
  Lemma t_notin_par : forall y, ~ In t (a_par a y).
  Proof. intros y X. apply (a_par_static a y t W) in X. congruence. Qed.

  (* decomposition of every holder's reach at t *)
  Lemma kill_split : forall x y,
    countb x (areach a y) = countb x (areach a' y) + countb t (areach a y) * countb x (areach a t).
  Proof.
    intros x y. pattern y. apply (chain_ind a); [exact W| |]; clear y.
    - intros y E. assert (E' : a_chain a' y = []) by (rewrite kill_chain; exact E).
      rewrite (areach_root a y E), (areach_root a' y E'), kill_dead, kill_par.
      destruct (sid_eqb t y) eqn:X.
      + apply sid_eqb_eq in X. subst y. rewrite t_live. cbn [countb].
        rewrite sid_eqb_refl, (countb_notin t (a_par a t) (t_notin_par t)).
        rewrite (areach_root a t E), t_live. cbn [countb]. lia.
      + destruct (a_dead a y); [cbn; lia|]. cbn [countb]. rewrite (sid_eqb_sym_false t y X).
        rewrite (countb_notin t (a_par a y) (t_notin_par y)). lia.
    - intros y o Hsp E _ IH. assert (E' : a_chain a' y = o :: a_chain a' o) by (rewrite !kill_chain; exact E).
      rewrite (areach_span a y o E), (areach_span a' y o E'), kill_dead.
      destruct (sid_eqb t y) eqn:X.
      + apply sid_eqb_eq in X. subst y. rewrite t_live.
        pose proof (reach_self a t W t_live) as S1. rewrite (areach_span a t o E), t_live in S1.
        rewrite S1. cbn [countb]. rewrite (areach_span a t o E), t_live. cbn [countb]. lia.
      + destruct (a_dead a y); [cbn; lia|]. cbn [countb]. rewrite (sid_eqb_sym_false t y X). lia.
  Qed.

  Lemma kill_reach_t : areach a' t = [].
  Proof. apply areach_dead. rewrite kill_dead, sid_eqb_refl. reflexivity. Qed.

  (* what Done takes away from scope x: everything that reached x through t *)
  Lemma usage_kill : forall x,
    stat_add (usage_A a' x) (stat_scale (countb x (areach a t)) (usage_A a t)) = usage_A a x.
  Proof.
    intros x. rewrite !usage_A_sumc.
    rewrite (sumc_split (areach a) (areach a') (holders a) t x) by (intros y _; apply kill_split).
    f_equal. rewrite kill_holders.
    pose proof (sumc_hset_old (areach a') (holders a) t h (mkHolder stat0 (h_par h) (h_chain h) true) x (W_keys a W) G) as E.
    rewrite kill_reach_t in E. cbn [countb h_own] in E. rewrite !stat_scale_0, !stat_add_0_r in E. exact E.
  Qed.

  Lemma usage_kill_rest_nonneg : forall x, nonneg (sumc (areach a') (holders a) x).
  Proof.
    intros x. apply sumc_nonneg. intros y h' Hi. apply (W_own a W y h'), in_hget_k; [apply (W_keys a W) | exact Hi].
  Qed.

  (* every scope t is charged to holds at least what t holds *)
  Lemma usage_ge_through : forall x, In x (areach a t) -> stat_le (usage_A a t) (usage_A a x).
  Proof.
    intros x Hx. rewrite (usage_A_sumc a x).
    rewrite (sumc_split (areach a) (areach a') (holders a) t x) by (intros y _; apply kill_split).
    rewrite (countb_nodup x (areach a t) (reach_nodup a t W) Hx), stat_scale_1, <- usage_A_sumc.
    pose proof (usage_kill_rest_nonneg x) as N. revert N.
    generalize (sumc (areach a') (holders a) x) (usage_A a t). intros. stat_crush.
  Qed.

  Lemma WfA_kill : WfA a'.
  Proof.
    constructor.
    - rewrite kill_holders. apply hset_keys_nodup, (W_keys a W).
    - intros y h' G' Hh. rewrite kill_hget in G'. destruct (sid_eqb t y) eqn:X; [|apply (W_static a W y h' G' Hh)].
      apply sid_eqb_eq in X. subst y. congruence.
    - intros y h' G' Hl. rewrite kill_hget in G'. destruct (sid_eqb t y) eqn:X; [|apply (W_leaf a W y h' G' Hl)].
      apply sid_eqb_eq in X. subst y. inversion G'; subst h'; cbn. apply (W_leaf a W t h G Hl).
    - intros y h' G' Hs.
      assert (Y : exists h0, hget (holders a) y = Some h0 /\ h_chain h' = h_chain h0).
      { rewrite kill_hget in G'. destruct (sid_eqb t y) eqn:X; [|exists h'; split; [exact G' | reflexivity]].
        apply sid_eqb_eq in X. subst y. inversion G'; subst h'; cbn. exists h. split; [exact G | reflexivity]. }
      destruct Y as (h0 & G0 & Ec). destruct (W_span a W y h0 G0 Hs) as (o & E & Kn & N).
      exists o. rewrite kill_chain, Ec. split; [exact E|]. split; [|exact N].
      intros Ho. rewrite kill_hget. destruct (sid_eqb t o); [discriminate | apply Kn, Ho].
    - intros y h' G'. rewrite kill_hget in G'. destruct (sid_eqb t y) eqn:X; [|apply (W_own a W y h' G')].
      inversion G'; subst h'; cbn. split; [stat_crush | reflexivity].
  Qed.
End Kill.

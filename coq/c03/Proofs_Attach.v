(* C03 — SetProtocol / SetService: reserve the stream's stat in the protocol
   (service) scope and in its per-peer sub-scope, with rollback, then drop the
   transient scope (SetProtocol) and switch the edges. *)
From Coq Require Import List ZArith Bool Arith Lia.
From Verif Require Import lib.Wire c03.Int64 c03.Model c03.Spec c03.Proofs_Int64 c03.Proofs_Base
     c03.Proofs_Sum c03.Proofs_Reach c03.Proofs_Link c03.Proofs_Targets c03.Proofs_Frames c03.Proofs_Frames2
     c03.Proofs_Frames3 c03.Proofs_Kill c03.Proofs_OpsMem c03.Proofs_OpsNew c03.Proofs_Repar c03.Proofs_Repar2
     c03.Proofs_Move.
Import ListNotations.
Local Open Scope Z_scope.

(* the common shape of set_proto and set_svc *)
Definition attach (c : config) (m : smap) (s t1 t2 : sid) (rel : bool) (P' : list sid) : smap * option err :=
  let m1 := get_scope c m t1 in
  let stt := use_of m1 s in
  match charge_one t1 (KStat stt) m1 with
  | inr e => (decref m1 t1, Some e)
  | inl m2 =>
      let m3 := get_subscope c m2 t2 in
      match charge_one t2 (KStat stt) m3 with
      | inr e => (decref (decref (uncharge_one t1 (KStat stt) m3) t1) t2, Some e)
      | inl m4 =>
          let m5 := if rel then decref (uncharge_one Transient (KStat stt) m4) Transient else m4 in
          (upd m5 s (fun sc => set_edges sc P'), None)
      end
  end.

Lemma get_subscope_use : forall c m t y, use_of (get_subscope c m t) y = use_of m y.
Proof.
  intros c m t y. unfold get_subscope. rewrite incref_use. destruct (get m t) as [sc|] eqn:G; [reflexivity|].
  unfold new_scope. cbn [increfs fold_left]. rewrite use_of_set. destruct (sid_eqb t y) eqn:X; [|reflexivity].
  apply sid_eqb_eq in X. subst y. cbn. unfold use_of. rewrite G. reflexivity.
Qed.

Lemma get_subscope_shape : forall c m t y,
  shape_of (get_subscope c m t) y =
  match get m t with
  | Some _ => shape_of m y
  | None => if sid_eqb t y then Some (limit_of c t, false, @nil sid, @nil sid) else shape_of m y
  end.
Proof.
  intros c m t y. unfold get_subscope. rewrite incref_shape. destruct (get m t) as [sc|] eqn:G; [reflexivity|].
  unfold new_scope. cbn [increfs fold_left]. unfold shape_of. rewrite get_set. destruct (sid_eqb t y); reflexivity.
Qed.

Lemma get_subscope_shape_congr : forall c m1 m2 t, (forall y, shape_of m2 y = shape_of m1 y) ->
  forall y, shape_of (get_subscope c m2 t) y = shape_of (get_subscope c m1 t) y.
Proof.
  intros c m1 m2 t S y. rewrite !get_subscope_shape. pose proof (S t) as St. unfold shape_of in St.
  destruct (get m2 t), (get m1 t); cbn in St; try discriminate; [apply S|].
  destruct (sid_eqb t y); [reflexivity | apply S].
Qed.

Lemma get_subscope_present : forall c m t, get (get_subscope c m t) t <> None.
Proof.
  intros c m t. unfold get_subscope. destruct (get m t) as [sc|] eqn:G; unfold incref; rewrite get_upd, sid_eqb_refl.
  - rewrite G. discriminate.
  - unfold new_scope. rewrite get_set_same. discriminate.
Qed.

Lemma extends_get_subscope : forall c m t, is_handle t = false -> static_par t = [] ->
  extends c m (get_subscope c m t).
Proof.
  intros c m t Hh Sp y. split; [apply get_subscope_use|]. rewrite get_subscope_shape.
  destruct (get m t) as [sc|] eqn:G; [left; reflexivity|].
  destruct (sid_eqb t y) eqn:X; [|left; reflexivity]. apply sid_eqb_eq in X. subst y.
  right. split; [exact G|]. split; [exact Hh|].
  pose proof (get_subscope_shape c m t t) as S. rewrite G, sid_eqb_refl in S. unfold shape_of in S.
  destruct (get (get_subscope c m t) t) as [sc'|]; cbn in S; [|discriminate]. exists sc'. split; [reflexivity|].
  unfold shape in S. injection S as E1 E2 E3 E4. rewrite Sp. repeat split; assumption.
Qed.

Lemma upd_edges_use : forall m s P x, use_of (upd m s (fun sc => set_edges sc P)) x = use_of m x.
Proof. intros. apply upd_ref_use. reflexivity. Qed.

Lemma upd_edges_good : forall m s P, all_good m -> all_good (upd m s (fun sc => set_edges sc P)).
Proof. intros m s P H. apply upd_good; [|exact H]. intros sc G. exact G. Qed.

Lemma upd_edges_shape_other : forall m s P y, y <> s -> shape_of (upd m s (fun sc => set_edges sc P)) y = shape_of m y.
Proof.
  intros m s P y Hne. unfold shape_of. rewrite get_upd. destruct (sid_eqb s y) eqn:X; [apply sid_eqb_eq in X; congruence | reflexivity].
Qed.

Lemma kind_ok_use : forall m x, all_good m -> kind_ok (KStat (use_of m x)).
Proof. intros m x Gd. split; [apply use_nonneg, Gd | apply use_mem_le, Gd]. Qed.

Lemma get_subscope_good : forall c m t, cfg_ok c -> all_good m -> all_good (get_subscope c m t).
Proof.
  intros c m t LO Gd. unfold get_subscope. apply incref_good. destruct (get m t) as [sc|] eqn:G; [exact Gd|].
  unfold new_scope. cbn [increfs fold_left]. intros y scy Gy. rewrite get_set in Gy.
  destruct (sid_eqb t y); [|apply (Gd y scy Gy)]. inversion Gy; subst scy. split; [apply LO|]. cbn.
  pose proof (LO t) as (H1 & H2 & H3 & H4 & H5 & H6 & H7 & H8). split; [stat_crush | unfold fits; cbn; repeat split; lia].
Qed.

Lemma countb_pos_in : forall x l, 0 < countb x l -> In x l.
Proof.
  intros x l H. destruct (in_dec sid_dec x l) as [Hi|Hi]; [exact Hi|]. rewrite (countb_notin x l Hi) in H. lia.
Qed.

Lemma count_other : forall t x, t <> x -> countb x [t] = 0.
Proof. intros t x H. rewrite count_single. apply sid_eqb_neq in H. rewrite H. reflexivity. Qed.

Lemma attach_fail1 : forall c m a t1, cfg_ok c -> Inv c m a -> is_created_view t1 = true ->
  Inv c (decref (get_scope c m t1) t1) a.
Proof.
  intros c m a t1 LO I V. apply (Inv_extends c m _ a LO I).
  apply (extends_trans c m (get_scope c m t1)); [apply extends_get_scope; [exact V | apply (I_base c m a I)] | apply extends_decref].
Qed.

Section Attach.
  Variables (c : config) (m : smap) (a : astate) (s : sid) (h : holder) (t1 t2 : sid).
  Hypothesis LO : cfg_ok c.
  Hypothesis I : Inv c m a.
  Hypothesis Hl : leaf s = true.
  Hypothesis G : hget (holders a) s = Some h.
  Hypothesis V1 : is_created_view t1 = true.
  Hypothesis H2 : is_handle t2 = false.
  Hypothesis Sp2 : static_par t2 = [].
  Hypothesis N12 : t1 <> t2.
  Hypothesis Ov : novf m (mem (use_of m s)).

  Let m1 := get_scope c m t1.
  Let stt := use_of m1 s.
  Let k := KStat stt.
  Let mB := get_subscope c m1 t2.

  Lemma at_E1 : extends c m m1.
  Proof. apply extends_get_scope; [exact V1 | apply (I_base c m a I)]. Qed.
  Lemma at_use1 : forall x, use_of m1 x = use_of m x.
  Proof. intros x. apply (at_E1 x). Qed.
  Lemma at_stt : stt = use_of m s.
  Proof. apply at_use1. Qed.
  Lemma at_I1 : Inv c m1 a.
  Proof. apply (Inv_extends c m m1 a LO I at_E1). Qed.
  Lemma at_IB : Inv c mB a.
  Proof. apply (Inv_extends c m1 mB a LO at_I1). apply extends_get_subscope; assumption. Qed.
  Lemma at_useB : forall x, use_of mB x = use_of m x.
  Proof. intros x. unfold mB. rewrite get_subscope_use. apply at_use1. Qed.
  Lemma at_k : kind_ok k.
  Proof. apply kind_ok_use, (I_good c m1 a at_I1). Qed.
  Lemma at_ov1 : forall x, mem (use_of m1 x) + mem (kdelta k) <= max_int64.
  Proof. intros x. rewrite at_use1. cbn [k kdelta]. rewrite at_stt. apply Ov. Qed.

  (* both reservations succeeded *)
  Lemma at_after2 : forall m2 m4, charge_one t1 k m1 = inl m2 -> charge_one t2 k (get_subscope c m2 t2) = inl m4 ->
    all_good m4 /\ (forall y, shape_of m4 y = shape_of mB y) /\
    (forall x, use_of m4 x = stat_add (use_of m x) (stat_scale (countb x [t1; t2]) stt)).
  Proof.
    intros m2 m4 C1 C2.
    destruct (charge_one_count t1 k m1 m2 at_k (I_good c m1 a at_I1) (at_ov1 t1) C1) as (D1 & S2 & G2 & U2).
    set (m3 := get_subscope c m2 t2) in *.
    assert (G3 : all_good m3) by (apply get_subscope_good; assumption).
    assert (U3 : forall x, use_of m3 x = use_of m2 x) by (intros x; apply get_subscope_use).
    assert (Ov2 : mem (use_of m3 t2) + mem (kdelta k) <= max_int64).
    { rewrite U3, U2, (count_other t1 t2 N12), stat_scale_0, stat_add_0_r. apply at_ov1. }
    destruct (charge_one_count t2 k m3 m4 at_k G3 Ov2 C2) as (D2 & S4 & G4 & U4).
    split; [exact G4|]. split.
    - intros y. rewrite S4. apply get_subscope_shape_congr, S2.
    - intros x. rewrite U4, U3, U2, at_use1. cbn [countb kdelta k].
      generalize (use_of m x) stt (if sid_eqb t1 x then 1 else 0) (if sid_eqb t2 x then 1 else 0).
      intros [] [] n1 n2. unfold stat_add, stat_scale; cbn [Model.mem Model.sin Model.sout Model.cin Model.cout Model.fd]. f_equal; lia.
  Qed.

  (* the second reservation was refused: the first is released again *)
  Lemma at_fail2 : forall m2 e, charge_one t1 k m1 = inl m2 -> charge_one t2 k (get_subscope c m2 t2) = inr e ->
    Inv c (decref (decref (uncharge_one t1 k (get_subscope c m2 t2)) t1) t2) a.
  Proof.
    intros m2 e C1 C2.
    destruct (charge_one_count t1 k m1 m2 at_k (I_good c m1 a at_I1) (at_ov1 t1) C1) as (D1 & S2 & G2 & U2).
    set (m3 := get_subscope c m2 t2) in *.
    assert (G3 : all_good m3) by (apply get_subscope_good; assumption).
    assert (U3 : forall x, use_of m3 x = use_of m2 x) by (intros x; apply get_subscope_use).
    assert (S3 : forall y, shape_of m3 y = shape_of mB y) by (apply get_subscope_shape_congr, S2).
    assert (D3 : is_done m3 t1 = false).
    { rewrite (is_done_shape m3 mB t1 (S3 t1)). unfold mB.
      rewrite (is_done_shape _ m1 t1); [exact D1|]. rewrite get_subscope_shape.
      destruct (get m1 t2); [reflexivity|]. destruct (sid_eqb t2 t1) eqn:X; [apply sid_eqb_eq in X; congruence | reflexivity]. }
    assert (Le : stat_le (kdelta k) (use_of m3 t1)).
    { rewrite U3, U2, count_single, sid_eqb_refl, stat_scale_1. cbn [kdelta k].
      pose proof (use_nonneg m1 t1 (I_good c m1 a at_I1)) as N.
      pose proof (use_nonneg m1 s (I_good c m1 a at_I1)) as Ns. fold stt in Ns. revert N Ns.
      generalize (use_of m1 t1) stt. intros [] [] N Ns. unfold nonneg, stat_le, stat_add in *.
      cbn [Model.mem Model.sin Model.sout Model.cin Model.cout Model.fd] in *. repeat split; lia. }
    destruct (uncharge_one_count t1 k m3 at_k G3 D3 Le) as (S5 & G5 & U5).
    apply (Inv_extends c mB _ a LO at_IB). apply extends_same; intros x.
    - rewrite !decref_shape, S5. apply S3.
    - rewrite !decref_use. pose proof (U5 x) as E. rewrite U3, U2 in E. unfold mB. rewrite get_subscope_use.
      revert E. generalize (use_of (uncharge_one t1 k m3) x) (use_of m1 x) (stat_scale (countb x [t1]) (kdelta k)).
      intros [] [] [] E. unfold stat_add in E. injection E; intros. f_equal; lia.
  Qed.
End Attach.

Lemma countb_in_pos : forall x l, In x l -> 0 < countb x l.
Proof.
  induction l as [|y r IH]; intros H; [destruct H|]. cbn. pose proof (countb_nonneg x r).
  destruct H as [->|H]; [rewrite sid_eqb_refl; lia|]. specialize (IH H). destruct (sid_eqb y x); lia.
Qed.

Theorem attach_inv : forall c m a a2 s h t1 t2 rel P',
  cfg_ok c -> Inv c m a -> leaf s = true -> hget (holders a) s = Some h ->
  is_created_view t1 = true -> is_handle t2 = false -> static_par t2 = [] -> t1 <> t2 ->
  t1 <> Transient -> t2 <> Transient ->
  (rel = true -> In Transient (h_par h)) ->
  NoDup P' -> (forall p, In p P' -> is_handle p = false) ->
  (forall x, countb x P' + countb x (if rel then [Transient] else []) = countb x (h_par h) + countb x [t1; t2]) ->
  novf m (mem (use_of m s)) ->
  holders a2 = hset (holders a) s (mkHolder (h_own h) P' (h_chain h) (h_dead h)) ->
  let '(m', e) := attach c m s t1 t2 rel P' in
  match e with None => Inv c m' a2 | Some _ => Inv c m' a end.
Proof.
  intros c m a a2 s h t1 t2 rel P' LO I Hl G V1 H2 Sp2 N12 N1T N2T HT Nd St Ms Ov Ha2. unfold attach.
  set (m1 := get_scope c m t1). set (stt := use_of m1 s).
  destruct (charge_one t1 (KStat stt) m1) as [m2|e1] eqn:C1; [|apply (attach_fail1 c m a t1 LO I V1)].
  destruct (charge_one t2 (KStat stt) (get_subscope c m2 t2)) as [m4|e2] eqn:C2;
    [|apply (at_fail2 c m a s t1 t2 LO I V1 H2 Sp2 N12 Ov m2 e2 C1 C2)].
  destruct (at_after2 c m a s t1 t2 LO I V1 N12 Ov m2 m4 C1 C2) as (G4 & S4 & U4). fold m1 stt in S4, U4.
  pose proof (at_IB c m a t1 t2 LO I V1 H2 Sp2) as IB. set (mB := get_subscope c m1 t2) in *.
  pose proof (at_useB c m a t1 t2 I V1) as UB. fold m1 mB in UB.
  pose proof (at_stt c m a s t1 I V1) as Es. fold m1 stt in Es.
  pose proof (I_wf c m a I) as W.
  assert (Hs : is_handle s = true) by (destruct s; try discriminate; reflexivity).
  destruct (I_handle c mB a IB s h G Hs) as (scB & GB & Pd & Pc & Pe & Pl).
  set (Rem := if rel then [Transient] else @nil sid).
  set (m5 := if rel then decref (uncharge_one Transient (KStat stt) m4) Transient else m4).
  assert (H5 : all_good m5 /\ (forall y, shape_of m5 y = shape_of mB y) /\
               (forall x, stat_add (use_of m5 x) (stat_scale (countb x Rem) stt) = use_of m4 x)).
  { unfold m5, Rem. destruct rel.
    - assert (DT : is_done m4 Transient = false).
      { rewrite (is_done_shape m4 mB Transient (S4 Transient)). unfold is_done.
        destruct (I_base c mB a IB) as (_ & BT & _). destruct (get mB Transient) as [scT|] eqn:GT; [|contradiction].
        apply (I_static c mB a IB Transient scT GT eq_refl). }
      assert (Le : stat_le (kdelta (KStat stt)) (use_of m4 Transient)).
      { rewrite U4. cbn [countb kdelta].
        assert (X1 : sid_eqb t1 Transient = false) by (apply sid_eqb_neq; exact N1T).
        assert (X2 : sid_eqb t2 Transient = false) by (apply sid_eqb_neq; exact N2T).
        rewrite X1, X2. cbn [Z.add]. rewrite stat_scale_0, stat_add_0_r, Es.
        destruct (a_dead a s) eqn:D.
        - rewrite (dead_use_zero c m a s I Hs D). pose proof (use_nonneg m Transient (I_good c m a I)) as N.
          revert N. generalize (use_of m Transient). intros [] N. unfold nonneg, stat_le, stat0 in *.
          cbn [Model.mem Model.sin Model.sout Model.cin Model.cout Model.fd] in *. repeat split; lia.
        - rewrite !(I_num c m a I).
          assert (Dh : h_dead h = false) by (unfold a_dead in D; rewrite G in D; exact D).
          apply (usage_ge_through a s h W Hs G Dh).
          rewrite (areach_root a s (rp_chain_s a s h W Hl G)), D, (a_par_leaf a s h Hl G). right. apply HT. reflexivity. }
      destruct (uncharge_one_count Transient (KStat stt) m4 (kind_ok_use m1 s (I_good c m1 a (at_I1 c m a t1 LO I V1))) G4 DT Le)
        as (S5 & G5 & U5).
      split; [apply decref_good, G5|]. split.
      + intros y. rewrite decref_shape, S5. apply S4.
      + intros x. rewrite decref_use. apply U5.
    - split; [exact G4|]. split; [exact S4|]. intros x. cbn [countb]. rewrite stat_scale_0, stat_add_0_r. reflexivity. }
  destruct H5 as (G5 & S5 & U5).
  destruct (shape_get mB m5 s scB (S5 s) GB) as (sc5 & G5s & Q1 & Q2 & Q3 & Q4).
  assert (Gm6 : get (upd m5 s (fun sc => set_edges sc P')) s = Some (set_edges sc5 P')) by (rewrite get_upd, sid_eqb_refl, G5s; reflexivity).
  apply (Inv_move c mB _ a a2 s h P' [t1; t2] Rem scB (set_edges sc5 P') IB Hl G Ha2 Nd St); try assumption; try reflexivity.
  - (* the new parents exist *)
    intros D p Hp. assert (Hps : p <> s) by (intros ->; apply St in Hp; congruence).
    apply (shape_present mB _ p); [rewrite upd_edges_shape_other by exact Hps; apply S5|].
    pose proof (Ms p) as Mp. pose proof (countb_in_pos p P' Hp). pose proof (countb_nonneg p Rem).
    fold Rem in Mp.
    assert (X : 0 < countb p (h_par h) \/ 0 < countb p [t1; t2]) by lia.
    destruct X as [X|X].
    + apply countb_pos_in in X. destruct (I_present c mB a IB s h G D) as [P1 _]. apply P1.
      rewrite (a_par_leaf a s h Hl G). exact X.
    + apply countb_pos_in in X. destruct X as [<-|[<-|[]]].
      * apply (extends_present c m1 mB t1 (extends_get_subscope c m1 t2 H2 Sp2)), get_scope_present.
      * apply get_subscope_present.
  - intros y Hne. rewrite upd_edges_shape_other by exact Hne. apply S5.
  - apply upd_edges_good, G5.
  - intros x. rewrite upd_edges_use, !UB, <- Es. pose proof (U5 x) as E5. rewrite U4 in E5. revert E5.
    generalize (use_of m5 x) (use_of m x) (stat_scale (countb x Rem) stt) (stat_scale (countb x [t1; t2]) stt).
    intros s0 s1 s2 s3 E5. exact E5.
Qed.

(* C03 — refinement of the model to the abstract holders specification for the
   core of the scope DAG: OpenConnection (endpoint not allow-listed),
   OpenStream, ReserveMemory / ReleaseMemory on connections, streams and View
   scopes, Done (repeated).  Invariant by induction over arbitrary histories. *)
From Coq Require Import List ZArith Bool Arith Lia.
From Verif Require Import lib.Wire c03.Int64 c03.Model c03.Spec c03.Proofs_Int64 c03.Proofs_Base c03.Proofs_Sum.
Import ListNotations.
Local Open Scope Z_scope.

Definition is_handle (t : sid) : bool :=
  match t with Conn _ | Stream _ | Span _ => true | _ => false end.

(* ---- the simulation invariant --------------------------------------------------------- *)
Record Inv (c : config) (m : smap) (a : astate) : Prop := {
  I_good : all_good m;
  I_lim : forall t sc, get m t = Some sc -> s_lim sc = limit_of c t;
  I_static : forall t sc, get m t = Some sc -> is_handle t = false ->
             s_done sc = false /\ s_chain sc = [] /\ s_edges sc = static_par t;
  I_base : get m System <> None /\ get m Transient <> None;
  I_nospan : forall k, get m (Span k) = None /\ hget (holders a) (Span k) = None;
  I_handle : forall t h, hget (holders a) t = Some h -> is_handle t = true ->
             exists sc, get m t = Some sc /\ s_done sc = h_dead h /\ s_chain sc = [] /\
                        s_edges sc = h_par h /\ h_chain h = [] /\ NoDup (h_par h) /\
                        (forall p, In p (h_par h) -> is_handle p = false /\ get m p <> None);
  I_view : forall t h, hget (holders a) t = Some h -> is_handle t = false ->
           h_dead h = false /\ h_chain h = [];
  I_garbage : forall t sc, get m t = Some sc -> is_handle t = true -> hget (holders a) t = None ->
              s_done sc = true /\ s_use sc = stat0;
  I_own : forall t h, hget (holders a) t = Some h ->
          nonneg (h_own h) /\ (h_dead h = true -> h_own h = stat0);
  I_num : forall t, use_of m t = usage_A a t;
  I_keys : NoDup (map fst (holders a))
}.

(* ---- what a holder is charged to, without spans ------------------------------------------ *)
Lemma static_par_nodup : forall t, NoDup (t :: static_par t).
Proof.
  intros t. destruct t; cbn; repeat constructor; cbn; intuition discriminate.
Qed.

Lemma static_par_static : forall t p, In p (static_par t) -> is_handle p = false.
Proof. intros t p H. destruct t; cbn in H; intuition (subst; reflexivity). Qed.

Lemma areach_handle : forall c m a t h, Inv c m a -> hget (holders a) t = Some h -> is_handle t = true ->
  areach a t = if h_dead h then [] else t :: h_par h.
Proof.
  intros c m a t h I G Hh. destruct (I_handle c m a I t h G Hh) as (sc & _ & _ & _ & _ & Hc & _).
  unfold areach, a_dead, a_chain, a_par. rewrite G, Hc.
  destruct (h_dead h); [reflexivity|].
  destruct t; try discriminate; try reflexivity.
  destruct (I_nospan c m a I k) as [_ N]. congruence.
Qed.

Lemma areach_static : forall c m a t, Inv c m a -> is_handle t = false -> areach a t = t :: static_par t.
Proof.
  intros c m a t I Hh. unfold areach, a_dead, a_chain, a_par.
  destruct (hget (holders a) t) as [h|] eqn:G.
  - destruct (I_view c m a I t h G Hh) as [-> ->]. destruct t; try discriminate; reflexivity.
  - destruct t; try discriminate; reflexivity.
Qed.

Lemma areach_nodup : forall c m a t, Inv c m a -> NoDup (areach a t).
Proof.
  intros c m a t I. destruct (is_handle t) eqn:Hh.
  - destruct (hget (holders a) t) as [h|] eqn:G.
    + rewrite (areach_handle c m a t h I G Hh). destruct (h_dead h); [constructor|].
      destruct (I_handle c m a I t h G Hh) as (sc & _ & _ & _ & _ & _ & Hn & Hp).
      constructor; [|exact Hn]. intros X. apply Hp in X. destruct X as [X _]. congruence.
    + unfold areach, a_dead, a_chain, a_par. rewrite G.
      destruct t; try discriminate; repeat constructor; cbn; tauto.
  - rewrite (areach_static c m a t I Hh). apply static_par_nodup.
Qed.

(* the reach function depends on the holder of the scope itself only *)
Lemma areach_local : forall a a' x, hget (holders a') x = hget (holders a) x ->
  a_chain a x = [] -> areach a' x = areach a x.
Proof.
  intros a a' x E Hc. unfold areach, a_dead, a_chain, a_par in *. rewrite E.
  destruct (hget (holders a) x) as [h|]; [|reflexivity].
  rewrite Hc. reflexivity.
Qed.

Lemma a_chain_nil : forall c m a x, Inv c m a -> a_chain a x = [].
Proof.
  intros c m a x I. unfold a_chain. destruct (hget (holders a) x) as [h|] eqn:G; [|reflexivity].
  destruct (is_handle x) eqn:Hh.
  - destruct (I_handle c m a I x h G Hh) as (sc & _ & _ & _ & _ & Hc & _). exact Hc.
  - apply (I_view c m a I x h G Hh).
Qed.

(* ---- configuration ----------------------------------------------------------------------------- *)
Lemma limit_wf_ok : forall l, limit_wf l = true -> lim_ok l.
Proof.
  intros l H. unfold limit_wf in H. repeat (apply andb_true_iff in H; destruct H as [H ?]).
  repeat match goal with X : (_ <=? _) = true |- _ => apply Z.leb_le in X end.
  unfold lim_ok. repeat split; lia.
Qed.

Lemma find_over_in : forall l k i lim, find_over l k i = Some lim -> In (k, i, lim) l \/ exists k' i', In (k', i', lim) l.
Proof.
  induction l as [|[[k0 i0] l0] r IH]; intros k i lim H; cbn in H; [discriminate|].
  destruct ((k0 =? k) && Nat.eqb i0 i).
  - inversion H; subst. right. exists k0, i0. left. reflexivity.
  - destruct (IH k i lim H) as [X|(k' & i' & X)]; [left; right; exact X | right; exists k', i'; right; exact X].
Qed.

Lemma limit_of_ok : forall c t, config_wf c = true -> lim_ok (limit_of c t).
Proof.
  intros c t H. unfold config_wf in H. apply andb_true_iff in H. destruct H as [H1 H2].
  cbn [forallb] in H1. repeat (apply andb_true_iff in H1; destruct H1 as [? H1]).
  rewrite forallb_forall in H2.
  assert (Hov : forall kind id dflt, limit_wf dflt = true ->
            lim_ok (match find_over (lim_over c) kind id with Some l => l | None => dflt end)).
  { intros kind id dflt Hd. destruct (find_over (lim_over c) kind id) as [l|] eqn:F; [|apply limit_wf_ok, Hd].
    apply find_over_in in F. apply limit_wf_ok.
    destruct F as [F|(k' & i' & F)]; apply H2 in F; exact F. }
  destruct t; cbn [limit_of]; try (apply limit_wf_ok; assumption); apply Hov; assumption.
Qed.

Lemma good_fresh : forall l d r ch ed, lim_ok l -> good (mkScope l stat0 d r ch ed).
Proof.
  intros l d r ch ed H. split; [exact H|]. cbn. destruct H as (H1 & H2 & H3 & H4 & H5 & H6 & H7 & H8).
  split; [stat_crush|]. unfold fits; cbn. repeat split; lia.
Qed.

(* ---- initial state ---------------------------------------------------------------------------------- *)
Lemma init_inv : forall c, config_wf c = true -> Inv c (init_scopes c) astate0.
Proof.
  intros c W.
  assert (G : forall t, get (init_scopes c) t =
     match t with
     | System => Some (mkScope (lim_system c) stat0 false 2 [] [])
     | Transient => Some (mkScope (lim_transient c) stat0 false 1 [] [System])
     | ASystem => Some (mkScope (lim_asystem c) stat0 false 2 [] [])
     | ATransient => Some (mkScope (lim_atransient c) stat0 false 1 [] [ASystem])
     | _ => None end).
  { intros t. destruct t; reflexivity. }
  constructor.
  - intros t sc H. rewrite G in H. destruct t; try discriminate; inversion H; subst; apply good_fresh;
      [apply (limit_of_ok c System W) | apply (limit_of_ok c Transient W) | apply (limit_of_ok c ASystem W) | apply (limit_of_ok c ATransient W)].
  - intros t sc H. rewrite G in H. destruct t; try discriminate; inversion H; subst; reflexivity.
  - intros t sc H Hh. rewrite G in H. destruct t; try discriminate; inversion H; subst; cbn; repeat split; reflexivity.
  - rewrite !G. split; discriminate.
  - intros k. rewrite G. split; reflexivity.
  - intros t h H. discriminate.
  - intros t h H. discriminate.
  - intros t sc H Hh. rewrite G in H. destruct t; discriminate.
  - intros t h H. discriminate.
  - intros t. unfold use_of. rewrite G. destruct t; reflexivity.
  - constructor.
Qed.

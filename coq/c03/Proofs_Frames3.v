(* C03 — frame lemmas, part 3: a new holder with nothing charged yet (the
   scope of a new connection / stream before AddConn / AddStream, a new span). *)
From Coq Require Import List ZArith Bool Arith Lia.
From Verif Require Import lib.Wire c03.Int64 c03.Model c03.Spec c03.Proofs_Int64 c03.Proofs_Base
     c03.Proofs_Sum c03.Proofs_Reach c03.Proofs_Link c03.Proofs_Targets c03.Proofs_Frames c03.Proofs_Frames2.
Import ListNotations.
Local Open Scope Z_scope.

(* the invariant looks at the abstract state through its holder table only *)
Lemma dead_holders : forall a a' y, holders a = holders a' -> a_dead a' y = a_dead a y.
Proof. intros a a' y E. unfold a_dead. rewrite E. reflexivity. Qed.
Lemma chain_holders_eq : forall a a' y, holders a = holders a' -> a_chain a' y = a_chain a y.
Proof. intros a a' y E. unfold a_chain. rewrite E. reflexivity. Qed.
Lemma par_holders : forall a a' y, holders a = holders a' -> a_par a' y = a_par a y.
Proof. intros a a' y E. unfold a_par. rewrite E. reflexivity. Qed.
Lemma reach_holders : forall a a' y, holders a = holders a' -> areach a' y = areach a y.
Proof.
  intros a a' y E. apply areach_skel; intros; [apply dead_holders | apply par_holders | apply chain_holders_eq]; exact E.
Qed.
Lemma limit_holders : forall c a a' y, holders a = holders a' -> a_limit c a' y = a_limit c a y.
Proof. intros c a a' y E. unfold a_limit. rewrite (chain_holders_eq a a' y E). reflexivity. Qed.
Lemma usage_holders : forall a a' x, holders a = holders a' -> usage_A a' x = usage_A a x.
Proof.
  intros a a' x E. rewrite !usage_A_sumc, <- E. apply sumc_ext. intros y _. apply reach_holders, E.
Qed.

Lemma WfA_holders : forall a a', holders a = holders a' -> WfA a -> WfA a'.
Proof.
  intros a a' E W. constructor.
  - rewrite <- E. exact (W_keys _ W).
  - rewrite <- E. exact (W_static _ W).
  - rewrite <- E. exact (W_leaf _ W).
  - rewrite <- E. intros t h G Hs. destruct (W_span _ W t h G Hs) as (o & P1 & P2 & P3).
    exists o. rewrite (chain_holders_eq a a' o E). repeat split; assumption.
  - rewrite <- E. exact (W_own _ W).
Qed.

Lemma Inv_holders : forall c m a a', holders a = holders a' -> Inv c m a -> Inv c m a'.
Proof.
  intros c m a a' E I. constructor.
  - apply (WfA_holders a a' E), (I_wf _ _ _ I).
  - exact (I_good _ _ _ I). - exact (I_static _ _ _ I). - exact (I_base _ _ _ I).
  - rewrite <- E. intros t h G Hh. destruct (I_handle _ _ _ I t h G Hh) as (sc & P).
    exists sc. rewrite (limit_holders c a a' t E). exact P.
  - rewrite <- E. intros t h G D. rewrite (par_holders a a' t E). exact (I_present _ _ _ I t h G D).
  - rewrite <- E. exact (I_garbage _ _ _ I).
  - intros t. rewrite (usage_holders a a' t E). exact (I_num _ _ _ I t).
Qed.

Lemma awalk_skel_in : forall a a' l,
  (forall z, In z l -> a_dead a' z = a_dead a z /\ a_par a' z = a_par a z) -> awalk a' l = awalk a l.
Proof.
  intros a a' l. induction l as [|o r IH]; intros H; [reflexivity|]. cbn [awalk].
  destruct (H o (or_introl eq_refl)) as [Hd Hp]. rewrite Hd, Hp.
  rewrite IH by (intros z Hz; apply H; right; exact Hz). reflexivity.
Qed.

Lemma areach_skel_in : forall a a' y,
  a_dead a' y = a_dead a y -> a_par a' y = a_par a y -> a_chain a' y = a_chain a y ->
  (forall z, In z (a_chain a y) -> a_dead a' z = a_dead a z /\ a_par a' z = a_par a z) ->
  areach a' y = areach a y.
Proof.
  intros a a' y Hd Hp Hc Hz. unfold areach. rewrite Hd, Hp, Hc. destruct (a_dead a y); [reflexivity|].
  destruct (a_chain a y) as [|o r] eqn:E; [reflexivity|]. rewrite (awalk_skel_in a a' (o :: r) Hz). reflexivity.
Qed.

Lemma leaf_span_excl : forall t, leaf t = true -> is_span t = true -> False.
Proof. intros t; destruct t; discriminate. Qed.
Lemma a_par_leaf : forall a y h, leaf y = true -> hget (holders a) y = Some h -> a_par a y = h_par h.
Proof. intros a y h Hl G. unfold a_par. destruct y; try discriminate; rewrite G; reflexivity. Qed.
Lemma a_par_span : forall a y, is_span y = true -> a_par a y = [].
Proof. intros a y H. destruct y; try discriminate. reflexivity. Qed.
Lemma handle_not_static : forall t, is_handle t = true -> is_handle t = false -> False.
Proof. intros t H1 H2. congruence. Qed.

Definition new_ok (m : smap) (a : astate) (s : sid) (p ch : list sid) : Prop :=
  (leaf s = true /\ ch = [] /\ NoDup p /\ (forall q, In q p -> is_handle q = false /\ get m q <> None)) \/
  (is_span s = true /\ p = [] /\ exists t, ch = t :: a_chain a t /\ known m a t /\ a_dead a t = false).

Ltac scase s y :=
  let X := fresh "X" in
  destruct (sid_eqb s y) eqn:X; [apply sid_eqb_eq in X; subst y | apply sid_eqb_neq in X].

Section NewHolder.
  Variables (c : config) (m : smap) (a a' : astate) (s : sid) (p ch : list sid) (lim : limit) (r : Z).
  Hypothesis I : Inv c m a.
  Hypothesis Hs : is_handle s = true.
  Hypothesis Hfresh : hget (holders a) s = None.
  Hypothesis Hok : new_ok m a s p ch.
  Hypothesis Hlim : lim_ok lim.
  Hypothesis Ha' : holders a' = hset (holders a) s (mkHolder stat0 p ch false).
  Let m' := set m s (mkScope lim stat0 false r ch (if leaf s then p else [])).
  Hypothesis Hal : lim = a_limit c a' s.

  Let W := I_wf c m a I.

  Lemma nh_hget : forall y, hget (holders a') y = if sid_eqb s y then Some (mkHolder stat0 p ch false) else hget (holders a) y.
  Proof. intros y. rewrite Ha'. apply hget_hset. Qed.

  Lemma nh_dead : forall y, a_dead a' y = a_dead a y.
  Proof. intros y. unfold a_dead. rewrite nh_hget. sid_cases s y; [rewrite Hfresh|]; reflexivity. Qed.

  Lemma nh_chain : forall y, y <> s -> a_chain a' y = a_chain a y.
  Proof. intros y Hne. unfold a_chain. rewrite nh_hget. sid_cases s y; [congruence | reflexivity]. Qed.

  Lemma nh_par : forall y, y <> s -> a_par a' y = a_par a y.
  Proof.
    intros y Hne. unfold a_par. destruct y; try reflexivity; rewrite nh_hget;
      match goal with |- context [sid_eqb s ?k] => sid_cases s k end; congruence || reflexivity.
  Qed.

  Lemma nh_chain_s : a_chain a' s = ch.
  Proof. unfold a_chain. rewrite nh_hget, sid_eqb_refl. reflexivity. Qed.

  (* s occurs in no existing chain *)
  Lemma nh_notin_chain : forall y, ~ In s (a_chain a y).
  Proof. intros y X. apply (chain_holders a y s W X Hs). exact Hfresh. Qed.

  Lemma nh_reach : forall y, y <> s -> areach a' y = areach a y.
  Proof.
    intros y Hne. apply areach_skel_in; [apply nh_dead | apply nh_par, Hne | apply nh_chain, Hne|].
    intros z Hz. split; [apply nh_dead | apply nh_par]. intros ->. apply (nh_notin_chain y Hz).
  Qed.

  Lemma nh_limit : forall y, y <> s -> a_limit c a' y = a_limit c a y.
  Proof. intros y Hne. unfold a_limit. destruct y; try reflexivity. rewrite nh_chain by exact Hne. reflexivity. Qed.

  Lemma nh_get : forall y, y <> s -> get m' y = get m y.
  Proof. intros y Hne. unfold m'. apply get_set_other. congruence. Qed.

  Lemma nh_use : forall y, use_of m' y = use_of m y.
  Proof.
    intros y. unfold m'. rewrite use_of_set. sid_cases s y; [|reflexivity]. cbn.
    unfold use_of. destruct (get m y) as [sc|] eqn:G; [|reflexivity].
    symmetry. apply (I_garbage c m a I y sc G Hs Hfresh).
  Qed.

  Lemma nh_usage : forall x, usage_A a' x = usage_A a x.
  Proof.
    intros x. rewrite !usage_A_sumc, Ha', (sumc_hset_new _ _ s _ x Hfresh). cbn [h_own].
    rewrite stat_scale_stat0, stat_add_0_r. apply sumc_ext.
    intros y Hy. apply nh_reach. intros ->. apply (hget_none_keys _ _ Hfresh Hy).
  Qed.

  Lemma nh_t_ne : forall t, known m a t -> t <> s.
  Proof. intros t K ->. unfold known in K. rewrite Hs in K. contradiction. Qed.

  Lemma nh_par_s : leaf s = true -> a_par a' s = p.
  Proof. intros Hl. rewrite (a_par_leaf a' s (mkHolder stat0 p ch false) Hl); [reflexivity|]. rewrite nh_hget, sid_eqb_refl. reflexivity. Qed.

  Lemma nh_wf : WfA a'.
  Proof.
    constructor.
    - rewrite Ha'. apply hset_keys_nodup, (W_keys a W).
    - intros y h G Hh. rewrite nh_hget in G. scase s y; [congruence | apply (W_static a W y h G Hh)].
    - intros y h G Hl. rewrite nh_hget in G. scase s y; [|apply (W_leaf a W y h G Hl)].
      inversion G; subst h; cbn. destruct Hok as [(_ & E & Nd & St)|(Sp & _)].
      + split; [exact E|]. split; [exact Nd | intros q Hq; apply St, Hq].
      + exfalso. apply (leaf_span_excl _ Hl Sp).
    - intros y h G Hsp. rewrite nh_hget in G. scase s y.
      + inversion G; subst h; cbn. destruct Hok as [(Hl & _)|(_ & _ & t & E & K & D)]; [exfalso; apply (leaf_span_excl _ Hl Hsp)|].
        exists t. pose proof (nh_t_ne t K) as Hne. rewrite (nh_chain t Hne). split; [exact E|]. split.
        * intros Ht. rewrite nh_hget.
          destruct (sid_eqb s t) eqn:X0; [apply sid_eqb_eq in X0; congruence|].
          unfold known in K. rewrite Ht in K. exact K.
        * intros [X|X]; [apply Hne; exact X | apply (nh_notin_chain t X)].
      + destruct (W_span a W y h G Hsp) as (o & E' & Kn & N).
        assert (Hne : o <> s).
        { intros Eo. rewrite Eo in Kn. apply (Kn Hs). exact Hfresh. }
        exists o. rewrite (nh_chain o Hne). split; [exact E'|]. split; [|exact N].
        intros Ho. rewrite nh_hget. destruct (sid_eqb s o) eqn:X1; [apply sid_eqb_eq in X1; congruence | apply Kn, Ho].
    - intros y h G. rewrite nh_hget in G. scase s y; [|apply (W_own a W y h G)].
      inversion G; subst h; cbn. split; [stat_crush | discriminate].
  Qed.

  Lemma Inv_new_holder : Inv c m' a'.
  Proof.
    constructor.
    - exact nh_wf.
    - intros y sc G. unfold m' in G. rewrite get_set in G. scase s y; [|apply (I_good c m a I y sc G)].
      inversion G; subst sc. split; [exact Hlim|]. cbn. destruct Hlim as (H1 & H2 & H3 & H4 & H5 & H6 & H7 & H8).
      split; [stat_crush | unfold fits; cbn; repeat split; lia].
    - intros y sc G Hh. rewrite nh_get in G by congruence. apply (I_static c m a I y sc G Hh).
    - destruct (I_base c m a I) as (B1 & B2 & B3 & B4).
      repeat split; rewrite nh_get by (intros X; rewrite <- X in Hs; discriminate Hs); assumption.
    - intros y h G Hh. rewrite nh_hget in G. scase s y.
      + inversion G; subst h; cbn. eexists. unfold m'. rewrite get_set_same. split; [reflexivity|]. cbn.
        repeat split; try reflexivity. exact Hal.
      + destruct (I_handle c m a I y h G Hh) as (sc & Gm & P). exists sc.
        rewrite nh_get, nh_limit by congruence. split; assumption.
    - intros y h G D. rewrite nh_hget in G.
      assert (Pres : forall q, is_handle q = false -> get m q <> None -> get m' q <> None).
      { intros q Hq Gq. rewrite nh_get; [exact Gq|]. intros ->. congruence. }
      scase s y.
      + inversion G; subst h; cbn. destruct Hok as [(Hl & E & Nd & St)|(Sp & Ep & t & E & K & Dt)].
        * rewrite (nh_par_s Hl), E. split; [|intros o X; discriminate X]. intros q Hq. destruct (St q Hq) as [Q1 Q2]. apply Pres; assumption.
        * split.
          -- intros q Hq. rewrite (a_par_span a' _ Sp) in Hq. destruct Hq.
          -- intros o Ho Hst. apply Pres; [exact Hst|]. rewrite E in Ho. inversion Ho; subst o.
             unfold known in K. rewrite Hst in K. exact K.
      + destruct (I_present c m a I y h G D) as [P1 P2]. rewrite nh_par by congruence. split.
        * intros q Hq. apply Pres; [apply (a_par_static a y q W Hq) | apply P1, Hq].
        * intros o Ho Hst. apply Pres; [exact Hst | apply (P2 o Ho Hst)].
    - intros y sc G Hh Hn. rewrite nh_hget in Hn. scase s y; [discriminate|].
      rewrite nh_get in G by congruence. apply (I_garbage c m a I y sc G Hh Hn).
    - intros x. rewrite nh_use, nh_usage. apply (I_num c m a I).
  Qed.
End NewHolder.

(* C03 — re-parenting (SetPeer / SetProtocol / SetService / the allow-list
   transfer) on the abstract side: changing the parent list of a connection or
   stream moves everything charged through it. *)
From Coq Require Import List ZArith Bool Arith Lia.
From Verif Require Import lib.Wire c03.Int64 c03.Model c03.Spec c03.Proofs_Int64 c03.Proofs_Base
     c03.Proofs_Sum c03.Proofs_Reach c03.Proofs_Link c03.Proofs_Targets c03.Proofs_Frames c03.Proofs_Frames2
     c03.Proofs_Frames3 c03.Proofs_Kill.
Import ListNotations.
Local Open Scope Z_scope.

Lemma sumc_move : forall R R' H s x A B,
  (forall y, In y (map fst H) ->
     countb x (R' y) + countb s (R y) * A = countb x (R y) + countb s (R y) * B) ->
  stat_add (sumc R' H x) (stat_scale A (sumc R H s)) = stat_add (sumc R H x) (stat_scale B (sumc R H s)).
Proof.
  induction H as [|[y h] r IH]; intros s x A B E.
  - rewrite !sumc_nil, !stat_scale_stat0. reflexivity.
  - rewrite !sumc_cons. pose proof (E y (or_introl eq_refl)) as Ey.
    specialize (IH s x A B (fun z Hz => E z (or_intror Hz))). revert IH Ey.
    generalize (sumc R' r x) (sumc R r x) (sumc R r s) (h_own h)
               (countb x (R' y)) (countb x (R y)) (countb s (R y)).
    intros [] [] [] [] c1 c2 c3 IH Ey. unfold stat_add, stat_scale in *.
    cbn [Model.mem Model.sin Model.sout Model.cin Model.cout Model.fd] in *.
    injection IH; intros. f_equal; nia.
Qed.

Section Repar.
  Variables (a a' : astate) (s : sid) (h : holder) (P' : list sid).
  Hypothesis W : WfA a.
  Hypothesis Hl : leaf s = true.
  Hypothesis G : hget (holders a) s = Some h.
  Hypothesis Ha' : holders a' = hset (holders a) s (mkHolder (h_own h) P' (h_chain h) (h_dead h)).
  Hypothesis Nd : NoDup P'.
  Hypothesis St : forall p, In p P' -> is_handle p = false.

  Lemma rp_hget : forall y, hget (holders a') y =
    if sid_eqb s y then Some (mkHolder (h_own h) P' (h_chain h) (h_dead h)) else hget (holders a) y.
  Proof. intros y. rewrite Ha'. apply hget_hset. Qed.

  Lemma rp_dead : forall y, a_dead a' y = a_dead a y.
  Proof.
    intros y. unfold a_dead. rewrite rp_hget. destruct (sid_eqb s y) eqn:X; [|reflexivity].
    apply sid_eqb_eq in X. rewrite <- X, G. reflexivity.
  Qed.

  Lemma rp_chain : forall y, a_chain a' y = a_chain a y.
  Proof.
    intros y. unfold a_chain. rewrite rp_hget. destruct (sid_eqb s y) eqn:X; [|reflexivity].
    apply sid_eqb_eq in X. rewrite <- X, G. reflexivity.
  Qed.

  Lemma rp_par_other : forall y, y <> s -> a_par a' y = a_par a y.
  Proof.
    intros y Hne. unfold a_par. destruct y; try reflexivity; rewrite rp_hget;
      match goal with |- context [sid_eqb s ?k] => destruct (sid_eqb s k) eqn:X end; try reflexivity;
      apply sid_eqb_eq in X; congruence.
  Qed.

  Lemma rp_par_s : a_par a' s = P'.
  Proof.
    rewrite (a_par_leaf a' s (mkHolder (h_own h) P' (h_chain h) (h_dead h)) Hl); [reflexivity|].
    rewrite rp_hget, sid_eqb_refl. reflexivity.
  Qed.

  Lemma rp_chain_s : a_chain a s = [].
  Proof. unfold a_chain. rewrite G. apply (W_leaf a W s h G Hl). Qed.

  Lemma rp_reach_s : areach a' s = if a_dead a s then [] else s :: P'.
  Proof. rewrite (areach_root a' s) by (rewrite rp_chain; exact rp_chain_s). rewrite rp_dead, rp_par_s. reflexivity. Qed.

  Lemma rp_s_notin_par : forall y, ~ In s (a_par a y).
  Proof. intros y X. apply (a_par_static a y s W) in X. destruct s; discriminate. Qed.

  Lemma rp_split : forall x y,
    countb x (areach a' y) + countb s (areach a y) * countb x (areach a s)
    = countb x (areach a y) + countb s (areach a y) * countb x (areach a' s).
  Proof.
    intros x y. pattern y. apply (chain_ind a); [exact W| |]; clear y.
    - intros y E. destruct (sid_dec y s) as [->|Hne].
      + destruct (a_dead a s) eqn:D.
        * rewrite rp_reach_s, D, (areach_dead a s D). cbn. lia.
        * rewrite (reach_self a s W D). lia.
      + assert (E' : a_chain a' y = []) by (rewrite rp_chain; exact E).
        rewrite (areach_root a' y E'), (areach_root a y E), rp_dead, (rp_par_other y Hne).
        destruct (a_dead a y); [cbn; lia|]. cbn [countb].
        assert (X : sid_eqb y s = false) by (apply sid_eqb_neq; exact Hne). rewrite X.
        rewrite (countb_notin s (a_par a y) (rp_s_notin_par y)). lia.
    - intros y o Hsp E _ IH. assert (E' : a_chain a' y = o :: a_chain a' o) by (rewrite !rp_chain; exact E).
      rewrite (areach_span a y o E), (areach_span a' y o E'), rp_dead.
      destruct (a_dead a y); [cbn; lia|]. cbn [countb].
      assert (X : sid_eqb y s = false) by (apply sid_eqb_neq; intros ->; apply (leaf_span_excl s Hl Hsp)).
      rewrite X. lia.
  Qed.

  (* the abstract usage after the move *)
  Lemma usage_repar : forall x,
    stat_add (usage_A a' x) (stat_scale (countb x (areach a s)) (usage_A a s))
    = stat_add (usage_A a x) (stat_scale (countb x (areach a' s)) (usage_A a s)).
  Proof.
    intros x. rewrite !usage_A_sumc.
    assert (E : sumc (areach a') (holders a') x = sumc (areach a') (holders a) x).
    { rewrite Ha'.
      pose proof (sumc_hset_old (areach a') (holders a) s h (mkHolder (h_own h) P' (h_chain h) (h_dead h)) x (W_keys a W) G) as X.
      cbn [h_own] in X. revert X.
      generalize (sumc (areach a') (hset (holders a) s (mkHolder (h_own h) P' (h_chain h) (h_dead h))) x)
                 (sumc (areach a') (holders a) x) (stat_scale (countb x (areach a' s)) (h_own h)).
      intros [] [] [] X. unfold stat_add in X. injection X; intros. f_equal; lia. }
    rewrite E. apply sumc_move. intros y _. apply rp_split.
  Qed.

  Lemma WfA_repar : WfA a'.
  Proof.
    constructor.
    - rewrite Ha'. apply hset_keys_nodup, (W_keys a W).
    - intros y hy Gy Hh. rewrite rp_hget in Gy. destruct (sid_eqb s y) eqn:X; [|apply (W_static a W y hy Gy Hh)].
      apply sid_eqb_eq in X. subst y. destruct s; discriminate.
    - intros y hy Gy Hly. rewrite rp_hget in Gy. destruct (sid_eqb s y) eqn:X; [|apply (W_leaf a W y hy Gy Hly)].
      inversion Gy; subst hy; cbn. split; [apply (W_leaf a W s h G Hl)|]. split; assumption.
    - intros y hy Gy Hs. rewrite rp_hget in Gy. destruct (sid_eqb s y) eqn:X.
      + apply sid_eqb_eq in X. subst y. exfalso. apply (leaf_span_excl s Hl Hs).
      + destruct (W_span a W y hy Gy Hs) as (o & E & Kn & N). exists o. rewrite rp_chain. split; [exact E|]. split; [|exact N].
        intros Ho. rewrite rp_hget. destruct (sid_eqb s o); [discriminate | apply Kn, Ho].
    - intros y hy Gy. rewrite rp_hget in Gy. destruct (sid_eqb s y) eqn:X; [|apply (W_own a W y hy Gy)].
      inversion Gy; subst hy; cbn. apply (W_own a W s h G).
  Qed.
End Repar.

(* C03 — proofs about the concurrent LTS of Conc.v: for EVERY schedule the usage of
   every scope is the sum of what the holders have charged so far (in-flight
   prefixes included), within [0, limit]; quiescent exactness; a refused
   operation leaves no residue; the sample monitor accepts every model trace. *)
From Coq Require Import List ZArith Bool Arith Lia.
From Verif Require Import lib.Wire c03.Int64 c03.Model c03.Spec c03.Proofs_Base c03.Conc.
Import ListNotations.
Local Open Scope Z_scope.

(* ---- counting -------------------------------------------------------------------- *)
Lemma cnt_app : forall s a b, cnt s (a ++ b) = cnt s a + cnt s b.
Proof. induction a; intros; cbn [cnt app]; [reflexivity|]. rewrite IHa. lia. Qed.

Lemma cnt_nonneg : forall s l, 0 <= cnt s l.
Proof. induction l; cbn [cnt]; [lia|]. destruct (Nat.eqb a s); lia. Qed.

Lemma cnt_notin : forall s l, ~ In s l -> cnt s l = 0.
Proof.
  induction l; intros H; cbn [cnt]; [reflexivity|].
  destruct (Nat.eqb a s) eqn:E.
  - apply Nat.eqb_eq in E. subst. exfalso. apply H. left. reflexivity.
  - rewrite IHl; [lia|]. intros Hin. apply H. right. exact Hin.
Qed.

Lemma cnt_undo : forall c s got, cnt s (undo_order c got) = cnt s got.
Proof.
  intros [|d e] s got; cbn [undo_order]; [|reflexivity].
  destruct got as [|x r]; [reflexivity|]. cbn [tl firstn]. rewrite cnt_app. cbn [cnt]. lia.
Qed.

Lemma move_okb_sound : forall e a d e', move_okb e a d e' = true ->
  forall s, cnt s e + cnt s a = cnt s e' + cnt s d.
Proof.
  intros e a d e' H s. unfold move_okb in H. rewrite forallb_forall in H.
  destruct (in_dec Nat.eq_dec s (e ++ a ++ e' ++ d)) as [Hin|Hn].
  - specialize (H s Hin). apply Z.eqb_eq in H. rewrite !cnt_app in H. exact H.
  - assert (N1 : ~ In s e) by (intros X; apply Hn; apply in_or_app; left; exact X).
    assert (N2 : ~ In s a) by (intros X; apply Hn; apply in_or_app; right; apply in_or_app; left; exact X).
    assert (N3 : ~ In s e') by (intros X; apply Hn; apply in_or_app; right; apply in_or_app; right;
                                 apply in_or_app; left; exact X).
    assert (N4 : ~ In s d) by (intros X; apply Hn; apply in_or_app; right; apply in_or_app; right;
                                apply in_or_app; right; exact X).
    rewrite (cnt_notin s e N1), (cnt_notin s a N2), (cnt_notin s e' N3), (cnt_notin s d N4). reflexivity.
Qed.

(* ---- vectors ----------------------------------------------------------------------- *)
Lemma cdelta_kdelta : forall k, cdelta k = kdelta k.
Proof. destruct k; reflexivity. Qed.

Lemma kind_okb_ok : forall k, kind_okb k = true -> kind_ok k.
Proof.
  intros [sz prio|inb|inb f|st] H; cbn in *; try exact I; try discriminate.
  repeat (apply andb_true_iff in H; destruct H as [H ?]).
  repeat match goal with X : (_ <=? _) = true |- _ => apply Z.leb_le in X end. lia.
Qed.

Lemma stat_leb_le : forall a b, stat_leb a b = true -> stat_le a b.
Proof.
  intros a b H. unfold stat_leb in H.
  repeat (apply andb_true_iff in H; destruct H as [H ?]).
  repeat match goal with X : (_ <=? _) = true |- _ => apply Z.leb_le in X end.
  unfold stat_le. repeat split; assumption.
Qed.

Lemma stat_le_leb : forall a b, stat_le a b -> stat_leb a b = true.
Proof.
  intros a b (H1 & H2 & H3 & H4 & H5 & H6). unfold stat_leb.
  repeat (apply andb_true_iff; split); apply Z.leb_le; assumption.
Qed.

Lemma alg_same : forall u a a', a' = a -> u = stat_add (stat_sub u a) a'.
Proof. intros; subst. stat_crush. Qed.
Lemma alg_add : forall u a a' d, a' = stat_add a d -> stat_add u d = stat_add (stat_sub u a) a'.
Proof. intros; subst. stat_crush. Qed.
Lemma alg_sub : forall u a a' d, a = stat_add a' d -> stat_sub u d = stat_add (stat_sub u a) a'.
Proof. intros; subst. stat_crush. Qed.

Lemma scale_nonneg : forall c d, 0 <= c -> nonneg d -> nonneg (stat_scale c d).
Proof. intros c d Hc Hd. stat_crush; nia. Qed.

Lemma scale_ge : forall c d, 1 <= c -> nonneg d -> stat_le d (stat_scale c d).
Proof. intros c d Hc Hd. stat_crush; nia. Qed.

Lemma scale_mono : forall c1 c2 d, c1 <= c2 -> nonneg d -> stat_le (stat_scale c1 d) (stat_scale c2 d).
Proof. intros c1 c2 d Hc Hd. stat_crush; nia. Qed.

Lemma stat_le_refl : forall a, stat_le a a.
Proof. intros. stat_crush. Qed.
Lemma stat_le_trans : forall a b c, stat_le a b -> stat_le b c -> stat_le a c.
Proof. intros. stat_crush. Qed.
Lemma stat_le_add : forall a b c d, stat_le a b -> stat_le c d -> stat_le (stat_add a c) (stat_add b d).
Proof. intros. stat_crush. Qed.
Lemma nonneg_add : forall a b, nonneg a -> nonneg b -> nonneg (stat_add a b).
Proof. intros. stat_crush. Qed.
Lemma nonneg0 : nonneg stat0.
Proof. stat_crush. Qed.

(* ---- the holder invariant ------------------------------------------------------------ *)
Definition hok (h : cholder) : Prop :=
  nonneg (h_own h) /\ mem (h_own h) <= max_int64 /\
  match h_ph h with
  | Idle => True
  | Acq todo got k c snap =>
      kind_ok k /\ snap = (h_own h, h_edges h) /\
      match c with
      | CReserve => forall s, cnt s todo + cnt s got = cnt s (h_self h :: h_edges h)
      | CMove drop e' =>
          k = KStat (h_own h) /\
          forall s, cnt s (h_edges h) + cnt s todo + cnt s got = cnt s e' + cnt s drop
      end
  | Drop todo k back =>
      kind_ok k /\ match back with Some snap => snap = (h_own h, h_edges h) | None => True end
  end.

Lemma hok_nonneg_parts : forall h s, hok h ->
  nonneg (base h s) /\ nonneg (inflight h s) /\ stat_le (inflight h s) (inflight_max h s).
Proof.
  intros [self edges own dead ph] s (Hn & Hm & Hp). unfold base, inflight, inflight_max. cbn [h_self h_edges h_own h_ph] in *.
  split. { apply scale_nonneg; [apply cnt_nonneg | exact Hn]. }
  destruct ph as [|todo got k c snap|todo k b].
  - split; [apply nonneg0 | apply stat_le_refl].
  - destruct Hp as (Hk & _). pose proof (kdelta_nonneg k Hk) as Hd. rewrite <- cdelta_kdelta in Hd.
    split; [apply scale_nonneg; [apply cnt_nonneg | exact Hd]|].
    apply scale_mono; [|exact Hd]. rewrite cnt_app. pose proof (cnt_nonneg s todo). lia.
  - destruct Hp as (Hk & _). pose proof (kdelta_nonneg k Hk) as Hd. rewrite <- cdelta_kdelta in Hd.
    split; [apply scale_nonneg; [apply cnt_nonneg | exact Hd] | apply stat_le_refl].
Qed.

Lemma hok_held_nonneg : forall h s, hok h -> nonneg (held h s).
Proof. intros h s H. destruct (hok_nonneg_parts h s H) as (A & B & _). apply nonneg_add; assumption. Qed.

Lemma held_bounds : forall h s, hok h ->
  stat_le (base h s) (held h s) /\ stat_le (held h s) (stat_add (base h s) (inflight_max h s)).
Proof.
  intros h s H. destruct (hok_nonneg_parts h s H) as (A & B & C). unfold held. split.
  - remember (base h s) as x. remember (inflight h s) as y. clear - B. stat_crush.
  - apply stat_le_add; [apply stat_le_refl | exact C].
Qed.

(* starting an operation touches no shared state and changes nothing the holder has charged *)
Lemma start_ok : forall h o, hok h -> h_ph h = Idle ->
  hok (start h o) /\ forall s, held (start h o) s = held h s.
Proof.
  intros [self edges own dead ph] o (Hn & Hm & Hp) Hph. cbn [h_own h_ph h_self h_edges] in *. subst ph.
  assert (H0 : forall dd, hok (mkCH self edges own dd Idle)) by (intros dd; exact (conj Hn (conj Hm I))).
  unfold start. cbn [h_dead h_self h_edges h_own].
  destruct dead. { split; [apply H0 | reflexivity]. }
  destruct o as [k|k| |add drop e'|].
  - destruct (kind_okb k) eqn:Ek; [|split; [apply H0 | reflexivity]].
    apply kind_okb_ok in Ek. split.
    + unfold hok, set_ph. cbn [h_own h_ph h_self h_edges]. split; [exact Hn|]. split; [exact Hm|].
      split; [exact Ek|]. split; [reflexivity|]. intros s. cbn [cnt]. lia.
    + intros s. unfold held, base, inflight, set_ph. cbn [h_own h_ph h_self h_edges cnt]. stat_crush.
  - destruct (kind_okb k && stat_leb (cdelta k) own) eqn:Ek; [|split; [apply H0 | reflexivity]].
    apply andb_true_iff in Ek. destruct Ek as [Ek El]. apply kind_okb_ok in Ek. apply stat_leb_le in El.
    pose proof (kdelta_nonneg k Ek) as Hd. rewrite <- cdelta_kdelta in Hd.
    split.
    + unfold hok. cbn [h_own h_ph h_self h_edges].
      remember (cdelta k) as d. clear Heqd.
      split; [clear - Hn El; stat_crush|]. split; [clear - Hm Hd El; stat_crush|]. split; [exact Ek | exact I].
    + intros s. unfold held, base, inflight. cbn [h_own h_ph h_self h_edges].
      remember (cdelta k) as d. remember (cnt s (self :: edges)) as c. clear - d. stat_crush.
  - split.
    + unfold hok. cbn [h_own h_ph h_self h_edges]. split; [apply nonneg0|].
      split; [cbn; unfold max_int64; lia|]. split; [|exact I]. cbn. split; [exact Hn | exact Hm].
    + intros s. unfold held, base, inflight. cbn [h_own h_ph h_self h_edges cdelta].
      rewrite cnt_app. cbn [cnt].
      remember (cnt s edges) as c. destruct (Nat.eqb self s); clear - own; stat_crush.
  - destruct (move_okb edges add drop e') eqn:Em; [|split; [apply H0 | reflexivity]].
    pose proof (move_okb_sound _ _ _ _ Em) as Hc. split.
    + unfold hok, set_ph. cbn [h_own h_ph h_self h_edges]. split; [exact Hn|]. split; [exact Hm|].
      split; [cbn; split; [exact Hn | exact Hm]|]. split; [reflexivity|]. split; [reflexivity|].
      intros s. specialize (Hc s). cbn [cnt]. lia.
    + intros s. unfold held, base, inflight, set_ph. cbn [h_own h_ph h_self h_edges cnt cdelta]. stat_crush.
  - split.
    + unfold hok. cbn [h_own h_ph h_self h_edges]. split; [exact Hn|]. split; [exact Hm|].
      split; [|exact I]. cbn. split; [exact Hn | exact Hm].
    + intros s. unfold held, base, inflight. cbn [h_own h_ph h_self h_edges cnt cdelta].
      remember (cnt s edges) as c. destruct (Nat.eqb self s); clear - own; stat_crush.
Qed.

Lemma fits_within_max : forall l u, lim_ok l -> fits l u -> mem u <= max_int64.
Proof. intros l u (Hl & _) (Hf & _). lia. Qed.

(* ONE atomic step of one holder *)
Lemma hstep_inv : forall lim use h o use' h',
  (forall s, lim_ok (lim s)) -> hok h ->
  (forall s, nonneg (use s) /\ fits (lim s) (use s)) ->
  (forall s, stat_le (held h s) (use s)) ->
  hstep lim use h o = Some (use', h') ->
  hok h' /\
  (forall s, use' s = stat_add (stat_sub (use s) (held h s)) (held h' s)) /\
  (forall s, nonneg (use' s) /\ fits (lim s) (use' s)).
Proof.
  intros lim use h o use' h' Hlim Hok Huse Hle Hs.
  unfold hstep in Hs. destruct (h_ph h) as [|todo got k c snap|todo k b] eqn:Eph.
  - (* Idle *)
    inversion Hs; subst; clear Hs. destruct (start_ok h o Hok Eph) as [H1 H2].
    split; [exact H1|]. split; [|exact Huse].
    intros s. apply alg_same. apply H2.
  - destruct h as [self edges own dead ph]. cbn [h_ph] in Eph. subst ph.
    destruct Hok as (Hn & Hm & Hk & Hsnap & Hc). cbn [h_own h_edges h_self h_ph] in *.
    pose proof (kdelta_nonneg k Hk) as Hd. rewrite <- cdelta_kdelta in Hd.
    destruct todo as [|s0 todo].
    + (* commit *)
      destruct c as [|drop e'].
      * inversion Hs; subst; clear Hs.
        assert (Hown : mem own + mem (cdelta k) <= max_int64).
        { pose proof (Hle self) as L. pose proof (Hc self) as C0.
          destruct (Huse self) as [_ Hf]. pose proof (fits_within_max _ _ (Hlim self) Hf) as Hmax.
          unfold held, base, inflight in L. cbn [h_own h_ph h_self h_edges] in L.
          cbn [cnt] in C0. rewrite Nat.eqb_refl in C0. pose proof (cnt_nonneg self edges) as Cn.
          remember (cnt self got) as cg. remember (cnt self (self :: edges)) as cb.
          cbn [cnt] in Heqcb. rewrite Nat.eqb_refl in Heqcb.
          destruct L as (L & _). remember (cdelta k) as d.
          destruct Hn as (N1 & _). destruct Hd as (D1 & _).
          unfold stat_add, stat_scale in L. cbn [mem] in L. nia. }
        split.
        { unfold hok. cbn [h_own h_ph]. remember (cdelta k) as d.
          split; [clear - Hn Hd; stat_crush|]. split; [unfold stat_add; cbn [mem]; exact Hown | exact I]. }
        split; [|exact Huse].
        intros s. apply alg_same. pose proof (Hc s) as C0. change (cnt s []) with 0 in C0.
        unfold held, base, inflight. cbn [h_own h_ph h_self h_edges].
        remember (cdelta k) as d. remember (cnt s (self :: edges)) as cb. remember (cnt s got) as cg.
        assert (E : cg = cb) by lia. rewrite E. clear. stat_crush.
      * inversion Hs; subst; clear Hs. destruct Hc as [Hkk Hc]. subst k.
        split.
        { unfold hok. cbn [h_own h_ph]. split; [exact Hn|]. split; [exact Hm|]. split; [exact Hk | exact I]. }
        split; [|exact Huse].
        intros s. apply alg_same. pose proof (Hc s) as C0. cbn [cnt] in C0.
        unfold held, base, inflight. cbn [h_own h_ph h_self h_edges cdelta cnt].
        remember (cnt s edges) as ce. remember (cnt s e') as ce'. remember (cnt s got) as cg.
        remember (cnt s drop) as cd. assert (ce + cg = ce' + cd) by lia.
        destruct (Nat.eqb self s); clear - H; stat_crush; nia.
    + (* one check-and-add on s0 *)
      destruct (rc_reserve k (lim s0) (use s0)) as [u'|e] eqn:Er.
      * destruct (mem (use s0) + mem (cdelta k) >? max_int64) eqn:Eg; [discriminate|].
        inversion Hs; subst; clear Hs.
        assert (Hov : mem (use s0) + mem (kdelta k) <= max_int64).
        { rewrite <- cdelta_kdelta. rewrite Z.gtb_ltb in Eg. apply Z.ltb_ge in Eg. exact Eg. }
        destruct (Huse s0) as [Hn0 Hf0].
        destruct (rc_reserve_ok k (lim s0) (use s0) u' Hk (Hlim s0) Hn0 Hf0 Hov Er) as (Hu & Hfu & Hnu).
        rewrite <- cdelta_kdelta in Hu.
        split.
        { unfold hok, set_ph. cbn [h_own h_ph h_self h_edges]. split; [exact Hn|]. split; [exact Hm|].
          split; [exact Hk|]. split; [reflexivity|].
          destruct c as [|drop e'].
          - intros s. pose proof (Hc s) as C0. rewrite cnt_app. cbn [cnt] in *. lia.
          - destruct Hc as [Hkk Hc]. split; [exact Hkk|].
            intros s. pose proof (Hc s) as C0. rewrite cnt_app. cbn [cnt] in *. lia. }
        split.
        { intros s. unfold upd_use. destruct (Nat.eqb s s0) eqn:Es.
          - apply Nat.eqb_eq in Es. subst s. rewrite Hu. apply alg_add.
            unfold held, base, inflight, set_ph. cbn [h_own h_ph h_self h_edges].
            rewrite cnt_app. cbn [cnt]. rewrite Nat.eqb_refl.
            remember (cdelta k) as d. remember (cnt s0 (self :: edges)) as cb. remember (cnt s0 got) as cg.
            clear - d. stat_crush.
          - apply alg_same.
            unfold held, base, inflight, set_ph. cbn [h_own h_ph h_self h_edges].
            rewrite cnt_app. cbn [cnt]. rewrite (Nat.eqb_sym s0 s), Es.
            f_equal. f_equal. lia. }
        { intros s. unfold upd_use. destruct (Nat.eqb s s0) eqn:Es; [|apply Huse].
          apply Nat.eqb_eq in Es. subst s. split; assumption. }
      * inversion Hs; subst; clear Hs.
        split.
        { unfold hok, set_ph. cbn [h_own h_ph h_self h_edges]. exact (conj Hn (conj Hm (conj Hk eq_refl))). }
        split; [|exact Huse].
        intros s. apply alg_same.
        unfold held, base, inflight, set_ph. cbn [h_own h_ph h_self h_edges]. rewrite cnt_undo. reflexivity.
  - destruct h as [self edges own dead ph]. cbn [h_ph] in Eph. subst ph.
    destruct Hok as (Hn & Hm & Hk & Hb). cbn [h_own h_edges h_self h_ph] in *.
    pose proof (kdelta_nonneg k Hk) as Hd. rewrite <- cdelta_kdelta in Hd.
    destruct todo as [|s0 todo]; inversion Hs; subst; clear Hs.
    + split.
      { unfold hok, set_ph. cbn [h_own h_ph]. exact (conj Hn (conj Hm I)). }
      split; [|exact Huse].
      intros s. apply alg_same. unfold held, base, inflight, set_ph. cbn [h_own h_ph h_self h_edges cnt]. reflexivity.
    + (* one release on s0 *)
      destruct (Huse s0) as [Hn0 Hf0].
      assert (Hdle : stat_le (kdelta k) (use s0)).
      { rewrite <- cdelta_kdelta. eapply stat_le_trans; [|apply (Hle s0)].
        unfold held, base, inflight. cbn [h_own h_ph h_self h_edges].
        assert (B : nonneg (stat_scale (cnt s0 (self :: edges)) own))
          by (apply scale_nonneg; [apply cnt_nonneg | exact Hn]).
        assert (G : stat_le (cdelta k) (stat_scale (cnt s0 (s0 :: todo)) (cdelta k))).
        { apply scale_ge; [|exact Hd]. cbn [cnt]. rewrite Nat.eqb_refl. pose proof (cnt_nonneg s0 todo). lia. }
        remember (stat_scale (cnt s0 (self :: edges)) own) as x.
        remember (stat_scale (cnt s0 (s0 :: todo)) (cdelta k)) as y. remember (cdelta k) as d.
        clear - B G. stat_crush. }
      pose proof (rc_release_exact k (use s0) Hk Hn0 (fits_within_max _ _ (Hlim s0) Hf0) Hdle) as Hr.
      rewrite <- cdelta_kdelta in Hr, Hdle.
      split.
      { unfold hok, set_ph. cbn [h_own h_ph]. exact (conj Hn (conj Hm (conj Hk Hb))). }
      split.
      { intros s. unfold upd_use. destruct (Nat.eqb s s0) eqn:Es.
        - apply Nat.eqb_eq in Es. subst s. rewrite Hr. apply alg_sub.
          unfold held, base, inflight, set_ph. cbn [h_own h_ph h_self h_edges cnt]. rewrite Nat.eqb_refl.
          remember (cdelta k) as d. remember (cnt s0 (self :: edges)) as cb. remember (cnt s0 todo) as ct.
          clear - d. stat_crush.
        - apply alg_same.
          unfold held, base, inflight, set_ph. cbn [h_own h_ph h_self h_edges cnt].
          rewrite (Nat.eqb_sym s0 s), Es. rewrite Z.add_0_l. reflexivity. }
      { intros s. unfold upd_use. destruct (Nat.eqb s s0) eqn:Es; [|apply Huse].
        apply Nat.eqb_eq in Es. subst s. rewrite Hr.
        remember (use s0) as u. remember (cdelta k) as d. remember (lim s0) as l.
        clear - Hn0 Hf0 Hdle Hd. unfold fits in *. stat_crush. }
Qed.

(* ---- the system invariant ---------------------------------------------------------------- *)
Definition cinv (lim : nat -> limit) (st : cstate) : Prop :=
  (forall h, In h (c_hs st) -> hok h) /\
  (forall s, c_use st s = sum_held (c_hs st) s) /\
  (forall s, nonneg (c_use st s) /\ fits (lim s) (c_use st s)).

Lemma sum_over_set_nth : forall {A} (f : A -> stat) l i x y, nth_error l i = Some x ->
  sum_over f (set_nth i l y) = stat_add (stat_sub (sum_over f l) (f x)) (f y).
Proof.
  intros A f. induction l as [|z r IH]; intros i x y H.
  - destruct i; discriminate.
  - destruct i as [|j]; cbn [nth_error set_nth sum_over] in *.
    + inversion H; subst. remember (f x) as a. remember (f y) as b. remember (sum_over f r) as c.
      clear. stat_crush.
    + rewrite (IH j x y H). remember (f x) as a. remember (f y) as b. remember (sum_over f r) as c.
      remember (f z) as d. clear. stat_crush.
Qed.

Lemma in_set_nth : forall {A} (l : list A) i y z, In z (set_nth i l y) -> z = y \/ In z l.
Proof.
  induction l as [|a r IH]; intros i y z H; [destruct i; contradiction|].
  destruct i as [|j]; cbn [set_nth] in H.
  - destruct H as [H|H]; [left; symmetry; exact H | right; right; exact H].
  - destruct H as [H|H]; [right; left; exact H|].
    destruct (IH j y z H) as [E|E]; [left; exact E | right; right; exact E].
Qed.

Lemma sum_over_ge : forall {A} (f : A -> stat) l x, (forall y, In y l -> nonneg (f y)) -> In x l ->
  stat_le (f x) (sum_over f l).
Proof.
  intros A f. induction l as [|z r IH]; intros x Hn Hin; [contradiction|].
  cbn [sum_over].
  assert (Hr : nonneg (sum_over f r)).
  { clear IH Hin. induction r as [|w r IH]; [apply nonneg0|]. cbn [sum_over].
    apply nonneg_add; [apply Hn; right; left; reflexivity|].
    apply IH. intros y Hy. apply Hn. destruct Hy as [Hy|Hy]; [left; exact Hy | right; right; exact Hy]. }
  destruct Hin as [->|Hin].
  - remember (f x) as a. remember (sum_over f r) as b. clear - Hr. stat_crush.
  - pose proof (IH x (fun y Hy => Hn y (or_intror Hy)) Hin) as L.
    pose proof (Hn z (or_introl eq_refl)) as Nz.
    remember (f x) as a. remember (sum_over f r) as b. remember (f z) as c. clear - L Nz. stat_crush.
Qed.

Lemma gstep_inv : forall lim st io st', (forall s, lim_ok (lim s)) -> cinv lim st ->
  gstep lim st io = Some st' -> cinv lim st'.
Proof.
  intros lim [use hs] [i o] st' Hlim (Hh & Hsum & Huse) Hs. unfold gstep in Hs. cbn [c_hs c_use fst snd] in *.
  destruct (nth_error hs i) as [h|] eqn:En; [|inversion Hs; subst; exact (conj Hh (conj Hsum Huse))].
  destruct (hstep lim use h o) as [[u' h']|] eqn:Eh; [|discriminate]. inversion Hs; subst; clear Hs.
  pose proof (nth_error_In _ _ En) as Hin.
  assert (Hle : forall s, stat_le (held h s) (use s)).
  { intros s. rewrite Hsum. unfold sum_held. apply (sum_over_ge (fun h => held h s)); [|exact Hin].
    intros y Hy. apply hok_held_nonneg. apply Hh. exact Hy. }
  destruct (hstep_inv lim use h o u' h' Hlim (Hh h Hin) Huse Hle Eh) as (H1 & H2 & H3).
  unfold cinv. cbn [c_hs c_use]. split; [|split].
  - intros z Hz. destruct (in_set_nth _ _ _ _ Hz) as [->|Hz']; [exact H1 | apply Hh; exact Hz'].
  - intros s. rewrite H2. unfold sum_held. rewrite (sum_over_set_nth (fun h => held h s) hs i h h' En).
    rewrite Hsum. reflexivity.
  - exact H3.
Qed.

Lemma run_inv : forall lim sched st st', (forall s, lim_ok (lim s)) -> cinv lim st ->
  run lim st sched = Some st' -> cinv lim st'.
Proof.
  intros lim. induction sched as [|io r IH]; intros st st' Hlim Hi Hr; cbn [run] in Hr.
  - inversion Hr; subst. exact Hi.
  - destruct (gstep lim st io) as [st1|] eqn:Eg; [|discriminate].
    apply (IH st1 st' Hlim); [|exact Hr]. eapply gstep_inv; eassumption.
Qed.

Lemma init_inv : forall lim hs, (forall s, lim_ok (lim s)) -> forallb fresh hs = true -> cinv lim (init_cs hs).
Proof.
  intros lim hs Hlim Hf. rewrite forallb_forall in Hf.
  assert (Hh : forall h, In h hs -> hok h /\ forall s, held h s = stat0).
  { intros h Hin. specialize (Hf h Hin). unfold fresh in Hf.
    destruct h as [self edges own dead ph]. cbn [h_ph h_own h_dead] in Hf. destruct ph; try discriminate.
    apply andb_true_iff in Hf. destruct Hf as [Ho _]. apply stat_eqb_eq in Ho. subst own. split.
    - unfold hok. cbn [h_own h_ph]. repeat split; try apply nonneg0. cbn. unfold max_int64. lia.
    - intros s. unfold held, base, inflight. cbn [h_own h_ph h_self h_edges].
      remember (cnt s (self :: edges)) as c. clear. stat_crush. }
  unfold cinv, init_cs. cbn [c_hs c_use]. split; [|split].
  - intros h Hin. apply Hh. exact Hin.
  - intros s. unfold sum_held. clear Hf. induction hs as [|h r IH]; [reflexivity|]. cbn [sum_over].
    rewrite (proj2 (Hh h (or_introl eq_refl)) s). rewrite <- IH; [stat_crush|].
    intros y Hy. apply Hh. right. exact Hy.
  - intros s. split; [apply nonneg0|]. destruct (Hlim s) as (A & B & C & D & E & F & G & H).
    unfold fits, stat0. cbn [mem sin sout cin cout fd]. repeat split; lia.
Qed.

(* ---- consequences --------------------------------------------------------------------------- *)
Lemma quiet_sum : forall st s, quiescent st = true -> sum_held (c_hs st) s = quiet_usage (holders_of st) s.
Proof.
  intros [use hs] s H. unfold quiescent in H. cbn [c_hs] in *. unfold sum_held, holders_of, quiet_usage. cbn [c_hs].
  induction hs as [|h r IH]; [reflexivity|]. cbn [forallb] in H. apply andb_true_iff in H. destruct H as [Hi Hr].
  cbn [map sum_over fst snd]. rewrite (IH Hr). f_equal.
  unfold held, base, inflight, idle in *. destruct (h_ph h); try discriminate. apply stat_add_0_r.
Qed.

Lemma sum_over_map : forall {A B} (g : A -> B) (f : B -> stat) l, sum_over f (map g l) = sum_over (fun x => f (g x)) l.
Proof. induction l; cbn [map sum_over]; [reflexivity|]. rewrite IHl. reflexivity. Qed.

Lemma sum_over_le : forall {A} (f g : A -> stat) l, (forall x, In x l -> stat_le (f x) (g x)) ->
  stat_le (sum_over f l) (sum_over g l).
Proof.
  induction l as [|x r IH]; intros H; cbn [sum_over]; [apply stat_le_refl|].
  apply stat_le_add; [apply H; left; reflexivity | apply IH; intros y Hy; apply H; right; exact Hy].
Qed.

Lemma within_of_fits : forall l u, fits l u -> within l u = true.
Proof.
  intros l u (F1 & F2 & F3 & F4 & F5 & F6 & F7 & F8). unfold within.
  repeat (apply andb_true_iff; split); apply Z.leb_le; assumption.
Qed.

Lemma nonneg_b : forall u, nonneg u -> stat_nonneg u = true.
Proof.
  intros u (N1 & N2 & N3 & N4 & N5 & N6). unfold stat_nonneg.
  repeat (apply andb_true_iff; split); apply Z.leb_le; assumption.
Qed.

Lemma mon_sample_model : forall lim st s, cinv lim st -> mon_sample (model_sample lim st s) = [].
Proof.
  intros lim st s (Hh & Hsum & Huse). destruct (Huse s) as [Hn Hf].
  unfold mon_sample, model_sample. cbn [sm_obs sm_lim sm_parts sm_k sm_a].
  rewrite (nonneg_b _ Hn). cbn [negb]. rewrite (within_of_fits _ _ Hf). cbn [negb].
  rewrite !sum_over_map. cbn [fst snd].
  assert (L : stat_le (sum_over (fun h => base h s) (c_hs st)) (c_use st s)).
  { rewrite Hsum. unfold sum_held. apply sum_over_le. intros h Hin. apply (held_bounds h s (Hh h Hin)). }
  assert (U : stat_le (c_use st s) (sum_over (fun h => stat_add (base h s) (inflight_max h s)) (c_hs st))).
  { rewrite Hsum. unfold sum_held. apply sum_over_le. intros h Hin. apply (held_bounds h s (Hh h Hin)). }
  rewrite (stat_le_leb _ _ L), (stat_le_leb _ _ U). reflexivity.
Qed.

Lemma mon_samples_nil : forall l i, (forall x, In x l -> mon_sample x = []) -> mon_samples i l = [].
Proof.
  induction l as [|x r IH]; intros i H; cbn [mon_samples]; [reflexivity|].
  rewrite (H x (or_introl eq_refl)). apply IH. intros y Hy. apply H. right. exact Hy.
Qed.

Lemma trace_samples_ok : forall lim segs st smp fin, (forall s, lim_ok (lim s)) -> cinv lim st ->
  trace_samples lim st segs = Some (smp, fin) ->
  cinv lim fin /\ forall x, In x smp -> mon_sample x = [].
Proof.
  intros lim. induction segs as [|[sch s] r IH]; intros st smp fin Hlim Hi Ht; cbn [trace_samples] in Ht.
  - inversion Ht; subst. split; [exact Hi | intros x []].
  - destruct (run lim st sch) as [st1|] eqn:Er; [|discriminate].
    destruct (trace_samples lim st1 r) as [[l f]|] eqn:Et; [|discriminate]. inversion Ht; subst; clear Ht.
    pose proof (run_inv lim sch st st1 Hlim Hi Er) as Hi1.
    destruct (IH st1 l fin Hlim Hi1 Et) as [Hf Hl]. split; [exact Hf|].
    intros x [<-|Hx]; [apply mon_sample_model; exact Hi1 | apply Hl; exact Hx].
Qed.

Lemma mon_final_model : forall fin scopes i, (forall s, c_use fin s = quiet_usage (holders_of fin) s) ->
  mon_final i (holders_of fin) (map (fun s => (s, (0, Z.of_nat s), c_use fin s)) scopes) = [].
Proof.
  intros fin. induction scopes as [|s r IH]; intros i H; cbn [map mon_final]; [reflexivity|].
  rewrite (H s). assert (E : stat_eqb (quiet_usage (holders_of fin) s) (quiet_usage (holders_of fin) s) = true)
    by (apply stat_eqb_eq; reflexivity).
  rewrite E. apply IH. exact H.
Qed.

Lemma conc_monitor_accepts : forall lim hs segs tail smp mid fin scopes,
  (forall s, lim_ok (lim s)) -> forallb fresh hs = true ->
  trace_samples lim (init_cs hs) segs = Some (smp, mid) ->
  run lim mid tail = Some fin -> quiescent fin = true ->
  mon_conc (model_case lim smp fin scopes) = [].
Proof.
  intros lim hs segs tail smp mid fin scopes Hlim Hf Ht Hr Hq.
  destruct (trace_samples_ok lim segs _ smp mid Hlim (init_inv lim hs Hlim Hf) Ht) as [Hm Hs].
  pose proof (run_inv lim tail mid fin Hlim Hm Hr) as (Hh & Hsum & Huse).
  unfold mon_conc, model_case. cbn [cc_samples cc_holders cc_final].
  rewrite (mon_samples_nil smp 0 Hs). apply mon_final_model.
  intros s. rewrite Hsum. apply quiet_sum. exact Hq.
Qed.

(* a refused operation: while it is being undone the holder's own vector and edge list are
   the ones it had when the operation began, and all it has charged beyond them is the part
   of the charged prefix not yet taken back *)
Lemma refused_no_residue : forall lim hs sched st h todo k o e,
  (forall s, lim_ok (lim s)) -> forallb fresh hs = true ->
  run lim (init_cs hs) sched = Some st -> In h (c_hs st) ->
  h_ph h = Drop todo k (Some (o, e)) ->
  h_own h = o /\ h_edges h = e /\
  forall s, held h s = stat_add (stat_scale (cnt s (h_self h :: e)) o) (stat_scale (cnt s todo) (cdelta k)).
Proof.
  intros lim hs sched st h todo k o e Hlim Hf Hr Hin Hph.
  pose proof (run_inv lim sched _ st Hlim (init_inv lim hs Hlim Hf) Hr) as (Hh & _ & _).
  pose proof (Hh h Hin) as (_ & _ & Hp). rewrite Hph in Hp. destruct Hp as [_ Hb].
  inversion Hb; subst. repeat split; try reflexivity.
  intros s. unfold held, base, inflight. rewrite Hph. reflexivity.
Qed.

(* ---- statements over reachable states ------------------------------------------------------ *)
Lemma conc_reach_inv : forall lim hs sched st, (forall s, lim_ok (lim s)) -> forallb fresh hs = true ->
  run lim (init_cs hs) sched = Some st -> cinv lim st.
Proof. intros lim hs sched st Hlim Hf Hr. exact (run_inv lim sched _ st Hlim (init_inv lim hs Hlim Hf) Hr). Qed.

Lemma conc_usage_sum : forall lim hs sched st, (forall s, lim_ok (lim s)) -> forallb fresh hs = true ->
  run lim (init_cs hs) sched = Some st ->
  forall s, c_use st s = sum_held (c_hs st) s /\
            forall h, In h (c_hs st) ->
              nonneg (held h s) /\ stat_le (base h s) (held h s) /\
              stat_le (held h s) (stat_add (base h s) (inflight_max h s)).
Proof.
  intros lim hs sched st Hlim Hf Hr s. destruct (conc_reach_inv lim hs sched st Hlim Hf Hr) as (Hh & Hsum & _).
  split; [apply Hsum|]. intros h Hin. split; [apply hok_held_nonneg; apply Hh; exact Hin|].
  apply held_bounds. apply Hh. exact Hin.
Qed.

Lemma conc_within : forall lim hs sched st, (forall s, lim_ok (lim s)) -> forallb fresh hs = true ->
  run lim (init_cs hs) sched = Some st ->
  forall s, nonneg (c_use st s) /\ fits (lim s) (c_use st s).
Proof. intros lim hs sched st Hlim Hf Hr. apply (conc_reach_inv lim hs sched st Hlim Hf Hr). Qed.

Lemma conc_quiet : forall lim hs sched st, (forall s, lim_ok (lim s)) -> forallb fresh hs = true ->
  run lim (init_cs hs) sched = Some st -> quiescent st = true ->
  forall s, c_use st s = quiet_usage (holders_of st) s.
Proof.
  intros lim hs sched st Hlim Hf Hr Hq s. destruct (conc_reach_inv lim hs sched st Hlim Hf Hr) as (_ & Hsum & _).
  rewrite Hsum. apply quiet_sum. exact Hq.
Qed.

(* the sample clause is monotone: wider per-worker bounds are accepted as well (the harness
   widens the instantaneous bounds of the model to the sampling window) *)
Lemma mon_sample_weaken : forall k a l obs parts parts',
  mon_sample (mkSample k a l obs parts) = [] ->
  stat_le (sum_over fst parts') (sum_over fst parts) -> stat_le (sum_over snd parts) (sum_over snd parts') ->
  mon_sample (mkSample k a l obs parts') = [].
Proof.
  intros k a l obs parts parts' H Hlo Hhi. unfold mon_sample in *. cbn [sm_obs sm_lim sm_parts sm_k sm_a] in *.
  destruct (stat_nonneg obs); cbn [negb] in *; [|discriminate].
  destruct (within l obs); cbn [negb] in *; [|discriminate].
  destruct (stat_leb (sum_over fst parts) obs && stat_leb obs (sum_over snd parts)) eqn:E; cbn [negb] in H; [|discriminate].
  apply andb_true_iff in E. destruct E as [E1 E2]. apply stat_leb_le in E1. apply stat_leb_le in E2.
  rewrite (stat_le_leb _ _ (stat_le_trans _ _ _ Hlo E1)), (stat_le_leb _ _ (stat_le_trans _ _ _ E2 Hhi)).
  reflexivity.
Qed.

(* C03 — property theorems only.  Each is closed by [exact] of a lemma from
   Proofs_*.v and followed by Print Assumptions. *)
From Coq Require Import List ZArith Bool Arith Lia.
From Verif Require Import lib.Wire c03.Int64 c03.Model c03.Spec c03.Witness
     c03.Proofs_Int64 c03.Proofs_Base c03.Proofs_Limiter c03.Proofs_Reach c03.Proofs_Link
     c03.Proofs_OpsMem c03.Proofs_Hist c03.Proofs_Mon c03.Proofs_Link2 c03.Proofs_Transfer c03.Proofs_OpsRepar
     c03.Proofs_SetPeer c03.Proofs_Hist2 c03.Proofs_Mon2 c03.Proofs_Keys c03.Proofs_Refs c03.Proofs_RefInv c03.Proofs_GC
     c03.Proofs_Prio c03.Proofs_Cap c03.Proofs_CapInv c03.Proofs_Cap2 c03.Proofs_Just c03.Proofs_Just2 c03.Proofs_Ans c03.Proofs_Ans2 c03.Proofs_Full.
(* the concurrent development is referred to by qualified names (Conc.run ...): it reuses names of the sequential one *)
From Verif Require c03.Conc c03.Proofs_Conc c03.Witness_Conc c03.ConcReg c03.Proofs_ConcReg.
Import ListNotations.
Local Open Scope Z_scope.

(* checkMemory's overflow-checked int64 arithmetic (addInt64WithOverflow,
   mulInt64WithOverflow, big.Int fallback) decides exactly
     mem + rsvp <= floor(limit * (1 + prio) / 256)
   for every int64 limit, usage, size and priority; a MaxInt64 limit is never
   checked (DESIGN 9 item 13) *)
Theorem c03_check_memory_spec : forall lim u rsvp prio,
  0 <= l_mem lim <= max_int64 -> 0 <= mem u <= max_int64 -> 0 <= rsvp <= max_int64 -> 0 <= prio <= 255 ->
  check_memory lim u rsvp prio =
    if l_mem lim =? max_int64 then None
    else if mem u + rsvp <=? mem_threshold (l_mem lim) prio then None else Some ELimit.
Proof. exact check_memory_spec_l. Qed.
Print Assumptions c03_check_memory_spec.

(* "A reservation either takes effect in every scope that constrains it or
   fails and changes nothing": for ANY list of distinct scopes (the scope, its
   owners, its edges), any kind of reservation, any limits and any usage,
   reserve-locally-then-for-edges with the undo of the charged prefix
   (charge_list) ends in one of two states:
     success: every listed scope is open and has exactly the vector added,
              every other scope is untouched;
     refusal: every counter of every scope is what it was before.
   In both cases every scope still satisfies 0 <= usage <= limit. *)
Theorem c03_reservation_all_or_nothing : forall l k m,
  kind_ok k -> all_good m -> NoDup l ->
  (forall t, In t l -> mem (use_of m t) + mem (kdelta k) <= max_int64) ->
  let '(m', e) := charge_list l [] k m in
  (forall x, shape_of m' x = shape_of m x) /\ all_good m' /\
  match e with
  | None => all_live m l /\
            forall x, use_of m' x = if in_dec sid_dec x l then stat_add (use_of m x) (kdelta k) else use_of m x
  | Some _ => forall x, use_of m' x = use_of m x
  end.
Proof. exact charge_list_top. Qed.
Print Assumptions c03_reservation_all_or_nothing.

(* a successful reservation in one scope respects that scope's limit, scaled
   by priority for memory *)
Theorem c03_reserve_within_limit : forall k lim u u',
  kind_ok k -> lim_ok lim -> nonneg u -> fits lim u -> mem u + mem (kdelta k) <= max_int64 ->
  rc_reserve k lim u = inl u' ->
  u' = stat_add u (kdelta k) /\ fits lim u' /\ nonneg u'.
Proof. exact rc_reserve_ok. Qed.
Print Assumptions c03_reserve_within_limit.

Theorem c03_memory_priority_threshold : forall lim u sz prio u',
  lim_ok lim -> nonneg u -> fits lim u -> 0 <= sz <= max_int64 -> 0 <= prio <= 255 ->
  mem u + sz <= max_int64 ->
  reserve_memory lim u sz prio = inl u' ->
  u' = stat_add u (mem_vec sz) /\
  (l_mem lim = max_int64 \/ mem u + sz <= mem_threshold (l_mem lim) prio).
Proof. exact reserve_memory_ok. Qed.
Print Assumptions c03_memory_priority_threshold.

(* releases (ReleaseMemory, Release*ForChild, the release part of Done) over
   any list of scopes never make a counter negative, never grow one, keep
   every scope within its limit, and touch no scope outside the list *)
Theorem c03_release_monotone : forall l k m, kind_ok k -> all_good m ->
  (forall x, shape_of (uncharge_list l k m) x = shape_of m x) /\
  all_good (uncharge_list l k m) /\
  (forall x, stat_le (use_of (uncharge_list l k m) x) (use_of m x)) /\
  (forall x, ~ In x l -> use_of (uncharge_list l k m) x = use_of m x).
Proof. exact uncharge_list_mono. Qed.
Print Assumptions c03_release_monotone.

(* ... and when every listed scope is open and holds at least the vector, the
   release subtracts it exactly once from each *)
Theorem c03_release_exact : forall l k m, kind_ok k -> all_good m -> NoDup l -> all_live m l ->
  (forall t, In t l -> stat_le (kdelta k) (use_of m t)) ->
  (forall x, shape_of (uncharge_list l k m) x = shape_of m x) /\
  all_good (uncharge_list l k m) /\
  (forall x, use_of (uncharge_list l k m) x =
             if in_dec sid_dec x l then stat_sub (use_of m x) (kdelta k) else use_of m x).
Proof. exact uncharge_list_exact. Qed.
Print Assumptions c03_release_exact.

(* connLimiter, for every configuration (any subnet rules, any prefix table,
   any allow-list) and every history of the manager's operations - the whole
   operation language, unbounded: no per-prefix and no per-subnet counter ever
   exceeds its configured cap.  (That a counter IS the number of open
   connections of that subnet: c03_subnet_cap below.) *)
Theorem c03_limiter_counts_within_caps : forall c ops,
  lim_inv c (lims (run c (init_state c) ops)).
Proof. intros c ops. apply run_lims. exact (init_limiter_inv c). Qed.
Print Assumptions c03_limiter_counts_within_caps.

(* the same for the limiter alone under arbitrary addConn / rmConn sequences
   (also unpaired ones) *)
Theorem c03_limiter_history : forall c ops, lim_inv c (fold_left (lstep c) ops (init_limiter c)).
Proof. exact limiter_history_inv. Qed.
Print Assumptions c03_limiter_history.

(* ---- history level: refinement to the abstract holders specification ----------------------
   Proved for EVERY finite history of the property's operation language:
   OpenConnection (any endpoint, incl. the allow-list retry), SetPeer (incl.
   transferAllowedToStandard with its deferred undo and the re-charge path of
   e9a9a54, accepted or refused at any step), OpenStream, SetProtocol,
   SetService, ReserveMemory / ReleaseMemory on connections, streams, nested
   spans and View scopes, BeginSpan, Done (repeated, on closed owners) and scope
   gc, and for every configuration with non-negative limits.
   [disciplined c ops] is exactly the property's own quantifier, decidable on the
   trace: config_wf (limits >= 0), op_shape (View* on scopes that can be viewed,
   Done on handles - what the wire language can express), and callers_run = None:
   Spec.caller_ok (release <= reserved on that scope, priorities 0..255, handles
   that were obtained, fresh ids) and Spec.no_overflow (outstanding memory < 2^63)
   at every step.
   [run_aT] is the abstract holder table the monitor computes: where Spec.astep
   lists several candidates (a refused SetPeer that had to take the connection
   off the allow-list) it is the one the model realises, which is the one the
   monitor picks (c03_trace_holds).
   [InvG] = the simulation invariant Inv (scope map vs holder table; I_num is
   "usage == sum of holders"), the link between the per-connection / per-stream
   records, distinct keys of the scope map, the reference-count bound RefInv
   (refCnt of a protocol / peer scope >= number of open holders pointing at it:
   why gc never deletes a scope somebody is charged to) and the shape AShape of
   the holder table. *)

Theorem c03_invariant : forall c ops, disciplined c ops ->
  InvG c (run c (init_state c) ops) (run_aT c (init_state c) astate0 ops).
Proof. exact history_full. Qed.
Print Assumptions c03_invariant.

(* one step, from any state satisfying the invariant (the induction step of the above) *)
Theorem c03_step_invariant : forall c st a o,
  cfg_ok c -> InvG c st a -> wf_opF c st a o -> InvG c (fst (step c st o)) (anextT c st a o).
Proof. exact step_full. Qed.
Print Assumptions c03_step_invariant.

(* gc(): a scope that IsUnused (refCnt <= 0, all six counters 0 - Memory counts
   since fix 4443cff) has no open holder charged to it, so deleting it, and the
   per-peer sub-scopes of deleted peers / protocols, changes no sum; the abstract
   holder table is untouched *)
Theorem c03_gc_preserves : forall c st a,
  cfg_ok c -> Inv c (scopes st) a -> Link st a -> nd (scopes st) -> RefInv (scopes st) a -> AShape a ->
  Inv c (scopes (gc st)) a /\ Link (gc st) a /\ nd (scopes (gc st)) /\ RefInv (scopes (gc st)) a.
Proof. exact gc_inv. Qed.
Print Assumptions c03_gc_preserves.

(* every scope's six counters equal the sum of what the open holders charged to it hold *)
Theorem c03_usage_is_sum_of_holders : forall c ops t, disciplined c ops ->
  use_of (scopes (run c (init_state c) ops)) t = usage_A (run_aT c (init_state c) astate0 ops) t.
Proof. exact usage_is_sum_full. Qed.
Print Assumptions c03_usage_is_sum_of_holders.

(* never negative, never above the scope's limit; the limit of a static scope is the configured one *)
Theorem c03_nonneg_within_limits : forall c ops t sc, disciplined c ops ->
  get (scopes (run c (init_state c) ops)) t = Some sc ->
  nonneg (s_use sc) /\ fits (s_lim sc) (s_use sc) /\ (is_handle t = false -> s_lim sc = limit_of c t).
Proof. exact within_limits_full. Qed.
Print Assumptions c03_nonneg_within_limits.

(* an operation that answers an error changes no counter of any scope and no
   holder: a refused reservation is undone in every scope, a refused SetProtocol
   / SetService / SetPeer leaves the connection / stream charged exactly once,
   to the scopes it was charged to before.  [transfers]: the one exception is a
   SetPeer that first has to move the connection to the standard scopes, see
   c03_reparent_refused_consistent *)
Theorem c03_refusal_is_noop : forall c st a o t,
  cfg_ok c -> InvG c st a -> wf_opF c st a o -> transfers c a o = false ->
  snd (step c st o) <> 0 ->
  match o with ORelease _ _ | ODone _ => False | _ => True end ->
  use_of (scopes (fst (step c st o))) t = use_of (scopes st) t /\
  anextT c st a o = a.
Proof. exact refusal_is_noop_full. Qed.
Print Assumptions c03_refusal_is_noop.

(* a refused SetPeer, in every state - also one that had to take the connection
   off the allow-list (transferAllowedToStandard), refused by system, by
   transient (deferred undo of the system charge) or afterwards by the peer
   scope: the invariant holds for the successor, i.e. every scope reads the sum
   of its holders with the connection charged exactly once to each scope of its
   parent set, and that set is what it was, or - only when a transfer was
   needed - {} (the documented intermediate state: charged to no scope but
   itself) or {system, transient} *)
Theorem c03_reparent_refused_consistent : forall c st a i q,
  cfg_ok c -> InvL c st a -> wf_op2 c st a (OSetPeer i q) -> snd (step c st (OSetPeer i q)) <> 0 ->
  let a' := anextT c st a (OSetPeer i q) in
  InvL c (fst (step c st (OSetPeer i q))) a' /\
  (a' = a \/ ((a_par a' (Conn i) = [] \/ a_par a' (Conn i) = [System; Transient]) /\ transfers c a (OSetPeer i q) = true)) /\
  NoDup (Conn i :: a_par a' (Conn i)).
Proof. exact reparent_refused_consistent. Qed.
Print Assumptions c03_reparent_refused_consistent.

(* ... and an accepted SetPeer - also on a connection that a refused transfer
   left charged to no scope (fix e9a9a54) - leaves it charged to the peer scope
   and to the system scope (the allow-listed one if it stays allow-listed) *)
Theorem c03_setpeer_ok_charges : forall c st a i q ac,
  cfg_ok c -> InvL c st a -> wf_op2 c st a (OSetPeer i q) -> nget (aconns a) i = Some ac ->
  snd (step c st (OSetPeer i q)) = 0 ->
  InvL c (fst (step c st (OSetPeer i q))) (anextT c st a (OSetPeer i q)) /\
  a_par (anextT c st a (OSetPeer i q)) (Conn i) =
    [Peer q; if ac_allow ac && ep_allowed_peer c q (ac_ep ac) then ASystem else System].
Proof. exact setpeer_ok_charges. Qed.
Print Assumptions c03_setpeer_ok_charges.

(* when every holder is closed or holds nothing, every scope reads zero *)
Theorem c03_release_all_zero : forall c ops t, disciplined c ops ->
  (forall y h, In (y, h) (holders (run_aT c (init_state c) astate0 ops)) -> h_dead h = true \/ h_own h = stat0) ->
  use_of (scopes (run c (init_state c) ops)) t = stat0.
Proof. exact release_all_zero_full. Qed.
Print Assumptions c03_release_all_zero.

(* the per-subnet limiter, both directions.  Along every history its counters ARE the
   numbers of open connections (per network prefix entry; per subnet rule and subnet): *)
Theorem c03_limiter_counts_are_open_connections : forall c ops, disciplined c ops ->
  LimCount c (lims (run c (init_state c) ops)) (open_ips (run_aT c (init_state c) astate0 ops) false).
Proof. intros c ops D. destruct (history_full c ops D) as (_ & _ & _ & _ & Ci & _). exact Ci. Qed.
Print Assumptions c03_limiter_counts_are_open_connections.

(* ... addConn is all-or-nothing: a refusal changes nothing at all ... *)
Theorem c03_limiter_refusal_changes_nothing : forall c st i inb usefd ip,
  limiter_add c (lims st) ip = None -> open_conn c st i inb usefd (Some ip) = (st, E_CAP).
Proof. intros c st i inb usefd ip H. unfold open_conn. rewrite H. reflexivity. Qed.
Print Assumptions c03_limiter_refusal_changes_nothing.

(* ... and it refuses an endpoint only when the network prefix that governs it, or one
   of its subnets under the subnet rules, is at its cap - counted over the connections
   that are open (hence: with room everywhere it admits, and when every connection is
   done it is empty and admits cap-many again).  Spec.cap_reached is what the monitor
   demands of every per-IP refusal of the implementation *)
Theorem c03_limiter_refuses_only_at_cap : forall c l a L,
  LimCount c l L -> limiter_add c l a = None -> cap_reached c L a = true.
Proof. exact limiter_add_refused. Qed.
Print Assumptions c03_limiter_refuses_only_at_cap.

(* "the number of simultaneously open connections from one IP subnet never
   exceeds the configured per-subnet cap": the limiter's counters ARE the numbers
   of open connections (LimCount is part of InvG), so whenever a connection with
   an IP endpoint is admitted, the open connections governed by the same network
   prefix - or, without one, those in the endpoint's subnet under every subnet
   rule -, the new one included, are within the cap (Spec.cap_ok counts them from
   the abstract state, i.e. from the history itself) *)
Theorem c03_subnet_cap : forall c ops i inb usefd ip, disciplined c (ops ++ [OOpenConn i inb usefd (Some ip)]) ->
  snd (step c (run c (init_state c) ops) (OOpenConn i inb usefd (Some ip))) = 0 ->
  cap_ok c (open_ips (run_aT c (init_state c) astate0 (ops ++ [OOpenConn i inb usefd (Some ip)])) false) ip = true.
Proof. exact subnet_cap_full. Qed.
Print Assumptions c03_subnet_cap.

(* an operation that answers the resource-limit sentinel was refused by a scope of
   its constraining chain that would exceed its limit, judged from the usage
   before the operation and the configured limit (for OpenConnection with an
   allow-listed endpoint: in the standard chain AND in the allow-listed chain;
   for a SetPeer that transfers: system, transient or the peer scope) *)
Theorem c03_limit_refusal_justified : forall c st a m o,
  cfg_ok c -> InvL c st a -> (forall x, ostat m x = use_of (scopes st) x) ->
  match o with OGC => True | _ => wf_op2 c st a o end ->
  snd (step c st o) = 1 -> refusal_justified c a m o = true.
Proof. exact just_step. Qed.
Print Assumptions c03_limit_refusal_justified.

(* "fails with an error wrapping the resource-limit sentinel": in every reachable state
   every operation of the model answers ok, or the sentinel (class 1), or - and only
   where the caller / the history explains it - scope-closed (ReserveMemory, BeginSpan on
   a closed scope or below a closed owner), a plain error (second SetPeer / SetProtocol /
   SetService, SetService before SetProtocol, negative size) or the per-IP cap
   (OpenConnection with an IP endpoint).  In particular OpenConnection, OpenStream and a
   first SetPeer / SetProtocol / SetService are refused ONLY with the sentinel, also after
   any number of gc steps.  The monitor demands exactly this of the implementation
   (Spec.answer_ok, part of mon_run) *)
Theorem c03_refused_only_with_sentinel : forall c st a o, cfg_ok c -> InvL c st a -> CapInv c st a ->
  match o with OGC => True | _ => wf_op2 c st a o end ->
  answer_ok c a o (snd (step c st o)) = true.
Proof. exact ans_step. Qed.
Print Assumptions c03_refused_only_with_sentinel.

(* THE monitor that is run on the implementation's traces - the whole of it:
   answer legality, choice among the candidate successors, usage == sum of
   holders, signs, limits, the priority threshold after every accepted
   ReserveMemory, the justification of every resource-limit refusal and the
   per-subnet cap against the open connections of the history - accepts every
   trace of the model *)
Theorem c03_trace_holds : forall c ops, disciplined c ops ->
  mon_run c astate0 [] 0 (model_trace c (init_state c) ops) = [].
Proof. exact monitor_accepts_full. Qed.
Print Assumptions c03_trace_holds.

(* the hypothesis is satisfiable: a history through every operation incl. gc with
   and without references held, one with a refused allow-list transfer followed
   by the re-charge, one with a View reservation kept across a gc *)
Example disciplined_nonvacuous :
  disciplined tour_cfg tour_ops /\ disciplined retry_cfg retry_ops /\ disciplined gc_cfg gc_ops.
Proof. unfold disciplined. vm_compute. repeat split; reflexivity. Qed.

(* ---- regression: histories that refuted the full statement before the repairs (it is
   c03_trace_holds now) ------------------------------------------------------------------------ *)

(* fixed in /repo by 4443cff, 540d954 and e9a9a54 (model re-transcribed): gc()
   no longer closes a peer scope that holds a View reservation; the allow-list
   retry keeps the limiter count, so the third connection of a /24 with prefix
   cap 2 is refused; a SetPeer after a refused allow-list transfer charges
   system and transient again *)
Example gc_memory_regression :
  mon_run gc_cfg astate0 [] 0 (model_trace gc_cfg (init_state gc_cfg) gc_ops) = [].
Proof. vm_compute. reflexivity. Qed.

Example allowlist_cap_regression :
  mon_run al_cfg astate0 [] 0 (model_trace al_cfg (init_state al_cfg) al_ops) = [] /\
  map (fun x => o_cls (snd x)) (model_trace al_cfg (init_state al_cfg) al_ops) = [0; 0; E_CAP].
Proof. vm_compute. split; reflexivity. Qed.

Example setpeer_retry_regression :
  mon_run retry_cfg astate0 [] 0 (model_trace retry_cfg (init_state retry_cfg) retry_ops) = [] /\
  map (fun x => o_cls (snd x)) (model_trace retry_cfg (init_state retry_cfg) retry_ops) = [0; 1; 1].
Proof. vm_compute. split; reflexivity. Qed.

(* ---- non-vacuity ------------------------------------------------------------------------------ *)
(* the hypotheses of the theorems are met by reachable non-trivial states: a
   history through every kind of operation (connection with memory attached to
   a peer, stream with protocol and service, nested spans, a refusal at an
   inner edge that is undone, a zero-byte reservation refused by the priority
   scaling, an owner closed under its spans, View reservations, gc with
   references held, repeated Done) is accepted by the monitor, with the error
   classes shown *)
Example tour_accepted :
  mon_run tour_cfg astate0 [] 0 (model_trace tour_cfg (init_state tour_cfg) tour_ops) = [] /\
  callers_run tour_cfg astate0 [] 0 (model_trace tour_cfg (init_state tour_cfg) tour_ops) = None /\
  map (fun x => o_cls (snd x)) (model_trace tour_cfg (init_state tour_cfg) tour_ops)
  = [0; 0; 0; 0; 0; 0; 0; 0; 0; 1; 0; 1; 0; 2; 0; 0; 0; 0; 0; 0; 0; 0; 0; 0; 0; 0].
Proof. vm_compute. repeat split. Qed.

(* the monitor rejects a trace in which a refused reservation left a charge behind *)
Example monitor_rejects_leftover :
  mon_run base_cfg astate0 [] 0
    [(OReserve System 10 255, mkObs 1 0 [mkEntry System (mkStat 10 0 0 0 0 0) 1 0])] <> [].
Proof. vm_compute. discriminate. Qed.

(* ... and one in which a connection is charged to transient but not to system *)
Example monitor_rejects_missing_edge :
  mon_run base_cfg astate0 [] 0
    [(OOpenConn 0 true false None,
      mkObs 0 0 [mkEntry (Conn 0) (mkStat 0 0 0 1 0 0) 0 0; mkEntry Transient (mkStat 0 0 0 1 0 0) 2 0])] <> [].
Proof. vm_compute. discriminate. Qed.

(* ... and a limit refusal that no scope justifies *)
(* ... a first SetProtocol of an open stream refused with "scope closed" (seeded m7) ... *)
Example monitor_rejects_closed_setprotocol :
  mon_run base_cfg astate0 [] 0
    [(OOpenStream 0 0 true,
      mkObs 0 0 [mkEntry (Stream 0) (mkStat 0 1 0 0 0 0) 0 0; mkEntry (Peer 0) (mkStat 0 1 0 0 0 0) 1 0;
                 mkEntry Transient (mkStat 0 1 0 0 0 0) 2 0; mkEntry System (mkStat 0 1 0 0 0 0) 4 0]);
     (OSetProto 0 0, mkObs 2 0 [])] = [ERR_PROPERTY; 1; CL_ANSWER; 2; 1].
Proof. vm_compute. reflexivity. Qed.

(* ... and an OpenConnection refused with an error that does not wrap the sentinel (seeded m8) *)
Example monitor_rejects_plain_error_openconn :
  mon_run base_cfg astate0 [] 0 [(OOpenConn 0 true true None, mkObs 3 0 [])] = [ERR_PROPERTY; 0; CL_ANSWER; 3; 1].
Proof. vm_compute. reflexivity. Qed.

(* ... a per-IP refusal while the endpoint's /56 and /48 have room (seeded m11) *)
Example monitor_rejects_cap_refusal_with_room :
  mon_run base_cfg astate0 [] 0
    [(OOpenConn 0 true true (Some (mkIp true 1)), mkObs 4 0 [])] = [ERR_PROPERTY; 0; CL_ANSWER; 4; 1].
Proof. vm_compute. reflexivity. Qed.

Example monitor_rejects_unjustified_refusal :
  mon_run base_cfg astate0 [] 0 [(OReserve System 10 255, mkObs 1 0 [])] <> [].
Proof. vm_compute. discriminate. Qed.

(* ======================================================================================
   CONCURRENT EXECUTIONS (Conc.v): any number of holders (connections / streams) over an
   arbitrary scope graph, each running operations whose atomic steps are the single-lock
   sections of scope.go / rcmgr.go (one check-and-add or one release on ONE scope), under
   EVERY schedule.  [Conc.run lim (Conc.init_cs hs) sched = Some st]: st is reached by the
   schedule without an int64 wrap (the no_overflow hypothesis of the sequential theorems).
   ====================================================================================== *)

(* (1) at every reachable state the usage of every scope is the sum of what the holders have
   charged to it so far, where an operation in flight counts on exactly the prefix of scopes
   it has charged and not yet undone / the suffix it has not yet released ([Conc.held] =
   committed part [Conc.base] + in-flight part), and each holder's share lies between its
   committed part and committed + everything the operation in flight may charge *)
Theorem c03c_usage_is_sum_inflight : forall lim hs sched st,
  (forall s, lim_ok (lim s)) -> forallb Conc.fresh hs = true ->
  Conc.run lim (Conc.init_cs hs) sched = Some st ->
  forall s, Conc.c_use st s = Conc.sum_held (Conc.c_hs st) s /\
            forall h, In h (Conc.c_hs st) ->
              nonneg (Conc.held h s) /\ stat_le (Conc.base h s) (Conc.held h s) /\
              stat_le (Conc.held h s) (stat_add (Conc.base h s) (Conc.inflight_max h s)).
Proof. exact Proofs_Conc.conc_usage_sum. Qed.
Print Assumptions c03c_usage_is_sum_inflight.

(* (2) no scope is below zero or above its limit at any instant, for every limit table *)
Theorem c03c_within_limits_always : forall lim hs sched st,
  (forall s, lim_ok (lim s)) -> forallb Conc.fresh hs = true ->
  Conc.run lim (Conc.init_cs hs) sched = Some st ->
  forall s, nonneg (Conc.c_use st s) /\ fits (lim s) (Conc.c_use st s).
Proof. exact Proofs_Conc.conc_within. Qed.
Print Assumptions c03c_within_limits_always.

(* (3) at quiescence (no operation in flight) the usage is exactly the sum over the holders
   charged to the scope - the formula of the sequential theorem *)
Theorem c03c_quiescent_exact : forall lim hs sched st,
  (forall s, lim_ok (lim s)) -> forallb Conc.fresh hs = true ->
  Conc.run lim (Conc.init_cs hs) sched = Some st -> Conc.quiescent st = true ->
  forall s, Conc.c_use st s = Conc.quiet_usage (Conc.holders_of st) s.
Proof. exact Proofs_Conc.conc_quiet. Qed.
Print Assumptions c03c_quiescent_exact.

(* (4) a refused operation (reservation or re-parenting) leaves no residue: while its charged
   prefix is being taken back the holder's own vector and edge list are those it had when the
   operation began, what it has charged beyond them is exactly the part of the prefix not yet
   taken back, and when the call returns (todo = []) nothing *)
Theorem c03c_refused_no_residue : forall lim hs sched st h todo k o e,
  (forall s, lim_ok (lim s)) -> forallb Conc.fresh hs = true ->
  Conc.run lim (Conc.init_cs hs) sched = Some st -> In h (Conc.c_hs st) ->
  Conc.h_ph h = Conc.Drop todo k (Some (o, e)) ->
  Conc.h_own h = o /\ Conc.h_edges h = e /\
  forall s, Conc.held h s =
            stat_add (stat_scale (Conc.cnt s (Conc.h_self h :: e)) o) (stat_scale (Conc.cnt s todo) (Conc.cdelta k)).
Proof. exact Proofs_Conc.refused_no_residue. Qed.
Print Assumptions c03c_refused_no_residue.

(* one atomic step of one holder, whatever the others are doing (the inductive step) *)
Theorem c03c_step_invariant : forall lim st io st',
  (forall s, lim_ok (lim s)) -> Proofs_Conc.cinv lim st -> Conc.gstep lim st io = Some st' -> Proofs_Conc.cinv lim st'.
Proof. exact Proofs_Conc.gstep_inv. Qed.
Print Assumptions c03c_step_invariant.

(* THE monitor of concurrent runs (case kind 5: every mid-flight sample within [0, limit] and
   between the sums of the per-holder lower and upper bounds; quiescent exactness) accepts every
   trace of the concurrent model: samples taken between the segments of any schedule *)
Theorem c03c_trace_holds : forall lim hs segs tail smp mid fin scopes,
  (forall s, lim_ok (lim s)) -> forallb Conc.fresh hs = true ->
  Conc.trace_samples lim (Conc.init_cs hs) segs = Some (smp, mid) ->
  Conc.run lim mid tail = Some fin -> Conc.quiescent fin = true ->
  Conc.mon_conc (Conc.model_case lim smp fin scopes) = [].
Proof. exact Proofs_Conc.conc_monitor_accepts. Qed.
Print Assumptions c03c_trace_holds.

(* the sample clause is monotone in the bounds: the wider per-worker bounds the harness computes
   for a sampling window are accepted whenever the instantaneous ones are *)
Theorem c03c_sample_bounds_monotone : forall k a l obs parts parts',
  Conc.mon_sample (Conc.mkSample k a l obs parts) = [] ->
  stat_le (Conc.sum_over fst parts') (Conc.sum_over fst parts) ->
  stat_le (Conc.sum_over snd parts) (Conc.sum_over snd parts') ->
  Conc.mon_sample (Conc.mkSample k a l obs parts') = [].
Proof. exact Proofs_Conc.mon_sample_weaken. Qed.
Print Assumptions c03c_sample_bounds_monotone.

(* non-vacuity: a reservation in flight is visible on the prefix it has charged (system reads
   8 + 5 while the peer scope still reads 8), the peer scope refuses, the undo runs edge by edge,
   and after the return nothing of the refused reservation is left *)
Example conc_prefix_visible :
  Witness_Conc.use_at Witness_Conc.ex_prefix 0%nat = Some [13; 0; 0; 0; 0; 0] /\
  Witness_Conc.use_at Witness_Conc.ex_prefix 1%nat = Some [8; 0; 0; 0; 0; 0] /\
  Witness_Conc.phase_at Witness_Conc.ex_refusal 1%nat =
    Some (Conc.Drop [0%nat; 11%nat] (KMem 5 255) (Some (stat0, [0%nat; 1%nat]))) /\
  Witness_Conc.use_at Witness_Conc.ex_returned 0%nat = Some [8; 0; 0; 0; 0; 0] /\
  Witness_Conc.use_at Witness_Conc.ex_returned 11%nat = Some [0; 0; 0; 0; 0; 0] /\
  Witness_Conc.phase_at Witness_Conc.ex_returned 1%nat = Some Conc.Idle.
Proof. vm_compute. repeat split; reflexivity. Qed.

(* the other interleaving: holder 1 reaches the peer scope first, holder 0 is the one refused *)
Example conc_other_interleaving :
  Witness_Conc.use_at Witness_Conc.ex_interleaved 0%nat = Some [5; 0; 0; 0; 0; 0] /\
  Witness_Conc.use_at Witness_Conc.ex_interleaved 1%nat = Some [5; 0; 0; 0; 0; 0] /\
  Witness_Conc.phase_at Witness_Conc.ex_interleaved 0%nat = Some Conc.Idle /\
  Witness_Conc.phase_at Witness_Conc.ex_interleaved 1%nat = Some Conc.Idle.
Proof. vm_compute. repeat split; reflexivity. Qed.

Example conc_case_accepted : option_map Conc.mon_conc Witness_Conc.ex_case = Some [].
Proof. vm_compute. reflexivity. Qed.

(* the monitor rejects: a sample above the limit (non-atomic check), a sample above what the
   holders can have charged (missing undo), a residue at quiescence *)
Example conc_monitor_rejects_over_limit :
  Conc.mon_sample (Conc.mkSample 6 0 (Witness_Conc.ex_lim 1) (mkStat 13 0 0 0 0 0)
                     [(mkStat 8 0 0 0 0 0, mkStat 8 0 0 0 0 0); (stat0, mkStat 5 0 0 0 0 0)])
  = [Conc.CL_CLIMIT; 6; 0; 13; 0; 0; 0; 0; 0].
Proof. vm_compute. reflexivity. Qed.

Example conc_monitor_rejects_unexplained_charge :
  Conc.mon_sample (Conc.mkSample 0 0 (Witness_Conc.ex_lim 0) (mkStat 13 0 0 0 0 0)
                     [(mkStat 8 0 0 0 0 0, mkStat 8 0 0 0 0 0); (stat0, stat0)]) <> [].
Proof. vm_compute. discriminate. Qed.

Example conc_monitor_rejects_residue :
  Conc.mon_conc (Conc.mkCase [] [(10%nat, mkStat 8 0 0 0 0 0, [0%nat; 1%nat]); (11%nat, stat0, [0%nat; 1%nat])]
                   [(0%nat, (0, 0), mkStat 13 0 0 0 0 0)]) <> [].
Proof. vm_compute. discriminate. Qed.

(* ---- per-peer sub-scopes: lookup-or-create is ONE atomic step (ConcReg.v) ------------------------
   protocolScope.getPeerScope / serviceScope.getPeerScope under s.Lock().  A step of the registry
   LTS keeps every binding, binds different keys to different sub-scopes, is a step of the LTS of
   Conc.v, and a SetProtocol / SetService beginning on an idle stream charges the stream to the
   sub-scope REGISTERED for its (protocol | service, peer) key *)
Theorem c03c_attach_uses_registered_subscope : forall lim st io st',
  Proofs_ConcReg.reg_ok (ConcReg.r_reg st) (ConcReg.r_next st) -> ConcReg.rstep lim st io = Some st' ->
  Proofs_ConcReg.reg_ok (ConcReg.r_reg st') (ConcReg.r_next st') /\
  (forall k x, ConcReg.rfind k (ConcReg.r_reg st) = Some x -> ConcReg.rfind k (ConcReg.r_reg st') = Some x) /\
  (exists o, Conc.gstep lim (ConcReg.r_cs st) (fst io, o) = Some (ConcReg.r_cs st')) /\
  (forall key outer drop rest, snd io = ConcReg.RAttach key outer drop rest ->
     ConcReg.is_idle (ConcReg.r_cs st) (fst io) = true ->
     exists id, ConcReg.rfind key (ConcReg.r_reg st') = Some id /\
                Conc.gstep lim (ConcReg.r_cs st) (fst io, Conc.OMove [outer; id] drop (id :: rest)) = Some (ConcReg.r_cs st')).
Proof. exact Proofs_ConcReg.rstep_spec. Qed.
Print Assumptions c03c_attach_uses_registered_subscope.

(* every schedule of the registry LTS: the usage invariant of Conc.v holds and no two keys share a
   sub-scope *)
Theorem c03c_one_subscope_per_key : forall lim hs first sched st,
  (forall s, lim_ok (lim s)) -> forallb Conc.fresh hs = true ->
  ConcReg.rrun lim (ConcReg.init_rs hs first) sched = Some st ->
  Proofs_Conc.cinv lim (ConcReg.r_cs st) /\
  (forall k1 k2 id, ConcReg.rfind k1 (ConcReg.r_reg st) = Some id -> ConcReg.rfind k2 (ConcReg.r_reg st) = Some id -> k1 = k2).
Proof. exact Proofs_ConcReg.reg_reach. Qed.
Print Assumptions c03c_one_subscope_per_key.

(* at quiescence the registered sub-scope of every (protocol | service, peer) key reports exactly the
   sum of the streams charged to it, within its limit *)
Theorem c03c_subscope_quiescent_exact : forall lim hs first sched st key id,
  (forall s, lim_ok (lim s)) -> forallb Conc.fresh hs = true ->
  ConcReg.rrun lim (ConcReg.init_rs hs first) sched = Some st -> Conc.quiescent (ConcReg.r_cs st) = true ->
  ConcReg.rfind key (ConcReg.r_reg st) = Some id ->
  Conc.c_use (ConcReg.r_cs st) id = Conc.quiet_usage (Conc.holders_of (ConcReg.r_cs st)) id /\
  nonneg (Conc.c_use (ConcReg.r_cs st) id) /\ fits (lim id) (Conc.c_use (ConcReg.r_cs st) id).
Proof. exact Proofs_ConcReg.reg_quiet. Qed.
Print Assumptions c03c_subscope_quiescent_exact.

(* non-vacuity: two streams of one peer attach to the same protocol at once; both are charged to the one
   registered sub-scope (scope 50), whose limit of 1 stream refuses the second; and the monitor rejects
   a registered sub-scope that under-reports (a stream charged to an orphan) *)
Example conc_registry_two_first_attaches :
  match ConcReg.rrun (fun s => match s with 50%nat => mkLimit 100 1 1 1 4 4 4 4 | _ => mkLimit 100 9 9 9 9 9 9 9 end)
          (ConcReg.mkRS (Conc.mkCS (fun s => match s with 10%nat | 11%nat => mkStat 0 1 0 0 0 0 | 1%nat => mkStat 0 2 0 0 0 0 | _ => stat0 end)
                           [Conc.mkCH 10 [1%nat] (mkStat 0 1 0 0 0 0) false Conc.Idle; Conc.mkCH 11 [1%nat] (mkStat 0 1 0 0 0 0) false Conc.Idle])
                        [] 50)
          [(0%nat, ConcReg.RAttach 7 2 [] [2%nat; 1%nat]); (1%nat, ConcReg.RAttach 7 2 [] [2%nat; 1%nat]);
           (0%nat, ConcReg.RPlain Conc.ODone); (1%nat, ConcReg.RPlain Conc.ODone); (0%nat, ConcReg.RPlain Conc.ODone); (1%nat, ConcReg.RPlain Conc.ODone)] with
  | Some st => (ConcReg.r_reg st, zstat (Conc.c_use (ConcReg.r_cs st) 50), zstat (Conc.c_use (ConcReg.r_cs st) 2),
                option_map Conc.h_ph (nth_error (Conc.c_hs (ConcReg.r_cs st)) 1))
  | None => ([], [], [], None)
  end = ([(7%nat, 50%nat)], [0; 1; 0; 0; 0; 0], [0; 2; 0; 0; 0; 0],
         Some (Conc.Drop [2%nat] (KStat (mkStat 0 1 0 0 0 0)) (Some (mkStat 0 1 0 0 0 0, [1%nat])))).
Proof. vm_compute. reflexivity. Qed.

Example conc_monitor_rejects_orphan_subscope :
  Conc.mon_conc (Conc.mkCase [] [(10%nat, mkStat 0 1 0 0 0 0, [1%nat; 50%nat; 2%nat]); (11%nat, mkStat 0 1 0 0 0 0, [1%nat; 50%nat; 2%nat])]
                   [(50%nat, (8, 7), mkStat 0 1 0 0 0 0)]) <> [].
Proof. vm_compute. discriminate. Qed.

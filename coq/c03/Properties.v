(* placeholder while the pipeline is brought up; replaced by the theorems *)
From Verif Require Import c03.Spec.

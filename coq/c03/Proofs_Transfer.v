(* C03 — transferAllowedToStandard: the connection is released from every
   current edge (the allow-listed pair, or nothing after an earlier refused
   transfer), then charged to system and to transient, with the deferred undo
   of the system charge when transient refuses. *)
From Coq Require Import List ZArith Bool Arith Lia.
From Verif Require Import lib.Wire c03.Int64 c03.Model c03.Spec c03.Proofs_Int64 c03.Proofs_Base
     c03.Proofs_Sum c03.Proofs_Reach c03.Proofs_Link c03.Proofs_Targets c03.Proofs_Frames c03.Proofs_Frames2
     c03.Proofs_Frames3 c03.Proofs_Kill c03.Proofs_OpsMem c03.Proofs_Done c03.Proofs_OpsDone c03.Proofs_OpsNew
     c03.Proofs_OpsOpen c03.Proofs_Repar c03.Proofs_Repar2 c03.Proofs_Move c03.Proofs_Attach.
Import ListNotations.
Local Open Scope Z_scope.

Definition repar (a : astate) (s : sid) (h : holder) (P : list sid) : list (sid * holder) :=
  hset (holders a) s (mkHolder (h_own h) P (h_chain h) (h_dead h)).

Lemma stat_add_cancel_r : forall u v w, stat_add u w = stat_add v w -> u = v.
Proof. intros [] [] [] H. unfold stat_add in H. injection H; intros. f_equal; lia. Qed.

Lemma stat_le_add : forall u v w, nonneg w -> stat_add u w = v -> stat_le u v.
Proof. intros [] [] [] N H. unfold stat_add in H. injection H; intros. subst. stat_crush. Qed.

(* ---- phase 1: release from every current edge, clear the edge list ------------------ *)
Lemma transfer_release : forall c m a aE i h,
  Inv c m a -> hget (holders a) (Conn i) = Some h ->
  holders aE = repar a (Conn i) h [] ->
  let stt := use_of m (Conn i) in
  let m2 := upd (uncharge_dec (edges_of m (Conn i)) (KStat stt) m) (Conn i) (fun sc => set_edges sc []) in
  Inv c m2 aE /\ edges_of m2 (Conn i) = [] /\
  (forall x, stat_add (use_of m2 x) (stat_scale (countb x (h_par h)) stt) = use_of m x).
Proof.
  intros c m a aE i h I G HaE stt m2. pose proof (I_wf c m a I) as W.
  set (s := Conn i) in *.
  assert (Hl : leaf s = true) by reflexivity. assert (Hs : is_handle s = true) by reflexivity.
  destruct (I_handle c m a I s h G Hs) as (sc & Gm & Pd & Pc & Pe & Pl). cbn [leaf s] in Pe.
  assert (Ee : edges_of m s = h_par h) by (unfold edges_of; rewrite Gm; exact Pe).
  assert (Kn : known m a s) by (unfold known; rewrite Hs, G; discriminate).
  assert (Hk : kind_ok (KStat stt)) by (apply kind_ok_use, (I_good c m a I)).
  assert (Nst : nonneg stt) by (apply use_nonneg, (I_good c m a I)).
  set (m1 := uncharge_dec (edges_of m s) (KStat stt) m) in *.
  assert (H1 : (forall x, shape_of m1 x = shape_of m x) /\ all_good m1 /\
               (forall x, stat_add (use_of m1 x) (stat_scale (countb x (h_par h)) stt) = use_of m x)).
  { unfold m1. rewrite Ee. destruct (h_dead h) eqn:D.
    - assert (Z : stt = stat0) by (apply (dead_use_zero c m a s I Hs); unfold a_dead; rewrite G; exact D).
      rewrite Z. destruct (uncharge_dec_zero (h_par h) m (I_good c m a I)) as (G1 & S1 & U1).
      split; [exact S1|]. split; [exact G1|]. intros x. rewrite U1, stat_scale_stat0, stat_add_0_r. reflexivity.
    - assert (Da : a_dead a s = false) by (unfold a_dead; rewrite G; exact D).
      assert (Rt : areach a s = s :: h_par h).
      { rewrite (areach_root a s (rp_chain_s a s h W Hl G)), Da, (a_par_leaf a s h Hl G). reflexivity. }
      destruct (W_leaf a W s h G Hl) as (_ & Nd & _).
      assert (Hlv : all_live m (h_par h)).
      { intros e He. apply (reach_live c m a s I Kn). rewrite Rt. right. exact He. }
      assert (Hle : forall e, In e (h_par h) -> stat_le (kdelta (KStat stt)) (use_of m e)).
      { intros e He. cbn [kdelta]. unfold stt. rewrite !(I_num c m a I).
        apply (usage_ge_through a s h W Hs G D). rewrite Rt. right. exact He. }
      destruct (uncharge_dec_exact (h_par h) (KStat stt) m Hk (I_good c m a I) Nd Hlv Hle) as (S1 & G1 & U1).
      split; [exact S1|]. split; [exact G1|]. intros x. rewrite U1, (stat_sub_count _ _ x _ Nd). cbn [kdelta].
      generalize (use_of m x) (stat_scale (countb x (h_par h)) stt). intros [] [].
      unfold stat_add, stat_sub; cbn [Model.mem Model.sin Model.sout Model.cin Model.cout Model.fd]. f_equal; lia. }
  destruct H1 as (S1 & G1 & U1).
  destruct (shape_get m m1 s sc (S1 s) Gm) as (sc1 & Gs1 & Q1 & Q2 & Q3 & Q4).
  assert (Gm2 : get m2 s = Some (set_edges sc1 [])) by (unfold m2; rewrite get_upd, sid_eqb_refl, Gs1; reflexivity).
  split; [|split].
  - apply (Inv_move c m m2 a aE s h [] [] (h_par h) sc (set_edges sc1 []) I Hl G HaE); try assumption; try reflexivity.
    + constructor.
    + intros p [].
    + intros _ p [].
    + intros y Hne. unfold m2. rewrite upd_edges_shape_other by exact Hne. apply S1.
    + unfold m2. apply upd_edges_good, G1.
    + intros x. cbn [countb]. lia.
    + intros x. unfold m2. rewrite upd_edges_use. cbn [countb]. rewrite stat_scale_0, stat_add_0_r. apply U1.
  - unfold edges_of. rewrite Gm2. reflexivity.
  - intros x. unfold m2. rewrite upd_edges_use. apply U1.
Qed.

(* ---- phase 2: charge system, then transient; undo system when transient refuses ------ *)
Lemma transfer_charge : forall c m2 aE aS s hE stt,
  cfg_ok c -> Inv c m2 aE -> leaf s = true -> hget (holders aE) s = Some hE -> h_par hE = [] ->
  holders aS = hset (holders aE) s (mkHolder (h_own hE) [System; Transient] (h_chain hE) (h_dead hE)) ->
  stt = use_of m2 s ->
  mem (use_of m2 System) + mem stt <= max_int64 -> mem (use_of m2 Transient) + mem stt <= max_int64 ->
  match charge_one System (KStat stt) m2 with
  | inr _ => True
  | inl m3 =>
      match charge_one Transient (KStat stt) (incref m3 System) with
      | inr _ => let m' := decref (uncharge_one System (KStat stt) (incref m3 System)) System in
                 Inv c m' aE /\ (forall x, shape_of m' x = shape_of m2 x) /\ (forall x, use_of m' x = use_of m2 x)
      | inl m5 => let m' := upd (incref m5 Transient) s (fun sc => set_edges sc [System; Transient]) in
                  Inv c m' aS /\ edges_of m' s = [System; Transient] /\
                  (forall x, use_of m' x = stat_add (use_of m2 x) (stat_scale (countb x [System; Transient]) stt))
      end
  end.
Proof.
  intros c m2 aE aS s hE stt LO I Hl G Hp HaS Es Ov1 Ov2.
  assert (Hs : is_handle s = true) by (destruct s; try discriminate; reflexivity).
  assert (Hk : kind_ok (KStat stt)) by (rewrite Es; apply kind_ok_use, (I_good c m2 aE I)).
  assert (Nst : nonneg stt) by (rewrite Es; apply use_nonneg, (I_good c m2 aE I)).
  destruct (charge_one System (KStat stt) m2) as [m3|e1] eqn:C1; [|exact Logic.I].
  destruct (charge_one_count System (KStat stt) m2 m3 Hk (I_good c m2 aE I) Ov1 C1) as (D1 & S3 & G3 & U3).
  set (m4 := incref m3 System).
  assert (S4 : forall x, shape_of m4 x = shape_of m2 x) by (intros x; unfold m4; rewrite incref_shape; apply S3).
  assert (G4 : all_good m4) by (apply incref_good, G3).
  assert (U4 : forall x, use_of m4 x = stat_add (use_of m2 x) (stat_scale (countb x [System]) stt))
    by (intros x; unfold m4; rewrite incref_use; apply U3).
  destruct (charge_one Transient (KStat stt) m4) as [m5|e2] eqn:C2.
  - (* both charged *)
    assert (Ov2' : mem (use_of m4 Transient) + mem (kdelta (KStat stt)) <= max_int64).
    { rewrite U4. cbn [countb sid_eqb kdelta]. cbn [Z.add]. rewrite stat_scale_0, stat_add_0_r. exact Ov2. }
    destruct (charge_one_count Transient (KStat stt) m4 m5 Hk G4 Ov2' C2) as (D2 & S5 & G5 & U5).
    set (m6 := incref m5 Transient).
    assert (S6 : forall x, shape_of m6 x = shape_of m2 x) by (intros x; unfold m6; rewrite incref_shape, S5; apply S4).
    destruct (I_handle c m2 aE I s hE G Hs) as (sc & Gm & Pd & Pc & Pe & Pl).
    destruct (shape_get m2 m6 s sc (S6 s) Gm) as (sc6 & G6s & Q1 & Q2 & Q3 & Q4).
    cbv zeta. fold m6.
    assert (Gm' : get (upd m6 s (fun sc0 => set_edges sc0 [System; Transient])) s = Some (set_edges sc6 [System; Transient]))
      by (rewrite get_upd, sid_eqb_refl, G6s; reflexivity).
    assert (Uf : forall x, use_of (upd m6 s (fun sc0 => set_edges sc0 [System; Transient])) x
                 = stat_add (use_of m2 x) (stat_scale (countb x [System; Transient]) stt)).
    { intros x. rewrite upd_edges_use. unfold m6. rewrite incref_use, U5, U4. cbn [countb kdelta].
      generalize (use_of m2 x) stt (if sid_eqb System x then 1 else 0) (if sid_eqb Transient x then 1 else 0).
      intros [] [] n1 n2. unfold stat_add, stat_scale; cbn [Model.mem Model.sin Model.sout Model.cin Model.cout Model.fd]. f_equal; lia. }
    split; [|split; [unfold edges_of; rewrite Gm'; reflexivity | exact Uf]].
    apply (Inv_move c m2 _ aE aS s hE [System; Transient] [System; Transient] [] sc (set_edges sc6 [System; Transient]) I Hl G HaS);
      try assumption; try reflexivity.
    + repeat constructor; cbn; intuition discriminate.
    + intros p [<-|[<-|[]]]; reflexivity.
    + intros _ p Hp'. assert (Hps : p <> s) by (intros ->; destruct Hp' as [<-|[<-|[]]]; discriminate).
      apply (shape_present m2 _ p); [rewrite upd_edges_shape_other by exact Hps; apply S6|].
      destruct (I_base c m2 aE I) as (B1 & B2 & _). destruct Hp' as [<-|[<-|[]]]; assumption.
    + intros y Hne. rewrite upd_edges_shape_other by exact Hne. apply S6.
    + apply upd_edges_good. unfold m6. apply incref_good, G5.
    + intros x. rewrite Hp. cbn [countb]. lia.
    + intros x. rewrite Uf, <- Es. cbn [countb]. rewrite stat_scale_0, stat_add_0_r. reflexivity.
  - (* transient refused: the deferred undo *)
    assert (D4 : is_done m4 System = false) by (rewrite (is_done_shape m4 m2 System (S4 System)); exact D1).
    assert (Le : stat_le (kdelta (KStat stt)) (use_of m4 System)).
    { rewrite U4. cbn [countb sid_eqb kdelta]. pose proof (use_nonneg m2 System (I_good c m2 aE I)) as N.
      revert N Nst. generalize (use_of m2 System) stt. intros [] [] N Nst. unfold nonneg, stat_le, stat_add, stat_scale in *.
      cbn [Model.mem Model.sin Model.sout Model.cin Model.cout Model.fd] in *. repeat split; lia. }
    destruct (uncharge_one_count System (KStat stt) m4 Hk G4 D4 Le) as (S5 & G5 & U5).
    cbv zeta. fold m4.
    assert (Sf : forall x, shape_of (decref (uncharge_one System (KStat stt) m4) System) x = shape_of m2 x)
      by (intros x; rewrite decref_shape, S5; apply S4).
    assert (Uf : forall x, use_of (decref (uncharge_one System (KStat stt) m4) System) x = use_of m2 x).
    { intros x. rewrite decref_use. pose proof (U5 x) as E. rewrite U4 in E. cbn [kdelta] in E.
      apply (stat_add_cancel_r _ _ _ E). }
    split; [|split; assumption].
    apply (Inv_extends c m2 _ aE LO I). apply extends_same; assumption.
Qed.

(* ---- transferAllowedToStandard as a whole ------------------------------------------------- *)
Lemma transfer_inv : forall c m a aE aS i h,
  cfg_ok c -> Inv c m a -> hget (holders a) (Conn i) = Some h ->
  holders aE = repar a (Conn i) h [] -> holders aS = repar a (Conn i) h [System; Transient] ->
  novf m (mem (use_of m (Conn i))) ->
  let '(m', e) := transfer_allowed m i in
  (forall x, x <> System -> x <> Transient -> ~ In x (h_par h) -> use_of m' x = use_of m x) /\
  match e with
  | Some _ => Inv c m' aE /\ edges_of m' (Conn i) = []
  | None => Inv c m' aS /\ edges_of m' (Conn i) = [System; Transient]
  end.
Proof.
  intros c m a aE aS i h LO I G HaE HaS Ov.
  pose proof (transfer_release c m a aE i h I G HaE) as P1. cbv zeta in P1.
  unfold transfer_allowed. fold (uncharge_dec (edges_of m (Conn i)) (KStat (use_of m (Conn i))) m).
  set (stt := use_of m (Conn i)) in *.
  set (m2 := upd (uncharge_dec (edges_of m (Conn i)) (KStat stt) m) (Conn i) (fun sc => set_edges sc [])) in *.
  destruct P1 as (I2 & E2 & U2).
  assert (Nst : nonneg stt) by (apply use_nonneg, (I_good c m a I)).
  assert (Le2 : forall x, mem (use_of m2 x) <= mem (use_of m x)).
  { intros x. pose proof (U2 x) as E. apply stat_le_add in E; [apply E|].
    apply stat_scale_nonneg; [apply countb_nonneg | exact Nst]. }
  assert (Keep2 : forall x, ~ In x (h_par h) -> use_of m2 x = use_of m x).
  { intros x Hx. pose proof (U2 x) as E. rewrite (countb_notin x (h_par h) Hx), stat_scale_0, stat_add_0_r in E. exact E. }
  assert (Ns : ~ In (Conn i) (h_par h)).
  { intros X. destruct (W_leaf a (I_wf c m a I) (Conn i) h G eq_refl) as (_ & _ & St). apply St in X. discriminate. }
  assert (Es : stt = use_of m2 (Conn i)) by (symmetry; apply Keep2, Ns).
  set (hE := mkHolder (h_own h) [] (h_chain h) (h_dead h)).
  assert (GE : hget (holders aE) (Conn i) = Some hE) by (rewrite HaE; unfold repar; rewrite hget_hset, sid_eqb_refl; reflexivity).
  assert (HaS' : holders aS = hset (holders aE) (Conn i) (mkHolder (h_own hE) [System; Transient] (h_chain hE) (h_dead hE))).
  { rewrite HaS, HaE. unfold repar. rewrite hset_hset. reflexivity. }
  pose proof (transfer_charge c m2 aE aS (Conn i) hE stt LO I2 eq_refl GE eq_refl HaS' Es) as P2.
  specialize (P2 ltac:(pose proof (Le2 System); pose proof (Ov System); lia)
                 ltac:(pose proof (Le2 Transient); pose proof (Ov Transient); lia)).
  destruct (charge_one System (KStat stt) m2) as [m3|e1].
  2:{ split; [intros x _ _ Hx; apply Keep2, Hx | split; assumption]. }
  destruct (charge_one Transient (KStat stt) (incref m3 System)) as [m5|e2]; cbv zeta in P2.
  - destruct P2 as (IS & ES & US). split; [|split; assumption].
    intros x H1 H2 Hx. rewrite US. cbn [countb].
    apply sid_eqb_neq in H1, H2. rewrite (sid_eqb_sym_false _ _ H1), (sid_eqb_sym_false _ _ H2).
    cbn [Z.add]. rewrite stat_scale_0, stat_add_0_r. apply Keep2, Hx.
  - destruct P2 as (IE & SE & UE). split; [intros x _ _ Hx; rewrite UE; apply Keep2, Hx|]. split; [exact IE|].
    rewrite <- E2. apply edges_of_shape, SE.
Qed.

(* ---- a reservation of nothing is never refused by an open scope ----------------------------- *)
Lemma rc_reserve_zero : forall lim u, lim_ok lim -> nonneg u -> fits lim u ->
  exists u', rc_reserve (KStat stat0) lim u = inl u'.
Proof.
  intros lim u L N F. destruct L as (L1 & L2 & L3 & L4 & L5 & L6 & L7 & L8).
  destruct N as (N1 & N2 & N3 & N4 & N5 & N6). destruct F as (F1 & F2 & F3 & F4 & F5 & F6 & F7 & F8).
  cbn [rc_reserve stat0 Model.mem Model.sin Model.sout Model.cin Model.cout Model.fd].
  destruct (reserve_memory lim u 0 255) as [u1|e] eqn:R.
  2:{ exfalso. unfold reserve_memory in R. rewrite check_memory_spec_l in R by (unfold max_int64 in *; lia).
      destruct (l_mem lim =? max_int64); [discriminate|].
      replace (mem u + 0 <=? mem_threshold (l_mem lim) 255) with true in R; [discriminate|].
      symmetry. apply Z.leb_le. unfold mem_threshold. replace (l_mem lim * (1 + 255)) with (l_mem lim * 256) by lia.
      rewrite Z.div_mul by lia. lia. }
  assert (E1 : sin u1 = sin u /\ sout u1 = sout u /\ cin u1 = cin u /\ cout u1 = cout u /\ fd u1 = fd u).
  { unfold reserve_memory in R. destruct (check_memory lim u 0 255); inversion R; cbn; repeat split; reflexivity. }
  destruct E1 as (A1 & A2 & A3 & A4 & A5).
  unfold add_streams. change (0 >? 0) with false. cbn [andb]. rewrite A1, A2.
  destruct (sin u + 0 + sout u + 0 >? l_s lim) eqn:E; [apply Z.gtb_lt in E; lia|].
  unfold add_conns. change (0 >? 0) with false. cbn [andb Model.mem Model.sin Model.sout Model.cin Model.cout Model.fd].
  rewrite A3, A4.
  destruct (cin u + 0 + cout u + 0 >? l_c lim) eqn:E2; [apply Z.gtb_lt in E2; lia|].
  eexists. reflexivity.
Qed.

Lemma charge_zero_ok : forall t m sc, get m t = Some sc -> s_done sc = false -> good sc ->
  exists m', charge_one t (KStat stat0) m = inl m'.
Proof.
  intros t m sc G D (L & N & F). unfold charge_one. rewrite G, D.
  destruct (rc_reserve_zero (s_lim sc) (s_use sc) L N F) as (u' & R). rewrite R. eexists. reflexivity.
Qed.

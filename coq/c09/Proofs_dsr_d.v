(* C09 — refinement of the datastore-backed model, part 2.
   One record of the ds book read as a finite map addr |-> entry: sort, removeExpired,
   deleteInPlace (the swap-with-last loop), updateExisting and the setAddrs loop, clean. *)
From Coq Require Import List ZArith Bool Lia Permutation.
From Verif Require Import lib.Wire gen.Consts_c09 c09.Abs c09.Model_mem c09.Model_ds c09.Spec
  c09.Proofs_mem c09.Proofs_ds c09.Proofs_dsr_a.
Import ListNotations.
Local Open Scope Z_scope.

Definition lv (u : Z) (e : dent) : bool := u <? dexp e.

(* ---- lookup in a record ----------------------------------------------------------------- *)
Lemma find_de_cons x e r : find_de x (e :: r) = if da e =? x then Some e else find_de x r.
Proof. reflexivity. Qed.

Lemma find_de_some x l e : find_de x l = Some e -> In e l /\ da e = x.
Proof. unfold find_de. intros H. apply find_some in H. now rewrite Z.eqb_eq in H. Qed.

Lemma find_de_none x l : find_de x l = None -> forall e, In e l -> da e <> x.
Proof. unfold find_de. intros H e He. apply Z.eqb_neq. exact (find_none _ _ H e He). Qed.

Lemma find_de_in l e : NoDup (map da l) -> In e l -> find_de (da e) l = Some e.
Proof.
  induction l as [|y r IH]; intros Hn He; [destruct He|]. rewrite find_de_cons.
  cbn [map] in Hn. apply NoDup_cons_iff in Hn. destruct Hn as [Hy Hr].
  destruct (Z.eqb_spec (da y) (da e)) as [E|E].
  - destruct He as [->|He]; [reflexivity|]. exfalso. apply Hy. rewrite E. now apply in_map.
  - destruct He as [->|He]; [congruence|now apply IH].
Qed.

Lemma find_de_ext l l' x :
  NoDup (map da l) -> NoDup (map da l') -> (forall e, In e l <-> In e l') -> find_de x l = find_de x l'.
Proof.
  intros H1 H2 Hio. destruct (find_de x l) as [e|] eqn:F.
  - apply find_de_some in F. destruct F as [Hin <-]. symmetry. apply find_de_in; [exact H2|now apply Hio].
  - destruct (find_de x l') as [e'|] eqn:F'; [|reflexivity]. apply find_de_some in F'. destruct F' as [Hin <-].
    apply Hio in Hin. now rewrite (find_de_in l e' H1 Hin) in F.
Qed.

Lemma find_de_perm l l' x : Permutation l l' -> NoDup (map da l) -> find_de x l = find_de x l'.
Proof.
  intros HP Hn. apply find_de_ext; [exact Hn| |].
  - apply (Permutation_NoDup (Permutation_map da HP) Hn).
  - intros e. split; [apply Permutation_in; exact HP|apply Permutation_in; now apply Permutation_sym].
Qed.

Lemma find_de_filter (f : dent -> bool) x l :
  NoDup (map da l) ->
  find_de x (filter f l) = match find_de x l with Some e => if f e then Some e else None | None => None end.
Proof.
  induction l as [|y r IH]; intros Hn; cbn [filter]; [reflexivity|].
  cbn [map] in Hn. apply NoDup_cons_iff in Hn. destruct Hn as [Hy Hr].
  rewrite (find_de_cons x y r). destruct (Z.eqb_spec (da y) x) as [E|E].
  - destruct (f y); [rewrite find_de_cons; now destruct (Z.eqb_spec (da y) x)|]. rewrite (IH Hr).
    destruct (find_de x r) as [e'|] eqn:F; [|reflexivity]. exfalso. apply Hy.
    apply find_de_some in F. destruct F as [Hin Ha]. rewrite E, <- Ha. now apply in_map.
  - destruct (f y); [rewrite find_de_cons; destruct (Z.eqb_spec (da y) x); [congruence|]|]; now apply IH.
Qed.

Lemma find_de_map_keep (f : dent -> dent) x l :
  (forall e, da (f e) = da e) -> find_de x (map f l) = option_map f (find_de x l).
Proof.
  intros Hf. induction l as [|y r IH]; cbn [map]; [reflexivity|]. rewrite !find_de_cons, Hf.
  destruct (da y =? x); [reflexivity|exact IH].
Qed.

Lemma find_de_app x l1 l2 :
  find_de x (l1 ++ l2) = match find_de x l1 with Some e => Some e | None => find_de x l2 end.
Proof.
  induction l1 as [|y r IH]; cbn [app]; [reflexivity|]. rewrite !find_de_cons.
  destruct (da y =? x); [reflexivity|exact IH].
Qed.

Lemma find_de_zmem x l : (exists e, find_de x l = Some e) <-> zmem x (map da l) = true.
Proof.
  unfold zmem. rewrite existsb_exists. split.
  - intros [e F]. apply find_de_some in F. exists x. split; [|apply Z.eqb_refl].
    destruct F as [Hin <-]. now apply in_map.
  - intros [y [Hy E]]. apply Z.eqb_eq in E. subst y. apply in_map_iff in Hy. destruct Hy as [e [Ha He]].
    destruct (find_de x l) as [e'|] eqn:F; [now exists e'|]. exfalso. exact (find_de_none _ _ F e He Ha).
Qed.

(* ---- sort.Slice -------------------------------------------------------------------------- *)
Lemma ins_exp_perm x l : Permutation (ins_exp x l) (x :: l).
Proof.
  induction l as [|y t IH]; cbn [ins_exp]; [apply Permutation_refl|].
  destruct (dexp y <? dexp x); [|apply Permutation_refl].
  apply (Permutation_trans (perm_skip y IH)). apply perm_swap.
Qed.

Lemma sort_exp_perm l : Permutation (sort_exp l) l.
Proof.
  unfold sort_exp. induction l as [|x t IH]; cbn [fold_right]; [constructor|].
  apply (Permutation_trans (ins_exp_perm x _)). now constructor.
Qed.

Lemma perm_filter {A} (f : A -> bool) l l' : Permutation l l' -> Permutation (filter f l) (filter f l').
Proof.
  induction 1 as [|x l l' H IH|x y l|l l' l'' H1 IH1 H2 IH2]; cbn [filter].
  - constructor.
  - destruct (f x); [now constructor|exact IH].
  - destruct (f x), (f y); try apply Permutation_refl. apply perm_swap.
  - now apply (Permutation_trans IH1).
Qed.

(* ---- removeExpired on a sorted record = the filter -------------------------------------------- *)
Lemma remove_expired_filter l u : sorted_exp l -> remove_expired l u = filter (lv u) l.
Proof.
  induction l as [|x t IH]; cbn [remove_expired sorted_exp filter]; [reflexivity|]. intros [H1 H2].
  unfold lv at 1. destruct (Z.ltb_spec u (dexp x)); [|now apply IH].
  f_equal. symmetry. apply filter_id. intros y Hy. unfold lv. apply Z.ltb_lt. specialize (H1 y Hy). lia.
Qed.

Lemma sorted_filter (f : dent -> bool) l : sorted_exp l -> sorted_exp (filter f l).
Proof.
  induction l as [|x t IH]; cbn [sorted_exp filter]; [tauto|]. intros [H1 H2].
  destruct (f x); [|now apply IH]. cbn [sorted_exp]. split; [|now apply IH].
  intros y Hy. apply filter_In in Hy. now apply H1.
Qed.

(* ---- addrsRecord.clean ------------------------------------------------------------------------ *)
(* on the object an operation has just modified (dirty): sorted, the live entries, the certified
   record kept iff an address is left *)
Lemma clean_dirty_spec now p l c :
  let r1 := fst (clean now (mkDR p l c true)) in
  dp r1 = p /\ Permutation (daddrs r1) (filter (lv (unix now)) l) /\ sorted_exp (daddrs r1) /\
  dcert r1 = match daddrs r1 with [] => None | _ => c end.
Proof.
  cbn zeta. unfold clean. cbn [ddirty daddrs dp dcert negb andb orb].
  destruct (Nat.eqb (length l) 0) eqn:N.
  - apply Nat.eqb_eq in N. destruct l; [|discriminate]. cbn. repeat split; constructor.
  - cbn [fst dp daddrs dcert].
    set (l1 := if Nat.ltb 1 (length l) then sort_exp l else l).
    assert (P1 : Permutation l1 l) by (unfold l1; destruct (Nat.ltb 1 (length l)); [apply sort_exp_perm|apply Permutation_refl]).
    assert (S1 : sorted_exp l1).
    { unfold l1. destruct (Nat.ltb_spec 1 (length l)); [apply sort_exp_sorted|apply sorted_short; lia]. }
    rewrite (remove_expired_filter l1 _ S1). repeat split.
    + now apply perm_filter.
    + now apply sorted_filter.
Qed.

(* on a stored (sorted, non-empty) record *)
Lemma all_lv_sorted u x t : sorted_exp (x :: t) -> lv u x = true -> filter (lv u) (x :: t) = x :: t.
Proof.
  intros [H1 _] Hx. apply filter_id. intros y [<-|Hy]; [exact Hx|]. unfold lv in *. apply Z.ltb_lt in Hx.
  apply Z.ltb_lt. specialize (H1 y Hy). lia.
Qed.

Lemma filter_len_le {A} (f : A -> bool) l : (length (filter f l) <= length l)%nat.
Proof. induction l as [|x t IH]; cbn [filter length]; [lia|]. destruct (f x); cbn [length]; lia. Qed.

Lemma clean_stored_spec now r :
  sorted_exp (daddrs r) -> daddrs r <> [] -> ddirty r = false ->
  let L := filter (lv (unix now)) (daddrs r) in
  let '(r1, chg) := clean now (undirty r) in
  r1 = mkDR (dp r) L (match L with [] => None | _ => dcert r end) false /\
  (chg = false -> L = daddrs r).
Proof.
  intros Hs Hne Hd. cbn zeta. unfold clean, has_expired. cbn [undirty ddirty daddrs dp dcert negb andb orb].
  destruct (daddrs r) as [|x t] eqn:D; [congruence|]. clear Hne.
  destruct (Z.leb_spec (dexp x) (unix now)) as [Hx|Hx]; cbn [negb].
  - cbn [length Nat.eqb]. rewrite (remove_expired_filter _ _ Hs). split.
    + reflexivity.
    + intros E. apply negb_false_iff, Nat.eqb_eq in E. exfalso.
      cbn [filter] in E. unfold lv at 1 in E. replace (unix now <? dexp x) with false in E by (symmetry; apply Z.ltb_ge; lia).
      pose proof (filter_len_le (lv (unix now)) t). cbn [length] in E. lia.
  - assert (Hl : lv (unix now) x = true) by (unfold lv; apply Z.ltb_lt; lia).
    rewrite (all_lv_sorted _ _ _ Hs Hl). split; [|reflexivity]. unfold undirty. rewrite D. reflexivity.
Qed.

(* ---- deleteInPlace: the swap-with-last loop removes exactly the named addresses ----------------- *)
Definition keep (del : list Z) (e : dent) : bool := negb (zmem (da e) del).

Lemma nth_de_app_mid pre x rest : nth_de (length pre) (pre ++ x :: rest) = x.
Proof. unfold nth_de. rewrite app_nth2 by lia. now rewrite Nat.sub_diag. Qed.

Lemma set_nth_app_mid pre x y rest : set_nth (length pre) y (pre ++ x :: rest) = pre ++ y :: rest.
Proof. induction pre as [|z t IH]; cbn [length app set_nth]; [reflexivity|now rewrite IH]. Qed.

Lemma firstn_app_exact {A} (pre post : list A) : firstn (length pre) (pre ++ post) = pre.
Proof. induction pre as [|z t IH]; cbn [length app firstn]; [reflexivity|now rewrite IH]. Qed.

Lemma list_rev_case {A} (l : list A) : l = [] \/ exists l' y, l = l' ++ [y].
Proof. induction l as [|y l' _] using rev_ind; [now left|right; now exists l', y]. Qed.

Lemma dip_perm del : forall fuel pre mid post,
  (length mid < fuel)%nat ->
  Permutation (dip fuel (pre ++ mid ++ post) (length pre) (length pre + length mid) del)
              (pre ++ filter (keep del) mid).
Proof.
  induction fuel as [|fuel IH]; intros pre mid post Hf; [lia|]. cbn [dip].
  destruct mid as [|x mid'].
  - cbn [length app filter]. rewrite Nat.add_0_r, Nat.ltb_irrefl, firstn_app_exact, app_nil_r. apply Permutation_refl.
  - cbn [length] in *. replace (Nat.ltb (length pre) (length pre + Datatypes.S (length mid'))) with true
      by (symmetry; apply Nat.ltb_lt; lia).
    cbn [app]. rewrite nth_de_app_mid. cbn [filter]. unfold keep at 1.
    destruct (zmem (da x) del) eqn:Zx; cbn [negb].
    + replace (length pre + Datatypes.S (length mid') - 1)%nat with (length pre + length mid')%nat by lia.
      destruct (list_rev_case mid') as [->|[m2 [y ->]]].
      * cbn [length app filter]. rewrite Nat.add_0_r, nth_de_app_mid, set_nth_app_mid.
        specialize (IH pre [] (x :: post)). cbn [length app filter] in IH. rewrite Nat.add_0_r in IH. apply IH. lia.
      * rewrite app_length in *. cbn [length] in *.
        assert (E1 : pre ++ x :: (m2 ++ [y]) ++ post = (pre ++ x :: m2) ++ y :: post).
        { rewrite <- !app_assoc. reflexivity. }
        assert (E2 : (length pre + (length m2 + 1))%nat = length (pre ++ x :: m2)).
        { rewrite app_length. cbn [length]. lia. }
        rewrite E1 at 1. rewrite E2 at 1. rewrite nth_de_app_mid. rewrite set_nth_app_mid.
        specialize (IH pre (y :: m2) (y :: post)). cbn [length app] in IH.
        replace (length pre + (length m2 + 1))%nat with (length pre + Datatypes.S (length m2))%nat by lia.
        replace ((m2 ++ [y]) ++ post) with (m2 ++ y :: post) by (rewrite <- app_assoc; reflexivity).
        apply (Permutation_trans (IH ltac:(lia))). apply Permutation_app_head.
        rewrite filter_app. change (y :: m2) with ([y] ++ m2). rewrite filter_app. apply Permutation_app_comm.
    + specialize (IH (pre ++ [x]) mid' post). rewrite app_length in IH. cbn [length] in IH.
      replace (Datatypes.S (length pre)) with (length pre + 1)%nat by lia.
      replace (length pre + Datatypes.S (length mid'))%nat with (length pre + 1 + length mid')%nat by lia.
      replace (pre ++ x :: mid' ++ post) with ((pre ++ [x]) ++ mid' ++ post) by (rewrite <- app_assoc; reflexivity).
      replace (pre ++ x :: filter (keep del) mid') with ((pre ++ [x]) ++ filter (keep del) mid') by (rewrite <- app_assoc; reflexivity).
      apply IH. lia.
Qed.

Lemma delete_in_place_perm l del : Permutation (delete_in_place l del) (filter (keep del) l).
Proof.
  unfold delete_in_place. destruct del as [|d del'].
  - rewrite filter_id; [apply Permutation_refl|]. intros e _. reflexivity.
  - pose proof (dip_perm (d :: del') (Datatypes.S (length l)) [] l []) as H. cbn [app length] in H.
    rewrite app_nil_r in H. cbn [Nat.add] in H. apply H. lia.
Qed.

(* ---- updateExisting and the loop of setAddrs ---------------------------------------------------------- *)
Definition upd1 (mode : ttlmode) (a t u : Z) (e : dent) : dent :=
  match mode with
  | TOverride => mkD a t u
  | TExtend => mkD a (if dttl e <? t then t else dttl e) (if dexp e <? u then u else dexp e)
  end.

Lemma upd_existing_cons mode a t u e r :
  upd_existing mode a t u (e :: r) = if da e =? a then upd1 mode a t u e :: r else e :: upd_existing mode a t u r.
Proof. destruct mode; reflexivity. Qed.

Lemma da_upd1 mode a t u e : da (upd1 mode a t u e) = a.
Proof. destruct mode; reflexivity. Qed.

Lemma upd1_idem mode a t u e : upd1 mode a t u (upd1 mode a t u e) = upd1 mode a t u e.
Proof.
  destruct mode; cbn [upd1 dttl dexp]; [reflexivity|]. f_equal.
  - destruct (Z.ltb_spec (dttl e) t); [now rewrite Z.ltb_irrefl|]. destruct (Z.ltb_spec (dttl e) t); [lia|reflexivity].
  - destruct (Z.ltb_spec (dexp e) u); [now rewrite Z.ltb_irrefl|]. destruct (Z.ltb_spec (dexp e) u); [lia|reflexivity].
Qed.

Lemma find_upd_existing mode a t u x l :
  find_de x (upd_existing mode a t u l) =
  if x =? a then option_map (upd1 mode a t u) (find_de a l) else find_de x l.
Proof.
  induction l as [|e r IH]; [cbn; now destruct (x =? a)|]. rewrite upd_existing_cons.
  rewrite (find_de_cons a e r). destruct (Z.eqb_spec (da e) a) as [E|E].
  - rewrite find_de_cons, da_upd1. destruct (Z.eqb_spec x a) as [->|Hx].
    + now rewrite Z.eqb_refl.
    + rewrite find_de_cons. destruct (Z.eqb_spec a x); [congruence|]. destruct (Z.eqb_spec (da e) x); [congruence|reflexivity].
  - rewrite !find_de_cons. rewrite IH. destruct (Z.eqb_spec x a) as [->|Hx].
    + destruct (Z.eqb_spec (da e) a); [congruence|reflexivity].
    + reflexivity.
Qed.

Lemma map_da_upd_existing mode a t u l : map da (upd_existing mode a t u l) = map da l.
Proof.
  induction l as [|e r IH]; [reflexivity|]. rewrite upd_existing_cons. destruct (Z.eqb_spec (da e) a) as [E|E]; cbn [map].
  - now rewrite da_upd1, E.
  - now rewrite IH.
Qed.

Definition sa_step (mode : ttlmode) (t u : Z) (orig : list dent) (acc : list dent * list dent) (a : Z) :=
  let '(cur, fresh) := acc in
  match find_de a orig with
  | Some _ => (upd_existing mode a t u cur, fresh)
  | None =>
      match find_de a fresh with
      | Some _ => (cur, upd_existing mode a t u fresh)
      | None => (cur, fresh ++ [mkD a t u])
      end
  end.

Definition in_rec (x : Z) (l : list dent) : bool := zmem x (map da l).

Lemma in_rec_find x l : in_rec x l = match find_de x l with Some _ => true | None => false end.
Proof.
  unfold in_rec. destruct (find_de x l) as [e|] eqn:F.
  - apply find_de_zmem. now exists e.
  - destruct (zmem x (map da l)) eqn:Zm; [|reflexivity]. apply find_de_zmem in Zm. destruct Zm as [e Fe]. congruence.
Qed.

Lemma upd1_fresh mode a t u : upd1 mode a t u (mkD a t u) = mkD a t u.
Proof. destruct mode; cbn [upd1 dttl dexp]; [reflexivity|]. now rewrite !Z.ltb_irrefl. Qed.

Lemma upd_existing_id mode a t u l :
  (forall e, In e l -> da e = a -> e = mkD a t u) -> upd_existing mode a t u l = l.
Proof.
  induction l as [|e r IH]; intros H; [reflexivity|]. rewrite upd_existing_cons.
  destruct (Z.eqb_spec (da e) a) as [E|E].
  - rewrite (H e (or_introl eq_refl) E). now rewrite upd1_fresh.
  - f_equal. apply IH. intros e' He'. apply H. now right.
Qed.

(* the entries the loop has created so far: one per new address, all (a, t, u) *)
Definition fresh_ok (t u : Z) (orig fresh : list dent) : Prop :=
  (forall e, In e fresh -> e = mkD (da e) t u /\ in_rec (da e) orig = false) /\ NoDup (map da fresh).

Lemma sa_fold mode t u orig addrs : forall cur0 fresh0,
  fresh_ok t u orig fresh0 ->
  let '(cur, fresh) := fold_left (sa_step mode t u orig) addrs (cur0, fresh0) in
  map da cur = map da cur0 /\
  (forall x, find_de x cur =
             if zmem x addrs && in_rec x orig then option_map (upd1 mode x t u) (find_de x cur0) else find_de x cur0) /\
  fresh_ok t u orig fresh /\
  (forall x, find_de x fresh =
             if zmem x addrs && negb (in_rec x orig) then Some (mkD x t u) else find_de x fresh0).
Proof.
  induction addrs as [|a r IH]; intros cur0 fresh0 HF; cbn [fold_left].
  - split; [reflexivity|split; [|split; [exact HF|]]]; intros x; reflexivity.
  - unfold sa_step at 2. destruct (find_de a orig) as [e0|] eqn:F.
    + specialize (IH (upd_existing mode a t u cur0) fresh0 HF).
      destruct (fold_left (sa_step mode t u orig) r (upd_existing mode a t u cur0, fresh0)) as [cur fresh].
      destruct IH as [H1 [H2 [H3 H4]]]. split; [now rewrite H1, map_da_upd_existing|split; [|split; [exact H3|]]].
      * intros x. rewrite H2, find_upd_existing. unfold zmem. cbn [existsb]. fold (zmem x r).
        destruct (Z.eqb_spec x a) as [->|Hx]; cbn [orb]; [|reflexivity].
        rewrite (in_rec_find a orig), F. cbn [andb]. rewrite andb_true_r.
        destruct (zmem a r); [|reflexivity]. destruct (find_de a cur0); cbn [option_map]; [now rewrite upd1_idem|reflexivity].
      * intros x. rewrite H4. unfold zmem. cbn [existsb]. fold (zmem x r).
        destruct (Z.eqb_spec x a) as [->|Hx]; cbn [orb]; [|reflexivity].
        rewrite (in_rec_find a orig), F. cbn [negb]. now rewrite !andb_false_r.
    + destruct (find_de a fresh0) as [e1|] eqn:F1.
      * assert (Eid : upd_existing mode a t u fresh0 = fresh0).
        { apply upd_existing_id. intros e He Ha. destruct (proj1 HF e He) as [E _]. now rewrite <- Ha. }
        rewrite Eid. specialize (IH cur0 fresh0 HF).
        destruct (fold_left (sa_step mode t u orig) r (cur0, fresh0)) as [cur fresh].
        destruct IH as [H1 [H2 [H3 H4]]]. split; [exact H1|split; [|split; [exact H3|]]].
        -- intros x. rewrite H2. unfold zmem. cbn [existsb]. fold (zmem x r).
           destruct (Z.eqb_spec x a) as [->|Hx]; cbn [orb]; [|reflexivity].
           rewrite (in_rec_find a orig), F. now rewrite !andb_false_r.
        -- intros x. rewrite H4. unfold zmem. cbn [existsb]. fold (zmem x r).
           destruct (Z.eqb_spec x a) as [->|Hx]; cbn [orb]; [|reflexivity].
           rewrite (in_rec_find a orig), F. cbn [negb andb]. rewrite andb_true_r.
           destruct (zmem a r); [reflexivity|]. rewrite F1. apply find_de_some in F1. destruct F1 as [Hin Ha].
           destruct (proj1 HF e1 Hin) as [E _]. now rewrite E, Ha.
      * assert (HF1 : fresh_ok t u orig (fresh0 ++ [mkD a t u])).
        { destruct HF as [Hf Hn]. split.
          - intros e He. apply in_app_or in He. destruct He as [He|[<-|[]]]; [now apply Hf|]. cbn [da].
            split; [reflexivity|]. now rewrite (in_rec_find a orig), F.
          - rewrite map_app. cbn [map da]. apply nodup_snoc; [exact Hn|]. intros Hin. apply in_map_iff in Hin.
            destruct Hin as [e [Ha He]]. exact (find_de_none _ _ F1 e He Ha). }
        specialize (IH cur0 (fresh0 ++ [mkD a t u]) HF1).
        destruct (fold_left (sa_step mode t u orig) r (cur0, fresh0 ++ [mkD a t u])) as [cur fresh].
        destruct IH as [H1 [H2 [H3 H4]]]. split; [exact H1|split; [|split; [exact H3|]]].
        -- intros x. rewrite H2. unfold zmem. cbn [existsb]. fold (zmem x r).
           destruct (Z.eqb_spec x a) as [->|Hx]; cbn [orb]; [|reflexivity].
           rewrite (in_rec_find a orig), F. now rewrite !andb_false_r.
        -- intros x. rewrite H4, find_de_app. unfold zmem. cbn [existsb]. fold (zmem x r). rewrite find_de_cons. cbn [da find_de find].
           destruct (Z.eqb_spec x a) as [->|Hx]; cbn [orb].
           ++ rewrite (in_rec_find a orig), F, F1, Z.eqb_refl. cbn [negb andb]. now destruct (zmem a r).
           ++ destruct (Z.eqb_spec a x); [congruence|]. now destruct (find_de x fresh0).
Qed.

Lemma find_de_fresh t u x l :
  find_de x (map (fun a => mkD a t u) l) = if zmem x l then Some (mkD x t u) else None.
Proof.
  induction l as [|a r IH]; [reflexivity|]. cbn [map]. rewrite find_de_cons. cbn [da]. unfold zmem. cbn [existsb].
  fold (zmem x r). rewrite (Z.eqb_sym a x). destruct (Z.eqb_spec x a) as [->|Hx]; [reflexivity|exact IH].
Qed.

Lemma zmem_filter x (f : Z -> bool) l : zmem x (filter f l) = zmem x l && f x.
Proof.
  unfold zmem. induction l as [|a r IH]; [reflexivity|]. cbn [filter existsb].
  destruct (f a) eqn:Fa; cbn [existsb]; rewrite IH.
  - destruct (Z.eqb_spec x a) as [->|Hx]; cbn [orb]; [now rewrite Fa|reflexivity].
  - destruct (Z.eqb_spec x a) as [->|Hx]; cbn [orb]; [|reflexivity]. rewrite Fa. now rewrite andb_false_r.
Qed.

(* C09 — executable transcription of p2p/host/peerstore/pstoreds/addr_book.go
   and addr_book_gc.go (the repaired tree: deleteInPlace re-examines the
   element swapped into the freed slot; the certified record is dropped with the
   last address; a record changed by clean is always written through; record
   addresses are compared as transport addresses; setAddrs registers the entries
   it creates in its address index, so a batch naming a new address twice
   stores it once).  No proofs here.

   Layout kept from the code: one record per peer = list of entries (kept
   sorted by expiry whenever it is not dirty; clean() relies on that: it looks
   at the first entry only and cuts a prefix) + the certified record + the
   dirty flag; expiry in whole unix seconds; the datastore as a map; the
   cache as a second map holding the SAME record objects the operations
   mutate (a cached record is updated in place, the datastore only by flush);
   deleteInPlace literally (swap-with-last loop); both GC modes.

   Not modelled, by choice: Options.MaxAddrsPerPeer.  The model is the book whose
   cap never binds (disabled, or the default 64 on the small universes of the
   histories); that is the book the property's "exactly" and "same answers"
   sentences can be about.  When the cap binds the real setAddrs counts the
   peer's unconnected entries once per batch and evicts only among the entries
   present before the batch, whereas pstoremem recounts per address and evicts
   among everything stored, breaking expiry ties by Go map order: the two
   books then keep different (and, for pstoremem, run-dependent) addresses.
   Histories with a binding cap are generated and judged by the weak monitor of
   Spec.v (soundness + the bound cap + 2k), not replayed on this model, ARC eviction (the cache is disabled or large enough for the
   universe), datastore errors, AddrStream.  sort.Slice is an insertion sort
   here (the order among equal expiries is not observable). *)
From Coq Require Import List ZArith Bool.
From Verif Require Import gen.Consts_c09 c09.Abs c09.Model_mem.
Import ListNotations.
Local Open Scope Z_scope.

Record dent := mkD { da : Z; dttl : Z; dexp : Z }.          (* Addr, Ttl (ns), Expiry (unix s) *)
Record drec := mkDR { dp : Z; daddrs : list dent; dcert : option arec; ddirty : bool }.
Record dbook := mkDB {
  d_now : Z;
  d_store : list drec;          (* /peers/addrs/<peer>: always stored with dirty = false *)
  d_cache : list drec;
  d_cached : bool;              (* Options.CacheSize > 0 *)
  d_look : Z;                   (* Options.GCLookaheadInterval (ns); 0 = full-purge GC *)
  d_keys : list (Z * Z);        (* /peers/gc/addrs/<ts>/<peer> *)
  d_wend : Z                    (* gc.currWindowEnd *)
}.

Definition d_init (cached : bool) (look : Z) : dbook := mkDB 0 [] [] cached look [] 0.

Definition unix (t : Z) : Z := t / SEC.

Definition find_dr (p : Z) (l : list drec) : option drec := find (fun r => dp r =? p) l.
Definition del_dr (p : Z) (l : list drec) : list drec := filter (fun r => negb (dp r =? p)) l.
Fixpoint put_dr (x : drec) (l : list drec) : list drec :=
  match l with
  | [] => [x]
  | r :: t => if dp r =? dp x then x :: t else r :: put_dr x t
  end.

(* sort.Slice(r.Addrs, Expiry <).  For at most 12 entries Go's sort.Slice IS an insertion sort
   that moves an element left only past strictly greater ones: entries of equal expiry keep
   their order (this order decides the victim of the per-peer cap on ties, Model_cap.v).
   sort_exp (x :: t) inserts x into the sorted tail, so x goes before the entries >= x. *)
Fixpoint ins_exp (x : dent) (l : list dent) : list dent :=
  match l with
  | [] => [x]
  | y :: t => if dexp y <? dexp x then y :: ins_exp x t else x :: y :: t
  end.
Definition sort_exp (l : list dent) : list dent := fold_right ins_exp [] l.

(* removeExpired: cut the prefix of entries with Expiry <= now *)
Fixpoint remove_expired (l : list dent) (nowu : Z) : list dent :=
  match l with
  | [] => []
  | x :: t => if nowu <? dexp x then l else remove_expired t nowu
  end.

Definition has_expired (r : drec) (nowu : Z) : bool :=
  match daddrs r with x :: _ => dexp x <=? nowu | [] => false end.

(* addrsRecord.clean: (record after, "changed") *)
Definition clean (now : Z) (r : drec) : drec * bool :=
  let nowu := unix now in
  let n := length (daddrs r) in
  if negb (ddirty r) && negb (has_expired r nowu) then (r, false)
  else if Nat.eqb n 0 then (mkDR (dp r) (daddrs r) None (ddirty r), true)
  else
    let l1 := if ddirty r && Nat.ltb 1 n then sort_exp (daddrs r) else daddrs r in
    let l2 := remove_expired l1 nowu in
    (mkDR (dp r) l2 (match l2 with [] => None | _ => dcert r end) (ddirty r),
     ddirty r || negb (Nat.eqb (length l2) n)).

(* addrsRecord.flush on the datastore; the record object is no longer dirty,
   and an object without addresses loses its certified record *)
Definition flush_store (r : drec) (st : list drec) : list drec :=
  match daddrs r with
  | [] => del_dr (dp r) st
  | _ => put_dr (mkDR (dp r) (daddrs r) (dcert r) false) st
  end.
Definition undirty (r : drec) : drec := mkDR (dp r) (daddrs r) (dcert r) false.
Definition flushed (r : drec) : drec :=
  mkDR (dp r) (daddrs r) (match daddrs r with [] => None | _ => dcert r end) false.

Definition set_store (s : dbook) st := mkDB (d_now s) st (d_cache s) (d_cached s) (d_look s) (d_keys s) (d_wend s).
Definition set_cache (s : dbook) c := mkDB (d_now s) (d_store s) c (d_cached s) (d_look s) (d_keys s) (d_wend s).

(* loadRecord(id, cache, update): the book after the call, the record object
   handed to the caller, and whether that object lives in the cache.  (The
   [update] argument no longer matters: a changed record is always flushed.) *)
Definition load (s : dbook) (p : Z) (cacheit update : bool) : dbook * drec * bool :=
  match find_dr p (d_cache s) with
  | Some pr =>
      let '(pr1, chg) := clean (d_now s) pr in
      if chg
      then (set_cache (set_store s (flush_store pr1 (d_store s))) (put_dr (flushed pr1) (d_cache s)),
            flushed pr1, true)
      else (set_cache s (put_dr pr1 (d_cache s)), pr1, true)
  | None =>
      let '(s1, pr1) :=
        match find_dr p (d_store s) with
        | None => (s, mkDR p [] None false)
        | Some data =>
            let '(pr1, chg) := clean (d_now s) (undirty data) in
            if chg then (set_store s (flush_store pr1 (d_store s)), flushed pr1)
            else (s, pr1)
        end in
      if cacheit && d_cached s then (set_cache s1 (put_dr pr1 (d_cache s1)), pr1, true)
      else (s1, pr1, false)
  end.

(* the caller mutated the object: a cached object changes in place *)
Definition writeback (s : dbook) (pr : drec) (incache : bool) : dbook :=
  if incache then set_cache s (put_dr pr (d_cache s)) else s.
(* ... and flushed it *)
Definition flush (s : dbook) (pr : drec) (incache : bool) : dbook :=
  writeback (set_store s (flush_store pr (d_store s))) (flushed pr) incache.

Inductive ttlmode := TOverride | TExtend.

Definition find_de (a : Z) (l : list dent) : option dent := find (fun e => da e =? a) l.

(* updateExisting on the entry with this address (there is at most one) *)
Fixpoint upd_existing (mode : ttlmode) (a ttl newexp : Z) (l : list dent) : list dent :=
  match l with
  | [] => []
  | e :: t =>
      if da e =? a then
        (match mode with
         | TOverride => mkD a ttl newexp
         | TExtend => mkD a (if dttl e <? ttl then ttl else dttl e)
                            (if dexp e <? newexp then newexp else dexp e)
         end) :: t
      else e :: upd_existing mode a ttl newexp t
  end.

(* setAddrs (per-peer cap out of play) *)
Definition d_setaddrs (s : dbook) (p : Z) (addrs : list Z) (ttl : Z) (mode : ttlmode) : dbook :=
  match addrs with
  | [] => s
  | _ =>
    let '(s1, pr, inc) := load s p true false in
    let newexp := unix (d_now s + ttl) in
    let orig := daddrs pr in        (* addrsMap starts from the entries present before the loop *)
    let '(cur, fresh) :=
      fold_left (fun (acc : list dent * list dent) a =>
                   let '(cur, fresh) := acc in
                   match find_de a orig with
                   | Some _ => (upd_existing mode a ttl newexp cur, fresh)
                   | None =>
                       (* addrsMap also knows the entries created by this loop *)
                       match find_de a fresh with
                       | Some _ => (cur, upd_existing mode a ttl newexp fresh)
                       | None => (cur, fresh ++ [mkD a ttl newexp])
                       end
                   end)
                addrs (orig, []) in
    let pr1 := mkDR p (cur ++ fresh) (dcert pr) true in
    let '(pr2, _) := clean (d_now s) pr1 in
    flush s1 pr2 inc
  end.

(* deleteInPlace, literally: i walks, the last survivor is swapped into a
   freed slot and slot i is examined again *)
Definition nth_de (i : nat) (l : list dent) : dent := nth i l (mkD 0 0 0).
Fixpoint set_nth (i : nat) (x : dent) (l : list dent) : list dent :=
  match l, i with
  | [], _ => []
  | _ :: t, O => x :: t
  | y :: t, S j => y :: set_nth j x t
  end.
Fixpoint dip (fuel : nat) (s : list dent) (i survived : nat) (del : list Z) : list dent :=
  match fuel with
  | O => firstn survived s
  | S f =>
      if Nat.ltb i survived then
        if zmem (da (nth_de i s)) del
        then dip f (set_nth i (nth_de (survived - 1) s) s) i (survived - 1) del
        else dip f s (S i) survived del
      else firstn survived s
  end.
Definition delete_in_place (s : list dent) (del : list Z) : list dent :=
  match del with [] => s | _ => dip (S (length s)) s 0 (length s) del end.

Definition d_deleteaddrs (s : dbook) (p : Z) (del : list Z) : dbook :=
  let '(s1, pr, inc) := load s p false false in
  let pr1 := mkDR p (delete_in_place (daddrs pr) del) (dcert pr) true in
  let '(pr2, _) := clean (d_now s) pr1 in
  flush s1 pr2 inc.

Definition d_add (s : dbook) (p : Z) (addrs : list raw) (ttl : Z) : dbook :=
  if ttl <=? 0 then s else d_setaddrs s p (clean_addrs addrs) ttl TExtend.

Definition d_set (s : dbook) (p : Z) (addrs : list raw) (ttl : Z) : dbook :=
  if ttl <=? 0 then d_deleteaddrs s p (clean_addrs addrs)
  else d_setaddrs s p (clean_addrs addrs) ttl TOverride.

Definition d_update (s : dbook) (p old new : Z) : dbook :=
  let '(s1, pr, inc) := load s p true false in
  let newexp := unix (d_now s + new) in
  let hit := existsb (fun e => dttl e =? old) (daddrs pr) in
  let l := map (fun e => if dttl e =? old then mkD (da e) new newexp else e) (daddrs pr) in
  let pr1 := mkDR p l (dcert pr) (ddirty pr || hit) in
  let '(pr2, chg) := clean (d_now s) pr1 in
  if chg then flush s1 pr2 inc else writeback s1 pr2 inc.

Definition d_addrs (s : dbook) (p : Z) : dbook * list Z :=
  let '(s1, pr, _) := load s p true true in (s1, map da (daddrs pr)).

Definition d_getrec_full (s : dbook) (p : Z) : dbook * option arec :=
  let '(s1, pr, _) := load s p true false in
  (s1, match dcert pr, daddrs pr with
       | Some c, _ :: _ => Some c
       | _, _ => None
       end).

Definition d_clear (s : dbook) (p : Z) : dbook :=
  set_cache (set_store s (del_dr p (d_store s))) (del_dr p (d_cache s)).

Definition d_peers (s : dbook) : list Z := map dp (d_store s).

(* supersededSignedAddrs + deleteAddrs: drop the addresses of the previous record that the
   new one no longer lists (transport addresses compared), except connected ones *)
Definition d_supersede (s : dbook) (p : Z) (prev : option arec) (new : list Z) : dbook :=
  match prev with
  | None => s
  | Some c =>
      let '(s3, pr3, _) := load s p true false in
      let superseded :=
        filter (fun a =>
                  negb (zmem a new) &&
                  negb (existsb (fun e => (da e =? a) && conn (dttl e)) (daddrs pr3)))
               (clean_addrs (raddrs c)) in
      match superseded with
      | [] => s3
      | _ => d_deleteaddrs s3 p superseded
      end
  end.

(* storeSignedPeerRecord *)
Definition d_store_signed (s : dbook) (p : Z) (rec : arec) : dbook :=
  let '(s6, pr6, inc) := load s p true false in
  flush s6 (mkDR p (daddrs pr6) (Some rec) true) inc.

Definition d_consume (s : dbook) (p seq id : Z) (addrs : list raw) (ttl : Z) : dbook * Z :=
  (* latestPeerRecordSeq *)
  let '(s1, pr, _) := load s p true false in
  let latest := match daddrs pr, dcert pr with
                | _ :: _, Some c => rseq c
                | _, _ => 0
                end in
  if seq <? latest then (s1, 0)
  else
    let new := clean_addrs addrs in
    let '(s2, prev) := d_getrec_full s1 p in
    let s4 := d_supersede s2 p prev new in
    let s5 := d_setaddrs s4 p new ttl TExtend in
    (d_store_signed s5 p (mkR p seq id addrs), 1).

(* ---- GC ------------------------------------------------------------------ *)
Definition set_keys (s : dbook) k w := mkDB (d_now s) (d_store s) (d_cache s) (d_cached s) (d_look s) k w.

(* purgeStore: every stored record is decoded, cleaned, flushed when changed,
   and dropped from the cache *)
Definition d_purge_store (s : dbook) : dbook :=
  fold_left (fun st (r : drec) =>
               let '(r1, chg) := clean (d_now s) (undirty r) in
               if chg then set_cache (set_store st (flush_store r1 (d_store st))) (del_dr (dp r) (d_cache st))
               else st)
            (d_store s) s.

Definition key_eqb (x y : Z * Z) : bool := (fst x =? fst y) && (snd x =? snd y).
Definition put_key (k : Z * Z) (l : list (Z * Z)) : list (Z * Z) :=
  if existsb (key_eqb k) l then l else l ++ [k].
Definition del_key (k : Z * Z) (l : list (Z * Z)) : list (Z * Z) := filter (fun x => negb (key_eqb k x)) l.

(* populateLookahead: for every key of the datastore, the cached record if there is
   one, else the stored one; a GC key when its first entry expires within the window *)
Definition d_populate (s : dbook) : dbook :=
  let until := unix (d_now s + d_look s) in
  let keys :=
    fold_left (fun ks p =>
                 let rec' := match find_dr p (d_cache s) with
                             | Some c => Some c
                             | None => find_dr p (d_store s)
                             end in
                 match rec' with
                 | Some r => match daddrs r with
                             | e :: _ => if dexp e <=? until then put_key (dexp e, p) ks else ks
                             | [] => ks
                             end
                 | None => ks
                 end)
              (map dp (d_store s)) (d_keys s) in
  set_keys s keys until.

(* purgeLookahead: visit the GC keys whose timestamp is <= now *)
Definition d_purge_look (s : dbook) : dbook :=
  let nowu := unix (d_now s) in
  fold_left (fun st (k : Z * Z) =>
               if nowu <? fst k then st
               else
                 let p := snd k in
                 let resched (ar : drec) (st' : dbook) :=
                   let ks := del_key k (d_keys st') in
                   set_keys st' (match daddrs ar with
                                 | e :: _ => if dexp e <=? d_wend st' then put_key (dexp e, p) ks else ks
                                 | [] => ks
                                 end) (d_wend st') in
                 match find_dr p (d_cache st) with
                 | Some c =>
                     let '(c1, chg) := clean (d_now s) c in
                     let st1 := if chg
                                then set_cache (set_store st (flush_store c1 (d_store st))) (put_dr (flushed c1) (d_cache st))
                                else set_cache st (put_dr c1 (d_cache st)) in
                     resched c1 st1
                 | None =>
                     match find_dr p (d_store st) with
                     | None => set_keys st (del_key k (d_keys st)) (d_wend st)
                     | Some r =>
                         let '(r1, chg) := clean (d_now s) (undirty r) in
                         let st1 := if chg then set_store st (flush_store r1 (d_store st)) else st in
                         resched r1 st1
                     end
                 end)
            (d_keys s) s.

Definition d_gc (s : dbook) : dbook :=
  if d_look s =? 0 then d_purge_store s else d_purge_look (d_populate s).

(* close + NewAddrBook on the same datastore: the cache and the GC window
   are gone, the datastore (records and GC keys) stays *)
Definition d_reopen (s : dbook) : dbook :=
  mkDB (d_now s) (d_store s) [] (d_cached s) (d_look s) (d_keys s) 0.

Definition d_stored (s : dbook) : Z :=
  fold_left (fun n r => n + zlen' (daddrs r)) (d_store s) 0.
Definition d_nrecs (s : dbook) : Z :=
  zlen' (filter (fun r => match dcert r with Some _ => true | None => false end) (d_store s)).

Definition d_step (s : dbook) (o : op) : dbook * obs :=
  match o with
  | OAdd p ttl l => (d_add s p l ttl, ONone)
  | OSet p ttl l => (d_set s p l ttl, ONone)
  | OUpdate p old new => (d_update s p old new, ONone)
  | OClear p => (d_clear s p, ONone)
  | OConsume p seq id ttl bad l =>
      if bad then (s, OVal 2) else let '(s', r) := d_consume s p seq id l ttl in (s', OVal r)
  | OAddrs p => let '(s', l) := d_addrs s p in (s', OList l)
  | OPeers => (s, OList (d_peers s))
  | OGetRec p => let '(s', r) := d_getrec_full s p in
                 (s', OVal (match r with Some c => rid c | None => 0 end))
  | OAdvance d => (mkDB (d_now s + d) (d_store s) (d_cache s) (d_cached s) (d_look s) (d_keys s) (d_wend s), ONone)
  | OGC => let s' := d_gc s in (s', OSizes (d_stored s') (d_nrecs s') 0)
  | OReopen => (d_reopen s, ONone)
  end.

Fixpoint d_trace (s : dbook) (ops : list op) : list (op * obs) :=
  match ops with
  | [] => []
  | o :: r => let '(s', x) := d_step s o in (o, x) :: d_trace s' r
  end.

Fixpoint d_run (s : dbook) (ops : list op) : dbook :=
  match ops with [] => s | o :: r => d_run (fst (d_step s o)) r end.

(* C09 — the abstract address book A: the property's own reading of the
   address-book API.  "map (peer,addr) |-> {ttl; expiry}" plus the latest
   accepted signed record per peer and a clock.  Expired = absent: after
   every operation the book holds only entries whose expiry lies in the
   future, and a signed record only for peers that have such an entry.
   No proofs in this file (it is extracted: the monitor runs it).

   Time and TTLs are nanoseconds in Z (Go time.Duration / time.Time as
   offsets from the instant the book was created).  *)
From Coq Require Import List ZArith Bool.
From Verif Require Import gen.Consts_c09.
Import ListNotations.
Local Open Scope Z_scope.

(* one nanosecond-second *)
Definition SEC : Z := 1000000000.

(* ---- addresses as the API receives them -------------------------------- *)
(* A raw address is (id, sfx): the transport address [id] with
     sfx = 0  no /p2p suffix
     sfx = 1  /p2p/<the peer the call is about>
     sfx = 2  /p2p/<some other peer>           (dropped by every operation) *)
Definition raw := (Z * Z)%type.
Definition clean_addrs (l : list raw) : list Z :=
  map fst (filter (fun r => negb (snd r =? 2)) l).

Definition zmem (x : Z) (l : list Z) : bool := existsb (Z.eqb x) l.

(* ---- state -------------------------------------------------------------- *)
Record aent := mkE { ep : Z; ea : Z; ettl : Z; eexp : Z }.
Record arec := mkR { rp : Z; rseq : Z; rid : Z; raddrs : list raw }.
Record abook := mkA { a_now : Z; a_ents : list aent; a_recs : list arec }.

Definition a_init : abook := mkA 0 [] [].

Definition key_is (p a : Z) (e : aent) : bool := (ep e =? p) && (ea e =? a).
Definition live (now : Z) (e : aent) : bool := now <? eexp e.
(* "held by a live connection": TTL class at least ConnectedAddrTTL *)
Definition conn (ttl : Z) : bool := ConnectedAddrTTL <=? ttl.

Definition find_ent (p a : Z) (l : list aent) : option aent := find (key_is p a) l.
Definition remove_ent (p a : Z) (l : list aent) : list aent :=
  filter (fun e => negb (key_is p a e)) l.
Definition has_peer (p : Z) (l : list aent) : bool := existsb (fun e => ep e =? p) l.
Definition find_rec (p : Z) (l : list arec) : option arec := find (fun r => rp r =? p) l.
Definition remove_rec (p : Z) (l : list arec) : list arec :=
  filter (fun r => negb (rp r =? p)) l.
Definition set_rec (r : arec) (l : list arec) : list arec := remove_rec (rp r) l ++ [r].

(* AddAddrs on one address: never shortens *)
Fixpoint upsert_ext (p a ttl exp : Z) (l : list aent) : list aent :=
  match l with
  | [] => [mkE p a ttl exp]
  | e :: r =>
      if key_is p a e
      then mkE p a (Z.max (ettl e) ttl) (Z.max (eexp e) exp) :: r
      else e :: upsert_ext p a ttl exp r
  end.

(* SetAddrs on one address with a positive TTL: overrides *)
Fixpoint upsert_set (p a ttl exp : Z) (l : list aent) : list aent :=
  match l with
  | [] => [mkE p a ttl exp]
  | e :: r =>
      if key_is p a e then mkE p a ttl exp :: r else e :: upsert_set p a ttl exp r
  end.

(* expired = absent *)
Definition normalize (now : Z) (ents : list aent) (recs : list arec) : list aent * list arec :=
  let ents' := filter (live now) ents in
  (ents', filter (fun r => has_peer (rp r) ents') recs).

Definition mk_norm (now : Z) (ents : list aent) (recs : list arec) : abook :=
  let '(e, r) := normalize now ents recs in mkA now e r.

(* ---- operations --------------------------------------------------------- *)
Definition add_list (p ttl now : Z) (addrs : list Z) (ents : list aent) : list aent :=
  fold_left (fun l a => upsert_ext p a ttl (now + ttl) l) addrs ents.

Definition a_add (s : abook) (p : Z) (addrs : list raw) (ttl : Z) : abook :=
  if ttl <=? 0 then s
  else mk_norm (a_now s) (add_list p ttl (a_now s) (clean_addrs addrs) (a_ents s)) (a_recs s).

Definition a_set (s : abook) (p : Z) (addrs : list raw) (ttl : Z) : abook :=
  let now := a_now s in
  let ents :=
    fold_left (fun l a => if 0 <? ttl then upsert_set p a ttl (now + ttl) l else remove_ent p a l)
              (clean_addrs addrs) (a_ents s) in
  mk_norm now ents (a_recs s).

Definition a_update (s : abook) (p old new : Z) : abook :=
  let now := a_now s in
  let ents :=
    map (fun e => if (ep e =? p) && (ettl e =? old) then mkE (ep e) (ea e) new (now + new) else e)
        (a_ents s) in
  mk_norm now ents (a_recs s).

Definition a_clear (s : abook) (p : Z) : abook :=
  mkA (a_now s) (filter (fun e => negb (ep e =? p)) (a_ents s)) (remove_rec p (a_recs s)).

(* for each address of the previous record that the new one no longer lists:
   remove the book's entry for it, unless it is in a connected TTL class *)
Definition evict_superseded (p : Z) (prev new : list Z) (ents : list aent) : list aent :=
  fold_left (fun l a =>
               if zmem a new then l
               else match find_ent p a l with
                    | Some e => if conn (ettl e) then l else remove_ent p a l
                    | None => l
                    end)
            prev ents.

(* returns the new book and whether the record was accepted *)
Definition a_consume (s : abook) (p seq id : Z) (addrs : list raw) (ttl : Z) : abook * bool :=
  let now := a_now s in
  let old := find_rec p (a_recs s) in
  if match old with Some r => seq <? rseq r | None => false end then (s, false)
  else
    let new := clean_addrs addrs in
    let ents1 :=
      match old with
      | Some r => evict_superseded p (clean_addrs (raddrs r)) new (a_ents s)
      | None => a_ents s
      end in
    let recs1 := set_rec (mkR p seq id addrs) (a_recs s) in
    let ents2 := if ttl <=? 0 then ents1 else add_list p ttl now new ents1 in
    (mk_norm now ents2 recs1, true).

Definition a_advance (s : abook) (d : Z) : abook :=
  mk_norm (a_now s + d) (a_ents s) (a_recs s).

(* reads *)
Definition a_addrs (s : abook) (p : Z) : list Z :=
  map ea (filter (fun e => ep e =? p) (a_ents s)).
Definition a_getrec (s : abook) (p : Z) : Z :=
  match find_rec p (a_recs s) with Some r => rid r | None => 0 end.
Fixpoint zdedup (l : list Z) : list Z :=
  match l with [] => [] | x :: r => if zmem x r then zdedup r else x :: zdedup r end.
Definition a_peers (s : abook) : list Z := zdedup (map ep (a_ents s)).

(* ---- the operation language of the histories ---------------------------- *)
Inductive op :=
| OAdd (p : Z) (ttl : Z) (addrs : list raw)
| OSet (p : Z) (ttl : Z) (addrs : list raw)
| OUpdate (p old new : Z)
| OClear (p : Z)
| OConsume (p seq id ttl : Z) (bad : bool) (addrs : list raw)
| OAddrs (p : Z)
| OPeers
| OGetRec (p : Z)
| OAdvance (d : Z)
| OGC
| OReopen.

(* what an operation answers *)
Inductive obs :=
| ONone
| OList (l : list Z)            (* Addrs, PeersWithAddrs: a set of ids *)
| OVal (v : Z)                  (* ConsumePeerRecord: 0 rejected 1 accepted 2 error; GetPeerRecord: record id, 0 = none *)
| OSizes (stored recs heap : Z). (* after GC: stored address entries, stored signed records,
                                   entries in the expiry heap (mem only; not judged by the property) *)

Definition zlen' {X} (l : list X) : Z := Z.of_nat (length l).

Definition a_step (s : abook) (o : op) : abook * obs :=
  match o with
  | OAdd p ttl l => (a_add s p l ttl, ONone)
  | OSet p ttl l => (a_set s p l ttl, ONone)
  | OUpdate p old new => (a_update s p old new, ONone)
  | OClear p => (a_clear s p, ONone)
  | OConsume p seq id ttl bad l =>
      if bad then (s, OVal 2)
      else let '(s', ok) := a_consume s p seq id l ttl in (s', OVal (if ok then 1 else 0))
  | OAddrs p => (s, OList (a_addrs s p))
  | OPeers => (s, OList (a_peers s))
  | OGetRec p => (s, OVal (a_getrec s p))
  | OAdvance d => (a_advance s d, ONone)
  | OGC => (s, OSizes (zlen' (a_ents s)) (zlen' (a_recs s)) 0)
  | OReopen => (s, ONone)
  end.

Fixpoint a_run (s : abook) (ops : list op) : abook :=
  match ops with [] => s | o :: r => a_run (fst (a_step s o)) r end.

Fixpoint a_trace (s : abook) (ops : list op) : list (op * obs) :=
  match ops with
  | [] => []
  | o :: r => let '(s', x) := a_step s o in (o, x) :: a_trace s' r
  end.

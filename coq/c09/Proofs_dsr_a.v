(* C09 — refinement of the datastore-backed model, part 1.
   Whole-second arithmetic, and the abstract book read as a finite map
   (peer, addr) |-> entry: lookup specifications of the list transformers its
   operations are made of.  (The ds book keeps a record sorted by expiry and
   deletes by swapping, so the two books can only be compared as maps.) *)
From Coq Require Import List ZArith Bool Lia Permutation.
From Verif Require Import lib.Wire gen.Consts_c09 c09.Abs c09.Model_mem c09.Model_ds c09.Spec c09.Proofs_mem.
Import ListNotations.
Local Open Scope Z_scope.

(* ---- whole seconds ------------------------------------------------------------- *)
Lemma SEC_pos : 0 < SEC.
Proof. reflexivity. Qed.

Lemma SEC_le_conn : SEC <= ConnectedAddrTTL.
Proof. unfold SEC, ConnectedAddrTTL. lia. Qed.

Lemma unix_mono a b : a <= b -> unix a <= unix b.
Proof. intros H. unfold unix. apply Z.div_le_mono; [exact SEC_pos|exact H]. Qed.

Lemma unix_max a b : unix (Z.max a b) = Z.max (unix a) (unix b).
Proof.
  destruct (Z.max_spec a b) as [[H ->]|[H ->]].
  - assert (a <= b) as H1 by lia. apply unix_mono in H1. lia.
  - apply unix_mono in H. lia.
Qed.

Definition whole (t : Z) : Prop := t mod SEC = 0.

Lemma whole_unix t : whole t -> t = SEC * unix t.
Proof. unfold whole, unix. intros H. apply Z.div_exact in H; [exact H|]. pose proof SEC_pos. lia. Qed.

Lemma whole_add a b : whole a -> whole b -> whole (a + b).
Proof.
  unfold whole. intros Ha Hb. pose proof SEC_pos. rewrite Z.add_mod by lia. rewrite Ha, Hb. reflexivity.
Qed.

Lemma whole_0 : whole 0.
Proof. reflexivity. Qed.

Lemma live_whole now x : whole now -> whole x -> (now <? x) = (unix now <? unix x).
Proof.
  intros Hn Hx. pose proof (whole_unix _ Hn). pose proof (whole_unix _ Hx). pose proof SEC_pos.
  destruct (Z.ltb_spec now x), (Z.ltb_spec (unix now) (unix x)); try reflexivity; nia.
Qed.

Lemma unix_add_sec t : unix (t + SEC) = unix t + 1.
Proof. unfold unix. replace (t + SEC) with (t + 1 * SEC) by lia. apply Z.div_add. pose proof SEC_pos. lia. Qed.

Lemma live_far now x : now + SEC <= x -> (now <? x) = true /\ (unix now <? unix x) = true.
Proof.
  intros Hx. pose proof SEC_pos. split; apply Z.ltb_lt; [lia|].
  pose proof (unix_mono _ _ Hx) as H1. rewrite unix_add_sec in H1. lia.
Qed.

(* an expiry the two books agree about: a whole second, or beyond every clock value *)
Definition gexp (x : Z) : Prop := whole x \/ ConnectedAddrTTL <= x.
(* the clock of a history the two books agree about *)
Definition clk (now : Z) : Prop := whole now /\ 0 <= now /\ now + SEC <= ConnectedAddrTTL.
(* a TTL the two books agree about: not positive, whole seconds, or the connected class *)
Definition ttl_okP (t : Z) : Prop := t <= 0 \/ whole t \/ ConnectedAddrTTL <= t.

Lemma live_agree now x : clk now -> gexp x -> (now <? x) = (unix now <? unix x).
Proof.
  intros [Hw [H0 Hc]] [Hx|Hx]; [now apply live_whole|].
  destruct (live_far now x) as [-> ->]; [lia|reflexivity].
Qed.

Lemma gexp_max a b : gexp a -> gexp b -> gexp (Z.max a b).
Proof. intros Ha Hb. destruct (Z.max_spec a b) as [[_ ->]|[_ ->]]; assumption. Qed.

Lemma gexp_fresh now t : clk now -> ttl_okP t -> 0 < t -> gexp (now + t).
Proof.
  intros [Hw [H0 Hc]] [Ht|[Ht|Ht]] Hp; [lia|left; now apply whole_add|right; lia].
Qed.

Lemma fresh_agree now t : clk now -> ttl_okP t -> (now <? now + t) = (unix now <? unix (now + t)).
Proof.
  intros Hc Ht. destruct (Z.ltb_spec 0 t) as [Hp|Hp].
  - apply live_agree; [exact Hc|now apply gexp_fresh].
  - assert (H1 : now + t <= now) by lia. pose proof (unix_mono _ _ H1).
    destruct (Z.ltb_spec now (now + t)), (Z.ltb_spec (unix now) (unix (now + t))); try reflexivity; lia.
Qed.

(* ---- the abstract entries as a map ------------------------------------------------ *)
Definition akey (e : aent) : Z * Z := (ep e, ea e).

Lemma key_is_iff p a e : key_is p a e = true <-> akey e = (p, a).
Proof.
  unfold key_is, akey. rewrite andb_true_iff, !Z.eqb_eq. split; [intros [-> ->]; reflexivity|].
  intros H. injection H as -> ->. tauto.
Qed.

Lemma key_is_false p a e : key_is p a e = false <-> akey e <> (p, a).
Proof. rewrite <- key_is_iff. destruct (key_is p a e); split; congruence. Qed.

Lemma find_ent_some p a l e : find_ent p a l = Some e -> In e l /\ ep e = p /\ ea e = a.
Proof.
  unfold find_ent. intros H. apply find_some in H. destruct H as [H1 H2].
  apply key_is_eq in H2. tauto.
Qed.

Lemma find_ent_none p a l : find_ent p a l = None -> forall e, In e l -> akey e <> (p, a).
Proof. unfold find_ent. intros H e He. apply key_is_false. exact (find_none _ _ H e He). Qed.

Lemma find_ent_in l e : NoDup (map akey l) -> In e l -> find_ent (ep e) (ea e) l = Some e.
Proof.
  unfold find_ent. induction l as [|x r IH]; intros Hn He; [destruct He|]. cbn [find].
  cbn [map] in Hn. apply NoDup_cons_iff in Hn. destruct Hn as [Hx Hr].
  destruct (key_is (ep e) (ea e) x) eqn:K.
  - destruct He as [->|He]; [reflexivity|]. exfalso. apply Hx. apply key_is_iff in K.
    rewrite K. change (ep e, ea e) with (akey e). now apply in_map.
  - destruct He as [->|He]; [|now apply IH]. exfalso. apply key_is_false in K. now apply K.
Qed.

Lemma find_ent_cons q x e r :
  find_ent q x (e :: r) = if key_is q x e then Some e else find_ent q x r.
Proof. reflexivity. Qed.

Definition same_key (q x p a : Z) : bool := (q =? p) && (x =? a).

Lemma same_key_iff q x p a : same_key q x p a = true <-> q = p /\ x = a.
Proof. unfold same_key. now rewrite andb_true_iff, !Z.eqb_eq. Qed.

Lemma key_is_mk q x p a t u : key_is q x (mkE p a t u) = same_key q x p a.
Proof. unfold key_is, same_key. cbn. now rewrite (Z.eqb_sym p q), (Z.eqb_sym a x). Qed.

(* two keys: if e has key (p,a), it has key (q,x) iff the keys are the same *)
Lemma key_is_trans q x p a e : key_is p a e = true -> key_is q x e = same_key q x p a.
Proof.
  intros K. apply key_is_eq in K. destruct K as [<- <-]. unfold key_is, same_key.
  now rewrite (Z.eqb_sym (ep e) q), (Z.eqb_sym (ea e) x).
Qed.

Lemma key_is_excl q x p a e : key_is p a e = false -> key_is q x e = true -> same_key q x p a = false.
Proof.
  intros K1 K2. destruct (same_key q x p a) eqn:S; [|reflexivity]. apply same_key_iff in S.
  destruct S as [-> ->]. congruence.
Qed.

(* AddAddrs on one address *)
Definition mg (p a t u : Z) (o : option aent) : aent :=
  match o with
  | Some e => mkE p a (Z.max (ettl e) t) (Z.max (eexp e) u)
  | None => mkE p a t u
  end.

Lemma find_upsert_ext q x p a t u l :
  find_ent q x (upsert_ext p a t u l) =
  if same_key q x p a then Some (mg p a t u (find_ent p a l)) else find_ent q x l.
Proof.
  induction l as [|e r IH]; cbn [upsert_ext].
  - rewrite find_ent_cons, key_is_mk. cbn. destruct (same_key q x p a); reflexivity.
  - rewrite (find_ent_cons p a e r). destruct (key_is p a e) eqn:K.
    + rewrite find_ent_cons, key_is_mk. cbn [mg]. destruct (same_key q x p a) eqn:S; [reflexivity|].
      rewrite find_ent_cons. now rewrite (key_is_trans q x p a e K), S.
    + rewrite !find_ent_cons. destruct (key_is q x e) eqn:K2.
      * now rewrite (key_is_excl q x p a e K K2).
      * exact IH.
Qed.

Lemma find_upsert_set q x p a t u l :
  find_ent q x (upsert_set p a t u l) =
  if same_key q x p a then Some (mkE p a t u) else find_ent q x l.
Proof.
  induction l as [|e r IH]; cbn [upsert_set].
  - rewrite find_ent_cons, key_is_mk. cbn. destruct (same_key q x p a); reflexivity.
  - destruct (key_is p a e) eqn:K.
    + rewrite find_ent_cons, key_is_mk. destruct (same_key q x p a) eqn:S; [reflexivity|].
      rewrite find_ent_cons. now rewrite (key_is_trans q x p a e K), S.
    + rewrite !find_ent_cons. destruct (key_is q x e) eqn:K2.
      * now rewrite (key_is_excl q x p a e K K2).
      * exact IH.
Qed.

Lemma find_remove_ent q x p a l :
  find_ent q x (remove_ent p a l) = if same_key q x p a then None else find_ent q x l.
Proof.
  unfold remove_ent. induction l as [|e r IH]; cbn [filter].
  - cbn. destruct (same_key q x p a); reflexivity.
  - destruct (key_is p a e) eqn:K; cbn [negb].
    + rewrite IH, find_ent_cons. rewrite (key_is_trans q x p a e K). destruct (same_key q x p a); reflexivity.
    + rewrite !find_ent_cons. destruct (key_is q x e) eqn:K2; [|exact IH].
      now rewrite (key_is_excl q x p a e K K2).
Qed.

(* a key-preserving map *)
Lemma find_map_keep (f : aent -> aent) q x l :
  (forall e, akey (f e) = akey e) ->
  find_ent q x (map f l) = option_map f (find_ent q x l).
Proof.
  intros Hf. induction l as [|e r IH]; cbn [map]; [reflexivity|]. rewrite !find_ent_cons.
  assert (K : key_is q x (f e) = key_is q x e).
  { destruct (key_is q x e) eqn:K.
    - apply key_is_iff. rewrite Hf. now apply key_is_iff.
    - apply key_is_false. rewrite Hf. now apply key_is_false. }
  rewrite K. destruct (key_is q x e); [reflexivity|exact IH].
Qed.

(* a filter, on a list without duplicate keys *)
Lemma find_filter (f : aent -> bool) q x l :
  NoDup (map akey l) ->
  find_ent q x (filter f l) =
  match find_ent q x l with Some e => if f e then Some e else None | None => None end.
Proof.
  induction l as [|e r IH]; intros Hn; cbn [filter]; [reflexivity|].
  cbn [map] in Hn. apply NoDup_cons_iff in Hn. destruct Hn as [He Hr].
  rewrite (find_ent_cons q x e r). destruct (key_is q x e) eqn:K.
  - destruct (f e); [now rewrite find_ent_cons, K|]. rewrite (IH Hr).
    destruct (find_ent q x r) as [e'|] eqn:F; [|reflexivity]. exfalso. apply He.
    apply find_ent_some in F. destruct F as [Hin [Hp Ha]]. apply key_is_iff in K. rewrite K.
    replace (q, x) with (akey e') by (unfold akey; congruence). now apply in_map.
  - destruct (f e); [rewrite find_ent_cons, K|]; now apply IH.
Qed.

(* ---- keys stay distinct --------------------------------------------------------------- *)
Lemma nodup_map_filter {A B} (g : A -> B) (f : A -> bool) l : NoDup (map g l) -> NoDup (map g (filter f l)).
Proof.
  induction l as [|x r IH]; cbn [filter map]; intros H; [constructor|].
  apply NoDup_cons_iff in H. destruct H as [Hx Hr]. destruct (f x); cbn [map]; [|now apply IH].
  constructor; [|now apply IH]. intros Hin. apply Hx. apply in_map_iff in Hin.
  destruct Hin as [y [Hy Hin]]. apply filter_In in Hin. rewrite <- Hy. apply in_map. tauto.
Qed.

Lemma keys_upsert_ext p a t u l k :
  In k (map akey (upsert_ext p a t u l)) -> In k (map akey l) \/ k = (p, a).
Proof.
  induction l as [|e r IH]; cbn [upsert_ext map In].
  - intros [<-|[]]. now right.
  - destruct (key_is p a e) eqn:K; cbn [map In].
    + intros [<-|H]; [right; reflexivity|left; now right].
    + intros [<-|H]; [left; now left|]. destruct (IH H); [left; now right|now right].
Qed.

Lemma nodup_upsert_ext p a t u l : NoDup (map akey l) -> NoDup (map akey (upsert_ext p a t u l)).
Proof.
  induction l as [|e r IH]; cbn [upsert_ext map]; intros H.
  - constructor; [intros []|constructor].
  - apply NoDup_cons_iff in H. destruct H as [He Hr]. destruct (key_is p a e) eqn:K; cbn [map].
    + apply key_is_iff in K. constructor; [|exact Hr]. unfold akey at 1. cbn. now rewrite <- K.
    + constructor; [|now apply IH]. intros Hin. destruct (keys_upsert_ext _ _ _ _ _ _ Hin) as [H1|H1]; [now apply He|].
      apply key_is_false in K. now apply K.
Qed.

Lemma keys_upsert_set p a t u l k :
  In k (map akey (upsert_set p a t u l)) -> In k (map akey l) \/ k = (p, a).
Proof.
  induction l as [|e r IH]; cbn [upsert_set map In].
  - intros [<-|[]]. now right.
  - destruct (key_is p a e) eqn:K; cbn [map In].
    + intros [<-|H]; [right; reflexivity|left; now right].
    + intros [<-|H]; [left; now left|]. destruct (IH H); [left; now right|now right].
Qed.

Lemma nodup_upsert_set p a t u l : NoDup (map akey l) -> NoDup (map akey (upsert_set p a t u l)).
Proof.
  induction l as [|e r IH]; cbn [upsert_set map]; intros H.
  - constructor; [intros []|constructor].
  - apply NoDup_cons_iff in H. destruct H as [He Hr]. destruct (key_is p a e) eqn:K; cbn [map].
    + apply key_is_iff in K. constructor; [|exact Hr]. unfold akey at 1. cbn. now rewrite <- K.
    + constructor; [|now apply IH]. intros Hin. destruct (keys_upsert_set _ _ _ _ _ _ Hin) as [H1|H1]; [now apply He|].
      apply key_is_false in K. now apply K.
Qed.

Lemma nodup_map_keep (f : aent -> aent) l :
  (forall e, akey (f e) = akey e) -> NoDup (map akey l) -> NoDup (map akey (map f l)).
Proof. intros Hf H. rewrite map_map. rewrite (map_ext _ akey Hf). exact H. Qed.

(* ---- the folds of the operations ---------------------------------------------------------- *)
Lemma mg_idem p a t u o : mg p a t u (Some (mg p a t u o)) = mg p a t u o.
Proof. destruct o as [e|]; cbn [mg ettl eexp]; f_equal; lia. Qed.

Lemma find_add_list q x p t now addrs l :
  find_ent q x (add_list p t now addrs l) =
  if (q =? p) && zmem x addrs then Some (mg p x t (now + t) (find_ent p x l)) else find_ent q x l.
Proof.
  unfold add_list. revert l. induction addrs as [|a r IH]; intros l; cbn [fold_left].
  - unfold zmem. cbn [existsb]. now rewrite andb_false_r.
  - rewrite IH. rewrite !find_upsert_ext. unfold zmem. cbn [existsb]. fold (zmem x r). unfold same_key.
    destruct (Z.eqb_spec q p) as [->|Hq]; cbn [andb]; [|reflexivity]. rewrite Z.eqb_refl. cbn [andb].
    destruct (Z.eqb_spec x a) as [->|Hx]; cbn [orb].
    + destruct (zmem a r); [now rewrite mg_idem|reflexivity].
    + reflexivity.
Qed.

Lemma nodup_add_list p t now addrs l : NoDup (map akey l) -> NoDup (map akey (add_list p t now addrs l)).
Proof.
  unfold add_list. revert l. induction addrs as [|a r IH]; intros l H; cbn [fold_left]; [exact H|].
  apply IH. now apply nodup_upsert_ext.
Qed.

Lemma find_set_fold q x p t u addrs l :
  find_ent q x (set_fold_a p t u addrs l) =
  if (q =? p) && zmem x addrs then (if 0 <? t then Some (mkE p x t u) else None) else find_ent q x l.
Proof.
  unfold set_fold_a. revert l. induction addrs as [|a r IH]; intros l; cbn [fold_left].
  - unfold zmem. cbn [existsb]. now rewrite andb_false_r.
  - rewrite IH. unfold a_set_one. unfold zmem. cbn [existsb]. fold (zmem x r).
    destruct (Z.eqb_spec q p) as [->|Hq]; cbn [andb].
    + destruct (zmem x r); [now rewrite orb_true_r|]. rewrite orb_false_r.
      destruct (0 <? t); [rewrite find_upsert_set|rewrite find_remove_ent]; unfold same_key; rewrite Z.eqb_refl; cbn [andb];
        destruct (Z.eqb_spec x a) as [->|Hx]; reflexivity.
    + destruct (0 <? t); [rewrite find_upsert_set|rewrite find_remove_ent]; unfold same_key;
        destruct (Z.eqb_spec q p); try congruence; reflexivity.
Qed.

Lemma nodup_set_fold p t u addrs l : NoDup (map akey l) -> NoDup (map akey (set_fold_a p t u addrs l)).
Proof.
  unfold set_fold_a. revert l. induction addrs as [|a r IH]; intros l H; cbn [fold_left]; [exact H|].
  apply IH. unfold a_set_one. destruct (0 <? t); [now apply nodup_upsert_set|].
  unfold remove_ent. now apply nodup_map_filter.
Qed.

(* eviction of the previous record's addresses *)
Definition evicted (p : Z) (prev new : list Z) (l : list aent) (x : Z) : bool :=
  zmem x prev && negb (zmem x new) &&
  match find_ent p x l with Some e => negb (conn (ettl e)) | None => false end.

Definition evict_one (p : Z) (new : list Z) (l : list aent) (a : Z) : list aent :=
  if zmem a new then l
  else match find_ent p a l with
       | Some e => if conn (ettl e) then l else remove_ent p a l
       | None => l
       end.

Lemma evict_unfold p prev new l : evict_superseded p prev new l = fold_left (evict_one p new) prev l.
Proof. reflexivity. Qed.

Lemma find_evict_one q x p new l a :
  find_ent q x (evict_one p new l a) =
  if (q =? p) && (x =? a) && negb (zmem a new) &&
     match find_ent p a l with Some e => negb (conn (ettl e)) | None => false end
  then None else find_ent q x l.
Proof.
  unfold evict_one. destruct (zmem a new); cbn [negb]; [now rewrite andb_false_r|]. rewrite andb_true_r.
  destruct (find_ent p a l) as [e|] eqn:F; [|now rewrite andb_false_r].
  destruct (conn (ettl e)); cbn [negb]; [now rewrite andb_false_r|]. rewrite andb_true_r.
  rewrite find_remove_ent. reflexivity.
Qed.

Lemma find_evict q x p prev new l :
  find_ent q x (evict_superseded p prev new l) =
  if (q =? p) && evicted p prev new l x then None else find_ent q x l.
Proof.
  rewrite evict_unfold. unfold evicted. revert l. induction prev as [|a r IH]; intros l; cbn [fold_left].
  - unfold zmem at 1. cbn [existsb]. cbn [andb]. now rewrite andb_false_r.
  - rewrite IH. clear IH. unfold zmem at 3. cbn [existsb]. fold (zmem x r).
    destruct (Z.eqb_spec q p) as [->|Hq]; cbn [andb].
    2:{ rewrite find_evict_one. destruct (Z.eqb_spec q p); [congruence|reflexivity]. }
    rewrite !find_evict_one. rewrite Z.eqb_refl. cbn [andb].
    destruct (Z.eqb_spec x a) as [->|Hx]; cbn [orb andb].
    + destruct (zmem a new) eqn:N; cbn [negb andb].
      * rewrite !andb_false_r. reflexivity.
      * destruct (find_ent p a l) as [e|] eqn:F.
        -- destruct (conn (ettl e)) eqn:C; cbn [negb].
           ++ rewrite C. cbn [negb]. now rewrite andb_false_r.
           ++ destruct (zmem a r); reflexivity.
        -- now rewrite !andb_false_r.
    + reflexivity.
Qed.

Lemma nodup_evict p prev new l : NoDup (map akey l) -> NoDup (map akey (evict_superseded p prev new l)).
Proof.
  rewrite evict_unfold. revert l. induction prev as [|a r IH]; intros l H; cbn [fold_left]; [exact H|].
  apply IH. unfold evict_one. destruct (zmem a new); [exact H|]. destruct (find_ent p a l) as [e|]; [|exact H].
  destruct (conn (ettl e)); [exact H|]. unfold remove_ent. now apply nodup_map_filter.
Qed.

(* ---- signed records as a map peer |-> record ------------------------------------------------ *)
Lemma find_rec_some p l r : find_rec p l = Some r -> In r l /\ rp r = p.
Proof. unfold find_rec. intros H. apply find_some in H. now rewrite Z.eqb_eq in H. Qed.

Lemma find_rec_filter_gen (f : arec -> bool) p recs :
  NoDup (map rp recs) ->
  find_rec p (filter f recs) =
  match find_rec p recs with Some r => if f r then Some r else None | None => None end.
Proof.
  unfold find_rec. induction recs as [|r t IH]; intros Hn; cbn [filter find]; [reflexivity|].
  cbn [map] in Hn. apply NoDup_cons_iff in Hn. destruct Hn as [Hr Ht].
  destruct (rp r =? p) eqn:E.
  - destruct (f r); [cbn [find]; now rewrite E|]. rewrite (IH Ht).
    destruct (find (fun r0 => rp r0 =? p) t) as [r'|] eqn:F; [|reflexivity]. exfalso. apply Hr.
    apply find_some in F. destruct F as [Hin Hp]. apply Z.eqb_eq in E, Hp. rewrite E, <- Hp. now apply in_map.
  - destruct (f r); [cbn [find]; rewrite E|]; now apply IH.
Qed.

Lemma find_set_rec q r recs : find_rec q (set_rec r recs) = if rp r =? q then Some r else find_rec q recs.
Proof.
  unfold set_rec, remove_rec, find_rec. induction recs as [|y t IH]; cbn [filter app find]; [reflexivity|].
  destruct (Z.eqb_spec (rp y) (rp r)) as [E|E]; cbn [negb app find].
  - rewrite IH. destruct (Z.eqb_spec (rp r) q) as [F|F]; [reflexivity|].
    destruct (Z.eqb_spec (rp y) q); [congruence|reflexivity].
  - rewrite IH. destruct (Z.eqb_spec (rp y) q) as [G|G]; [|reflexivity].
    destruct (Z.eqb_spec (rp r) q); [congruence|reflexivity].
Qed.

Lemma nodup_snoc {A} (l : list A) x : NoDup l -> ~ In x l -> NoDup (l ++ [x]).
Proof.
  induction l as [|y t IH]; intros H Hx; cbn [app]; [constructor; [intros []|constructor]|].
  apply NoDup_cons_iff in H. destruct H as [Hy Ht]. constructor.
  - intros Hin. apply in_app_or in Hin. destruct Hin as [Hin|[<-|[]]]; [now apply Hy|]. apply Hx. now left.
  - apply IH; [exact Ht|]. intros Hin. apply Hx. now right.
Qed.

Lemma nodup_set_rec r recs : NoDup (map rp recs) -> NoDup (map rp (set_rec r recs)).
Proof.
  intros H. unfold set_rec. rewrite map_app. cbn [map]. apply nodup_snoc.
  - unfold remove_rec. now apply nodup_map_filter.
  - intros Hin. apply in_map_iff in Hin. destruct Hin as [y [Hy Hin]]. unfold remove_rec in Hin.
    apply filter_In in Hin. destruct Hin as [_ Hne]. apply negb_true_iff, Z.eqb_neq in Hne. congruence.
Qed.

Lemma find_remove_rec q p recs : find_rec q (remove_rec p recs) = if p =? q then None else find_rec q recs.
Proof.
  unfold remove_rec, find_rec. induction recs as [|y t IH]; cbn [filter find]; [now destruct (p =? q)|].
  destruct (Z.eqb_spec (rp y) p) as [E|E]; cbn [negb find]; rewrite IH.
  - destruct (Z.eqb_spec p q) as [F|F]; [reflexivity|]. destruct (Z.eqb_spec (rp y) q); [congruence|reflexivity].
  - destruct (Z.eqb_spec (rp y) q) as [G|G]; [|reflexivity]. destruct (Z.eqb_spec p q); [congruence|reflexivity].
Qed.

Lemma has_peer_find p l : has_peer p l = true <-> exists x e, find_ent p x l = Some e.
Proof.
  unfold has_peer. rewrite existsb_exists. split.
  - intros [e [He Hp]]. apply Z.eqb_eq in Hp. exists (ea e). destruct (find_ent p (ea e) l) as [e'|] eqn:F; [now exists e'|].
    exfalso. apply (find_ent_none _ _ _ F e He). unfold akey. now rewrite Hp.
  - intros [x [e F]]. apply find_ent_some in F. exists e. split; [tauto|]. apply Z.eqb_eq. tauto.
Qed.

(* ---- the invariant of the abstract book ---------------------------------------------------------- *)
Definition egood (e : aent) : Prop := 0 < ettl e /\ gexp (eexp e).

Record AInv (a : abook) : Prop := mkAInv {
  AI_live : all_live (a_now a) (a_ents a);
  AI_keys : NoDup (map akey (a_ents a));
  AI_good : forall e, In e (a_ents a) -> egood e;
  AI_recs : recs_ok (a_ents a) (a_recs a);
  AI_rkeys : NoDup (map rp (a_recs a))
}.

Lemma AInv_init : AInv a_init.
Proof. constructor; cbn; try (intros ? []); constructor. Qed.

Lemma mk_norm_now now X Y : a_now (mk_norm now X Y) = now.
Proof. reflexivity. Qed.

Lemma mk_norm_inv now X Y :
  NoDup (map akey X) -> (forall e, In e X -> live now e = true -> egood e) -> NoDup (map rp Y) ->
  AInv (mk_norm now X Y).
Proof.
  intros HX HG HY. rewrite mk_norm_eq. constructor; cbn [a_now a_ents a_recs].
  - intros e He. unfold Ls in He. apply filter_In in He. tauto.
  - unfold Ls. now apply nodup_map_filter.
  - intros e He. unfold Ls in He. apply filter_In in He. now apply HG.
  - intros r Hr. apply filter_In in Hr. unfold hp in Hr. tauto.
  - now apply nodup_map_filter.
Qed.

Lemma mk_norm_find_ent now X Y q x :
  NoDup (map akey X) ->
  find_ent q x (a_ents (mk_norm now X Y)) =
  match find_ent q x X with Some e => if live now e then Some e else None | None => None end.
Proof. intros H. rewrite mk_norm_eq. cbn [a_ents]. unfold Ls. now apply find_filter. Qed.

Lemma mk_norm_find_rec now X Y q :
  NoDup (map rp Y) ->
  find_rec q (a_recs (mk_norm now X Y)) =
  match find_rec q Y with
  | Some r => if has_peer q (a_ents (mk_norm now X Y)) then Some r else None
  | None => None
  end.
Proof.
  intros H. rewrite mk_norm_eq. cbn [a_ents a_recs]. rewrite (find_rec_filter_gen _ _ _ H).
  destruct (find_rec q Y) as [r|] eqn:F; [|reflexivity]. apply find_rec_some in F. unfold hp. now rewrite (proj2 F).
Qed.

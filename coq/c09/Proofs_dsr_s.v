(* C09 — refinement of the datastore-backed model, part 3.
   The datastore of the cache-less book as a finite map peer |-> record: what loadRecord
   hands out, what a cleaned-and-flushed write leaves, and the view (live entries, certified
   record while an entry is live) that the abstract book is compared with. *)
From Coq Require Import List ZArith Bool Lia Permutation.
From Verif Require Import lib.Wire gen.Consts_c09 c09.Abs c09.Model_mem c09.Model_ds c09.Spec
  c09.Proofs_mem c09.Proofs_ds c09.Proofs_dsr_a c09.Proofs_dsr_d.
Import ListNotations.
Local Open Scope Z_scope.

Record SInv (st : list drec) : Prop := mkSInv {
  SI_sorted : all_sorted st;
  SI_nodup : forall r, In r st -> NoDup (map da (daddrs r));
  SI_nonempty : forall r, In r st -> daddrs r <> [];
  SI_clean : forall r, In r st -> ddirty r = false;
  SI_keys : NoDup (map dp st)
}.

Record DInv (s : dbook) : Prop := mkDInv {
  DI_cache : d_cache s = [];
  DI_cached : d_cached s = false;
  DI_store : SInv (d_store s);
  DI_clk : clk (d_now s);
  DI_look : 0 <= d_look s
}.

Definition frame (s s' : dbook) : Prop :=
  d_now s' = d_now s /\ d_look s' = d_look s /\ d_keys s' = d_keys s /\ d_wend s' = d_wend s /\
  d_cache s' = d_cache s /\ d_cached s' = d_cached s.

Lemma frame_refl s : frame s s.
Proof. unfold frame. tauto. Qed.

Lemma frame_trans s1 s2 s3 : frame s1 s2 -> frame s2 s3 -> frame s1 s3.
Proof. unfold frame. intros [? [? [? [? [? ?]]]]] [? [? [? [? [? ?]]]]]. repeat split; congruence. Qed.

Lemma frame_set_store s st : frame s (set_store s st).
Proof. unfold frame, set_store. cbn. tauto. Qed.

Lemma DInv_frame s s' : DInv s -> frame s s' -> SInv (d_store s') -> DInv s'.
Proof.
  intros [H1 H2 H3 H4 H5] [F1 [F2 [F3 [F4 [F5 F6]]]]] HS. constructor; try congruence; try exact HS.
Qed.

(* ---- put / delete ---------------------------------------------------------------------- *)
Lemma dp_put_dr x l q : In q (map dp (put_dr x l)) <-> q = dp x \/ In q (map dp l).
Proof.
  induction l as [|r t IH]; cbn [put_dr map In]; [intuition congruence|].
  destruct (Z.eqb_spec (dp r) (dp x)) as [E|E]; cbn [map In].
  - rewrite E. intuition congruence.
  - rewrite IH. intuition congruence.
Qed.

Lemma nodup_put_dr x l : NoDup (map dp l) -> NoDup (map dp (put_dr x l)).
Proof.
  induction l as [|r t IH]; cbn [put_dr map]; intros H; [constructor; [intros []|constructor]|].
  apply NoDup_cons_iff in H. destruct H as [Hr Ht].
  destruct (Z.eqb_spec (dp r) (dp x)) as [E|E]; cbn [map].
  - rewrite <- E. now constructor.
  - constructor; [|now apply IH]. intros Hin. apply dp_put_dr in Hin. destruct Hin as [Hin|Hin]; [congruence|now apply Hr].
Qed.

Lemma in_flush_store pr st r :
  In r (flush_store pr st) ->
  (r = mkDR (dp pr) (daddrs pr) (dcert pr) false /\ daddrs pr <> []) \/ In r st.
Proof.
  unfold flush_store. destruct (daddrs pr) as [|x t] eqn:D.
  - unfold del_dr. intros H. apply filter_In in H. tauto.
  - intros H. apply in_put_dr in H. destruct H as [->|H]; [left; split; [reflexivity|discriminate]|now right].
Qed.

Lemma dp_flush_store pr st q :
  In q (map dp (flush_store pr st)) -> In q (map dp st) \/ (q = dp pr /\ daddrs pr <> []).
Proof.
  unfold flush_store. destruct (daddrs pr) as [|x t] eqn:D.
  - unfold del_dr. intros H. apply in_map_iff in H. destruct H as [r [<- H]]. apply filter_In in H. left. apply in_map. tauto.
  - intros H. apply dp_put_dr in H. cbn [dp] in H. destruct H as [->|H]; [right; split; [reflexivity|discriminate]|now left].
Qed.

Lemma SInv_flush pr st :
  SInv st -> sorted_exp (daddrs pr) -> NoDup (map da (daddrs pr)) -> SInv (flush_store pr st).
Proof.
  intros [H1 H2 H3 H4 H5] Hs Hn. constructor.
  - now apply sorted_flush_store.
  - intros r Hr. apply in_flush_store in Hr. destruct Hr as [[-> _]|Hr]; [exact Hn|now apply H2].
  - intros r Hr. apply in_flush_store in Hr. destruct Hr as [[-> Hne]|Hr]; [exact Hne|now apply H3].
  - intros r Hr. apply in_flush_store in Hr. destruct Hr as [[-> _]|Hr]; [reflexivity|now apply H4].
  - unfold flush_store. destruct (daddrs pr); [unfold del_dr; now apply nodup_map_filter|now apply nodup_put_dr].
Qed.

Lemma SInv_nil : SInv [].
Proof. constructor; try (intros ? []). constructor. Qed.

Lemma SInv_del p st : SInv st -> SInv (del_dr p st).
Proof.
  intros [H1 H2 H3 H4 H5]. unfold del_dr. constructor.
  - intros r Hr. apply filter_In in Hr. now apply H1.
  - intros r Hr. apply filter_In in Hr. now apply H2.
  - intros r Hr. apply filter_In in Hr. now apply H3.
  - intros r Hr. apply filter_In in Hr. now apply H4.
  - now apply nodup_map_filter.
Qed.

Lemma in_find_dr st r : NoDup (map dp st) -> In r st -> find_dr (dp r) st = Some r.
Proof.
  unfold find_dr. induction st as [|y t IH]; intros Hn Hr; [destruct Hr|]. cbn [find].
  cbn [map] in Hn. apply NoDup_cons_iff in Hn. destruct Hn as [Hy Ht].
  destruct (Z.eqb_spec (dp y) (dp r)) as [E|E].
  - destruct Hr as [->|Hr]; [reflexivity|]. exfalso. apply Hy. rewrite E. now apply in_map.
  - destruct Hr as [->|Hr]; [congruence|now apply IH].
Qed.

Lemma find_dr_in_dp p st : In p (map dp st) -> exists r, find_dr p st = Some r.
Proof.
  intros H. apply in_map_iff in H. destruct H as [r [Hp Hr]]. destruct (find_dr p st) as [r'|] eqn:F; [now exists r'|].
  exfalso. unfold find_dr in F. pose proof (find_none _ _ F r Hr) as N. cbn in N. apply Z.eqb_neq in N. congruence.
Qed.

(* ---- the view of a peer ------------------------------------------------------------------- *)
Definition lents (u : Z) (st : list drec) (p : Z) : list dent :=
  match find_dr p st with Some r => filter (lv u) (daddrs r) | None => [] end.
Definition vcert (u : Z) (st : list drec) (p : Z) : option arec :=
  match find_dr p st with
  | Some r => match filter (lv u) (daddrs r) with [] => None | _ => dcert r end
  | None => None
  end.

(* the record of p has been replaced by (l, c), written through flush *)
Definition put_at (p : Z) (l : list dent) (c : option arec) (st st' : list drec) : Prop :=
  forall q, find_dr q st' = if p =? q then (match l with [] => None | _ => Some (mkDR p l c false) end)
                            else find_dr q st.

Lemma put_at_flush pr st : put_at (dp pr) (daddrs pr) (dcert pr) st (flush_store pr st).
Proof. intros q. rewrite find_flush_store. destruct (dp pr =? q); [|reflexivity]. now destruct (daddrs pr). Qed.

Lemma filter_lv_idem u l : filter (lv u) (filter (lv u) l) = filter (lv u) l.
Proof. rewrite filter_filter. apply filter_ext. intros e. now rewrite andb_diag. Qed.

Lemma put_at_views u p l c st st' :
  put_at p l c st st' ->
  (forall q, q <> p -> lents u st' q = lents u st q /\ vcert u st' q = vcert u st q) /\
  lents u st' p = filter (lv u) l /\
  vcert u st' p = match filter (lv u) l with [] => None | _ => c end.
Proof.
  intros H. unfold lents, vcert. split; [|split].
  - intros q Hq. rewrite (H q). destruct (Z.eqb_spec p q); [congruence|tauto].
  - rewrite (H p), Z.eqb_refl. destruct l; reflexivity.
  - rewrite (H p), Z.eqb_refl. destruct l; reflexivity.
Qed.

(* cleaning the stored record of p: the views of every peer are unchanged *)
Lemma put_at_cleaned u p r st st' :
  find_dr p st = Some r ->
  put_at p (filter (lv u) (daddrs r)) (match filter (lv u) (daddrs r) with [] => None | _ => dcert r end) st st' ->
  forall q, lents u st' q = lents u st q /\ vcert u st' q = vcert u st q.
Proof.
  intros F H q. destruct (put_at_views u _ _ _ _ _ H) as [Ho [Hl Hc]].
  destruct (Z.eq_dec q p) as [->|Hq]; [|now apply Ho]. rewrite Hl, Hc, filter_lv_idem. unfold lents, vcert. rewrite F.
  split; [reflexivity|]. now destruct (filter (lv u) (daddrs r)).
Qed.

Definition cleaned (u : Z) (r : drec) : drec :=
  mkDR (dp r) (filter (lv u) (daddrs r)) (match filter (lv u) (daddrs r) with [] => None | _ => dcert r end) false.

(* the core of loadRecord / purgeStore / purgeLookahead: clean the stored record, flush it when it changed *)
Lemma cstep_spec now st p r :
  SInv st -> find_dr p st = Some r ->
  exists chg, clean now (undirty r) = (cleaned (unix now) r, chg) /\
    let st' := if chg then flush_store (cleaned (unix now) r) st else st in
    SInv st' /\
    put_at p (daddrs (cleaned (unix now) r)) (dcert (cleaned (unix now) r)) st st' /\
    (forall q, In q (map dp st') -> In q (map dp st)).
Proof.
  intros HS F. pose proof (find_in _ _ _ F) as Hin. pose proof (find_dr_dp _ _ _ F) as Hp.
  destruct HS as [H1 H2 H3 H4 H5].
  pose proof (clean_stored_spec now r (H1 r Hin) (H3 r Hin) (H4 r Hin)) as C. cbn zeta in C.
  destruct (clean now (undirty r)) as [r1 chg]. destruct C as [-> Hun]. exists chg. split; [reflexivity|]. cbn zeta.
  fold (cleaned (unix now) r).
  assert (Hs1 : sorted_exp (daddrs (cleaned (unix now) r))) by (cbn; apply sorted_filter; now apply H1).
  assert (Hn1 : NoDup (map da (daddrs (cleaned (unix now) r)))) by (cbn; apply nodup_map_filter; now apply H2).
  destruct chg.
  - split; [apply SInv_flush; [now constructor|exact Hs1|exact Hn1]|]. split.
    + pose proof (put_at_flush (cleaned (unix now) r) st) as P. cbn [cleaned dp] in P. rewrite Hp in P. exact P.
    + intros q Hq. apply dp_flush_store in Hq. destruct Hq as [Hq|[-> _]]; [exact Hq|].
      cbn [cleaned dp]. now apply in_map.
  - split; [now constructor|]. split; [|tauto]. specialize (Hun eq_refl).
    intros q. cbn [cleaned daddrs dcert]. rewrite Hun. destruct (Z.eqb_spec p q) as [<-|Hq]; [|reflexivity].
    rewrite F. destruct (daddrs r) as [|x t] eqn:D; [exfalso; now apply (H3 r Hin)|].
    f_equal. destruct r; cbn in *. subst. f_equal. now apply H4 in Hin.
Qed.

(* ---- loadRecord on the cache-less book ---------------------------------------------------------- *)
Lemma load_nocache s p c u : d_cache s = [] -> d_cached s = false ->
  load s p c u =
  match find_dr p (d_store s) with
  | None => (s, mkDR p [] None false, false)
  | Some data =>
      let '(pr1, chg) := clean (d_now s) (undirty data) in
      if chg then (set_store s (flush_store pr1 (d_store s)), flushed pr1, false) else (s, pr1, false)
  end.
Proof.
  intros Hc Hcd. unfold load. rewrite Hc, Hcd. cbn [find_dr find]. rewrite andb_false_r.
  fold (find_dr p (d_store s)). destruct (find_dr p (d_store s)) as [data|]; [|reflexivity].
  destruct (clean (d_now s) (undirty data)) as [pr1 chg]. destruct chg; reflexivity.
Qed.

Lemma flushed_cleaned u r : flushed (cleaned u r) = cleaned u r.
Proof. unfold flushed, cleaned. cbn [dp daddrs dcert]. now destruct (filter (lv u) (daddrs r)). Qed.

Lemma load_spec s p c u : DInv s ->
  let U := unix (d_now s) in
  exists s1, load s p c u = (s1, mkDR p (lents U (d_store s) p) (vcert U (d_store s) p) false, false) /\
    DInv s1 /\ frame s s1 /\
    put_at p (lents U (d_store s) p) (vcert U (d_store s) p) (d_store s) (d_store s1) /\
    (forall q, In q (map dp (d_store s1)) -> In q (map dp (d_store s))).
Proof.
  intros HD. cbn zeta. pose proof HD as [Hc Hcd HS Hk Hl]. rewrite (load_nocache s p c u Hc Hcd).
  unfold lents, vcert. destruct (find_dr p (d_store s)) as [r|] eqn:F.
  - destruct (cstep_spec (d_now s) (d_store s) p r HS F) as [chg [Cl [HS' [HP Hsub]]]]. rewrite Cl.
    pose proof (find_dr_dp _ _ _ F) as Hp.
    assert (E : cleaned (unix (d_now s)) r =
                mkDR p (filter (lv (unix (d_now s))) (daddrs r))
                     (match filter (lv (unix (d_now s))) (daddrs r) with [] => None | _ => dcert r end) false)
      by (unfold cleaned; now rewrite Hp).
    rewrite <- E. destruct chg.
    + exists (set_store s (flush_store (cleaned (unix (d_now s)) r) (d_store s))).
      rewrite flushed_cleaned. split; [reflexivity|]. cbn [set_store d_store].
      split; [|split; [apply frame_set_store|split; [exact HP|exact Hsub]]].
      apply (DInv_frame s); [exact HD|apply frame_set_store|exact HS'].
    + exists s. split; [reflexivity|].
      split; [exact HD|split; [apply frame_refl|split; [exact HP|tauto]]].
  - exists s. split; [reflexivity|]. split; [exact HD|split; [apply frame_refl|split; [|tauto]]].
    intros q. destruct (Z.eqb_spec p q) as [<-|Hq]; [exact F|reflexivity].
Qed.

(* the views are untouched by loadRecord *)
Lemma load_views u s s1 p :
  put_at p (lents u (d_store s) p) (vcert u (d_store s) p) (d_store s) (d_store s1) ->
  forall q, lents u (d_store s1) q = lents u (d_store s) q /\ vcert u (d_store s1) q = vcert u (d_store s) q.
Proof.
  intros H q. destruct (find_dr p (d_store s)) as [r|] eqn:F.
  - apply (put_at_cleaned u p r); [exact F|]. unfold lents, vcert in H. now rewrite F in H.
  - unfold lents, vcert in H. rewrite F in H. unfold lents, vcert. rewrite (H q).
    destruct (Z.eqb_spec p q) as [<-|Hq]; [now rewrite F|tauto].
Qed.

(* ---- a write: the modified object is cleaned and flushed -------------------------------------------- *)
Lemma flush_nocache s pr : flush s pr false = set_store s (flush_store pr (d_store s)).
Proof. reflexivity. Qed.

Lemma write_spec s1 now p l c :
  DInv s1 -> NoDup (map da (filter (lv (unix now)) l)) ->
  let r2 := fst (clean now (mkDR p l c true)) in
  let s' := flush s1 r2 false in
  DInv s' /\ frame s1 s' /\ Permutation (daddrs r2) (filter (lv (unix now)) l) /\
  NoDup (map da (daddrs r2)) /\
  put_at p (daddrs r2) c (d_store s1) (d_store s') /\
  (forall q, In q (map dp (d_store s')) -> In q (map dp (d_store s1)) \/ (q = p /\ daddrs r2 <> [])).
Proof.
  intros HD Hn. cbn zeta. destruct (clean_dirty_spec now p l c) as [Hp [HP [Hs Hc]]].
  set (r2 := fst (clean now (mkDR p l c true))) in *. rewrite flush_nocache. cbn [set_store d_store].
  assert (Hn2 : NoDup (map da (daddrs r2))).
  { apply (Permutation_NoDup (Permutation_map da (Permutation_sym HP))). exact Hn. }
  split; [|split; [apply frame_set_store|split; [exact HP|split; [exact Hn2|split]]]].
  - apply (DInv_frame s1); [exact HD|apply frame_set_store|]. cbn [set_store d_store].
    apply SInv_flush; [apply HD|exact Hs|exact Hn2].
  - pose proof (put_at_flush r2 (d_store s1)) as P. rewrite Hp in P. intros q. rewrite (P q).
    destruct (p =? q); [|reflexivity]. rewrite Hc. now destruct (daddrs r2).
  - intros q Hq. apply dp_flush_store in Hq. rewrite Hp in Hq. tauto.
Qed.

Definition olive (u : Z) (o : option dent) : option dent :=
  match o with Some e => if lv u e then Some e else None | None => None end.

Lemma write_views u p l r2l c st st' :
  NoDup (map da l) -> Permutation r2l (filter (lv u) l) -> put_at p r2l c st st' ->
  (forall x, find_de x (lents u st' p) = olive u (find_de x l)) /\
  vcert u st' p = match lents u st' p with [] => None | _ => c end /\
  (forall q, q <> p -> lents u st' q = lents u st q /\ vcert u st' q = vcert u st q).
Proof.
  intros Hn HP H. destruct (put_at_views u _ _ _ _ _ H) as [Ho [Hl Hc]].
  assert (Hid : filter (lv u) r2l = r2l).
  { apply filter_id. intros e He. apply (Permutation_in _ HP) in He. apply filter_In in He. tauto. }
  rewrite Hid in Hl, Hc. split; [|split; [now rewrite Hl, Hc|exact Ho]].
  intros x. rewrite Hl. rewrite (find_de_perm _ _ x HP).
  - unfold olive. now apply find_de_filter.
  - apply (Permutation_NoDup (Permutation_map da (Permutation_sym HP))). now apply nodup_map_filter.
Qed.

(* a direct flush of an object whose addresses came from loadRecord (storeSignedPeerRecord) *)
Lemma flush_spec s1 p l c d :
  DInv s1 -> sorted_exp l -> NoDup (map da l) ->
  let s' := flush s1 (mkDR p l c d) false in
  DInv s' /\ frame s1 s' /\ put_at p l c (d_store s1) (d_store s') /\
  (forall q, In q (map dp (d_store s')) -> In q (map dp (d_store s1)) \/ (q = p /\ l <> [])).
Proof.
  intros HD Hs Hn. cbn zeta. rewrite flush_nocache. cbn [set_store d_store].
  split; [|split; [apply frame_set_store|split]].
  - apply (DInv_frame s1); [exact HD|apply frame_set_store|]. cbn [set_store d_store].
    apply SInv_flush; [apply HD|exact Hs|exact Hn].
  - exact (put_at_flush (mkDR p l c d) (d_store s1)).
  - intros q Hq. apply dp_flush_store in Hq. cbn [dp daddrs] in Hq. tauto.
Qed.

(* the stored, loaded list of a peer: sorted and without duplicate addresses *)
Lemma lents_sorted u st p : SInv st -> sorted_exp (lents u st p) /\ NoDup (map da (lents u st p)).
Proof.
  intros HS. unfold lents. destruct (find_dr p st) as [r|] eqn:F; [|split; [exact I|constructor]].
  pose proof (find_in _ _ _ F) as Hin. split; [apply sorted_filter; now apply HS|apply nodup_map_filter; now apply HS].
Qed.

Lemma lents_live u st p e : In e (lents u st p) -> lv u e = true.
Proof. unfold lents. destruct (find_dr p st); [|intros []]. intros H. apply filter_In in H. tauto. Qed.

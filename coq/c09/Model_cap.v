(* C09 — the per-peer address cap (MaxAddrsPerPeer / WithMaxAddressesPerPeer)
   when it BINDS.  No proofs here.

   pstoreds: setAddrs with the cap, transcribed literally
   (p2p/host/peerstore/pstoreds/addr_book.go):

     - unconnectedCount is computed ONCE, before the loop, over the entries
       the record holds then (only when maxCap > 0 and the incoming TTL class
       is unconnected);
     - addrsMap: address -> entry object, for every entry of pr.Addrs that has
       not been evicted in this call and for every entry the loop created
       (an evicted entry is deleted from addrsMap AND from pr.Addrs);
     - a named address found in addrsMap is updated in place (override /
       extend), whatever the count;
     - a named address not found is new: if the count has reached the cap,
       evictNearestUnconnected drops from pr.Addrs (the entries present before
       the loop — never one created by the loop) the unconnected entry with the
       soonest expiry (first one on ties: strict <); when pr.Addrs holds no
       unconnected entry the new address is dropped;
     - pr.Addrs = append(pr.Addrs, entries...), clean, flush.

   The state of the loop is (cur, fresh, cnt): pr.Addrs, entries,
   unconnectedCount; addrsMap is "find by address in cur, then in fresh".

   [dc_step cap] is the datastore-backed book of Model_ds.v with this loop in
   AddAddrs / SetAddrs / ConsumePeerRecord; it is replayed against the real
   pstoreds on every generated history whose per-peer cap binds (conform_case).

   pstoremem: the capped loop body of addAddrsUnlocked / SetAddrs on the
   peer's entries, with the choice of the victim among the entries of equal
   nearest expiry (Go map order) left open: a Section variable. *)
From Coq Require Import List ZArith Bool.
From Verif Require Import gen.Consts_c09 c09.Abs c09.Model_mem c09.Model_ds.
Import ListNotations.
Local Open Scope Z_scope.

(* ---- pstoreds ------------------------------------------------------------ *)
Definition unconn_d (e : dent) : bool := negb (conn (dttl e)).
Definition count_unconn (l : list dent) : Z := Z.of_nat (length (filter unconn_d l)).

(* evictNearestUnconnected's scan: (index, expiry) of the victim so far *)
Fixpoint nearest_from (l : list dent) (i : nat) (best : option (nat * Z)) : option (nat * Z) :=
  match l with
  | [] => best
  | e :: t =>
      nearest_from t (S i)
        (if conn (dttl e) then best
         else match best with
              | None => Some (i, dexp e)
              | Some (_, soonest) => if dexp e <? soonest then Some (i, dexp e) else best
              end)
  end.
Definition nearest_idx (l : list dent) : option nat := option_map fst (nearest_from l 0 None).

Fixpoint remove_nth (i : nat) (l : list dent) : list dent :=
  match l, i with
  | [], _ => []
  | _ :: t, O => t
  | x :: t, S j => x :: remove_nth j t
  end.

Definition capst := (list dent * list dent * Z)%type.

(* one iteration of "for _, incoming := range addrs" *)
Definition cap_one (mode : ttlmode) (ttl newexp cap : Z) (st : capst) (a : Z) : capst :=
  let '(cur, fresh, cnt) := st in
  match find_de a cur with
  | Some _ => (upd_existing mode a ttl newexp cur, fresh, cnt)
  | None =>
      match find_de a fresh with
      | Some _ => (cur, upd_existing mode a ttl newexp fresh, cnt)
      | None =>
          let unc := negb (conn ttl) in
          if (0 <? cap) && unc && (cap <=? cnt) then
            match nearest_idx cur with
            | None => st                                   (* every entry protected: dropped *)
            | Some i => (remove_nth i cur, fresh ++ [mkD a ttl newexp], cnt - 1 + 1)
            end
          else (cur, fresh ++ [mkD a ttl newexp], if unc then cnt + 1 else cnt)
      end
  end.

Definition cap_count0 (ttl cap : Z) (orig : list dent) : Z :=
  if (0 <? cap) && negb (conn ttl) then count_unconn orig else 0.

Definition cap_loop (mode : ttlmode) (ttl newexp cap : Z) (addrs : list Z) (orig : list dent) : capst :=
  fold_left (cap_one mode ttl newexp cap) addrs (orig, [], cap_count0 ttl cap orig).

(* the record object setAddrs hands to flush *)
Definition dc_batch_record (cap now : Z) (pr : drec) (addrs : list Z) (ttl : Z) (mode : ttlmode) : drec :=
  let '(cur, fresh, _) := cap_loop mode ttl (unix (now + ttl)) cap addrs (daddrs pr) in
  fst (clean now (mkDR (dp pr) (cur ++ fresh) (dcert pr) true)).

Definition dc_setaddrs (cap : Z) (s : dbook) (p : Z) (addrs : list Z) (ttl : Z) (mode : ttlmode) : dbook :=
  match addrs with
  | [] => s
  | _ =>
    let '(s1, pr, inc) := load s p true false in
    flush s1 (dc_batch_record cap (d_now s) (mkDR p (daddrs pr) (dcert pr) (ddirty pr)) addrs ttl mode) inc
  end.

Definition dc_add (cap : Z) (s : dbook) (p : Z) (addrs : list raw) (ttl : Z) : dbook :=
  if ttl <=? 0 then s else dc_setaddrs cap s p (clean_addrs addrs) ttl TExtend.

Definition dc_set (cap : Z) (s : dbook) (p : Z) (addrs : list raw) (ttl : Z) : dbook :=
  if ttl <=? 0 then d_deleteaddrs s p (clean_addrs addrs)
  else dc_setaddrs cap s p (clean_addrs addrs) ttl TOverride.

Definition dc_consume (cap : Z) (s : dbook) (p seq id : Z) (addrs : list raw) (ttl : Z) : dbook * Z :=
  let '(s1, pr, _) := load s p true false in
  let latest := match daddrs pr, dcert pr with
                | _ :: _, Some c => rseq c
                | _, _ => 0
                end in
  if seq <? latest then (s1, 0)
  else
    let new := clean_addrs addrs in
    let '(s2, prev) := d_getrec_full s1 p in
    let s4 := d_supersede s2 p prev new in
    let s5 := dc_setaddrs cap s4 p new ttl TExtend in
    (d_store_signed s5 p (mkR p seq id addrs), 1).

Definition dc_step (cap : Z) (s : dbook) (o : op) : dbook * obs :=
  match o with
  | OAdd p ttl l => (dc_add cap s p l ttl, ONone)
  | OSet p ttl l => (dc_set cap s p l ttl, ONone)
  | OConsume p seq id ttl bad l =>
      if bad then (s, OVal 2) else let '(s', r) := dc_consume cap s p seq id l ttl in (s', OVal r)
  | _ => d_step s o
  end.

Fixpoint dc_trace (cap : Z) (s : dbook) (ops : list op) : list (op * obs) :=
  match ops with
  | [] => []
  | o :: r => let '(s', x) := dc_step cap s o in (o, x) :: dc_trace cap s' r
  end.

(* the loop as the seeded change C09-m15 leaves it: the evicted entry stays in
   addrsMap ([ghost] = addresses of evicted entries); naming such an address
   again "updates" the orphaned object and nothing is stored.  Used only as a
   witness that the clause below is not vacuous. *)
Definition cap_one_orphan (mode : ttlmode) (ttl newexp cap : Z) (st : capst * list Z) (a : Z) : capst * list Z :=
  let '((cur, fresh, cnt), ghost) := st in
  if zmem a ghost then st
  else
    match find_de a cur, find_de a fresh with
    | None, None =>
        if (0 <? cap) && negb (conn ttl) && (cap <=? cnt) then
          match nearest_idx cur with
          | None => st
          | Some i => ((remove_nth i cur, fresh ++ [mkD a ttl newexp], cnt - 1 + 1),
                       da (nth i cur (mkD 0 0 0)) :: ghost)
          end
        else (cap_one mode ttl newexp cap (cur, fresh, cnt) a, ghost)
    | _, _ => (cap_one mode ttl newexp cap (cur, fresh, cnt) a, ghost)
    end.

(* ---- pstoremem ----------------------------------------------------------- *)
(* The peer's entries as (address, ttl, expiry); [choose] picks the victim
   among them (Go map iteration order decides between equal expiries). *)
Section MemCap.
  Variable choose : list dent -> option Z.      (* address of the entry to evict *)

  Definition mc_one (set : bool) (ttl exp cap : Z) (l : list dent) (a : Z) : list dent :=
    match find_de a l with
    | Some _ => upd_existing (if set then TOverride else TExtend) a ttl exp l
    | None =>
        if (0 <? cap) && negb (conn ttl) && (cap <=? count_unconn l) then
          match choose l with
          | None => l                                      (* every entry protected: dropped *)
          | Some v => filter (fun e => negb (da e =? v)) l ++ [mkD a ttl exp]
          end
        else l ++ [mkD a ttl exp]
    end.

  Definition mc_loop (set : bool) (ttl exp cap : Z) (addrs : list Z) (l : list dent) : list dent :=
    fold_left (mc_one set ttl exp cap) addrs l.
End MemCap.

(* evictNearestExpiryUnconnectedForPeerUnlocked with "first in list order" as the tie-break *)
Definition choose_first (l : list dent) : option Z :=
  match nearest_idx l with Some i => Some (da (nth i l (mkD 0 0 0))) | None => None end.

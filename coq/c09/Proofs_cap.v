(* C09 — the per-peer cap when it binds: "the most recent assignment is kept". *)
From Coq Require Import List ZArith Bool Lia Permutation.
From Verif Require Import gen.Consts_c09 c09.Abs c09.Model_mem c09.Model_ds c09.Model_cap c09.Spec
  c09.Proofs_ds c09.Proofs_dsr_d.
Import ListNotations.
Local Open Scope Z_scope.

(* ---- distinct_count ------------------------------------------------------- *)
Lemma zmem_In x l : zmem x l = true <-> In x l.
Proof.
  unfold zmem. rewrite existsb_exists. split.
  - intros [y [Hy E]]. apply Z.eqb_eq in E. now subst.
  - intros H. exists x. split; [assumption | apply Z.eqb_refl].
Qed.

Lemma distinct_count_nodup l : distinct_count l = Z.of_nat (length (nodup Z.eq_dec l)).
Proof.
  induction l as [|x r IH]; [reflexivity|].
  cbn [distinct_count nodup]. destruct (in_dec Z.eq_dec x r) as [Hi|Hn].
  - apply zmem_In in Hi. rewrite Hi. lia.
  - destruct (zmem x r) eqn:E; [apply zmem_In in E; contradiction|].
    cbn [length]. lia.
Qed.

Lemma distinct_ge (l m : list Z) a :
  NoDup l -> incl l m -> ~ In a l -> Z.of_nat (length l) + 1 <= distinct_count (m ++ [a]).
Proof.
  intros Hnd Hin Hna. rewrite distinct_count_nodup.
  assert (H : (length (a :: l) <= length (nodup Z.eq_dec (m ++ [a])))%nat).
  { apply NoDup_incl_length; [constructor; assumption|].
    intros x [Hx|Hx]; apply nodup_In, in_or_app.
    - right. left. assumption.
    - left. apply Hin, Hx. }
  cbn [length] in H. lia.
Qed.

Lemma NoDup_snoc (l : list Z) a : NoDup l -> ~ In a l -> NoDup (l ++ [a]).
Proof.
  intros H Hn. induction H as [|x r Hx Hr IH]; cbn.
  - constructor; [intros []|constructor].
  - constructor.
    + intros Hi. apply in_app_or in Hi. destruct Hi as [Hi|[E|[]]]; [contradiction|].
      subst. apply Hn. left. reflexivity.
    + apply IH. intros Hi. apply Hn. right. assumption.
Qed.

(* ---- the pstoreds loop ---------------------------------------------------- *)
Lemma find_de_None_notin a l : find_de a l = None -> ~ In a (map da l).
Proof.
  intros H Hin. apply in_map_iff in Hin. destruct Hin as [e [E Hin]].
  exact (find_de_none _ _ H e Hin E).
Qed.

Lemma upd_existing_hit mode a ttl nx l e0 :
  find_de a l = Some e0 ->
  exists e, In e (upd_existing mode a ttl nx l) /\ da e = a /\ nx <= dexp e.
Proof.
  induction l as [|x r IH]; cbn [upd_existing]; [discriminate|].
  rewrite find_de_cons. destruct (da x =? a) eqn:E.
  - intros _. destruct mode.
    + eexists. split; [left; reflexivity|]. cbn. split; [reflexivity|lia].
    + eexists. split; [left; reflexivity|]. cbn. split; [reflexivity|].
      destruct (dexp x <? nx) eqn:F; [lia | apply Z.ltb_ge in F; lia].
  - intros H. destruct (IH H) as [e [Hin He]]. exists e. split; [right; assumption | assumption].
Qed.

Lemma count_unconn_cons e l :
  count_unconn (e :: l) = (if unconn_d e then 1 else 0) + count_unconn l.
Proof.
  unfold count_unconn. cbn [filter]. destruct (unconn_d e); cbn [length]; lia.
Qed.

Lemma count_unconn_nonneg l : 0 <= count_unconn l.
Proof. unfold count_unconn. lia. Qed.

Lemma count_unconn_upd mode a ttl nx l :
  conn ttl = false -> count_unconn l <= count_unconn (upd_existing mode a ttl nx l).
Proof.
  intros Hc. induction l as [|x r IH]; cbn [upd_existing]; [lia|].
  destruct (da x =? a).
  - rewrite !count_unconn_cons.
    assert (unconn_d x = true ->
            unconn_d (match mode with
                      | TOverride => mkD a ttl nx
                      | TExtend => mkD a (if dttl x <? ttl then ttl else dttl x)
                                         (if dexp x <? nx then nx else dexp x)
                      end) = true) as H.
    { unfold unconn_d. destruct mode; cbn [dttl]; intros Hx; [now rewrite Hc|].
      destruct (dttl x <? ttl); [now rewrite Hc | assumption]. }
    destruct (unconn_d x); [rewrite (H eq_refl); lia|].
    destruct (unconn_d _); lia.
  - rewrite !count_unconn_cons. lia.
Qed.

Lemma count_unconn_remove_nth i l : count_unconn l - 1 <= count_unconn (remove_nth i l).
Proof.
  revert i. induction l as [|x r IH]; intros i; cbn [remove_nth].
  - destruct i; unfold count_unconn; cbn; lia.
  - destruct i; cbn [remove_nth].
    + rewrite count_unconn_cons. destruct (unconn_d x); lia.
    + rewrite !count_unconn_cons. specialize (IH i). lia.
Qed.

Lemma nearest_from_none l : forall i best,
  nearest_from l i best = None -> best = None /\ count_unconn l = 0.
Proof.
  induction l as [|e t IH]; intros i best; cbn [nearest_from].
  - intros ->. split; reflexivity.
  - intros H. apply IH in H. destruct H as [Hb Ht].
    rewrite count_unconn_cons, Ht. unfold unconn_d.
    destruct (conn (dttl e)).
    + split; [assumption | reflexivity].
    + destruct best as [[j so]|]; [destruct (dexp e <? so)|]; discriminate.
Qed.

Lemma nearest_idx_none l : nearest_idx l = None -> count_unconn l = 0.
Proof.
  unfold nearest_idx. destruct (nearest_from l 0 None) eqn:E; [discriminate|].
  intros _. apply (nearest_from_none _ _ _ E).
Qed.

(* the loop's invariant for an unconnected incoming class under a positive cap *)
Definition cap_inv (seen : list Z) (st : capst) : Prop :=
  let '(cur, fresh, cnt) := st in
  cnt <= count_unconn cur + Z.of_nat (length fresh) /\
  NoDup (map da fresh) /\ incl (map da fresh) seen.

Lemma cap_inv_step mode ttl nx cap seen st a :
  conn ttl = false -> cap_inv seen st -> cap_inv (seen ++ [a]) (cap_one mode ttl nx cap st a).
Proof.
  intros Hc. destruct st as [[cur fresh] cnt]. intros [Hcnt [Hnd Hin]].
  assert (Hin' : incl (map da fresh) (seen ++ [a])) by (intros x Hx; apply in_or_app; left; apply Hin, Hx).
  unfold cap_one. destruct (find_de a cur) eqn:Fc.
  - cbn [cap_inv]. split; [|split; assumption].
    pose proof (count_unconn_upd mode a ttl nx cur Hc). lia.
  - destruct (find_de a fresh) eqn:Ff.
    + cbn [cap_inv]. rewrite map_da_upd_existing.
      split; [|split; assumption].
      assert (length (upd_existing mode a ttl nx fresh) = length fresh) as ->.
      { rewrite <- (map_length da), map_da_upd_existing, map_length. reflexivity. }
      assumption.
    + assert (Hnd' : NoDup (map da (fresh ++ [mkD a ttl nx]))).
      { rewrite map_app. cbn [map da]. apply NoDup_snoc.
        - assumption.
        - apply find_de_None_notin, Ff. }
      assert (Hin'' : incl (map da (fresh ++ [mkD a ttl nx])) (seen ++ [a])).
      { rewrite map_app. cbn [map da]. intros x Hx. apply in_app_or in Hx.
        destruct Hx as [Hx|[<-|[]]]; [apply Hin', Hx | apply in_or_app; right; left; reflexivity]. }
      rewrite Hc. cbn [negb]. rewrite andb_true_r.
      destruct ((0 <? cap) && (cap <=? cnt)).
      * destruct (nearest_idx cur) as [i|] eqn:N.
        -- cbn [cap_inv]. split; [|split; assumption].
           rewrite app_length. cbn [length].
           pose proof (count_unconn_remove_nth i cur). lia.
        -- cbn [cap_inv]. split; [assumption|split; assumption].
      * cbn [cap_inv]. split; [|split; assumption].
        rewrite app_length. cbn [length]. lia.
Qed.

Lemma cap_inv_loop mode ttl nx cap : forall addrs seen st,
  conn ttl = false -> cap_inv seen st ->
  cap_inv (seen ++ addrs) (fold_left (cap_one mode ttl nx cap) addrs st).
Proof.
  induction addrs as [|a r IH]; intros seen st Hc Hi; cbn [fold_left].
  - rewrite app_nil_r. assumption.
  - replace (seen ++ a :: r) with ((seen ++ [a]) ++ r) by (rewrite <- app_assoc; reflexivity).
    apply IH; [assumption|]. apply cap_inv_step; assumption.
Qed.

Lemma cap_inv_init ttl cap orig : cap_inv [] (orig, [], cap_count0 ttl cap orig).
Proof.
  cbn [cap_inv]. split; [|split].
  - unfold cap_count0. pose proof (count_unconn_nonneg orig).
    destruct ((0 <? cap) && negb (conn ttl)); cbn [length]; lia.
  - constructor.
  - intros x [].
Qed.

(* one iteration keeps the address it names unless it takes the "dropped" exit *)
Lemma cap_one_keeps mode ttl nx cap cur fresh cnt a :
  (find_de a cur = None -> find_de a fresh = None ->
   (0 <? cap) && negb (conn ttl) && (cap <=? cnt) = true -> nearest_idx cur <> None) ->
  let '(cur', fresh', _) := cap_one mode ttl nx cap (cur, fresh, cnt) a in
  exists e, In e (cur' ++ fresh') /\ da e = a /\ nx <= dexp e.
Proof.
  intros Hroom. unfold cap_one.
  destruct (find_de a cur) eqn:Fc.
  - destruct (upd_existing_hit mode a ttl nx cur _ Fc) as [e [Hin He]].
    exists e. split; [apply in_or_app; left; assumption | assumption].
  - destruct (find_de a fresh) eqn:Ff.
    + destruct (upd_existing_hit mode a ttl nx fresh _ Ff) as [e [Hin He]].
      exists e. split; [apply in_or_app; right; assumption | assumption].
    + assert (Hnew : forall c, exists e, In e (c ++ fresh ++ [mkD a ttl nx]) /\ da e = a /\ nx <= dexp e).
      { intros c. exists (mkD a ttl nx). split.
        - apply in_or_app; right. apply in_or_app; right. left. reflexivity.
        - cbn. split; [reflexivity | lia]. }
      destruct ((0 <? cap) && negb (conn ttl) && (cap <=? cnt)) eqn:C.
      * destruct (nearest_idx cur) as [i|] eqn:N; [apply Hnew|].
        exfalso. exact (Hroom eq_refl eq_refl eq_refl eq_refl).
      * apply Hnew.
Qed.

(* THE pstoreds LOOP: a batch that names at most [cap] distinct addresses (or
   any batch when the cap is off or the incoming class is connected) leaves
   the address it names LAST in the record, with at least the new expiry —
   whatever the record held before, whichever entries were evicted on the way. *)
Theorem cap_loop_keeps_last mode ttl nx cap pre a orig :
  cap <= 0 \/ conn ttl = true \/ distinct_count (pre ++ [a]) <= cap ->
  let '(cur, fresh, _) := cap_loop mode ttl nx cap (pre ++ [a]) orig in
  exists e, In e (cur ++ fresh) /\ da e = a /\ nx <= dexp e.
Proof.
  intros Hfit. unfold cap_loop. rewrite fold_left_app. cbn [fold_left].
  destruct (fold_left (cap_one mode ttl nx cap) pre (orig, [], cap_count0 ttl cap orig))
    as [[cur1 fresh1] cnt1] eqn:E1.
  apply cap_one_keeps. intros Fc Ff C N.
  apply andb_prop in C. destruct C as [C C3]. apply andb_prop in C. destruct C as [C1 C2].
  apply Z.ltb_lt in C1. apply Z.leb_le in C3.
  destruct (conn ttl) eqn:Hc; [discriminate|].
  destruct Hfit as [H|[H|H]]; [lia | discriminate |].
  pose proof (cap_inv_loop mode ttl nx cap pre [] _ Hc (cap_inv_init ttl cap orig)) as Hi.
  rewrite E1 in Hi. cbn [cap_inv app] in Hi. destruct Hi as [Hcnt [Hnd Hin]].
  apply nearest_idx_none in N.
  pose proof (distinct_ge (map da fresh1) pre a Hnd Hin (find_de_None_notin _ _ Ff)) as Hd.
  rewrite map_length in Hd. lia.
Qed.

(* ... and so does the record setAddrs writes (sort, removeExpired), when the
   new expiry lies in the future *)
Lemma remove_expired_keeps l u e : In e l -> u < dexp e -> In e (remove_expired l u).
Proof.
  induction l as [|x t IH]; intros Hin Hu; [destruct Hin|].
  cbn [remove_expired]. destruct (u <? dexp x) eqn:F; [assumption|].
  destruct Hin as [->|Hin]; [apply Z.ltb_ge in F; lia | apply IH; assumption].
Qed.

Theorem dc_batch_record_keeps_last cap now pr pre a ttl mode :
  unix now < unix (now + ttl) ->
  cap <= 0 \/ conn ttl = true \/ distinct_count (pre ++ [a]) <= cap ->
  exists e, In e (daddrs (dc_batch_record cap now pr (pre ++ [a]) ttl mode)) /\
            da e = a /\ unix now < dexp e.
Proof.
  intros Hfut Hfit. unfold dc_batch_record.
  pose proof (cap_loop_keeps_last mode ttl (unix (now + ttl)) cap pre a (daddrs pr) Hfit) as H.
  destruct (cap_loop mode ttl (unix (now + ttl)) cap (pre ++ [a]) (daddrs pr)) as [[cur fresh] cnt].
  destruct H as [e [Hin [Ha Hx]]]. exists e. split; [|split; [assumption | lia]].
  unfold clean. cbn [ddirty daddrs negb andb dp dcert].
  destruct (Nat.eqb (length (cur ++ fresh)) 0) eqn:Z0.
  - apply Nat.eqb_eq in Z0. destruct (cur ++ fresh); [destruct Hin | discriminate].
  - cbn [fst daddrs]. apply remove_expired_keeps; [|lia].
    destruct (Nat.ltb 1 (length (cur ++ fresh))); [|assumption].
    apply (Permutation_in _ (Permutation_sym (sort_exp_perm _))). assumption.
Qed.

(* ---- the pstoremem loop --------------------------------------------------- *)
(* whichever victim Go's map order makes it pick: the address named last stays *)
Theorem mc_loop_keeps_last (choose : list dent -> option Z) set ttl exp cap pre a l :
  (forall l, 0 < count_unconn l -> choose l <> None) ->
  exists e, In e (mc_loop choose set ttl exp cap (pre ++ [a]) l) /\ da e = a /\ exp <= dexp e.
Proof.
  intros Hch. unfold mc_loop. rewrite fold_left_app. cbn [fold_left].
  set (l1 := fold_left (mc_one choose set ttl exp cap) pre l). clearbody l1.
  unfold mc_one. destruct (find_de a l1) eqn:F.
  - apply (upd_existing_hit _ a ttl exp l1 _ F).
  - assert (Hnew : forall c, exists e, In e (c ++ [mkD a ttl exp]) /\ da e = a /\ exp <= dexp e).
    { intros c. exists (mkD a ttl exp). split; [apply in_or_app; right; left; reflexivity|].
      cbn. split; [reflexivity | lia]. }
    destruct ((0 <? cap) && negb (conn ttl) && (cap <=? count_unconn l1)) eqn:C; [|apply Hnew].
    destruct (choose l1) eqn:Ch; [apply Hnew|].
    exfalso. apply andb_prop in C. destruct C as [C C3]. apply andb_prop in C. destruct C as [C1 _].
    apply Z.ltb_lt in C1. apply Z.leb_le in C3. apply (Hch l1); [lia | assumption].
Qed.

Lemma choose_first_some l : 0 < count_unconn l -> choose_first l <> None.
Proof.
  intros H. unfold choose_first. destruct (nearest_idx l) eqn:N; [discriminate|].
  apply nearest_idx_none in N. lia.
Qed.

(* ---- from the loop to the book's answer ----------------------------------- *)
Lemma remove_expired_head l u :
  match remove_expired l u with x :: _ => u < dexp x | [] => True end.
Proof.
  induction l as [|x t IH]; cbn [remove_expired]; [exact I|].
  destruct (u <? dexp x) eqn:F; [apply Z.ltb_lt in F; exact F | exact IH].
Qed.

Lemma load_facts s p u : forall s1 pr inc, load s p true u = (s1, pr, inc) ->
  d_now s1 = d_now s /\ d_cached s1 = d_cached s /\
  (inc = false -> find_dr p (d_cache s1) = None /\ d_cached s = false).
Proof.
  intros s1 pr inc. unfold load.
  destruct (find_dr p (d_cache s)) as [c|] eqn:Fc.
  - destruct (clean (d_now s) c) as [pr1 chg]. destruct chg; intros H; injection H as <- <- <-;
      (split; [reflexivity | split; [reflexivity | discriminate]]).
  - destruct (find_dr p (d_store s)) as [data|].
    + destruct (clean (d_now s) (undirty data)) as [pr1 chg].
      destruct chg; cbn [andb]; destruct (d_cached s) eqn:Dc; cbn [d_cached set_store set_cache];
        intros H; injection H as <- <- <-; cbn [d_now d_cached d_cache set_store set_cache];
        (split; [reflexivity | split; [assumption || reflexivity | ]]);
        try discriminate; intros _; (split; [assumption | reflexivity]).
    + cbn [andb]. destruct (d_cached s) eqn:Dc; cbn [d_cached set_store set_cache];
        intros H; injection H as <- <- <-; cbn [d_now d_cached d_cache set_store set_cache];
        (split; [reflexivity | split; [assumption || reflexivity | ]]);
        try discriminate; intros _; (split; [assumption | reflexivity]).
Qed.

(* a record as setAddrs leaves it: not dirty, first entry not expired *)
Lemma clean_noop now r :
  ddirty r = false -> (match daddrs r with x :: _ => unix now < dexp x | [] => True end) ->
  clean now r = (r, false).
Proof.
  intros Hd Hh. unfold clean, has_expired. rewrite Hd. cbn [negb andb].
  destruct (daddrs r) as [|x t]; [reflexivity|].
  destruct (dexp x <=? unix now) eqn:E; [apply Z.leb_le in E; lia | reflexivity].
Qed.

Lemma dc_batch_record_head cap now pr addrs ttl mode :
  match daddrs (dc_batch_record cap now pr addrs ttl mode) with
  | x :: _ => unix now < dexp x | [] => True end.
Proof.
  unfold dc_batch_record.
  destruct (cap_loop mode ttl (unix (now + ttl)) cap addrs (daddrs pr)) as [[cur fresh] cnt].
  unfold clean. cbn [ddirty daddrs negb andb dp dcert].
  destruct (Nat.eqb (length (cur ++ fresh)) 0) eqn:Z0.
  - cbn [fst daddrs]. apply Nat.eqb_eq in Z0. destruct (cur ++ fresh); [exact I | discriminate].
  - cbn [fst daddrs]. apply remove_expired_head.
Qed.

Lemma dc_batch_record_dp cap now pr addrs ttl mode :
  dp (dc_batch_record cap now pr addrs ttl mode) = dp pr.
Proof.
  unfold dc_batch_record.
  destruct (cap_loop mode ttl (unix (now + ttl)) cap addrs (daddrs pr)) as [[cur fresh] cnt].
  unfold clean. cbn [ddirty daddrs negb andb dp dcert].
  destruct (Nat.eqb (length (cur ++ fresh)) 0); reflexivity.
Qed.

(* THE pstoreds BOOK, any state whatsoever (any cache content, any stored
   records, either cache mode): AddAddrs / SetAddrs with a TTL that moves the
   whole-second expiry into the future, naming at most [cap] distinct
   addresses, and Addrs right after returns the address named last. *)
Theorem dc_setaddrs_then_addrs cap s p pre a ttl mode :
  unix (d_now s) < unix (d_now s + ttl) ->
  cap <= 0 \/ conn ttl = true \/ distinct_count (pre ++ [a]) <= cap ->
  In a (snd (d_addrs (dc_setaddrs cap s p (pre ++ [a]) ttl mode) p)).
Proof.
  intros Hfut Hfit. unfold dc_setaddrs.
  assert (Hne : exists b0 rest, pre ++ [a] = b0 :: rest) by (destruct pre; cbn; eauto).
  destruct Hne as [b0 [rest Eb]]. rewrite Eb. cbv beta iota. rewrite <- Eb.
  destruct (load s p true false) as [[s1 pr] inc] eqn:L.
  destruct (load_facts _ _ _ _ _ _ L) as [Hnow [Hcd Hinc]].
  set (pr0 := mkDR p (daddrs pr) (dcert pr) (ddirty pr)).
  set (R := dc_batch_record cap (d_now s) pr0 (pre ++ [a]) ttl mode).
  destruct (dc_batch_record_keeps_last cap (d_now s) pr0 pre a ttl mode Hfut Hfit) as [e [Hin [Ha _]]].
  fold R in Hin.
  pose proof (dc_batch_record_head cap (d_now s) pr0 (pre ++ [a]) ttl mode) as Hhead. fold R in Hhead.
  assert (Hdp : dp R = p) by (unfold R; rewrite dc_batch_record_dp; reflexivity).
  destruct (daddrs R) as [|x0 t0] eqn:DR; [destruct Hin|].
  set (R' := mkDR p (x0 :: t0) (dcert R) false).
  assert (Hfl : flushed R = R') by (unfold flushed, R'; rewrite DR, Hdp; reflexivity).
  assert (Hfs : forall st, find_dr p (flush_store R st) = Some R').
  { intros st. rewrite find_flush_store, Hdp, Z.eqb_refl, DR. reflexivity. }
  assert (Hclean : forall now', now' = d_now s -> clean now' R' = (R', false)).
  { intros now' ->. apply clean_noop; [reflexivity | exact Hhead]. }
  assert (Hgoal : In a (map da (daddrs R'))).
  { cbn [daddrs R']. rewrite <- Ha. apply in_map. rewrite <- DR in Hin |- *. exact Hin. }
  unfold d_addrs, flush. rewrite Hfl.
  destruct inc.
  - (* the object lives in the cache *)
    unfold writeback, load.
    cbn [d_cache set_cache set_store d_now d_store].
    rewrite find_put. cbn [dp R']. rewrite Z.eqb_refl.
    rewrite (Hclean _ Hnow). cbn [snd]. exact Hgoal.
  - destruct (Hinc eq_refl) as [Hnc Hnocache].
    unfold writeback, load.
    cbn [d_cache set_cache set_store d_now d_store d_cached].
    rewrite Hnc, Hfs.
    assert (undirty R' = R') as -> by reflexivity.
    rewrite (Hclean _ Hnow). rewrite Hcd, Hnocache. cbn [andb snd]. exact Hgoal.
Qed.

(* ---- the capped model with the cap off IS the model of Model_ds.v --------- *)
Definition is_some {X} (o : option X) : bool := match o with Some _ => true | None => false end.

Lemma find_de_same_keys a l l' : map da l = map da l' -> is_some (find_de a l) = is_some (find_de a l').
Proof.
  intros E.
  destruct (find_de a l) as [e|] eqn:F1; destruct (find_de a l') as [e'|] eqn:F2; try reflexivity; exfalso.
  - assert (H : exists d, find_de a l = Some d) by eauto.
    apply find_de_zmem in H. rewrite E in H. apply find_de_zmem in H. destruct H as [d H]. congruence.
  - assert (H : exists d, find_de a l' = Some d) by eauto.
    apply find_de_zmem in H. rewrite <- E in H. apply find_de_zmem in H. destruct H as [d H]. congruence.
Qed.

Lemma cap_off_loop mode ttl nx cap orig : cap <= 0 -> forall addrs c0 f0 n,
  map da c0 = map da orig ->
  fst (fold_left (cap_one mode ttl nx cap) addrs (c0, f0, n)) =
  fold_left (fun (acc : list dent * list dent) a =>
               let '(cur, fresh) := acc in
               match find_de a orig with
               | Some _ => (upd_existing mode a ttl nx cur, fresh)
               | None =>
                   match find_de a fresh with
                   | Some _ => (cur, upd_existing mode a ttl nx fresh)
                   | None => (cur, fresh ++ [mkD a ttl nx])
                   end
               end) addrs (c0, f0).
Proof.
  intros Hcap. induction addrs as [|a r IH]; intros c0 f0 n Hk; cbn [fold_left]; [reflexivity|].
  pose proof (find_de_same_keys a c0 orig Hk) as Hs.
  unfold cap_one at 2.
  assert (Hz : (0 <? cap) = false) by (apply Z.ltb_ge; lia).
  destruct (find_de a c0) eqn:F1; destruct (find_de a orig) eqn:F2; cbn [is_some] in Hs; try discriminate.
  - apply IH. rewrite map_da_upd_existing. assumption.
  - destruct (find_de a f0).
    + apply IH. assumption.
    + rewrite Hz. cbn [andb]. apply IH. assumption.
Qed.

Lemma dc_setaddrs_cap_off cap s p addrs ttl mode : cap <= 0 ->
  dc_setaddrs cap s p addrs ttl mode = d_setaddrs s p addrs ttl mode.
Proof.
  intros Hcap. unfold dc_setaddrs, d_setaddrs. destruct addrs as [|a0 r0]; [reflexivity|].
  destruct (load s p true false) as [[s1 pr] inc].
  unfold dc_batch_record, cap_loop. cbn [daddrs dp dcert].
  pose proof (cap_off_loop mode ttl (unix (d_now s + ttl)) cap (daddrs pr) Hcap (a0 :: r0)
                (daddrs pr) [] (cap_count0 ttl cap (daddrs pr)) eq_refl) as H.
  destruct (fold_left (cap_one mode ttl (unix (d_now s + ttl)) cap) (a0 :: r0)
              (daddrs pr, [], cap_count0 ttl cap (daddrs pr))) as [[c f] n].
  cbn [fst] in H. rewrite <- H.
  destruct (clean (d_now s) (mkDR p (c ++ f) (dcert pr) true)) as [pr2 chg]. reflexivity.
Qed.

Lemma dc_step_cap_off cap s o : cap <= 0 -> dc_step cap s o = d_step s o.
Proof.
  intros Hcap. destruct o; cbn [dc_step d_step]; try reflexivity.
  - unfold dc_add, d_add. destruct (_ <=? 0); [reflexivity|]. rewrite dc_setaddrs_cap_off by assumption. reflexivity.
  - unfold dc_set, d_set. destruct (_ <=? 0); [reflexivity|]. rewrite dc_setaddrs_cap_off by assumption. reflexivity.
  - destruct bad; [reflexivity|]. unfold dc_consume, d_consume.
    destruct (load s p true false) as [[s1 pr] inc].
    destruct (seq <? _); [reflexivity|].
    destruct (d_getrec_full s1 p) as [s2 prev].
    rewrite dc_setaddrs_cap_off by assumption. reflexivity.
Qed.

Theorem dc_trace_cap_off cap : cap <= 0 -> forall ops s, dc_trace cap s ops = d_trace s ops.
Proof.
  intros Hcap. induction ops as [|o r IH]; intros s; cbn [dc_trace d_trace]; [reflexivity|].
  rewrite dc_step_cap_off by assumption. destruct (d_step s o) as [s' x]. rewrite IH. reflexivity.
Qed.

(* ---- witnesses ----------------------------------------------------------- *)
Lemma cap_clause_not_vacuous_l :
  let h := [OAdd 1 (3600 * SEC) [(1, 0)]; OAdd 1 (7200 * SEC) [(2, 0)]; OAdd 1 (10800 * SEC) [(3, 0); (1, 0)]; OAddrs 1] in
  let o := [mkD 1 (3600 * SEC) 3600; mkD 2 (7200 * SEC) 7200] in
  map snd (dc_trace 2 (d_init false 0) h) = [ONone; ONone; ONone; OList [3; 1]] /\
  map snd (dc_trace 2 (d_init true 0) h) = [ONone; ONone; ONone; OList [3; 1]] /\
  holds_weak 2 0 0 (dc_trace 2 (d_init false 0) h) = true /\
  map da (mc_loop choose_first false (10800 * SEC) 10800 2 [3; 1] o) = [3; 1] /\
  fst (fold_left (cap_one_orphan TExtend (10800 * SEC) 10800 2) [3; 1] ((o, [], 2), [])) =
    ([mkD 2 (7200 * SEC) 7200], [mkD 3 (10800 * SEC) 10800], 2) /\
  holds_weak 2 0 0 [(OAdd 1 (3600 * SEC) [(1, 0)], ONone); (OAdd 1 (7200 * SEC) [(2, 0)], ONone);
                    (OAdd 1 (10800 * SEC) [(3, 0); (1, 0)], ONone); (OAddrs 1, OList [2; 3])] = false /\
  map snd (dc_trace 1 (d_init false 0) [OAdd 1 (120 * SEC) [(1, 0); (2, 0)]; OAddrs 1]) = [ONone; OList [1]] /\
  holds_weak 1 0 0 (dc_trace 1 (d_init false 0) [OAdd 1 (120 * SEC) [(1, 0); (2, 0)]; OAddrs 1]) = true.
Proof. vm_compute. repeat split; reflexivity. Qed.
